import GrmVerif.Model.Header
import GrmVerif.Model.YaccLex
/-!
Model of the yacc text parser `YaccParser` (`cfgrammar/src/lib/yacc/parser.rs`): `parse`,
`parse_declarations`, `parse_rules`, `parse_rule`, `parse_programs`, `parse_name`, `parse_token`,
`parse_action`, `parse_to_eol`, `parse_to_single_colon`, `parse_int`, `parse_string`, `parse_ws`,
`lookahead_is`, `mk_error`, `add_duplicate_occurrence`, and `GrammarAST::add_rule`/`add_prod`.

It is a transcription of the CONTROL FLOW AND POSITIONS of the Rust code:

* a text is a `List Char`, every position is a UTF-8 BYTE offset (`Char.utf8Size`);
* `&self.src[i..]` is `Header.slice src i`, `&self.src[a..b]` is `Header.sliceRange src a b`: both are
  `Res.panic` when a bound is beyond the text, inside a character, or `a > b` — as in Rust;
* other panics of the Rust code are explicit too: `Span::new(a, b)` with `b < a` (`mkSpan`),
  `.chars().next().unwrap()` on an empty rest (`nextChar`), `lookahead_is("%%", i).unwrap()`
  (`parseRules`), `self.rules[&rule_name]` for a missing rule (`addProd`), `e.spans[0]` on an error
  without spans (`addDup`), `assert!(m.end() > 0)` (`parseToken`) and the three `debug_assert!`s
  (they are compiled in debug builds);
* every `while`/`for` loop of the parser takes fuel, one unit per iteration; running out is the
  explicit result `Res.fuelOut`. The one exception is `parse_ws`, for which the existing model
  `YaccLex.parseWs` (a structural recursion over the rest of the text, specified in
  `Lemmas/YaccLex.lean` and tied to the code by C10) is applied to the slice `src[i..]`;
* `&mut self` (`num_newlines`, `global_actiontype`, the AST) and the `&mut Vec` of errors of
  `parse_declarations` are the state `St` of the monad `M`; an `Err(e)` leaves the state as it was at
  the `?`/`return`, exactly like the Rust code leaves `self` and `errs`;
* the two regular expressions are transcribed as matcher functions returning the matched prefix
  (both are anchored with `^`, so `m.start() = 0`):
    RE_NAME   `^[a-zA-Z_.][a-zA-Z0-9_.]*`                               `reName`
    RE_TOKEN  `^(?:(".+?")|('.+?')|([a-zA-Z_.][a-zA-Z_0-9.]*))`         `reToken`
  (`.` is any character but `\n`; `+?` is lazy, so the match ends at the FIRST closing quote that
  has at least one character before it; the three alternatives start with different characters).

The AST is abstracted to what the errors depend on and to names with spans: strings that are only
stored (action code, `%parse-param` name, rule action types) are dropped, so `str::trim` is not
modelled. `c` of `parse_action` is an `Int` (an `i32` in Rust; 2³¹ nested braces are out of scope);
`usize` is taken to be 64 bits in `parse_int`.
Core Lean only: this file is linked into the native driver.
-/
namespace GrmVerif.YaccParse
open GrmVerif.Header (Res Span byteLen slice sliceRange lookahead)

abbrev Name := List Char

/-- `YaccKind` as far as the parser's control flow distinguishes it: `Original(_)` (any action kind),
`Grmtools`, `Eco` -/
inductive Kind where
  | grmtools | original | eco
deriving DecidableEq, Repr

/-- the `YaccGrammarErrorKind`s the text parser can return -/
inductive EK where
  | illegalInteger | illegalName | illegalString | incompleteRule | incompleteComment
  | incompleteAction | missingColon | missingRightArrow | nonEmptyProduction | prematureEnd
  | productionNotTerminated | unknownDeclaration | dupPrecedence | dupAvoidInsert
  | dupImplicitTokens | dupExpect | dupExpectRR | dupStart | dupActiontype | dupEPP | reachedEOL
  | invalidString | unknownSymbol
  | header (k : Header.ErrKind)      -- `Header(kind, spanskind)` from the `%grmtools` section
deriving DecidableEq, Repr

/-- `YaccGrammarError` -/
structure YErr where
  kind : EK
  spans : List Span
deriving Repr

inductive Assoc where
  | left | right | nonassoc
deriving DecidableEq, Repr

/-- `ast::Symbol` -/
structure Sym where
  isTok : Bool
  name : Name
  span : Span
deriving Repr

/-- `ast::Production` with the rule it was added to (`rules[rule].pidxs`); of the action only its
presence is kept -/
structure Prod where
  rule : Name
  syms : List Sym
  prec : Option Name
  action : Bool
  span : Span
deriving Repr

/-- the part of `GrammarAST` that is kept; maps are association lists in insertion order -/
structure Ast where
  start : Option (Name × Span) := none
  rules : List (Name × Span) := []
  prods : List Prod := []
  /-- `tokens` (an `IndexSet`) zipped with the parallel vector `spans` -/
  tokens : List (Name × Span) := []
  /-- the names whose index is in `token_directives` -/
  tokenDirs : List Name := []
  precs : List (Name × Nat × Assoc × Span) := []
  avoidInsert : Option (List (Name × Span)) := none
  implicitTokens : Option (List (Name × Span)) := none
  /-- key, key span, value, value span -/
  epp : List (Name × Span × Name × Span) := []
  expect : Option (Nat × Span) := none
  expectrr : Option (Nat × Span) := none
  /-- the type text of `%parse-param` (the name is `trim`med in Rust and not kept here) -/
  parseParam : Option Name := none
  parseGenerics : Option Name := none
  /-- byte length of the programs section -/
  programs : Option Nat := none
  expectUnused : List Sym := []
deriving Repr

/-- the mutable state: `self.num_newlines`, the span of `self.global_actiontype`, `self.ast`, and the
`errs` vector of `parse` -/
structure St where
  nl : Nat := 0
  actiontype : Option Span := none
  ast : Ast := {}
  errs : List YErr := []
deriving Repr

/-! ### the state-and-result monad -/

/-- a `&mut self` method returning `Result<α, YaccGrammarError>` -/
def M (α : Type) : Type := St → Res (YErr × St) (α × St)

instance : Monad M where
  pure a := fun st => .ok (a, st)
  bind m f := fun st =>
    match m st with
    | .ok (a, st') => f a st'
    | .err e => .err e
    | .panic => .panic
    | .fuelOut => .fuelOut

/-- a `&self` method (the state is untouched) -/
def liftR {α : Type} (r : Res YErr α) : M α := fun st =>
  match r with
  | .ok a => .ok (a, st)
  | .err e => .err (e, st)
  | .panic => .panic
  | .fuelOut => .fuelOut

def getSt : M St := fun st => .ok (st, st)
def modifySt (f : St → St) : M Unit := fun st => .ok ((), f st)
def modifyAst (f : Ast → Ast) : M Unit := modifySt (fun st => { st with ast := f st.ast })
def panicM {α : Type} : M α := fun _ => .panic
def fuelOutM {α : Type} : M α := fun _ => .fuelOut

/-- `self.mk_error(k, off)`: one span `Span::new(off, off)` -/
def mkError (k : EK) (off : Nat) : YErr := ⟨k, [(off, off)]⟩

/-- `return Err(self.mk_error(k, off))` -/
def throwAt {α : Type} (k : EK) (off : Nat) : M α := fun st => .err (mkError k off, st)

def errAt {α : Type} (k : EK) (off : Nat) : Res YErr α := .err (mkError k off)

/-- `Span::new(a, b)`: panics when `b < a` -/
def mkSpan {ε : Type} (a b : Nat) : Res ε Span := if b < a then .panic else .ok (a, b)

/-- `self.src[j..].chars().next().unwrap()` -/
def nextChar {ε : Type} (src : List Char) (j : Nat) : Res ε Char := do
  let rest ← slice src j
  match rest with
  | [] => .panic
  | c :: _ => pure c

/-- `self.lookahead_is(s, i)` -/
def la (src : List Char) (s : String) (i : Nat) : M (Option Nat) := liftR (lookahead src s.toList i)

/-- `cond && let Some(j) = self.lookahead_is(s, i)`: the lookahead is only evaluated when `cond` holds -/
def laWhen (cond : Bool) (src : List Char) (s : String) (i : Nat) : M (Option Nat) :=
  if cond then la src s i else pure none

/-! ### the regular expressions -/

/-- `[a-zA-Z_.]` -/
def isNameStart (c : Char) : Bool :=
  let n := c.toNat
  (65 ≤ n && n ≤ 90) || (97 ≤ n && n ≤ 122) || n == 95 || n == 46

/-- `[a-zA-Z0-9_.]` -/
def isNameCont (c : Char) : Bool := isNameStart c || (48 ≤ c.toNat && c.toNat ≤ 57)

/-- `RE_NAME.find(rest)`: the matched text -/
def reName : List Char → Option (List Char)
  | [] => none
  | c :: cs => if isNameStart c then some (c :: cs.takeWhile isNameCont) else none

/-- the lazy `.*?q` after the first character of a quoted token: up to and including the first `q`;
no match when a `\n` comes first or the text ends -/
def quotedTail (q : Char) : List Char → Option (List Char)
  | [] => none
  | c :: cs =>
    if c = q then some [c]
    else if c = '\n' then none
    else (quotedTail q cs).map (c :: ·)

/-- `.+?q` after the opening quote: one character that is not `\n` (it may be `q` itself), then
`quotedTail` -/
def quotedBody (q : Char) : List Char → Option (List Char)
  | [] => none
  | c :: cs => if c = '\n' then none else (quotedTail q cs).map (c :: ·)

/-- `RE_TOKEN.find(rest)`: the matched text -/
def reToken : List Char → Option (List Char)
  | [] => none
  | c :: cs =>
    if c = '"' ∨ c = '\'' then (quotedBody c cs).map (c :: ·)
    else if isNameStart c then some (c :: cs.takeWhile isNameCont)
    else none

/-! ### `&self` helpers -/

/-- `parse_name` -/
def parseName (src : List Char) (i : Nat) : Res YErr (Nat × Name) := do
  let rest ← slice src i
  match reName rest with
  | some m => do
    let name ← sliceRange src i (i + byteLen m)
    pure (i + byteLen m, name)
  | none => errAt .illegalName i

/-- `parse_token`: `(end, name, span, quoted)` -/
def parseToken (src : List Char) (i : Nat) : Res YErr (Nat × Name × Span × Bool) := do
  let rest ← slice src i
  match reToken rest with
  | some m =>
    if m.isEmpty then .panic                      -- `assert!(m.start() == 0 && m.end() > 0)`
    else do
      let c ← nextChar src i
      if c = '"' ∨ c = '\'' then do
        let startCidx := i + 1
        let endCidx := i + byteLen m - 1
        let name ← sliceRange src startCidx endCidx
        let span ← mkSpan startCidx endCidx
        pure (i + byteLen m, name, span, true)
      else do
        let name ← sliceRange src i (i + byteLen m)
        let span ← mkSpan i (i + byteLen m)
        pure (i + byteLen m, name, span, false)
  | none => errAt .illegalString i

/-- the `while` loop of `parse_to_eol` -/
def toEolLoop (src : List Char) : Nat → Nat → Res YErr Nat
  | 0, _ => .fuelOut
  | f + 1, j =>
    if j < byteLen src then do
      let c ← nextChar src j
      if YaccLex.isEol c then pure j else toEolLoop src f (j + c.utf8Size)
    else pure j

/-- `parse_to_eol` (it is `&mut self` but changes nothing) -/
def parseToEol (src : List Char) (fuel i : Nat) : Res YErr (Nat × Name) := do
  let j ← toEolLoop src fuel i
  let s ← sliceRange src i j
  pure (j, s)

/-- the `while` loop of `parse_int` -/
def intLoop (src : List Char) : Nat → Nat → Res YErr Nat
  | 0, _ => .fuelOut
  | f + 1, j =>
    if j < byteLen src then do
      let c ← nextChar src j
      if Header.isDigit c then intLoop src f (j + 1) else pure j
    else pure j

/-- `parse_int::<usize>` (64-bit `usize`): `str::parse` fails on the empty string and on overflow -/
def parseInt (src : List Char) (fuel i : Nat) : Res YErr (Nat × Nat) := do
  let j ← intLoop src fuel i
  let s ← sliceRange src i j
  match Header.parseU64 s with
  | some n => pure (j, n)
  | none => errAt .illegalInteger i

/-- the `while` loop of `parse_string`; `i` is the start of the pending chunk -/
def strLoop (src : List Char) (qc : Char) : Nat → Nat → Nat → List Char → Res YErr (Nat × List Char)
  | 0, _, _, _ => .fuelOut
  | f + 1, i, j, s =>
    if j < byteLen src then do
      let c ← nextChar src j
      if YaccLex.isEol c then errAt .invalidString j
      else if c = qc then do
        let chunk ← sliceRange src i j
        pure (j + 1, s ++ chunk)
      else if c = '\\' then do
        let rest ← slice src (j + 1)
        match rest with
        | d :: _ =>
          if d = '\'' ∨ d = '"' then do
            let chunk ← sliceRange src i j
            strLoop src qc f (j + 1) (j + 2) (s ++ chunk)
          else errAt .invalidString j
        | [] => errAt .invalidString j
      else strLoop src qc f i (j + c.utf8Size) s
    else errAt .invalidString j

/-- `parse_string` (it is `&mut self` but changes nothing) -/
def parseString (src : List Char) (fuel i : Nat) : Res YErr (Nat × List Char) := do
  match ← lookahead src ['\''] i with
  | some _ => strLoop src '\'' fuel (i + 1) (i + 1) []
  | none =>
    match ← lookahead src ['"'] i with
    | some _ => strLoop src '"' fuel (i + 1) (i + 1) []
    | none => errAt .invalidString i

/-! ### `&mut self` helpers: `num_newlines` -/

def addNl (k : Nat) : M Unit := modifySt (fun st => { st with nl := st.nl + k })

def wsKind : YaccLex.Err → EK
  | .incompleteComment => .incompleteComment
  | _ => .reachedEOL

/-- `parse_ws(i, inc_newlines)`: the loop only runs (and only slices) while `i < self.src.len()`.
On an error the newlines counted so far are not added to the state: every error of `parse_ws` ends
the parse, after which `num_newlines` is never read. -/
def ws (src : List Char) (inc : Bool) (i : Nat) : M Nat := do
  if i < byteLen src then
    let rest ← liftR (slice src i)
    match YaccLex.parseWs inc rest with
    | .ok (n, k, _) => do
      addNl k
      pure (i + n)
    | .error (e, p) => throwAt (wsKind e) (i + p)
  else pure i

/-- the `while` loop of `parse_to_single_colon` -/
def colonLoop (src : List Char) : Nat → Nat → M Nat
  | 0, _ => fuelOutM
  | f + 1, j =>
    if j < byteLen src then do
      let c ← liftR (nextChar src j)
      if c = ':' then
        let k := j + 1
        if k = byteLen src then pure j
        else do
          let rest ← liftR (slice src k)
          if [':'].isPrefixOf rest then colonLoop src f (j + 2) else pure j
      else if YaccLex.isEol c then do
        addNl 1
        colonLoop src f (j + c.utf8Size)
      else colonLoop src f (j + c.utf8Size)
    else throwAt .reachedEOL j

/-- `parse_to_single_colon`: the position of the colon (the text before it is `trim`med and only
stored) -/
def parseToSingleColon (src : List Char) (fuel i : Nat) : M Nat := do
  let j ← colonLoop src fuel i
  let _ ← liftR (sliceRange src i j)
  pure j

/-- the `while` loop of `parse_action`: `(j, c)` at its exit -/
def actionLoop (src : List Char) : Nat → Nat → Int → M (Nat × Int)
  | 0, _, _ => fuelOutM
  | f + 1, j, c =>
    if j < byteLen src then do
      let ch ← liftR (nextChar src j)
      if ch = '{' then actionLoop src f (j + ch.utf8Size) (c + 1)
      else if ch = '}' then
        if c = 1 then pure (j, 0) else actionLoop src f (j + ch.utf8Size) (c - 1)
      else if YaccLex.isEol ch then do
        addNl 1
        actionLoop src f (j + ch.utf8Size) c
      else actionLoop src f (j + ch.utf8Size) c
    else pure (j, c)

/-- `parse_action(i)`: the position after the closing brace -/
def parseAction (src : List Char) (fuel i : Nat) : M Nat := do
  match ← la src "{" i with                 -- `debug_assert!(self.lookahead_is("{", i).is_some())`
  | none => panicM
  | some _ =>
    let (j, c) ← actionLoop src fuel i 0
    if c > 0 then throwAt .incompleteAction i
    else
      match ← la src "}" j with             -- `debug_assert!(self.lookahead_is("}", j).is_some())`
      | none => panicM
      | some _ => do
        let _ ← liftR (sliceRange src (i + 1) j)
        pure (j + 1)

/-! ### the AST and the error vector -/

def Ast.hasToken (a : Ast) (n : Name) : Bool := a.tokens.any (fun t => t.1 == n)
def Ast.hasRule (a : Ast) (n : Name) : Bool := a.rules.any (fun r => r.1 == n)

/-- `if self.ast.tokens.insert(n) { self.ast.spans.push(span) }` -/
def Ast.insertToken (a : Ast) (n : Name) (sp : Span) : Ast :=
  if a.hasToken n then a else { a with tokens := a.tokens ++ [(n, sp)] }

/-- `self.ast.token_directives.insert(idx)` -/
def Ast.addTokenDir (a : Ast) (n : Name) : Ast :=
  if a.tokenDirs.contains n then a else { a with tokenDirs := a.tokenDirs ++ [n] }

/-- `add_rule` guarded by `get_rule(..).is_none()` -/
def Ast.addRule (a : Ast) (n : Name) (sp : Span) : Ast :=
  if a.hasRule n then a else { a with rules := a.rules ++ [(n, sp)] }

/-- `add_duplicate_occurrence`; `none` = `e.spans[0]` on an error without spans (index panic) -/
def addDup (kind : EK) (orig dup : Span) : List YErr → Option (List YErr)
  | [] => some [⟨kind, [orig, dup]⟩]
  | e :: es =>
    if e.kind = kind then
      match e.spans with
      | [] => none
      | s0 :: _ =>
        if s0 = orig then some (⟨e.kind, e.spans ++ [dup]⟩ :: es)
        else (addDup kind orig dup es).map (e :: ·)
    else (addDup kind orig dup es).map (e :: ·)

def addDupM (kind : EK) (orig dup : Span) : M Unit := fun st =>
  match addDup kind orig dup st.errs with
  | some errs => .ok ((), { st with errs := errs })
  | none => .panic

/-- `self.ast.add_prod(..)`: `self.rules[&rule_name]` panics when the rule is missing -/
def addProd (p : Prod) : M Unit := fun st =>
  if st.ast.hasRule p.rule then .ok ((), { st with ast := { st.ast with prods := st.ast.prods ++ [p] } })
  else .panic

/-! ### `parse_declarations` -/

/-- the `while` loop of the `%token` declaration -/
def tokenLoop (src : List Char) : Nat → Nat → M Nat
  | 0, _ => fuelOutM
  | f + 1, i =>
    if i < byteLen src then do
      match ← la src "%" i with
      | none => do
        let (j, n, span, _) ← liftR (parseToken src i)
        modifyAst (fun a => (a.insertToken n span).addTokenDir n)
        let i ← ws src true j
        tokenLoop src f i
      | some _ => pure i
    else pure i

/-- after `%token` (ends at `j`) -/
def declToken (src : List Char) (fuel j : Nat) : M Nat := do
  let i ← ws src false j
  tokenLoop src fuel i

/-- `if let Some((_, orig_span)) = self.global_actiontype { add_duplicate_occurrence(..) } else { .. }` -/
def recordActiontype (span : Span) : M Unit := do
  match (← getSt).actiontype with
  | some orig => addDupM .dupActiontype orig span
  | none => modifySt (fun st => { st with actiontype := some span })

/-- after `%actiontype` -/
def declActiontype (src : List Char) (fuel j : Nat) : M Nat := do
  let i ← ws src false j
  let (j, _n) ← liftR (parseToEol src fuel i)
  let span ← liftR (mkSpan i j)
  recordActiontype span
  ws src true j

def recordStart (n : Name) (span : Span) : M Unit := do
  match (← getSt).ast.start with
  | some (_, orig) => addDupM .dupStart orig span
  | none => modifyAst (fun a => { a with start := some (n, span) })

/-- after `%start` -/
def declStart (src : List Char) (j : Nat) : M Nat := do
  let i ← ws src false j
  let (j, n) ← liftR (parseName src i)
  let span ← liftR (mkSpan i j)
  recordStart n span
  ws src true j

/-- `self.ast.epp.entry(n)` -/
def recordEpp (n : Name) (span : Span) (v : Name) (vspan : Span) : M Unit := do
  match (← getSt).ast.epp.find? (fun e => e.1 == n) with
  | some (_, orig, _, _) => addDupM .dupEPP orig span
  | none => modifyAst (fun a => { a with epp := a.epp ++ [(n, span, v, vspan)] })

/-- after `%epp` -/
def declEpp (src : List Char) (fuel j : Nat) : M Nat := do
  let i ← ws src false j
  let (j, n, _, _) ← liftR (parseToken src i)
  let span ← liftR (mkSpan i j)
  let i ← ws src false j
  let (j, v) ← liftR (parseString src fuel i)
  let vspan ← liftR (mkSpan i j)
  recordEpp n span v vspan
  ws src true j

def recordExpectRR (n : Nat) (span : Span) : M Unit := do
  match (← getSt).ast.expectrr with
  | some (_, orig) => addDupM .dupExpectRR orig span
  | none => modifyAst (fun a => { a with expectrr := some (n, span) })

/-- after `%expect-rr` -/
def declExpectRR (src : List Char) (fuel j : Nat) : M Nat := do
  let i ← ws src false j
  let (j, n) ← liftR (parseInt src fuel i)
  let span ← liftR (mkSpan i j)
  recordExpectRR n span
  ws src true j

def recordExpect (n : Nat) (span : Span) : M Unit := do
  match (← getSt).ast.expect with
  | some (_, orig) => addDupM .dupExpect orig span
  | none => modifyAst (fun a => { a with expect := some (n, span) })

/-- after `%expect` -/
def declExpect (src : List Char) (fuel j : Nat) : M Nat := do
  let i ← ws src false j
  let (j, n) ← liftR (parseInt src fuel i)
  let span ← liftR (mkSpan i j)
  recordExpect n span
  ws src true j

/-- one symbol of `%expect-unused`: a name if `parse_name` succeeds, else a token, else
`UnknownSymbol`; both errors are discarded -/
def unusedSym (src : List Char) (i : Nat) : M Nat :=
  match parseName src i with
  | .ok (j, n) => do
    let span ← liftR (mkSpan i j)
    modifyAst (fun a => { a with expectUnused := a.expectUnused ++ [⟨false, n, span⟩] })
    pure j
  | .err _ =>
    match parseToken src i with
    | .ok (j, n, span, _) => do
      modifyAst (fun a => { a with expectUnused := a.expectUnused ++ [⟨true, n, span⟩] })
      pure j
    | .err _ => throwAt .unknownSymbol i
    | .panic => panicM
    | .fuelOut => fuelOutM
  | .panic => panicM
  | .fuelOut => fuelOutM

/-- the `while` loop of `%expect-unused` -/
def unusedLoop (src : List Char) : Nat → Nat → M Nat
  | 0, _ => fuelOutM
  | f + 1, i =>
    if i < byteLen src then do
      match ← la src "%" i with
      | none => do
        let j ← unusedSym src i
        let i ← ws src true j
        unusedLoop src f i
      | some _ => pure i
    else pure i

/-- after `%expect-unused` -/
def declExpectUnused (src : List Char) (fuel j : Nat) : M Nat := do
  let i ← ws src false j
  unusedLoop src fuel i

/-- `avoid_insert.entry(n)`: record the duplicate or insert -/
def avoidEntry (n : Name) (span : Span) : M Unit := do
  match ((← getSt).ast.avoidInsert.getD []).find? (fun e => e.1 == n) with
  | some (_, orig) => addDupM .dupAvoidInsert orig span
  | none => modifyAst (fun a => { a with avoidInsert := some (a.avoidInsert.getD [] ++ [(n, span)]) })

/-- the `while j < self.src.len() && self.num_newlines == num_newlines` loop of `%avoid_insert`;
NOTE the condition tests `j0`, the END OF THE KEYWORD (the loop-local `j` shadows it only inside
the body), not the cursor `i`: at the end of the text the loop is entered again and `parse_token`
reports `IllegalString` there. -/
def avoidLoop (src : List Char) (j0 nl0 : Nat) : Nat → Nat → M Nat
  | 0, _ => fuelOutM
  | f + 1, i => do
    if j0 < byteLen src ∧ (← getSt).nl = nl0 then do
      let (j, n, span, _) ← liftR (parseToken src i)
      modifyAst (fun a => a.insertToken n span)
      avoidEntry n span
      let i ← ws src true j
      avoidLoop src j0 nl0 f i
    else pure i

/-- after `%avoid_insert` -/
def declAvoidInsert (src : List Char) (fuel j : Nat) : M Nat := do
  let i ← ws src false j
  let nl0 := (← getSt).nl
  modifyAst (fun a => { a with avoidInsert := some (a.avoidInsert.getD []) })
  avoidLoop src j nl0 fuel i

def implicitEntry (n : Name) (span : Span) : M Unit := do
  match ((← getSt).ast.implicitTokens.getD []).find? (fun e => e.1 == n) with
  | some (_, orig) => addDupM .dupImplicitTokens orig span
  | none =>
    modifyAst (fun a => { a with implicitTokens := some (a.implicitTokens.getD [] ++ [(n, span)]) })

/-- the loop of `%implicit_tokens` (same shape and same condition on `j0` as `%avoid_insert`) -/
def implicitLoop (src : List Char) (j0 nl0 : Nat) : Nat → Nat → M Nat
  | 0, _ => fuelOutM
  | f + 1, i => do
    if j0 < byteLen src ∧ (← getSt).nl = nl0 then do
      let (j, n, span, _) ← liftR (parseToken src i)
      modifyAst (fun a => a.insertToken n span)
      implicitEntry n span
      let i ← ws src true j
      implicitLoop src j0 nl0 f i
    else pure i

/-- after `%implicit_tokens` -/
def declImplicit (src : List Char) (fuel j : Nat) : M Nat := do
  let i ← ws src false j
  let nl0 := (← getSt).nl
  modifyAst (fun a => { a with implicitTokens := some (a.implicitTokens.getD []) })
  implicitLoop src j nl0 fuel i

/-- after `%parse-param` -/
def declParseParam (src : List Char) (fuel j : Nat) : M Nat := do
  let i ← ws src false j
  let j ← parseToSingleColon src fuel i
  match ← la src ":" j with
  | some j => do
    let i ← ws src false j
    let (j, ty) ← liftR (parseToEol src fuel i)
    modifyAst (fun a => { a with parseParam := some ty })
    ws src true j
  | none => throwAt .missingColon j

/-- after `%parse-generics` -/
def declParseGenerics (src : List Char) (fuel j : Nat) : M Nat := do
  let i ← ws src false j
  let (j, ty) ← liftR (parseToEol src fuel i)
  modifyAst (fun a => { a with parseGenerics := some ty })
  ws src true j

/-- `precs.entry(n)` -/
def precEntry (n : Name) (span : Span) (level : Nat) (kind : Assoc) : M Unit := do
  match (← getSt).ast.precs.find? (fun e => e.1 == n) with
  | some (_, _, _, orig) => addDupM .dupPrecedence orig span
  | none => modifyAst (fun a => { a with precs := a.precs ++ [(n, level, kind, span)] })

/-- the `while i < self.src.len() && num_newlines == self.num_newlines` loop of `%left`/… -/
def precLoop (src : List Char) (nl0 level : Nat) (kind : Assoc) : Nat → Nat → M Nat
  | 0, _ => fuelOutM
  | f + 1, i => do
    if i < byteLen src ∧ nl0 = (← getSt).nl then do
      let (j, n, span, _) ← liftR (parseToken src i)
      precEntry n span level kind
      let i ← ws src true j
      precLoop src nl0 level kind f i
    else pure i

/-- after `%left` / `%right` / `%nonassoc` (ends at `k`) -/
def declPrec (src : List Char) (fuel k level : Nat) (kind : Assoc) : M Nat := do
  let i ← ws src false k
  let nl0 := (← getSt).nl
  precLoop src nl0 level kind fuel i

/-- what one iteration of the loop of `parse_declarations` does -/
inductive Step where
  /-- `return Ok(i)` -/
  | done (i : Nat)
  /-- `continue` (or the end of the loop body) with the new `i` and `prec_level` -/
  | cont (i level : Nat)

/-- `%left` / `%right` / `%nonassoc` / `UnknownDeclaration`: the last block of the loop body -/
def declPrecOrUnknown (src : List Char) (fuel i level : Nat) : M Step := do
  match ← la src "%left" i with
  | some k => do let i ← declPrec src fuel k level .left; pure (.cont i (level + 1))
  | none =>
  match ← la src "%right" i with
  | some k => do let i ← declPrec src fuel k level .right; pure (.cont i (level + 1))
  | none =>
  match ← la src "%nonassoc" i with
  | some k => do let i ← declPrec src fuel k level .nonassoc; pure (.cont i (level + 1))
  | none => throwAt .unknownDeclaration i

/-- the declarations from `%expect-unused` on (second half of the `if` chain) -/
def declStep2 (src : List Char) (kind : Kind) (fuel i level : Nat) : M Step := do
  match ← la src "%expect-unused" i with
  | some j => do let i ← declExpectUnused src fuel j; pure (.cont i level)
  | none =>
  match ← la src "%expect" i with
  | some j => do let i ← declExpect src fuel j; pure (.cont i level)
  | none =>
  match ← la src "%avoid_insert" i with
  | some j => do let i ← declAvoidInsert src fuel j; pure (.cont i level)
  | none =>
  match ← la src "%parse-param" i with
  | some j => do let i ← declParseParam src fuel j; pure (.cont i level)
  | none =>
  match ← la src "%parse-generics" i with
  | some j => do let i ← declParseGenerics src fuel j; pure (.cont i level)
  | none =>
  -- `if let YaccKind::Eco = self.yacc_kind && let Some(j) = self.lookahead_is("%implicit_tokens", i)`
  match ← laWhen (kind = .eco) src "%implicit_tokens" i with
  | some j => do let i ← declImplicit src fuel j; pure (.cont i level)
  | none => declPrecOrUnknown src fuel i level

/-- the body of the `while i < self.src.len()` loop of `parse_declarations` -/
def declStep (src : List Char) (kind : Kind) (fuel i level : Nat) : M Step := do
  match ← la src "%%" i with
  | some _ => pure (.done i)
  | none =>
  match ← la src "%token" i with
  | some j => do let i ← declToken src fuel j; pure (.cont i level)
  | none =>
  -- `if let YaccKind::Original(_) = self.yacc_kind && let Some(j) = self.lookahead_is("%actiontype", i)`
  match ← laWhen (kind = .original) src "%actiontype" i with
  | some j => do let i ← declActiontype src fuel j; pure (.cont i level)
  | none =>
  match ← la src "%start" i with
  | some j => do let i ← declStart src j; pure (.cont i level)
  | none =>
  match ← la src "%epp" i with
  | some j => do let i ← declEpp src fuel j; pure (.cont i level)
  | none =>
  match ← la src "%expect-rr" i with
  | some j => do let i ← declExpectRR src fuel j; pure (.cont i level)
  | none => declStep2 src kind fuel i level

/-- the `while i < self.src.len()` loop of `parse_declarations` and what follows it -/
def declLoop (src : List Char) (kind : Kind) (fuel : Nat) : Nat → Nat → Nat → M Nat
  | 0, _, _ => fuelOutM
  | f + 1, i, level =>
    if i < byteLen src then do
      match ← declStep src kind fuel i level with
      | .done i => pure i
      | .cont i level => declLoop src kind fuel f i level
    else if i = byteLen src then throwAt .prematureEnd i
    else panicM                                 -- `debug_assert!(i == self.src.len())`

/-- `parse_declarations(i, errs)` -/
def parseDeclarations (src : List Char) (kind : Kind) (fuel i : Nat) : M Nat := do
  let i ← ws src true i
  declLoop src kind fuel fuel i 0

/-! ### `parse_rule` -/

/-- the local variables of the production loop of `parse_rule` -/
structure PState where
  syms : List Sym := []
  prec : Option Name := none
  action : Bool := false
  prodStart : Nat
  prodEnd : Option Nat := none

inductive RStep where
  /-- `return Ok(j)` -/
  | done (j : Nat)
  | cont (i : Nat) (p : PState)

/-- `Span::new(pos_prod_start, pos_prod_end.take().unwrap_or(i))` and `add_prod` -/
def finishProd (rn : Name) (p : PState) (i : Nat) : M Unit := do
  let span ← liftR (mkSpan p.prodStart (p.prodEnd.getD i))
  addProd ⟨rn, p.syms, p.prec, p.action, span⟩

/-- `lookahead_is("|", i).is_some() || lookahead_is(";", i).is_some()` -/
def atBarOrSemi (src : List Char) (i : Nat) : M Bool := do
  match ← la src "|" i with
  | some _ => pure true
  | none => pure (← la src ";" i).isSome

/-- `lookahead_is("\"", i).is_some() || lookahead_is("'", i).is_some()` -/
def atQuote (src : List Char) (i : Nat) : M Bool := do
  match ← la src "\"" i with
  | some _ => pure true
  | none => pure (← la src "'" i).isSome

/-- the `%empty` test: `|`, `;`, `{` or `%prec` follows -/
def emptyFollow (src : List Char) (k : Nat) : M Bool := do
  if ← atBarOrSemi src k then pure true
  else
    match ← la src "{" k with
    | some _ => pure true
    | none => pure (← la src "%prec" k).isSome

/-- the symbol branches of the production loop (after the `|` and `;` tests failed); returns the new
`i` BEFORE the `parse_ws` at the end of the loop body -/
def ruleSym (src : List Char) (fuel i : Nat) (p : PState) : M (Nat × PState) := do
  if ← atQuote src i then do
    let (j, sym, span, _) ← liftR (parseToken src i)
    let i ← ws src true j
    modifyAst (fun a => a.insertToken sym span)
    pure (i, { p with prodEnd := some j, syms := p.syms ++ [⟨true, sym, span⟩] })
  else
  match ← la src "%prec" i with
  | some j => do
    let i ← ws src true j
    let (k, sym, span, _) ← liftR (parseToken src i)
    modifyAst (fun a => a.insertToken sym span)
    pure (k, { p with prec := some sym, prodEnd := some k })
  | none =>
  match ← la src "{" i with
  | some _ => do
    let j ← parseAction src fuel i
    let i' ← ws src true j
    -- `Span::new(pos_action_start, pos_action_start + a.len())` cannot panic (`a` is not modelled)
    if ← atBarOrSemi src i' then pure (i', { p with prodEnd := some i, action := true })
    else throwAt .productionNotTerminated i'
  | none =>
  match ← la src "%empty" i with
  | some j => do
    let k ← ws src true j
    let follow ← emptyFollow src k
    if !p.syms.isEmpty || !follow then throwAt .nonEmptyProduction i
    else pure (k, { p with prodEnd := some j })
  | none => do
    let (j, sym, span, quoted) ← liftR (parseToken src i)
    -- `tokens.get_index_of(&sym).is_some_and(|idx| quoted || token_directives.contains(&idx))`
    let a := (← getSt).ast
    let isTok := a.hasToken sym && (quoted || a.tokenDirs.contains sym)
    pure (j, { p with prodEnd := some j, syms := p.syms ++ [⟨isTok, sym, span⟩] })

/-- the body of the `while i < self.src.len()` loop of `parse_rule` -/
def ruleStep (src : List Char) (fuel : Nat) (rn : Name) (i : Nat) (p : PState) : M RStep := do
  match ← la src "|" i with
  | some j => do
    finishProd rn p i
    let i ← ws src true j
    pure (.cont i { prodStart := i })
  | none =>
  match ← la src ";" i with
  | some j => do
    finishProd rn p i
    pure (.done j)
  | none => do
    let (i, p) ← ruleSym src fuel i p
    let i ← ws src true i
    pure (.cont i p)

def ruleLoop (src : List Char) (fuel : Nat) (rn : Name) : Nat → Nat → PState → M Nat
  | 0, _, _ => fuelOutM
  | f + 1, i, p =>
    if i < byteLen src then do
      match ← ruleStep src fuel rn i p with
      | .done j => pure j
      | .cont i p => ruleLoop src fuel rn f i p
    else throwAt .incompleteRule i

/-- the part of `parse_rule` between the rule name and the `:`: adds the rule, returns the new `i` -/
def ruleHead (src : List Char) (kind : Kind) (fuel : Nat) (rn : Name) (span : Span) (j : Nat) : M Nat := do
  if kind = .grmtools then do
    let i ← ws src true j
    match ← la src "->" i with
    | some j => do
      let i ← ws src true j
      let j ← parseToSingleColon src fuel i
      modifyAst (fun a => a.addRule rn span)
      pure j
    | none => throwAt .missingRightArrow i
  else do
    modifyAst (fun a => a.addRule rn span)
    pure j

/-- `parse_rule(i)` -/
def parseRule (src : List Char) (kind : Kind) (fuel i : Nat) : M Nat := do
  let (j, rn) ← liftR (parseName src i)
  let span ← liftR (mkSpan i j)
  modifyAst (fun a => if a.start.isNone then { a with start := some (rn, span) } else a)
  let i ← ruleHead src kind fuel rn span j
  let i ← ws src true i
  match ← la src ":" i with
  | none => throwAt .missingColon i
  | some j => do
    let i ← ws src true j
    ruleLoop src fuel rn fuel i { prodStart := i }

/-! ### `parse_rules`, `parse_programs`, `parse` -/

def rulesLoop (src : List Char) (kind : Kind) (fuel : Nat) : Nat → Nat → M Nat
  | 0, _ => fuelOutM
  | f + 1, i =>
    if i < byteLen src then do
      match ← la src "%%" i with
      | none => do
        let i ← parseRule src kind fuel i
        let i ← ws src true i
        rulesLoop src kind fuel f i
      | some _ => pure i
    else pure i

/-- `parse_rules(i)` -/
def parseRules (src : List Char) (kind : Kind) (fuel i : Nat) : M Nat := do
  match ← la src "%%" i with
  | none => panicM                               -- `.unwrap()`
  | some i => do
    let i ← ws src true i
    rulesLoop src kind fuel fuel i

/-- `parse_programs(i, _)` -/
def parsePrograms (src : List Char) (i : Nat) : M Nat := do
  match ← la src "%%" i with
  | some j => do
    let i ← ws src true j
    let prog ← liftR (slice src i)
    modifyAst (fun a => { a with programs := some (byteLen prog) })
    pure (i + byteLen prog)
  | none => pure i

def ofHeader (e : Header.HErr) : YErr := ⟨.header e.kind, e.spans⟩

/-- the three sections one after the other, from the position the header parser returned -/
def sections (src : List Char) (kind : Kind) (fuel pos : Nat) : M Nat := do
  let i ← parseDeclarations src kind fuel pos
  let i ← parseRules src kind fuel i
  parsePrograms src i

/-- `YaccParser::new(kind, src).parse()` followed by `build()`, with explicit fuel: the result of
`parse` (`Ok(i)` or `Err(errs)`) together with the AST built so far -/
def parseWith (src : List Char) (kind : Kind) (fuel : Nat) : Res (List YErr × Ast) (Nat × Ast) :=
  match Header.parseWith src false fuel with
  | .err herrs => .err (herrs.map ofHeader, {})
  | .panic => .panic
  | .fuelOut => .fuelOut
  | .ok (_, pos) =>
    match sections src kind fuel pos {} with
    | .ok (i, st) => if st.errs.isEmpty then .ok (i, st.ast) else .err (st.errs, st.ast)
    | .err (e, st) => .err (st.errs ++ [e], st.ast)
    | .panic => .panic
    | .fuelOut => .fuelOut

/-- every loop of the parser consumes at least one byte per iteration or ends (proved in
`Props/C12.lean`), so `|src| + 1` units of fuel per loop suffice -/
def parse (src : List Char) (kind : Kind) : Res (List YErr × Ast) (Nat × Ast) :=
  parseWith src kind (byteLen src + 1)

/-- every span stored in the AST -/
def Ast.spans (a : Ast) : List Span :=
  (a.start.toList.map (·.2)) ++ a.rules.map (·.2) ++ a.prods.flatMap (fun p => p.span :: p.syms.map (·.span))
    ++ a.tokens.map (·.2) ++ a.precs.map (·.2.2.2) ++ (a.avoidInsert.getD []).map (·.2)
    ++ (a.implicitTokens.getD []).map (·.2) ++ a.epp.flatMap (fun e => [e.2.1, e.2.2.2])
    ++ a.expect.toList.map (·.2) ++ a.expectrr.toList.map (·.2) ++ a.expectUnused.map (·.span)

end GrmVerif.YaccParse
