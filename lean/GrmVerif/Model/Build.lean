/-! # Model of the compile-time builders' rebuild decision (C18)

Transcription of the control flow of `CTParserBuilder::build` (lrpar/src/lib/ctbuilder.rs) and
`CTLexerBuilder::build` (lrlex/src/lib/ctbuilder.rs) **as repaired** (an output guard removes the
builder's own output file whenever `build` leaves through an error return or a panic), as a state machine
over a small file system: two source files (text id + mtime), the builder settings, two output files.

What the generators compute from texts is abstract (`Gen`): the model only fixes *when* they are run,
what is compared with what, what is deleted and in which order.

Reading of the Rust code that the model follows (names of the Rust side in backticks):

* `CTParserBuilder::build`: register `outp` in `GENERATED_PATHS`, arm the guard; read the grammar, parse
  the `%grmtools` section, build the AST and the grammar — every failure up to here is `PRes.early`
  (it happens before the cache string exists). Then `cache = rebuild_cache(..)` (`key`), then the test
  "`outp` exists ∧ mtime(`outp`) > mtime(`grmp`) ∧ contents of `outp` contain `cache`" (`upToDate`):
  if it holds the build returns `regenerated: false` and touches nothing. Otherwise
  `fs::remove_file(outp)`, then table construction / conflict check / `%expect` check / header key
  checks / `output_file` — a failure here is `PRes.late key` — and finally the file is written with the
  cache string embedded (`PRes.ok key out`), `regenerated: true`.
* `CTLexerBuilder::build`: arm the guard; read and parse the lexer (`LRes.pre` on failure); if
  `lrpar_config` is set run the parser builder (an error is propagated with `?`); header/`mod_name`
  checks (`LRes.post`); missing-token checks that end in `remove_file` + `panic!()` (`LRes.missing`);
  generate the text; if `outp` already holds exactly this text do not write, else write.
  There is no cache string and no mtime comparison on the lexer side.
-/
namespace GrmVerif.Build

/-- builder settings: one small number per option (the harness' option vector) -/
abbrev Settings := List Nat

/-- everything a build reads: the two source texts (ids; the harness uses 0 for "file missing") and
the settings -/
structure World where
  g : Nat
  l : Nat
  s : Settings
deriving DecidableEq, Repr

/-- what running the parser generator on a world yields -/
inductive PRes
  | early                        -- error before the cache string is computed
  | late (key : Nat)             -- error after the up-to-date test and `fs::remove_file(outp)`
  | ok (key : Nat) (out : Nat)   -- generated text `out` with cache string `key` embedded
deriving DecidableEq, Repr

/-- what running the lexer generator on a world yields (the parser's token map is a function of the
world, so it is not a separate argument) -/
inductive LRes
  | pre        -- error before the (optional) nested parser build: unreadable / unparsable `.l`
  | post       -- error return after it: unused header values, invalid `mod_name`
  | missing    -- missing-token check: `fs::remove_file(outp); panic!()`
  | ok (out : Nat)
deriving DecidableEq, Repr

structure Gen where
  p : World → PRes
  l : World → LRes
  /-- `true`: the lexer builder runs the parser builder itself (`lrpar_config`);
      `false`: the build script runs the parser builder, then (only if it succeeded) the lexer builder -/
  nested : Settings → Bool

structure PFile where
  content : Nat
  key : Nat        -- the cache string embedded in the text
  mtime : Nat
deriving DecidableEq, Repr

structure LFile where
  content : Nat
  mtime : Nat
deriving DecidableEq, Repr

structure State where
  clock : Nat
  g : Nat
  gmt : Nat
  l : Nat
  lmt : Nat
  s : Settings
  pout : Option PFile
  lout : Option LFile
deriving DecidableEq, Repr

def State.world (st : State) : World := ⟨st.g, st.l, st.s⟩

inductive PStatus
  | ok (regenerated : Bool)
  | err
  | notInvoked
deriving DecidableEq, Repr

inductive LStatus
  | ok (rewritten : Bool)
  | err
  | panic
  | notInvoked
deriving DecidableEq, Repr

/-- `fs::metadata(grmp)`, `fs::metadata(outp)` succeed, out mtime > in mtime, `outc.contains(cache)` -/
def upToDate (o : Option PFile) (gmt key : Nat) : Bool :=
  match o with
  | some f => decide (gmt < f.mtime) && f.key == key
  | none => false

def removeP (st : State) : State := { st with pout := none }
def removeL (st : State) : State := { st with lout := none }
def writeP (st : State) (key out : Nat) : State := { st with pout := some ⟨out, key, st.clock⟩ }
def writeL (st : State) (out : Nat) : State := { st with lout := some ⟨out, st.clock⟩ }

/-- `CTParserBuilder::build` -/
def buildParser (G : Gen) (st : State) : State × PStatus :=
  match G.p st.world with
  | .early => (removeP st, .err)
  | .late k => if upToDate st.pout st.gmt k then (st, .ok false) else (removeP st, .err)
  | .ok k out => if upToDate st.pout st.gmt k then (st, .ok false) else (writeP st k out, .ok true)

/-- `read_to_string(outp) == outs` ? keep : write -/
def sameText (o : Option LFile) (out : Nat) : Bool :=
  match o with
  | some f => f.content == out
  | none => false

/-- the part of `CTLexerBuilder::build` after the (optional) nested parser build -/
def finishLexer (r : LRes) (st : State) : State × LStatus :=
  match r with
  | .pre => (removeL st, .err)
  | .post => (removeL st, .err)
  | .missing => (removeL st, .panic)
  | .ok out => if sameText st.lout out then (st, .ok false) else (writeL st out, .ok true)

def isPre : LRes → Bool
  | .pre => true
  | _ => false

def pFailed : PStatus → Bool
  | .err => true
  | _ => false

/-- one run of the build script -/
def buildAll (G : Gen) (st : State) : State × PStatus × LStatus :=
  if G.nested st.s then
    if isPre (G.l st.world) then (removeL st, .notInvoked, .err)
    else
      let r := buildParser G st
      if pFailed r.2 then (removeL r.1, .err, .err)
      else
        let q := finishLexer (G.l st.world) r.1
        (q.1, r.2, q.2)
  else
    let r := buildParser G st
    if pFailed r.2 then (r.1, .err, .notInvoked)
    else
      let q := finishLexer (G.l st.world) r.1
      (q.1, r.2, q.2)

inductive Op
  | editGrammar (g : Nat) (dt : Nat)      -- also: make invalid, restore, delete (text id 0)
  | editLexer (l : Nat) (dt : Nat)
  | changeOption (i v : Nat) (dt : Nat)
  | build (dt : Nat)
deriving DecidableEq, Repr

/-- making the grammar invalid and restoring it are edits with particular texts -/
abbrev Op.makeInvalid := Op.editGrammar
abbrev Op.restore := Op.editGrammar

def tick (st : State) (dt : Nat) : State := { st with clock := st.clock + dt }

def isBuild : Op → Bool
  | .build _ => true
  | _ => false

def isEditGrammar : Op → Bool
  | .editGrammar _ _ => true
  | _ => false

/-- edits stamp the file with the current time; time never runs backwards (`dt ≥ 0`) -/
def step (G : Gen) (st : State) : Op → State
  | .editGrammar g dt => { st with clock := st.clock + dt, g := g, gmt := st.clock + dt }
  | .editLexer l dt => { st with clock := st.clock + dt, l := l, lmt := st.clock + dt }
  | .changeOption i v dt => { st with clock := st.clock + dt, s := st.s.set i v }
  | .build dt => (buildAll G (tick st dt)).1

def run (G : Gen) (st : State) (ops : List Op) : State := ops.foldl (step G) st

/-- statuses of the build steps of a history, in order (what the driver prints) -/
def trace (G : Gen) (st : State) : List Op → List (State × PStatus × LStatus)
  | [] => []
  | .build dt :: ops =>
    let r := buildAll G (tick st dt)
    r :: trace G r.1 ops
  | op :: ops => trace G (step G st op) ops

/-- an empty output directory -/
def init (g l : Nat) (s : Settings) : State := ⟨0, g, 0, l, 0, s, none, none⟩

/-- the same sources and settings, empty output directory -/
def wipe (st : State) : State := { st with pout := none, lout := none }

def pContent (st : State) : Option Nat := st.pout.map (·.content)
def lContent (st : State) : Option Nat := st.lout.map (·.content)

end GrmVerif.Build
