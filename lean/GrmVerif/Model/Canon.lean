import GrmVerif.Model.CertLA
/-
Canonical LR(1) construction (no state merging), used as the reference for C02. It is NOT trusted:
its output is only used after it passes the verified validators `Cert.check` and `Cert.checkLA`
(which force closedness, correct lookahead propagation and a conflict-free, complete table).
Core Lean only.
-/
namespace GrmVerif.Canon
open GrmVerif Ref Cert

def insertSorted (t : Nat) : List Nat → List Nat
  | [] => [t]
  | x :: xs => if t < x then t :: x :: xs else if t = x then x :: xs else x :: insertSorted t xs

def unionSorted (a b : List Nat) : List Nat := a.foldl (fun acc t => insertSorted t acc) b

/-- add lookaheads `la` to item `(p, d)` of the list (appending the item if absent); returns the new
list and whether anything changed -/
def addItem (items : List Item) (p d : Nat) (la : List Nat) : List Item × Bool :=
  match items.find? (fun i => i.p == p && i.dot == d) with
  | none => (items ++ [⟨p, d, unionSorted la []⟩], true)
  | some old =>
    let merged := unionSorted la old.la
    if merged == old.la then (items, false)
    else (items.map (fun i => if i.p == p && i.dot == d then ⟨p, d, merged⟩ else i), true)

/-- FIRST(β · L) as a sorted token list -/
def firstSet (G : Grammar) (N : Nat → Bool) (F : Nat × Nat → Bool) (β : List Sym) (L : List Nat) : List Nat :=
  (List.range G.ntoks).filter (fun t => firstSeqL N F β L t)

/-- one pass of the closure: every item with a rule after the dot contributes to that rule's
productions -/
def closePass (G : Grammar) (N : Nat → Bool) (F : Nat × Nat → Bool) (items : List Item) : List Item × Bool :=
  items.foldl (fun (acc : List Item × Bool) i =>
    -- take the CURRENT lookahead of the item (it may have grown in this pass)
    let cur := (acc.1.find? (fun j => j.p == i.p && j.dot == i.dot)).getD i
    match symAt G cur.p cur.dot with
    | some (.rule B) =>
      let la := firstSet G N F ((G.rhs cur.p).drop (cur.dot + 1)) cur.la
      (G.prodsOf B).foldl (fun (a : List Item × Bool) q =>
        let (items', ch) := addItem a.1 q 0 la
        (items', a.2 || ch)) acc
    | _ => acc) (items, false)

def closeItems (G : Grammar) (N : Nat → Bool) (F : Nat × Nat → Bool) : Nat → List Item → List Item
  | 0, items => items
  | fuel + 1, items =>
    let (items', changed) := closePass G N F items
    if changed then closeItems G N F fuel items' else items'

def sortItems (items : List Item) : List Item :=
  items.mergeSort (fun a b => decide (a.p < b.p) || (a.p == b.p && decide (a.dot ≤ b.dot)))

/-- kernel of the goto on symbol `X` -/
def gotoKernel (G : Grammar) (closed : List Item) (X : Sym) : List Item :=
  sortItems ((closed.filter (fun i => symAt G i.p i.dot == some X)).map (fun i => ⟨i.p, i.dot + 1, i.la⟩))

def symsAfterDot (G : Grammar) (closed : List Item) : List Sym :=
  (closed.filterMap (fun i => symAt G i.p i.dot)).eraseDups

structure Build where
  cores : List (List Item)
  closeds : List (List Item)
  edges : List (List (Sym × Nat))

/-- process state `s`: compute its gotos, adding new states for unseen kernels -/
def processState (G : Grammar) (N : Nat → Bool) (F : Nat × Nat → Bool) (b : Build) (s : Nat) : Build :=
  let closed := b.closeds.getD s []
  (symsAfterDot G closed).foldl (fun (b : Build) X =>
    let k := gotoKernel G closed X
    match b.cores.findIdx? (fun c => c == k) with
    | some t => { b with edges := b.edges.modify s (fun es => es ++ [(X, t)]) }
    | none =>
      let t := b.cores.length
      { cores := b.cores ++ [k],
        closeds := b.closeds ++ [sortItems (closeItems G N F (G.nprods * (G.ntoks + 1) + 2) k)],
        edges := (b.edges.modify s (fun es => es ++ [(X, t)])) ++ [[]] }) b

def buildLoop (G : Grammar) (N : Nat → Bool) (F : Nat × Nat → Bool) (maxStates : Nat) : Nat → Nat → Build → Option Build
  | 0, _, _ => none
  | fuel + 1, s, b =>
    if s ≥ b.cores.length then some b
    else if b.cores.length > maxStates then none
    else buildLoop G N F maxStates fuel (s + 1) (processState G N F b s)

/-- the table cell of the canonical automaton: the unique candidate, `none` if there are several -/
def cellOf (G : Grammar) (closed : List Item) (edges : List (Sym × Nat)) (t : Nat) : Option Act :=
  let reds := (closed.filter (fun i => symAt G i.p i.dot == none && i.la.contains t)).map (·.p) |>.eraseDups
  let sh := (edges.find? (fun e => e.1 == Sym.tok t)).map (·.2)
  match reds, sh with
  | [], none => some .error
  | [], some s' => some (.shift s')
  | [p], none => some (if p == G.startProd then .accept else .reduce p)
  | _, _ => none

/-- the canonical LR(1) automaton with its table, or `none` (too many states / fuel) ; the Bool says
whether every cell had at most one candidate (the grammar is LR(1)) -/
def canonical (G : Grammar) (N : Nat → Bool) (F : Nat × Nat → Bool) (maxStates : Nat) : Option (Automaton × Bool) :=
  let k0 : List Item := [⟨G.startProd, 0, [G.eof]⟩]
  let b0 : Build := ⟨[k0], [sortItems (closeItems G N F (G.nprods * (G.ntoks + 1) + 2) k0)], [[]]⟩
  match buildLoop G N F maxStates (maxStates + 2) 0 b0 with
  | none => none
  | some b =>
    let n := b.cores.length
    let cells := (List.range n).map (fun s =>
      (List.range G.ntoks).map (fun t => cellOf G (b.closeds.getD s []) (b.edges.getD s []) t))
    let conflictFree := cells.all (fun row => row.all (·.isSome))
    let states := (List.range n).map (fun s =>
      let es := b.edges.getD s []
      ({ core := b.cores.getD s [], closed := b.closeds.getD s [], edges := es,
         actions := (cells.getD s []).map (fun c => c.getD .error),
         gotos := (List.range G.nrules).map (fun r => (es.find? (fun e => e.1 == Sym.rule r)).map (·.2)),
         stateActions := [], stateShifts := [], coreReduces := [], reduceOnly := false } : StateD))
    some (⟨0, states, [], []⟩, conflictFree)

end GrmVerif.Canon
