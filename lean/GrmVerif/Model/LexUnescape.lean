/-
Model of the escape handling of `lrlex/src/lib/parser.rs`:

* `unescape` (the nested function of `LexParser::parse_start_states`): the scanner that turns the
  regular expression as written in the `.l` file into `Rule::re_str`;
* `trim_end_unescaped`: where the regular expression of a rule line ends.

Texts are `List Char`. Every position is a UTF-8 *byte* offset as produced by `char_indices()`
(`Char.utf8Size`), and every `&re_str[a..b]` is `sliceB`, which is `none` — the Rust panic — when a
bound is out of range or not on a character boundary. So an offset that is wrong next to a
multi-byte character is visible in the model.

The two tables the scanner consults (`regex_syntax::is_meta_character`, `RE_LEX_ESC_LITERAL`) and the
two replacement strings of the `\b` arm are parameters (`Cfg`); the driver instantiates them with the
values `tools/extract.py` reads from the sources on every run (`GrmVerif/Extracted.lean`), and the
theorems of `Props/C11.lean` hold for every table.

This is the code AFTER the repair `fix: keep the text before a lone trailing backslash` (see
`innerOrig` for the unrepaired loop). Core Lean only: linked into the native driver.
-/
namespace GrmVerif.LexUnescape

/-- byte length of a text -/
def byteLen : List Char → Nat
  | [] => 0
  | c :: cs => c.utf8Size + byteLen cs

/-- `&s[n..]`; `none` = panic (out of range / not a character boundary) -/
def dropB : List Char → Nat → Option (List Char)
  | [], n => if n = 0 then some [] else none
  | c :: cs, n =>
    if n = 0 then some (c :: cs)
    else if c.utf8Size ≤ n then dropB cs (n - c.utf8Size) else none

/-- `&s[..n]` -/
def takeB : List Char → Nat → Option (List Char)
  | [], n => if n = 0 then some [] else none
  | c :: cs, n =>
    if n = 0 then some []
    else if c.utf8Size ≤ n then (takeB cs (n - c.utf8Size)).map (c :: ·) else none

/-- `&s[a..b]` -/
def sliceB (s : List Char) (a b : Nat) : Option (List Char) :=
  if a ≤ b then (dropB s a).bind (fun t => takeB t (b - a)) else none

/-- What the scanner is parametric in. -/
structure Cfg where
  /-- `regex_syntax::is_meta_character` -/
  isMeta : Char → Bool
  /-- `RE_LEX_ESC_LITERAL.is_match(s)`, `s` = the text from the escaped character on -/
  escLit : List Char → Bool
  /-- `lex_flags.posix_escapes == Some(true)` -/
  posix : Bool
  /-- the literal pushed for `\b` under `posix_escapes` (`"\\x08"`) -/
  bPosix : List Char
  /-- the literal pushed for `\b` otherwise (`"\\b"`) -/
  bPlain : List Char

/-- `regex_syntax::is_meta_character(c) || RE_LEX_ESC_LITERAL.is_match(s)`: the escape stays. -/
def keep (cfg : Cfg) (c : Char) (s : List Char) : Bool := cfg.isMeta c || cfg.escLit s

/-- the tuple `(i, s, j, c)` held in `cursor`: offset of the backslash, text from the escaped
character on, offset of the escaped character, the escaped character -/
structure Cursor where
  i : Nat
  s : List Char
  j : Nat
  c : Char

/-- First loop ("Look for an escape sequence which needs unescaping"). Arguments: what
`re_chars` (a `char_indices()` iterator) still has to yield, and the offset of its next item.
Result: `cursor` and the rest of the iterator with its offset; `none` = `break None`. -/
def findFirst (cfg : Cfg) : List Char → Nat → Option (Cursor × List Char × Nat)
  | [], _ => none
  | [_], _ => none        -- a final character; if it is a backslash `re_chars.next()` is `None`
  | c :: c2 :: rest, pos =>
    if c = '\\' then
      if !(keep cfg c2 (c2 :: rest)) then
        some (⟨pos, c2 :: rest, pos + c.utf8Size, c2⟩, rest, pos + c.utf8Size + c2.utf8Size)
      else findFirst cfg rest (pos + c.utf8Size + c2.utf8Size)
    else findFirst cfg (c2 :: rest) (pos + c.utf8Size)

/-- Body of `'outer` up to the inner `loop`: what is pushed for one cursor. Returns the new
`(unescaped, last_pos)`. -/
def applyCursor (cfg : Cfg) (re : List Char) (cur : Cursor) (unesc : List Char) (lastPos : Nat) :
    Option (List Char × Nat) :=
  if cur.c = 'b' then
    (sliceB re lastPos cur.i).bind fun a =>
      some (unesc ++ a ++ (if cfg.posix then cfg.bPosix else cfg.bPlain), cur.j + 1)
  else if keep cfg cur.c cur.s then
    (sliceB re lastPos (cur.j + cur.c.utf8Size)).bind fun a =>
      some (unesc ++ a, cur.j + cur.c.utf8Size)
  else
    (sliceB re lastPos cur.i).bind fun a =>
      (sliceB re cur.j (cur.j + cur.c.utf8Size)).bind fun b =>
        some (unesc ++ a ++ b, cur.j + cur.c.utf8Size)

/-- The inner `loop` fused with the `'outer` loop it continues: scan for the next backslash; on one,
`cursor = re_chars.next().map(..)` and the body of `'outer` runs for it. At the end of the text
(also: a backslash that is the last character — the repaired arm) the tail since `last_pos` is
copied. Arguments as `findFirst`, plus `unescaped` and `last_pos`. -/
def inner (cfg : Cfg) (re : List Char) : List Char → Nat → List Char → Nat → Option (List Char)
  | [], _, unesc, lastPos => (dropB re lastPos).map (unesc ++ ·)
  | [_], _, unesc, lastPos => (dropB re lastPos).map (unesc ++ ·)
  | c1 :: c2 :: rest, p1, unesc, lastPos =>
    if c1 = '\\' then
      (applyCursor cfg re ⟨p1, c2 :: rest, p1 + c1.utf8Size, c2⟩ unesc lastPos).bind fun r =>
        inner cfg re rest (p1 + c1.utf8Size + c2.utf8Size) r.1 r.2
    else inner cfg re (c2 :: rest) (p1 + c1.utf8Size) unesc lastPos

/-- `unescape(re, lex_flags)`; `none` = a slice panicked -/
def unescape (cfg : Cfg) (re : List Char) : Option (List Char) :=
  match findFirst cfg re 0 with
  | none => some re
  | some (cur, rest, pos) =>
    (applyCursor cfg re cur [] 0).bind fun r => inner cfg re rest pos r.1 r.2

/-- The loop as it was BEFORE the repair: when the text ends in a backslash after a rewrite,
`cursor` becomes `None`, `continue 'outer` leaves the `while let` and the tail since `last_pos` is
never copied. Kept to document the defect (`Props/C11.lean: orig_drops_tail`). -/
def innerOrig (cfg : Cfg) (re : List Char) : List Char → Nat → List Char → Nat → Option (List Char)
  | [], _, unesc, lastPos => (dropB re lastPos).map (unesc ++ ·)
  | [c1], _, unesc, lastPos =>
    if c1 = '\\' then some unesc else (dropB re lastPos).map (unesc ++ ·)
  | c1 :: c2 :: rest, p1, unesc, lastPos =>
    if c1 = '\\' then
      (applyCursor cfg re ⟨p1, c2 :: rest, p1 + c1.utf8Size, c2⟩ unesc lastPos).bind fun r =>
        innerOrig cfg re rest (p1 + c1.utf8Size + c2.utf8Size) r.1 r.2
    else innerOrig cfg re (c2 :: rest) (p1 + c1.utf8Size) unesc lastPos

def unescapeOrig (cfg : Cfg) (re : List Char) : Option (List Char) :=
  match findFirst cfg re 0 with
  | none => some re
  | some (cur, rest, pos) =>
    (applyCursor cfg re cur [] 0).bind fun r => innerOrig cfg re rest pos r.1 r.2

/-! ### `trim_end_unescaped` -/

/-- `s.trim_end_matches(p)` -/
def trimEnd (p : Char → Bool) (s : List Char) : List Char :=
  (s.reverse.dropWhile p).reverse

/-- `trimmed.chars().rev().take_while(|&c| c == '\\').count()` -/
def trailingBackslashes (s : List Char) : Nat := (s.reverse.takeWhile (· = '\\')).length

/-- `trim_end_unescaped(s)`; `ws` is `matches_whitespace` (`\p{Pattern_White_Space}`). The slice
`&s[..trimmed.len() + first.len_utf8()]` is on character boundaries by construction; it is written
with `take` on characters. -/
def trimEndUnescaped (ws : Char → Bool) (s : List Char) : List Char :=
  let trimmed := trimEnd ws s
  if trimmed.length = s.length then s
  else if trailingBackslashes trimmed % 2 = 1 then s.take (trimmed.length + 1)
  else trimmed

end GrmVerif.LexUnescape
