import GrmVerif.Model.LR
/-
The validator ("certificate checker") for a dumped automaton + table: decidable local conditions
(LR(0) level here; the LR(1)/lookahead conditions are in `CertLA.lean`) from which
`Props/C01.lean` derives soundness and crash-freedom of the LR driver for ALL inputs.
Core Lean only.
-/
namespace GrmVerif.Cert
open GrmVerif

def hasItem (items : List Item) (p d : Nat) : Bool := items.any (fun i => i.p == p && i.dot == d)

/-- symbol after the dot -/
def symAt (G : Grammar) (p d : Nat) : Option Sym := (G.rhs p)[d]?

def allStates (A : Automaton) (f : Nat → Bool) : Bool := (List.range A.nstates).all f

/-- grammar shape: dense indices; the start production is `^ : S`; neither `^` nor the end-of-input
token occurs in a right-hand side -/
def wfG (G : Grammar) : Bool :=
  G.wf &&
  (match G.rhs G.startProd with | [.rule _] => true | _ => false) &&
  G.prods.all (fun pr => !pr.2.contains (.rule G.startRule) && !pr.2.contains (.tok G.eof))

/-- every item mentions an existing production and a dot within it -/
def itemsOk (G : Grammar) (A : Automaton) : Bool :=
  allStates A (fun s => (A.closed s ++ A.core s).all (fun i => decide (i.p < G.nprods) && decide (i.dot ≤ (G.rhs i.p).length)))

/-- K1: the start state's kernel is exactly `[^ → . S]` -/
def k1 (G : Grammar) (A : Automaton) : Bool :=
  decide (A.start < A.nstates) && ((A.core A.start).map (fun i => (i.p, i.dot)) == [(G.startProd, 0)])

/-- K2: items with the dot past the start are kernel items; kernel items are in the closed set -/
def k2 (A : Automaton) : Bool :=
  allStates A (fun s =>
    (A.closed s).all (fun i => i.dot == 0 || hasItem (A.core s) i.p i.dot) &&
    (A.core s).all (fun i => hasItem (A.closed s) i.p i.dot))

/-- K3′: every kernel item of an edge target is an advanced item of the source -/
def k3' (G : Grammar) (A : Automaton) : Bool :=
  allStates A (fun s => (A.edges s).all (fun e =>
    decide (e.2 < A.nstates) && !(A.core e.2).isEmpty &&
    (A.core e.2).all (fun i => decide (i.dot > 0) && symAt G i.p (i.dot - 1) == some e.1 &&
      hasItem (A.closed s) i.p (i.dot - 1))))

/-- K3: every symbol after a dot has an edge, and the advanced item is in the target's kernel -/
def k3 (G : Grammar) (A : Automaton) : Bool :=
  allStates A (fun s => (A.closed s).all (fun i =>
    match symAt G i.p i.dot with
    | none => true
    | some X =>
      match A.edge s X with
      | none => false
      | some t => hasItem (A.core t) i.p (i.dot + 1)))

/-- K4: table soundness: reductions, shifts and accept are backed by items and edges -/
def k4 (G : Grammar) (A : Automaton) : Bool :=
  allStates A (fun s => (List.range G.ntoks).all (fun t =>
    match A.action s t with
    | .error => true
    | .reduce p => decide (p ≠ G.startProd) && decide (p < G.nprods) && hasItem (A.closed s) p (G.rhs p).length
    | .shift s' => A.edge s (.tok t) == some s'
    | .accept => decide (t = G.eof) && hasItem (A.closed s) G.startProd 1))

/-- K5: the goto table is the graph's rule edges -/
def k5 (G : Grammar) (A : Automaton) : Bool :=
  allStates A (fun s => (List.range G.nrules).all (fun r => A.goto s r == A.edge s (.rule r)))

/-- K6: every dot-0 item is a kernel item or is justified by an item with the dot before its rule -/
def k6 (G : Grammar) (A : Automaton) : Bool :=
  allStates A (fun s => (A.closed s).all (fun i =>
    i.dot != 0 || hasItem (A.core s) i.p 0 ||
    (A.closed s).any (fun j => symAt G j.p j.dot == some (.rule (G.lhs i.p)))))

/-- names of the failing clauses (empty = certificate accepted) -/
def failing (G : Grammar) (A : Automaton) : List String :=
  (if wfG G then [] else ["wfG"]) ++ (if itemsOk G A then [] else ["itemsOk"]) ++
  (if k1 G A then [] else ["K1"]) ++ (if k2 A then [] else ["K2"]) ++ (if k3' G A then [] else ["K3'"]) ++
  (if k3 G A then [] else ["K3"]) ++ (if k4 G A then [] else ["K4"]) ++ (if k5 G A then [] else ["K5"]) ++
  (if k6 G A then [] else ["K6"])

def check (G : Grammar) (A : Automaton) : Bool :=
  wfG G && itemsOk G A && k1 G A && k2 A && k3' G A && k3 G A && k4 G A && k5 G A && k6 G A

end GrmVerif.Cert
