import GrmVerif.Model.SearchImpl
import GrmVerif.Model.RecLive
import GrmVerif.Model.Term
import GrmVerif.Model.Cert
/-!
The recoverer that IS the model of CPCT+ (`lrpar/src/lib/cpctplus.rs`), in the shape the recovering
driver `Rec.recRun` (the model of the loop of `Parser::lr`) takes its recoverer in.

`cpctRecover E hs avoid lexStart win fuel` is `SearchImpl.recoverImpl` — the Dijkstra search with node
merging, `collect_repairs`, `rank_cnds`, `simplify_repairs`, `apply_repairs` of the first reported
sequence — seen through the interface of `recRun`:

* `.ok (c', out)` with `out ≠ []` becomes `some (c', out with the lexeme identities erased)`: parsing
  continues from `c'` (what `apply_repairs` of the first reported sequence left), the sequences are
  reported with the error;
* `.ok (_, [])` (no repair of representable cost, or `rank_cnds` kept nothing) becomes `none`: the
  real `recover` returns an empty list and `Parser::lr` gives up at this error;
* `.fuelOut` becomes `none`. HOW THE SEARCH FUEL ENTERS: `fuel` bounds the number of iterations of the
  two loops of `dijkstra`; the real code has no such bound but a deadline (`finish_by`, 500 ms by
  default) after which `recover` reports no repairs. A search that runs out of `fuel` is modelled as
  exactly that: nothing is reported and the parse gives up at this error. Every theorem about
  `cpctRecover` holds for EVERY value of `fuel` (the budget only decides whether something is reported).
  `.fuelOut` is also the answer when one run of reductions under one lookahead (`feed`) needs more than
  the model's constant `FUEL` = 2000 steps, in the search or in `rank_cnds`/`apply_repairs`
  (`Model/RankImpl.lean`, `rankCndsO`/`applyRepairsO`): the model cannot say what the real code does
  then (it has no such bound) and does NOT call it a panic;
* `.panic` becomes `none` as well. The model's `.panic` stands for a panic of the real code (`unwrap` on
  a missing goto or an empty stack, `unreachable!()` in the merge closure, `todo[..]`, `rpr_seqs[0]`,
  `rnk_rprs[0]`, `next_lexeme` past the end). It is PROVED not to occur (`C06.recover_never_panics`:
  certified table, `state_actions` exact, costs ≥ 1, input of real tokens, error configuration whose
  stack is a path of the automaton — which every configuration of a run is), so this arm of the
  totalisation is dead in every run; `cpctOutcome` keeps the cases apart so that statements can say
  which one occurred.

`Parser::lr` calls `recover` only when the action of the top state on the next lexeme is `Error`, at
a position inside the input (`laidx ≤ lexemes.len()`): `errCfg`. `cpctRecoverAt` is `cpctRecover`
restricted to such configurations (`none` elsewhere); on every table that never shifts the
end-of-input token the two give the SAME run of the driver from every start within the input
(`Lemmas/Cpct.lean`, `recRun_cpct_guard` …), so the restriction is invisible — it only makes
statements that quantify over ALL configurations (`FirstApplies`, `FirstValid`, `RecovererOK`) true
of configurations the driver never hands to the recoverer.

`recCalls` lists the configurations at which the driver consults the recoverer during a run.
Core Lean only.
-/
namespace GrmVerif.Cpct
open GrmVerif LR Rec RankImpl SearchImpl

/-- forget the lexeme identities of a reported list (`lrpar::ParseRepair` → `Rec.Repair`) -/
def eraseAll (out : List Seq) : List (List Repair) := out.map (fun s => s.map PRepair.erase)

/-- **the model of `CPCTPlus::recover` as the recoverer of `Rec.recRun`** (see the header) -/
def cpctRecover (E : Env) (hs : List Seq → List Seq) (avoid : Nat → Bool) (lexStart : Nat → Nat)
    (win fuel : Nat) (c : Pos) : Option (Pos × List (List Repair)) :=
  match recoverImpl E hs avoid lexStart win fuel c with
  | .ok (c', out) => if out.isEmpty then none else some (c', eraseAll out)
  | .panic => none
  | .fuelOut => none

/-- why a call of the modelled recoverer reports what it reports -/
inductive Outcome where
  /-- sequences are reported and parsing continues -/
  | repaired
  /-- the search ended properly and found no repair (or `rank_cnds` kept none) -/
  | noRepair
  /-- the search ran out of its budget (`fuel`; the real code: out of time), or a run of reductions
  under one lookahead needed more than the model's constant `FUEL` steps -/
  | outOfBudget
  /-- the model of the real code panicked -/
  | panicked
deriving Repr, DecidableEq, Inhabited

def cpctOutcome (E : Env) (hs : List Seq → List Seq) (avoid : Nat → Bool) (lexStart : Nat → Nat)
    (win fuel : Nat) (c : Pos) : Outcome :=
  match recoverImpl E hs avoid lexStart win fuel c with
  | .ok (_, out) => if out.isEmpty then .noRepair else .repaired
  | .panic => .panicked
  | .fuelOut => .outOfBudget

/-- the configurations at which `Parser::lr` calls `recover`: inside the input, the action of the top
state on the next lexeme (end-of-input past the last lexeme) is `Error` -/
def errCfg (G : Grammar) (A : Automaton) (w : List Nat) (c : Pos) : Bool :=
  decide (c.pos ≤ w.length) &&
  (match c.stack with
   | st :: _ => A.action st (nextTok G w c.pos) == .error
   | [] => false)

/-- decidable form of "the state stack (top first) is a path of the automaton from the start state"
(`Term.IsPath`; `Cpct.isPathB_iff`): the bottom is the start state and every state is the target of an
edge out of the state below it -/
def isPathB (A : Automaton) : List Nat → Bool
  | [] => false
  | [s] => s == A.start
  | t :: s :: rest => Term.adj A s t && isPathB A (s :: rest)

/-- the input consists of tokens of the grammar other than end-of-input (`Cert.InputOk`, decidable form) -/
def inputOkB (G : Grammar) (w : List Nat) : Bool := w.all (fun t => decide (t < G.ntoks) && t != G.eof)

/-- the decidable hypotheses of `C06.recover_never_panics` about the table (evaluated once per table by
the driver): the automaton passes `Cert.check`, `state_actions` is exact, `PARSE_AT_LEAST ≥ 1` -/
def noPanicTableB (G : Grammar) (A : Automaton) (N : Nat) : Bool :=
  Cert.check G A && stateActionsExactB G A && decide (1 ≤ N)

/-- … and about one error: the input consists of real tokens, the configuration is one at which
`Parser::lr` calls `recover`, its stack is a path of the automaton -/
def noPanicCfgB (G : Grammar) (A : Automaton) (w : List Nat) (c : Pos) : Bool :=
  inputOkB G w && errCfg G A w c && isPathB A c.stack

/-- `cpctRecover` restricted to the configurations at which `Parser::lr` calls `recover` -/
def cpctRecoverAt (E : Env) (hs : List Seq → List Seq) (avoid : Nat → Bool) (lexStart : Nat → Nat)
    (win fuel : Nat) (c : Pos) : Option (Pos × List (List Repair)) :=
  if errCfg E.G E.A E.w c then cpctRecover E hs avoid lexStart win fuel c else none

/-- the configurations (reduced stack, position) at which the recovering driver `Rec.recRun` consults
the recoverer during a run, in order — `recRun` itself with the calls recorded -/
def recCalls (G : Grammar) (A : Automaton) (w : List Nat)
    (recover : Pos → Option (Pos × List (List Repair))) : Nat → Pos → List Pos
  | 0, _ => []
  | fuel + 1, c =>
    match feed G A (nextTok G w c.pos) FUEL c.stack with
    | .shifted s => recCalls G A w recover fuel ⟨s, c.pos + 1⟩
    | .error s =>
      ⟨s, c.pos⟩ ::
        (match recover ⟨s, c.pos⟩ with
         | none => []
         | some (c', rs) => if rs.isEmpty then [] else recCalls G A w recover fuel c')
    | _ => []

/-- the error the driver records for a call of the recoverer at `c` -/
def errOf (recover : Pos → Option (Pos × List (List Repair))) (c : Pos) : Err :=
  ⟨c.pos, match recover c with
          | none => []
          | some (_, rs) => rs⟩

/-- the decidable hypotheses about the table the search theorems need beyond the certificates: no
state shifts the end-of-input token, and `state_actions` of every state lists exactly the tokens whose
action is not `Error` (`C16.state_actions_spec`) -/
def tableOkB (G : Grammar) (A : Automaton) : Bool := eofNeverShiftedB G A && stateActionsExactB G A

end GrmVerif.Cpct
