import GrmVerif.Model.SearchImpl
import GrmVerif.Model.RecLive
/-!
The recoverer that IS the model of CPCT+ (`lrpar/src/lib/cpctplus.rs`), in the shape the recovering
driver `Rec.recRun` (the model of the loop of `Parser::lr`) takes its recoverer in.

`cpctRecover E hs avoid lexStart win fuel` is `SearchImpl.recoverImpl` — the Dijkstra search with node
merging, `collect_repairs`, `rank_cnds`, `simplify_repairs`, `apply_repairs` of the first reported
sequence — seen through the interface of `recRun`:

* `.ok (c', out)` with `out ≠ []` becomes `some (c', out with the lexeme identities erased)`: parsing
  continues from `c'` (what `apply_repairs` of the first reported sequence left), the sequences are
  reported with the error;
* `.ok (_, [])` (no repair of representable cost, or `rank_cnds` kept nothing) becomes `none`: the
  real `recover` returns an empty list and `Parser::lr` gives up at this error;
* `.fuelOut` becomes `none`. HOW THE SEARCH FUEL ENTERS: `fuel` bounds the number of iterations of the
  two loops of `dijkstra`; the real code has no such bound but a deadline (`finish_by`, 500 ms by
  default) after which `recover` reports no repairs. A search that runs out of `fuel` is modelled as
  exactly that: nothing is reported and the parse gives up at this error. Every theorem about
  `cpctRecover` holds for EVERY value of `fuel` (the budget only decides whether something is reported);
* `.panic` becomes `none` as well. This is a TOTALISATION: the model's `.panic` stands for a panic of the
  real code (`unwrap` on a missing goto, `unreachable!()` in the merge closure, `rpr_seqs[0]` on an empty
  group) or for the constant `FUEL` of `feed` running out inside `rank_cnds`/`apply_repairs`. That the
  modelled recoverer never panics is NOT proved; `cpctOutcome` keeps the three cases apart so that
  statements can say which one occurred, and the per-error tie of the check (`Mr`/`Ir` lines) would
  break on a model panic where the real code reports. The theorems about what is reported and where
  parsing continues are about the `.ok` case only and are unaffected.

`Parser::lr` calls `recover` only when the action of the top state on the next lexeme is `Error`, at
a position inside the input (`laidx ≤ lexemes.len()`): `errCfg`. `cpctRecoverAt` is `cpctRecover`
restricted to such configurations (`none` elsewhere); on every table that never shifts the
end-of-input token the two give the SAME run of the driver from every start within the input
(`Lemmas/Cpct.lean`, `recRun_cpct_guard` …), so the restriction is invisible — it only makes
statements that quantify over ALL configurations (`FirstApplies`, `FirstValid`, `RecovererOK`) true
of configurations the driver never hands to the recoverer.

`recCalls` lists the configurations at which the driver consults the recoverer during a run.
Core Lean only.
-/
namespace GrmVerif.Cpct
open GrmVerif LR Rec RankImpl SearchImpl

/-- forget the lexeme identities of a reported list (`lrpar::ParseRepair` → `Rec.Repair`) -/
def eraseAll (out : List Seq) : List (List Repair) := out.map (fun s => s.map PRepair.erase)

/-- **the model of `CPCTPlus::recover` as the recoverer of `Rec.recRun`** (see the header) -/
def cpctRecover (E : Env) (hs : List Seq → List Seq) (avoid : Nat → Bool) (lexStart : Nat → Nat)
    (win fuel : Nat) (c : Pos) : Option (Pos × List (List Repair)) :=
  match recoverImpl E hs avoid lexStart win fuel c with
  | .ok (c', out) => if out.isEmpty then none else some (c', eraseAll out)
  | .panic => none
  | .fuelOut => none

/-- why a call of the modelled recoverer reports what it reports -/
inductive Outcome where
  /-- sequences are reported and parsing continues -/
  | repaired
  /-- the search ended properly and found no repair (or `rank_cnds` kept none) -/
  | noRepair
  /-- the search ran out of its budget (`fuel`; the real code: out of time) -/
  | outOfBudget
  /-- the model of the real code panicked -/
  | panicked
deriving Repr, DecidableEq, Inhabited

def cpctOutcome (E : Env) (hs : List Seq → List Seq) (avoid : Nat → Bool) (lexStart : Nat → Nat)
    (win fuel : Nat) (c : Pos) : Outcome :=
  match recoverImpl E hs avoid lexStart win fuel c with
  | .ok (_, out) => if out.isEmpty then .noRepair else .repaired
  | .panic => .panicked
  | .fuelOut => .outOfBudget

/-- the configurations at which `Parser::lr` calls `recover`: inside the input, the action of the top
state on the next lexeme (end-of-input past the last lexeme) is `Error` -/
def errCfg (G : Grammar) (A : Automaton) (w : List Nat) (c : Pos) : Bool :=
  decide (c.pos ≤ w.length) &&
  (match c.stack with
   | st :: _ => A.action st (nextTok G w c.pos) == .error
   | [] => false)

/-- `cpctRecover` restricted to the configurations at which `Parser::lr` calls `recover` -/
def cpctRecoverAt (E : Env) (hs : List Seq → List Seq) (avoid : Nat → Bool) (lexStart : Nat → Nat)
    (win fuel : Nat) (c : Pos) : Option (Pos × List (List Repair)) :=
  if errCfg E.G E.A E.w c then cpctRecover E hs avoid lexStart win fuel c else none

/-- the configurations (reduced stack, position) at which the recovering driver `Rec.recRun` consults
the recoverer during a run, in order — `recRun` itself with the calls recorded -/
def recCalls (G : Grammar) (A : Automaton) (w : List Nat)
    (recover : Pos → Option (Pos × List (List Repair))) : Nat → Pos → List Pos
  | 0, _ => []
  | fuel + 1, c =>
    match feed G A (nextTok G w c.pos) FUEL c.stack with
    | .shifted s => recCalls G A w recover fuel ⟨s, c.pos + 1⟩
    | .error s =>
      ⟨s, c.pos⟩ ::
        (match recover ⟨s, c.pos⟩ with
         | none => []
         | some (c', rs) => if rs.isEmpty then [] else recCalls G A w recover fuel c')
    | _ => []

/-- the error the driver records for a call of the recoverer at `c` -/
def errOf (recover : Pos → Option (Pos × List (List Repair))) (c : Pos) : Err :=
  ⟨c.pos, match recover c with
          | none => []
          | some (_, rs) => rs⟩

/-- the decidable hypotheses about the table the search theorems need beyond the certificates: no
state shifts the end-of-input token, and `state_actions` of every state lists exactly the tokens whose
action is not `Error` (`C16.state_actions_spec`) -/
def tableOkB (G : Grammar) (A : Automaton) : Bool := eofNeverShiftedB G A && stateActionsExactB G A

end GrmVerif.Cpct
