import GrmVerif.Model.Grammar
/-!
# Model of `YaccGrammar::new_from_ast_with_validity_info` (cfgrammar/src/lib/yacc/grammar.rs)

Stage A of C10: the step from a validated `GrammarAST` to the indexed grammar object. Core Lean only.

Transcription conventions
* strings (`Str`) are lists of Unicode scalar values; spans are opaque pairs that are only copied;
* `IndexMap`/`IndexSet` of the AST (`rules`, `tokens`+`spans`) are lists in insertion order;
  `HashMap`s that are only looked up (`precs`, `epp`) are association lists; the `HashMap` that is
  *iterated* (`implicit_tokens.keys()`) is a list whose order is the explicit iteration-order parameter;
  `avoid_insert.keys()` is iterated only to set bits, so its order cannot be observed;
* `rule_map` / `token_map` are `HashMap`s filled by successive `insert`s: a lookup returns the LAST
  index that carries the name (`lastIdx`); `map[key]` on a missing key panics → `none`;
* every panic (`unwrap`, index out of range, missing key) is `none`;
* the parallel vectors `prods`, `prod_precs`, `prods_rules`, `actions`, `action_spans`, `prod_spans`,
  which the code always writes at the same index in the same step, are one list of records (`PRec`);
  the accessors of the public API are projections of it. This is the REPAIRED code: before the fix
  `actions`, `action_spans` and `prod_spans` were shorter than `prods` (see Props/C10.lean).
* the three fresh-name loops `while ast.rules.get(&n).is_some() { n += UNIT }` are `freshLoop` with
  fuel `maxLen + 1`; `Lemmas/YaccBuild.lean` proves that this fuel is never exhausted.
-/
namespace GrmVerif.YaccBuild
open GrmVerif

abbrev Str := List Nat
abbrev Span := Nat × Nat

inductive ASym where
  | rule (n : Str) (sp : Span)
  | tok (n : Str) (sp : Span)
deriving DecidableEq, Repr

structure AProd where
  syms : List ASym
  prec : Option Str
  action : Option (Str × Span)
  span : Span
deriving Repr

structure ARule where
  name : Str
  nameSpan : Span
  pidxs : List Nat
  actiont : Option Str
deriving Repr

structure AST where
  start : Option (Str × Span)
  rules : List ARule
  prods : List AProd
  /-- `tokens[i]` with `spans[i]` -/
  tokens : List (Str × Span)
  precs : List (Str × Prec)
  avoidInsert : Option (List Str)
  /-- keys in hash-map ITERATION order (explicit parameter) -/
  implicitTokens : Option (List Str)
  epp : List (Str × Str)
  expect : Option Nat
  expectrr : Option Nat
deriving Repr

inductive Kind where
  | original | grmtools | eco
deriving DecidableEq, Repr

/-- `START_RULE`, `IMPLICIT_RULE`, `IMPLICIT_START_RULE` (extracted from the sources on every run) -/
structure Cfg where
  startRule : Str
  implicitRule : Str
  implicitStartRule : Str

/-- one production of the built grammar: the entries of the parallel vectors at one `PIdx` -/
structure PRec where
  rhs : List Sym
  prec : Option Prec
  rule : Nat
  action : Option Str
  actionSpan : Option Span
  span : Span
deriving Repr

structure IGrammar where
  ruleNames : List (Str × Span)
  tokenNames : List (Option (Span × Str))
  tokenPrecs : List (Option Prec)
  tokenEpp : List (Option Str)
  eof : Nat
  recs : List PRec
  rulesProds : List (List Nat)
  startProd : Nat
  implicitRule : Option Nat
  actiontypes : List (Option Str)
  avoidInsert : Option (List Bool)
  expect : Option Nat
  expectrr : Option Nat
deriving Repr

namespace IGrammar
def rulesLen (g : IGrammar) : Nat := g.ruleNames.length
def tokensLen (g : IGrammar) : Nat := g.tokenNames.length
def prodsLen (g : IGrammar) : Nat := g.recs.length
def prods (g : IGrammar) : List (List Sym) := g.recs.map (·.rhs)
def prodsRules (g : IGrammar) : List Nat := g.recs.map (·.rule)
def prodPrecs (g : IGrammar) : List (Option Prec) := g.recs.map (·.prec)
def actions (g : IGrammar) : List (Option Str) := g.recs.map (·.action)
def actionSpans (g : IGrammar) : List (Option Span) := g.recs.map (·.actionSpan)
def prodSpans (g : IGrammar) : List Span := g.recs.map (·.span)
end IGrammar

/-! ### fresh names -/

def maxLen : List Str → Nat
  | [] => 0
  | n :: ns => max n.length (maxLen ns)

/-- `while names.contains(cand) { cand += unit }` with fuel -/
def freshLoop (names : List Str) (unit : Str) : Nat → Str → Str
  | 0, cand => cand
  | f + 1, cand => if names.contains cand then freshLoop names unit f (cand ++ unit) else cand

def fresh (names : List Str) (unit : Str) : Str := freshLoop names unit (maxLen names + 1) unit

/-! ### name → index maps -/

/-- index (counted from `i`) of the LAST element equal to `n` -/
def lastIdxFrom (n : Str) : List Str → Nat → Option Nat
  | [], _ => none
  | x :: xs, i =>
    match lastIdxFrom n xs (i + 1) with
    | some j => some j
    | none => if x = n then some i else none

def lastIdx (names : List Str) (n : Str) : Option Nat := lastIdxFrom n names 0

def assoc {β : Type} (l : List (Str × β)) (k : Str) : Option β := (l.find? (fun e => e.1 == k)).map (·.2)

/-! ### one production -/

/-- the symbols of an AST production under the two maps; after every token the implicit rule (Eco) -/
def resolveSyms (rmap tmap : Str → Option Nat) (impl : Option Str) : List ASym → Option (List Sym)
  | [] => some []
  | .rule n _ :: rest =>
    match rmap n, resolveSyms rmap tmap impl rest with
    | some r, some tl => some (.rule r :: tl)
    | _, _ => none
  | .tok n _ :: rest =>
    match tmap n, resolveSyms rmap tmap impl rest with
    | some t, some tl =>
      match impl with
      | none => some (.tok t :: tl)
      | some ir =>
        match rmap ir with
        | some r => some (.tok t :: .rule r :: tl)
        | none => none
    | _, _ => none

/-- `for astsym in symbols.iter().rev() { if Token { if let Some(p) = precs.get(n) { prec = p }; break } }`,
on the already reversed list -/
def firstTokPrec (precs : List (Str × Prec)) : List ASym → Option Prec
  | [] => none
  | .tok n _ :: _ => assoc precs n
  | .rule _ _ :: rest => firstTokPrec precs rest

/-- outer `none`: `ast.precs[n]` on a `%prec` token without precedence panics -/
def prodPrec (precs : List (Str × Prec)) (p : AProd) : Option (Option Prec) :=
  match p.prec with
  | some n => (assoc precs n).map some
  | none => some (firstTokPrec precs p.syms.reverse)

/-! ### the main loop -/

structure St where
  slots : List (Option PRec)
  rulesProds : List (List Nat)
  actiontypes : List (Option Str)
deriving Repr

/-- `v[i].push(x)`; `none` when `i` is out of range -/
def pushAt (v : List (List Nat)) (i : Nat) (x : Nat) : Option (List (List Nat)) :=
  match v[i]? with
  | some l => some (v.set i (l ++ [x]))
  | none => none

/-- `v[i] = x`; `none` when `i` is out of range -/
def setAt {α : Type} (v : List α) (i : Nat) (x : α) : Option (List α) :=
  if i < v.length then some (v.set i x) else none

structure Ctx where
  ast : AST
  startName : Str
  implName : Option Str
  implStartName : Option Str
  /-- the user's start rule (`ast.start.unwrap()`) -/
  userStart : Str
  rmap : Str → Option Nat
  tmap : Str → Option Nat

def addedRec (rhs : List Sym) (ridx : Nat) : PRec :=
  { rhs := rhs, prec := none, rule := ridx, action := none, actionSpan := none, span := (0, 0) }

/-- the special start rule `^: S;` (or `^: ^~;`) -/
def stepStart (c : Ctx) (st : St) (ridx : Nat) : Option St :=
  match pushAt st.rulesProds ridx st.slots.length, c.rmap (c.implStartName.getD c.userStart) with
  | some rp, some tgt => some { st with rulesProds := rp, slots := st.slots ++ [some (addedRec [.rule tgt] ridx)] }
  | _, _ => none

/-- the intermediate start rule `^~: ~ S;` -/
def stepImplStart (c : Ctx) (st : St) (ridx : Nat) : Option St :=
  match pushAt st.rulesProds ridx st.slots.length, c.implName.bind c.rmap, c.rmap c.userStart with
  | some rp, some ir, some s =>
    some { st with rulesProds := rp, slots := st.slots ++ [some (addedRec [.rule ir, .rule s] ridx)] }
  | _, _, _ => none

/-- `~: "T1" ~ | … | "Tn" ~ | ;`, tokens in iteration order -/
def implLoop (c : Ctx) (ridx : Nat) : List Str → St → Option St
  | [], st =>
    match pushAt st.rulesProds ridx st.slots.length with
    | some rp => some { st with rulesProds := rp, slots := st.slots ++ [some (addedRec [] ridx)] }
    | none => none
  | t :: ts, st =>
    match pushAt st.rulesProds ridx st.slots.length, c.tmap t with
    | some rp, some ti =>
      implLoop c ridx ts { st with rulesProds := rp, slots := st.slots ++ [some (addedRec [.tok ti, .rule ridx] ridx)] }
    | _, _ => none

def userRec (c : Ctx) (ridx : Nat) (p : AProd) : Option PRec :=
  match resolveSyms c.rmap c.tmap c.implName p.syms, prodPrec c.ast.precs p with
  | some rhs, some prec =>
    some { rhs := rhs, prec := prec, rule := ridx, action := p.action.map (·.1), actionSpan := p.action.map (·.2),
           span := p.span }
  | _, _ => none

/-- `for &pidx in &rule.pidxs { … }` -/
def userLoop (c : Ctx) (ridx : Nat) : List Nat → St → Option St
  | [], st => some st
  | pidx :: rest, st =>
    match c.ast.prods[pidx]? with
    | none => none
    | some p =>
      match userRec c ridx p, pushAt st.rulesProds ridx pidx with
      | some r, some rp =>
        match setAt st.slots pidx (some r) with
        | some sl => userLoop c ridx rest { st with rulesProds := rp, slots := sl }
        | none => none
      | _, _ => none

def findRule (rules : List ARule) (n : Str) : Option ARule := rules.find? (fun r => r.name == n)

def stepUser (c : Ctx) (st : St) (name : Str) (ridx : Nat) : Option St :=
  match findRule c.ast.rules name with
  | none => none
  | some r =>
    match setAt st.actiontypes ridx r.actiont with
    | none => none
    | some at' => userLoop c ridx r.pidxs { st with actiontypes := at' }

/-- body of `for (astrulename, _) in &rule_names` -/
def stepRule (c : Ctx) (st : St) (name : Str) : Option St :=
  match c.rmap name with
  | none => none
  | some ridx =>
    if name = c.startName then stepStart c st ridx
    else if c.implStartName = some name then stepImplStart c st ridx
    else if c.implName = some name then implLoop c ridx (c.ast.implicitTokens.getD []) st
    else stepUser c st name ridx

def mainLoop (c : Ctx) : List Str → St → Option St
  | [], st => some st
  | n :: ns, st =>
    match stepRule c st n with
    | some st' => mainLoop c ns st'
    | none => none

/-- `Option::unwrap` on every slot -/
def unwrapAll {α : Type} : List (Option α) → Option (List α)
  | [] => some []
  | some x :: xs => (unwrapAll xs).map (x :: ·)
  | none :: _ => none

def avoidBits (tmap : Str → Option Nat) : List Str → List Bool → Option (List Bool)
  | [], v => some v
  | n :: ns, v =>
    match tmap n with
    | none => none
    | some t =>
      match setAt v t true with
      | some v' => avoidBits tmap ns v'
      | none => none

/-- the names of the added rules: `(start, implicit, implicit start)` -/
def addedNames (cfg : Cfg) (a : AST) (k : Kind) : Str × Option Str × Option Str :=
  let names := a.rules.map (·.name)
  let start := fresh names cfg.startRule
  match k, a.implicitTokens with
  | .eco, some _ => (start, some (fresh names cfg.implicitRule), some (fresh names cfg.implicitStartRule))
  | _, _ => (start, none, none)

def ruleNamesOf (cfg : Cfg) (a : AST) (k : Kind) : List (Str × Span) :=
  let (start, impl, implStart) := addedNames cfg a k
  (start, ((0, 0) : Span)) ::
    ((match impl, implStart with
      | some n1, some n2 => [(n1, ((0, 0) : Span)), (n2, ((0, 0) : Span))]
      | _, _ => []) ++ a.rules.map (fun r => (r.name, r.nameSpan)))

def mkCtx (cfg : Cfg) (a : AST) (k : Kind) (userStart : Str) : Ctx :=
  let (start, impl, implStart) := addedNames cfg a k
  { ast := a, startName := start, implName := impl, implStartName := implStart, userStart := userStart,
    rmap := lastIdx ((ruleNamesOf cfg a k).map (·.1)),
    tmap := lastIdx (a.tokens.map (·.1)) }

def buildGrammar (cfg : Cfg) (a : AST) (k : Kind) : Option IGrammar :=
  match a.start with
  | none => none
  | some (userStart, _) =>
    let c := mkCtx cfg a k userStart
    let ruleNames := ruleNamesOf cfg a k
    let toks := a.tokens.map (·.1)
    let tokenNames := a.tokens.map (fun t => some (t.2, t.1)) ++ [none]
    let tokenPrecs := toks.map (fun t => assoc a.precs t) ++ [none]
    let tokenEpp := toks.map (fun t => some ((assoc a.epp t).getD t)) ++ [none]
    let st0 : St := { slots := List.replicate a.prods.length none,
                      rulesProds := List.replicate ruleNames.length [],
                      actiontypes := List.replicate ruleNames.length none }
    match mainLoop c (ruleNames.map (·.1)) st0 with
    | none => none
    | some st =>
      match unwrapAll st.slots, (c.rmap c.startName).bind (fun r => st.rulesProds[r]?.bind (·[0]?)) with
      | some recs, some sp =>
        let ai : Option (Option (List Bool)) :=
          match a.avoidInsert with
          | none => some none
          | some l => (avoidBits c.tmap l (List.replicate tokenNames.length false)).map some
        match ai with
        | none => none
        | some avoid =>
          some { ruleNames := ruleNames, tokenNames := tokenNames, tokenPrecs := tokenPrecs, tokenEpp := tokenEpp,
                 eof := a.tokens.length, recs := recs, rulesProds := st.rulesProds, startProd := sp,
                 implicitRule := c.implName.bind c.rmap, actiontypes := st.actiontypes, avoidInsert := avoid,
                 expect := a.expect, expectrr := a.expectrr }
      | _, _ => none

end GrmVerif.YaccBuild
