import GrmVerif.Lemmas.MinSentenceRuns
import GrmVerif.Lemmas.MaxCostsUB
/-! On which grammars `min_sentence` returns: exactly those in which following the production
`cheapest_prod` returns for each rule never revisits a rule (`tightInf = false`). The graph of these
productions is the rule graph of the grammar `tightG`, so reachability, recursiveness and the rank argument
of `rule_max_costs` are reused. -/
namespace GrmVerif.Impl
open GrmVerif Spec Ref

/-- the grammar in which every rule keeps only the production `cheapest_prod` returns for it (the other
productions become empty) -/
def tightG (G : Grammar) (tc : List Nat) (mc : Option (List Nat)) : Grammar :=
  { G with prods := (List.range G.nprods).map (fun p =>
      (G.lhs p, if cheapestProd G tc mc (G.lhs p) = some p then G.rhs p else [])) }

/-- **`min_sentence(r)` follows a cycle**: in the graph of cheapest productions `r` is, or reaches, a rule
that reaches itself (decided with the verified reference reachability on `tightG`) -/
def tightInf (G : Grammar) (tc : List Nat) (mc : Option (List Nat)) (r : Nat) : Bool :=
  isCyc (tightG G tc mc) r ||
  (List.range G.nrules).any (fun q => reachB (tightG G tc mc) r q && isCyc (tightG G tc mc) q)

section
variable (G : Grammar) (tc : List Nat) (mc : Option (List Nat))

theorem tightG_nprods : (tightG G tc mc).nprods = G.nprods := by
  simp [tightG, Grammar.nprods]

theorem tightG_nrules : (tightG G tc mc).nrules = G.nrules := rfl
theorem tightG_ntoks : (tightG G tc mc).ntoks = G.ntoks := rfl

theorem tightG_get (p : Nat) (hp : p < G.nprods) :
    (tightG G tc mc).prods[p]? =
      some (G.lhs p, if cheapestProd G tc mc (G.lhs p) = some p then G.rhs p else []) := by
  simp [tightG, hp]

theorem tightG_lhs (p : Nat) : (tightG G tc mc).lhs p = G.lhs p := by
  by_cases hp : p < G.nprods
  · simp [Grammar.lhs, tightG_get G tc mc p hp]
  · have h1 : (tightG G tc mc).prods[p]? = none := by
      apply List.getElem?_eq_none
      have := tightG_nprods G tc mc
      simp only [Grammar.nprods] at this
      rw [this]; exact Nat.le_of_not_lt hp
    have h2 : G.prods[p]? = none := List.getElem?_eq_none (Nat.le_of_not_lt hp)
    simp [Grammar.lhs, h1, h2]

theorem tightG_rhs (p : Nat) :
    (tightG G tc mc).rhs p =
      if p < G.nprods ∧ cheapestProd G tc mc (G.lhs p) = some p then G.rhs p else [] := by
  by_cases hp : p < G.nprods
  · simp only [Grammar.rhs, tightG_get G tc mc p hp, Option.map_some, Option.getD_some, hp, true_and]
  · have h1 : (tightG G tc mc).prods[p]? = none := by
      apply List.getElem?_eq_none
      have := tightG_nprods G tc mc
      simp only [Grammar.nprods] at this
      rw [this]; exact Nat.le_of_not_lt hp
    simp [Grammar.rhs, h1, hp]

theorem tightG_prodsOf (r : Nat) : (tightG G tc mc).prodsOf r = G.prodsOf r := by
  simp only [Grammar.prodsOf, tightG_nprods, tightG_lhs]

theorem tightG_wf (hwf : G.wf = true) : (tightG G tc mc).wf = true := by
  have h0 := hwf
  simp only [Grammar.wf, Bool.and_eq_true, decide_eq_true_eq] at h0
  simp only [Grammar.wf, Bool.and_eq_true, decide_eq_true_eq, tightG_nprods]
  refine ⟨⟨?_, h0.1.2⟩, h0.2⟩
  simp only [tightG, List.all_eq_true, List.mem_map, List.mem_range]
  rintro ⟨l, rs⟩ ⟨p, hp, e⟩
  simp only [Prod.mk.injEq] at e
  obtain ⟨e1, e2⟩ := e
  subst e1 e2
  simp only [Bool.and_eq_true, decide_eq_true_eq, List.all_eq_true]
  refine ⟨decide_eq_true (wf_lhs hwf hp), ?_⟩
  intro s hs
  split at hs
  · exact wf_sym hwf hp hs
  · cases hs

/-- an edge of `tightG`: `q'` occurs in the production `cheapest_prod` returns for `q` -/
theorem succ_tightG (q q' : Nat) :
    Succ (tightG G tc mc) q q' ↔
      ∃ cp, cheapestProd G tc mc q = some cp ∧ cp < G.nprods ∧ G.lhs cp = q ∧ Sym.rule q' ∈ G.rhs cp := by
  unfold Succ
  simp only [tightG_nprods, tightG_lhs, tightG_rhs]
  constructor
  · rintro ⟨p, hp, hl, hm⟩
    split at hm
    · next h => exact ⟨p, by rw [← hl]; exact h.2, hp, hl, hm⟩
    · cases hm
  · rintro ⟨cp, hc, hp, hl, hm⟩
    refine ⟨cp, hp, hl, ?_⟩
    rw [if_pos ⟨hp, by rw [hl]; exact hc⟩]
    exact hm

theorem tightInf_iff (hwf : G.wf = true) (r : Nat) :
    tightInf G tc mc r = true ↔ Inf (tightG G tc mc) r := by
  have hwf' := tightG_wf G tc mc hwf
  simp only [tightInf, Bool.or_eq_true, List.any_eq_true, List.mem_range, Bool.and_eq_true, Inf]
  rw [isCyc_iff _ hwf']
  constructor
  · rintro (h | ⟨q, _, h1, h2⟩)
    · exact Or.inl h
    · exact Or.inr ⟨q, (reachB_iff _ hwf' r q).mp h1, (isCyc_iff _ hwf' q).mp h2⟩
  · rintro (h | ⟨q, h1, h2⟩)
    · exact Or.inl h
    · exact Or.inr ⟨q, reach_lt hwf' h1, (reachB_iff _ hwf' r q).mpr h1, (isCyc_iff _ hwf' q).mpr h2⟩

/-! ### divergence -/

/-- along a path of `tightG` the runs get strictly shorter -/
theorem runs_along {a b : Nat} (h : Reach (tightG G tc mc) a b) :
    ∀ cp k out, cheapestProd G tc mc a = some cp → Runs G tc mc (G.rhs cp) k out →
      ∃ cpb kb ob, cheapestProd G tc mc b = some cpb ∧ Runs G tc mc (G.rhs cpb) kb ob ∧ kb < k := by
  -- an edge from the rule of `p`
  have edge : ∀ p B, Sym.rule B ∈ (tightG G tc mc).rhs p →
      ∀ cp k out, cheapestProd G tc mc ((tightG G tc mc).lhs p) = some cp → Runs G tc mc (G.rhs cp) k out →
      ∃ cpb kb ob, cheapestProd G tc mc B = some cpb ∧ Runs G tc mc (G.rhs cpb) kb ob ∧ kb < k := by
    intro p B hm cp k out hcp hr
    rw [tightG_rhs] at hm
    rw [tightG_lhs] at hcp
    split at hm
    · next h =>
      rw [h.2] at hcp
      cases hcp
      exact runs_sub hr B hm
    · cases hm
  induction h with
  | edge p B _ hm => exact edge p B hm
  | step A' p B _ _ hm ih =>
    intro cp k out hcp hr
    obtain ⟨cp1, k1, o1, hc1, hr1, hlt1⟩ := ih cp k out hcp hr
    obtain ⟨cpb, kb, ob, hcb, hrb, hltb⟩ := edge p B hm cp1 k1 o1 hc1 hr1
    exact ⟨cpb, kb, ob, hcb, hrb, by omega⟩

/-- the cheapest production of a rule on a cycle of `tightG` has no run -/
theorem no_runs_on_cycle {x : Nat} (h : Cyc (tightG G tc mc) x) :
    ∀ k cp out, cheapestProd G tc mc x = some cp → ¬ Runs G tc mc (G.rhs cp) k out := by
  intro k
  induction k using Nat.strongRecOn with
  | _ k ih =>
    intro cp out hcp hr
    obtain ⟨cpb, kb, ob, hcb, hrb, hlt⟩ := runs_along G tc mc h cp k out hcp hr
    exact ih kb hlt cpb ob hcb hrb

/-- **`min_sentence` does not return** when it follows a cycle -/
theorem minSentenceWith_diverges {r : Nat} (h : Inf (tightG G tc mc) r) (fuel : Nat) (w : List Nat) :
    minSentenceWith G tc mc r fuel ≠ .done w := by
  intro hd
  unfold minSentenceWith at hd
  cases hcp : cheapestProd G tc mc r with
  | none => rw [hcp] at hd; cases hd
  | some cp =>
    rw [hcp] at hd
    simp only [] at hd
    obtain ⟨k, out, hr, _, _⟩ := runs_of_done G tc mc fuel [] cp 0 [] w hd
    simp only [List.drop_zero] at hr
    rcases h with hc | ⟨q, hq, hc⟩
    · exact no_runs_on_cycle G tc mc hc k cp out hcp hr
    · obtain ⟨cpb, kb, ob, hcb, hrb, _⟩ := runs_along G tc mc hq cp k out hcp hr
      exact no_runs_on_cycle G tc mc hc kb cpb ob hcb hrb

end

/-! ### termination -/

/-- the number of rules in a sequence of symbols -/
def numRules : List Sym → Nat
  | [] => 0
  | .tok _ :: rest => numRules rest
  | .rule _ :: rest => numRules rest + 1

theorem numRules_le (l : List Sym) : numRules l ≤ l.length := by
  induction l with
  | nil => exact Nat.le_refl _
  | cons s rest ih => cases s <;> simp only [numRules, List.length_cons] <;> omega

theorem runs_cons_tok {G : Grammar} {tc : List Nat} {mc : Option (List Nat)} {l : List Sym} {k : Nat}
    {out : List Nat} (t : Nat) (h : Runs G tc mc l k out) : Runs G tc mc (.tok t :: l) k (t :: out) := by
  match h with
  | .toks pre => exact .toks (t :: pre)
  | .rule pre q rest cp k1 o1 k2 o2 hcp h1 h2 =>
    have := Runs.rule (t :: pre) q rest cp k1 o1 k2 o2 hcp h1 h2
    simpa using this

/-- if the cheapest production of every rule of `l` has a run of at most `K` iterations, `l` has a run of
at most `1 + numRules l * (K + 1)` -/
theorem runs_of_list (G : Grammar) (tc : List Nat) (mc : Option (List Nat)) (K : Nat) :
    ∀ l : List Sym,
      (∀ q', Sym.rule q' ∈ l → ∃ cp k out, cheapestProd G tc mc q' = some cp ∧
        Runs G tc mc (G.rhs cp) k out ∧ k ≤ K) →
      ∃ k out, Runs G tc mc l k out ∧ k ≤ 1 + numRules l * (K + 1) := by
  intro l
  induction l with
  | nil => intro _; exact ⟨1, [], .toks [], by simp [numRules]⟩
  | cons s rest ih =>
    intro h
    obtain ⟨k2, o2, hr2, hk2⟩ := ih (fun q' hq' => h q' (List.mem_cons_of_mem _ hq'))
    cases s with
    | tok t => exact ⟨k2, t :: o2, runs_cons_tok t hr2, by simpa [numRules] using hk2⟩
    | rule q =>
      obtain ⟨cp, k1, o1, hcp, hr1, hk1⟩ := h q (by simp)
      have := Runs.rule [] q rest cp k1 o1 k2 o2 hcp hr1 hr2
      refine ⟨1 + k1 + k2, [] ++ o1 ++ o2, by simpa using this, ?_⟩
      simp only [numRules, Nat.add_mul, Nat.one_mul]
      omega

/-- the longest right-hand side -/
def maxRhs (G : Grammar) : Nat := (List.range G.nprods).foldl (fun acc p => max acc (G.rhs p).length) 0

theorem rhs_le_maxRhs (G : Grammar) {p : Nat} (hp : p < G.nprods) : (G.rhs p).length ≤ maxRhs G :=
  (foldl_max_ge (fun p => (G.rhs p).length) (List.range G.nprods) 0).2 p (by simpa using hp)

/-- iterations that suffice for a rule of rank `d` in the graph of cheapest productions -/
def msBound (L : Nat) : Nat → Nat
  | 0 => 1 + L
  | d + 1 => 1 + L * (msBound L d + 1)

/-- iterations of the `while` loop of `min_sentence` that always suffice when it returns at all -/
def minSentenceFuel (G : Grammar) : Nat := msBound (maxRhs G) G.nrules + 1

theorem runs_of_rank (G : Grammar) (hwf : G.wf = true) (tc : List Nat) (m : List (Option Nat))
    (htc : tc.length = G.ntoks) (hmt : MinTable G (tcF tc) m) :
    ∀ (d q x : Nat), q < G.nrules → look m q = some x → x < U16MAX →
      ¬ Inf (tightG G tc (some (concr m))) q → rho (tightG G tc (some (concr m))) q ≤ d →
      ∃ cp k out, cheapestProd G tc (some (concr m)) q = some cp ∧
        Runs G tc (some (concr m)) (G.rhs cp) k out ∧ k ≤ msBound (maxRhs G) d := by
  have hwf' := tightG_wf G tc (some (concr m)) hwf
  -- what is known about the rules of the cheapest production of `q`
  have key : ∀ q x, q < G.nrules → look m q = some x → x < U16MAX →
      ¬ Inf (tightG G tc (some (concr m))) q →
      ∃ cp, cheapestProd G tc (some (concr m)) q = some cp ∧ cp < G.nprods ∧
        ∀ q', Sym.rule q' ∈ G.rhs cp →
          q' < G.nrules ∧ (∃ x', look m q' = some x' ∧ x' < U16MAX) ∧
          ¬ Inf (tightG G tc (some (concr m))) q' ∧
          rho (tightG G tc (some (concr m))) q' < rho (tightG G tc (some (concr m))) q := by
    intro q x hq hx hlt hni
    obtain ⟨cp, hcp, hcpm, hcpc⟩ := cheapestProd_tight G hwf tc m htc hmt hq hx hlt
    obtain ⟨hp1, hp2⟩ := mem_prodsOf.mp hcpm
    refine ⟨cp, hcp, hp1, ?_⟩
    intro q' hq'
    have hsucc : Succ (tightG G tc (some (concr m))) q q' :=
      (succ_tightG G tc (some (concr m)) q q').mpr ⟨cp, hcp, hp1, hp2, hq'⟩
    obtain ⟨x', hx', hle'⟩ := seqCost_mem _ x hcpc q' hq'
    have hni' : ¬ Inf (tightG G tc (some (concr m))) q' := fun h => hni (inf_of_succ hsucc h)
    refine ⟨by simpa [Grammar.symOk] using wf_sym hwf hp1 hq', ⟨x', hx', by omega⟩, hni', ?_⟩
    exact rho_lt _ hwf' hsucc (fun hc => hni' (Or.inl hc))
  intro d
  induction d with
  | zero =>
    intro q x hq hx hlt hni hrho
    obtain ⟨cp, hcp, hp1, hall⟩ := key q x hq hx hlt hni
    obtain ⟨k, out, hr, hk⟩ := runs_of_list G tc (some (concr m)) 0 (G.rhs cp) (by
      intro q' hq'
      have := (hall q' hq').2.2.2
      omega)
    refine ⟨cp, k, out, hcp, hr, ?_⟩
    have h1 := numRules_le (G.rhs cp)
    have h2 := rhs_le_maxRhs G hp1
    simp only [msBound]
    omega
  | succ d ih =>
    intro q x hq hx hlt hni hrho
    obtain ⟨cp, hcp, hp1, hall⟩ := key q x hq hx hlt hni
    obtain ⟨k, out, hr, hk⟩ := runs_of_list G tc (some (concr m)) (msBound (maxRhs G) d) (G.rhs cp) (by
      intro q' hq'
      obtain ⟨h1, ⟨x', hx', hlt'⟩, h3, h4⟩ := hall q' hq'
      exact ih q' x' h1 hx' hlt' h3 (by omega))
    refine ⟨cp, k, out, hcp, hr, ?_⟩
    have h1 := numRules_le (G.rhs cp)
    have h2 := rhs_le_maxRhs G hp1
    have h3 : numRules (G.rhs cp) * (msBound (maxRhs G) d + 1) ≤ maxRhs G * (msBound (maxRhs G) d + 1) :=
      Nat.mul_le_mul_right _ (by omega)
    simp only [msBound]
    omega

/-- **`min_sentence` returns** when it follows no cycle, within `minSentenceFuel` iterations -/
theorem minSentenceWith_terminates (G : Grammar) (hwf : G.wf = true) (tc : List Nat) (m : List (Option Nat))
    (htc : tc.length = G.ntoks) (hmt : MinTable G (tcF tc) m) {r x : Nat} (hr : r < G.nrules)
    (hx : look m r = some x) (hlt : x < U16MAX) (hni : ¬ Inf (tightG G tc (some (concr m))) r) :
    ∃ w, ∀ fuel, minSentenceFuel G ≤ fuel → minSentenceWith G tc (some (concr m)) r fuel = .done w := by
  have hrho : rho (tightG G tc (some (concr m))) r ≤ G.nrules := by
    have := List.length_filter_le (reachB (tightG G tc (some (concr m))) r) (List.range G.nrules)
    simpa [rho, tightG_nrules] using this
  obtain ⟨cp, k, out, hcp, hruns, hk⟩ := runs_of_rank G hwf tc m htc hmt G.nrules r x hr hx hlt hni hrho
  refine ⟨out, ?_⟩
  intro fuel hf
  unfold minSentenceWith
  rw [hcp]
  simp only []
  have hk' : k + 1 ≤ fuel := by unfold minSentenceFuel at hf; omega
  obtain ⟨f', rfl⟩ : ∃ f', fuel = k + (f' + 1) := ⟨fuel - k - 1, by omega⟩
  rw [runs_compose hruns cp 0 (by simp) (f' + 1) [] []]
  simp [msLoop]

end GrmVerif.Impl
