import GrmVerif.Lemmas.YaccRoundtrip5
/-!
C10, text → AST stage, part 6: the image `runRules` read declaratively — with spans forgotten, the
productions it adds are exactly the productions of the description, in order.
-/
namespace GrmVerif.YaccRender
open GrmVerif.YaccParse
open GrmVerif.Header (Res Span byteLen byteLen_append)

/-- a production of the AST with spans forgotten: rule, symbols (`true` = token), `%prec`, action? -/
structure PView where
  rule : Name
  syms : List (Bool × Name)
  prec : Option Name
  action : Bool
deriving DecidableEq, Repr

def symView (s : Sym) : Bool × Name := (s.isTok, s.name)

def prodView (p : Prod) : PView := ⟨p.rule, p.syms.map symView, p.prec, p.action⟩

/-- how the parser classifies a written symbol: quoted → token; bare → token iff declared by `%token` -/
def RTok.isTok (dirs : List Name) : RTok → Bool
  | .quoted _ _ => true
  | .bare n => dirs.contains n

def descSym (dirs : List Name) (s : RTok) : Bool × Name := (s.isTok dirs, s.name)

def descProd (dirs : List Name) (rn : Name) (p : RProd) : PView :=
  ⟨rn, p.syms.map (descSym dirs), p.prec.map RTok.name, p.action.isSome⟩

/-- the productions of a description in source order, each with the name of its rule -/
def descProds (dirs : List Name) : List RRule → List PView
  | [] => []
  | r :: rs => r.prods.map (descProd dirs r.name) ++ descProds dirs rs

/-- the hypothesis on the state in which the rules section is entered: `dirs` are the names declared
by `%token`, and each of them is in the token set (the `%token` loop inserts both together) -/
def DirsOK (dirs : List Name) (st : St) : Prop :=
  st.ast.tokenDirs = dirs ∧ ∀ n, dirs.contains n = true → st.ast.hasToken n = true

/-- `st'` differs from `st` by inserted tokens / rules / start / newlines only -/
structure Keeps (dirs : List Name) (st st' : St) : Prop where
  dirs : DirsOK dirs st → DirsOK dirs st'
  prods : st'.ast.prods = st.ast.prods

theorem Keeps.refl (dirs : List Name) (st : St) : Keeps dirs st st := ⟨id, rfl⟩

theorem Keeps.trans {dirs : List Name} {a b c : St} (h1 : Keeps dirs a b) (h2 : Keeps dirs b c) :
    Keeps dirs a c := ⟨fun h => h2.dirs (h1.dirs h), by rw [h2.prods, h1.prods]⟩

theorem hasToken_insert {a : Ast} {n m : Name} {sp : Span} (h : a.hasToken m = true) :
    (a.insertToken n sp).hasToken m = true := by
  unfold Ast.insertToken
  split
  · exact h
  · simp only [Ast.hasToken, List.any_append, Bool.or_eq_true] at h ⊢; exact .inl h

theorem keeps_insert (dirs : List Name) (st : St) (n : Name) (sp : Span) :
    Keeps dirs st (St.mapAst (fun a => a.insertToken n sp) st) := by
  refine ⟨fun h => ⟨?_, fun m hm => hasToken_insert (h.2 m hm)⟩, ?_⟩
  · rw [← h.1]; simp only [St.mapAst, Ast.insertToken]; split <;> rfl
  · simp only [St.mapAst, Ast.insertToken]; split <;> rfl

theorem keeps_incNl (dirs : List Name) (st : St) (k : Nat) : Keeps dirs st (St.incNl k st) := ⟨id, rfl⟩

/-- the part of the parser's local variables that ends up in the production -/
def pview (p : PState) : List (Bool × Name) × Option Name × Bool := (p.syms.map symView, p.prec, p.action)

theorem stepSym_view (dirs : List Name) (i : Nat) (s : RTok) (p : PState) (st : St) :
    Keeps dirs st (stepSym i s p st).2 ∧
      (DirsOK dirs st → pview (stepSym i s p st).1 = ((pview p).1 ++ [descSym dirs s], (pview p).2)) := by
  cases s with
  | quoted q t =>
    exact ⟨keeps_insert _ _ _ _, fun _ => by simp [stepSym, pview, symView, descSym, RTok.isTok, RTok.name]⟩
  | bare n =>
    refine ⟨Keeps.refl _ _, fun h => ?_⟩
    have : (st.ast.hasToken n && st.ast.tokenDirs.contains n) = dirs.contains n := by
      rw [h.1]
      cases hc : dirs.contains n with
      | false => simp
      | true => simp [h.2 n hc]
    simp only [stepSym, pview, List.map_append, List.map_cons, List.map_nil, symView, descSym, RTok.isTok,
      RTok.name, this]

theorem runSyms_view (dirs : List Name) : ∀ (ss : List RTok) (i : Nat) (p : PState) (st : St),
    Keeps dirs st (runSyms i ss p st).2.2 ∧
      (DirsOK dirs st → pview (runSyms i ss p st).2.1 = ((pview p).1 ++ ss.map (descSym dirs), (pview p).2)) := by
  intro ss
  induction ss with
  | nil => intro i p st; exact ⟨Keeps.refl _ _, fun _ => by simp [runSyms]⟩
  | cons s ss ih =>
    intro i p st
    obtain ⟨k1, v1⟩ := stepSym_view dirs i s p st
    obtain ⟨k2, v2⟩ := ih (i + byteLen s.text + 1) (stepSym i s p st).1 (stepSym i s p st).2
    rw [runSyms]
    refine ⟨k1.trans k2, fun h => ?_⟩
    rw [v2 (k1.dirs h), v1 h]
    simp

theorem runEmpty_view (i : Nat) (e : Bool) (p : PState) : pview (runEmpty i e p).2 = pview p := by
  cases e <;> rfl

theorem runPrec_view (dirs : List Name) (i : Nat) (o : Option RTok) (p : PState) (st : St)
    (hp : p.prec = none) :
    Keeps dirs st (runPrec i o p st).2.2 ∧
      pview (runPrec i o p st).2.1 = ((pview p).1, o.map RTok.name, (pview p).2.2) := by
  cases o with
  | none => exact ⟨Keeps.refl _ _, by simp [runPrec, pview, hp]⟩
  | some t => exact ⟨keeps_insert _ _ _ _, by simp [runPrec, pview]⟩

theorem runAction_view (dirs : List Name) (i : Nat) (o : Option (List Char)) (p : PState) (st : St)
    (hp : p.action = false) :
    Keeps dirs st (runAction i o p st).2.2 ∧
      pview (runAction i o p st).2.1 = ((pview p).1, (pview p).2.1, o.isSome) := by
  cases o with
  | none => exact ⟨Keeps.refl _ _, by simp [runAction, pview, hp]⟩
  | some t => exact ⟨keeps_incNl _ _ _, by simp [runAction, pview]⟩

theorem stepSym_pa (i : Nat) (s : RTok) (p : PState) (st : St) :
    (stepSym i s p st).1.prec = p.prec ∧ (stepSym i s p st).1.action = p.action := by
  cases s <;> exact ⟨rfl, rfl⟩

theorem runSyms_pa : ∀ (ss : List RTok) (i : Nat) (p : PState) (st : St),
    (runSyms i ss p st).2.1.prec = p.prec ∧ (runSyms i ss p st).2.1.action = p.action := by
  intro ss
  induction ss with
  | nil => intro i p st; exact ⟨rfl, rfl⟩
  | cons s ss ih =>
    intro i p st
    rw [runSyms]
    obtain ⟨h1, h2⟩ := ih (i + byteLen s.text + 1) (stepSym i s p st).1 (stepSym i s p st).2
    obtain ⟨h3, h4⟩ := stepSym_pa i s p st
    exact ⟨h1.trans h3, h2.trans h4⟩

theorem runPrec_action (i : Nat) (o : Option RTok) (p : PState) (st : St) :
    (runPrec i o p st).2.1.action = p.action := by
  cases o <;> rfl

theorem runProd_view (dirs : List Name) (rn : Name) (i : Nat) (pr : RProd) (st : St) :
    Keeps dirs st (runProd i pr st).2.2 ∧
      (DirsOK dirs st → ∀ j, prodView (mkProd rn (runProd i pr st).2.1 j) = descProd dirs rn pr) := by
  have ve : pview (runEmpty i pr.empty { prodStart := i }).2 = ([], none, false) := by
    rw [runEmpty_view]; rfl
  have pe : (runEmpty i pr.empty { prodStart := i }).2.prec = none ∧
      (runEmpty i pr.empty { prodStart := i }).2.action = false := by
    simp only [pview, Prod.mk.injEq] at ve; exact ⟨ve.2.1, ve.2.2⟩
  obtain ⟨k1, v1⟩ := runSyms_view dirs pr.syms (runEmpty i pr.empty { prodStart := i }).1
    (runEmpty i pr.empty { prodStart := i }).2 st
  obtain ⟨pa1, pa2⟩ := runSyms_pa pr.syms (runEmpty i pr.empty { prodStart := i }).1
    (runEmpty i pr.empty { prodStart := i }).2 st
  obtain ⟨k2, v2⟩ := runPrec_view dirs
    (runSyms (runEmpty i pr.empty { prodStart := i }).1 pr.syms (runEmpty i pr.empty { prodStart := i }).2 st).1
    pr.prec _ (runSyms (runEmpty i pr.empty { prodStart := i }).1 pr.syms
      (runEmpty i pr.empty { prodStart := i }).2 st).2.2 (pa1.trans pe.1)
  obtain ⟨k3, v3⟩ := runAction_view dirs
    (runPrec (runSyms (runEmpty i pr.empty { prodStart := i }).1 pr.syms
      (runEmpty i pr.empty { prodStart := i }).2 st).1 pr.prec
      (runSyms (runEmpty i pr.empty { prodStart := i }).1 pr.syms
      (runEmpty i pr.empty { prodStart := i }).2 st).2.1
      (runSyms (runEmpty i pr.empty { prodStart := i }).1 pr.syms
      (runEmpty i pr.empty { prodStart := i }).2 st).2.2).1
    pr.action _ (runPrec (runSyms (runEmpty i pr.empty { prodStart := i }).1 pr.syms
      (runEmpty i pr.empty { prodStart := i }).2 st).1 pr.prec
      (runSyms (runEmpty i pr.empty { prodStart := i }).1 pr.syms
      (runEmpty i pr.empty { prodStart := i }).2 st).2.1
      (runSyms (runEmpty i pr.empty { prodStart := i }).1 pr.syms
      (runEmpty i pr.empty { prodStart := i }).2 st).2.2).2.2
    ((runPrec_action _ _ _ _).trans (pa2.trans pe.2))
  refine ⟨(k1.trans k2).trans k3, fun h j => ?_⟩
  have hv : pview (runProd i pr st).2.1 = (pr.syms.map (descSym dirs), pr.prec.map RTok.name, pr.action.isSome) := by
    show pview (runAction _ _ _ _).2.1 = _
    rw [v3, v2, v1 h, ve]
    simp
  simp only [pview, Prod.mk.injEq] at hv
  simp only [prodView, mkProd, descProd, hv.1, hv.2.1, hv.2.2]

theorem keeps_push_view (dirs : List Name) (st : St) (p : Prod) :
    (DirsOK dirs st → DirsOK dirs (pushProd p st)) ∧
      (pushProd p st).ast.prods = st.ast.prods ++ [p] := ⟨id, rfl⟩

theorem runProds_view (dirs : List Name) (rn : Name) : ∀ (more : List RProd) (pr : RProd) (i : Nat) (st : St),
    DirsOK dirs st → DirsOK dirs (runProds rn i pr more st).2 ∧
      (runProds rn i pr more st).2.ast.prods.map prodView
        = st.ast.prods.map prodView ++ (pr :: more).map (descProd dirs rn) := by
  intro more
  induction more with
  | nil =>
    intro pr i st h
    obtain ⟨k, v⟩ := runProd_view dirs rn i pr st
    refine ⟨k.dirs h, ?_⟩
    show (((runProd i pr st).2.2.ast.prods ++ [_]).map prodView) = _
    rw [List.map_append, k.prods, List.map_cons, v h]
    rfl
  | cons q qs ih =>
    intro pr i st h
    obtain ⟨k, v⟩ := runProd_view dirs rn i pr st
    rw [runProds]
    obtain ⟨d, e⟩ := ih q ((runProd i pr st).1 + 2)
      (pushProd (mkProd rn (runProd i pr st).2.1 (runProd i pr st).1) (runProd i pr st).2.2) (k.dirs h)
    refine ⟨d, ?_⟩
    rw [e]
    show (((runProd i pr st).2.2.ast.prods ++ [_]).map prodView) ++ _ = _
    rw [List.map_append, k.prods, List.map_cons, v h]
    simp

theorem dirsOK_rule {dirs : List Name} {st : St} (h : DirsOK dirs st) (g : Bool) (i : Nat) (r : RRule) :
    DirsOK dirs (headSt g i r st) ∧ (headSt g i r st).ast.prods = st.ast.prods := by
  have e1 : ∀ (n : Name) (sp : Span) (a : Ast), ((setStart n sp a).addRule n sp).tokenDirs = a.tokenDirs ∧
      ((setStart n sp a).addRule n sp).tokens = a.tokens ∧
      ((setStart n sp a).addRule n sp).prods = a.prods := by
    intro n sp a
    simp only [setStart, Ast.addRule, Ast.hasRule]
    split <;> split <;> exact ⟨rfl, rfl, rfl⟩
  obtain ⟨t1, t2, t3⟩ := e1 r.name (i, i + byteLen r.name) st.ast
  refine ⟨⟨?_, ?_⟩, t3⟩
  · simp only [headSt, St.incNl, St.mapAst]; rw [t1]; exact h.1
  · intro m hm
    have := h.2 m hm
    simp only [headSt, St.incNl, St.mapAst, Ast.hasToken] at this ⊢
    rw [t2]; exact this

theorem runRules_view (dirs : List Name) (g : Bool) : ∀ (rs : List RRule) (i : Nat) (st : St), DirsOK dirs st →
    DirsOK dirs (runRules g i rs st).2 ∧
      (runRules g i rs st).2.ast.prods.map prodView = st.ast.prods.map prodView ++ descProds dirs rs := by
  intro rs
  induction rs with
  | nil => intro i st h; exact ⟨h, by simp [runRules, descProds]⟩
  | cons r rs ih =>
    intro i st h
    obtain ⟨d1, p1⟩ := dirsOK_rule h g i r
    obtain ⟨d2, p2⟩ := runProds_view dirs r.name r.more r.first
      (i + byteLen r.name + byteLen (renderHead g r) + 2) _ d1
    have d3 : DirsOK dirs (runRule g i r st).2 := d2
    have p3 : (runRule g i r st).2.ast.prods.map prodView
        = st.ast.prods.map prodView ++ r.prods.map (descProd dirs r.name) := by
      rw [← p1]; exact p2
    obtain ⟨d4, p4⟩ := ih (runRule g i r st).1 (runRule g i r st).2 d3
    rw [runRules]
    refine ⟨d4, ?_⟩
    rw [p4, p3, descProds, List.append_assoc]

end GrmVerif.YaccRender
