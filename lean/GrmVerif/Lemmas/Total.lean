import GrmVerif.Model.AnalysesRef
import GrmVerif.Model.Closure
import GrmVerif.Model.CertVP
/-! The reference fixed-point computations never run out of fuel: every one of them is called with
`|universe| + 1` units, which `Fix.lfp_total_empty` shows to be enough. So a `none` ("fuel exhausted")
answer of the reference analyses, closures, reachability and productivity is impossible. -/
namespace GrmVerif.Total
open GrmVerif Fix Ref

theorem pairs_length (n m : Nat) : (pairs n m).length = n * m := by
  unfold pairs
  induction n with
  | zero => simp
  | succ k ih =>
    rw [List.range_succ, List.flatMap_append, List.length_append, ih]
    simp [Nat.succ_mul]

theorem nullables_total (G : Grammar) : ∃ N, nullables G = some N := by
  have := lfp_total_empty (List.range G.nrules) (nullableDerive G)
  simpa [nullables] using this

theorem firsts_total (G : Grammar) (N : Nat → Bool) : ∃ F, firsts G N = some F := by
  have := lfp_total_empty (pairs G.nrules G.ntoks) (firstDerive G N)
  rw [pairs_length] at this
  exact this

theorem follows_total (G : Grammar) (N : Nat → Bool) (F : Nat × Nat → Bool) : ∃ W, follows G N F = some W := by
  have := lfp_total_empty (pairs G.nrules G.ntoks) (followDerive G N F)
  rw [pairs_length] at this
  exact this

theorem reach_total (G : Grammar) (A : Nat) : ∃ R, reach G A = some R := by
  have := lfp_total_empty (List.range G.nrules) (reachDerive G A)
  simpa [reach] using this

/-- **the reference analyses always answer** -/
theorem analyses_total (G : Grammar) : ∃ An, analyses G = some An := by
  obtain ⟨N, hN⟩ := nullables_total G
  obtain ⟨F, hF⟩ := firsts_total G (N.contains ·)
  obtain ⟨W, hW⟩ := follows_total G (N.contains ·) (F.contains ·)
  refine ⟨⟨N, F, W⟩, ?_⟩
  unfold analyses
  rw [hN]; simp only []
  rw [hF]; simp only []
  rw [hW]

theorem close1_total (G : Grammar) (N : Nat → Bool) (F : Nat × Nat → Bool) (core : List Item) :
    ∃ S, Closure.close1 G N F core = some S :=
  lfp_total_empty (Closure.factUniverse G) (Closure.closeDerive G N F core)

theorem reachableStates_total (A : Automaton) : ∃ R, Closure.reachableStates A = some R := by
  have := lfp_total_empty (List.range A.nstates) (Closure.reachDeriveSt A)
  simpa [Closure.reachableStates] using this

theorem close0_total (G : Grammar) (core : List Item) : ∃ S, Cert.close0 G core = some S :=
  lfp_total_empty (Closure.itemUniverse G) (Cert.derive0 G core)

theorem productive_total (G : Grammar) : ∃ S, Cert.productive G = some S := by
  have := lfp_total_empty (List.range G.nrules) (Cert.deriveProd G)
  simpa [Cert.productive] using this

end GrmVerif.Total
