import GrmVerif.Lemmas.Actions
/-! The action model refines the LR driver and keeps the log/specification invariant. -/
namespace GrmVerif.Act
open GrmVerif LR Cert

/-- the span stack describes the tree stack, and the log is the specification's call list of the
trees on the stack (bottom to top) -/
structure InvA (G : Grammar) (lexSpan : Nat → Nat × Nat) (a : ACfg) : Prop where
  entries : EntriesFor lexSpan a.spans a.c.astack
  log : logOk a.log (specCallsList G lexSpan a.c.astack.reverse) = true

theorem invA_init (G : Grammar) (A : Automaton) (lexSpan : Nat → Nat × Nat) : InvA G lexSpan (initA A) :=
  ⟨by simp [initA, init, EntriesFor], by simp [initA, init, specCallsList, logOk]⟩

theorem reduceSpan_spec {lexSpan : Nat → Nat × Nat} {spans : List SpanE} {astack : List Tree} (n : Nat)
    (h : EntriesFor lexSpan spans astack) (p : Nat) :
    eo (reduceSpan spans n) = spanSpec lexSpan (.node p (astack.take n).reverse) ∧
    ((reduceSpan spans n).empty = true → (reduceSpan spans n).start = (reduceSpan spans n).stop) := by
  have hk := entriesFor_reverse (entriesFor_take_drop n h).1
  have hfl := firstLast_entries hk
  rw [spanSpec_node, ← hfl]
  unfold reduceSpan
  cases hf : firstLast (spans.take n).reverse with
  | none => simp [eo]
  | some v => obtain ⟨a, b⟩ := v; simp [eo]

/-- the model's step is the LR driver's step on the parser configuration -/
theorem stepA_proj (G : Grammar) (A : Automaton) (w : List Nat) (lexSpan : Nat → Nat × Nat) (a : ACfg) :
    (match stepA G A w lexSpan a with
     | .cont a' => step G A w a.c = .cont a'.c
     | .done o _ => step G A w a.c = .done o) := by
  obtain ⟨⟨ps, as, la⟩, spans, log⟩ := a
  cases ps with
  | nil => simp [stepA, step]
  | cons st rest =>
    cases hact : A.action st (nextTok G w la) with
    | error => simp [stepA, step, hact]
    | shift s' => simp [stepA, step, hact]
    | accept =>
      simp only [stepA, step, hact]
      cases hl : as.getLast? with
      | none => simp
      | some t => cases t <;> simp
    | reduce p =>
      simp only [stepA, step, hact]
      by_cases hle : (st :: rest).length ≤ (G.rhs p).length
      · rw [if_pos hle, if_pos hle]
      · rw [if_neg hle, if_neg hle]
        cases hd : List.drop (G.rhs p).length (st :: rest) with
        | nil => simp
        | cons prior tl =>
          simp only
          cases hg : A.goto prior (G.lhs p) with
          | none => simp
          | some s' => simp

/-- a continuing step keeps the invariant -/
theorem stepA_inv (G : Grammar) (A : Automaton) (w : List Nat) (lexSpan : Nat → Nat × Nat) (a a' : ACfg)
    (hinv : InvA G lexSpan a) (h : stepA G A w lexSpan a = .cont a') : InvA G lexSpan a' := by
  obtain ⟨⟨ps, as, la⟩, spans, log⟩ := a
  obtain ⟨hent, hlog⟩ := hinv
  simp only at hent hlog
  cases ps with
  | nil => simp [stepA] at h
  | cons st rest =>
    cases hact : A.action st (nextTok G w la) with
    | error => simp [stepA, hact] at h
    | accept =>
      simp only [stepA, hact] at h
      cases hl : as.getLast? with
      | none => simp [hl] at h
      | some t => cases t <;> simp [hl] at h
    | shift s' =>
      simp only [stepA, hact] at h
      injection h with h; subst h
      refine ⟨?_, ?_⟩
      · refine ⟨?_, by simp, hent⟩
        simp [eo, spanSpec, leafSpans, Tree.leafIdxs]
      · simpa [specCallsList_append, specCallsList, specCalls] using hlog
    | reduce p =>
      simp only [stepA, hact] at h
      by_cases hle : (st :: rest).length ≤ (G.rhs p).length
      · rw [if_pos hle] at h; cases h
      · rw [if_neg hle] at h
        cases hd : List.drop (G.rhs p).length (st :: rest) with
        | nil => simp [hd] at h
        | cons prior tl =>
          simp only [hd] at h
          cases hg : A.goto prior (G.lhs p) with
          | none => simp [hg] at h
          | some s' =>
            simp only [hg] at h
            injection h with h; subst h
            obtain ⟨hs1, hs2⟩ := reduceSpan_spec (G.rhs p).length hent p
            refine ⟨⟨hs1, hs2, (entriesFor_take_drop _ hent).2⟩, ?_⟩
            simp only [List.reverse_cons, specCallsList_append, specCallsList, specCalls, List.append_nil]
            have hsplit : specCallsList G lexSpan as.reverse =
                specCallsList G lexSpan (as.drop (G.rhs p).length).reverse ++
                  specCallsList G lexSpan (as.take (G.rhs p).length).reverse := by
              rw [← specCallsList_append, ← List.reverse_append, List.take_append_drop]
            rw [hsplit] at hlog
            rw [← List.append_assoc, logOk_snoc, hlog]
            simp only [Bool.true_and, callOk, beq_self_eq_true, argsEq_refl]
            cases hsp : spanSpec lexSpan (.node p (as.take (G.rhs p).length).reverse) with
            | none =>
              rw [hsp] at hs1
              have hemp : (reduceSpan spans (G.rhs p).length).empty = true := by
                unfold eo at hs1
                cases he : (reduceSpan spans (G.rhs p).length).empty with
                | true => rfl
                | false => simp [he] at hs1
              simp [hs2 hemp]
            | some v =>
              obtain ⟨x, y⟩ := v
              rw [hsp] at hs1
              unfold eo at hs1
              cases he : (reduceSpan spans (G.rhs p).length).empty with
              | true => simp [he] at hs1
              | false =>
                simp only [he, Bool.false_eq_true, ↓reduceIte, Option.some.injEq, Prod.mk.injEq] at hs1
                simp [hs1.1, hs1.2]

end GrmVerif.Act
