import GrmVerif.Lemmas.PagerInvB
/-!
Panic-freedom of the modelled `pager_stategraph` (`PagerImpl.pager`), for every list of orders: every
`unwrap`, index and `position(..).unwrap()` of the main loop, of `gc` and of the final collection is safe.
The extra invariant (`InvT`): `todo` is the number of `None` entries of `closed_states`, the candidate
tables have one entry per rule / per token (plus eof), no core state is empty.
-/
namespace GrmVerif.PagerImpl
open GrmVerif CloseImpl Closure

/-- number of `None` entries of `closed_states` -/
def cnone : List (Option (List Item)) → Nat
  | [] => 0
  | none :: r => cnone r + 1
  | some _ :: r => cnone r

theorem cnone_append_none (l : List (Option (List Item))) : cnone (l ++ [none]) = cnone l + 1 := by
  induction l with
  | nil => rfl
  | cons x r ih => cases x <;> simp [cnone, ih]

theorem cnone_set_none : ∀ (l : List (Option (List Item))) (k : Nat) (x : List Item),
    l[k]? = some (some x) → cnone (l.set k none) = cnone l + 1
  | [], k, x, h => by simp at h
  | a :: r, 0, x, h => by
    simp only [List.getElem?_cons_zero, Option.some.injEq] at h
    subst h; simp [cnone]
  | a :: r, k + 1, x, h => by
    simp only [List.getElem?_cons_succ] at h
    have := cnone_set_none r k x h
    cases a <;> simp [cnone, this]

theorem cnone_set_some : ∀ (l : List (Option (List Item))) (k : Nat) (x : List Item),
    l[k]? = some none → cnone (l.set k (some x)) + 1 = cnone l
  | [], k, x, h => by simp at h
  | a :: r, 0, x, h => by
    simp only [List.getElem?_cons_zero, Option.some.injEq] at h
    subst h; simp [cnone]
  | a :: r, k + 1, x, h => by
    simp only [List.getElem?_cons_succ] at h
    have := cnone_set_some r k x h
    cases a <;> simp [cnone] <;> omega

theorem positionNone_some_of_pos : ∀ (l : List (Option (List Item))), 0 < cnone l → ∃ i, positionNone l = some i
  | [], h => by simp [cnone] at h
  | none :: r, _ => ⟨0, rfl⟩
  | some x :: r, h => by
    obtain ⟨i, hi⟩ := positionNone_some_of_pos r (by simpa [cnone] using h)
    exact ⟨i + 1, by simp [positionNone, hi]⟩

theorem positionNone_get : ∀ (l : List (Option (List Item))) (i : Nat), positionNone l = some i → l[i]? = some none
  | [], i, h => by simp [positionNone] at h
  | none :: r, i, h => by
    simp only [positionNone, Option.some.injEq] at h
    subst h; rfl
  | some x :: r, i, h => by
    simp only [positionNone] at h
    cases hp : positionNone r with
    | none => rw [hp] at h; cases h
    | some j =>
      rw [hp] at h
      simp only [Option.map_some, Option.some.injEq] at h
      subst h
      simpa using positionNone_get r j hp

/-- `todo > 0` (some entry is `None`): the search for `state_i` finds one -/
theorem nextState_spec {closed : List (Option (List Item))} {off : Nat} (h : 0 < cnone closed) :
    ∃ i, nextState closed off = some i ∧ closed[i]? = some none := by
  unfold nextState
  cases hp : positionNone (closed.drop off) with
  | some i =>
    refine ⟨off + i, rfl, ?_⟩
    have := positionNone_get _ _ hp
    rwa [List.getElem?_drop] at this
  | none =>
    obtain ⟨i, hi⟩ := positionNone_some_of_pos closed h
    exact ⟨i, hi, positionNone_get _ _ hi⟩

/-- no entry is `None`: the final `map(Option::unwrap)` is safe -/
theorem zipStates_total : ∀ (core : List (List Item)) (closed : List (Option (List Item))),
    cnone closed = 0 → ∃ zs, zipStates core closed = some zs
  | [], _, _ => ⟨[], rfl⟩
  | _ :: _, [], _ => ⟨[], rfl⟩
  | c :: cs, none :: cls, h => by simp [cnone] at h
  | c :: cs, some cl :: cls, h => by
    obtain ⟨r, hr⟩ := zipStates_total cs cls (by simpa [cnone] using h)
    exact ⟨(c, cl) :: r, by simp [zipStates, hr]⟩

/-- the part of the invariant that only panic-freedom needs -/
structure InvT (G : Grammar) (st : St) : Prop where
  todo : st.todo = cnone st.closed
  cndRLen : st.cndRule.length = G.nrules
  cndTLen : st.cndTok.length = G.ntoks + 1
  coreNe : ∀ (s : Nat) (c : List Item), st.core[s]? = some c → c ≠ []

theorem findExact_total {core : List (List Item)} {n : List Item} : ∀ (l : List Nat), (∀ k ∈ l, k < core.length) →
    ∃ e, findExact core n l = some e := by
  intro l
  induction l with
  | nil => intro _; exact ⟨none, rfl⟩
  | cons c rest ih =>
    intro h
    obtain ⟨cs, hcs⟩ := getElem?_of_lt (h c (List.mem_cons_self ..))
    simp only [findExact, hcs]
    split
    · exact ⟨_, rfl⟩
    · exact ih (fun k hk => h k (List.mem_cons_of_mem _ hk))

theorem findWeak_total {G : Grammar} {core : List (List Item)} {n : List Item}
    (hcore : ∀ (s : Nat) (c : List Item), core[s]? = some c → ItemsOk G c ∧ c ≠ []) (hn : KeysNodup n) :
    ∀ (l : List Nat), (∀ k ∈ l, k < core.length) → ∃ e, findWeak core n l = some e := by
  intro l
  induction l with
  | nil => intro _; exact ⟨none, rfl⟩
  | cons c rest ih =>
    intro h
    obtain ⟨cs, hcs⟩ := getElem?_of_lt (h c (List.mem_cons_self ..))
    obtain ⟨hok, hne⟩ := hcore c cs hcs
    obtain ⟨b, hb, _⟩ := weaklyCompatible_spec hok.2 hn (keysOf cs) hok.2 (fun k => mem_keysOf) hne
    simp only [findWeak, hcs, hb]
    cases b with
    | true => exact ⟨_, rfl⟩
    | false => exact ih (fun k hk => h k (List.mem_cons_of_mem _ hk))

theorem cndOf_total {G : Grammar} {st : St} (invT : InvT G st) {sym : Sym} (h : G.symOk sym = true) :
    ∃ cnds, cndOf st sym = some cnds := by
  cases sym with
  | rule r =>
    simp only [Grammar.symOk, decide_eq_true_eq] at h
    simp only [cndOf]
    exact getElem?_of_lt (by rw [invT.cndRLen]; exact h)
  | tok t =>
    simp only [Grammar.symOk, decide_eq_true_eq] at h
    simp only [cndOf]
    exact getElem?_of_lt (by rw [invT.cndTLen]; omega)

theorem cndPush_of_cndOf {st : St} {x : Nat} {sym : Sym} {cnds : List Nat} (h : cndOf st sym = some cnds) :
    ∃ cnd, cndPush st x sym = some cnd ∧ cnd.1.length = st.cndRule.length ∧ cnd.2.length = st.cndTok.length := by
  cases sym with
  | rule r =>
    simp only [cndOf] at h
    simp only [cndPush, h, Option.map_some]
    exact ⟨_, rfl, by simp, rfl⟩
  | tok t =>
    simp only [cndOf] at h
    simp only [cndPush, h, Option.map_some]
    exact ⟨_, rfl, rfl, by simp⟩

theorem getElem?_append_singleton {α : Type} {l : List α} {a c : α} {s : Nat} (h : (l ++ [a])[s]? = some c) :
    l[s]? = some c ∨ c = a := by
  by_cases hlt : s < l.length
  · rw [List.getElem?_append_left hlt] at h; exact Or.inl h
  · rw [List.getElem?_append_right (by omega)] at h
    have := List.mem_of_getElem? h
    exact Or.inr (List.mem_singleton.mp this)

theorem ne_nil_of_keysOf_eq {a b : List Item} (h : keysOf a = keysOf b) (hb : b ≠ []) : a ≠ [] := by
  intro ha
  subst ha
  cases b with
  | nil => exact hb rfl
  | cons x r => simp [keysOf] at h

/-- the body of the `new_states` loop does not panic as long as `StorageT` can number one more state -/
theorem processNew_total {G : Grammar} {maxStates stateI : Nat} {st : St} {sn : Sym × List Item}
    (inv : InvA G st) (invT : InvT G st) (hI : stateI < st.core.length) (hsym : G.symOk sn.1 = true)
    (hn : ItemsOk G sn.2) (hne : sn.2 ≠ []) (hmax : st.core.length < maxStates) :
    ∃ st', processNew maxStates stateI st sn = some st' ∧ InvT G st' ∧
      st.core.length ≤ st'.core.length ∧ st'.core.length ≤ st.core.length + 1 := by
  obtain ⟨es, hes⟩ := getElem?_of_lt (show stateI < st.edges.length by rw [inv.len2]; exact hI)
  have hadd : ∀ t, addEdge st.edges stateI sn.1 t = some (st.edges.set stateI (edgeInsert es sn.1 t)) := by
    intro t; simp [addEdge, hes]
  obtain ⟨cnds, hc⟩ := cndOf_total invT hsym
  have hcnd := inv.cnd hc
  obtain ⟨e, he⟩ := findExact_total (core := st.core) (n := sn.2) cnds (fun k hk => (hcnd k hk).2)
  cases e with
  | some c =>
    refine ⟨{ st with edges := st.edges.set stateI (edgeInsert es sn.1 c), nexact := st.nexact + 1 }, ?_,
      ⟨invT.todo, invT.cndRLen, invT.cndTLen, invT.coreNe⟩, Nat.le_refl _, Nat.le_succ _⟩
    simp only [processNew, hc, he, hadd, Option.bind_some, Option.map_some]
  | none =>
    obtain ⟨m, hw⟩ := findWeak_total (G := G) (core := st.core) (n := sn.2)
      (fun s c hs => ⟨inv.coreOk s c hs, invT.coreNe s c hs⟩) hn.2 cnds (fun k hk => (hcnd k hk).2)
    cases m with
    | some k =>
      obtain ⟨hk, ck, hck, hwc⟩ := findWeak_mem hw
      have hkr := (hcnd k hk).2
      have hckOk := inv.coreOk k ck hck
      have hsame := weaklyCompatible_true_sameCores hckOk.2 hn.2 hwc
      obtain ⟨R, ch, hm, hkeys, _, _⟩ := weaklyMerge_spec ck sn.2 hckOk.2 hn.2 (fun p d h => (hsame p d).mp h)
      obtain ⟨clk, hclk⟩ := getElem?_of_lt (show k < st.closed.length by rw [inv.len1]; exact hkr)
      have hRne : R ≠ [] := ne_nil_of_keysOf_eq hkeys (invT.coreNe k ck hck)
      have hcoreNe : ∀ (s : Nat) (c : List Item), (st.core.set k R)[s]? = some c → c ≠ [] := by
        intro s c hs
        by_cases hks : k = s
        · subst hks
          rw [List.getElem?_set_self hkr] at hs
          cases hs; exact hRne
        · rw [List.getElem?_set_ne hks] at hs
          exact invT.coreNe s c hs
      have hproc : processNew maxStates stateI st sn = some
          (if (ch && clk.isSome) = true then
            { st with edges := st.edges.set stateI (edgeInsert es sn.1 k), core := st.core.set k R,
                      closed := st.closed.set k none,
                      todo := st.todo + 1, nweak := st.nweak + 1, nmerge := st.nmerge + 1, nreopen := st.nreopen + 1 }
          else
            { st with edges := st.edges.set stateI (edgeInsert es sn.1 k), core := st.core.set k R,
                      nweak := st.nweak + 1, nmerge := st.nmerge + (if ch then 1 else 0) }) := by
        simp only [processNew, hc, he, hw, mergeInto, hadd, hck, hm, hclk, Option.bind_some, Option.map_some]
      rw [hproc]
      by_cases hb : (ch && clk.isSome) = true
      · rw [if_pos hb]
        refine ⟨_, rfl, ⟨?_, invT.cndRLen, invT.cndTLen, hcoreNe⟩, by simp, by simp⟩
        simp only [Bool.and_eq_true] at hb
        cases clk with
        | none => simp at hb
        | some x =>
          show st.todo + 1 = cnone (st.closed.set k none)
          rw [cnone_set_none _ _ x hclk, invT.todo]
      · rw [if_neg hb]
        exact ⟨_, rfl, ⟨invT.todo, invT.cndRLen, invT.cndTLen, hcoreNe⟩, by simp, by simp⟩
    | none =>
      obtain ⟨cnd, hp, hp1, hp2⟩ := cndPush_of_cndOf (x := st.core.length) hc
      have hg : ¬ (st.core.length ≥ maxStates) := by omega
      refine ⟨{ st with cndRule := cnd.1, cndTok := cnd.2,
                        edges := st.edges.set stateI (edgeInsert es sn.1 st.core.length) ++ [[]],
                        closed := st.closed ++ [none], core := st.core ++ [sn.2], todo := st.todo + 1 }, ?_,
        ⟨?_, by rw [hp1]; exact invT.cndRLen, by rw [hp2]; exact invT.cndTLen, ?_⟩, by simp, by simp⟩
      · simp only [processNew, hc, he, hw, newState, if_neg hg, hp, hadd, Option.bind_some, Option.map_some]
      · show st.todo + 1 = cnone (st.closed ++ [none])
        rw [cnone_append_none, invT.todo]
      · intro s c hs
        rcases getElem?_append_singleton hs with h1 | h1
        · exact invT.coreNe s c h1
        · rw [h1]; exact hne

theorem processAll_total {G : Grammar} {maxStates stateI : Nat} (news : List (Sym × List Item)) :
    ∀ {st : St}, InvA G st → InvT G st → stateI < st.core.length →
      (∀ sn ∈ news, G.symOk sn.1 = true ∧ ItemsOk G sn.2 ∧ sn.2 ≠ []) →
      st.core.length + news.length ≤ maxStates →
      ∃ st', processAll maxStates stateI st news = some st' ∧ InvT G st' ∧
        st'.core.length ≤ st.core.length + news.length := by
  induction news with
  | nil => intro st _ invT _ _ _; exact ⟨st, rfl, invT, Nat.le_refl _⟩
  | cons sn rest ih =>
    intro st inv invT hI hn hmax
    simp only [List.length_cons] at hmax
    obtain ⟨h1, h2, h3⟩ := hn sn (List.mem_cons_self ..)
    obtain ⟨st1, hp, invT1, hge, hle⟩ := processNew_total (maxStates := maxStates) inv invT hI h1 h2 h3 (by omega)
    have inv1 := processNew_invA inv h2 hp
    obtain ⟨st2, hp2, invT2, hle2⟩ := ih inv1 invT1 (by omega) (fun x hx => hn x (List.mem_cons_of_mem _ hx)) (by omega)
    refine ⟨st2, by simp only [processAll, hp, Option.bind_some, hp2], invT2, ?_⟩
    simp only [List.length_cons]; omega

/-! ### one iteration -/

/-- the loop over the keys of the closed state does not panic; it pushes at most one state per key -/
theorem symLoop_total {G : Grammar} (hwf : G.wf = true) {cl : List Item} (hcl : CoreOk G cl) :
    ∀ (keys : List (Nat × Nat)), (∀ k ∈ keys, HasItem cl k.1 k.2) → ∀ (sR sT : List Nat),
      ∃ news, symLoop G cl keys sR sT = some news ∧ news.length ≤ keys.length := by
  intro keys
  induction keys with
  | nil => intro _ sR sT; exact ⟨[], rfl, Nat.le_refl _⟩
  | cons k rest ih =>
    intro hk sR sT
    obtain ⟨hp, hd⟩ := coreOk_item hcl (hk k (List.mem_cons_self ..))
    have ih' := ih (fun x hx => hk x (List.mem_cons_of_mem _ hx))
    simp only [symLoop, if_pos hp]
    by_cases hlen : k.2 = (G.rhs k.1).length
    · rw [if_pos hlen]
      obtain ⟨news, h1, h2⟩ := ih' sR sT
      exact ⟨news, h1, by simp only [List.length_cons]; omega⟩
    · rw [if_neg hlen]
      have hlt : k.2 < (G.rhs k.1).length := by omega
      obtain ⟨sym, hget⟩ := getElem?_of_lt hlt
      have hsok := Spec.wf_sym hwf hp (List.mem_of_getElem? hget)
      simp only [hget]
      obtain ⟨b, hb⟩ : ∃ b, seenGet G sR sT sym = some b := by
        cases sym with
        | rule r =>
          simp only [Grammar.symOk, decide_eq_true_eq] at hsok
          exact ⟨sR.contains r, by simp only [seenGet, if_pos hsok]⟩
        | tok t =>
          simp only [Grammar.symOk, decide_eq_true_eq] at hsok
          exact ⟨sT.contains t, by simp only [seenGet, if_pos hsok]⟩
      simp only [hb]
      cases b with
      | true =>
        obtain ⟨news, h1, h2⟩ := ih' sR sT
        exact ⟨news, h1, by simp only [List.length_cons]; omega⟩
      | false =>
        obtain ⟨n, hn, _⟩ := gotoLoop_spec G sym cl (fun i hi => ⟨(hcl i hi).1, (hcl i hi).2.1⟩) []
        have hn' : goto G sym cl = some n := hn
        obtain ⟨news, h1, h2⟩ := ih' (seenSetR sR sym) (seenSetT sT sym)
        simp only [hn', h1, Option.bind_some, Option.map_some]
        exact ⟨_, rfl, by simp only [List.length_cons]; omega⟩

/-- what is pushed onto `new_states`: a symbol of the grammar with a non-empty item set in range -/
theorem symLoop_news_ok {G : Grammar} (hwf : G.wf = true) {cl : List Item} (hcl : CoreOk G cl)
    {keys : List (Nat × Nat)} (hk : ∀ k ∈ keys, HasItem cl k.1 k.2) {news : List (Sym × List Item)}
    (h : symLoop G cl keys [] [] = some news) :
    ∀ sn ∈ news, G.symOk sn.1 = true ∧ ItemsOk G sn.2 ∧ sn.2 ≠ [] := by
  intro sn hsn
  obtain ⟨k, hkm, hget⟩ := (symLoop_syms G cl keys [] [] news h).2 sn hsn
  have hgo := symLoop_goto G cl keys [] [] news h sn hsn
  have hki := hk k hkm
  obtain ⟨hp, _⟩ := coreOk_item hcl hki
  obtain ⟨hok, hitem, _⟩ := goto_itemsOk hcl hgo
  refine ⟨Spec.wf_sym hwf hp (List.mem_of_getElem? hget), hok, ?_⟩
  intro hnil
  obtain ⟨i, hi, _⟩ := (hitem k.1 (k.2 + 1)).mpr ⟨k.2, rfl, hki, hget⟩
  rw [hnil] at hi; cases hi

/-- the order `o` is refused in state `st`: its `coreKeys` is not an enumeration of the keys of the core
state that is processed next, or its `closedKeys` is not an enumeration of the keys of that state's closure -/
def BadOrderAt (G : Grammar) (N : Nat → Bool) (F : Nat × Nat → Bool) (o : Order) (st : St) : Prop :=
  ∃ stateI core, nextState st.closed st.todoOff = some stateI ∧ st.core[stateI]? = some core ∧
    (keysOk core o.coreKeys = false ∨
     ∃ cl, close G N F core o.coreKeys (closeFuel G o.coreKeys) = .done cl ∧ keysOk cl o.closedKeys = false)

/-- one iteration of `while todo > 0` with `todo > 0` does not panic, if `StorageT` can number one state
per key of the closed state more -/
theorem iter_total {G : Grammar} (hwf : G.wf = true) {N : Nat → Bool} {F : Nat × Nat → Bool}
    (hN : ∀ r, N r = true ↔ Spec.NullableR G r) (hF : ∀ r t, F (r, t) = true ↔ Spec.FirstP G r t)
    {maxStates : Nat} {o : Order} {st : St} (inv : InvA G st) (invT : InvT G st) (hpos : 0 < st.todo)
    (hmax : st.core.length + o.closedKeys.length ≤ maxStates) :
    (iter G N F maxStates o st = .badOrder ∧ BadOrderAt G N F o st) ∨
    ∃ r, iter G N F maxStates o st = .ok r ∧ InvT G r.1 ∧ r.1.core.length ≤ st.core.length + o.closedKeys.length := by
  obtain ⟨stateI, hns, hnone⟩ := nextState_spec (closed := st.closed) (off := st.todoOff)
    (by rw [← invT.todo]; exact hpos)
  have hlt : stateI < st.core.length := by rw [← inv.len1]; exact getElem?_some_lt hnone
  obtain ⟨core, hcore⟩ := getElem?_of_lt hlt
  unfold iter
  simp only [hns, hcore, ofOption, Res.bind]
  by_cases hk1 : keysOk core o.coreKeys = true
  case neg =>
    left
    have : (!keysOk core o.coreKeys) = true := by simpa using hk1
    rw [if_pos this]
    exact ⟨rfl, stateI, core, hns, hcore, Or.inl (by simpa using hk1)⟩
  have hk1' : (!keysOk core o.coreKeys) = false := by simp [hk1]
  rw [hk1']
  simp only [Bool.false_eq_true, if_false]
  have hcOk := inv.coreOk stateI core hcore
  obtain ⟨cl, hR, hRnd, hRi, hRl⟩ := C16aux hwf hN hF core hcOk o.coreKeys (keysOk_iff hk1)
  simp only [hR, closeRes]
  by_cases hk2 : keysOk cl o.closedKeys = true
  case neg =>
    left
    have : (!keysOk cl o.closedKeys) = true := by simpa using hk2
    rw [if_pos this]
    exact ⟨rfl, stateI, core, hns, hcore, Or.inr ⟨cl, hR, by simpa using hk2⟩⟩
  have hk2' : (!keysOk cl o.closedKeys) = false := by simp [hk2]
  rw [hk2']
  simp only [Bool.false_eq_true, if_false]
  have hclosed : ClosedOf G core cl := ⟨hRnd, hRi, hRl⟩
  have hclOk := closedOf_coreOk hwf hcOk.1 hclosed
  have hkeys : ∀ k ∈ o.closedKeys, HasItem cl k.1 k.2 := fun k hk => (keysOk_iff hk2 k.1 k.2).mp hk
  obtain ⟨news, hsl, hnl⟩ := symLoop_total hwf hclOk.1 o.closedKeys hkeys [] []
  have hnews := symLoop_news_ok hwf hclOk.1 hkeys hsl
  have inv1 : InvA G { st with closed := st.closed.set stateI (some cl), todoOff := stateI + 1, todo := st.todo - 1 } := by
    refine ⟨by simp [inv.len1], inv.len2, inv.coreOk, inv.start, inv.cndR, inv.cndT, ?_, inv.edgeRange⟩
    intro s cl' c hcl' hs
    simp only at hcl' hs
    by_cases hss : stateI = s
    · subst hss
      rw [List.getElem?_set_self (by rw [inv.len1]; exact hlt)] at hcl'
      cases hcl'
      rw [hcore] at hs; cases hs
      exact hclosed
    · rw [List.getElem?_set_ne hss] at hcl'
      exact inv.closedOk s cl' c hcl' hs
  have invT1 : InvT G { st with closed := st.closed.set stateI (some cl), todoOff := stateI + 1, todo := st.todo - 1 } := by
    refine ⟨?_, invT.cndRLen, invT.cndTLen, invT.coreNe⟩
    show st.todo - 1 = cnone (st.closed.set stateI (some cl))
    have := cnone_set_some st.closed stateI cl hnone
    have := invT.todo
    omega
  obtain ⟨st2, hpa, invT2, hle⟩ := processAll_total (maxStates := maxStates) (stateI := stateI) news inv1 invT1 hlt hnews
    (by show st.core.length + news.length ≤ maxStates; omega)
  right
  simp only [hsl, hpa]
  have hle' : st2.core.length ≤ st.core.length + o.closedKeys.length := by
    have h : st2.core.length ≤ st.core.length + news.length := hle
    omega
  exact ⟨_, rfl, invT2, hle'⟩

/-! ### the main loop and the whole function -/

/-- the number of states the orders allow the main loop to create -/
def budget : List Order → Nat
  | [] => 0
  | o :: rest => o.closedKeys.length + budget rest

theorem budget_eq (orders : List Order) : budget orders = (orders.map (fun o => o.closedKeys.length)).sum := by
  induction orders with
  | nil => rfl
  | cons o rest ih => simp [budget, ih]

/-- the main loop runs one iteration per element of the list of orders (`todo > 0` before each) and
arrives at the state `st'` -/
inductive Steps (G : Grammar) (N : Nat → Bool) (F : Nat × Nat → Bool) (maxStates : Nat) : List Order → St → St → Prop
  | nil (st : St) : Steps G N F maxStates [] st st
  | cons {o : Order} {rest : List Order} {st : St} {r : St × Nat × List Sym} {st' : St} :
      st.todo ≠ 0 → iter G N F maxStates o st = .ok r → Steps G N F maxStates rest r.1 st' →
      Steps G N F maxStates (o :: rest) st st'

theorem mainLoop_total {G : Grammar} (hwf : G.wf = true) {N : Nat → Bool} {F : Nat × Nat → Bool}
    (hN : ∀ r, N r = true ↔ Spec.NullableR G r) (hF : ∀ r t, F (r, t) = true ↔ Spec.FirstP G r t)
    {maxStates : Nat} (orders : List Order) :
    ∀ {st : St}, InvA G st → InvT G st → st.core.length + budget orders < maxStates →
      (mainLoop G N F maxStates orders st = .badOrder ∧ ∃ pre o post st', orders = pre ++ o :: post ∧
        Steps G N F maxStates pre st st' ∧ st'.todo ≠ 0 ∧ BadOrderAt G N F o st') ∨
      (mainLoop G N F maxStates orders st = .fuelOut ∧ ∃ st', Steps G N F maxStates orders st st' ∧ st'.todo ≠ 0) ∨
      ∃ r, mainLoop G N F maxStates orders st = .ok r ∧ InvA G r.1 ∧ InvT G r.1 ∧ r.1.todo = 0 ∧
        r.1.core.length < maxStates := by
  induction orders with
  | nil =>
    intro st inv invT hmax
    simp only [budget] at hmax
    simp only [mainLoop]
    by_cases h0 : st.todo = 0
    · rw [if_pos h0]; exact Or.inr (Or.inr ⟨_, rfl, inv, invT, h0, by show st.core.length < maxStates; omega⟩)
    · rw [if_neg h0]; exact Or.inr (Or.inl ⟨rfl, st, .nil st, h0⟩)
  | cons o rest ih =>
    intro st inv invT hmax
    simp only [budget] at hmax
    simp only [mainLoop]
    by_cases h0 : st.todo = 0
    · rw [if_pos h0]; exact Or.inr (Or.inr ⟨_, rfl, inv, invT, h0, by show st.core.length < maxStates; omega⟩)
    · rw [if_neg h0]
      rcases iter_total hwf hN hF (maxStates := maxStates) (o := o) inv invT (by omega) (by omega) with ⟨hi, hbad⟩ | ⟨r, hi, invTr, hle⟩
      · left; rw [hi]; exact ⟨rfl, [], o, rest, st, rfl, .nil st, h0, hbad⟩
      · have invr := iter_invA hwf hN hF inv hi
        rw [hi]
        simp only [Res.bind]
        rcases ih invr invTr (by omega) with ⟨h, pre, o', post, st', e, hs, ht, hb⟩ | ⟨h, st', hs, ht⟩ | ⟨r2, h, a, b, c, d⟩
        · left; rw [h]; exact ⟨rfl, o :: pre, o', post, st', by rw [e]; rfl, .cons h0 hi hs, ht, hb⟩
        · right; left; rw [h]; exact ⟨rfl, st', .cons h0 hi hs, ht⟩
        · right; right; rw [h]; exact ⟨_, rfl, a, b, c, d⟩

theorem initSt_invT (G : Grammar) : InvT G (initSt G) := by
  refine ⟨rfl, by simp [initSt], by simp [initSt], ?_⟩
  intro s c hs
  cases s with
  | zero => simp only [initSt, List.getElem?_cons_zero, Option.some.injEq] at hs; subst hs; simp
  | succ s => simp [initSt] at hs

/-- the whole modelled function never panics when `maxStates` exceeds the number of states the orders
allow: the result is `badOrder`, `fuelOut` or `ok` -/
theorem pager_total {G : Grammar} (hwf : G.wf = true) {N : Nat → Bool} {F : Nat × Nat → Bool}
    (hN : ∀ r, N r = true ↔ Spec.NullableR G r) (hF : ∀ r t, F (r, t) = true ↔ Spec.FirstP G r t)
    {maxStates : Nat} (orders : List Order) (hmax : 1 + budget orders < maxStates) :
    (pager G N F maxStates orders = .badOrder ∧ ∃ pre o post st', orders = pre ++ o :: post ∧
      Steps G N F maxStates pre (initSt G) st' ∧ st'.todo ≠ 0 ∧ BadOrderAt G N F o st') ∨
    (pager G N F maxStates orders = .fuelOut ∧ ∃ st', Steps G N F maxStates orders (initSt G) st' ∧ st'.todo ≠ 0) ∨
    ∃ r out, mainLoop G N F maxStates orders (initSt G) = .ok r ∧ pager G N F maxStates orders = .ok out := by
  unfold pager
  rcases mainLoop_total hwf hN hF orders (initSt_invA hwf) (initSt_invT G)
      (by show 1 + budget orders < maxStates; exact hmax) with ⟨h, hw⟩ | ⟨h, hw⟩ | ⟨r, h, inv, invT, h0, hlt⟩
  · left; rw [h]; exact ⟨rfl, hw⟩
  · right; left; rw [h]; exact ⟨rfl, hw⟩
  · right; right
    suffices hs : ∃ out, ((mainLoop G N F maxStates orders (initSt G)).bind (fun r =>
        (ofOption (zipStates r.1.core r.1.closed)).bind (fun zs =>
          (gc zs 0 r.1.edges).bind (fun g =>
            if g.1.length > maxStates then .panic
            else if !(g.1.length < maxStates) then .panic
            else .ok (Output.mk r.1 r.2 g.1 g.2))))) = .ok out by
      obtain ⟨out, ho⟩ := hs
      exact ⟨r, out, h, ho⟩
    rw [h]
    simp only [Res.bind]
    obtain ⟨zs, hz⟩ := zipStates_total r.1.core r.1.closed (by rw [← invT.todo]; exact h0)
    obtain ⟨hzl, _⟩ := zipStates_spec _ _ zs inv.len1 hz
    have hpos : 0 < r.1.core.length := by
      by_cases hp : 0 < r.1.core.length
      · exact hp
      · have := inv.start; rw [List.getElem?_eq_none (by omega)] at this; cases this
    obtain ⟨states', edges', hgc, hsl, _, _⟩ := gc_core zs 0 r.1.edges (by rw [hzl]; exact inv.len2) (by rw [hzl]; exact hpos)
      (by rw [hzl]; exact inv.edgeRange)
    have hle : states'.length ≤ zs.length := by rw [hsl]; exact keptBefore_le _ _
    simp only [hz, ofOption, hgc]
    have h1 : ¬ (states'.length > maxStates) := by omega
    have h2 : (!decide (states'.length < maxStates)) = false := by
      have : states'.length < maxStates := by omega
      simp [this]
    rw [if_neg h1, h2]
    exact ⟨_, rfl⟩

end GrmVerif.PagerImpl
