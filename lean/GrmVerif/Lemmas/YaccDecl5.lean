import GrmVerif.Lemmas.YaccDecl4
/-!
C10, text → AST stage, declarations, part 5: the loop of `parse_declarations` over a rendered list of
declarations.
-/
namespace GrmVerif.YaccRender
open GrmVerif.YaccParse
open GrmVerif.Header (Res Span byteLen dropBytes slice sliceRange lookahead byteLen_append)

theorem len_toks : ∀ (ts : List RTok) (t : RTok), ts.length + 1 ≤ (renderToks t ts).length := by
  intro ts
  induction ts with
  | nil => intro t; simp [renderToks]
  | cons u us ih => intro t; have := ih u; simp only [renderToks, List.length_append, List.length_cons]; omega

theorem declStep_at {src : List Char} {kind : Kind} {fuel i level : Nat} (d : RDecl) (st : St) (k : List Char)
    (r : Nat × Nat × St) (h : At src i (renderDecl d ++ k)) (hw : wfDecl kind d = true) (hk : DeclNext k)
    (hf : (renderDecl d).length < fuel) (hr : runDecl i level d st = some r) :
    M.Ret (declStep src kind fuel i level) st (.cont r.1 r.2.1) r.2.2 := by
  cases d with
  | start n =>
    simp only [runDecl, kwLen, kwOf] at hr
    rw [show byteLen "%start".toList = 6 by decide] at hr
    split at hr
    · cases hr
    · next hs =>
      simp only [Option.some.injEq] at hr; subst hr
      exact declStep_start st h hw hk (isSome_false_none hs)
  | token t ts =>
    simp only [runDecl, kwLen, kwOf, Option.some.injEq] at hr
    rw [show byteLen "%token".toList = 6 by decide] at hr
    subst hr
    have := len_toks ts t
    exact declStep_token st h hw hk (by simp [renderDecl, bodyOf] at hf; omega)
  | prec a t ts =>
    have hl := len_toks ts t
    have hfl : ts.length + 2 ≤ fuel := by simp [renderDecl, bodyOf] at hf; omega
    simp only [runDecl, kwLen, kwOf, Option.map_eq_some_iff] at hr
    obtain ⟨q, hq, rfl⟩ := hr
    cases a with
    | left =>
      rw [show byteLen (precKw .left).toList = 5 by decide] at hq
      exact declStep_left st q h hw hk hfl hq
    | right =>
      rw [show byteLen (precKw .right).toList = 6 by decide] at hq
      exact declStep_right st q h hw hk hfl hq
    | nonassoc =>
      rw [show byteLen (precKw .nonassoc).toList = 9 by decide] at hq
      exact declStep_nonassoc st q h hw hk hfl hq
  | avoidInsert t ts =>
    have hl := len_toks ts t
    have hfl : ts.length + 2 ≤ fuel := by simp [renderDecl, bodyOf] at hf; omega
    simp only [runDecl, kwLen, kwOf, Option.map_eq_some_iff] at hr
    rw [show byteLen "%avoid_insert".toList = 13 by decide] at hr
    obtain ⟨q, hq, rfl⟩ := hr
    exact declStep_avoid st q h hw hk hfl hq
  | implicitTokens t ts =>
    have hl := len_toks ts t
    have hfl : ts.length + 2 ≤ fuel := by simp [renderDecl, bodyOf] at hf; omega
    simp only [wfDecl, Bool.and_eq_true, decide_eq_true_eq] at hw
    simp only [runDecl, kwLen, kwOf, Option.map_eq_some_iff] at hr
    rw [show byteLen "%implicit_tokens".toList = 16 by decide] at hr
    obtain ⟨q, hq, rfl⟩ := hr
    exact declStep_implicit st q h hw.1 hw.2 hk hfl hq
  | expect ds =>
    simp only [wfDecl, Option.isSome_iff_exists] at hw
    obtain ⟨v, hv⟩ := hw
    simp only [runDecl, kwLen, kwOf] at hr
    rw [show byteLen "%expect".toList = 7 by decide] at hr
    split at hr
    · cases hr
    · next hs =>
      simp only [Option.some.injEq] at hr; subst hr
      rw [← parseU64_val hv]
      exact declStep_expect st h hv hk (by simp [renderDecl, bodyOf] at hf; omega) (isSome_false_none hs)
  | expectRR ds =>
    simp only [wfDecl, Option.isSome_iff_exists] at hw
    obtain ⟨v, hv⟩ := hw
    simp only [runDecl, kwLen, kwOf] at hr
    rw [show byteLen "%expect-rr".toList = 10 by decide] at hr
    split at hr
    · cases hr
    · next hs =>
      simp only [Option.some.injEq] at hr; subst hr
      rw [← parseU64_val hv]
      exact declStep_expectRR st h hv hk (by simp [renderDecl, bodyOf] at hf; omega) (isSome_false_none hs)
  | actiontype ty =>
    simp only [wfDecl, Bool.and_eq_true, decide_eq_true_eq] at hw
    simp only [runDecl, kwLen, kwOf] at hr
    rw [show byteLen "%actiontype".toList = 11 by decide] at hr
    split at hr
    · cases hr
    · next hs =>
      simp only [Option.some.injEq] at hr; subst hr
      exact declStep_actiontype st h hw.1 hw.2 hk (by simp [renderDecl, bodyOf] at hf; omega) (isSome_false_none hs)
  | parseParam n ty =>
    simp only [wfDecl, Bool.and_eq_true] at hw
    simp only [runDecl, kwLen, kwOf, Option.some.injEq] at hr
    rw [show byteLen "%parse-param".toList = 12 by decide] at hr
    subst hr
    exact declStep_parseParam st h hw.1.1 hw.1.2 hw.2 hk (by simp [renderDecl, bodyOf] at hf; omega)
      (by simp [renderDecl, bodyOf] at hf; omega)
  | epp t v =>
    simp only [wfDecl, Bool.and_eq_true] at hw
    simp only [runDecl, kwLen, kwOf] at hr
    rw [show byteLen "%epp".toList = 4 by decide] at hr
    split at hr
    · cases hr
    · next hs =>
      simp only [Option.some.injEq] at hr; subst hr
      exact declStep_epp st h hw.1 hw.2 hk (by simp [renderDecl, bodyOf] at hf; omega) (isSome_false_none hs)

theorem runPrecToks_pos {level : Nat} {kind : Assoc} : ∀ (ts : List RTok) (t : RTok) (i : Nat) (st : St) (r : Nat × St),
    runPrecToks level kind i t ts st = some r → r.1 = i + byteLen (renderToks t ts) ∧ r.2.errs = st.errs ∧
      r.2.actiontype = st.actiontype := by
  intro ts
  induction ts with
  | nil =>
    intro t i st r h
    simp only [runPrecToks, Option.map_eq_some_iff] at h
    obtain ⟨s, hs, rfl⟩ := h
    refine ⟨?_, ?_, ?_⟩
    · simp only [renderToks, byteLen_append, show byteLen ['\n'] = 1 by decide]; omega
    · unfold precStep at hs; split at hs
      · cases hs
      · simp only [Option.some.injEq] at hs; subst hs; rfl
    · unfold precStep at hs; split at hs
      · cases hs
      · simp only [Option.some.injEq] at hs; subst hs; rfl
  | cons u us ih =>
    intro t i st r h
    simp only [runPrecToks, Option.bind_eq_some_iff] at h
    obtain ⟨s, hs, h⟩ := h
    obtain ⟨h1, h2, h3⟩ := ih u _ s r h
    have hse : s.errs = st.errs ∧ s.actiontype = st.actiontype := by
      unfold precStep at hs; split at hs
      · cases hs
      · simp only [Option.some.injEq] at hs; subst hs; exact ⟨rfl, rfl⟩
    refine ⟨?_, h2.trans hse.1, h3.trans hse.2⟩
    rw [h1, show renderToks t (u :: us) = t.text ++ ([' '] ++ renderToks u us) from rfl,
      byteLen_append, byteLen_append, show byteLen [' '] = 1 by decide]
    omega

theorem runAvoid_pos  : ∀ (ts : List RTok) (t : RTok) (i : Nat) (st : St) (r : Nat × St),
    runAvoid i t ts st = some r → r.1 = i + byteLen (renderToks t ts) ∧ r.2.errs = st.errs ∧
      r.2.actiontype = st.actiontype := by
  intro ts
  induction ts with
  | nil =>
    intro t i st r h
    simp only [runAvoid, Option.map_eq_some_iff] at h
    obtain ⟨s, hs, rfl⟩ := h
    refine ⟨?_, ?_, ?_⟩
    · simp only [renderToks, byteLen_append, show byteLen ['\n'] = 1 by decide]; omega
    · unfold avoidStep at hs; split at hs
      · cases hs
      · simp only [Option.some.injEq] at hs; subst hs; rfl
    · unfold avoidStep at hs; split at hs
      · cases hs
      · simp only [Option.some.injEq] at hs; subst hs; rfl
  | cons u us ih =>
    intro t i st r h
    simp only [runAvoid, Option.bind_eq_some_iff] at h
    obtain ⟨s, hs, h⟩ := h
    obtain ⟨h1, h2, h3⟩ := ih u _ s r h
    have hse : s.errs = st.errs ∧ s.actiontype = st.actiontype := by
      unfold avoidStep at hs; split at hs
      · cases hs
      · simp only [Option.some.injEq] at hs; subst hs; exact ⟨rfl, rfl⟩
    refine ⟨?_, h2.trans hse.1, h3.trans hse.2⟩
    rw [h1, show renderToks t (u :: us) = t.text ++ ([' '] ++ renderToks u us) from rfl,
      byteLen_append, byteLen_append, show byteLen [' '] = 1 by decide]
    omega

theorem runImplicit_pos  : ∀ (ts : List RTok) (t : RTok) (i : Nat) (st : St) (r : Nat × St),
    runImplicit i t ts st = some r → r.1 = i + byteLen (renderToks t ts) ∧ r.2.errs = st.errs ∧
      r.2.actiontype = st.actiontype := by
  intro ts
  induction ts with
  | nil =>
    intro t i st r h
    simp only [runImplicit, Option.map_eq_some_iff] at h
    obtain ⟨s, hs, rfl⟩ := h
    refine ⟨?_, ?_, ?_⟩
    · simp only [renderToks, byteLen_append, show byteLen ['\n'] = 1 by decide]; omega
    · unfold implicitStep at hs; split at hs
      · cases hs
      · simp only [Option.some.injEq] at hs; subst hs; rfl
    · unfold implicitStep at hs; split at hs
      · cases hs
      · simp only [Option.some.injEq] at hs; subst hs; rfl
  | cons u us ih =>
    intro t i st r h
    simp only [runImplicit, Option.bind_eq_some_iff] at h
    obtain ⟨s, hs, h⟩ := h
    obtain ⟨h1, h2, h3⟩ := ih u _ s r h
    have hse : s.errs = st.errs ∧ s.actiontype = st.actiontype := by
      unfold implicitStep at hs; split at hs
      · cases hs
      · simp only [Option.some.injEq] at hs; subst hs; exact ⟨rfl, rfl⟩
    refine ⟨?_, h2.trans hse.1, h3.trans hse.2⟩
    rw [h1, show renderToks t (u :: us) = t.text ++ ([' '] ++ renderToks u us) from rfl,
      byteLen_append, byteLen_append, show byteLen [' '] = 1 by decide]
    omega

theorem runTokens_frame : ∀ (ts : List RTok) (t : RTok) (i : Nat) (st : St),
    (runTokens i t ts st).2.errs = st.errs ∧ (runTokens i t ts st).2.actiontype = st.actiontype := by
  intro ts
  induction ts with
  | nil => intro t i st; exact ⟨rfl, rfl⟩
  | cons u us ih => intro t i st; rw [runTokens]; exact ih u _ _

theorem byteLen_renderDecl (d : RDecl) : byteLen (renderDecl d) = kwLen d + byteLen (bodyOf d) := by
  rw [show renderDecl d = (kwOf d).toList ++ ([' '] ++ bodyOf d) from rfl, byteLen_append, byteLen_append,
    show byteLen [' '] = 1 by decide, kwLen]
  omega

/-- where a declaration ends, and what it leaves alone: the error vector; the global action type
unless it is `%actiontype` -/
theorem runDecl_pos {i level : Nat} {d : RDecl} {st : St} {r : Nat × Nat × St}
    (h : runDecl i level d st = some r) :
    r.1 = i + byteLen (renderDecl d) ∧ r.2.2.errs = st.errs := by
  rw [byteLen_renderDecl]
  cases d with
  | start n =>
    simp only [runDecl] at h
    split at h
    · cases h
    · simp only [Option.some.injEq] at h; subst h
      refine ⟨?_, rfl⟩
      simp only [bodyOf, byteLen_append, show byteLen ['\n'] = 1 by decide]; omega
  | token t ts =>
    simp only [runDecl, Option.some.injEq] at h; subst h
    exact ⟨by simp only [renderToks_pos, bodyOf]; omega, (runTokens_frame ts t _ st).1⟩
  | prec a t ts =>
    simp only [runDecl, Option.map_eq_some_iff] at h
    obtain ⟨q, hq, rfl⟩ := h
    obtain ⟨h1, h2, _⟩ := runPrecToks_pos ts t _ st q hq
    exact ⟨by simp only [h1, bodyOf]; omega, h2⟩
  | avoidInsert t ts =>
    simp only [runDecl, Option.map_eq_some_iff] at h
    obtain ⟨q, hq, rfl⟩ := h
    obtain ⟨h1, h2, _⟩ := runAvoid_pos ts t _ _ q hq
    exact ⟨by simp only [h1, bodyOf]; omega, h2⟩
  | implicitTokens t ts =>
    simp only [runDecl, Option.map_eq_some_iff] at h
    obtain ⟨q, hq, rfl⟩ := h
    obtain ⟨h1, h2, _⟩ := runImplicit_pos ts t _ _ q hq
    exact ⟨by simp only [h1, bodyOf]; omega, h2⟩
  | expect ds =>
    simp only [runDecl] at h
    split at h
    · cases h
    · simp only [Option.some.injEq] at h; subst h
      refine ⟨?_, rfl⟩
      simp only [bodyOf, byteLen_append, show byteLen ['\n'] = 1 by decide]; omega
  | expectRR ds =>
    simp only [runDecl] at h
    split at h
    · cases h
    · simp only [Option.some.injEq] at h; subst h
      refine ⟨?_, rfl⟩
      simp only [bodyOf, byteLen_append, show byteLen ['\n'] = 1 by decide]; omega
  | actiontype ty =>
    simp only [runDecl] at h
    split at h
    · cases h
    · simp only [Option.some.injEq] at h; subst h
      refine ⟨?_, rfl⟩
      simp only [bodyOf, byteLen_append, show byteLen ['\n'] = 1 by decide]; omega
  | parseParam n ty =>
    simp only [runDecl, Option.some.injEq] at h; subst h
    refine ⟨?_, rfl⟩
    rw [show bodyOf (.parseParam n ty) = n ++ ([':', ' '] ++ (ty ++ ['\n'])) from rfl, byteLen_append,
      byteLen_append, byteLen_append, show byteLen [':', ' '] = 2 by decide, show byteLen ['\n'] = 1 by decide]
    omega
  | epp t v =>
    simp only [runDecl] at h
    split at h
    · cases h
    · simp only [Option.some.injEq] at h; subst h
      refine ⟨?_, rfl⟩
      rw [show bodyOf (.epp t v) = t.text ++ ([' ', '"'] ++ (escQ v ++ ['"', '\n'])) from rfl, byteLen_append,
        byteLen_append, byteLen_append, show byteLen [' ', '"'] = 2 by decide, show byteLen ['"', '\n'] = 2 by decide]
      omega

theorem kwOf_head (d : RDecl) : (kwOf d).toList = '%' :: (kwOf d).toList.tail := by
  cases d with
  | prec a t ts => cases a <;> simp [kwOf, precKw]
  | _ => simp [kwOf]

theorem renderDecl_next (d : RDecl) (x : List Char) : DeclNext (renderDecl d ++ x) := by
  refine ⟨(kwOf d).toList.tail ++ (' ' :: bodyOf d ++ x), ?_⟩
  rw [renderDecl, kwOf_head]
  simp

theorem renderDecls_next (ds : List RDecl) (x : List Char) : DeclNext (renderDecls ds ++ '%' :: '%' :: x) := by
  cases ds with
  | nil => exact ⟨_, rfl⟩
  | cons d ds => simp only [renderDecls, List.append_assoc]; exact renderDecl_next d _

theorem declLoop_at {src : List Char} {kind : Kind} {fuel : Nat} : ∀ (ds : List RDecl) (f i level : Nat) (st : St)
    (x : List Char) (r : Nat × Nat × St), At src i (renderDecls ds ++ '%' :: '%' :: x) →
    (∀ d ∈ ds, wfDecl kind d = true ∧ (renderDecl d).length < fuel) →
    runDecls i level ds st = some r →
    declLoop src kind fuel (ds.length + 1 + f) i level st = .ok (r.1, r.2.2) ∧
      r.1 = i + byteLen (renderDecls ds) ∧ r.2.2.errs = st.errs := by
  intro ds
  induction ds with
  | nil =>
    intro f i level st x r h _ hr
    simp only [runDecls, Option.some.injEq] at hr; subst hr
    have h0 : At src i ('%' :: '%' :: x) := by simpa [renderDecls] using h
    refine ⟨?_, by simp [renderDecls, byteLen], rfl⟩
    rw [show ([] : List RDecl).length + 1 + f = f + 1 by simp; omega, declLoop, if_pos h0.lt]
    change M.Ret _ st i st
    refine M.Ret.bind (show M.Ret (declStep src kind fuel i level) st (.done i) st from by
      unfold declStep
      refine M.Ret.bind (la_yes "%%" (by simpa using h0) st) ?_
      exact M.Ret.pure) ?_
    exact M.Ret.pure
  | cons d ds ih =>
    intro f i level st x r h hw hr
    simp only [runDecls, Option.bind_eq_some_iff] at hr
    obtain ⟨q, hq, hr⟩ := hr
    have h0 : At src i (renderDecl d ++ (renderDecls ds ++ '%' :: '%' :: x)) := by simpa [renderDecls] using h
    obtain ⟨hwd, hfd⟩ := hw d (by simp)
    obtain ⟨hp, he⟩ := runDecl_pos hq
    have hnext := h0.adv
    rw [← hp] at hnext
    obtain ⟨i1, i2, i3⟩ := ih f q.1 q.2.1 q.2.2 x r hnext (fun d' hd' => hw d' (List.mem_cons_of_mem _ hd')) hr
    refine ⟨?_, ?_, i3.trans he⟩
    · rw [show (d :: ds).length + 1 + f = (ds.length + 1 + f) + 1 by simp only [List.length_cons]; omega,
        declLoop, if_pos (h0.lt_of_starts (renderDecl_next d _).starts)]
      change M.Ret _ st r.1 r.2.2
      refine M.Ret.bind (declStep_at d st _ q h0 hwd (renderDecls_next ds x) hfd hq) ?_
      exact i1
    · rw [i2, hp, renderDecls, byteLen_append]; omega

/-- `parse_declarations` from the beginning of a rendered declarations section -/
theorem parseDeclarations_at {src : List Char} {kind : Kind} {fuel i : Nat} (ds : List RDecl) (st : St)
    (x : List Char) (r : Nat × Nat × St) (h : At src i (renderDecls ds ++ '%' :: '%' :: x))
    (hw : ∀ d ∈ ds, wfDecl kind d = true ∧ (renderDecl d).length < fuel) (hf : ds.length < fuel)
    (hr : runDecls i 0 ds st = some r) :
    parseDeclarations src kind fuel i st = .ok (r.1, r.2.2) ∧ r.1 = i + byteLen (renderDecls ds) ∧
      r.2.2.errs = st.errs := by
  obtain ⟨f, hfe⟩ : ∃ f, ds.length + 1 + f = fuel := ⟨fuel - (ds.length + 1), by omega⟩
  obtain ⟨h1, h2, h3⟩ := declLoop_at (src := src) (kind := kind) (fuel := fuel) ds f i 0 st x r h hw hr
  rw [hfe] at h1
  refine ⟨?_, h2, h3⟩
  unfold parseDeclarations
  change M.Ret _ st r.1 r.2.2
  refine M.Ret.bind (ws_none h (renderDecls_next ds x).starts.stops st) ?_
  exact h1

end GrmVerif.YaccRender
