import GrmVerif.Lemmas.MaxCostsLoop
/-! The model of `rule_max_costs`, part 5: the first loop (recursive rules are marked through `has_path`),
and the meaning of the vector `ruleMaxCosts` returns. -/
namespace GrmVerif.Impl
open GrmVerif Spec Ref

theorem iterO_append {σ α : Type} (f : σ → α → Outcome σ) (l1 l2 : List α) (s : σ) :
    iterO f (l1 ++ l2) s =
      (match iterO f l1 s with
      | .done s' => iterO f l2 s'
      | .panic => .panic
      | .fuelOut => .fuelOut) := by
  induction l1 generalizing s with
  | nil => simp [iterO]
  | cons a l ih =>
    simp only [List.cons_append, iterO]
    cases f s a with
    | done s' => simp [ih]
    | panic => rfl
    | fuelOut => rfl

/-- the body of the first loop, for a rule whose `done` bit is clear -/
theorem mxMark_eq (G : Grammar) (hwf : G.wf = true) (s : List Nat × List Bool) (r : Nat) (hr : r < G.nrules)
    (hd : vget s.2 r = false) : mxMark G s r = .done (setIf (isCyc G) U16MAX s r) := by
  obtain ⟨b, hb, hiff⟩ := hasPath_exact G hwf r r hr
  have h1 := hb (hasPathFuel G) (Nat.le_refl _)
  unfold mxMark setIf
  rw [h1]
  cases b with
  | true =>
    have : isCyc G r = true := (isCyc_iff G hwf r).mpr (hiff.mp rfl)
    simp [this, hd]
  | false =>
    have : isCyc G r = false := by
      cases h : isCyc G r with
      | false => rfl
      | true => have := hiff.mpr ((isCyc_iff G hwf r).mp h); cases this
    simp [this]

theorem mxMarks_eq (G : Grammar) (hwf : G.wf = true) (cs : List Nat) (dn : List Bool)
    (hc : cs.length = G.nrules) (hd : dn.length = G.nrules) (hfalse : ∀ r, vget dn r = false) :
    ∀ k, k ≤ G.nrules →
      iterO (mxMark G) (List.range k) (cs, dn) = .done ((List.range k).foldl (setIf (isCyc G) U16MAX) (cs, dn)) := by
  intro k
  induction k with
  | zero => intro _; rfl
  | succ k ih =>
    intro hk
    rw [List.range_succ, iterO_append, ih (by omega), List.foldl_append]
    simp only [iterO, List.foldl_cons, List.foldl_nil]
    obtain ⟨_, _, h3⟩ := setIf_spec (isCyc G) U16MAX G.nrules cs dn hc hd k (by omega)
    have hk3 := (h3 k).1
    simp only [Nat.lt_irrefl, decide_false, Bool.false_and, Bool.or_false, hfalse] at hk3
    rw [mxMark_eq G hwf _ k (by omega) hk3]

/-- the state after the first loop satisfies the invariant -/
theorem xinv_init (G : Grammar) (hwf : G.wf = true) (hprods : ∀ r, r < G.nrules → G.prodsOf r ≠ [])
    (tc : List Nat) (U : Nat → Nat) :
    ∃ cs dn, iterO (mxMark G) (List.range G.nrules)
        (List.replicate G.nrules 0, List.replicate G.nrules false) = .done (cs, dn) ∧
      XInv G tc U { costs := cs, done := dn, allDone := true } := by
  have hc : (List.replicate G.nrules 0).length = G.nrules := by simp
  have hd : (List.replicate G.nrules false).length = G.nrules := by simp
  have hfalse : ∀ r, vget (List.replicate G.nrules false) r = false := vget_replicate_false G.nrules
  have hzero : ∀ r, cget (List.replicate G.nrules 0) r = 0 := by
    intro r
    unfold cget
    rw [List.getD_eq_getElem?_getD, List.getElem?_replicate]
    split <;> rfl
  obtain ⟨l1, l2, l3⟩ := setIf_spec (isCyc G) U16MAX G.nrules _ _ hc hd G.nrules (Nat.le_refl _)
  generalize hfo : (List.range G.nrules).foldl (setIf (isCyc G) U16MAX)
    (List.replicate G.nrules 0, List.replicate G.nrules false) = fo at l1 l2 l3
  have hdone : ∀ r, vget fo.2 r = (decide (r < G.nrules) && isCyc G r) := by
    intro r
    rw [(l3 r).1, hfalse]
    cases decide (r < G.nrules) <;> cases isCyc G r <;> rfl
  have hcost : ∀ r, cget fo.1 r = if r < G.nrules ∧ isCyc G r = true then U16MAX else 0 := by
    intro r
    have := (l3 r).2
    unfold cget
    rw [this, hfalse]
    have hz := hzero r
    unfold cget at hz
    rw [hz]
    simp
  refine ⟨fo.1, fo.2, by rw [mxMarks_eq G hwf _ _ hc hd hfalse G.nrules (Nat.le_refl _), hfo], ?_⟩
  -- a cost is `u16::MAX` exactly for the recursive rules, which are the done ones
  have hmaxiff : ∀ r, cget fo.1 r = U16MAX ↔ (r < G.nrules ∧ isCyc G r = true) := by
    intro r
    rw [hcost]
    constructor
    · intro h
      split at h
      · assumption
      · simp [U16MAX] at h
    · intro h; simp [h]
  have hfin : ∀ q, finF fo.1 fo.2 q = none := by
    intro q
    unfold finF
    cases hdq : vget fo.2 q with
    | false => simp
    | true =>
      rw [hdone] at hdq
      simp only [Bool.and_eq_true, decide_eq_true_eq] at hdq
      have := (hmaxiff q).mpr hdq
      simp [this]
  refine ⟨l1, l2, ?_, ?_, ?_, ?_, ?_, ?_, ?_⟩
  · intro r
    rw [hcost]
    split
    · exact Nat.le_refl _
    · simp [U16MAX]
  · intro r hr
    obtain ⟨h1, h2⟩ := (hmaxiff r).mp hr
    exact ⟨by rw [hdone]; simp [h1, h2], Or.inl ((isCyc_iff G hwf r).mp h2)⟩
  · intro r hr hcy
    exact (hmaxiff r).mpr ⟨hr, (isCyc_iff G hwf r).mpr hcy⟩
  · intro r hdr hm
    rw [hdone] at hdr
    simp only [Bool.and_eq_true, decide_eq_true_eq] at hdr
    exact absurd ((hmaxiff r).mpr hdr) hm
  · intro r v h
    rw [hfin] at h; cases h
  · intro r hm
    rw [hcost] at hm ⊢
    split
    · next h => simp [h] at hm
    · exact Nat.zero_le _
  · intro r hr hdr
    obtain ⟨p, hp⟩ := List.exists_mem_of_ne_nil _ (hprods r hr)
    refine ⟨p, hp, ?_⟩
    have : cget fo.1 r = 0 := by
      rw [hcost]
      split
      · next h =>
        rw [hdone] at hdr
        simp [h] at hdr
      · rfl
    show cget fo.1 r ≤ _
    rw [this]; exact Nat.zero_le _

theorem mxLoop_more_fuel (G : Grammar) (tc : List Nat) (dbg : Bool) :
    ∀ (fuel : Nat) (s : MX) (v : List Nat), mxLoop G tc dbg fuel s = .done v →
      ∀ k, mxLoop G tc dbg (fuel + k) s = .done v := by
  intro fuel
  induction fuel with
  | zero => intro s v h; simp [mxLoop] at h
  | succ n ih =>
    intro s v h k
    rw [Nat.add_right_comm]
    simp only [mxLoop] at h ⊢
    cases hs : mxSweep G tc dbg s with
    | none => rw [hs] at h; cases h
    | some s' =>
      rw [hs] at h
      simp only [] at h ⊢
      cases hf : s'.allDone with
      | true => rw [hf] at h; exact h
      | false =>
        rw [hf] at h
        simp only [Bool.false_eq_true, if_false] at h ⊢
        exact ih s' v h k

/-! ### what the result means -/

/-- in a final state a finite rule refers to finite rules only -/
theorem fin_closed {G : Grammar} {tc : List Nat} {U : Nat → Nat} {s : MX} (hI : XInv G tc U s)
    (hall : ∀ i, i < G.nrules → vget s.done i = true) {a b : Nat} (ha : a < G.nrules)
    (hfa : cget s.costs a ≠ U16MAX) (hs : Succ G a b) : cget s.costs b ≠ U16MAX := by
  obtain ⟨p, hp, hl, hm⟩ := hs
  obtain ⟨f1, _⟩ := hI.fin a (hall a ha) hfa
  obtain ⟨v, hv, _⟩ := f1 p (mem_prodsOf.mpr ⟨hp, hl⟩)
  obtain ⟨x, hx, _⟩ := seqCost_mem _ v hv b hm
  exact (finF_some hx).2.1

/-- **meaning of the vector `rule_max_costs` returns** (for a final state of the model) -/
theorem final_spec {G : Grammar} (hwf : G.wf = true) {tc : List Nat} {U : Nat → Nat} {s : MX}
    (hI : XInv G tc U s) (hall : ∀ i, i < G.nrules → vget s.done i = true) (r : Nat) (hr : r < G.nrules) :
    (cget s.costs r = U16MAX ↔ Inf G r) ∧
    (cget s.costs r ≠ U16MAX →
      (∃ w, Derives G (.rule r) w ∧ cost (tcF tc) w = cget s.costs r) ∧
      ∀ w, Derives G (.rule r) w → cost (tcF tc) w ≤ cget s.costs r) := by
  constructor
  · constructor
    · intro h; exact (hI.mx r h).2
    · intro hinf
      apply Classical.byContradiction
      intro hfin
      have hreach : ∀ q, Reach G r q → cget s.costs q ≠ U16MAX := by
        intro q hq
        induction hq with
        | edge p B hp hm =>
          exact fin_closed hI hall hr hfin ⟨p, hp, rfl, hm⟩
        | step A' p B hprev hp hm ih =>
          exact fin_closed hI hall (reach_lt hwf hprev) (ih hr hinf hfin) ⟨p, hp, rfl, hm⟩
      rcases hinf with hc | ⟨q, hq, hc⟩
      · exact hfin (hI.cyc r hr hc)
      · exact hreach q hq (hI.cyc q (reach_lt hwf hq) hc)
  · intro hfin
    have hf : finF s.costs s.done r = some (cget s.costs r) := finF_of (hall r hr) hfin
    refine ⟨hI.real r _ hf, ?_⟩
    intro w hw
    have hcert : upperBoundOk G (tcF tc) (fun _ => true) (finF s.costs s.done) = true := by
      simp only [upperBoundOk, List.all_eq_true, List.mem_range, Bool.or_eq_true, Bool.not_eq_true']
      intro p hp
      right
      cases hb : finF s.costs s.done (G.lhs p) with
      | none => rfl
      | some b =>
        obtain ⟨h1, h2, h3⟩ := finF_some hb
        obtain ⟨f1, _⟩ := hI.fin _ h1 h2
        obtain ⟨v, hv, hle⟩ := f1 p (mem_prodsOf.mpr ⟨hp, rfl⟩)
        simp only [hv]
        simpa [h3] using hle
    exact derives_upper hcert (by intro q hq; cases hq) hw _ (by simpa [symCost] using hf)

/-- **`rule_max_costs` terminates, does not panic under the certificate, and what it returns** (model
level) -/
theorem ruleMaxCosts_spec (G : Grammar) (hwf : G.wf = true) (hprods : ∀ r, r < G.nrules → G.prodsOf r ≠ [])
    (tc : List Nat) (htc : tc.length = G.ntoks) (U : Nat → Nat) (hcert : maxCert G (tcF tc) U = true)
    (dbg : Bool) :
    ∃ v : List Nat, (∀ fuel, G.nrules + 1 ≤ fuel → ruleMaxCosts G tc dbg fuel = .done v) ∧
      v.length = G.nrules ∧
      ∀ r, r < G.nrules →
        (cget v r = U16MAX ↔ Inf G r) ∧
        (cget v r ≠ U16MAX →
          (∃ w, Derives G (.rule r) w ∧ cost (tcF tc) w = cget v r) ∧
          ∀ w, Derives G (.rule r) w → cost (tcF tc) w ≤ cget v r) := by
  obtain ⟨cs, dn, hinit, hI0⟩ := xinv_init G hwf hprods tc U
  obtain ⟨s', hloop, hI', hall⟩ := mxLoop_spec G hwf hprods tc htc U hcert dbg (G.nrules + 1) 0
    { costs := cs, done := dn, allDone := true } hI0 (by intro r _ h; omega) (Nat.zero_le _) (by omega)
  refine ⟨s'.costs, ?_, hI'.clen, fun r hr => final_spec hwf hI' hall r hr⟩
  intro fuel hf
  unfold ruleMaxCosts
  rw [hinit]
  simp only []
  have := mxLoop_more_fuel G tc dbg _ _ _ hloop (fuel - (G.nrules + 1))
  rwa [Nat.add_sub_cancel' hf] at this

/-- every rule has at least one production (true of every `YaccGrammar`: a rule is created by its first
production) -/
def everyRuleHasProd (G : Grammar) : Bool := (List.range G.nrules).all (fun r => !(G.prodsOf r).isEmpty)

theorem everyRuleHasProd_iff (G : Grammar) :
    everyRuleHasProd G = true ↔ ∀ r, r < G.nrules → G.prodsOf r ≠ [] := by
  simp only [everyRuleHasProd, List.all_eq_true, List.mem_range, Bool.not_eq_true', List.isEmpty_eq_false_iff]

end GrmVerif.Impl
