import GrmVerif.Lemmas.SearchImpl6
/-!
The whole of the modelled `CPCTPlus::recover` (`recoverImpl`: search, `collect_repairs`, `rank_cnds`,
`simplify_repairs`) against the reference answer `Rec.refRepairs`.

The one new fact needed about the search: all sequences of one returned node let parsing continue
equally far (they end in the same stack and position — or in a stack that reduces, under the next
token, to the node's accepting stack), so `rank_cnds`, which replays only the FIRST sequence of every
group, ranks every sequence of the group correctly (`distance_of_resOK`).
-/
namespace GrmVerif.SearchImpl
open GrmVerif LR Rec RankImpl

variable {E : Env} {start : Pos}

theorem step_applyRepair {a a' : Node} {r : Repair} {c0 : Nat}
    (h : Step E.G E.A E.w E.cost E.N a r a' c0) : applyRepair E.G E.A E.w a.c r = some a'.c := by
  cases h with
  | shift c' _ ha => exact ha
  | insert t c' _ _ _ _ ha => exact ha
  | delete t _ hw =>
    have hlt : a.c.pos < E.w.length := (List.getElem?_eq_some_iff.mp hw).1
    simp [applyRepair, hlt]

theorem ipath_applySeq {a n : Node} {s : List Repair} {k : Nat}
    (h : IPath E.G E.A E.w E.cost E.N a s n k) : applySeq E.G E.A E.w a.c s = some n.c := by
  induction h with
  | nil a => rfl
  | cons hst _ ih => simp only [applySeq, step_applyRepair hst, ih]

/-- the position a plain parse reaches from a configuration -/
def contPos (E : Env) (c : Pos) : Nat := (continueFrom E.G E.A E.w (E.w.length + 2) c 0).2.2

theorem distance_of_apply {win : Nat} {s : List Repair} {c' : Pos}
    (h : applySeq E.G E.A E.w start s = some c') :
    distance E.G E.A E.w win start s = min (contPos E c') (start.pos + win) := by
  simp only [distance, h, contPos]

theorem contPos_of_accept {c : Pos} {s : List Nat}
    (h : feed E.G E.A (nextTok E.G E.w c.pos) FUEL c.stack = .accept s) : contPos E c = c.pos := by
  simp only [contPos, continueFrom, h]

/-- how far parsing continues after any sequence of a returned node: a function of the node alone -/
def nodeDist (E : Env) (start : Pos) (win : Nat) (m : PNode) : Nat :=
  min (contPos E ⟨m.pstack, m.laidx⟩) (start.pos + win)

theorem distance_of_resOK {c win : Nat} {m : PNode} (hm : ResOK E start c m) {s : List Repair}
    (hs : s ∈ seqs m.repairs) :
    distance E.G E.A E.w win start s = nodeDist E start win m ∧
      ∃ c', applySeq E.G E.A E.w start s = some c' := by
  obtain ⟨n, h1, _, h3, h4⟩ := resOK_isSuccess hm hs
  have happ := ipath_applySeq h1
  simp only [root] at happ
  refine ⟨?_, n.c, happ⟩
  rw [distance_of_apply happ, nodeDist]
  rcases h4 with h4 | ⟨h4, _⟩
  · have : n.c = ⟨m.pstack, m.laidx⟩ := by
      cases hc : n.c with
      | mk st ps => rw [hc] at h4 h3; simp only at h4 h3; rw [h4, h3]
    rw [this]
  · rw [contPos_of_accept h4]
    obtain ⟨st, rest, e, ha⟩ := feed_accept_top h4
    have h2 : feed E.G E.A (nextTok E.G E.w (⟨m.pstack, m.laidx⟩ : Pos).pos) FUEL (⟨m.pstack, m.laidx⟩ : Pos).stack =
        .accept m.pstack := by
      simp only
      rw [e]
      have : FUEL = 1999 + 1 := rfl
      rw [this, feed_of_top_accept (by rw [← h3]; exact ha)]
    rw [contPos_of_accept h2, h3]

/-! ### folds of `max` -/

theorem foldl_max_ge : ∀ (l : List Nat) (init x : Nat), x ∈ l → x ≤ l.foldl max init := by
  intro l
  induction l with
  | nil => intro init x hx; cases hx
  | cons a as ih =>
    intro init x hx
    simp only [List.foldl_cons]
    have hmono : ∀ (l : List Nat) (i : Nat), i ≤ l.foldl max i := by
      intro l
      induction l with
      | nil => intro i; exact Nat.le_refl _
      | cons b bs ihb =>
        intro i; simp only [List.foldl_cons]; exact Nat.le_trans (Nat.le_max_left _ _) (ihb _)
    rcases List.mem_cons.mp hx with rfl | hx
    · exact Nat.le_trans (Nat.le_max_right _ _) (hmono as _)
    · exact ih _ x hx

theorem foldl_max_le : ∀ (l : List Nat) (init b : Nat), init ≤ b → (∀ x ∈ l, x ≤ b) →
    l.foldl max init ≤ b := by
  intro l
  induction l with
  | nil => intro init b h _; exact h
  | cons a as ih =>
    intro init b h hall
    simp only [List.foldl_cons]
    exact ih _ b (Nat.max_le.mpr ⟨h, hall a List.mem_cons_self⟩)
      (fun x hx => hall x (List.mem_cons_of_mem _ hx))

theorem exists_max {α : Type} (f : α → Nat) : ∀ (l : List α), l ≠ [] → ∃ x ∈ l, ∀ y ∈ l, f y ≤ f x := by
  intro l
  induction l with
  | nil => intro h; exact absurd rfl h
  | cons a as ih =>
    intro _
    by_cases has : as = []
    · subst has
      exact ⟨a, by simp, by simp⟩
    · obtain ⟨x, hx, hmax⟩ := ih has
      by_cases hle : f x ≤ f a
      · refine ⟨a, by simp, ?_⟩
        intro y hy
        rcases List.mem_cons.mp hy with rfl | hy
        · exact Nat.le_refl _
        · exact Nat.le_trans (hmax y hy) hle
      · refine ⟨x, List.mem_cons_of_mem _ hx, ?_⟩
        intro y hy
        rcases List.mem_cons.mp hy with rfl | hy
        · omega
        · exact hmax y hy

/-! ### stripping trailing shifts -/

theorem isShift_erase (r : PRepair) : isShift r = (r.erase == Repair.shift) := by
  cases r <;> rfl

theorem map_erase_dropWhile : ∀ l : Seq,
    (l.dropWhile isShift).map PRepair.erase = (l.map PRepair.erase).dropWhile (fun x => x == Repair.shift) := by
  intro l
  induction l with
  | nil => rfl
  | cons a as ih =>
    simp only [List.dropWhile_cons, List.map_cons, isShift_erase]
    split
    · exact ih
    · simp

theorem map_erase_stripTrailing (s : Seq) :
    (stripTrailing s).map PRepair.erase = stripShifts (s.map PRepair.erase) := by
  simp only [stripTrailing, stripShifts, List.map_reverse, map_erase_dropWhile]

/-- every candidate sequence ends inside the window `rank_cnds` parses on in
(`in_laidx + TRY_PARSE_AT_MOST`); true, for instance, whenever the input ends inside that window -/
def WithinWindow (E : Env) (start : Pos) (win : Nat) : Prop :=
  ∀ k seq c', Search E.G E.A E.w E.cost E.N ⟨start, [], 0⟩ k seq →
    applySeq E.G E.A E.w start seq = some c' → c'.pos ≤ start.pos + win

theorem applySeq_pos_le : ∀ (seq : List Repair) (c c' : Pos), c.pos ≤ E.w.length →
    applySeq E.G E.A E.w c seq = some c' → c'.pos ≤ E.w.length := by
  intro seq c c' hc h
  have := applyRepairs_of_applySeq (G := E.G) (A := E.A) (w := E.w) (attach 0 seq) c c' hc
    (by rw [erase_map_attach]; exact h)
  exact this.2

theorem withinWindow_of_short {win : Nat} (hpos : start.pos ≤ E.w.length)
    (h : E.w.length ≤ start.pos + win) : WithinWindow E start win := by
  intro k seq c' _ happ
  have := applySeq_pos_le seq start c' hpos happ
  omega

/-- the group of sequences `collect_repairs` makes of a returned node -/
def groupOf (start : Pos) (m : PNode) : List Seq := (traverse m.repairs).map (attach start.pos)

theorem collectRepairs_eq (start : Pos) (res : List PNode) :
    collectRepairs start.pos res = res.map (groupOf start) := rfl

/-- **`rank_cnds` measures, for the group of a returned node, the distance of every sequence of the
node** -/
theorem reachD_group (H : Hyps E start) {win : Nat} (hwin : WithinWindow E start win) {res : List PNode}
    {c : Nat} (hf : Found E start res c) {m : PNode} (hm : m ∈ res) {d : Nat}
    (hr : groupReach E.G E.A E.w win start (groupOf start m) = some d) :
    reachD E.G E.A E.w win start (groupOf start m) = nodeDist E start win m := by
  have hro := hf.resOK m hm
  have htr := traverse_of_resOK H hro
  cases hts : traverse m.repairs with
  | nil => exact absurd hts (hf.nonempty m hm)
  | cons s0 rest =>
    have hs0 : s0 ∈ seqs m.repairs := by rw [← htr, hts]; simp
    obtain ⟨hd, c', happ⟩ := distance_of_resOK (win := win) hro hs0
    have hg : groupOf start m = attach start.pos s0 :: rest.map (attach start.pos) := by
      simp [groupOf, hts]
    rw [hg] at hr ⊢
    have hsearch := hf.sound m hm s0 (by rw [hts]; simp)
    have := reach_eq_distance (G := E.G) (A := E.A) (w := E.w) H.eof (win := win) (start := start)
      (c' := c') (seq := attach start.pos s0) (d := d) H.pos (by rw [erase_map_attach]; exact happ)
      (hwin c s0 c' hsearch happ) hr
    simp only [reachD, hr, Option.getD_some, this, erase_map_attach, hd]

/-! ### the decidable forms of the hypotheses are sound -/

theorem action_eq_some {A : Automaton} {st t : Nat} {a : Act} (h : A.action st t = a) (hne : a ≠ .error) :
    ∃ sd, A.states[st]? = some sd ∧ sd.actions[t]? = some a := by
  unfold Automaton.action at h
  cases hs : A.states[st]? with
  | none => rw [hs] at h; simp at h; exact absurd h.symm hne
  | some sd =>
    rw [hs] at h
    simp only [Option.bind_some] at h
    cases ha : sd.actions[t]? with
    | none => rw [ha] at h; simp at h; exact absurd h.symm hne
    | some a' => rw [ha] at h; simp at h; subst h; exact ⟨sd, rfl, ha⟩

theorem eofNeverShifted_of_check {G : Grammar} {A : Automaton} (h : eofNeverShiftedB G A = true) :
    EofNeverShifted G A := by
  intro st s' ha
  obtain ⟨sd, h1, h2⟩ := action_eq_some ha (by simp)
  simp only [eofNeverShiftedB, List.all_eq_true] at h
  have := h sd (List.mem_of_getElem? h1)
  rw [h2] at this
  cases this

theorem stateActionsOK_of_check {G : Grammar} {A : Automaton} (h : stateActionsExactB G A = true) :
    StateActionsOK G A := by
  intro st sa hsa t
  unfold stateActionsOf at hsa
  cases hs : A.states[st]? with
  | none => rw [hs] at hsa; cases hsa
  | some sd =>
    rw [hs] at hsa
    simp only [Option.map_some, Option.some.injEq] at hsa
    subst hsa
    simp only [stateActionsExactB, List.all_eq_true] at h
    have hsd := h sd (List.mem_of_getElem? hs)
    have hact : A.action st t = (sd.actions[t]?).getD .error := by
      simp [Automaton.action, hs]
    rw [hact]
    by_cases hb : t < max G.ntoks (sd.stateActions.foldl max 0 + 1)
    · have := hsd t (List.mem_range.mpr hb)
      simp only [beq_iff_eq] at this
      rw [← List.contains_iff_mem, this]
      simp
    · have h1 : ¬ t < G.ntoks := by omega
      have h2 : t ∉ sd.stateActions := by
        intro hm
        have := foldl_max_ge sd.stateActions 0 t hm
        omega
      simp [h1, h2]

/-- **the decidable check implies the hypotheses of the search theorems** -/
theorem hyps_of_check (hcost : ∀ t, 1 ≤ E.cost t) (h : checkHyps E start = true) : Hyps E start := by
  simp only [checkHyps, Bool.and_eq_true, decide_eq_true_eq, Bool.not_eq_true'] at h
  obtain ⟨⟨⟨h1, h2⟩, h3⟩, h4⟩ := h
  exact ⟨hcost, eofNeverShifted_of_check h1, h3, stateActionsOK_of_check h2, h4⟩

/-! ### compatible nodes have the same continuations -/

/-- length of a chain -/
def chainLen : RTree → Nat
  | .term => 0
  | .rep p _ => chainLen p + 1
  | .merge p _ _ => chainLen p + 1

/-- what a neighbour of a node with chain `parent` looks like, its chain reduced to the step made:
`some r` for a child `parent.child(Repair(r))`, `none` for the node that keeps the parent's chain -/
def nbrShape (parent : RTree) (y : Nat × PNode) : Nat × List Nat × Nat × Nat × Option Repair :=
  (y.1, y.2.pstack, y.2.laidx, y.2.cf,
    if chainLen y.2.repairs > chainLen parent then lastRepair y.2.repairs else none)

def outShape (parent : RTree) : Out (List (Nat × PNode)) → Out (List (Nat × List Nat × Nat × Nat × Option Repair))
  | .ok l => .ok (l.map (nbrShape parent))
  | .panic => .panic
  | .fuelOut => .fuelOut

theorem keyOf_eq {a b : PNode} (h : keyOf a = keyOf b) :
    a.laidx = b.laidx ∧ a.pstack = b.pstack ∧
      isDelete (lastRepair a.repairs) = isDelete (lastRepair b.repairs) ∧
      numShifts a.repairs = numShifts b.repairs := by
  simpa [keyOf] using h

theorem insertNbrs_shape {a b : PNode} (h1 : a.laidx = b.laidx) (h2 : a.pstack = b.pstack)
    (h3 : a.cf = b.cf) : ∀ ts : List Nat,
    outShape a.repairs (insertNbrs E a ts) = outShape b.repairs (insertNbrs E b ts) := by
  intro ts
  induction ts with
  | nil => rfl
  | cons t ts ih =>
    simp only [insertNbrs, h1, h2, h3]
    split
    · exact ih
    · split
      · rfl
      · cases hf : feed E.G E.A t FUEL b.pstack with
        | shifted s =>
          simp only
          split
          · cases ha : insertNbrs E a ts with
            | ok la =>
              cases hb : insertNbrs E b ts with
              | ok lb =>
                rw [ha, hb] at ih
                simp only [outShape, Out.ok.injEq] at ih
                simp only [Out.map, outShape, List.map_cons, ih, nbrShape, chainLen, lastRepair]
                simp
              | panic => rw [ha, hb] at ih; cases ih
              | fuelOut => rw [ha, hb] at ih; cases ih
            | panic =>
              cases hb : insertNbrs E b ts with
              | ok lb => rw [ha, hb] at ih; cases ih
              | panic => rfl
              | fuelOut => rw [ha, hb] at ih; cases ih
            | fuelOut =>
              cases hb : insertNbrs E b ts with
              | ok lb => rw [ha, hb] at ih; cases ih
              | panic => rw [ha, hb] at ih; cases ih
              | fuelOut => rfl
          · exact ih
        | accept s => exact ih
        | error s => exact ih
        | crash => rfl
        | fuelOut => rfl

theorem outShape_ok_inv {parent : RTree} {o : Out (List (Nat × PNode))}
    {l : List (Nat × List Nat × Nat × Nat × Option Repair)} (h : outShape parent o = .ok l) :
    ∃ l0, o = .ok l0 ∧ l = l0.map (nbrShape parent) := by
  cases o with
  | ok l0 => simp only [outShape, Out.ok.injEq] at h; exact ⟨l0, rfl, h.symm⟩
  | panic => cases h
  | fuelOut => cases h

/-- **Nodes that `PathFNode::eq` identifies (and that cost the same) have the same continuations**: the
`success` closure gives the same answer, and the `neighbours` closure produces, step for step, nodes
with the same cost, stack, position and the same repair appended to the node's own chain. -/
theorem compat_same_continuations {a b : PNode} (hc : compat a b = true) (hcf : a.cf = b.cf) (x : Bool) :
    success E a = success E b ∧
      outShape a.repairs (neighbours E x a) = outShape b.repairs (neighbours E x b) := by
  obtain ⟨h1, h2, h3, h4⟩ := keyOf_eq ((compat_iff a b).mp hc)
  refine ⟨?_, ?_⟩
  · simp only [success, endsWithShifts_iff, h1, h2, h4]
  · -- the Insert part
    have hins : outShape a.repairs (insPart E x a) = outShape b.repairs (insPart E x b) := by
      simp only [insPart, h3]
      split
      · rfl
      · split
        · simp only [insertAll, h2]
          split
          · rfl
          · split
            · rfl
            · exact insertNbrs_shape h1 h2 hcf _
        · rfl
    have hdel : (deleteNbrs E a).map (nbrShape a.repairs) = (deleteNbrs E b).map (nbrShape b.repairs) := by
      simp only [deleteNbrs, h1, h2, hcf]
      split
      · rfl
      · split
        · simp [nbrShape, chainLen, lastRepair]
        · rfl
    have hsh : outShape a.repairs (shiftNbrs E a) = outShape b.repairs (shiftNbrs E b) := by
      simp only [shiftNbrs, h1, h2, hcf]
      cases hf : feed E.G E.A (nextTok E.G E.w b.laidx) FUEL b.pstack with
      | shifted s => simp [outShape, nbrShape, chainLen, lastRepair]
      | accept s =>
        simp only
        split
        · simp [outShape, nbrShape]
        · rfl
      | error s => rfl
      | crash => rfl
      | fuelOut => rfl
    have hnb : ∀ n : PNode, neighbours E x n =
        (match insPart E x n with
         | .panic => .panic
         | .fuelOut => .fuelOut
         | .ok i =>
           match shiftNbrs E n with
           | .panic => .panic
           | .fuelOut => .fuelOut
           | .ok s => .ok (i ++ (if x then deleteNbrs E n else []) ++ s)) := by
      intro n; rfl
    rw [hnb a, hnb b]
    cases hia : insPart E x a with
    | ok ia =>
      rw [hia] at hins
      obtain ⟨ib, hib, hie⟩ := outShape_ok_inv hins.symm
      rw [hib]
      simp only
      cases hsa : shiftNbrs E a with
      | ok sa =>
        rw [hsa] at hsh
        obtain ⟨sb, hsb, hse⟩ := outShape_ok_inv hsh.symm
        rw [hsb]
        simp only [outShape, List.map_append, Out.ok.injEq]
        rw [hie, hse]
        cases x with
        | true => simp only [↓reduceIte, hdel]
        | false => simp
      | panic =>
        rw [hsa] at hsh
        cases hsb : shiftNbrs E b with
        | ok sb => rw [hsb] at hsh; cases hsh
        | panic => rfl
        | fuelOut => rw [hsb] at hsh; cases hsh
      | fuelOut =>
        rw [hsa] at hsh
        cases hsb : shiftNbrs E b with
        | ok sb => rw [hsb] at hsh; cases hsh
        | panic => rw [hsb] at hsh; cases hsh
        | fuelOut => rfl
    | panic =>
      rw [hia] at hins
      cases hib : insPart E x b with
      | ok ib => rw [hib] at hins; cases hins
      | panic => rfl
      | fuelOut => rw [hib] at hins; cases hins
    | fuelOut =>
      rw [hia] at hins
      cases hib : insPart E x b with
      | ok ib => rw [hib] at hins; cases hins
      | panic => rw [hib] at hins; cases hins
      | fuelOut => rfl

end GrmVerif.SearchImpl
