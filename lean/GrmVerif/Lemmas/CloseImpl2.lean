import GrmVerif.Lemmas.CloseImpl
/-! The work-list loop of the model of `Itemset::close`: one iteration (`process_spec`), the loop
invariant (`Inv`), termination within the fuel bound and exactness of the final map (`loop_spec`,
`inv_final_exact`). -/
namespace GrmVerif.CloseImpl
open GrmVerif Ref Closure Fix Spec

/-- every closure fact is a fact of the finite universe -/
theorem closureP_univ {G : Grammar} (hwf : G.wf = true) {core : List Item} (hcore : CoreOk G core)
    {x : CFact} (h : ClosureP G core x) : x ∈ factUniverse G := by
  induction h with
  | kitem i hi => obtain ⟨h1, h2, _⟩ := hcore i hi; exact mem_universe_item.mpr ⟨h1, h2⟩
  | kla i t hi ht => obtain ⟨h1, h2, h3⟩ := hcore i hi; exact mem_universe_la.mpr ⟨h1, h2, h3 t ht⟩
  | citem p d q _ _ hq _ => exact mem_universe_item.mpr ⟨hq, Nat.zero_le _⟩
  | cfirst p d q t _ _ hq hfs ih =>
    exact mem_universe_la.mpr ⟨hq, Nat.zero_le _, firstSeqP_tok_lt hwf (mem_universe_item.mp ih).1 hfs⟩
  | cinherit p d q t _ _ hq _ _ _ ih2 =>
    exact mem_universe_la.mpr ⟨hq, Nat.zero_le _, (mem_universe_la.mp ih2).2.2⟩

theorem mem_prodsOf {G : Grammar} {r q : Nat} : q ∈ G.prodsOf r ↔ q < G.nprods ∧ G.lhs q = r := by
  simp [Grammar.prodsOf]

/-- the closure condition of ONE item `[p, d]` with respect to the map `is`: every production of the
rule behind the dot is present with dot 0, and its context contains FIRST of what follows that rule
and, if that is nullable, the context of `[p, d]` -/
def Done (G : Grammar) (N : Nat → Bool) (F : Nat × Nat → Bool) (is : List Item) (p d : Nat) : Prop :=
  ∀ r, symAfter G p d = some (.rule r) → ∀ q ∈ G.prodsOf r,
    HasItem is q 0 ∧ ∀ t, ((t < G.ntoks ∧ firstSeq N F ((G.rhs p).drop (d + 1)) t = true) ∨
      (seqNullable N ((G.rhs p).drop (d + 1)) = true ∧ HasLa is p d t)) → HasLa is q 0 t

theorem Done.transfer {G : Grammar} {N : Nat → Bool} {F : Nat × Nat → Bool} {is is' : List Item} {p d : Nat}
    (h : Done G N F is p d) (hi : ∀ p' d', HasItem is p' d' → HasItem is' p' d')
    (hl : ∀ p' d' t, HasLa is p' d' t → HasLa is' p' d' t)
    (hsame : ∀ t, HasLa is' p d t → HasLa is p d t) : Done G N F is' p d := by
  intro r hr q hq
  obtain ⟨h1, h2⟩ := h r hr q hq
  refine ⟨hi _ _ h1, ?_⟩
  intro t ht
  apply hl
  apply h2
  rcases ht with ht | ⟨hn, ht⟩
  · exact Or.inl ht
  · exact Or.inr ⟨hn, hsame t ht⟩

/-- the map holds only facts of the closure, under distinct keys -/
structure Sound (G : Grammar) (core : List Item) (is : List Item) : Prop where
  nodup : KeysNodup is
  item : ∀ p d, HasItem is p d → ClosureP G core (.item p d)
  la : ∀ p d t, HasLa is p d t → ClosureP G core (.la p d t)

/-- what one iteration of the loop for the todo item `[p, d]` does to the map and to `zero_todos` -/
structure StepSpec (G : Grammar) (N : Nat → Bool) (F : Nat × Nat → Bool) (core : List Item) (p d : Nat)
    (is : List Item) (todo : Ctx) (is' : List Item) (todo' : Ctx) : Prop where
  sound : Sound G core is'
  mono_item : ∀ p' d', HasItem is p' d' → HasItem is' p' d'
  mono_la : ∀ p' d' t, HasLa is p' d' t → HasLa is' p' d' t
  todo_mono : ∀ x ∈ todo, x ∈ todo'
  todo_from : ∀ x ∈ todo', x ∈ todo ∨ HasItem is' x 0
  new_item : ∀ p' d', HasItem is' p' d' → HasItem is p' d' ∨ (d' = 0 ∧ p' ∈ todo')
  new_la : ∀ p' d' t, HasLa is' p' d' t → HasLa is p' d' t ∨ (d' = 0 ∧ p' ∈ todo')
  done : Done G N F is' p d ∨ (d = 0 ∧ p ∈ todo')
  measure : todo'.length + missingOf G is' ≤ todo.length + missingOf G is

theorem StepSpec.skip {G : Grammar} {N : Nat → Bool} {F : Nat × Nat → Bool} {core : List Item} {p d : Nat}
    {is : List Item} {todo : Ctx} (hs : Sound G core is) (hd : ∀ r, symAfter G p d ≠ some (.rule r)) :
    StepSpec G N F core p d is todo is todo :=
  ⟨hs, fun _ _ h => h, fun _ _ _ h => h, fun _ h => h, fun _ h => Or.inl h, fun _ _ h => Or.inl h,
    fun _ _ _ h => Or.inl h, Or.inl (fun r hr => absurd hr (hd r)), Nat.le_refl _⟩

theorem inheritCtx_spec {is : List Item} (hnd : KeysNodup is) {p d : Nat} (h : HasItem is p d) (c : Ctx) (b : Bool) :
    ∃ ctx, inheritCtx is p d c b = some ctx ∧ ∀ t, t ∈ ctx ↔ t ∈ c ∨ (b = true ∧ HasLa is p d t) := by
  cases b with
  | false => exact ⟨c, by simp [inheritCtx], by simp⟩
  | true =>
    obtain ⟨l, hl, hm⟩ := lookup_spec hnd h
    refine ⟨(vobOr c l).1, by simp [inheritCtx, hl], ?_⟩
    intro t
    rw [mem_vobOr, hm t]; simp

section
variable {G : Grammar} (hwf : G.wf = true) {N : Nat → Bool} {F : Nat × Nat → Bool}
  (hN : ∀ r, N r = true ↔ NullableR G r) (hF : ∀ r t, F (r, t) = true ↔ FirstP G r t)
  {core : List Item} (hcore : CoreOk G core)
include hwf hN hF hcore

/-- **one iteration**: it does not panic, keeps the map sound, marks everything it changed, leaves the
processed item closed (or marked again), and does not increase the measure -/
theorem process_spec {is : List Item} (hs : Sound G core is) {p d : Nat} (hpd : HasItem is p d) (todo : Ctx) :
    ∃ is' todo', process G N F p d is todo = some (is', todo') ∧ StepSpec G N F core p d is todo is' todo' := by
  have hcl := hs.item p d hpd
  obtain ⟨hp, hd⟩ := mem_universe_item.mp (closureP_univ hwf hcore hcl)
  unfold process
  rw [if_pos hp]
  by_cases hlen : d = (G.rhs p).length
  · rw [if_pos hlen]
    refine ⟨is, todo, rfl, StepSpec.skip hs ?_⟩
    intro r hr
    simp [symAfter, hlen] at hr
  · rw [if_neg hlen]
    have hdlt : d < (G.rhs p).length := by omega
    have hget : (G.rhs p)[d]? = some (G.rhs p)[d] := List.getElem?_eq_getElem hdlt
    rw [hget]
    cases hX : (G.rhs p)[d] with
    | tok a =>
      refine ⟨is, todo, rfl, StepSpec.skip hs ?_⟩
      intro r hr
      simp [symAfter, hget, hX] at hr
    | rule r =>
      have hsym : symAfter G p d = some (.rule r) := by simp [symAfter, hget, hX]
      have hr : r < G.nrules := by
        have := wf_sym hwf hp (s := .rule r) (by rw [← hX]; exact List.getElem_mem hdlt)
        simpa [Grammar.symOk] using this
      have hβ : ∀ s ∈ (G.rhs p).drop (d + 1), G.symOk s = true :=
        fun s hs' => wf_sym hwf hp (List.mem_of_mem_drop hs')
      obtain ⟨c, hc, hcm⟩ := ctxLoop_spec G N F ((G.rhs p).drop (d + 1)) hβ []
      obtain ⟨ctx, hctx, hctxm⟩ := inheritCtx_spec hs.nodup hpd c (seqNullable N ((G.rhs p).drop (d + 1)))
      have hctx' : ∀ t, t ∈ ctx ↔ (t < G.ntoks ∧ firstSeq N F ((G.rhs p).drop (d + 1)) t = true) ∨
          (seqNullable N ((G.rhs p).drop (d + 1)) = true ∧ HasLa is p d t) := by
        intro t; rw [hctxm t, hcm t]; simp
      have hctxlt : ∀ t ∈ ctx, t < G.ntoks := by
        intro t ht
        rcases (hctx' t).mp ht with h | ⟨_, h⟩
        · exact h.1
        · exact (mem_universe_la.mp (closureP_univ hwf hcore (hs.la p d t h))).2.2
      have hqs : ∀ q ∈ G.prodsOf r, q < G.nprods := fun q hq => (mem_prodsOf.mp hq).1
      have A := addAll_spec G ctx hctxlt (G.prodsOf r) hqs is todo hs.nodup
      refine ⟨(addAll (G.prodsOf r) ctx is todo).1, (addAll (G.prodsOf r) ctx is todo).2, ?_, ?_⟩
      · simp only [processSym, processRule, if_pos hr, hc, Option.bind_some, hctx, Option.map_some]
      · refine ⟨⟨A.nodup, ?_, ?_⟩, ?_, ?_, A.todo_mono, ?_, A.new_item, A.new_la, ?_, A.measure⟩
        · intro p' d' h
          rcases (A.item p' d').mp h with h | ⟨rfl, hq⟩
          · exact hs.item _ _ h
          · obtain ⟨hq1, hq2⟩ := mem_prodsOf.mp hq
            exact .citem p d p' hcl (by rw [hq2]; exact hsym) hq1
        · intro p' d' t h
          rcases (A.la p' d' t).mp h with h | ⟨rfl, hq, ht⟩
          · exact hs.la _ _ _ h
          · obtain ⟨hq1, hq2⟩ := mem_prodsOf.mp hq
            rcases (hctx' t).mp ht with ⟨_, hf⟩ | ⟨hn, hl⟩
            · exact .cfirst p d p' t hcl (by rw [hq2]; exact hsym) hq1 ((firstSeq_iff hN hF _ t).mp hf)
            · exact .cinherit p d p' t hcl (by rw [hq2]; exact hsym) hq1 ((seqNullable_iff hN _).mp hn)
                (hs.la p d t hl)
        · intro p' d' h; exact (A.item p' d').mpr (Or.inl h)
        · intro p' d' t h; exact (A.la p' d' t).mpr (Or.inl h)
        · intro x hx
          rcases A.todo_from x hx with h | h
          · exact Or.inl h
          · exact Or.inr ((A.item x 0).mpr (Or.inr ⟨rfl, h⟩))
        · by_cases hmk : d = 0 ∧ p ∈ (addAll (G.prodsOf r) ctx is todo).2
          · exact Or.inr hmk
          · left
            intro r' hr' q hq
            have : r' = r := by rw [hsym] at hr'; injection hr' with e; injection e with e; exact e.symm
            subst this
            refine ⟨(A.item q 0).mpr (Or.inr ⟨rfl, hq⟩), ?_⟩
            intro t ht
            apply (A.la q 0 t).mpr
            refine Or.inr ⟨rfl, hq, (hctx' t).mpr ?_⟩
            rcases ht with ht | ⟨hn, hl⟩
            · exact Or.inl ht
            · rcases A.new_la p d t hl with h | h
              · exact Or.inr ⟨hn, h⟩
              · exact absurd h hmk

end

/-- the loop invariant: the map is sound, contains the kernel, and every item in it either is still
to be processed (in `keys_iter` or marked in `zero_todos`) or satisfies the closure condition -/
structure Inv (G : Grammar) (N : Nat → Bool) (F : Nat × Nat → Bool) (core : List Item)
    (keys : List (Nat × Nat)) (todo : Ctx) (is : List Item) : Prop where
  sound : Sound G core is
  kernel_item : ∀ i ∈ core, HasItem is i.p i.dot
  kernel_la : ∀ i ∈ core, ∀ t ∈ i.la, HasLa is i.p i.dot t
  keys_in : ∀ k ∈ keys, HasItem is k.1 k.2
  todo_in : ∀ q ∈ todo, HasItem is q 0
  pending : ∀ p d, HasItem is p d → (p, d) ∈ keys ∨ (d = 0 ∧ p ∈ todo) ∨ Done G N F is p d

/-- the invariant survives an iteration that took `[p, d]` off the todo set -/
theorem inv_step {G : Grammar} {N : Nat → Bool} {F : Nat × Nat → Bool} {core : List Item}
    {keys keys' : List (Nat × Nat)} {todo todoIn : Ctx} {is : List Item} {p d : Nat} {is' : List Item} {todo' : Ctx}
    (hinv : Inv G N F core keys todo is) (hkeys' : ∀ k ∈ keys', k ∈ keys) (htodoIn : ∀ x ∈ todoIn, x ∈ todo)
    (hpend : ∀ p' d', HasItem is p' d' →
      (p' = p ∧ d' = d) ∨ (p', d') ∈ keys' ∨ (d' = 0 ∧ p' ∈ todoIn) ∨ Done G N F is p' d')
    (hstep : StepSpec G N F core p d is todoIn is' todo') : Inv G N F core keys' todo' is' := by
  refine ⟨hstep.sound, ?_, ?_, ?_, ?_, ?_⟩
  · intro i hi; exact hstep.mono_item _ _ (hinv.kernel_item i hi)
  · intro i hi t ht; exact hstep.mono_la _ _ _ (hinv.kernel_la i hi t ht)
  · intro k hk; exact hstep.mono_item _ _ (hinv.keys_in k (hkeys' k hk))
  · intro q hq
    rcases hstep.todo_from q hq with h | h
    · exact hstep.mono_item _ _ (hinv.todo_in q (htodoIn q h))
    · exact h
  · intro p' d' h
    by_cases hmk : d' = 0 ∧ p' ∈ todo'
    · exact Or.inr (Or.inl hmk)
    · have hold : HasItem is p' d' := by
        rcases hstep.new_item p' d' h with h | h
        · exact h
        · exact absurd h hmk
      have hsame : ∀ t, HasLa is' p' d' t → HasLa is p' d' t := by
        intro t ht
        rcases hstep.new_la p' d' t ht with h | h
        · exact h
        · exact absurd h hmk
      rcases hpend p' d' hold with ⟨rfl, rfl⟩ | h | ⟨h1, h2⟩ | h
      · rcases hstep.done with h | h
        · exact Or.inr (Or.inr h)
        · exact absurd h hmk
      · exact Or.inl h
      · exact absurd ⟨h1, hstep.todo_mono _ h2⟩ hmk
      · exact Or.inr (Or.inr (h.transfer hstep.mono_item hstep.mono_la hsame))

section
variable {G : Grammar} (hwf : G.wf = true) {N : Nat → Bool} {F : Nat × Nat → Bool}
  (hN : ∀ r, N r = true ↔ NullableR G r) (hF : ∀ r t, F (r, t) = true ↔ FirstP G r t)
  {core : List Item} (hcore : CoreOk G core)
include hwf hN hF hcore

/-- **the loop terminates within the measure and ends with nothing pending** -/
theorem loop_spec : ∀ (fuel : Nat) (keys : List (Nat × Nat)) (todo : Ctx) (is : List Item),
    Inv G N F core keys todo is → keys.length + todo.length + missingOf G is < fuel →
    ∃ R, loop G N F fuel keys todo is = .done R ∧ Inv G N F core [] [] R := by
  intro fuel
  induction fuel with
  | zero => intro _ _ _ _ h; omega
  | succ n ih =>
    intro keys todo is hinv hfuel
    cases keys with
    | cons k ks =>
      obtain ⟨is', todo', hproc, hstep⟩ :=
        process_spec hwf hN hF hcore hinv.sound (hinv.keys_in k (by simp)) todo
      simp only [loop, hproc, continueWith]
      apply ih ks todo' is'
      · apply inv_step hinv (fun x hx => by simp [hx]) (fun _ h => h) _ hstep
        intro p' d' h
        rcases hinv.pending p' d' h with h | h | h
        · rcases List.mem_cons.mp h with h | h
          · left; rw [← h]; exact ⟨rfl, rfl⟩
          · exact Or.inr (Or.inl h)
        · exact Or.inr (Or.inr (Or.inl h))
        · exact Or.inr (Or.inr (Or.inr h))
      · have := hstep.measure
        simp only [List.length_cons] at hfuel
        omega
    | nil =>
      simp only [loop]
      split
      · next hmin =>
        rw [List.min?_eq_none_iff] at hmin
        subst hmin
        exact ⟨is, rfl, hinv⟩
      · next p hmin =>
        have hp : p ∈ todo := List.min?_mem hmin
        obtain ⟨is', todo', hproc, hstep⟩ :=
          process_spec hwf hN hF hcore hinv.sound (hinv.todo_in p hp) (vobClear todo p)
        simp only [hproc, continueWith]
        apply ih [] todo' is'
        · apply inv_step hinv (fun _ h => h) (fun x hx => (mem_vobClear.mp hx).1) _ hstep
          intro p' d' h
          rcases hinv.pending p' d' h with h | ⟨h1, h2⟩ | h
          · cases h
          · by_cases hpp : p' = p
            · exact Or.inl ⟨hpp, h1⟩
            · exact Or.inr (Or.inr (Or.inl ⟨h1, mem_vobClear.mpr ⟨h2, hpp⟩⟩))
          · exact Or.inr (Or.inr (Or.inr h))
        · have := hstep.measure
          have := vobClear_length hp
          simp only [List.length_nil] at hfuel ⊢
          omega

/-- nothing pending, kernel inside, only closure facts inside: the map denotes exactly the closure -/
theorem inv_final_exact {R : List Item} (hinv : Inv G N F core [] [] R) :
    (∀ p d, HasItem R p d ↔ ClosureP G core (.item p d)) ∧
    (∀ p d t, HasLa R p d t ↔ ClosureP G core (.la p d t)) := by
  have hdone : ∀ p d, HasItem R p d → Done G N F R p d := by
    intro p d h
    rcases hinv.pending p d h with h | ⟨_, h⟩ | h
    · cases h
    · cases h
    · exact h
  have hcomp : ∀ x, ClosureP G core x → x ∈ factsOf R := by
    intro x hx
    induction hx with
    | kitem i hi => exact mem_factsOf_item.mpr (hinv.kernel_item i hi)
    | kla i t hi ht => exact mem_factsOf_la.mpr (hinv.kernel_la i hi t ht)
    | citem p d q _ hsym hq ih =>
      have hi := mem_factsOf_item.mp ih
      exact mem_factsOf_item.mpr (hdone p d hi (G.lhs q) hsym q (mem_prodsOf.mpr ⟨hq, rfl⟩)).1
    | cfirst p d q t hcl hsym hq hfs ih =>
      have hi := mem_factsOf_item.mp ih
      have hp := (mem_universe_item.mp (closureP_univ hwf hcore hcl)).1
      have ht := firstSeqP_tok_lt hwf hp hfs
      exact mem_factsOf_la.mpr ((hdone p d hi (G.lhs q) hsym q (mem_prodsOf.mpr ⟨hq, rfl⟩)).2 t
        (Or.inl ⟨ht, (firstSeq_iff hN hF _ t).mpr hfs⟩))
    | cinherit p d q t _ hsym hq hnull _ ih1 ih2 =>
      have hi := mem_factsOf_item.mp ih1
      exact mem_factsOf_la.mpr ((hdone p d hi (G.lhs q) hsym q (mem_prodsOf.mpr ⟨hq, rfl⟩)).2 t
        (Or.inr ⟨(seqNullable_iff hN _).mpr hnull, mem_factsOf_la.mp ih2⟩))
  exact ⟨fun p d => ⟨hinv.sound.item p d, fun h => mem_factsOf_item.mp (hcomp _ h)⟩,
    fun p d t => ⟨hinv.sound.la p d t, fun h => mem_factsOf_la.mp (hcomp _ h)⟩⟩

end

/-! ### the driver's comparison of the model's map with a dumped closed state -/

/-- under distinct keys an entry is determined by its key -/
theorem keysNodup_mem_eq {is : List Item} (h : KeysNodup is) {x y : Item} (hx : x ∈ is) (hy : y ∈ is)
    (e1 : x.p = y.p) (e2 : x.dot = y.dot) : x = y := by
  induction is with
  | nil => cases hx
  | cons i rest ih =>
    obtain ⟨hni, hnd⟩ := keysNodup_cons.mp h
    rcases List.mem_cons.mp hx with rfl | hx' <;> rcases List.mem_cons.mp hy with rfl | hy'
    · rfl
    · exact absurd ⟨y, hy', e1.symm, e2.symm⟩ hni
    · exact absurd ⟨x, hx', e1, e2⟩ hni
    · exact ih hnd hx' hy'

theorem subCtx_iff {a b : Ctx} : subCtx a b = true ↔ ∀ t ∈ a, t ∈ b := by
  simp [subCtx]

theorem lookup_some {is : List Item} {p d : Nat} {l : Ctx} (h : lookup is p d = some l) :
    ∃ i ∈ is, i.p = p ∧ i.dot = d ∧ i.la = l := by
  simp only [lookup, Option.map_eq_some_iff] at h
  obtain ⟨i, hi, hl⟩ := h
  obtain ⟨e1, e2⟩ := isKey_iff.mp (List.find?_some hi)
  exact ⟨i, List.mem_of_find?_eq_some hi, e1, e2, hl⟩

/-- `sameItems` decides "denote the same items with the same lookahead sets" (both sides being the
contents of hash maps, i.e. with distinct keys) -/
theorem sameItems_iff {R closed : List Item} (hR : KeysNodup R) (hC : KeysNodup closed) :
    sameItems R closed = true ↔
      (∀ p d, HasItem closed p d ↔ HasItem R p d) ∧ (∀ p d t, HasLa closed p d t ↔ HasLa R p d t) := by
  simp only [sameItems, Bool.and_eq_true, List.all_eq_true, List.any_eq_true]
  constructor
  · rintro ⟨h1, h2⟩
    have key : ∀ i ∈ closed, HasItem R i.p i.dot ∧ ∀ t, t ∈ i.la ↔ HasLa R i.p i.dot t := by
      intro i hi
      have := h1 i hi
      cases hl : lookup R i.p i.dot with
      | none => rw [hl] at this; cases this
      | some l =>
        rw [hl] at this
        simp only [sameEntry, Bool.and_eq_true, subCtx_iff] at this
        obtain ⟨j, hj, e1, e2, e3⟩ := lookup_some hl
        have hit : HasItem R i.p i.dot := ⟨j, hj, e1, e2⟩
        obtain ⟨l', hl', hm⟩ := lookup_spec hR hit
        rw [hl] at hl'; injection hl' with hl'; subst hl'
        exact ⟨hit, fun t => ⟨fun ht => (hm t).mp (this.2 t ht), fun ht => this.1 t ((hm t).mpr ht)⟩⟩
    refine ⟨fun p d => ⟨?_, ?_⟩, fun p d t => ⟨?_, ?_⟩⟩
    · rintro ⟨i, hi, rfl, rfl⟩; exact (key i hi).1
    · rintro ⟨j, hj, rfl, rfl⟩
      obtain ⟨i, hi, hk⟩ := h2 j hj
      obtain ⟨e1, e2⟩ := isKey_iff.mp hk
      exact ⟨i, hi, e1, e2⟩
    · rintro ⟨i, hi, rfl, rfl, ht⟩; exact ((key i hi).2 t).mp ht
    · rintro ⟨j, hj, rfl, rfl, ht⟩
      obtain ⟨i, hi, hk⟩ := h2 j hj
      obtain ⟨e1, e2⟩ := isKey_iff.mp hk
      refine ⟨i, hi, e1, e2, ?_⟩
      apply ((key i hi).2 t).mpr
      rw [e1, e2]; exact ⟨j, hj, rfl, rfl, ht⟩
  · rintro ⟨h1, h2⟩
    constructor
    · intro i hi
      have hit : HasItem R i.p i.dot := (h1 _ _).mp ⟨i, hi, rfl, rfl⟩
      obtain ⟨l, hl, hm⟩ := lookup_spec hR hit
      have hmi : ∀ t, t ∈ i.la ↔ HasLa closed i.p i.dot t := by
        intro t
        constructor
        · intro ht; exact ⟨i, hi, rfl, rfl, ht⟩
        · rintro ⟨i', hi', e1, e2, ht⟩
          exact (keysNodup_mem_eq hC hi' hi e1 e2) ▸ ht
      rw [hl]
      simp only [sameEntry, Bool.and_eq_true, subCtx_iff]
      exact ⟨fun t ht => (hmi t).mpr ((h2 _ _ t).mpr ((hm t).mp ht)),
        fun t ht => (hm t).mpr ((h2 _ _ t).mp ((hmi t).mp ht))⟩
    · intro j hj
      obtain ⟨i, hi, e1, e2⟩ := (h1 j.p j.dot).mpr ⟨j, hj, rfl, rfl⟩
      exact ⟨i, hi, isKey_iff.mpr ⟨e1, e2⟩⟩

end GrmVerif.CloseImpl
