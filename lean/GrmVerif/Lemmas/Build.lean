import GrmVerif.Model.Build
/-! Specification definitions and helper lemmas for C18 (incremental build = clean build). -/
namespace GrmVerif.Build

/-- the key (cache string) a generator result carries, if it got as far as computing one -/
def keyOf : PRes → Option Nat
  | .early => none
  | .late k => some k
  | .ok k _ => some k

/-- **Hypothesis on the cache string**: for one grammar text, two worlds whose cache strings are equal
give the same parser-generator result. I.e. the cache string is injective on everything, apart from the
grammar text itself, that the generator's result depends on (builder settings, and *not* the lexer
text). Discharged syntactically by `tools/extract.py` (every builder field is in `rebuild_cache` or in
the audited exclusion list) and behaviourally by the correspondence run. -/
def KeyCovers (G : Gen) : Prop :=
  ∀ w w' : World, w.g = w'.g → ∀ k, keyOf (G.p w) = some k → keyOf (G.p w') = some k → G.p w = G.p w'

/-- what a build into an empty directory leaves as parser output -/
def cleanP (G : Gen) (w : World) : Option Nat :=
  match G.p w with
  | .ok _ out => some out
  | _ => none

def cleanL (G : Gen) (w : World) : Option Nat :=
  match G.l w with
  | .ok out => some out
  | _ => none

/-- Invariant of reachable states: the clock is not behind any mtime, and a parser output that is newer
than the grammar file was generated from the *current* grammar text (under some settings) with its
cache string embedded. -/
def Inv (G : Gen) (st : State) : Prop :=
  st.gmt ≤ st.clock ∧
  ∀ f, st.pout = some f → f.mtime ≤ st.clock ∧
    (st.gmt < f.mtime → ∃ w : World, w.g = st.g ∧ G.p w = .ok f.key f.content)

theorem inv_init (G : Gen) (g l : Nat) (s : Settings) : Inv G (init g l s) := by
  refine ⟨Nat.le_refl _, ?_⟩
  intro f h
  simp [init] at h

theorem upToDate_some {o : Option PFile} {gmt k : Nat} (h : upToDate o gmt k = true) :
    ∃ f, o = some f ∧ gmt < f.mtime ∧ f.key = k := by
  cases o with
  | none => simp [upToDate] at h
  | some f =>
    simp [upToDate] at h
    exact ⟨f, rfl, h.1, h.2⟩

theorem inv_tick {G : Gen} {st : State} (h : Inv G st) (dt : Nat) : Inv G (tick st dt) := by
  obtain ⟨h1, h2⟩ := h
  refine ⟨by simp [tick]; omega, ?_⟩
  intro f hf
  have := h2 f hf
  simp [tick]
  exact ⟨by omega, this.2⟩

/-- the parser builder keeps the invariant and does not touch sources, settings, clock, lexer output -/
theorem buildParser_frame (G : Gen) (st : State) :
    let r := (buildParser G st).1
    r.clock = st.clock ∧ r.g = st.g ∧ r.gmt = st.gmt ∧ r.l = st.l ∧ r.lmt = st.lmt ∧ r.s = st.s ∧
      r.lout = st.lout := by
  simp only [buildParser]
  split <;> try split
  all_goals simp [removeP, writeP]

theorem buildParser_world (G : Gen) (st : State) : (buildParser G st).1.world = st.world := by
  have := buildParser_frame G st
  simp only [State.world] at *
  simp [this.2.1, this.2.2.2.1, this.2.2.2.2.2.1]

theorem inv_buildParser {G : Gen} {st : State} (h : Inv G st) : Inv G (buildParser G st).1 := by
  obtain ⟨h1, h2⟩ := h
  simp only [buildParser]
  split
  · exact ⟨h1, by intro f hf; simp [removeP] at hf⟩
  · split
    · exact ⟨h1, h2⟩
    · exact ⟨h1, by intro f hf; simp [removeP] at hf⟩
  · rename_i k out hp
    split
    · exact ⟨h1, h2⟩
    · refine ⟨h1, ?_⟩
      intro f hf
      simp [writeP] at hf
      subst hf
      exact ⟨Nat.le_refl _, fun _ => ⟨st.world, rfl, hp⟩⟩

theorem finishLexer_frame (r : LRes) (st : State) :
    let q := (finishLexer r st).1
    q.clock = st.clock ∧ q.g = st.g ∧ q.gmt = st.gmt ∧ q.l = st.l ∧ q.lmt = st.lmt ∧ q.s = st.s ∧
      q.pout = st.pout := by
  simp only [finishLexer]
  split <;> try split
  all_goals simp [removeL, writeL]

theorem inv_of_frame {G : Gen} {st q : State} (h : Inv G st)
    (hc : q.clock = st.clock) (hg : q.g = st.g) (hm : q.gmt = st.gmt) (hp : q.pout = st.pout) :
    Inv G q := by
  unfold Inv at *
  rw [hc, hg, hm, hp]
  exact h

theorem inv_finishLexer {G : Gen} {st : State} (r : LRes) (h : Inv G st) : Inv G (finishLexer r st).1 := by
  have f := finishLexer_frame r st
  exact inv_of_frame h f.1 f.2.1 f.2.2.1 f.2.2.2.2.2.2

theorem inv_removeL {G : Gen} {st : State} (h : Inv G st) : Inv G (removeL st) :=
  inv_of_frame h rfl rfl rfl rfl

theorem inv_buildAll {G : Gen} {st : State} (h : Inv G st) : Inv G (buildAll G st).1 := by
  simp only [buildAll]
  split
  · split
    · exact inv_removeL h
    · split
      · exact inv_removeL (inv_buildParser h)
      · exact inv_finishLexer _ (inv_buildParser h)
  · split
    · exact inv_buildParser h
    · exact inv_finishLexer _ (inv_buildParser h)

theorem inv_step {G : Gen} {st : State} (h : Inv G st) (op : Op) : Inv G (step G st op) := by
  cases op with
  | editGrammar g dt =>
    obtain ⟨h1, h2⟩ := h
    refine ⟨Nat.le_refl _, ?_⟩
    intro f hf
    have := h2 f hf
    simp only [step] at *
    exact ⟨by omega, fun hlt => by omega⟩
  | editLexer l dt =>
    obtain ⟨h1, h2⟩ := h
    refine ⟨by simp [step]; omega, ?_⟩
    intro f hf
    have := h2 f hf
    simp only [step] at *
    exact ⟨by omega, this.2⟩
  | changeOption i v dt =>
    obtain ⟨h1, h2⟩ := h
    refine ⟨by simp [step]; omega, ?_⟩
    intro f hf
    have := h2 f hf
    simp only [step] at *
    exact ⟨by omega, this.2⟩
  | build dt => exact inv_buildAll (inv_tick h dt)

theorem inv_run {G : Gen} (ops : List Op) {st : State} (h : Inv G st) : Inv G (run G st ops) := by
  induction ops generalizing st with
  | nil => exact h
  | cons op ops ih => exact ih (inv_step h op)

/-- Under the invariant and the cache hypothesis the parser builder leaves exactly what a build into an
empty directory leaves — whether it succeeds, skips or fails. -/
theorem buildParser_clean {G : Gen} (hk : KeyCovers G) {st : State} (h : Inv G st) :
    pContent (buildParser G st).1 = cleanP G st.world := by
  simp only [buildParser, cleanP]
  split
  · rename_i hp; simp [hp, pContent, removeP]
  · rename_i k hp
    split
    · rename_i hu
      obtain ⟨f, hf, hlt, hkey⟩ := upToDate_some hu
      obtain ⟨w, hw, hgen⟩ := (h.2 f hf).2 hlt
      have := hk st.world w (by simp [State.world, hw]) k (by simp [hp, keyOf]) (by simp [hgen, keyOf, hkey])
      rw [hp, hgen] at this
      cases this
    · simp [hp, pContent, removeP]
  · rename_i k out hp
    split
    · rename_i hu
      obtain ⟨f, hf, hlt, hkey⟩ := upToDate_some hu
      obtain ⟨w, hw, hgen⟩ := (h.2 f hf).2 hlt
      have := hk st.world w (by simp [State.world, hw]) k (by simp [hp, keyOf]) (by simp [hgen, keyOf, hkey])
      rw [hp, hgen] at this
      cases this
      simp [hp, pContent, hf]
    · simp [hp, pContent, writeP]

/-- the status the parser builder reports agrees with the generator's result -/
theorem buildParser_status {G : Gen} (hk : KeyCovers G) {st : State} (h : Inv G st) :
    pFailed (buildParser G st).2 = (cleanP G st.world).isNone := by
  simp only [buildParser, cleanP]
  split
  · rename_i hp; simp [hp, pFailed]
  · rename_i k hp
    split
    · rename_i hu
      obtain ⟨f, hf, hlt, hkey⟩ := upToDate_some hu
      obtain ⟨w, hw, hgen⟩ := (h.2 f hf).2 hlt
      have := hk st.world w (by simp [State.world, hw]) k (by simp [hp, keyOf]) (by simp [hgen, keyOf, hkey])
      rw [hp, hgen] at this
      cases this
    · simp [hp, pFailed]
  · rename_i k out hp
    split <;> simp [hp, pFailed]

theorem finishLexer_clean (r : LRes) (st : State) :
    lContent (finishLexer r st).1 = (match r with | .ok out => some out | _ => none) := by
  simp only [finishLexer]
  split
  · simp [lContent, removeL]
  · simp [lContent, removeL]
  · simp [lContent, removeL]
  · rename_i out
    split
    · rename_i hs
      cases hl : st.lout with
      | none => simp [sameText, hl] at hs
      | some f =>
        simp [sameText, hl] at hs
        simp [lContent, hl, hs]
    · simp [lContent, writeL]

/-- ops other than grammar edits and builds keep the parser output and the grammar file -/
theorem step_keeps_parser (G : Gen) (st : State) (op : Op) (hb : isBuild op = false)
    (he : isEditGrammar op = false) :
    (step G st op).pout = st.pout ∧ (step G st op).gmt = st.gmt ∧ (step G st op).g = st.g ∧
      (step G st op).lout = st.lout := by
  cases op <;> simp [isBuild, isEditGrammar] at hb he <;> simp [step]

/-- without a build the outputs stay; the grammar's mtime never decreases -/
theorem step_nobuild (G : Gen) (st : State) (op : Op) (hb : isBuild op = false) (hc : st.gmt ≤ st.clock) :
    (step G st op).pout = st.pout ∧ (step G st op).lout = st.lout ∧ st.gmt ≤ (step G st op).gmt := by
  cases op <;> simp [isBuild] at hb <;> simp [step]
  omega

end GrmVerif.Build
