import GrmVerif.Lemmas.RecEdited
/-!
A concrete automaton for the non-vacuity examples of C05 (`Props/C05.lean`): a table on which a
refused lexeme leaves a reduction behind, a recoverer that reports one sequence per error, and the
proof that this table satisfies `KeptInvisible` (for ALL stacks, not only the reachable ones).
-/
namespace GrmVerif.C05
open GrmVerif Rec LR

/-- `S: A 'b'; A: 'a'` (tokens a = 0, b = 1, end-of-input = 2; rules ^ = 0, S = 1, A = 2;
productions 0 = S → A b, 1 = A → a, 2 = ^ → S) -/
def exG : Grammar := ⟨3, 3, 2, 2, [(1, [.rule 2, .tok 1]), (2, [.tok 0]), (0, [.rule 1])], [], []⟩
def exSt (actions : List Act) (gotos : List (Option Nat)) : StateD := ⟨[], [], [], actions, gotos, [], [], [], false⟩
/-- states 0 start, 1 `A → a .`, 2 `S → A . b`, 3 `S → A b .`, 4 `^ → S .`; state 1 reduces under `b`
AND under end-of-input (as a state merged from several contexts would), so end-of-input after `a` is
refused only after `A → a` has been reduced: the stack `[1, 0]` is left as `[2, 0]` -/
def exA : Automaton :=
  ⟨0, [exSt [.shift 1, .error, .error] [none, some 4, some 2],
       exSt [.error, .reduce 1, .reduce 1] [none, none, none],
       exSt [.error, .shift 3, .error] [none, none, none],
       exSt [.error, .error, .reduce 0] [none, none, none],
       exSt [.error, .error, .accept] [none, none, none]], [], []⟩
/-- on the input `a a`: the second `a` is refused in state 1 → delete it; then end-of-input is refused
(after the reduction to `[2, 0]`) → insert `b` -/
def exRecover : Pos → Option (Pos × List (List Repair)) := fun c =>
  if c.stack = [1, 0] ∧ c.pos = 1 then some (⟨[1, 0], 2⟩, [[.delete], [.insert 1, .delete]])
  else if c.stack = [2, 0] ∧ c.pos = 2 then some (⟨[3, 2, 0], 2⟩, [[.insert 1]])
  else none

theorem ex_error_stack : ∀ (la : Nat) (a s : List Nat), feed exG exA la FUEL a = .error s →
    s = a ∨ ∃ r, a = 1 :: 0 :: r ∧ s = 2 :: 0 :: r := by
  intro la a s h
  obtain ⟨n, hn⟩ : ∃ n, FUEL = n + 2 := ⟨1998, rfl⟩
  rw [hn] at h
  match a, h with
  | [], h => simp [feed] at h
  | st :: tl, h =>
    rcases st with _|_|_|_|_|k <;> rcases la with _|_|_|m
    all_goals try (simp [feed, Automaton.action, exA, exSt] at h; first | exact Or.inl h.symm | done)
    all_goals first
      | (rcases tl with _ | ⟨q, r⟩
         · simp [feed, Automaton.action, exA, exSt, exG, Grammar.rhs] at h
         · rcases q with _|_|_|_|_|k <;>
             simp [feed, Automaton.action, Automaton.goto, exA, exSt, exG, Grammar.rhs, Grammar.lhs] at h <;>
             exact Or.inr ⟨r, rfl, h.symm⟩)
      | (rcases tl with _ | ⟨q, _ | ⟨q2, r2⟩⟩
         · simp [feed, Automaton.action, exA, exSt, exG, Grammar.rhs] at h
         · simp [feed, Automaton.action, exA, exSt, exG, Grammar.rhs] at h
         · rcases q2 with _|_|_|_|_|k <;>
             simp [feed, Automaton.action, Automaton.goto, exA, exSt, exG, Grammar.rhs, Grammar.lhs] at h)

theorem ex_kept : ∀ a b, Kept exG exA a b → a = b ∨ ∃ r, b = 1 :: 0 :: r ∧ a = 2 :: 0 :: r := by
  intro a b h
  induction h with
  | refl s => exact Or.inl rfl
  | offer a b la s _ hf ih =>
    rcases ex_error_stack la a s hf with h1 | ⟨r', h1, h2⟩
    · subst h1; exact ih
    · rcases ih with ih | ⟨r, _, ih2⟩
      · subst ih; exact Or.inr ⟨r', h1, h2⟩
      · rw [ih2] at h1; simp at h1

theorem ex_keptInvisible : KeptInvisible exG exA := by
  intro a b hab t
  rcases ex_kept a b hab with h | ⟨r, hb, ha⟩
  · subst h; exact ⟨fun _ h => h, fun x h => ⟨x, h⟩, fun x h => ⟨x, h⟩⟩
  · subst hb ha
    obtain ⟨n, hn⟩ : ∃ n, FUEL = n + 2 := ⟨1998, rfl⟩
    rw [hn]
    rcases t with _|_|_|m <;>
      simp [feed, Automaton.action, Automaton.goto, exA, exSt, exG, Grammar.rhs, Grammar.lhs]

/-- the recoverer continues as if its first sequence were applied -/
theorem exFirst_holds : FirstApplies exG exA [0, 0] exRecover := by
  intro c c' s0 rest h
  obtain ⟨st, p⟩ := c
  simp only [exRecover] at h
  split at h
  · rename_i hc
    obtain ⟨h1, h2⟩ := hc
    subst h1 h2
    simp only [Option.some.injEq, Prod.mk.injEq, List.cons.injEq] at h
    obtain ⟨rfl, rfl, _⟩ := h
    rfl
  · split at h
    · rename_i hc
      obtain ⟨h1, h2⟩ := hc
      subst h1 h2
      simp only [Option.some.injEq, Prod.mk.injEq, List.cons.injEq] at h
      obtain ⟨rfl, rfl, _⟩ := h
      rfl
    · cases h

end GrmVerif.C05
