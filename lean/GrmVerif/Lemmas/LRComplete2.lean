import GrmVerif.Lemmas.LRComplete
/-! The tree lemma: the driver builds any valid tree whose context fits the lookahead. -/
namespace GrmVerif.Cert
open GrmVerif Spec LR Ref

theorem drop_cons_getElem {α : Type} {l : List α} {n : Nat} {a : α} {t : List α} (h : l.drop n = a :: t) :
    l[n]? = some a ∧ l.drop (n + 1) = t := by
  induction l generalizing n with
  | nil => simp at h
  | cons x xs ih =>
    cases n with
    | zero => simp at h; simp [h.1, h.2]
    | succ m => simp at h; simpa using ih h

theorem nextTok_of_drop_cons {G : Grammar} {w : List Nat} {i a : Nat} {t : List Nat}
    (h : w.drop i = a :: t) : nextTok G w i = a := by
  simp [nextTok, (drop_cons_getElem h).1]

theorem shapes_append (a b : List Tree) : shape.shapes (a ++ b) = shape.shapes a ++ shape.shapes b := by
  induction a with
  | nil => simp [shape.shapes]
  | cons k ks ih => simp [shape.shapes, ih]

theorem shapes_length (a : List Tree) : (shape.shapes a).length = a.length := by
  induction a with
  | nil => rfl
  | cons k ks ih => simp [shape.shapes, ih]

/-- the lookahead fits the rest of a production: the token after the remaining children is in
`FIRST(remaining symbols · L)` -/
theorem la_compat {G : Grammar} {N : Nat → Bool} {F : Nat × Nat → Bool}
    (hN : ∀ r, N r = true ↔ NullableR G r) (hF : ∀ r t, F (r, t) = true ↔ FirstP G r t)
    {w : List Nat} (ks : List Tree) (hv : Tree.validList G ks = true) (i : Nat) (z : List Nat) (L : List Nat)
    (hw : w.drop i = Tree.yieldList ks ++ z)
    (hL : nextTok G w (i + (Tree.yieldList ks).length) ∈ L) :
    firstSeqL N F (ks.map (Tree.root G)) L (nextTok G w i) = true := by
  obtain ⟨h1, h2⟩ := trees_first_null G ks hv
  simp only [firstSeqL, Bool.or_eq_true, Bool.and_eq_true, List.contains_eq_mem, decide_eq_true_eq]
  cases hy : Tree.yieldList ks with
  | nil =>
    right
    rw [hy] at hL
    exact ⟨(seqNullable_iff hN _).mpr (h1 hy), by simpa using hL⟩
  | cons a rest =>
    left
    rw [hy] at hw
    rw [nextTok_of_drop_cons hw]
    exact (firstSeq_iff hN hF _ a).mpr (h2 a rest hy)

section
variable {G : Grammar} {A : Automaton} {N : Nat → Bool} {F : Nat × Nat → Bool} {w : List Nat}

mutual
theorem tree_run (P : Props G A) (PL : PropsLA G A N F)
    (hN : ∀ r, N r = true ↔ NullableR G r) (hF : ∀ r t, F (r, t) = true ↔ FirstP G r t)
    (hw : InputOk G w) :
    ∀ (T : Tree), Tree.valid G T = true → ∀ (c : Cfg) (s : Nat) (rest : List Nat) (i : Item) (z : List Nat),
      c.pstack = s :: rest → s < A.nstates → i ∈ A.closed s →
      symAt G i.p i.dot = some (Tree.root G T) →
      w.drop c.laidx = Tree.yield T ++ z →
      firstSeqL N F ((G.rhs i.p).drop (i.dot + 1)) i.la (nextTok G w (c.laidx + (Tree.yield T).length)) = true →
      ∃ s' T' j, Steps G A w c ⟨s' :: s :: rest, T' :: c.astack, c.laidx + (Tree.yield T).length⟩ ∧
        s' < A.nstates ∧ shape T' = shape T ∧ j ∈ A.closed s' ∧ j.p = i.p ∧ j.dot = i.dot + 1 ∧
        ∀ a ∈ i.la, a ∈ j.la
  | .leaf t idx, _, c, s, rest, i, z, hp, hs, hi, hsym, hdrop, _ => by
    simp only [Tree.yield, List.singleton_append] at hdrop
    simp only [Tree.root] at hsym
    obtain ⟨s', he, hact⟩ := PL.actShiftC s hs i hi t hsym
    obtain ⟨t', j0, he', hj0, hj0p, hj0d, hj0la⟩ := PL.edgeLA s hs i hi _ hsym
    rw [he] at he'; injection he' with he'; subst he'
    have hs' : s' < A.nstates := (P.edgeTarget s hs _ (edge_mem he)).1
    obtain ⟨j, hj, hjp, hjd, hjla⟩ := PL.coreLA s' hs' j0 hj0
    have hla : nextTok G w c.laidx = t := nextTok_of_drop_cons hdrop
    refine ⟨s', .leaf t c.laidx, j, ?_, hs', by simp [shape], hj, by rw [hjp, hj0p], by rw [hjd, hj0d], ?_⟩
    · apply Steps.single
      obtain ⟨ps, as, la⟩ := c
      simp only at hp hla ⊢
      subst hp
      simp [step, hla, hact, Tree.yield]
    · intro a ha; exact hjla a (hj0la a ha)
  | .node p kids, hv, c, s, rest, i, z, hp, hs, hi, hsym, hdrop, hcompat => by
    simp only [Tree.valid, Bool.and_eq_true, decide_eq_true_eq, beq_iff_eq] at hv
    obtain ⟨⟨hplt, hkids⟩, hvl⟩ := hv
    simp only [Tree.root] at hsym
    simp only [Tree.yield] at hdrop hcompat ⊢
    -- the closure item `[p → . kids, L_B]` with the fitting lookahead
    obtain ⟨jq, hjq, hjqp, hjqd, hjqla⟩ := PL.closeLA s hs i hi (G.lhs p) hsym p (mem_prodsOf.mpr ⟨hplt, rfl⟩)
    have hlaz_lt : nextTok G w (c.laidx + (Tree.yieldList kids).length) < G.ntoks := nextTok_lt hw P.wf _
    have hlaz : nextTok G w (c.laidx + (Tree.yieldList kids).length) ∈ jq.la := hjqla _ hlaz_lt hcompat
    obtain ⟨sts, ts, j', top, hsteps, hlen1, hlen2, hshape, htop, htoplt, hj', hj'p, hj'd, hj'la⟩ :=
      trees_run P PL hN hF hw kids hvl c s rest jq z hp hs hjq
        (by rw [hjqp, hjqd]; simpa using hkids.symm) hdrop hlaz
    -- the reduction by `p` in the top state
    have hcomplete : symAt G j'.p j'.dot = none := by
      unfold symAt
      rw [hj'p, hj'd, hjqp, hjqd]
      have : (G.rhs p).length = kids.length := by rw [← hkids]; simp
      simp [this]
    have hpne : j'.p ≠ G.startProd := by
      rw [hj'p, hjqp]
      intro hps
      have hip := (P.itemOk s hs i (List.mem_append_left _ hi)).1
      have : Sym.rule G.startRule ∈ G.rhs i.p := by
        have := symAt_mem hsym
        rw [hps] at this; exact this
      exact P.noStartRhs i.p hip this
    have hact := PL.actReduceC top htoplt j' hj' hcomplete hpne _ (hj'la _ hlaz)
    rw [hj'p, hjqp] at hact
    -- goto from the exposed state
    obtain ⟨s', j0, he, hj0, hj0p, hj0d, hj0la⟩ := PL.edgeLA s hs i hi _ hsym
    have hs' : s' < A.nstates := (P.edgeTarget s hs _ (edge_mem he)).1
    obtain ⟨j, hj, hjp, hjd, hjla⟩ := PL.coreLA s' hs' j0 hj0
    have hgoto : A.goto s (G.lhs p) = some s' := by
      rw [P.gotoEdge s _ hs (wf_lhs P.wf hplt)]; exact he
    have hn : (G.rhs p).length = kids.length := by rw [← hkids]; simp
    refine ⟨s', .node p ts.reverse, j, ?_, hs', ?_, hj, by rw [hjp, hj0p], by rw [hjd, hj0d],
      fun a ha => hjla a (hj0la a ha)⟩
    · refine hsteps.trans (Steps.single ?_)
      have hhead : ∃ more, sts ++ s :: rest = top :: more := by
        cases sts with
        | nil => simp at htop; exact ⟨rest, by simp [htop]⟩
        | cons x xs => simp at htop; exact ⟨xs ++ s :: rest, by simp [htop]⟩
      obtain ⟨more, hmore⟩ := hhead
      have hdropst : (sts ++ s :: rest).drop kids.length = s :: rest := by
        rw [← hlen1]; simp
      have hnotle : ¬ ((sts ++ s :: rest).length ≤ kids.length) := by
        simp only [List.length_append, List.length_cons]; omega
      have htake : (ts ++ c.astack).take kids.length = ts := by rw [← hlen2]; simp
      have hdropas : (ts ++ c.astack).drop kids.length = c.astack := by rw [← hlen2]; simp
      simp only [step]
      rw [hmore]
      simp only [hact, hn]
      rw [← hmore]
      simp only [hnotle, ↓reduceIte, hdropst, hgoto, htake, hdropas]
    · simp only [shape]
      rw [hshape]

theorem trees_run (P : Props G A) (PL : PropsLA G A N F)
    (hN : ∀ r, N r = true ↔ NullableR G r) (hF : ∀ r t, F (r, t) = true ↔ FirstP G r t)
    (hw : InputOk G w) :
    ∀ (kids : List Tree), Tree.validList G kids = true →
      ∀ (c : Cfg) (s : Nat) (rest : List Nat) (j : Item) (z : List Nat),
      c.pstack = s :: rest → s < A.nstates → j ∈ A.closed s →
      (G.rhs j.p).drop j.dot = kids.map (Tree.root G) →
      w.drop c.laidx = Tree.yieldList kids ++ z →
      nextTok G w (c.laidx + (Tree.yieldList kids).length) ∈ j.la →
      ∃ (sts : List Nat) (ts : List Tree) (j' : Item) (top : Nat),
        Steps G A w c ⟨sts ++ s :: rest, ts ++ c.astack, c.laidx + (Tree.yieldList kids).length⟩ ∧
        sts.length = kids.length ∧ ts.length = kids.length ∧ shape.shapes ts.reverse = shape.shapes kids ∧
        (sts ++ [s]).head? = some top ∧ top < A.nstates ∧ j' ∈ A.closed top ∧ j'.p = j.p ∧
        j'.dot = j.dot + kids.length ∧ ∀ a ∈ j.la, a ∈ j'.la
  | [], _, c, s, rest, j, z, hp, hs, hj, _, _, _ => by
    refine ⟨[], [], j, s, ?_, rfl, rfl, rfl, rfl, hs, hj, rfl, rfl, fun a ha => ha⟩
    obtain ⟨ps, as, la⟩ := c
    simp only at hp; subst hp
    simpa [Tree.yieldList] using Steps.refl (G := G) (A := A) (w := w) ⟨s :: rest, as, la⟩
  | k :: ks, hv, c, s, rest, j, z, hp, hs, hj, hrhs, hdrop, hla => by
    simp only [Tree.validList, Bool.and_eq_true] at hv
    obtain ⟨hvk, hvks⟩ := hv
    simp only [List.map_cons] at hrhs
    obtain ⟨hsym, hrest⟩ := drop_cons_getElem hrhs
    simp only [Tree.yieldList, List.append_assoc, List.length_append] at hdrop hla
    -- the child `k`
    have hdrop_ks : w.drop (c.laidx + (Tree.yield k).length) = Tree.yieldList ks ++ z := by
      have := congrArg (List.drop (Tree.yield k).length) hdrop
      simpa [List.drop_drop, Nat.add_comm] using this
    have hcompat : firstSeqL N F ((G.rhs j.p).drop (j.dot + 1)) j.la
        (nextTok G w (c.laidx + (Tree.yield k).length)) = true := by
      rw [hrest]
      exact la_compat hN hF ks hvks _ z j.la hdrop_ks (by simpa [Nat.add_assoc] using hla)
    obtain ⟨s1, T1, j1, hsteps1, hs1, hshape1, hj1, hj1p, hj1d, hj1la⟩ :=
      tree_run P PL hN hF hw k hvk c s rest j (Tree.yieldList ks ++ z) hp hs hj (by simpa [symAt] using hsym)
        hdrop hcompat
    -- the remaining children from the new configuration
    obtain ⟨sts, ts, j', top, hsteps2, hl1, hl2, hsh, htop, htoplt, hj', hj'p, hj'd, hj'la⟩ :=
      trees_run P PL hN hF hw ks hvks
        ⟨s1 :: s :: rest, T1 :: c.astack, c.laidx + (Tree.yield k).length⟩ s1 (s :: rest) j1 z rfl hs1 hj1
        (by rw [hj1p, hj1d]; exact hrest) hdrop_ks
        (hj1la _ (by simpa [Nat.add_assoc] using hla))
    refine ⟨sts ++ [s1], ts ++ [T1], j', top, ?_, by simp [hl1], by simp [hl2], ?_, ?_, htoplt, hj',
      by rw [hj'p, hj1p], by rw [hj'd, hj1d]; simp; omega, fun a ha => hj'la a (hj1la a ha)⟩
    · have := hsteps1.trans hsteps2
      simpa [Tree.yieldList, Nat.add_assoc, List.append_assoc] using this
    · simp only [List.reverse_append, List.reverse_cons, List.reverse_nil, List.nil_append,
        List.singleton_append, shape.shapes]
      rw [hshape1, hsh]
    · cases sts with
      | nil => simp at htop ⊢; exact htop
      | cons x xs => simp at htop ⊢; exact htop
end

end

end GrmVerif.Cert
