import GrmVerif.Lemmas.LRPath
/-! Soundness and crash-freedom of the LR driver on a certified automaton. -/
namespace GrmVerif.Cert
open GrmVerif Spec LR

/-! ### trees -/

theorem yieldList_append (a b : List Tree) : Tree.yieldList (a ++ b) = Tree.yieldList a ++ Tree.yieldList b := by
  induction a with
  | nil => simp [Tree.yieldList]
  | cons k ks ih => simp [Tree.yieldList, ih, List.append_assoc]

theorem validList_append (G : Grammar) (a b : List Tree) :
    Tree.validList G (a ++ b) = (Tree.validList G a && Tree.validList G b) := by
  induction a with
  | nil => simp [Tree.validList]
  | cons k ks ih => simp [Tree.validList, ih, Bool.and_assoc]

theorem validList_reverse (G : Grammar) (a : List Tree) : Tree.validList G a.reverse = Tree.validList G a := by
  induction a with
  | nil => rfl
  | cons k ks ih =>
    simp only [List.reverse_cons, validList_append, ih, Tree.validList, Bool.and_true]
    exact Bool.and_comm _ _

theorem validList_take_drop (G : Grammar) (a : List Tree) (n : Nat) :
    Tree.validList G a = (Tree.validList G (a.take n) && Tree.validList G (a.drop n)) := by
  rw [← validList_append, List.take_append_drop]

/-! ### paths -/

theorem Path.drop {A : Automaton} {states : List Nat} {labels : List Sym} (h : Path A states labels) :
    ∀ n, n ≤ labels.length → Path A (states.drop n) (labels.drop n) := by
  induction h with
  | base => intro n hn; simp at hn; subst hn; exact .base
  | step s t rest labels X hp he ih =>
    intro n hn
    cases n with
    | zero => exact .step s t rest labels X hp he
    | succ m => simpa using ih m (by simpa using hn)

/-- a state with a dot-0 kernel item can only be the bottom of the stack -/
theorem kernel0_bottom {G : Grammar} {A : Automaton} (P : Props G A) {s : Nat} {rest : List Nat}
    {labels : List Sym} {p : Nat} (hpath : Path A (s :: rest) labels) (hi : HasItem (A.core s) p 0) :
    rest = [] ∧ labels = [] ∧ s = A.start := by
  cases hpath with
  | base => exact ⟨rfl, rfl, rfl⟩
  | step s1 _ rest1 labels1 X hp1 he =>
    obtain ⟨i, him, _, hid⟩ := hi
    obtain ⟨_, _, hcore⟩ := P.edgeTarget s1 (hp1.states_lt P s1 (by simp)) _ (edge_mem he)
    have := (hcore i him).1
    omega

theorem symAt_mem {G : Grammar} {p d : Nat} {X : Sym} (h : symAt G p d = some X) : X ∈ G.rhs p :=
  List.mem_of_getElem? h

/-- no edge is labelled with the end-of-input token -/
theorem no_eof_edge {G : Grammar} {A : Automaton} (P : Props G A) {s t : Nat} (hs : s < A.nstates)
    (he : A.edge s (.tok G.eof) = some t) : False := by
  obtain ⟨ht, hne, hcore⟩ := P.edgeTarget s hs _ (edge_mem he)
  cases hc : A.core t with
  | nil => exact hne hc
  | cons i is =>
    have hi : i ∈ A.core t := by rw [hc]; simp
    obtain ⟨_, hsym, _⟩ := hcore i hi
    have hip := (P.itemOk t ht i (List.mem_append_right _ hi)).1
    exact P.noEofRhs i.p hip (symAt_mem hsym)

/-! ### the invariant -/

structure Inv (G : Grammar) (A : Automaton) (w : List Nat) (c : Cfg) : Prop where
  path : Path A c.pstack (c.astack.map (Tree.root G))
  trees : Tree.validList G c.astack = true
  yields : Tree.yieldList c.astack.reverse = w.take c.laidx
  inRange : c.laidx ≤ w.length

/-- the input consists of real tokens (the lexer never produces the end-of-input id) -/
def InputOk (G : Grammar) (w : List Nat) : Prop := ∀ t ∈ w, t < G.ntoks ∧ t ≠ G.eof

theorem nextTok_lt {G : Grammar} {w : List Nat} (hw : InputOk G w) (hwf : G.wf = true) (i : Nat) :
    nextTok G w i < G.ntoks := by
  unfold nextTok
  cases h : w[i]? with
  | none => simpa using wf_eof hwf
  | some t => simpa using (hw t (List.mem_of_getElem? h)).1

theorem nextTok_eof {G : Grammar} {w : List Nat} (hw : InputOk G w) (i : Nat) :
    nextTok G w i = G.eof ↔ w.length ≤ i := by
  unfold nextTok
  constructor
  · intro h
    cases hg : w[i]? with
    | none => exact List.getElem?_eq_none_iff.mp hg
    | some t =>
      rw [hg] at h; simp at h
      exact absurd h (hw t (List.mem_of_getElem? hg)).2
  · intro h
    simp [List.getElem?_eq_none_iff.mpr h]

theorem inv_init {G : Grammar} {A : Automaton} (w : List Nat) : Inv G A w (init A) :=
  ⟨.base, rfl, by simp [init, Tree.yieldList], Nat.zero_le _⟩

theorem map_root_take_reverse (G : Grammar) (l : List Tree) (n : Nat) :
    ((l.take n).reverse).map (Tree.root G) = ((l.map (Tree.root G)).take n).reverse := by
  simp [List.map_reverse, List.map_take]

/-- **one step preserves the invariant and never crashes** -/
theorem step_inv {G : Grammar} {A : Automaton} (P : Props G A) {w : List Nat} (hw : InputOk G w)
    {c : Cfg} (hinv : Inv G A w c) :
    (∀ c', step G A w c = .cont c' → Inv G A w c') ∧
    (∀ n, step G A w c ≠ .done (.crash n)) ∧
    (∀ t, step G A w c = .done (.accept t) →
      Tree.valid G t = true ∧ (∃ S, G.rhs G.startProd = [.rule S] ∧ Tree.root G t = .rule S) ∧
        Tree.yield t = w) := by
  obtain ⟨pstack, astack, laidx⟩ := c
  obtain ⟨hpath, htrees, hyield, hrange⟩ := hinv
  simp only at hpath htrees hyield hrange
  cases hps : pstack with
  | nil => subst hps; cases hpath
  | cons st rest =>
    subst hps
    have hst : st < A.nstates := hpath.states_lt P st (by simp)
    have hla : nextTok G w laidx < G.ntoks := nextTok_lt hw P.wf laidx
    have hlen := hpath.length_eq
    simp only [List.length_cons, List.length_map] at hlen
    cases hact : A.action st (nextTok G w laidx) with
    | error =>
      simp only [step, hact]
      refine ⟨?_, ?_, ?_⟩
      · intro c' h; cases h
      · intro n h; cases h
      · intro t h; cases h
    | shift s' =>
      simp only [step, hact]
      have hedge := P.actShift st _ s' hst hla hact
      have hne : nextTok G w laidx ≠ G.eof := by
        intro h; rw [h] at hedge; exact no_eof_edge P hst hedge
      have hlt : laidx < w.length := by
        have : ¬ w.length ≤ laidx := fun h => hne ((nextTok_eof hw laidx).mpr h)
        omega
      have hget : w[laidx]? = some (nextTok G w laidx) := by
        unfold nextTok; simp [List.getElem?_eq_getElem hlt]
      refine ⟨?_, ?_, ?_⟩
      rotate_left
      · intro n h; cases h
      · intro t h; cases h
      intro c' hc'
      injection hc' with hc'; subst hc'
      refine ⟨?_, ?_, ?_, Nat.succ_le_of_lt hlt⟩
      · simpa [Tree.root] using Path.step st s' rest _ _ hpath hedge
      · simpa [Tree.validList, Tree.valid] using htrees
      · simp only [List.reverse_cons, yieldList_append, hyield, Tree.yieldList, Tree.yield,
          List.append_nil]
        rw [List.take_add_one, hget]; simp
    | accept =>
      obtain ⟨heof, hitem⟩ := P.actAccept st _ hst hla hact
      obtain ⟨S, hS⟩ := P.startShape
      obtain ⟨h1, h2, s', h3, h4⟩ := path_item P 1 st rest _ G.startProd hpath hitem
      -- the state below holds `[^ → . S]`, which can only be a kernel item: it is the stack bottom
      have hs' : s' ∈ st :: rest := List.mem_of_getElem? h3
      have hs'lt : s' < A.nstates := hpath.states_lt P s' hs'
      have hcore : HasItem (A.core s') G.startProd 0 := by
        obtain ⟨i, him, hip, hid⟩ := h4
        rcases P.justified s' hs'lt i him hid with h | ⟨j, hjm, hj⟩
        · rw [hip] at h; exact h
        · exfalso
          have hjp := (P.itemOk s' hs'lt j (List.mem_append_left _ hjm)).1
          rw [hip] at hj
          exact P.noStartRhs j.p hjp (symAt_mem hj)
      have hsub := hpath.drop 1 h1
      have hrest : (st :: rest).drop 1 = s' :: (st :: rest).drop 2 := by
        cases rest with
        | nil => simp at h3
        | cons r rs => simp at h3; subst h3; simp
      rw [hrest] at hsub
      obtain ⟨hb1, hb2, _⟩ := kernel0_bottom P hsub hcore
      -- so there is exactly one tree on the stack, rooted at the user's start rule
      have hlab1 : (astack.map (Tree.root G)).length = 1 := by
        have : ((astack.map (Tree.root G)).drop 1).length = 0 := by rw [hb2]; rfl
        simp only [List.length_drop, List.length_map] at this
        simp only [List.length_map] at h1 ⊢
        omega
      cases astack with
      | nil => simp at hlab1
      | cons T ts =>
        cases ts with
        | cons _ _ => simp at hlab1
        | nil =>
          have hroot : Tree.root G T = .rule S := by
            have := h2
            simp only [List.map_cons, List.map_nil, List.take_succ_cons, List.take_zero,
              List.reverse_cons, List.reverse_nil, List.nil_append, hS] at this
            simpa using this
          cases T with
          | leaf t i => simp [Tree.root] at hroot
          | node p kids =>
            simp only [step, hact, List.getLast?_singleton]
            refine ⟨?_, ?_, ?_⟩
            · intro c' h; cases h
            · intro n h; cases h
            intro t ht
            injection ht with ht; injection ht with ht; subst ht
            have hall : w.length ≤ laidx := (nextTok_eof hw laidx).mp heof
            refine ⟨by simpa [Tree.validList] using htrees, ⟨S, hS, hroot⟩, ?_⟩
            have := hyield
            simp only [List.reverse_cons, List.reverse_nil, List.nil_append, Tree.yieldList,
              List.append_nil] at this
            rw [this, List.take_of_length_le hall]
    | reduce p =>
      obtain ⟨hpne, hplt, hitem⟩ := P.actReduce st _ p hst hla hact
      obtain ⟨h1, h2, s', h3, h4⟩ := path_item P (G.rhs p).length st rest _ p hpath hitem
      simp only [List.length_map] at h1
      have hnotle : ¬ ((st :: rest).length ≤ (G.rhs p).length) := by simp only [List.length_cons]; omega
      have hdrop : (st :: rest).drop (G.rhs p).length = s' :: (st :: rest).drop ((G.rhs p).length + 1) := by
        rw [List.drop_eq_getElem?_toList_append, h3]; rfl
      have hs'lt : s' < A.nstates := hpath.states_lt P s' (List.mem_of_getElem? h3)
      have hsub := hpath.drop (G.rhs p).length (by simpa using h1)
      rw [hdrop] at hsub
      -- `[p → . α]` in the exposed state is a closure item: its rule has a goto
      have hgoto : ∃ t, A.edge s' (.rule (G.lhs p)) = some t := by
        obtain ⟨i, him, hip, hid⟩ := h4
        rcases P.justified s' hs'lt i him hid with h | ⟨j, hjm, hj⟩
        · exfalso
          rw [hip] at h
          obtain ⟨_, _, hst'⟩ := kernel0_bottom P hsub h
          obtain ⟨k, hkm, hkp, _⟩ := h
          rw [hst'] at hkm
          have := (P.startCore k hkm).1
          omega
        · rw [hip] at hj
          obtain ⟨t, ht, _⟩ := P.edgeExists s' hs'lt j hjm _ hj
          exact ⟨t, ht⟩
      obtain ⟨t, ht⟩ := hgoto
      have hg : A.goto s' (G.lhs p) = some t := by
        rw [P.gotoEdge s' _ hs'lt (wf_lhs P.wf hplt)]; exact ht
      have hstep : step G A w ⟨st :: rest, astack, laidx⟩ =
          .cont ⟨t :: (st :: rest).drop (G.rhs p).length,
            .node p (astack.take (G.rhs p).length).reverse :: astack.drop (G.rhs p).length, laidx⟩ := by
        simp only [step, hact, hnotle, ↓reduceIte, hdrop, hg]
      rw [hstep]
      refine ⟨?_, ?_, ?_⟩
      rotate_left
      · intro n h; cases h
      · intro t h; cases h
      intro c' hc'
      injection hc' with hc'; subst hc'
      have hkids : ((astack.take (G.rhs p).length).reverse).map (Tree.root G) = G.rhs p := by
        rw [map_root_take_reverse, h2, List.take_of_length_le (Nat.le_refl _)]
      have hvsplit := validList_take_drop G astack (G.rhs p).length
      rw [htrees] at hvsplit
      have hvs : (Tree.validList G (astack.take (G.rhs p).length) &&
          Tree.validList G (astack.drop (G.rhs p).length)) = true := hvsplit.symm
      rw [Bool.and_eq_true] at hvs
      obtain ⟨hv1, hv2⟩ := hvs
      refine ⟨?_, ?_, ?_, hrange⟩
      · have := Path.step s' t _ _ (.rule (G.lhs p)) hsub ht
        rw [hdrop]
        simpa [Tree.root, List.map_drop] using this
      · simp only [Tree.validList, Tree.valid, hplt, decide_true, hkids, beq_self_eq_true,
          validList_reverse, hv1, hv2, Bool.and_self]
      · simp only [List.reverse_cons, yieldList_append, Tree.yieldList, Tree.yield, List.append_nil]
        rw [← yieldList_append, ← List.reverse_append, List.take_append_drop]
        exact hyield

/-- when the driver accepts on a certified automaton, the tree stack holds exactly the returned tree -/
theorem accept_stack {G : Grammar} {A : Automaton} (P : Props G A) {w : List Nat} (hw : InputOk G w)
    {c : Cfg} (hinv : Inv G A w c) (t : Tree) (h : step G A w c = .done (.accept t)) : c.astack = [t] := by
  obtain ⟨pstack, astack, laidx⟩ := c
  obtain ⟨hpath, htrees, hyield, hrange⟩ := hinv
  simp only at hpath htrees hyield hrange ⊢
  cases hps : pstack with
  | nil => subst hps; cases hpath
  | cons st rest =>
    subst hps
    have hst : st < A.nstates := hpath.states_lt P st (by simp)
    have hla : nextTok G w laidx < G.ntoks := nextTok_lt hw P.wf laidx
    cases hact : A.action st (nextTok G w laidx) with
    | error => simp [step, hact] at h
    | shift s' => simp [step, hact] at h
    | reduce p =>
      simp only [step, hact] at h
      by_cases hle : (st :: rest).length ≤ (G.rhs p).length
      · rw [if_pos hle] at h; cases h
      · rw [if_neg hle] at h
        cases hd : List.drop (G.rhs p).length (st :: rest) with
        | nil => rw [hd] at h; cases h
        | cons prior tl =>
          rw [hd] at h; simp only at h
          cases hg : A.goto prior (G.lhs p) with
          | none => rw [hg] at h; cases h
          | some s' => rw [hg] at h; cases h
    | accept =>
      obtain ⟨heof, hitem⟩ := P.actAccept st _ hst hla hact
      obtain ⟨S, hS⟩ := P.startShape
      obtain ⟨h1, h2, s', h3, h4⟩ := path_item P 1 st rest _ G.startProd hpath hitem
      have hs' : s' ∈ st :: rest := List.mem_of_getElem? h3
      have hs'lt : s' < A.nstates := hpath.states_lt P s' hs'
      have hcore : HasItem (A.core s') G.startProd 0 := by
        obtain ⟨i, him, hip, hid⟩ := h4
        rcases P.justified s' hs'lt i him hid with hh | ⟨j, hjm, hj⟩
        · rw [hip] at hh; exact hh
        · exfalso
          have hjp := (P.itemOk s' hs'lt j (List.mem_append_left _ hjm)).1
          rw [hip] at hj
          exact P.noStartRhs j.p hjp (symAt_mem hj)
      have hsub := hpath.drop 1 h1
      have hrest : (st :: rest).drop 1 = s' :: (st :: rest).drop 2 := by
        cases rest with
        | nil => simp at h3
        | cons r rs => simp at h3; subst h3; simp
      rw [hrest] at hsub
      obtain ⟨hb1, hb2, _⟩ := kernel0_bottom P hsub hcore
      have hlab1 : (astack.map (Tree.root G)).length = 1 := by
        have : ((astack.map (Tree.root G)).drop 1).length = 0 := by rw [hb2]; rfl
        simp only [List.length_drop, List.length_map] at this
        simp only [List.length_map] at h1 ⊢
        omega
      cases astack with
      | nil => simp at hlab1
      | cons T ts =>
        cases ts with
        | cons _ _ => simp at hlab1
        | nil =>
          simp only [step, hact, List.getLast?_singleton] at h
          cases T with
          | leaf t0 i0 => simp at h
          | node p kids =>
            simp only at h
            injection h with h; injection h with h
            rw [h]

end GrmVerif.Cert
