import GrmVerif.Lemmas.LexScan
import GrmVerif.Lemmas.LexStack
/-! Helper lemmas for C09: one iteration of the scan loop, the loop, termination. -/
namespace GrmVerif.Lex

theorem emitFor_some {r : Rule} {ridx i len : Nat} {ev : Ev} (h : emitFor r ridx i len = some ev) :
    Emits r ridx i len ev := by
  unfold emitFor at h
  cases hn : r.name with
  | none => simp [hn] at h; exact Or.inl ⟨hn, h.symm⟩
  | some nm =>
    cases ht : r.tokId with
    | none => simp [hn, ht] at h
    | some t => simp [hn, ht] at h; exact Or.inr ⟨t, by simp [hn], ht, h.symm⟩

theorem emitFor_none {r : Rule} {ridx i len : Nat} (h : emitFor r ridx i len = none) :
    r.name.isSome = true ∧ r.tokId = none := by
  unfold emitFor at h
  cases hn : r.name with
  | none => simp [hn] at h
  | some nm =>
    cases ht : r.tokId with
    | none => simp
    | some t => simp [hn, ht] at h

theorem transition_some {cfg : Cfg} {init : St} {stk stk' : Stack} {r : Rule}
    (hok : StackOK cfg.states stk) (hne : stk ≠ []) (hi : getState cfg.states init.id = some init)
    (h : transition cfg init stk r = some stk') :
    Moves cfg init (decode stk) r (decode stk') ∧ StackOK cfg.states stk' ∧ stk' ≠ [] := by
  unfold transition at h
  cases ht : r.target with
  | none => simp [ht] at h; subst h; exact ⟨Or.inl ⟨ht, rfl⟩, hok, hne⟩
  | some p =>
    obtain ⟨tid, op⟩ := p
    cases hg : getState cfg.states tid with
    | none => simp [ht, hg] at h
    | some s =>
      simp [ht, hg] at h
      obtain ⟨stk2, h1, h2, h3, h4⟩ := applyOp_refines cfg.states init stk s op hok hne (getState_id hg) hi
      rw [h1] at h; injection h with h; subst h
      exact ⟨Or.inr ⟨tid, op, s, ht, hg, h2⟩, h3, h4⟩

theorem transition_none {cfg : Cfg} {init : St} {stk : Stack} {r : Rule}
    (hok : StackOK cfg.states stk) (hne : stk ≠ []) (hi : getState cfg.states init.id = some init)
    (h : transition cfg init stk r = none) :
    ∃ tid op, r.target = some (tid, op) ∧ getState cfg.states tid = none := by
  unfold transition at h
  cases ht : r.target with
  | none => simp [ht] at h
  | some p =>
    obtain ⟨tid, op⟩ := p
    cases hg : getState cfg.states tid with
    | none => exact ⟨tid, op, rfl, hg⟩
    | some s =>
      simp [ht, hg] at h
      obtain ⟨stk2, h1, _⟩ := applyOp_refines cfg.states init stk s op hok hne (getState_id hg) hi
      rw [h1] at h; cases h

/-- a continuing iteration makes progress -/
theorem step_cont_progress {cfg : Cfg} {ml : Nat → Nat → Option Nat} {init : St} {i i' : Nat}
    {stk stk' : Stack} {ev : Ev} (h : step cfg ml init i stk = .cont ev i' stk') : i < i' := by
  unfold step at h
  cases stk with
  | nil => simp at h
  | cons e rest =>
    simp only at h
    split at h
    · rename_i hpos
      unfold fire at h
      split at h
      · cases h
      · split at h
        · cases h
        · split at h
          · cases h
          · injection h with _ h2 _; omega
    · cases h

/-- with fuel at least the number of remaining bytes the loop never runs out of fuel -/
theorem lexLoop_isSome (cfg : Cfg) (ml : Nat → Nat → Option Nat) (n : Nat) (init : St) :
    ∀ (fuel i : Nat) (stk : Stack), n - i ≤ fuel → (lexLoop cfg ml n init fuel i stk).isSome = true := by
  intro fuel
  induction fuel with
  | zero => intro i stk h; simp [lexLoop]; omega
  | succ f ih =>
    intro i stk h
    unfold lexLoop
    by_cases hin : i < n
    · simp only [hin, if_true]
      cases hs : step cfg ml init i stk with
      | stop evs => simp
      | cont ev i' stk' =>
        have := step_cont_progress hs
        have h2 := ih i' stk' (by omega)
        simp only
        cases hl : lexLoop cfg ml n init f i' stk' with
        | none => rw [hl] at h2; cases h2
        | some p => simp
    · simp [hin]

/-- the events of the loop satisfy the declarative run relation, on the decoded stack -/
theorem lexLoop_tiles (cfg : Cfg) (ml : Nat → Nat → Option Nat) (n : Nat) (init : St)
    (hi : getState cfg.states init.id = some init) :
    ∀ (fuel i : Nat) (stk : Stack) (evs : List Ev) (fin : Stack),
      StackOK cfg.states stk → stk ≠ [] → lexLoop cfg ml n init fuel i stk = some (evs, fin) →
      Tiles cfg ml n init i (decode stk) evs ∧ StackOK cfg.states fin ∧ fin ≠ [] := by
  intro fuel
  induction fuel with
  | zero =>
    intro i stk evs fin hok hne h
    unfold lexLoop at h
    by_cases hin : i < n
    · simp [hin] at h
    · simp [hin] at h; obtain ⟨rfl, rfl⟩ := h; exact ⟨Tiles.done (by omega), hok, hne⟩
  | succ f ih =>
    intro i stk evs fin hok hne h
    unfold lexLoop at h
    by_cases hin : i < n
    · simp only [hin, if_true] at h
      cases stk with
      | nil => exact absurd rfl hne
      | cons e rest =>
        obtain ⟨c, cur⟩ := e
        rw [decode_cons_ok hok]
        have hsc := scan_spec cfg ml cur i
        unfold step at h
        simp only at h
        by_cases hpos : (scanRules cur (fun r => ml r i) cfg.rules 0 (0, 0)).1 > 0
        · have hle := hsc.1 hpos
          simp only [hpos, if_true] at h
          obtain ⟨r, hr, _⟩ := hle.rule
          unfold fire at h
          simp only [hr] at h
          cases he : emitFor r (scanRules cur (fun r => ml r i) cfg.rules 0 (0, 0)).2 i
              (scanRules cur (fun r => ml r i) cfg.rules 0 (0, 0)).1 with
          | none =>
            simp only [he] at h
            injection h with h; injection h with h1 h2; subst h1; subst h2
            obtain ⟨hn, ht⟩ := emitFor_none he
            exact ⟨Tiles.unset hin hle hr hn ht, hok, hne⟩
          | some ev =>
            simp only [he] at h
            have hem := emitFor_some he
            cases htr : transition cfg init ((c, cur) :: rest) r with
            | none =>
              simp only [htr] at h
              injection h with h; injection h with h1 h2; subst h1; subst h2
              obtain ⟨tid, op, ht, hg⟩ := transition_none hok hne hi htr
              exact ⟨Tiles.badTarget hin hle hr hem ht hg, hok, hne⟩
            | some stk' =>
              simp only [htr] at h
              obtain ⟨hmv, hok', hne'⟩ := transition_some hok hne hi htr
              cases hl : lexLoop cfg ml n init f
                  (i + (scanRules cur (fun r => ml r i) cfg.rules 0 (0, 0)).1) stk' with
              | none => simp [hl] at h
              | some p =>
                obtain ⟨evs', fin'⟩ := p
                simp only [hl] at h
                injection h with h; injection h with h1 h2; subst h1; subst h2
                obtain ⟨t1, t2, t3⟩ := ih _ stk' evs' fin' hok' hne' hl
                rw [decode_cons_ok hok] at hmv
                exact ⟨Tiles.step hin hle hr hem hmv t1, t2, t3⟩
        · have h0 : (scanRules cur (fun r => ml r i) cfg.rules 0 (0, 0)).1 = 0 := by omega
          simp only [hpos, if_false] at h
          injection h with h; injection h with h1 h2; subst h1; subst h2
          exact ⟨Tiles.stuck hin (hsc.2 h0), hok, hne⟩
    · simp [hin] at h; obtain ⟨rfl, rfl⟩ := h; exact ⟨Tiles.done (by omega), hok, hne⟩

end GrmVerif.Lex
