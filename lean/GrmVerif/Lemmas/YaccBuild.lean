import GrmVerif.Model.YaccBuild
/-!
Specification definitions and helper lemmas for `Model/YaccBuild.lean` (C10, stage A).
-/
namespace GrmVerif.YaccBuild
open GrmVerif

/-! ### fresh names: the fuel of `freshLoop` is never exhausted -/

theorem mem_le_maxLen {names : List Str} {n : Str} (h : n ∈ names) : n.length ≤ maxLen names := by
  induction names with
  | nil => cases h
  | cons x xs ih =>
    simp only [maxLen]
    rcases List.mem_cons.mp h with rfl | h
    · omega
    · have := ih h; omega

theorem freshLoop_not_mem (names : List Str) (unit : Str) (hu : unit ≠ []) :
    ∀ (fuel : Nat) (cand : Str), maxLen names < fuel + cand.length → freshLoop names unit fuel cand ∉ names := by
  intro fuel
  induction fuel with
  | zero =>
    intro cand h hm
    have := mem_le_maxLen hm
    simp only [freshLoop] at this
    omega
  | succ f ih =>
    intro cand h
    simp only [freshLoop]
    by_cases hc : names.contains cand = true
    · rw [if_pos hc]
      apply ih
      have : 0 < unit.length := List.length_pos_iff.mpr hu
      simp only [List.length_append]; omega
    · rw [if_neg hc]
      intro hm
      exact hc (List.contains_iff_mem.mpr hm)

/-- **the added rule's name is not the name of a user rule**, whatever the rules are called -/
theorem fresh_not_mem (names : List Str) (unit : Str) (hu : unit ≠ []) : fresh names unit ∉ names := by
  apply freshLoop_not_mem names unit hu
  omega

/-- every character of a fresh name comes from the unit: `^`, `^^`, … -/
theorem freshLoop_mem (names : List Str) (unit : Str) :
    ∀ (fuel : Nat) (cand : Str) (c : Nat), c ∈ freshLoop names unit fuel cand → c ∈ cand ∨ c ∈ unit := by
  intro fuel
  induction fuel with
  | zero => intro cand c h; exact Or.inl h
  | succ f ih =>
    intro cand c h
    simp only [freshLoop] at h
    split at h
    · rcases ih _ _ h with h | h
      · rcases List.mem_append.mp h with h | h
        · exact Or.inl h
        · exact Or.inr h
      · exact Or.inr h
    · exact Or.inl h

theorem fresh_mem (names : List Str) (unit : Str) (c : Nat) (h : c ∈ fresh names unit) : c ∈ unit := by
  rcases freshLoop_mem names unit _ _ c h with h | h <;> exact h

/-- a fresh name starts with the unit -/
theorem freshLoop_prefix (names : List Str) (unit : Str) :
    ∀ (fuel : Nat) (cand : Str), ∃ t, freshLoop names unit fuel cand = cand ++ t := by
  intro fuel
  induction fuel with
  | zero => intro cand; exact ⟨[], by simp [freshLoop]⟩
  | succ f ih =>
    intro cand
    simp only [freshLoop]
    split
    · obtain ⟨t, ht⟩ := ih (cand ++ unit)
      exact ⟨unit ++ t, by rw [ht, List.append_assoc]⟩
    · exact ⟨[], by simp⟩

theorem fresh_prefix (names : List Str) (unit : Str) : ∃ t, fresh names unit = unit ++ t :=
  freshLoop_prefix names unit _ unit

/-! ### name → index maps -/

theorem lastIdxFrom_spec (n : Str) : ∀ (l : List Str) (i j : Nat),
    lastIdxFrom n l i = some j → i ≤ j ∧ j < i + l.length ∧ l[j - i]? = some n := by
  intro l
  induction l with
  | nil => intro i j h; simp [lastIdxFrom] at h
  | cons x xs ih =>
    intro i j h
    simp only [lastIdxFrom] at h
    cases hr : lastIdxFrom n xs (i + 1) with
    | some j' =>
      rw [hr] at h
      simp only [Option.some.injEq] at h
      subst h
      obtain ⟨h1, h2, h3⟩ := ih _ _ hr
      refine ⟨by omega, by simp only [List.length_cons]; omega, ?_⟩
      have : j' - i = (j' - (i + 1)) + 1 := by omega
      rw [this, List.getElem?_cons_succ]; exact h3
    | none =>
      rw [hr] at h
      simp only at h
      split at h
      · simp only [Option.some.injEq] at h
        subst h
        subst_vars
        refine ⟨Nat.le_refl _, by simp only [List.length_cons]; omega, by simp⟩
      · cases h

theorem lastIdx_lt {names : List Str} {n : Str} {j : Nat} (h : lastIdx names n = some j) :
    j < names.length ∧ names[j]? = some n := by
  have := lastIdxFrom_spec n names 0 j h
  simpa using this.2

theorem lastIdxFrom_none (n : Str) : ∀ (l : List Str) (i : Nat), lastIdxFrom n l i = none → n ∉ l := by
  intro l
  induction l with
  | nil => intro i _ h; cases h
  | cons x xs ih =>
    intro i h
    simp only [lastIdxFrom] at h
    cases hr : lastIdxFrom n xs (i + 1) with
    | some j' => rw [hr] at h; cases h
    | none =>
      rw [hr] at h
      simp only at h
      split at h
      · cases h
      · intro hm
        rcases List.mem_cons.mp hm with rfl | hm
        · contradiction
        · exact ih _ hr hm

/-- a name that occurs is found -/
theorem lastIdx_of_mem {names : List Str} {n : Str} (h : n ∈ names) : ∃ j, lastIdx names n = some j := by
  cases hr : lastIdx names n with
  | some j => exact ⟨j, rfl⟩
  | none => exact absurd h (lastIdxFrom_none n names 0 hr)

/-! ### one production: specifications of `resolveSyms`, `firstTokPrec`, `prodPrec` -/

def ASym.isTok : ASym → Bool
  | .tok _ _ => true
  | .rule _ _ => false

def ASym.name : ASym → Str
  | .tok n _ => n
  | .rule n _ => n

/-- the LAST token symbol of a production -/
def lastTok : List ASym → Option Str
  | [] => none
  | s :: rest =>
    match lastTok rest with
    | some n => some n
    | none => if s.isTok then some s.name else none

theorem firstTokPrec_append_rule (precs : List (Str × Prec)) (l : List ASym) (n : Str) (sp : Span) (rest : List ASym) :
    firstTokPrec precs (l ++ .rule n sp :: rest) =
      (match firstTokPrec precs l, l.any ASym.isTok with
       | _, true => firstTokPrec precs l
       | _, false => firstTokPrec precs rest) := by
  induction l with
  | nil => simp [firstTokPrec]
  | cons x xs ih =>
    cases x with
    | rule m s => simp only [List.cons_append, firstTokPrec, List.any_cons, ASym.isTok, Bool.false_or]; exact ih
    | tok m s => simp [firstTokPrec, ASym.isTok]

/-- **`firstTokPrec` on the reversed symbols = the declared precedence of the last token symbol**
(`none` when there is no token or that token has no precedence — earlier tokens are NOT consulted) -/
theorem firstTokPrec_reverse (precs : List (Str × Prec)) (syms : List ASym) :
    firstTokPrec precs syms.reverse = (lastTok syms).bind (assoc precs) := by
  induction syms with
  | nil => simp [firstTokPrec, lastTok]
  | cons s rest ih =>
    simp only [List.reverse_cons, lastTok]
    -- reverse rest ++ [s]
    have key : ∀ (l : List ASym), firstTokPrec precs (l ++ [s]) =
        (match firstTokPrec precs l, l.any ASym.isTok with
         | _, true => firstTokPrec precs l
         | _, false => firstTokPrec precs [s]) := by
      intro l
      induction l with
      | nil => simp
      | cons x xs ihx =>
        cases x with
        | rule m sp => simp only [List.cons_append, firstTokPrec, List.any_cons, ASym.isTok, Bool.false_or]; exact ihx
        | tok m sp => simp [firstTokPrec, ASym.isTok]
    rw [key, ih]
    -- whether `rest` has a token decides
    have hany : ∀ (l : List ASym), (l.any ASym.isTok = true ↔ (lastTok l).isSome = true) := by
      intro l
      induction l with
      | nil => simp [lastTok]
      | cons x xs ihx =>
        simp only [List.any_cons, lastTok, Bool.or_eq_true]
        cases hlt : lastTok xs with
        | some n => simp [hlt] at ihx; simp [ihx]
        | none =>
          simp [hlt] at ihx
          cases hx : x.isTok
          · simp [hx]; exact ihx
          · simp [hx]
    have hrev : (rest.reverse.any ASym.isTok) = rest.any ASym.isTok := by simp
    rw [hrev]
    cases hlt : lastTok rest with
    | some n =>
      have : rest.any ASym.isTok = true := (hany rest).mpr (by simp [hlt])
      simp [this]
    | none =>
      have : rest.any ASym.isTok = false := by
        cases h : rest.any ASym.isTok
        · rfl
        · have := (hany rest).mp h; simp [hlt] at this
      simp only [this]
      cases s with
      | tok m sp => simp [firstTokPrec, ASym.isTok, ASym.name]
      | rule m sp => simp [firstTokPrec, ASym.isTok]

/-- the image of one symbol of the source: its index under the rule / token map; after a token the
implicit rule, if there is one -/
def symImage (rmap tmap : Str → Option Nat) (impl : Option Nat) : ASym → Option (List Sym)
  | ASym.rule n _ => (rmap n).map (fun r => [Sym.rule r])
  | ASym.tok n _ => (tmap n).map (fun t => match impl with
      | none => [Sym.tok t]
      | some r => [Sym.tok t, Sym.rule r])

/-- declarative reading of `resolveSyms`: the concatenation of the images of the symbols, in order -/
def resolveSpec (rmap tmap : Str → Option Nat) (impl : Option Nat) (syms : List ASym) : Option (List Sym) :=
  (syms.mapM (symImage rmap tmap impl)).map List.flatten

/-! ### the main loop: a generic invariant rule -/

theorem mainLoop_inv (c : Ctx) (P : St → Prop)
    (hstep : ∀ st n st', P st → stepRule c st n = some st' → P st') :
    ∀ (ns : List Str) (st st' : St), P st → mainLoop c ns st = some st' → P st' := by
  intro ns
  induction ns with
  | nil => intro st st' hp h; simp only [mainLoop, Option.some.injEq] at h; subst h; exact hp
  | cons n ns ih =>
    intro st st' hp h
    simp only [mainLoop] at h
    cases hs : stepRule c st n with
    | none => rw [hs] at h; cases h
    | some st1 => rw [hs] at h; exact ih st1 st' (hstep st n st1 hp hs) h

theorem unwrapAll_spec {α : Type} : ∀ (l : List (Option α)) (r : List α), unwrapAll l = some r → l = r.map some := by
  intro l
  induction l with
  | nil => intro r h; simp only [unwrapAll, Option.some.injEq] at h; subst h; rfl
  | cons x xs ih =>
    intro r h
    cases x with
    | none => simp [unwrapAll] at h
    | some v =>
      simp only [unwrapAll, Option.map_eq_some_iff] at h
      obtain ⟨r', hr', rfl⟩ := h
      rw [ih r' hr']; rfl

end GrmVerif.YaccBuild

namespace GrmVerif.YaccBuild
open GrmVerif

/-- the initial state of the main loop -/
def st0 (cfg : Cfg) (a : AST) (k : Kind) : St :=
  { slots := List.replicate a.prods.length none,
    rulesProds := List.replicate (ruleNamesOf cfg a k).length [],
    actiontypes := List.replicate (ruleNamesOf cfg a k).length none }

/-- what a successful `buildGrammar` returns, field by field -/
theorem build_fields {cfg : Cfg} {a : AST} {k : Kind} {g : IGrammar} (h : buildGrammar cfg a k = some g) :
    ∃ userStart sp st,
      a.start = some (userStart, sp) ∧
      mainLoop (mkCtx cfg a k userStart) ((ruleNamesOf cfg a k).map (·.1)) (st0 cfg a k) = some st ∧
      unwrapAll st.slots = some g.recs ∧
      ((mkCtx cfg a k userStart).rmap (mkCtx cfg a k userStart).startName).bind
        (fun r => st.rulesProds[r]?.bind (·[0]?)) = some g.startProd ∧
      g.ruleNames = ruleNamesOf cfg a k ∧
      g.tokenNames = a.tokens.map (fun t => some (t.2, t.1)) ++ [none] ∧
      g.tokenPrecs = (a.tokens.map (·.1)).map (fun t => assoc a.precs t) ++ [none] ∧
      g.tokenEpp = (a.tokens.map (·.1)).map (fun t => some ((assoc a.epp t).getD t)) ++ [none] ∧
      g.eof = a.tokens.length ∧
      g.rulesProds = st.rulesProds ∧ g.actiontypes = st.actiontypes ∧
      g.implicitRule = (mkCtx cfg a k userStart).implName.bind (mkCtx cfg a k userStart).rmap ∧
      g.expect = a.expect ∧ g.expectrr = a.expectrr ∧
      (match a.avoidInsert with
       | none => g.avoidInsert = none
       | some l => ∃ v, avoidBits (mkCtx cfg a k userStart).tmap l (List.replicate (a.tokens.length + 1) false) = some v ∧
                    g.avoidInsert = some v) := by
  unfold buildGrammar at h
  cases hs : a.start with
  | none => rw [hs] at h; cases h
  | some p =>
    obtain ⟨userStart, sp⟩ := p
    rw [hs] at h
    simp only at h
    refine ⟨userStart, sp, ?_⟩
    cases hm : mainLoop (mkCtx cfg a k userStart) ((ruleNamesOf cfg a k).map (·.1)) (st0 cfg a k) with
    | none => simp only [st0] at hm; rw [hm] at h; cases h
    | some st =>
      have hm' := hm
      simp only [st0] at hm'
      rw [hm'] at h
      simp only at h
      cases hu : unwrapAll st.slots with
      | none => rw [hu] at h; cases h
      | some recs =>
        rw [hu] at h
        cases hsp : ((mkCtx cfg a k userStart).rmap (mkCtx cfg a k userStart).startName).bind
            (fun r => st.rulesProds[r]?.bind (·[0]?)) with
        | none => rw [hsp] at h; cases h
        | some spi =>
          rw [hsp] at h
          simp only at h
          cases hai : a.avoidInsert with
          | none =>
            rw [hai] at h
            simp only [Option.some.injEq] at h
            subst h
            exact ⟨st, rfl, rfl, hu, hsp, rfl, rfl, rfl, rfl, rfl, rfl, rfl, rfl, rfl, rfl, rfl⟩
          | some l =>
            rw [hai] at h
            simp only [List.length_append, List.length_map, List.length_cons, List.length_nil] at h
            cases hv : avoidBits (mkCtx cfg a k userStart).tmap l (List.replicate (a.tokens.length + 0 + 1) false) with
            | none => rw [hv] at h; cases h
            | some v =>
              rw [hv] at h
              simp only [Option.map_some, Option.some.injEq] at h
              subst h
              exact ⟨st, rfl, rfl, hu, hsp, rfl, rfl, rfl, rfl, rfl, rfl, rfl, rfl, rfl, rfl, v, by simpa using hv, rfl⟩

end GrmVerif.YaccBuild
