import GrmVerif.Lemmas.MinSentencesImpl
import GrmVerif.Lemmas.MinSentenceTerm
/-! On which grammars `min_sentences` (plural) returns: exactly those in which following ANY cheapest
production of each rule never revisits a rule (`tightInfAll = false`). -/
namespace GrmVerif.Impl
open GrmVerif Spec Ref

/-- production `p` is one of the productions `cheapest_prods` returns for its rule -/
def inCheapest (G : Grammar) (tc : List Nat) (mc : Option (List Nat)) (p : Nat) : Bool :=
  ((cheapestProds G tc mc (G.lhs p)).getD []).contains p

/-- the grammar in which every rule keeps exactly the productions `cheapest_prods` returns for it (the
other productions become empty) -/
def allTightG (G : Grammar) (tc : List Nat) (mc : Option (List Nat)) : Grammar :=
  { G with prods := (List.range G.nprods).map (fun p =>
      (G.lhs p, if inCheapest G tc mc p then G.rhs p else [])) }

/-- **`min_sentences(r)` follows a cycle**: in the graph that joins every rule to the rules of ALL the
productions `cheapest_prods` returns for it, `r` is or reaches a rule that reaches itself (decided with the
verified reference reachability on `allTightG`) -/
def tightInfAll (G : Grammar) (tc : List Nat) (mc : Option (List Nat)) (r : Nat) : Bool :=
  isCyc (allTightG G tc mc) r ||
  (List.range G.nrules).any (fun q => reachB (allTightG G tc mc) r q && isCyc (allTightG G tc mc) q)

section
variable (G : Grammar) (tc : List Nat) (mc : Option (List Nat))

theorem allTightG_nprods : (allTightG G tc mc).nprods = G.nprods := by
  simp [allTightG, Grammar.nprods]

theorem allTightG_nrules : (allTightG G tc mc).nrules = G.nrules := rfl

theorem allTightG_get (p : Nat) (hp : p < G.nprods) :
    (allTightG G tc mc).prods[p]? = some (G.lhs p, if inCheapest G tc mc p then G.rhs p else []) := by
  simp [allTightG, hp]

theorem allTightG_lhs (p : Nat) : (allTightG G tc mc).lhs p = G.lhs p := by
  by_cases hp : p < G.nprods
  · simp [Grammar.lhs, allTightG_get G tc mc p hp]
  · have h1 : (allTightG G tc mc).prods[p]? = none := by
      apply List.getElem?_eq_none
      have := allTightG_nprods G tc mc
      simp only [Grammar.nprods] at this
      rw [this]; exact Nat.le_of_not_lt hp
    have h2 : G.prods[p]? = none := List.getElem?_eq_none (Nat.le_of_not_lt hp)
    simp [Grammar.lhs, h1, h2]

theorem allTightG_rhs (p : Nat) :
    (allTightG G tc mc).rhs p = if p < G.nprods ∧ inCheapest G tc mc p = true then G.rhs p else [] := by
  by_cases hp : p < G.nprods
  · simp only [Grammar.rhs, allTightG_get G tc mc p hp, Option.map_some, Option.getD_some, hp, true_and]
  · have h1 : (allTightG G tc mc).prods[p]? = none := by
      apply List.getElem?_eq_none
      have := allTightG_nprods G tc mc
      simp only [Grammar.nprods] at this
      rw [this]; exact Nat.le_of_not_lt hp
    simp [Grammar.rhs, h1, hp]

theorem allTightG_wf (hwf : G.wf = true) : (allTightG G tc mc).wf = true := by
  have h0 := hwf
  simp only [Grammar.wf, Bool.and_eq_true, decide_eq_true_eq] at h0
  simp only [Grammar.wf, Bool.and_eq_true, decide_eq_true_eq, allTightG_nprods]
  refine ⟨⟨?_, h0.1.2⟩, h0.2⟩
  simp only [allTightG, List.all_eq_true, List.mem_map, List.mem_range]
  rintro ⟨l, rs⟩ ⟨p, hp, e⟩
  simp only [Prod.mk.injEq] at e
  obtain ⟨e1, e2⟩ := e
  subst e1 e2
  simp only [Bool.and_eq_true, List.all_eq_true]
  refine ⟨decide_eq_true (wf_lhs hwf hp), ?_⟩
  intro s hs
  split at hs
  · exact wf_sym hwf hp hs
  · cases hs

/-- an edge of `allTightG`: `q'` occurs in one of the productions `cheapest_prods` returns for `q` -/
theorem succ_allTightG (q q' : Nat) :
    Succ (allTightG G tc mc) q q' ↔
      ∃ p, p < G.nprods ∧ G.lhs p = q ∧ inCheapest G tc mc p = true ∧ Sym.rule q' ∈ G.rhs p := by
  unfold Succ
  simp only [allTightG_nprods, allTightG_lhs, allTightG_rhs]
  constructor
  · rintro ⟨p, hp, hl, hm⟩
    split at hm
    · next h => exact ⟨p, hp, hl, h.2, hm⟩
    · cases hm
  · rintro ⟨p, hp, hl, hc, hm⟩
    refine ⟨p, hp, hl, ?_⟩
    rw [if_pos ⟨hp, hc⟩]
    exact hm

theorem inCheapest_iff {q p : Nat} {ps : List Nat} (hl : G.lhs p = q) (hps : cheapestProds G tc mc q = some ps) :
    inCheapest G tc mc p = true ↔ p ∈ ps := by
  unfold inCheapest
  rw [hl, hps]
  simp

theorem tightInfAll_iff (hwf : G.wf = true) (r : Nat) :
    tightInfAll G tc mc r = true ↔ Inf (allTightG G tc mc) r := by
  have hwf' := allTightG_wf G tc mc hwf
  simp only [tightInfAll, Bool.or_eq_true, List.any_eq_true, List.mem_range, Bool.and_eq_true, Inf]
  rw [isCyc_iff _ hwf']
  constructor
  · rintro (h | ⟨q, _, h1, h2⟩)
    · exact Or.inl h
    · exact Or.inr ⟨q, (reachB_iff _ hwf' r q).mp h1, (isCyc_iff _ hwf' q).mp h2⟩
  · rintro (h | ⟨q, h1, h2⟩)
    · exact Or.inl h
    · exact Or.inr ⟨q, reach_lt hwf' h1, (reachB_iff _ hwf' r q).mpr h1, (isCyc_iff _ hwf' q).mpr h2⟩

/-! ### divergence -/

/-- a call that returns has made, one level deeper, a returning call for every rule of every cheapest
production -/
theorem msw_sub {f q : Nat} {L : List (List Nat)} (h : minSentencesWith G tc mc (f + 1) q = .done L)
    {q' : Nat} (hs : Succ (allTightG G tc mc) q q') : ∃ L', minSentencesWith G tc mc f q' = .done L' := by
  obtain ⟨p, _, hl, hc, hm⟩ := (succ_allTightG G tc mc q q').mp hs
  simp only [minSentencesWith] at h
  cases hps : cheapestProds G tc mc q with
  | none => rw [hps] at h; cases h
  | some ps =>
    rw [hps] at h
    simp only [] at h
    exact iterO_mssProd_inv G _ _ _ _ h p ((inCheapest_iff G tc mc hl hps).mp hc) q' hm

theorem msw_along {a b : Nat} (h : Reach (allTightG G tc mc) a b) :
    ∀ f L, minSentencesWith G tc mc f a = .done L →
      ∃ f' L', f' < f ∧ minSentencesWith G tc mc f' b = .done L' := by
  have edge : ∀ x y, Succ (allTightG G tc mc) x y → ∀ f L, minSentencesWith G tc mc f x = .done L →
      ∃ f' L', f' < f ∧ minSentencesWith G tc mc f' y = .done L' := by
    intro x y hs f L hd
    cases f with
    | zero => simp [minSentencesWith] at hd
    | succ f =>
      obtain ⟨L', hL'⟩ := msw_sub G tc mc hd hs
      exact ⟨f, L', by omega, hL'⟩
  induction h with
  | edge p B hp hm => exact edge _ B ⟨p, hp, rfl, hm⟩
  | step A' p B _ hp hm ih =>
    intro f L hd
    obtain ⟨f1, L1, hlt1, h1⟩ := ih f L hd
    obtain ⟨f2, L2, hlt2, h2⟩ := edge _ B ⟨p, hp, rfl, hm⟩ f1 L1 h1
    exact ⟨f2, L2, by omega, h2⟩

theorem msw_no_done_on_cycle {x : Nat} (h : Cyc (allTightG G tc mc) x) :
    ∀ f L, minSentencesWith G tc mc f x ≠ .done L := by
  intro f
  induction f using Nat.strongRecOn with
  | _ f ih =>
    intro L hd
    obtain ⟨f', L', hlt, h'⟩ := msw_along G tc mc h f L hd
    exact ih f' hlt L' h'

/-- **`min_sentences` does not return** when it follows a cycle, whatever the depth allowed -/
theorem minSentencesWith_diverges {r : Nat} (h : Inf (allTightG G tc mc) r) (fuel : Nat) (L : List (List Nat)) :
    minSentencesWith G tc mc fuel r ≠ .done L := by
  intro hd
  rcases h with hc | ⟨q, hq, hc⟩
  · exact msw_no_done_on_cycle G tc mc hc fuel L hd
  · obtain ⟨f', L', _, h'⟩ := msw_along G tc mc hq fuel L hd
    exact msw_no_done_on_cycle G tc mc hc f' L' h'

/-! ### a deeper recursion changes nothing -/

theorem msGather_congr {rec rec' : Nat → Outcome (List (List Nat))}
    (hrr : ∀ q L, rec q = .done L → rec' q = .done L) :
    ∀ (l : List Sym) (acc ms : List (List (List Nat))), msGather rec l acc = .done ms →
      msGather rec' l acc = .done ms := by
  intro l
  induction l with
  | nil => intro acc ms h; simpa [msGather] using h
  | cons s rest ih =>
    intro acc ms h
    cases s with
    | tok t => simp only [msGather] at h ⊢; exact ih _ _ h
    | rule q =>
      simp only [msGather] at h ⊢
      cases hr : rec q with
      | panic => rw [hr] at h; cases h
      | fuelOut => rw [hr] at h; cases h
      | done L =>
        rw [hr] at h
        rw [hrr q L hr]
        exact ih _ _ h

theorem mssProd_congr {rec rec' : Nat → Outcome (List (List Nat))}
    (hrr : ∀ q L, rec q = .done L → rec' q = .done L) (sts L : List (List Nat)) (p : Nat)
    (h : mssProd G rec sts p = .done L) : mssProd G rec' sts p = .done L := by
  unfold mssProd at h ⊢
  simp only [] at h ⊢
  split
  · next he => rw [if_pos he] at h; exact h
  · next he =>
    rw [if_neg he] at h
    cases hg : msGather rec (G.rhs p) [] with
    | panic => rw [hg] at h; cases h
    | fuelOut => rw [hg] at h; cases h
    | done ms =>
      rw [hg] at h
      rw [msGather_congr hrr _ _ _ hg]
      exact h

theorem iterO_mssProd_congr {rec rec' : Nat → Outcome (List (List Nat))}
    (hrr : ∀ q L, rec q = .done L → rec' q = .done L) :
    ∀ (ps : List Nat) (sts L : List (List Nat)), iterO (mssProd G rec) ps sts = .done L →
      iterO (mssProd G rec') ps sts = .done L := by
  intro ps
  induction ps with
  | nil => intro sts L h; simpa [iterO] using h
  | cons p ps ih =>
    intro sts L h
    simp only [iterO] at h ⊢
    cases hm : mssProd G rec sts p with
    | panic => rw [hm] at h; cases h
    | fuelOut => rw [hm] at h; cases h
    | done s' =>
      rw [hm] at h
      rw [mssProd_congr G hrr sts s' p hm]
      exact ih _ _ h

theorem msw_mono_succ : ∀ (f r : Nat) (L : List (List Nat)), minSentencesWith G tc mc f r = .done L →
    minSentencesWith G tc mc (f + 1) r = .done L := by
  intro f
  induction f with
  | zero => intro r L h; simp [minSentencesWith] at h
  | succ n ih =>
    intro r L h
    rw [minSentencesWith] at h ⊢
    cases hps : cheapestProds G tc mc r with
    | none => rw [hps] at h; cases h
    | some ps =>
      rw [hps] at h
      simp only [] at h ⊢
      exact iterO_mssProd_congr G (fun q L' hq => ih q L' hq) ps [] L h

theorem msw_mono {f f' r : Nat} {L : List (List Nat)} (h : minSentencesWith G tc mc f r = .done L)
    (hle : f ≤ f') : minSentencesWith G tc mc f' r = .done L := by
  induction hle with
  | refl => exact h
  | step _ ih => exact msw_mono_succ G tc mc _ r L ih

end

/-! ### termination -/

/-- **`min_sentences` returns** when it follows no cycle: a recursion depth above the number of rules
reachable through cheapest productions suffices -/
theorem msw_terminates_rank (G : Grammar) (hwf : G.wf = true) (tc : List Nat) (m : List (Option Nat))
    (htc : tc.length = G.ntoks) (hmt : MinTable G (tcF tc) m) :
    ∀ (fuel r x : Nat), r < G.nrules → look m r = some x → x < U16MAX →
      ¬ Inf (allTightG G tc (some (concr m))) r → rho (allTightG G tc (some (concr m))) r < fuel →
      ∃ L, minSentencesWith G tc (some (concr m)) fuel r = .done L := by
  have hwf' := allTightG_wf G tc (some (concr m)) hwf
  intro fuel
  induction fuel with
  | zero => intro r x _ _ _ _ h; omega
  | succ n ih =>
    intro r x hr hx hlt hni hrho
    have hps := cheapestProds_spec G hwf tc m htc hmt hr hx hlt
    simp only [minSentencesWith, hps]
    have := iterO_mssProd_done G (minSentencesWith G tc (some (concr m)) n) (cheapSet G tc m r x) []
      (fun p hp q hq => by
        obtain ⟨hp1, hp2, _, hall⟩ := cheap_rules G hwf tc m hp hlt
        obtain ⟨hq1, x', hx', hlt'⟩ := hall q hq
        have hsucc : Succ (allTightG G tc (some (concr m))) r q :=
          (succ_allTightG G tc (some (concr m)) r q).mpr
            ⟨p, hp1, hp2, (inCheapest_iff G tc _ hp2 hps).mpr hp, hq⟩
        have hni' : ¬ Inf (allTightG G tc (some (concr m))) q := fun h => hni (inf_of_succ hsucc h)
        have hr' := rho_lt _ hwf' hsucc (fun hc => hni' (Or.inl hc))
        obtain ⟨L', hL'⟩ := ih q x' hq1 hx' hlt' hni' (by omega)
        have hs := minSentencesWith_sound G hwf tc m htc hmt n q x' hq1 hx' hlt'
        rw [hL'] at hs
        exact ⟨L', hL', hs.1⟩)
    exact ⟨_, this⟩

/-- … within the depth `minSentencesFuel`, and with the same answer for every larger depth -/
theorem minSentencesWith_terminates (G : Grammar) (hwf : G.wf = true) (tc : List Nat) (m : List (Option Nat))
    (htc : tc.length = G.ntoks) (hmt : MinTable G (tcF tc) m) {r x : Nat} (hr : r < G.nrules)
    (hx : look m r = some x) (hlt : x < U16MAX) (hni : ¬ Inf (allTightG G tc (some (concr m))) r) :
    ∃ L, ∀ fuel, minSentencesFuel G ≤ fuel → minSentencesWith G tc (some (concr m)) fuel r = .done L := by
  have hrho : rho (allTightG G tc (some (concr m))) r ≤ G.nrules := by
    have := List.length_filter_le (reachB (allTightG G tc (some (concr m))) r) (List.range G.nrules)
    simpa [rho, allTightG_nrules] using this
  obtain ⟨L, hL⟩ := msw_terminates_rank G hwf tc m htc hmt (G.nrules + 1) r x hr hx hlt hni (by omega)
  exact ⟨L, fun fuel hf => msw_mono G tc _ hL hf⟩

/-- under the hypotheses of the theorems below `min_sentences` is the recursion on the cached cost vector -/
theorem minSentences_unfold (G : Grammar) (hwf : G.wf = true) (tc : List Nat) (htc : tc.length = G.ntoks)
    (c : List (Option Nat)) (hc : minCosts G (tcF tc) = some c)
    (hfit : sumsFit G (tcF tc) c = true) :
    MinTable G (tcF tc) c ∧
    ∀ r fuel, minSentences G tc r fuel = minSentencesWith G tc (some (concr c)) fuel r := by
  obtain ⟨m, hm, hmt, h⟩ := ruleMinCosts_exact G hwf tc htc
  rw [hc] at hm
  simp only [Option.some.injEq] at hm
  subst hm
  have hmc := h hfit (minCostsFuel G) (Nat.le_refl _)
  exact ⟨hmt, fun r fuel => by unfold minSentences; rw [hmc]⟩

end GrmVerif.Impl
