import GrmVerif.Lemmas.YaccRender
/-!
C10, text → AST stage: an abstract syntax of the DECLARATIONS of a `.y` file, its canonical rendering,
well-formedness, and the image the parser must produce (`Lemmas/YaccDecl*.lean`, `Props/C10.lean`).

Layout emitted (exactly): one declaration per line, `keyword item item …\n`, single spaces:

    %start name          %token tok tok …        %left tok … / %right tok … / %nonassoc tok …
    %avoid_insert tok …  %implicit_tokens tok …  %expect digits       %expect-rr digits
    %actiontype type     %parse-param name: type       %epp tok "text"   (a `"` of the text is written `\"`)
-/
namespace GrmVerif.YaccRender
open GrmVerif.YaccParse
open GrmVerif.Header (Span byteLen)

inductive RDecl where
  | start (n : Name)
  | token (t : RTok) (ts : List RTok)
  | prec (k : Assoc) (t : RTok) (ts : List RTok)
  | avoidInsert (t : RTok) (ts : List RTok)
  /-- read for `YaccKind::Eco` only -/
  | implicitTokens (t : RTok) (ts : List RTok)
  /-- the number as its decimal digits -/
  | expect (ds : List Char)
  | expectRR (ds : List Char)
  /-- read for `YaccKind::Original(_)` only -/
  | actiontype (ty : List Char)
  | parseParam (n ty : List Char)
  /-- the token and the (unescaped) text to show for it -/
  | epp (t : RTok) (v : List Char)
deriving Repr, DecidableEq

def precKw : Assoc → String
  | .left => "%left"
  | .right => "%right"
  | .nonassoc => "%nonassoc"

def kwOf : RDecl → String
  | .start _ => "%start"
  | .token _ _ => "%token"
  | .prec k _ _ => precKw k
  | .avoidInsert _ _ => "%avoid_insert"
  | .implicitTokens _ _ => "%implicit_tokens"
  | .expect _ => "%expect"
  | .expectRR _ => "%expect-rr"
  | .actiontype _ => "%actiontype"
  | .parseParam _ _ => "%parse-param"
  | .epp _ _ => "%epp"

/-- the text of an `%epp` string between double quotes: a `"` is escaped -/
def escQ : List Char → List Char
  | [] => []
  | c :: cs => if c = '"' then '\\' :: '"' :: escQ cs else c :: escQ cs

/-- tokens separated by one space, the last followed by a newline -/
def renderToks : RTok → List RTok → List Char
  | t, [] => t.text ++ ['\n']
  | t, u :: us => t.text ++ ' ' :: renderToks u us

def bodyOf : RDecl → List Char
  | .start n => n ++ ['\n']
  | .token t ts => renderToks t ts
  | .prec _ t ts => renderToks t ts
  | .avoidInsert t ts => renderToks t ts
  | .implicitTokens t ts => renderToks t ts
  | .expect ds => ds ++ ['\n']
  | .expectRR ds => ds ++ ['\n']
  | .actiontype ty => ty ++ ['\n']
  | .parseParam n ty => n ++ ':' :: ' ' :: (ty ++ ['\n'])
  | .epp t v => t.text ++ ' ' :: '"' :: (escQ v ++ ['"', '\n'])

def renderDecl (d : RDecl) : List Char := (kwOf d).toList ++ ' ' :: bodyOf d

def renderDecls : List RDecl → List Char
  | [] => []
  | d :: ds => renderDecl d ++ renderDecls ds

/-! ### well-formedness -/

/-- a type or name that runs to the end of its line (`parse_to_eol`): no `\n`/`\r`, and it begins
with a character that `parse_ws` does not skip -/
def wfLine : List Char → Bool
  | [] => false
  | c :: cs => !YaccLex.isBlank c && !YaccLex.isEol c && c != '/' && cs.all (fun d => !YaccLex.isEol d)

def wfDecl (kind : Kind) : RDecl → Bool
  | .start n => wfName n
  | .token t ts => (t :: ts).all wfTok
  | .prec _ t ts => (t :: ts).all wfTok
  | .avoidInsert t ts => (t :: ts).all wfTok
  | .implicitTokens t ts => decide (kind = .eco) && (t :: ts).all wfTok
  | .expect ds => (Header.parseU64 ds).isSome
  | .expectRR ds => (Header.parseU64 ds).isSome
  | .actiontype ty => decide (kind = .original) && wfLine ty
  | .parseParam n ty => wfType n && n.all (fun d => !YaccLex.isEol d) && wfLine ty
  | .epp t v => wfTok t && v.all (fun d => !YaccLex.isEol d && d != '\\')

def wfDecls (kind : Kind) (ds : List RDecl) : Bool := ds.all (wfDecl kind)

/-! ### the image -/

def tokStep (i : Nat) (t : RTok) (st : St) : St :=
  St.mapAst (fun a => (a.insertToken t.name (t.span i)).addTokenDir t.name) st

def runTokens : Nat → RTok → List RTok → St → Nat × St
  | i, t, [], st => (i + byteLen t.text + 1, St.incNl 1 (tokStep i t st))
  | i, t, u :: us, st => runTokens (i + byteLen t.text + 1) u us (tokStep i t st)

/-- `none` = the token already has a precedence (the parser records a `DuplicatePrecedence` error) -/
def precStep (level : Nat) (kind : Assoc) (i : Nat) (t : RTok) (st : St) : Option St :=
  if (st.ast.precs.find? (fun e => e.1 == t.name)).isSome then none
  else some (St.mapAst (fun a => { a with precs := a.precs ++ [(t.name, level, kind, t.span i)] }) st)

def runPrecToks (level : Nat) (kind : Assoc) : Nat → RTok → List RTok → St → Option (Nat × St)
  | i, t, [], st => (precStep level kind i t st).map (fun s => (i + byteLen t.text + 1, St.incNl 1 s))
  | i, t, u :: us, st =>
    (precStep level kind i t st).bind (fun s => runPrecToks level kind (i + byteLen t.text + 1) u us s)

def insTok (i : Nat) (t : RTok) (st : St) : St := St.mapAst (fun a => a.insertToken t.name (t.span i)) st

/-- `none` = the token is already listed (`DuplicateAvoidInsertDeclaration`) -/
def avoidStep (i : Nat) (t : RTok) (st : St) : Option St :=
  if (((insTok i t st).ast.avoidInsert.getD []).find? (fun e => e.1 == t.name)).isSome then none
  else some (St.mapAst (fun a => { a with avoidInsert := some (a.avoidInsert.getD [] ++ [(t.name, t.span i)]) })
    (insTok i t st))

def runAvoid : Nat → RTok → List RTok → St → Option (Nat × St)
  | i, t, [], st => (avoidStep i t st).map (fun s => (i + byteLen t.text + 1, St.incNl 1 s))
  | i, t, u :: us, st => (avoidStep i t st).bind (fun s => runAvoid (i + byteLen t.text + 1) u us s)

def implicitStep (i : Nat) (t : RTok) (st : St) : Option St :=
  if (((insTok i t st).ast.implicitTokens.getD []).find? (fun e => e.1 == t.name)).isSome then none
  else some (St.mapAst (fun a => { a with implicitTokens := some (a.implicitTokens.getD [] ++ [(t.name, t.span i)]) })
    (insTok i t st))

def runImplicit : Nat → RTok → List RTok → St → Option (Nat × St)
  | i, t, [], st => (implicitStep i t st).map (fun s => (i + byteLen t.text + 1, St.incNl 1 s))
  | i, t, u :: us, st => (implicitStep i t st).bind (fun s => runImplicit (i + byteLen t.text + 1) u us s)

/-- byte length of the keyword and the space after it -/
def kwLen (d : RDecl) : Nat := byteLen (kwOf d).toList + 1

/-- one declaration written at byte `i`, with `prec_level = level`: the position after its line, the
new `prec_level`, the state. `none` = a duplicate the parser would report as an error. -/
def runDecl (i level : Nat) (d : RDecl) (st : St) : Option (Nat × Nat × St) :=
  let j := i + kwLen d
  match d with
  | .start n =>
    if st.ast.start.isSome then none
    else some (j + byteLen n + 1, level,
      St.incNl 1 (St.mapAst (fun a => { a with start := some (n, (j, j + byteLen n)) }) st))
  | .token t ts => some ((runTokens j t ts st).1, level, (runTokens j t ts st).2)
  | .prec k t ts => (runPrecToks level k j t ts st).map (fun r => (r.1, level + 1, r.2))
  | .avoidInsert t ts =>
    (runAvoid j t ts (St.mapAst (fun a => { a with avoidInsert := some (a.avoidInsert.getD []) }) st)).map
      (fun r => (r.1, level, r.2))
  | .implicitTokens t ts =>
    (runImplicit j t ts (St.mapAst (fun a => { a with implicitTokens := some (a.implicitTokens.getD []) }) st)).map
      (fun r => (r.1, level, r.2))
  | .expect ds =>
    if st.ast.expect.isSome then none
    else some (j + byteLen ds + 1, level,
      St.incNl 1 (St.mapAst (fun a => { a with expect := some (Header.digitsVal ds, (j, j + byteLen ds)) }) st))
  | .expectRR ds =>
    if st.ast.expectrr.isSome then none
    else some (j + byteLen ds + 1, level,
      St.incNl 1 (St.mapAst (fun a => { a with expectrr := some (Header.digitsVal ds, (j, j + byteLen ds)) }) st))
  | .actiontype ty =>
    if st.actiontype.isSome then none
    else some (j + byteLen ty + 1, level, St.incNl 1 { st with actiontype := some (j, j + byteLen ty) })
  | .parseParam n ty =>
    some (j + byteLen n + 2 + byteLen ty + 1, level,
      St.incNl 1 (St.mapAst (fun a => { a with parseParam := some ty }) st))
  | .epp t v =>
    if (st.ast.epp.find? (fun e => e.1 == t.name)).isSome then none
    else
      let e := j + byteLen t.text
      some (e + 1 + byteLen (escQ v) + 2 + 1, level,
        St.incNl 1 (St.mapAst (fun a => { a with epp := a.epp ++ [(t.name, (j, e), v, (e + 1, e + 1 + byteLen (escQ v) + 2))] }) st))

def runDecls : Nat → Nat → List RDecl → St → Option (Nat × Nat × St)
  | i, level, [], st => some (i, level, st)
  | i, level, d :: ds, st => (runDecl i level d st).bind (fun r => runDecls r.1 r.2.1 ds r.2.2)

end GrmVerif.YaccRender
