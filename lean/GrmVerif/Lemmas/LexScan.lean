import GrmVerif.Lemmas.Lex
/-! Helper lemmas for C09: the inner rule scan of the lexer satisfies `LongestEarliest` / `Stuck`. -/
namespace GrmVerif.Lex

theorem stateMatches_iff (cur : St) (r : Rule) : stateMatches cur r.states = true ↔ Active cur r := by
  unfold stateMatches Active
  cases h : r.states with
  | nil => simp
  | cons a l => simp

/-- loop invariant of `scanRules` after the rules with index `< k` -/
structure ScanInv (all : List Rule) (cur : St) (mli : Nat → Option Nat) (k L x : Nat) : Prop where
  lt : 0 < L → x < k
  hit : 0 < L → ∃ r, all[x]? = some r ∧ Active cur r ∧ mli x = some L
  max : ∀ j r l, j < k → all[j]? = some r → Active cur r → mli j = some l → l ≤ L
  first : ∀ j r, j < k → all[j]? = some r → Active cur r → mli j = some L → 0 < L → x ≤ j

theorem drop_cons_inv {α} (all : List α) (k : Nat) (r : α) (rs : List α) (h : all.drop k = r :: rs) :
    all[k]? = some r ∧ all.drop (k + 1) = rs := by
  have hk : k < all.length := by
    by_cases hk : k < all.length
    · exact hk
    · have : all.drop k = [] := List.drop_eq_nil_of_le (by omega)
      rw [this] at h; cases h
  rw [List.drop_eq_getElem_cons hk] at h
  injection h with h1 h2
  exact ⟨by simp [List.getElem?_eq_getElem hk, h1], h2⟩

theorem scan_inv (all : List Rule) (cur : St) (mli : Nat → Option Nat) :
    ∀ (rs : List Rule) (k L x : Nat), all.drop k = rs → ScanInv all cur mli k L x →
      ScanInv all cur mli all.length (scanRules cur mli rs k (L, x)).1 (scanRules cur mli rs k (L, x)).2 := by
  intro rs
  induction rs with
  | nil =>
    intro k L x hd inv
    have hk : all.length ≤ k := by
      by_cases hk : all.length ≤ k
      · exact hk
      · have := List.drop_eq_getElem_cons (l := all) (i := k) (by omega)
        rw [hd] at this; cases this
    simp only [scanRules]
    refine ⟨?_, inv.hit, ?_, ?_⟩
    · intro hL
      obtain ⟨r, hr, _⟩ := inv.hit hL
      have := (List.getElem?_eq_some_iff.mp hr).1
      exact this
    · intro j r l _ hr; exact inv.max j r l (by have := (List.getElem?_eq_some_iff.mp hr).1; omega) hr
    · intro j r _ hr; exact inv.first j r (by have := (List.getElem?_eq_some_iff.mp hr).1; omega) hr
  | cons r rs ih =>
    intro k L x hd inv
    obtain ⟨hk, hd'⟩ := drop_cons_inv all k r rs hd
    unfold scanRules
    by_cases hact : stateMatches cur r.states = true
    · have hA : Active cur r := (stateMatches_iff cur r).mp hact
      simp only [hact, Bool.not_true, Bool.false_eq_true, if_false]
      cases hm : mli k with
      | none =>
        simp only
        apply ih (k + 1) L x hd'
        refine ⟨fun h => Nat.lt_succ_of_lt (inv.lt h), inv.hit, ?_, ?_⟩
        · intro j r' l hj hr' ha hl
          by_cases hjk : j = k
          · subst hjk; rw [hm] at hl; cases hl
          · exact inv.max j r' l (by omega) hr' ha hl
        · intro j r' hj hr' ha hl hL
          by_cases hjk : j = k
          · subst hjk; rw [hm] at hl; cases hl
          · exact inv.first j r' (by omega) hr' ha hl hL
      | some len =>
        simp only
        by_cases hgt : len > L
        · simp only [hgt, if_true]
          apply ih (k + 1) len k hd'
          refine ⟨fun _ => Nat.lt_succ_self k, fun _ => ⟨r, hk, hA, hm⟩, ?_, ?_⟩
          · intro j r' l hj hr' ha hl
            by_cases hjk : j = k
            · subst hjk; rw [hm] at hl; cases hl; exact Nat.le_refl _
            · have := inv.max j r' l (by omega) hr' ha hl; omega
          · intro j r' hj hr' ha hl hL
            by_cases hjk : j = k
            · omega
            · have := inv.max j r' len (by omega) hr' ha hl; omega
        · simp only [hgt, if_false]
          apply ih (k + 1) L x hd'
          refine ⟨fun h => Nat.lt_succ_of_lt (inv.lt h), inv.hit, ?_, ?_⟩
          · intro j r' l hj hr' ha hl
            by_cases hjk : j = k
            · subst hjk; rw [hm] at hl; cases hl; omega
            · exact inv.max j r' l (by omega) hr' ha hl
          · intro j r' hj hr' ha hl hL
            by_cases hjk : j = k
            · subst hjk; have := inv.lt hL; omega
            · exact inv.first j r' (by omega) hr' ha hl hL
    · have hA : ¬ Active cur r := fun h => hact ((stateMatches_iff cur r).mpr h)
      simp only [hact, Bool.not_false, if_true]
      apply ih (k + 1) L x hd'
      refine ⟨fun h => Nat.lt_succ_of_lt (inv.lt h), inv.hit, ?_, ?_⟩
      · intro j r' l hj hr' ha hl
        by_cases hjk : j = k
        · subst hjk; rw [hk] at hr'; cases hr'; exact absurd ha hA
        · exact inv.max j r' l (by omega) hr' ha hl
      · intro j r' hj hr' ha hl hL
        by_cases hjk : j = k
        · subst hjk; rw [hk] at hr'; cases hr'; exact absurd ha hA
        · exact inv.first j r' (by omega) hr' ha hl hL

/-- what the scan of all rules establishes -/
theorem scan_spec (cfg : Cfg) (ml : Nat → Nat → Option Nat) (cur : St) (i : Nat) :
    (0 < (scanRules cur (fun r => ml r i) cfg.rules 0 (0, 0)).1 →
      LongestEarliest cfg ml cur i (scanRules cur (fun r => ml r i) cfg.rules 0 (0, 0)).2
        (scanRules cur (fun r => ml r i) cfg.rules 0 (0, 0)).1) ∧
    ((scanRules cur (fun r => ml r i) cfg.rules 0 (0, 0)).1 = 0 → Stuck cfg ml cur i) := by
  have inv := scan_inv cfg.rules cur (fun r => ml r i) cfg.rules 0 0 0 (by simp)
    ⟨fun h => absurd h (by omega), fun h => absurd h (by omega),
     fun j _ _ hj => absurd hj (by omega), fun j _ hj => absurd hj (by omega)⟩
  constructor
  · intro hpos
    obtain ⟨r, hr, ha, hm⟩ := inv.hit hpos
    refine ⟨hpos, ⟨r, hr, ha⟩, hm, ?_, ?_⟩
    · intro j r' l hr' ha' hl
      exact inv.max j r' l (List.getElem?_eq_some_iff.mp hr').1 hr' ha' hl
    · intro j r' hr' ha' hl
      exact inv.first j r' (List.getElem?_eq_some_iff.mp hr').1 hr' ha' hl hpos
  · intro h0 j r l hr ha hl
    have := inv.max j r l (List.getElem?_eq_some_iff.mp hr).1 hr ha hl
    omega

/-- the choice is unique -/
theorem LongestEarliest.unique {cfg : Cfg} {ml : Nat → Nat → Option Nat} {cur : St} {i a la b lb : Nat}
    (h1 : LongestEarliest cfg ml cur i a la) (h2 : LongestEarliest cfg ml cur i b lb) : a = b ∧ la = lb := by
  obtain ⟨ra, hra, haa⟩ := h1.rule
  obtain ⟨rb, hrb, hab⟩ := h2.rule
  have l1 := h1.longest b rb lb hrb hab h2.hit
  have l2 := h2.longest a ra la hra haa h1.hit
  have hl : la = lb := by omega
  subst hl
  have e1 := h1.earliest b rb hrb hab h2.hit
  have e2 := h2.earliest a ra hra haa h1.hit
  exact ⟨by omega, rfl⟩

theorem LongestEarliest.not_stuck {cfg : Cfg} {ml : Nat → Nat → Option Nat} {cur : St} {i a la : Nat}
    (h1 : LongestEarliest cfg ml cur i a la) : ¬ Stuck cfg ml cur i := by
  intro hs
  obtain ⟨ra, hra, haa⟩ := h1.rule
  have := hs a ra la hra haa h1.hit
  have := h1.pos
  omega

end GrmVerif.Lex
