import GrmVerif.Model.MinSentencesImpl
import GrmVerif.Lemmas.MinCostsImpl
/-! The combination loop of `min_sentences` (`Impl.odoLoop`): started with all counters at zero on lists
none of which is empty it pushes exactly the concatenations of one sentence per column, in lexicographic
order of the counters with the FIRST column most significant (`combos`), and the fuel `odoFuel` suffices. -/
namespace GrmVerif.Impl
open GrmVerif

/-- all concatenations of one element of each list, the first list varying slowest -/
def combos : List (List (List Nat)) → List (List Nat)
  | [] => [[]]
  | l :: ms => l.flatMap (fun s => (combos ms).map (fun w => s ++ w))

/-- the sentence the counters `todo` select -/
def curOf : List (List (List Nat)) → List Nat → List Nat
  | l :: ms, t :: ts => l.getD t [] ++ curOf ms ts
  | _, _ => []

/-- the counters are in range, one per column -/
def ValidTodo : List (List (List Nat)) → List Nat → Prop
  | [], [] => True
  | l :: ms, t :: ts => t < l.length ∧ ValidTodo ms ts
  | _, _ => False

/-- the odometer step as a function of the whole counter: advance the last column that is not at its
maximum and reset the columns after it; `none` when every column is at its maximum -/
def nextTodo : List (List (List Nat)) → List Nat → Option (List Nat)
  | l :: ms, t :: ts =>
    match nextTodo ms ts with
    | some ts' => some (t :: ts')
    | none => if t + 1 = l.length then none else some ((t + 1) :: List.replicate ts.length 0)
  | _, _ => none

/-- the sentences selected by `todo` and by all later counters, in order -/
def suffixFrom : List (List (List Nat)) → List Nat → List (List Nat)
  | l :: ms, t :: ts =>
    (suffixFrom ms ts).map (fun w => l.getD t [] ++ w) ++
      (l.drop (t + 1)).flatMap (fun s => (combos ms).map (fun w => s ++ w))
  | _, _ => [[]]

theorem validTodo_length : ∀ {ms : List (List (List Nat))} {todo : List Nat}, ValidTodo ms todo →
    todo.length = ms.length
  | [], [], _ => rfl
  | _ :: ms, _ :: ts, h => by
    simp only [List.length_cons]
    rw [validTodo_length (ms := ms) (todo := ts) h.2]
  | [], _ :: _, h => h.elim
  | _ :: _, [], h => h.elim

theorem validTodo_zeros : ∀ (ms : List (List (List Nat))), (∀ l ∈ ms, l ≠ []) →
    ValidTodo ms (List.replicate ms.length 0)
  | [], _ => trivial
  | l :: ms, h => by
    simp only [List.length_cons, List.replicate_succ, ValidTodo]
    refine ⟨?_, validTodo_zeros ms (fun x hx => h x (List.mem_cons_of_mem _ hx))⟩
    have := h l (by simp)
    cases l with
    | nil => exact absurd rfl this
    | cons a l' => simp

/-! ### `cur` -/

theorem odoCur_from (ms : List (List (List Nat))) (todo : List Nat) (hv : ValidTodo ms todo) :
    ∀ (n k : Nat) (cur : List Nat), k + n = todo.length →
      iterM (odoCurStep ms todo) (List.range' k n) cur = some (cur ++ curOf (ms.drop k) (todo.drop k)) := by
  have hlen := validTodo_length hv
  -- the counter at every position is in range
  have hget : ∀ (ms : List (List (List Nat))) (todo : List Nat), ValidTodo ms todo → ∀ k (hk : k < todo.length),
      ∃ (l : List (List Nat)) (t : Nat) (s : List Nat), ms[k]? = some l ∧ todo[k]? = some t ∧ l[t]? = some s ∧
        l.getD t [] = s := by
    intro ms
    induction ms with
    | nil => intro todo hv k hk; cases todo with
      | nil => simp at hk
      | cons _ _ => exact hv.elim
    | cons l ms ih =>
      intro todo hv k hk
      cases todo with
      | nil => exact hv.elim
      | cons t ts =>
        cases k with
        | zero =>
          refine ⟨l, t, l[t]'hv.1, rfl, rfl, by simp [hv.1], ?_⟩
          simp [List.getD_eq_getElem?_getD, hv.1]
        | succ k =>
          obtain ⟨l', t', s, h1, h2, h3, h4⟩ := ih ts hv.2 k (by simpa using hk)
          exact ⟨l', t', s, by simpa using h1, by simpa using h2, h3, h4⟩
  intro n
  induction n with
  | zero =>
    intro k cur hk
    have h1 : todo.drop k = [] := List.drop_eq_nil_of_le (by omega)
    simp [iterM, h1, curOf]
  | succ n ih =>
    intro k cur hk
    have hk' : k < todo.length := by omega
    obtain ⟨l, t, s, h1, h2, h3, h4⟩ := hget ms todo hv k hk'
    have hkm : k < ms.length := by omega
    have hd1 : ms.drop k = l :: ms.drop (k + 1) := by
      rw [List.drop_eq_getElem_cons hkm]
      have : ms[k]? = some ms[k] := List.getElem?_eq_getElem hkm
      rw [this] at h1
      simp only [Option.some.injEq] at h1
      rw [h1]
    have hd2 : todo.drop k = t :: todo.drop (k + 1) := by
      rw [List.drop_eq_getElem_cons hk']
      have : todo[k]? = some todo[k] := List.getElem?_eq_getElem hk'
      rw [this] at h2
      simp only [Option.some.injEq] at h2
      rw [h2]
    simp only [List.range'_succ, iterM, odoCurStep, h1, h2, h3]
    rw [ih (k + 1) (cur ++ s) (by omega), hd1, hd2]
    simp only [curOf, h4, List.append_assoc]

theorem odoCur_spec (ms : List (List (List Nat))) (todo : List Nat) (hv : ValidTodo ms todo) :
    odoCur ms todo = some (curOf ms todo) := by
  unfold odoCur
  rw [List.range_eq_range']
  have := odoCur_from ms todo hv todo.length 0 [] (by simp)
  simpa using this

/-! ### the increment -/

/-- every column is at its maximum -/
def AtMax : List (List (List Nat)) → List Nat → Prop
  | [], [] => True
  | l :: ms, t :: ts => t + 1 = l.length ∧ AtMax ms ts
  | _, _ => False

theorem nextTodo_atMax : ∀ {ms : List (List (List Nat))} {todo : List Nat}, AtMax ms todo → nextTodo ms todo = none
  | [], [], _ => rfl
  | l :: ms, t :: ts, h => by
    simp only [nextTodo, nextTodo_atMax (ms := ms) (todo := ts) h.2, h.1, if_true]
  | [], _ :: _, h => h.elim
  | _ :: _, [], h => h.elim

theorem atMax_length : ∀ {ms : List (List (List Nat))} {todo : List Nat}, AtMax ms todo → todo.length = ms.length
  | [], [], _ => rfl
  | _ :: ms, _ :: ts, h => by
    simp only [List.length_cons]
    rw [atMax_length (ms := ms) (todo := ts) h.2]
  | [], _ :: _, h => h.elim
  | _ :: _, [], h => h.elim

/-- `nextTodo` seen from the column that is advanced: the columns after it are at their maximum -/
theorem nextTodo_split : ∀ (mpre : List (List (List Nat))) (pre : List Nat), pre.length = mpre.length →
    ∀ (l : List (List Nat)) (t : Nat) (mpost : List (List (List Nat))) (post : List Nat), AtMax mpost post →
      nextTodo (mpre ++ l :: mpost) (pre ++ t :: post) =
        if t + 1 = l.length then (nextTodo mpre pre).map (fun x => x ++ 0 :: List.replicate post.length 0)
        else some (pre ++ (t + 1) :: List.replicate post.length 0) := by
  intro mpre
  induction mpre with
  | nil =>
    intro pre hlen l t mpost post hmax
    cases pre with
    | cons _ _ => simp at hlen
    | nil =>
      simp only [List.nil_append, nextTodo, nextTodo_atMax hmax]
      split <;> simp
  | cons lp mpre ih =>
    intro pre hlen l t mpost post hmax
    cases pre with
    | nil => simp at hlen
    | cons p pre =>
      have hlen' : pre.length = mpre.length := by simpa using hlen
      simp only [List.cons_append, nextTodo]
      rw [ih pre hlen' l t mpost post hmax]
      by_cases ht : t + 1 = l.length
      · simp only [ht, if_true]
        cases hn : nextTodo mpre pre with
        | some x => simp
        | none =>
          simp only [Option.map_none]
          split
          · simp
          · simp only [Option.map_some, Option.some.injEq, List.cons_append, List.cons.injEq, true_and,
              List.length_append, List.length_cons]
            rw [← List.replicate_succ, ← List.replicate_append_replicate]
      · simp [ht]

theorem odoInc_spec (ms : List (List (List Nat))) :
    ∀ (j : Nat) (mpre : List (List (List Nat))) (pre : List Nat), pre.length = j → mpre.length = j →
    ∀ (l : List (List Nat)) (t : Nat) (mpost : List (List (List Nat))) (post : List Nat), AtMax mpost post →
      ms = mpre ++ l :: mpost →
      odoInc ms j (pre ++ t :: List.replicate post.length 0) = some (nextTodo ms (pre ++ t :: post)) := by
  intro j
  induction j with
  | zero =>
    intro mpre pre hp hm l t mpost post hmax hms
    have hp' : pre = [] := List.eq_nil_of_length_eq_zero hp
    have hm' : mpre = [] := List.eq_nil_of_length_eq_zero hm
    subst hp' hm'
    subst hms
    unfold odoInc
    simp only [List.nil_append, List.getElem?_cons_zero, nextTodo, nextTodo_atMax hmax]
    split <;> simp
  | succ j ih =>
    intro mpre pre hp hm l t mpost post hmax hms
    have hnext := nextTodo_split mpre pre (by omega) l t mpost post hmax
    rw [← hms] at hnext
    unfold odoInc
    have h1 : (pre ++ t :: List.replicate post.length 0)[j + 1]? = some t := by
      rw [List.getElem?_append_right (by omega)]; simp [hp]
    have h2 : ms[j + 1]? = some l := by
      rw [hms, List.getElem?_append_right (by omega)]; simp [hm]
    simp only [h1, h2]
    by_cases ht : t + 1 = l.length
    · simp only [ht, if_true]
      -- the counter before column `j + 1`
      obtain ⟨pre', t', rfl⟩ : ∃ pre' t', pre = pre' ++ [t'] := by
        cases hpe : pre.reverse with
        | nil => simp at hpe; subst hpe; simp at hp
        | cons a r => exact ⟨r.reverse, a, by rw [← List.reverse_reverse pre, hpe]; simp⟩
      obtain ⟨mpre', l', rfl⟩ : ∃ mpre' l', mpre = mpre' ++ [l'] := by
        cases hpe : mpre.reverse with
        | nil => simp at hpe; subst hpe; simp at hm
        | cons a r => exact ⟨r.reverse, a, by rw [← List.reverse_reverse mpre, hpe]; simp⟩
      have hp2 : pre'.length = j := by simpa using hp
      have hm2 : mpre'.length = j := by simpa using hm
      have hset : ((pre' ++ [t']) ++ t :: List.replicate post.length 0).set (j + 1) 0 =
          pre' ++ t' :: List.replicate (t :: post).length 0 := by
        rw [List.set_append_right _ _ (by simp [hp2])]
        simp [hp2, List.replicate_succ]
      rw [hset]
      have := ih mpre' pre' hp2 hm2 l' t' (l :: mpost) (t :: post) ⟨ht, hmax⟩ (by rw [hms]; simp)
      rw [this]
      simp
    · simp only [ht, if_false]
      rw [hnext]
      simp only [ht, if_false, Option.some.injEq]
      rw [List.set_append_right _ _ (by omega)]
      simp [hp]

/-- `let mut j = todo.len() - 1; loop {…}` is `nextTodo` -/
theorem odoInc_last (ms : List (List (List Nat))) (todo : List Nat) (n : Nat) (hlen : todo.length = n + 1)
    (hv : ValidTodo ms todo) : odoInc ms n todo = some (nextTodo ms todo) := by
  have hml := validTodo_length hv
  obtain ⟨pre, t, rfl⟩ : ∃ pre t, todo = pre ++ [t] := by
    cases hpe : todo.reverse with
    | nil => simp at hpe; subst hpe; simp at hlen
    | cons a r => exact ⟨r.reverse, a, by rw [← List.reverse_reverse todo, hpe]; simp⟩
  obtain ⟨mpre, l, rfl⟩ : ∃ mpre l, ms = mpre ++ [l] := by
    cases hpe : ms.reverse with
    | nil =>
      simp at hpe; subst hpe; simp at hml
    | cons a r => exact ⟨r.reverse, a, by rw [← List.reverse_reverse ms, hpe]; simp⟩
  have hp : pre.length = n := by simpa using hlen
  have hm : mpre.length = n := by
    have : (mpre ++ [l]).length = n + 1 := by rw [← hml]; exact hlen
    simpa using this
  have := odoInc_spec (mpre ++ [l]) n mpre pre hp hm l t [] [] trivial rfl
  simpa using this

/-! ### the enumeration -/

theorem nextTodo_valid : ∀ {ms : List (List (List Nat))} {todo todo' : List Nat}, ValidTodo ms todo →
    nextTodo ms todo = some todo' → ValidTodo ms todo'
  | [], [], _, _, h => by simp [nextTodo] at h
  | [], _ :: _, _, hv, _ => hv.elim
  | _ :: _, [], _, hv, _ => hv.elim
  | l :: ms, t :: ts, todo', hv, h => by
    simp only [nextTodo] at h
    cases hn : nextTodo ms ts with
    | some ts' =>
      rw [hn] at h
      simp only [Option.some.injEq] at h
      subst h
      exact ⟨hv.1, nextTodo_valid hv.2 hn⟩
    | none =>
      rw [hn] at h
      simp only at h
      split at h
      · cases h
      · next hne =>
        simp only [Option.some.injEq] at h
        subst h
        have hz : ∀ l' ∈ ms, l' ≠ [] := by
          -- every column holds a sentence because `ts` is valid
          have aux : ∀ (ms : List (List (List Nat))) (ts : List Nat), ValidTodo ms ts → ∀ l' ∈ ms, l' ≠ [] := by
            intro ms
            induction ms with
            | nil => intro _ _ l' hl'; cases hl'
            | cons a ms ih =>
              intro ts hv l' hl'
              cases ts with
              | nil => exact hv.elim
              | cons t ts =>
                rcases List.mem_cons.mp hl' with rfl | hl'
                · intro he; rw [he] at hv; exact Nat.not_lt_zero _ hv.1
                · exact ih ts hv.2 l' hl'
          exact aux ms ts hv.2
        have := validTodo_zeros ms hz
        rw [← validTodo_length hv.2] at this
        exact ⟨by have := hv.1; omega, this⟩

theorem suffixFrom_zeros : ∀ (ms : List (List (List Nat))), (∀ l ∈ ms, l ≠ []) →
    suffixFrom ms (List.replicate ms.length 0) = combos ms
  | [], _ => rfl
  | l :: ms, h => by
    simp only [List.length_cons, List.replicate_succ, suffixFrom,
      suffixFrom_zeros ms (fun x hx => h x (List.mem_cons_of_mem _ hx)), combos]
    have := h l (by simp)
    cases l with
    | nil => exact absurd rfl this
    | cons a l' => simp

theorem suffixFrom_step : ∀ (ms : List (List (List Nat))) (todo : List Nat), ValidTodo ms todo →
    suffixFrom ms todo = curOf ms todo ::
      (match nextTodo ms todo with
       | some todo' => suffixFrom ms todo'
       | none => [])
  | [], [], _ => rfl
  | [], _ :: _, hv => hv.elim
  | _ :: _, [], hv => hv.elim
  | l :: ms, t :: ts, hv => by
    have ih := suffixFrom_step ms ts hv.2
    simp only [suffixFrom, nextTodo, curOf]
    cases hn : nextTodo ms ts with
    | some ts' =>
      rw [hn] at ih
      simp only at ih
      rw [ih]
      simp [suffixFrom]
    | none =>
      rw [hn] at ih
      simp only at ih
      rw [ih]
      simp only [List.map_cons, List.map_nil, List.cons_append, List.nil_append]
      by_cases ht : t + 1 = l.length
      · simp only [ht, if_true]
        rw [List.drop_eq_nil_of_le (by omega)]
        simp
      · simp only [ht, if_false]
        have hz : ∀ l' ∈ ms, l' ≠ [] := by
          have aux : ∀ (ms : List (List (List Nat))) (ts : List Nat), ValidTodo ms ts → ∀ l' ∈ ms, l' ≠ [] := by
            intro ms
            induction ms with
            | nil => intro _ _ l' hl'; cases hl'
            | cons a ms ih =>
              intro ts hv l' hl'
              cases ts with
              | nil => exact hv.elim
              | cons t ts =>
                rcases List.mem_cons.mp hl' with rfl | hl'
                · intro he; rw [he] at hv; exact Nat.not_lt_zero _ hv.1
                · exact ih ts hv.2 l' hl'
          exact aux ms ts hv.2
        have hlt : t + 1 < l.length := by have := hv.1; omega
        rw [validTodo_length hv.2, suffixFrom, suffixFrom_zeros ms hz]
        have hd : l.drop (t + 1) = l[t + 1] :: l.drop (t + 1 + 1) := List.drop_eq_getElem_cons hlt
        rw [hd]
        simp only [List.flatMap_cons, List.getD_eq_getElem?_getD, List.getElem?_eq_getElem hlt,
          Option.getD_some]

theorem length_combos : ∀ ms : List (List (List Nat)), (combos ms).length = lenProd ms
  | [] => rfl
  | l :: ms => by
    simp only [combos, lenProd]
    have : ∀ (l : List (List Nat)), (l.flatMap (fun s => (combos ms).map (fun w => s ++ w))).length =
        l.length * lenProd ms := by
      intro l
      induction l with
      | nil => simp
      | cons a l ih =>
        simp only [List.flatMap_cons, List.length_append, List.length_map, ih, length_combos ms,
          List.length_cons]
        rw [Nat.succ_mul]; omega
    exact this l

/-- what the loop pushes from the counter `todo` on -/
theorem odoLoop_from (ms : List (List (List Nat))) (hne : ms ≠ []) :
    ∀ (fuel : Nat) (todo : List Nat) (out : List (List Nat)), ValidTodo ms todo →
      (suffixFrom ms todo).length ≤ fuel →
      odoLoop ms fuel todo out = .done (out.reverse ++ suffixFrom ms todo) := by
  intro fuel
  induction fuel with
  | zero =>
    intro todo out hv hle
    rw [suffixFrom_step ms todo hv] at hle
    simp at hle
  | succ fuel ih =>
    intro todo out hv hle
    have hstep := suffixFrom_step ms todo hv
    have hlen := validTodo_length hv
    obtain ⟨n, hn⟩ : ∃ n, todo.length = n + 1 := by
      cases ms with
      | nil => exact absurd rfl hne
      | cons _ _ => exact ⟨_, by rw [hlen]; rfl⟩
    simp only [odoLoop, odoCur_spec ms todo hv, hn, odoInc_last ms todo n hn hv]
    cases hnx : nextTodo ms todo with
    | none =>
      rw [hnx] at hstep
      simp only at hstep
      rw [hstep]
      simp
    | some todo' =>
      rw [hnx] at hstep
      simp only at hstep
      simp only []
      rw [ih todo' _ (nextTodo_valid hv hnx) (by rw [hstep] at hle; simpa using hle)]
      rw [hstep]
      simp

/-- **the odometer enumerates the combinations in order**: on columns none of which is empty the loop,
started with all counters at zero and given `odoFuel` iterations, pushes exactly `combos ms` -/
theorem odoLoop_spec (ms : List (List (List Nat))) (hne : ms ≠ []) (hall : ∀ l ∈ ms, l ≠ []) :
    odoLoop ms (odoFuel ms) (List.replicate ms.length 0) [] = .done (combos ms) := by
  have hv := validTodo_zeros ms hall
  have := odoLoop_from ms hne (odoFuel ms) _ [] hv (by
    rw [suffixFrom_zeros ms hall, length_combos]; unfold odoFuel; omega)
  rw [this, suffixFrom_zeros ms hall]
  simp

end GrmVerif.Impl
