import GrmVerif.Model.OrderIndep
/-! Specification definitions and helper lemmas for C15 (core Lean only). -/
namespace GrmVerif.OrderIndep

/-- `Reach edges start x`: `x` can be reached from `start` along edges (reflexive-transitive) -/
inductive Reach (edges : Nat → List Nat) (start : Nat) : Nat → Prop
  | refl : Reach edges start start
  | step {x y : Nat} : Reach edges start x → y ∈ edges x → Reach edges start y

/-- specification of the `%avoid_insert` vector: bit `i` is set iff `i` is one of the keys -/
def avoidInsertSpec (ntoks : Nat) (keys : List Nat) : List Bool :=
  (List.range ntoks).map (fun i => keys.contains i)

/-- specification of the numbering of the `~: T ~` productions: the production of token `t` has index
`base +` the number of implicit tokens with a smaller index (no reference to any order) -/
def implicitProdsSpec (base ntoks : Nat) (keys : List Nat) : List (Nat × Nat) × Nat :=
  ((List.range ntoks).filterMap (fun t =>
      if keys.contains t then some (base + (keys.filter (· < t)).length, t) else none),
   base + keys.length)

theorem foldl_setBit_perm {o₁ o₂ : List Nat} (h : o₁.Perm o₂) :
    ∀ v : List Bool, o₁.foldl setBit v = o₂.foldl setBit v := by
  induction h with
  | nil => intro v; rfl
  | cons x _ ih => intro v; simp only [List.foldl_cons]; exact ih _
  | swap x y l =>
    intro v
    simp only [List.foldl_cons, setBit]
    by_cases hxy : x = y
    · subst hxy; rfl
    · rw [List.set_comm _ _ (fun h => hxy h.symm)]
  | trans _ _ ih₁ ih₂ => intro v; rw [ih₁, ih₂]

theorem insertSorted_comm (x y : Nat) (l : List Nat) :
    insertSorted x (insertSorted y l) = insertSorted y (insertSorted x l) := by
  induction l with
  | nil =>
    simp only [insertSorted]
    by_cases h1 : x ≤ y <;> by_cases h2 : y ≤ x <;> simp [h1, h2]
    · omega
    · omega
  | cons z l ih =>
    simp only [insertSorted]
    by_cases h1 : x ≤ z <;> by_cases h2 : y ≤ z <;> by_cases h3 : x ≤ y <;> by_cases h4 : y ≤ x <;>
      simp [h1, h2, h3, h4, insertSorted, ih] <;> omega

theorem sortNat_perm_eq {o₁ o₂ : List Nat} (h : o₁.Perm o₂) : sortNat o₁ = sortNat o₂ := by
  induction h with
  | nil => rfl
  | cons x _ ih => simp only [sortNat, ih]
  | swap x y l => simp only [sortNat]; exact insertSorted_comm y x _
  | trans _ _ ih₁ ih₂ => rw [ih₁, ih₂]

theorem insertSorted_perm (x : Nat) (l : List Nat) : (insertSorted x l).Perm (x :: l) := by
  induction l with
  | nil => exact List.Perm.refl _
  | cons y ys ih =>
    simp only [insertSorted]
    split
    · exact List.Perm.refl _
    · exact (List.Perm.cons y ih).trans (List.Perm.swap x y ys)

theorem sortNat_perm (l : List Nat) : (sortNat l).Perm l := by
  induction l with
  | nil => exact List.Perm.refl _
  | cons x xs ih => exact (insertSorted_perm x _).trans (List.Perm.cons x ih)

theorem insertSorted_sorted (x : Nat) (l : List Nat) (h : l.Pairwise (· ≤ ·)) :
    (insertSorted x l).Pairwise (· ≤ ·) := by
  induction l with
  | nil => simp [insertSorted]
  | cons y ys ih =>
    simp only [insertSorted]
    have hy := List.pairwise_cons.mp h
    split
    · rename_i hxy
      refine List.pairwise_cons.mpr ⟨?_, h⟩
      intro a ha
      cases ha with
      | head => exact hxy
      | tail _ ha => exact Nat.le_trans hxy (hy.1 a ha)
    · rename_i hxy
      refine List.pairwise_cons.mpr ⟨?_, ih hy.2⟩
      intro a ha
      have := (insertSorted_perm x ys).mem_iff.mp ha
      cases this with
      | head => omega
      | tail _ ha => exact hy.1 a ha

theorem sortNat_sorted (l : List Nat) : (sortNat l).Pairwise (· ≤ ·) := by
  induction l with
  | nil => simp [sortNat]
  | cons x xs ih => exact insertSorted_sorted x _ ih

theorem number_snd (b : Nat) (l : List Nat) : (number b l).map Prod.snd = l := by
  induction l generalizing b with
  | nil => rfl
  | cons t ts ih => simp [number, ih]

theorem number_fst (b : Nat) (l : List Nat) : (number b l).map Prod.fst = List.range' b l.length := by
  induction l generalizing b with
  | nil => rfl
  | cons t ts ih => simp [number, ih, List.range'_succ]

/-- the invariant of the `gc` loop -/
structure GcInv (edges : Nat → List Nat) (start : Nat) (todo seen : List Nat) : Prop where
  sound : ∀ x, x ∈ todo ∨ x ∈ seen → Reach edges start x
  start : start ∈ todo ∨ start ∈ seen
  closed : ∀ x, x ∈ seen → ∀ y, y ∈ edges x → y ∈ seen ∨ y ∈ todo

theorem gcInv_step {edges : Nat → List Nat} {start : Nat} {todo seen : List Nat} {s : Nat}
    (hs : s ∈ todo) (inv : GcInv edges start todo seen) :
    GcInv edges start
      (todo.filter (fun x => x != s) ++ (edges s).filter (fun x => !(s :: seen).contains x)) (s :: seen) := by
  refine ⟨?_, ?_, ?_⟩
  · intro x hx
    rcases hx with hx | hx
    · rcases List.mem_append.mp hx with hx | hx
      · exact inv.sound x (Or.inl (List.mem_filter.mp hx).1)
      · exact Reach.step (inv.sound s (Or.inl hs)) (List.mem_filter.mp hx).1
    · cases hx with
      | head => exact inv.sound s (Or.inl hs)
      | tail _ hx => exact inv.sound x (Or.inr hx)
  · rcases inv.start with h | h
    · by_cases e : start = s
      · exact Or.inr (e ▸ List.mem_cons_self)
      · exact Or.inl (List.mem_append.mpr (Or.inl (List.mem_filter.mpr ⟨h, by simpa using e⟩)))
    · exact Or.inr (List.mem_cons_of_mem _ h)
  · intro x hx y hy
    have key : ∀ y, y ∈ seen ∨ y ∈ todo →
        y ∈ s :: seen ∨ y ∈ todo.filter (fun x => x != s) ++ (edges s).filter (fun x => !(s :: seen).contains x) := by
      intro y h
      rcases h with h | h
      · exact Or.inl (List.mem_cons_of_mem _ h)
      · by_cases e : y = s
        · exact Or.inl (e ▸ List.mem_cons_self)
        · exact Or.inr (List.mem_append.mpr (Or.inl (List.mem_filter.mpr ⟨h, by simpa using e⟩)))
    cases hx with
    | head =>
      by_cases hc : y ∈ s :: seen
      · exact Or.inl hc
      · refine Or.inr (List.mem_append.mpr (Or.inr (List.mem_filter.mpr ⟨hy, ?_⟩)))
        simpa using hc
    | tail _ hx => exact key y (inv.closed x hx y hy)

theorem gcLoop_spec {edges : Nat → List Nat} {σ : List Nat → List Nat} (hσ : ∀ l, (σ l).Perm l)
    {start : Nat} : ∀ (fuel : Nat) (todo seen r : List Nat), GcInv edges start todo seen →
      gcLoop edges σ fuel todo seen = some r → ∀ x, x ∈ r ↔ Reach edges start x := by
  intro fuel
  induction fuel with
  | zero => intro todo seen r _ h; simp [gcLoop] at h
  | succ fuel ih =>
    intro todo seen r inv h
    unfold gcLoop at h
    split at h
    · rename_i hnil
      have htodo : todo = [] := by
        have := hσ todo
        rw [hnil] at this
        exact List.Perm.nil_eq this |>.symm
      subst htodo
      cases h
      intro x
      constructor
      · intro hx; exact inv.sound x (Or.inr hx)
      · intro hx
        induction hx with
        | refl => rcases inv.start with h | h
                  · cases h
                  · exact h
        | step _ hy ihx =>
          rcases inv.closed _ ihx _ hy with h | h
          · exact h
          · cases h
    · rename_i s rest hcons
      have hs : s ∈ todo := by
        have := (hσ todo).mem_iff (a := s)
        rw [hcons] at this
        exact this.mp List.mem_cons_self
      exact ih _ _ r (gcInv_step hs inv) h

theorem fillCells_perm {e₁ e₂ : List (Nat × Nat)} (h : e₁.Perm e₂) :
    (e₁.map Prod.fst).Nodup → ∀ tbl : List Nat, fillCells tbl e₁ = fillCells tbl e₂ := by
  unfold fillCells
  induction h with
  | nil => intro _ tbl; rfl
  | cons x _ ih =>
    intro hnd tbl
    simp only [List.foldl_cons]
    exact ih (List.nodup_cons.mp (by simpa using hnd)).2 _
  | swap x y l =>
    intro hnd tbl
    simp only [List.foldl_cons]
    have hne : y.1 ≠ x.1 := by
      simp only [List.map_cons, List.nodup_cons, List.mem_cons] at hnd
      intro e; exact hnd.1 (Or.inl e)
    rw [List.set_comm _ _ hne]
  | trans h₁ _ ih₁ ih₂ =>
    intro hnd tbl
    rw [ih₁ hnd, ih₂ ((h₁.map Prod.fst).nodup_iff.mp hnd)]

end GrmVerif.OrderIndep
