import GrmVerif.Lemmas.Newline3
/-! `span_line_bytes` = specification, on strictly increasing newline lists starting with 0. -/
namespace GrmVerif.Newline

theorem lineStart_getElem (L : List Nat) (b : Nat) (hs : L.Pairwise (· < ·))
    (hk : 0 < L.countP (· ≤ b)) :
    L[L.countP (· ≤ b) - 1]? = some (lineStartOf L b) := by
  have hle : L.countP (· ≤ b) ≤ L.length := List.countP_le_length
  rw [getLast?_take_eq_getElem? L _ hk hle, sorted_take_countP_le L b hs]
  unfold lineStartOf
  have hne : L.filter (· ≤ b) ≠ [] := by
    intro h
    have : (L.filter (· ≤ b)).length = 0 := by simp [h]
    rw [← List.countP_eq_length_filter] at this; omega
  cases hfl : (L.filter (· ≤ b)).getLast? with
  | none => exact absurd (List.getLast?_eq_none_iff.mp hfl) hne
  | some v => simp

theorem lineEnd_getElem (L : List Nat) (len e : Nat) (hs : L.Pairwise (· < ·)) :
    (if L.countP (· ≤ e) = L.length then some len else L[L.countP (· ≤ e)]?.map (· - 1))
      = some (lineEndOf L len e) := by
  unfold lineEndOf
  rw [← sorted_drop_countP_le L e hs, head?_drop]
  split
  · next h => simp [h]
  · next h =>
    have hlt : L.countP (· ≤ e) < L.length := by
      have : L.countP (· ≤ e) ≤ L.length := List.countP_le_length
      omega
    simp [List.getElem?_eq_getElem hlt]

theorem spanLineBytes_spec (c : Cache) (start stop : Nat)
    (hs : c.newlines.Pairwise (· < ·)) (h0 : 0 ∈ c.newlines) (hle : start ≤ stop) :
    spanLineBytes c start stop =
      some (lineStartOf c.newlines start, lineEndOf c.newlines (lastNl c + c.trailing) stop) := by
  obtain ⟨L, tr⟩ := c
  simp only at hs h0 ⊢
  have hk1 : 0 < L.countP (· ≤ start) := List.countP_pos_iff.mpr ⟨0, h0, by simp⟩
  -- first binary search
  have hr1 : spanStart L start = some (lineStartOf L start, L.countP (· ≤ start)) := by
    unfold spanStart bsearch
    by_cases hm : start ∈ L
    · have hc : L.contains start = true := by simpa using hm
      have hcnt := countP_lt_add_one_of_mem L start hs hm
      have hg := lineStart_getElem L start hs hk1
      simp only [hc, ↓reduceIte]
      rw [hcnt] at hg; simp only [Nat.add_sub_cancel] at hg
      rw [hg, hcnt]; rfl
    · have hc : L.contains start = false := by simpa using hm
      have hcnt := countP_le_eq_lt_of_not_mem L start hm
      have hg := lineStart_getElem L start hs hk1
      simp only [hc, Bool.false_eq_true, ↓reduceIte]
      rw [← hcnt]
      have : ¬ L.countP (· ≤ start) = 0 := by omega
      simp only [this, ↓reduceIte, hg]; rfl
  unfold spanLineBytes
  simp only [hr1]
  -- second binary search, on the tail
  have hD := sorted_drop_countP_le L start hs
  have hen : spanEnd L (lastNl ⟨L, tr⟩ + tr) (L.countP (· ≤ start)) stop
      = some (lineEndOf L (lastNl ⟨L, tr⟩ + tr) stop) := by
    rw [← lineEnd_getElem L _ stop hs]
    unfold spanEnd bsearch
    rw [hD, List.countP_filter]
    by_cases hm : stop ∈ L.filter (fun y => start < y)
    · have hc : (L.filter (fun y => decide (start < y))).contains stop = true := by simpa using hm
      simp only [hc, ↓reduceIte]
      obtain ⟨hmL, hlt⟩ : stop ∈ L ∧ start < stop := by simpa using hm
      have h1 := countP_split L start stop hlt
      have h2 := countP_lt_add_one_of_mem L stop hs hmL
      have hpos : 0 < L.length := List.length_pos_of_mem h0
      have e1 : L.countP (· ≤ start) + L.countP (fun y => decide (y < stop) && decide (start < y))
          = L.countP (· ≤ stop) - 1 := by omega
      have e2 : L.countP (· ≤ stop) - 1 + 1 = L.countP (· ≤ stop) := by omega
      rw [e1, e2]
      by_cases hk : L.countP (· ≤ stop) = L.length
      · have : L.countP (· ≤ stop) - 1 = L.length - 1 := by omega
        simp [hk]
      · have : ¬ L.countP (· ≤ stop) - 1 = L.length - 1 := by omega
        simp [hk, this]
    · have hc : (L.filter (fun y => decide (start < y))).contains stop = false := by simpa using hm
      simp only [hc, Bool.false_eq_true, ↓reduceIte]
      have h1 := countP_split_le L start stop hle
      have h3 : L.countP (fun y => decide (y < stop) && decide (start < y))
          = L.countP (fun y => decide (y ≤ stop) && decide (start < y)) := by
        apply List.countP_congr
        intro y hy
        have : ¬ (y = stop ∧ start < y) := by
          rintro ⟨rfl, h⟩; exact hm (by simpa using ⟨hy, h⟩)
        simp only [Bool.and_eq_true, decide_eq_true_eq]
        constructor
        · rintro ⟨a, b⟩; exact ⟨by omega, b⟩
        · rintro ⟨a, b⟩; refine ⟨?_, b⟩
          rcases Nat.lt_or_eq_of_le a with h | h
          · exact h
          · exact absurd ⟨h, b⟩ this
      rw [h3, h1]
  simp only [hen, Option.map_some]

end GrmVerif.Newline
