import GrmVerif.Lemmas.SearchImpl4
/-!
The two loops of the modelled `dijkstra` (`phase1`, `phase2`).

Invariant ("tracking"): every TARGET — a complete repair sequence `seq` of representable cost `K` in
the implementation's search graph — has a prefix that is represented in `todo` (in the bucket of the
prefix' cost). Popping a node that is not a success and pushing its neighbours keeps every target
tracked (by the same prefix, or by the prefix extended with the target's next repair); node merging
keeps everything represented (`upsert_spec`). Buckets below the current cost stay empty because every
neighbour costs at least as much as the node it comes from. Hence: when bucket `c` runs empty no
target costs `c`; when a success node is popped from bucket `c` no target costs less than `c`, and the
second loop — which only follows Shifts — still reaches every target of cost `c`, because Inserts and
Deletes cost at least 1.
-/
namespace GrmVerif.SearchImpl
open GrmVerif LR Rec RankImpl

variable {E : Env} {start : Pos}

/-- a complete repair sequence of representable cost in the implementation's search graph -/
def Target (E : Env) (start : Pos) (seq : List Repair) (K : Nat) : Prop :=
  ISearch E.G E.A E.w E.cost E.N start K seq ∧ K ≤ U16MAX

def Tracked (I : List Repair → Prop) (seq : List Repair) : Prop := ∃ p, p <+: seq ∧ I p

/-- what is established about a returned node -/
def ResOK (E : Env) (start : Pos) (c : Nat) (m : PNode) : Prop :=
  m.cf = c ∧ NodeInv E start m ∧ success E m = .ok true

theorem Step.shift_of_cost_zero (hcost : ∀ t, 1 ≤ E.cost t) {a a' : Node} {r : Repair}
    (h : Step E.G E.A E.w E.cost E.N a r a' 0) : r = .shift := by
  generalize hz : (0 : Nat) = z at h
  cases h with
  | shift _ _ _ => rfl
  | insert t _ _ _ _ _ _ => have := hcost t; omega
  | delete t _ _ => have := hcost t; omega

/-- decompose a target along a represented prefix -/
theorem target_split {m : PNode} {p seq : List Repair} {K : Nat} (hm : NodeInv E start m)
    (hp : p ∈ seqs m.repairs) (hpre : p <+: seq) (ht : Target E start seq K) :
    ∃ np nf q k₂, seq = p ++ q ∧ IPath E.G E.A E.w E.cost E.N (root start) p np m.cf ∧
      IPath E.G E.A E.w E.cost E.N np q nf k₂ ∧ K = m.cf + k₂ ∧
      isSuccess E.G E.A E.w E.N nf = true ∧ np.c.pos = m.laidx ∧ np.trail = numShifts m.repairs ∧
      StackRel E np m := by
  obtain ⟨q, rfl⟩ := hpre
  obtain ⟨⟨nf, hpath, hsucc⟩, _⟩ := ht
  obtain ⟨np, h1, h2, h3, _, h5, _⟩ := hm.1 p hp
  obtain ⟨mid, k₁, k₂, s1, s2, e⟩ := IPath.split hpath
  obtain ⟨rfl, rfl⟩ := IPath.det s1 h1
  exact ⟨mid, nf, q, k₂, rfl, h1, s2, e, hsucc, h2, h3, h5⟩

/-- the cost of a target is at least the cost of any represented prefix of it -/
theorem target_cost_ge {k K : Nat} {b : Bucket} {p seq : List Repair} (hb : BucketOK E start k b)
    (hin : InBucket b p) (hpre : p <+: seq) (ht : Target E start seq K) : k ≤ K := by
  obtain ⟨e, he, hp⟩ := hin
  obtain ⟨e1, _, e3⟩ := hb e he
  obtain ⟨_, _, _, k₂, _, _, _, hK, _⟩ := target_split e3 hp hpre ht
  omega

/-- a success node represents only whole targets of its own cost -/
theorem tracked_success (H : Hyps E start) {m : PNode} {p seq : List Repair} (hm : NodeInv E start m)
    (hs : success E m = .ok true) (hp : p ∈ seqs m.repairs) (hpre : p <+: seq)
    (ht : Target E start seq m.cf) : p = seq := by
  obtain ⟨np, nf, q, k₂, rfl, _, h2, hK, _, hpos, htr, hrel⟩ := target_split hm hp hpre ht
  have hk : k₂ = 0 := by omega
  subst hk
  cases q with
  | nil => simp
  | cons r q' =>
    exfalso
    obtain ⟨a', c0, k, hst, _, e⟩ := h2.cons_inv
    have hns := hst.not_succ
    rcases hrel with hrel | ⟨hrel, _⟩
    · rw [success_of_stack_eq hs hrel hpos htr] at hns; cases hns
    · have hsucc : isSuccess E.G E.A E.w E.N np = true := by
        simp only [isSuccess, hrel, Bool.or_true]
      have := hst.cost_pos_of_isSuccess H.cost_pos hsucc
      omega

/-- **expanding a popped node keeps its targets tracked** (first loop: all neighbours; second loop:
neighbours of the same cost, for targets of that cost) -/
theorem expand_tracks (H : Hyps E start) {m : PNode} (hm : NodeInv E start m)
    (hs : success E m = .ok false) {b : Bool} {nbrs : List (Nat × PNode)}
    (h : neighbours E b m = .ok nbrs) {p seq : List Repair} {K : Nat} (hp : p ∈ seqs m.repairs)
    (hpre : p <+: seq) (ht : Target E start seq K) (hb : b = true ∨ K = m.cf) :
    ∃ x ∈ nbrs, ∃ p', p' <+: seq ∧ p' ∈ seqs x.2.repairs ∧ (K = m.cf → x.1 = m.cf) := by
  obtain ⟨np, nf, q, k₂, rfl, h1, h2, hK, hsucc, _, _, _⟩ := target_split hm hp hpre ht
  cases q with
  | nil =>
    obtain ⟨rfl, _⟩ := h2.nil_inv
    obtain ⟨x, hx, hx1, hx2⟩ := neighbours_complete_late hm hs h hp h1 hsucc
    exact ⟨x, hx, p, by simp, by rw [hx2]; exact hp, fun _ => hx1⟩
  | cons r q' =>
    obtain ⟨a', c0, k, hst, hrest, e⟩ := h2.cons_inv
    have hc : m.cf + c0 ≤ U16MAX := by have := ht.2; omega
    have hb' : b = true ∨ r = .shift := by
      rcases hb with hb | hb
      · exact Or.inl hb
      · right
        have : c0 = 0 := by omega
        subst this
        exact Step.shift_of_cost_zero H.cost_pos hst
    obtain ⟨x, hx, hx1, hx2⟩ := neighbours_complete_step H hm hs h hp h1 hst hb' hc
    refine ⟨x, hx, p ++ [r], ?_, hx2, ?_⟩
    · exact ⟨q', by simp⟩
    · intro e; rw [hx1]; omega

/-! ### the second loop -/

theorem phase2_spec (H : Hyps E start) : ∀ (fuel c : Nat) (b : Bucket) (scs res : List PNode),
    BucketOK E start c b → (∀ m ∈ scs, ResOK E start c m) → phase2 E fuel c b scs = .ok res →
    (∀ m ∈ res, ResOK E start c m) ∧ (∀ m ∈ scs, m ∈ res) ∧
    ∀ seq, Target E start seq c →
      (Tracked (InBucket b) seq ∨ ∃ m ∈ scs, seq ∈ seqs m.repairs) → ∃ m ∈ res, seq ∈ seqs m.repairs := by
  intro fuel
  induction fuel with
  | zero => intro c b scs res _ _ h; simp [phase2] at h
  | succ fuel ih =>
    intro c b scs res hb hscs h
    simp only [phase2] at h
    cases hpop : popLast b with
    | none =>
      rw [hpop] at h
      simp only at h
      injection h with h
      subst h
      have := popLast_none hpop
      subst this
      refine ⟨hscs, fun m hm => hm, ?_⟩
      rintro seq _ (⟨p, _, e, he, _⟩ | h)
      · cases he
      · exact h
    | some v =>
      obtain ⟨b', n⟩ := v
      rw [hpop] at h
      simp only at h
      obtain ⟨k0, rfl⟩ := popLast_some hpop
      have hb' : BucketOK E start c b' := fun e he => hb e (List.mem_append_left _ he)
      obtain ⟨n1, _, n3⟩ := hb (k0, n) (by simp)
      simp only at n1 n3
      cases hsucc : success E n with
      | panic => rw [hsucc] at h; cases h
      | fuelOut => rw [hsucc] at h; cases h
      | ok sb =>
        rw [hsucc] at h
        cases sb with
        | true =>
          simp only at h
          have hscs' : ∀ m ∈ scs ++ [n], ResOK E start c m := by
            intro m hm
            rcases List.mem_append.mp hm with hm | hm
            · exact hscs m hm
            · simp only [List.mem_singleton] at hm; subst hm; exact ⟨n1, n3, hsucc⟩
          obtain ⟨i1, i2, i3⟩ := ih c b' (scs ++ [n]) res hb' hscs' h
          refine ⟨i1, fun m hm => i2 m (List.mem_append_left _ hm), ?_⟩
          intro seq ht htr
          apply i3 seq ht
          rcases htr with ⟨p, hpre, e, he, hp⟩ | ⟨m, hm, hseq⟩
          · rcases List.mem_append.mp he with he | he
            · exact Or.inl ⟨p, hpre, e, he, hp⟩
            · simp only [List.mem_singleton] at he
              subst he
              simp only at hp
              have := tracked_success H n3 hsucc hp hpre (by rw [n1]; exact ht)
              subst this
              exact Or.inr ⟨n, by simp, hp⟩
          · exact Or.inr ⟨m, List.mem_append_left _ hm, hseq⟩
        | false =>
          simp only at h
          cases hnb : neighbours E false n with
          | panic => rw [hnb] at h; cases h
          | fuelOut => rw [hnb] at h; cases h
          | ok nbrs =>
            rw [hnb] at h
            simp only at h
            cases hu : upsertAll c b' nbrs with
            | none => rw [hu] at h; cases h
            | some b'' =>
              rw [hu] at h
              simp only at h
              have hsound := neighbours_sound H n3 hsucc hnb
              obtain ⟨u1, u2, u3⟩ := upsertAll_spec H (fun x hx => ⟨(hsound x hx).1, (hsound x hx).2.2⟩) hb' hu
              obtain ⟨i1, i2, i3⟩ := ih c b'' scs res u1 hscs h
              refine ⟨i1, i2, ?_⟩
              intro seq ht htr
              apply i3 seq ht
              rcases htr with ⟨p, hpre, e, he, hp⟩ | hr
              · rcases List.mem_append.mp he with he | he
                · exact Or.inl ⟨p, hpre, u2 p ⟨e, he, hp⟩⟩
                · simp only [List.mem_singleton] at he
                  subst he
                  simp only at hp
                  obtain ⟨x, hx, p', hp'1, hp'2, hp'3⟩ :=
                    expand_tracks H n3 hsucc hnb hp hpre ht (Or.inr n1.symm)
                  exact Or.inl ⟨p', hp'1, u3 x hx (by rw [hp'3 n1.symm, n1]) p' hp'2⟩
              · exact Or.inr hr

/-! ### the first loop -/

theorem bk_of_get {todo : Array Bucket} {c : Nat} {b : Bucket} (h : todo[c]? = some b) :
    bk todo c = b ∧ c < todo.size := by
  refine ⟨by simp [bk, h], ?_⟩
  by_cases hlt : c < todo.size
  · exact hlt
  · rw [Array.getElem?_eq_none (by omega)] at h; cases h

theorem bk_set {todo : Array Bucket} {c : Nat} (b' : Bucket) (hc : c < todo.size) (k : Nat) :
    bk (todo.setIfInBounds c b') k = if k = c then b' else bk todo k := by
  simp only [bk]
  rw [Array.getElem?_setIfInBounds]
  by_cases hk : k = c
  · subst hk; simp [hc]
  · rw [if_neg (fun e => hk e.symm), if_neg hk]

theorem bk_beyond {todo : Array Bucket} {k : Nat} (h : todo.size ≤ k) : bk todo k = [] := by
  simp only [bk]
  rw [Array.getElem?_eq_none h]
  rfl

/-- what the search establishes when it ends properly -/
def SearchResult (E : Env) (start : Pos) (res : List PNode) : Prop :=
  (res = [] → ∀ seq K, ¬ Target E start seq K) ∧
  (res ≠ [] → ∃ c, c ≤ U16MAX ∧ (∀ m ∈ res, ResOK E start c m) ∧ (∀ seq K, Target E start seq K → c ≤ K) ∧
    ∀ seq, Target E start seq c → ∃ m ∈ res, seq ∈ seqs m.repairs)

theorem phase1_spec (H : Hyps E start) : ∀ (fuel : Nat) (todo : Array Bucket) (c : Nat) (res : List PNode),
    TodoOK E start todo → (∀ k, k < c → bk todo k = []) →
    (∀ seq K, Target E start seq K → Tracked (InTodo todo) seq) → c ≤ U16MAX →
    phase1 E fuel todo c = .ok res → SearchResult E start res := by
  intro fuel
  induction fuel with
  | zero => intro todo c res _ _ _ _ h; simp [phase1] at h
  | succ fuel ih =>
    intro todo c res hok hlow htr hcu h
    simp only [phase1] at h
    cases hget : todo[c]? with
    | none => rw [hget] at h; cases h
    | some b =>
      rw [hget] at h
      simp only at h
      obtain ⟨hbk, hsz⟩ := bk_of_get hget
      -- where a target is tracked
      have hwhere : ∀ seq K, Target E start seq K →
          ∃ p k, p <+: seq ∧ InBucket (bk todo k) p ∧ c ≤ k ∧ k ≤ K ∧ k < todo.size := by
        intro seq K ht
        obtain ⟨p, hpre, k, hin⟩ := htr seq K ht
        refine ⟨p, k, hpre, hin, ?_, target_cost_ge (hok k) hin hpre ht, ?_⟩
        · by_cases hck : c ≤ k
          · exact hck
          · rw [hlow k (by omega)] at hin
            obtain ⟨e, he, _⟩ := hin
            cases he
        · by_cases hks : k < todo.size
          · exact hks
          · rw [bk_beyond (by omega)] at hin
            obtain ⟨e, he, _⟩ := hin
            cases he
      cases hpop : popLast b with
      | none =>
        rw [hpop] at h
        simp only at h
        have hbe := popLast_none hpop
        have hck : ∀ seq K, Target E start seq K → ∃ p k, p <+: seq ∧ InBucket (bk todo k) p ∧
            c + 1 ≤ k ∧ k ≤ K ∧ k < todo.size := by
          intro seq K ht
          obtain ⟨p, k, h1, h2, h3, h4, h5⟩ := hwhere seq K ht
          refine ⟨p, k, h1, h2, ?_, h4, h5⟩
          by_cases hkc : k = c
          · subst hkc
            rw [hbk, hbe] at h2
            obtain ⟨e, he, _⟩ := h2
            cases he
          · omega
        by_cases h1 : c + 1 > U16MAX
        · rw [if_pos h1] at h
          injection h with h
          subst h
          refine ⟨fun _ seq K ht => ?_, fun hne => absurd rfl hne⟩
          obtain ⟨p, k, _, _, h3, h4, _⟩ := hck seq K ht
          have := ht.2
          omega
        · rw [if_neg h1] at h
          by_cases h2 : (c + 1 == todo.size) = true
          · rw [if_pos h2] at h
            injection h with h
            subst h
            simp only [beq_iff_eq] at h2
            refine ⟨fun _ seq K ht => ?_, fun hne => absurd rfl hne⟩
            obtain ⟨p, k, _, _, h3, _, h5⟩ := hck seq K ht
            omega
          · rw [if_neg h2] at h
            refine ih todo (c + 1) res hok ?_ htr (by omega) h
            intro k hk
            by_cases hkc : k = c
            · subst hkc; rw [hbk, hbe]
            · exact hlow k (by omega)
      | some v =>
        obtain ⟨b', n⟩ := v
        rw [hpop] at h
        simp only at h
        obtain ⟨k0, hbeq⟩ := popLast_some hpop
        have hbok : BucketOK E start c b := by rw [← hbk]; exact hok c
        have hb' : BucketOK E start c b' := fun e he => hbok e (by rw [hbeq]; exact List.mem_append_left _ he)
        obtain ⟨n1, _, n3⟩ := hbok (k0, n) (by rw [hbeq]; simp)
        simp only at n1 n3
        cases hsucc : success E n with
        | panic => rw [hsucc] at h; cases h
        | fuelOut => rw [hsucc] at h; cases h
        | ok sb =>
          rw [hsucc] at h
          cases sb with
          | true =>
            simp only at h
            obtain ⟨i1, i2, i3⟩ := phase2_spec H fuel c b' [n] res hb'
              (by intro m hm; simp only [List.mem_singleton] at hm; subst hm; exact ⟨n1, n3, hsucc⟩) h
            have hne : res ≠ [] := by
              intro e
              have := i2 n (by simp)
              rw [e] at this
              cases this
            refine ⟨fun e => absurd e hne, fun _ => ⟨c, hcu, i1, ?_, ?_⟩⟩
            · intro seq K ht
              obtain ⟨_, k, _, _, h3, h4, _⟩ := hwhere seq K ht
              omega
            · intro seq ht
              apply i3 seq ht
              obtain ⟨p, k, h1, h2, h3, h4, _⟩ := hwhere seq c ht
              have hkc : k = c := by omega
              subst hkc
              rw [hbk, hbeq] at h2
              obtain ⟨e, he, hp⟩ := h2
              rcases List.mem_append.mp he with he | he
              · exact Or.inl ⟨p, h1, e, he, hp⟩
              · simp only [List.mem_singleton] at he
                subst he
                simp only at hp
                have := tracked_success H n3 hsucc hp h1 (by rw [n1]; exact ht)
                subst this
                exact Or.inr ⟨n, by simp, hp⟩
          | false =>
            simp only at h
            cases hnb : neighbours E true n with
            | panic => rw [hnb] at h; cases h
            | fuelOut => rw [hnb] at h; cases h
            | ok nbrs =>
              rw [hnb] at h
              simp only at h
              cases hpa : pushAll (todo.setIfInBounds c b') nbrs with
              | none => rw [hpa] at h; cases h
              | some todo' =>
                rw [hpa] at h
                simp only at h
                have hsound := neighbours_sound H n3 hsucc hnb
                have hok1 : TodoOK E start (todo.setIfInBounds c b') := by
                  intro k
                  rw [bk_set b' hsz k]
                  by_cases hk : k = c
                  · subst hk; rw [if_pos rfl]; exact hb'
                  · rw [if_neg hk]; exact hok k
                obtain ⟨p1, p2, p3, p4, _⟩ :=
                  pushAll_spec H (fun x hx => ⟨(hsound x hx).1, (hsound x hx).2.2⟩) hok1 hpa
                refine ih todo' c res p1 ?_ ?_ hcu h
                · intro k hk
                  rw [p4 k ?_, bk_set b' hsz k, if_neg (by omega)]
                  · exact hlow k hk
                  · intro x hx e
                    have := hsound x hx
                    omega
                · intro seq K ht
                  obtain ⟨p, hpre, k, e, he, hp⟩ := htr seq K ht
                  by_cases hen : k = c ∧ e = (k0, n)
                  · obtain ⟨rfl, rfl⟩ := hen
                    simp only at hp
                    obtain ⟨x, hx, p', hp'1, hp'2, _⟩ :=
                      expand_tracks H n3 hsucc hnb hp hpre ht (Or.inl rfl)
                    exact ⟨p', hp'1, p3 x hx p' hp'2⟩
                  · refine ⟨p, hpre, p2 p ⟨k, e, ?_, hp⟩⟩
                    rw [bk_set b' hsz k]
                    by_cases hk : k = c
                    · subst hk
                      rw [if_pos rfl]
                      rw [hbk, hbeq] at he
                      rcases List.mem_append.mp he with he | he
                      · exact he
                      · simp only [List.mem_singleton] at he
                        exact absurd ⟨rfl, he⟩ hen
                    · rw [if_neg hk]; exact he

/-- **What `dijkstra` establishes** -/
theorem dijkstra_spec (H : Hyps E start) {fuel : Nat} {res : List PNode}
    (h : dijkstra E fuel start = .ok res) : SearchResult E start res := by
  unfold dijkstra at h
  have hb0 : bk #[[(startNode start, startNode start)]] 0 = [(startNode start, startNode start)] := rfl
  have hbk : ∀ k, k ≠ 0 → bk #[[(startNode start, startNode start)]] k = [] := by
    intro k hk
    exact bk_beyond (by simp; omega)
  refine phase1_spec H fuel _ 0 res ?_ (fun k hk => by omega) ?_ (Nat.zero_le _) h
  · intro k
    by_cases hk : k = 0
    · subst hk
      rw [hb0]
      intro e he
      simp only [List.mem_singleton] at he
      subst he
      exact ⟨rfl, rfl, nodeInv_start H.pos⟩
    · rw [hbk k hk]
      intro e he
      cases he
  · intro seq K _
    refine ⟨[], List.nil_prefix, 0, (startNode start, startNode start), by rw [hb0]; simp, ?_⟩
    simp [startNode, seqs]

end GrmVerif.SearchImpl
