import GrmVerif.Lemmas.YaccBuild4
/-!
C10, stage A: the steps for the rules cfgrammar adds, and the state of the main loop when it has run
over `rule_names` (first the added rules, then the user's rules).
-/
namespace GrmVerif.YaccBuild
open GrmVerif

theorem stepStart_eq {c : Ctx} {st st' : St} {ridx : Nat} (h : stepStart c st ridx = some st') :
    ∃ l tgt, st.rulesProds[ridx]? = some l ∧ c.rmap (c.implStartName.getD c.userStart) = some tgt ∧
      st' = { slots := st.slots ++ [some (addedRec [.rule tgt] ridx)],
              rulesProds := st.rulesProds.set ridx (l ++ [st.slots.length]), actiontypes := st.actiontypes } := by
  unfold stepStart at h
  cases hp : pushAt st.rulesProds ridx st.slots.length with
  | none => simp [hp] at h
  | some rp =>
    cases ht : c.rmap (c.implStartName.getD c.userStart) with
    | none => simp [hp, ht] at h
    | some tgt =>
      simp only [hp, ht, Option.some.injEq] at h
      obtain ⟨l, hl, rfl⟩ := pushAt_eq hp
      exact ⟨l, tgt, hl, rfl, h.symm⟩

theorem stepImplStart_eq {c : Ctx} {st st' : St} {ridx : Nat} (h : stepImplStart c st ridx = some st') :
    ∃ l ir s, st.rulesProds[ridx]? = some l ∧ c.implName.bind c.rmap = some ir ∧ c.rmap c.userStart = some s ∧
      st' = { slots := st.slots ++ [some (addedRec [.rule ir, .rule s] ridx)],
              rulesProds := st.rulesProds.set ridx (l ++ [st.slots.length]), actiontypes := st.actiontypes } := by
  unfold stepImplStart at h
  cases hp : pushAt st.rulesProds ridx st.slots.length with
  | none => simp [hp] at h
  | some rp =>
    cases h1 : c.implName.bind c.rmap with
    | none => simp [hp, h1] at h
    | some ir =>
      cases h2 : c.rmap c.userStart with
      | none => simp [hp, h1, h2] at h
      | some s0 =>
        simp only [hp, h1, h2, Option.some.injEq] at h
        obtain ⟨l, hl, rfl⟩ := pushAt_eq hp
        exact ⟨l, ir, s0, hl, rfl, rfl, h.symm⟩

theorem implLoop_eq {c : Ctx} {ridx : Nat} : ∀ (ts : List Str) (st st' : St), implLoop c ridx ts st = some st' →
    ∃ (l : List Nat) (tis : List Nat), st.rulesProds[ridx]? = some l ∧ ts.map c.tmap = tis.map some ∧
      st'.slots = st.slots ++ tis.map (fun ti => some (addedRec [.tok ti, .rule ridx] ridx)) ++ [some (addedRec [] ridx)] ∧
      st'.rulesProds = st.rulesProds.set ridx (l ++ List.range' st.slots.length (ts.length + 1)) ∧
      st'.actiontypes = st.actiontypes := by
  intro ts
  induction ts with
  | nil =>
    intro st st' h
    simp only [implLoop] at h
    cases hp : pushAt st.rulesProds ridx st.slots.length with
    | none => simp [hp] at h
    | some rp =>
      simp only [hp, Option.some.injEq] at h
      subst h
      obtain ⟨l, hl, rfl⟩ := pushAt_eq hp
      exact ⟨l, [], hl, rfl, by simp, by simp [List.range'], rfl⟩
  | cons t ts ih =>
    intro st st' h
    simp only [implLoop] at h
    cases hp : pushAt st.rulesProds ridx st.slots.length with
    | none => simp [hp] at h
    | some rp =>
      cases ht : c.tmap t with
      | none => simp [hp, ht] at h
      | some ti =>
        simp only [hp, ht] at h
        obtain ⟨l, hl, rfl⟩ := pushAt_eq hp
        obtain ⟨l1, tis, h1, h2, h3, h4, h5⟩ := ih _ _ h
        simp only at h1 h2 h3 h4 h5
        have hr : ridx < st.rulesProds.length := (List.getElem?_eq_some_iff.mp hl).1
        rw [List.getElem?_set] at h1
        simp only [if_true, hr, Option.some.injEq] at h1
        subst h1
        refine ⟨l, ti :: tis, hl, by simp [ht, h2], ?_, ?_, h5⟩
        · rw [h3]; simp
        · rw [h4, List.set_set]
          simp only [List.length_append, List.length_cons, List.length_nil, Nat.zero_add]
          rw [List.range'_succ (s := st.slots.length)]
          simp

/-! ### the added rules run first -/

theorem mainLoop_plain {c : Ctx} {U : List Str} (ok : CtxOk c [c.startName] U)
    (his : c.implStartName = none) {st0 st : St} (h : mainLoop c (c.startName :: U) st0 = some st) :
    ∃ l tgt, st0.rulesProds[0]? = some l ∧ c.rmap c.userStart = some tgt ∧
      mainLoop c U { slots := st0.slots ++ [some (addedRec [.rule tgt] 0)],
                     rulesProds := st0.rulesProds.set 0 (l ++ [st0.slots.length]),
                     actiontypes := st0.actiontypes } = some st := by
  obtain ⟨st1, hs, hrest⟩ := mainLoop_cons_some h
  have hr : c.rmap c.startName = some 0 := rmap_special ok (by simp) (j := 0) rfl
  unfold stepRule at hs
  simp only [hr, if_true] at hs
  obtain ⟨l, tgt, h1, h2, rfl⟩ := stepStart_eq hs
  rw [his] at h2
  exact ⟨l, tgt, h1, h2, hrest⟩

theorem mainLoop_eco {c : Ctx} {U : List Str} {i s : Str} (ok : CtxOk c [c.startName, i, s] U)
    (hnd : [c.startName, i, s].Nodup) (hi : c.implName = some i) (his : c.implStartName = some s)
    {st0 st : St} (h : mainLoop c (c.startName :: i :: s :: U) st0 = some st) :
    ∃ (l0 l1 l2 tis : List Nat) (tgt : Nat),
      st0.rulesProds[0]? = some l0 ∧ st0.rulesProds[1]? = some l1 ∧ st0.rulesProds[2]? = some l2 ∧
      (c.ast.implicitTokens.getD []).map c.tmap = tis.map some ∧ c.rmap c.userStart = some tgt ∧
      mainLoop c U
        { slots := st0.slots ++ [some (addedRec [.rule 2] 0)] ++
            tis.map (fun ti => some (addedRec [.tok ti, .rule 1] 1)) ++ [some (addedRec [] 1)] ++
            [some (addedRec [.rule 1, .rule tgt] 2)],
          rulesProds := ((st0.rulesProds.set 0 (l0 ++ [st0.slots.length])).set 1
              (l1 ++ List.range' (st0.slots.length + 1) ((c.ast.implicitTokens.getD []).length + 1))).set 2
              (l2 ++ [st0.slots.length + (c.ast.implicitTokens.getD []).length + 2]),
          actiontypes := st0.actiontypes } = some st := by
  have r0 : c.rmap c.startName = some 0 := rmap_special ok hnd (j := 0) rfl
  have r1 : c.rmap i = some 1 := rmap_special ok hnd (j := 1) rfl
  have r2 : c.rmap s = some 2 := rmap_special ok hnd (j := 2) rfl
  simp only [List.nodup_cons, List.mem_cons, List.not_mem_nil, or_false, not_or] at hnd
  obtain ⟨⟨n1, n2⟩, n3, _⟩ := hnd
  -- `^`
  obtain ⟨st1, hs1, h1⟩ := mainLoop_cons_some h
  unfold stepRule at hs1
  simp only [r0, if_true] at hs1
  obtain ⟨l0, tgt0, a1, a2, rfl⟩ := stepStart_eq hs1
  simp only [his, Option.getD_some, r2, Option.some.injEq] at a2
  subst a2
  -- `~`
  obtain ⟨st2, hs2, h2⟩ := mainLoop_cons_some h1
  unfold stepRule at hs2
  simp only [r1, his, hi, Option.some.injEq, if_neg (Ne.symm n1), if_neg (Ne.symm n3), if_true] at hs2
  obtain ⟨l1, tis, b1, b2, b3, b4, b5⟩ := implLoop_eq _ _ _ hs2
  simp only at b1 b3 b4 b5
  rw [List.getElem?_set, if_neg (by omega)] at b1
  -- `^~`
  obtain ⟨st3, hs3, h3⟩ := mainLoop_cons_some h2
  unfold stepRule at hs3
  simp only [r2, his, if_neg (Ne.symm n2), if_true] at hs3
  obtain ⟨l2, ir, s0, c1, c2, c3, rfl⟩ := stepImplStart_eq hs3
  simp only [hi, Option.bind_some, r1, Option.some.injEq] at c2
  subst c2
  rw [b4, List.getElem?_set, if_neg (by omega), List.getElem?_set, if_neg (by omega)] at c1
  refine ⟨l0, l1, l2, tis, s0, a1, b1, c1, b2, c3, ?_⟩
  have hlen : tis.length = (c.ast.implicitTokens.getD []).length := by
    have := congrArg List.length b2
    simpa using this.symm
  have e1 : st2.slots.length = st0.slots.length + (c.ast.implicitTokens.getD []).length + 2 := by
    rw [b3]; simp [hlen]; omega
  rw [e1, b3, b4, b5] at h3
  simpa using h3

/-! ### the state after the added rules, for the context `buildGrammar` uses -/

/-- the productions of Eco's added rules: `^: ^~;  ~: T1 ~ | … | Tn ~ | ;  ^~: ~ S;` -/
def ecoAdded (tis : List Nat) (tgt : Nat) : List PRec :=
  addedRec [.rule 2] 0 ::
    (tis.map (fun ti => addedRec [.tok ti, .rule 1] 1) ++ [addedRec [] 1, addedRec [.rule 1, .rule tgt] 2])

/-- the productions cfgrammar adds (`added`, numbered from `a.prods.length` on) and the `rule_to_prods`
entries of the added rules (`low`), `tgt` being the rule the user's `%start` names -/
def AddedShape (cfg : Cfg) (a : AST) (k : Kind) (c : Ctx) (tgt : Nat) (added : List PRec) (low : List (List Nat)) :
    Prop :=
  (c.implName = none ∧ c.implStartName = none ∧ addedRules a k = 1 ∧
    added = [addedRec [.rule tgt] 0] ∧ low = [[a.prods.length]]) ∨
  (∃ (its : List Str) (tis : List Nat), k = .eco ∧ a.implicitTokens = some its ∧
    c.implName = some (fresh (userNames a) cfg.implicitRule) ∧
    c.implStartName = some (fresh (userNames a) cfg.implicitStartRule) ∧ addedRules a k = 3 ∧
    its.map c.tmap = tis.map some ∧ added = ecoAdded tis tgt ∧
    low = [[a.prods.length], List.range' (a.prods.length + 1) (its.length + 1), [a.prods.length + its.length + 2]])

theorem mainLoop_split {cfg : Cfg} (hc : cfgOk cfg = true) (a : AST) (k : Kind) (us : Str) {st : St}
    (h : mainLoop (mkCtx cfg a k us) ((ruleNamesOf cfg a k).map (·.1)) (st0 cfg a k) = some st) :
    ∃ (tgt : Nat) (added : List PRec) (low : List (List Nat)),
      (mkCtx cfg a k us).rmap us = some tgt ∧ AddedShape cfg a k (mkCtx cfg a k us) tgt added low ∧
      low.length = addedRules a k ∧
      mainLoop (mkCtx cfg a k us) (userNames a)
        { slots := List.replicate a.prods.length none ++ added.map some,
          rulesProds := low ++ List.replicate a.rules.length [],
          actiontypes := List.replicate (a.rules.length + addedRules a k) none } = some st := by
  have ok := mkCtx_ok hc a k us
  have hnd := specialNames_nodup hc a k
  have hlen := specialNames_length cfg a k
  rw [ruleNamesOf_names] at h
  have hus := mkCtx_userStart cfg a k us
  have hast := mkCtx_ast cfg a k us
  simp only [st0, ruleNamesOf_length] at h
  rcases mkCtx_shape cfg a k us with ⟨hi, his, hsp⟩ | ⟨its, hk, hits, hi, his, hsp⟩
  · rw [hsp] at ok h hlen
    simp only [List.length_cons, List.length_nil, Nat.zero_add] at hlen
    obtain ⟨l, tgt, h1, h2, h3⟩ := mainLoop_plain ok his h
    rw [← hlen] at h1 h3
    simp only [List.replicate_succ, List.getElem?_cons_zero, Option.some.injEq] at h1
    subst h1
    rw [hus] at h2
    refine ⟨tgt, _, _, h2, Or.inl ⟨hi, his, hlen.symm, rfl, rfl⟩, by simp [← hlen], ?_⟩
    simpa [List.replicate_succ, ← hlen] using h3
  · rw [hsp] at ok h hlen hnd
    simp only [List.length_cons, List.length_nil, Nat.zero_add] at hlen
    obtain ⟨l0, l1, l2, tis, tgt, a0, a1, a2, h1, h2, h3⟩ := mainLoop_eco ok hnd hi his h
    rw [← hlen] at a0 a1 a2 h3
    simp only [List.replicate_succ, List.getElem?_cons_zero, List.getElem?_cons_succ, Option.some.injEq] at a0 a1 a2
    subst a0 a1 a2
    rw [hus] at h2
    rw [hast, hits] at h1 h3
    simp only [Option.getD_some] at h1 h3
    refine ⟨tgt, _, _, h2, Or.inr ⟨its, tis, hk, hits, hi, his, hlen.symm, h1, rfl, rfl⟩, by simp [← hlen], ?_⟩
    simpa [List.replicate_succ, ← hlen, ecoAdded, Function.comp_def] using h3

end GrmVerif.YaccBuild
