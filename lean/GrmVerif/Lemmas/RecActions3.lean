import GrmVerif.Lemmas.RecActions2
/-!
The recovering action driver (C08, recovery on), part 3 — the unconditional half:
* `editedLex`: the edited lexeme sequence with spans (from `C05.editedItems`);
* `runStepsA`/`editedStepsA`: the run over the edited input WITH the refused lexemes offered first, on
  value configurations (`C05.runSteps`/`C05.editedSteps` with values); `recRunA_own`: the recovering
  run IS that run — its value and its log are those of that run (no hypothesis about the table beyond
  the end-of-input discipline);
* `recRunA_logOk`: on a table that passes `Cert.check` (and `colsOk`) the log of a recovering run that
  returns a value is the specification's call list of that value.
-/
namespace GrmVerif.RecAct
open GrmVerif LR Act Rec Cert C05 Term RankImpl

/-! ### the edited lexeme sequence -/

/-- a lexeme as it is pushed on the stacks: token, identity, span -/
structure Lx where
  tok : Nat
  id : Nat
  span : Nat × Nat
deriving Repr, DecidableEq, Inhabited

/-- the lexeme an item of the edited input stands for -/
def itemLx (w : List Nat) (lexSpan : Nat → Nat × Nat) (it : EItem) : Lx :=
  ⟨itemTok w it, lexId w.length it, itemSpan lexSpan w.length it⟩

/-- **the edited lexeme sequence with spans**: (token, span) of every item of the edited input — a real
lexeme keeps its span, `EItem.ins t before` is the token `t` with the zero-length span at the start of
real lexeme `before` (at the end of the last lexeme if `before = |w|`) -/
def editedLex (w : List Nat) (lexSpan : Nat → Nat × Nat) (errs : List Err) : List (Nat × (Nat × Nat)) :=
  (editedItems w.length 0 errs).map (fun it => (itemTok w it, itemSpan lexSpan w.length it))

/-- the span of the `k`-th lexeme of the edited input -/
def editedSpan (w : List Nat) (lexSpan : Nat → Nat × Nat) (errs : List Err) (k : Nat) : Nat × Nat :=
  ((editedLex w lexSpan errs).getD k (0, (0, 0))).2

/-- the identity, on the value stack of the recovering driver, of the `k`-th lexeme of the edited input -/
def editedId (w : List Nat) (errs : List Err) (k : Nat) : Nat :=
  lexId w.length ((editedItems w.length 0 errs).getD k (.real 0))

theorem editedLex_toks (w : List Nat) (lexSpan : Nat → Nat × Nat) (errs : List Err) :
    (editedLex w lexSpan errs).map (·.1) = editedToks w w.length 0 errs := by
  simp [editedLex, editedToks, List.map_map, Function.comp_def]

/-! ### the run with offers, on value configurations -/

inductive AStepL where
  | tok (l : Lx)
  | offer (la : Nat)
deriving Repr, DecidableEq

def AStepL.erase : AStepL → EStep
  | .tok l => .tok l.tok
  | .offer la => .offer la

/-- `C05.runSteps` with values: a token is shifted after the reductions the table prescribes under it
(its lexeme pushed); an offered lexeme is refused after them — and they are KEPT -/
def runStepsA (G : Grammar) (A : Automaton) : VCfg → List AStepL → Option VCfg
  | v, [] => some v
  | v, .tok l :: r =>
    match feedA G A l.tok FUEL v with
    | .shifted s' v' => runStepsA G A (pushLex s' l.tok l.id l.span v') r
    | _ => none
  | v, .offer la :: r =>
    match feedA G A la FUEL v with
    | .error v' => runStepsA G A v' r
    | _ => none

def lxSteps (w : List Nat) (lexSpan : Nat → Nat × Nat) (items : List EItem) : List AStepL :=
  items.map (fun it => .tok (itemLx w lexSpan it))

/-- `C05.editedSteps` with lexemes: the items of the edited input and, at each error, the refused
lexeme offered first -/
def editedStepsA (G : Grammar) (w : List Nat) (lexSpan : Nat → Nat × Nat) (stop : Nat) : Nat → List Err → List AStepL
  | pos, [] => lxSteps w lexSpan (reals pos stop)
  | pos, e :: es =>
    lxSteps w lexSpan (reals pos e.pos) ++
      (.offer (nextTok G w e.pos) ::
        (lxSteps w lexSpan (editSeq e.pos (firstSeq e)).1 ++
          editedStepsA G w lexSpan stop (editSeq e.pos (firstSeq e)).2 es))

theorem lxSteps_erase (w : List Nat) (lexSpan : Nat → Nat × Nat) (items : List EItem) :
    (lxSteps w lexSpan items).map AStepL.erase = tokSteps (items.map (itemTok w)) := by
  simp [lxSteps, tokSteps, List.map_map, Function.comp_def, AStepL.erase, itemLx]

/-- forgetting identities and spans gives `C05.editedSteps` -/
theorem editedStepsA_erase (G : Grammar) (w : List Nat) (lexSpan : Nat → Nat × Nat) (stop : Nat) :
    ∀ (errs : List Err) (pos : Nat),
      (editedStepsA G w lexSpan stop pos errs).map AStepL.erase = editedSteps G w stop pos errs
  | [], pos => by simp only [editedStepsA, editedSteps, lxSteps_erase]
  | e :: es, pos => by
    simp only [editedStepsA, editedSteps, List.map_append, List.map_cons, lxSteps_erase, AStepL.erase]
    rw [editedStepsA_erase G w lexSpan stop es]

theorem runStepsA_append (G : Grammar) (A : Automaton) :
    ∀ (a b : List AStepL) (v : VCfg),
      runStepsA G A v (a ++ b) = (runStepsA G A v a).bind (fun s => runStepsA G A s b) := by
  intro a
  induction a with
  | nil => intro b v; simp [runStepsA]
  | cons x xs ih =>
    intro b v
    cases x with
    | tok l =>
      simp only [List.cons_append, runStepsA]
      cases feedA G A l.tok FUEL v <;> simp [ih]
    | offer la =>
      simp only [List.cons_append, runStepsA]
      cases feedA G A la FUEL v <;> simp [ih]

/-- erasing the values of a run with offers gives the run on state stacks -/
theorem runStepsA_erase (G : Grammar) (A : Automaton) :
    ∀ (steps : List AStepL) (v : VCfg),
      (runStepsA G A v steps).map (·.pstack) = runSteps G A v.pstack (steps.map AStepL.erase) := by
  intro steps
  induction steps with
  | nil => intro v; rfl
  | cons x xs ih =>
    intro v
    cases x with
    | tok l =>
      simp only [runStepsA, List.map_cons, AStepL.erase, runSteps]
      have he := feedA_erase G A l.tok FUEL v
      cases hf : feedA G A l.tok FUEL v with
      | shifted s' v' => rw [hf] at he; simp only [FedA.erase] at he; rw [← he]; exact ih _
      | accept v' => rw [hf] at he; simp only [FedA.erase] at he; rw [← he]; rfl
      | error v' => rw [hf] at he; simp only [FedA.erase] at he; rw [← he]; rfl
      | crash => rw [hf] at he; simp only [FedA.erase] at he; rw [← he]; rfl
      | fuelOut => rw [hf] at he; simp only [FedA.erase] at he; rw [← he]; rfl
    | offer la =>
      simp only [runStepsA, List.map_cons, AStepL.erase, runSteps]
      have he := feedA_erase G A la FUEL v
      cases hf : feedA G A la FUEL v with
      | shifted s' v' => rw [hf] at he; simp only [FedA.erase] at he; rw [← he]; rfl
      | accept v' => rw [hf] at he; simp only [FedA.erase] at he; rw [← he]; rfl
      | error v' => rw [hf] at he; simp only [FedA.erase] at he; rw [← he]; exact ih _
      | crash => rw [hf] at he; simp only [FedA.erase] at he; rw [← he]; rfl
      | fuelOut => rw [hf] at he; simp only [FedA.erase] at he; rw [← he]; rfl

/-- a real lexeme before the first error (or the stop) is the first step -/
theorem editedStepsA_shift (G : Grammar) (w : List Nat) (lexSpan : Nat → Nat × Nat) (stop : Nat) :
    ∀ (errs : List Err) (pos : Nat), (match errs with | [] => pos < stop | e :: _ => pos < e.pos) →
      editedStepsA G w lexSpan stop pos errs =
        .tok (itemLx w lexSpan (.real pos)) :: editedStepsA G w lexSpan stop (pos + 1) errs
  | [], pos, h => by
    simp only [editedStepsA]
    rw [reals_cons h]
    simp [lxSteps]
  | e :: es, pos, h => by
    simp only [editedStepsA]
    rw [reals_cons h]
    simp [lxSteps]

/-- a real lexeme before the first error (or the stop) is the first item -/
theorem editedItems_shift (stop : Nat) :
    ∀ (errs : List Err) (pos : Nat), (match errs with | [] => pos < stop | e :: _ => pos < e.pos) →
      editedItems stop pos errs = .real pos :: editedItems stop (pos + 1) errs
  | [], pos, h => by
    simp only [editedItems]
    rw [reals_cons h]
  | e :: es, pos, h => by
    simp only [editedItems]
    rw [reals_cons h]
    simp

/-- the replay of a sequence pushes the lexemes of its items -/
theorem applySeqA_runStepsA (G : Grammar) (A : Automaton) (w : List Nat) (lexSpan : Nat → Nat × Nat) :
    ∀ (rs : List Repair) (c c' : RACfg), applySeqA G A w lexSpan c rs = some c' →
      runStepsA G A c.v (lxSteps w lexSpan (editSeq c.laidx rs).1) = some c'.v ∧
      c'.laidx = (editSeq c.laidx rs).2 := by
  intro rs
  induction rs with
  | nil => intro c c' h; simp only [applySeqA, Option.some.injEq] at h; subst h; simp [editSeq, lxSteps, runStepsA]
  | cons r rs ih =>
    intro c c' h
    simp only [applySeqA] at h
    cases hr : applyRepairA G A w lexSpan c r with
    | none => rw [hr] at h; cases h
    | some c1 =>
      rw [hr] at h
      simp only at h
      obtain ⟨i1, i2⟩ := ih c1 c' h
      cases r with
      | insert t =>
        simp only [applyRepairA] at hr
        cases hf : feedA G A t FUEL c.v with
        | shifted s' v' =>
          rw [hf] at hr; injection hr with hr; subst hr
          simp only at i1 i2
          simp only [editSeq, lxSteps, List.map_cons, runStepsA, itemLx, itemTok, hf]
          exact ⟨i1, i2⟩
        | accept v' => rw [hf] at hr; cases hr
        | error v' => rw [hf] at hr; cases hr
        | crash => rw [hf] at hr; cases hr
        | fuelOut => rw [hf] at hr; cases hr
      | delete =>
        simp only [applyRepairA] at hr
        split at hr
        · injection hr with hr; subst hr
          simp only at i1 i2
          simp only [editSeq]
          exact ⟨i1, i2⟩
        · cases hr
      | shift =>
        simp only [applyRepairA] at hr
        cases hw : w[c.laidx]? with
        | none => rw [hw] at hr; cases hr
        | some t =>
          rw [hw] at hr
          simp only at hr
          cases hf : feedA G A t FUEL c.v with
          | shifted s' v' =>
            rw [hf] at hr; injection hr with hr; subst hr
            simp only at i1 i2
            have ht : w.getD c.laidx 0 = t := by simp [List.getD, hw]
            simp only [editSeq, lxSteps, List.map_cons, runStepsA, itemLx, itemTok, ht, hf, lexId, itemSpan]
            exact ⟨i1, i2⟩
          | accept v' => rw [hf] at hr; cases hr
          | error v' => rw [hf] at hr; cases hr
          | crash => rw [hf] at hr; cases hr
          | fuelOut => rw [hf] at hr; cases hr

/-- the replay of a sequence, on state stacks (erasure, with the configuration spelled out) -/
theorem applySeqA_applySeq {G : Grammar} {A : Automaton} {w : List Nat} {lexSpan : Nat → Nat × Nat}
    {c c' : RACfg} {rs : List Repair} (h : applySeqA G A w lexSpan c rs = some c') :
    applySeq G A w ⟨c.v.pstack, c.laidx⟩ rs = some ⟨c'.v.pstack, c'.laidx⟩ := by
  have := applySeqA_erase G A w lexSpan rs c
  rw [h] at this
  exact this.symm

/-- **The recovering action driver runs the edited input, offering each refused lexeme first**: its
value and its log are those of `runStepsA` over `editedStepsA` followed by the accepting reductions
under end-of-input (`C05.recRun_own` with values). -/
theorem recRunA_own (G : Grammar) (A : Automaton) (w : List Nat) (lexSpan : Nat → Nat × Nat)
    (recover : Pos → List (List Repair))
    (hsh : EofNeverShifted G A) (hacc : AcceptOnlyAtEof G A) (hw : G.eof ∉ w) :
    ∀ (fuel : Nat) (c : RACfg) (errs : List Err) (o : Outcome) (log : List Call) (errs' : List Err),
      c.laidx ≤ w.length → recRunA G A w lexSpan recover fuel c errs = (o, log, errs') →
      ∃ new, errs' = errs ++ new ∧ Ordered w.length c.laidx new ∧
        (∀ t, o = .accept t → ∃ st y,
          runStepsA G A c.v (editedStepsA G w lexSpan w.length c.laidx new) = some st ∧
          feedA G A G.eof FUEL st = .accept y ∧ acceptOut y = .accept t ∧ y.log = log) := by
  intro fuel
  induction fuel with
  | zero =>
    intro c errs o log errs' hc h
    simp only [recRunA, Prod.mk.injEq] at h
    refine ⟨[], by simp [h.2.2], hc, ?_⟩
    intro t ht; rw [← h.1] at ht; cases ht
  | succ f ih =>
    intro c errs o log errs' hc h
    simp only [recRunA] at h
    cases hf : feedA G A (nextTok G w c.laidx) FUEL c.v with
    | shifted s' v' =>
      rw [hf] at h
      simp only at h
      obtain ⟨hlt, htok⟩ := shifted_in_range hsh (feedA_shifted_feed hf)
      obtain ⟨new, h1, h2, h3⟩ := ih ⟨pushLex s' (nextTok G w c.laidx) c.laidx (lexSpan c.laidx) v', c.laidx + 1⟩
        errs o log errs' hlt h
      simp only at h2 h3
      have hord : Ordered w.length c.laidx new := by
        cases new with
        | nil => exact hc
        | cons e es => exact ⟨by have := h2.1; omega, h2.2⟩
      refine ⟨new, h1, hord, ?_⟩
      intro t ht
      obtain ⟨st, y, hr, hx⟩ := h3 t ht
      refine ⟨st, y, ?_, hx⟩
      rw [editedStepsA_shift G w lexSpan w.length new c.laidx (by
        cases new with
        | nil => exact hlt
        | cons e es => have := h2.1; simp only; omega)]
      rw [htok] at hf
      simp only [runStepsA, itemLx, itemTok, lexId, itemSpan, hf]
      rw [htok] at hr
      exact hr
    | accept v' =>
      rw [hf] at h
      simp only [Prod.mk.injEq] at h
      obtain ⟨hge, heof⟩ := accept_at_end hacc hw (feedA_accept_feed hf)
      refine ⟨[], by simp [h.2.2], hc, ?_⟩
      intro t ht
      refine ⟨c.v, v', ?_, by rw [← heof]; exact hf, by rw [h.1]; exact ht, h.2.1⟩
      have : w.length - c.laidx = 0 := by omega
      simp [editedStepsA, reals, this, lxSteps, runStepsA]
    | crash =>
      rw [hf] at h
      simp only [Prod.mk.injEq] at h
      refine ⟨[], by simp [h.2.2], hc, ?_⟩
      intro t ht; rw [← h.1] at ht; cases ht
    | fuelOut =>
      rw [hf] at h
      simp only [Prod.mk.injEq] at h
      refine ⟨[], by simp [h.2.2], hc, ?_⟩
      intro t ht; rw [← h.1] at ht; cases ht
    | error v' =>
      rw [hf] at h
      simp only at h
      have giveUp : ∀ o1 log1, (∀ t, o1 ≠ .accept t) → (o, log, errs') = (o1, log1, errs ++ [⟨c.laidx, []⟩]) →
          ∃ new, errs' = errs ++ new ∧ Ordered w.length c.laidx new ∧
            (∀ t, o = .accept t → ∃ st y,
              runStepsA G A c.v (editedStepsA G w lexSpan w.length c.laidx new) = some st ∧
              feedA G A G.eof FUEL st = .accept y ∧ acceptOut y = .accept t ∧ y.log = log) := by
        intro o1 log1 hne h
        simp only [Prod.mk.injEq] at h
        refine ⟨[⟨c.laidx, []⟩], h.2.2, ⟨Nat.le_refl _, by simpa [firstSeq, editSeq, Ordered] using hc⟩, ?_⟩
        intro t ht; rw [h.1] at ht; exact absurd ht (hne t)
      cases hrec : recover ⟨v'.pstack, c.laidx⟩ with
      | nil => rw [hrec] at h; exact giveUp _ _ (by intro t ht; cases ht) h.symm
      | cons s0 rest =>
        rw [hrec] at h
        simp only at h
        cases happ : applySeqA G A w lexSpan ⟨v', c.laidx⟩ s0 with
        | none => rw [happ] at h; exact giveUp _ _ (by intro t ht; cases ht) h.symm
        | some c' =>
          rw [happ] at h
          simp only at h
          obtain ⟨hft, hpos⟩ := applySeqA_runStepsA G A w lexSpan s0 _ _ happ
          obtain ⟨hle, hin⟩ := applySeq_pos G A w s0 _ _ (applySeqA_applySeq happ)
          simp only at hft hpos hle hin
          obtain ⟨new, h1, h2, h3⟩ := ih c' (errs ++ [⟨c.laidx, s0 :: rest⟩]) o log errs' (hin hc) h
          have hfs : firstSeq ⟨c.laidx, s0 :: rest⟩ = s0 := rfl
          refine ⟨⟨c.laidx, s0 :: rest⟩ :: new, by rw [h1]; simp, ⟨Nat.le_refl _, by rw [hfs, ← hpos]; exact h2⟩, ?_⟩
          intro t ht
          obtain ⟨st, y, hr, hx⟩ := h3 t ht
          refine ⟨st, y, ?_, hx⟩
          simp only [editedStepsA, hfs, reals_self, lxSteps, List.map_nil, List.nil_append, runStepsA, hf]
          rw [← lxSteps, runStepsA_append, hft, ← hpos]
          exact hr

/-! ### the log is the call list of the returned value -/

/-- the stack below an accepting state is just the start state -/
theorem accept_bottom {G : Grammar} {A : Automaton} (P : Props G A) {st t : Nat} {tl : List Nat}
    (hp : IsPath A (st :: tl)) (ht : t < G.ntoks) (hact : A.action st t = .accept) : tl = [A.start] := by
  have hst : st < A.nstates := hp.states_lt P st (by simp)
  obtain ⟨_, hitem⟩ := P.actAccept st t hst ht hact
  obtain ⟨labels, hpath⟩ := hp
  obtain ⟨h1, h2, s', h3, h4⟩ := path_item P 1 st tl labels G.startProd hpath hitem
  have hs'lt : s' < A.nstates := hpath.states_lt P s' (List.mem_of_getElem? h3)
  have hdrop : (st :: tl).drop 1 = s' :: (st :: tl).drop 2 := by
    rw [List.drop_eq_getElem?_toList_append, h3]; rfl
  have hsub := hpath.drop 1 h1
  rw [hdrop] at hsub
  have hbottom : (st :: tl).drop 1 = [A.start] := by
    obtain ⟨i, him, hip, hid⟩ := h4
    rcases P.justified s' hs'lt i him hid with hk | ⟨j, hjm, hj⟩
    · rw [hip] at hk
      obtain ⟨hr, _, hs'⟩ := kernel0_bottom P hsub hk
      rw [hdrop, hr, hs']
    · exfalso
      rw [hip] at hj
      have hjp := (P.itemOk s' hs'lt j (List.mem_append_left _ hjm)).1
      exact P.noStartRhs j.p hjp (symAt_mem hj)
  simpa using hbottom

/-- at Accept on a certified table the value stack holds exactly the returned value -/
theorem accept_astack {G : Grammar} {A : Automaton} (P : Props G A) (hcols : colsOk G A = true) {la fuel : Nat}
    {v y : VCfg} (hg : Good A v) (hf : feedA G A la fuel v = .accept y) {t : Tree}
    (ht : acceptOut y = .accept t) : y.astack = [t] := by
  have hgy := feedA_good_accept P hcols hg hf
  have hla : nextTok G [la] 0 = la := by simp [nextTok]
  have hst := (feedA_stepsA G A [la] (fun _ => (0, 0)) 0 fuel v y (by rw [hla, hf]; rfl)).2
  rw [hla, hf] at hst
  obtain ⟨st, tl, hps, hact⟩ := hst
  have hlt : la < G.ntoks := colsOk_action hcols (by rw [hact]; simp)
  have hp := hgy.path
  rw [hps] at hp
  have htl := accept_bottom P hp hlt hact
  have hlen := hgy.len
  rw [hps, htl] at hlen
  simp only [List.length_cons, List.length_nil] at hlen
  cases hy : y.astack with
  | nil => rw [hy] at hlen; simp at hlen
  | cons x xs =>
    rw [hy] at hlen
    simp only [List.length_cons] at hlen
    have hxs : xs = [] := List.eq_nil_of_length_eq_zero (by omega)
    subst hxs
    simp only [acceptOut, hy, List.getLast?_singleton] at ht
    cases x with
    | leaf a b => cases ht
    | node p kids => injection ht with ht; rw [ht]

theorem applyRepairA_good {G : Grammar} {A : Automaton} (P : Props G A) (hcols : colsOk G A = true)
    (w : List Nat) (lexSpan : Nat → Nat × Nat) {c c' : RACfg} {r : Repair} (hg : Good A c.v)
    (h : applyRepairA G A w lexSpan c r = some c') : Good A c'.v := by
  cases r with
  | insert t =>
    simp only [applyRepairA] at h
    cases hf : feedA G A t FUEL c.v with
    | shifted s' v' =>
      rw [hf] at h; simp only [Option.some.injEq] at h; subst h
      exact feedA_good_shifted P hcols hg hf _ _ _
    | accept v' => rw [hf] at h; cases h
    | error v' => rw [hf] at h; cases h
    | crash => rw [hf] at h; cases h
    | fuelOut => rw [hf] at h; cases h
  | delete =>
    simp only [applyRepairA] at h
    split at h
    · simp only [Option.some.injEq] at h; subst h; exact hg
    · cases h
  | shift =>
    simp only [applyRepairA] at h
    cases hw : w[c.laidx]? with
    | none => rw [hw] at h; cases h
    | some t =>
      rw [hw] at h
      simp only at h
      cases hf : feedA G A t FUEL c.v with
      | shifted s' v' =>
        rw [hf] at h; simp only [Option.some.injEq] at h; subst h
        exact feedA_good_shifted P hcols hg hf _ _ _
      | accept v' => rw [hf] at h; cases h
      | error v' => rw [hf] at h; cases h
      | crash => rw [hf] at h; cases h
      | fuelOut => rw [hf] at h; cases h

theorem applySeqA_good {G : Grammar} {A : Automaton} (P : Props G A) (hcols : colsOk G A = true)
    (w : List Nat) (lexSpan : Nat → Nat × Nat) :
    ∀ (rs : List Repair) {c c' : RACfg}, Good A c.v → applySeqA G A w lexSpan c rs = some c' → Good A c'.v := by
  intro rs
  induction rs with
  | nil => intro c c' hg h; simp only [applySeqA, Option.some.injEq] at h; subst h; exact hg
  | cons r rs ih =>
    intro c c' hg h
    simp only [applySeqA] at h
    cases hr : applyRepairA G A w lexSpan c r with
    | none => rw [hr] at h; cases h
    | some c1 => rw [hr] at h; exact ih (applyRepairA_good P hcols w lexSpan hg hr) h

/-- **The log of a recovering run that returns a value is the specification's call list of that
value** (one call per node, post-order, arguments and spans as C08 prescribes, an inserted lexeme
being a zero-length lexeme at the start of the next real one: `idSpan`). -/
theorem recRunA_logOk (G : Grammar) (A : Automaton) (w : List Nat) (lexSpan : Nat → Nat × Nat)
    (recover : Pos → List (List Repair)) (P : Props G A) (hcols : colsOk G A = true) :
    ∀ (fuel : Nat) (c : RACfg) (errs : List Err) (t : Tree) (log : List Call) (errs' : List Err),
      c.laidx ≤ w.length → InvA G (idSpan lexSpan w.length) (c.v.toA 0) → Good A c.v →
      recRunA G A w lexSpan recover fuel c errs = (.accept t, log, errs') →
      logOk log (specCalls G (idSpan lexSpan w.length) t) = true := by
  have hsh := (eof_discipline_of_cert P hcols).1
  intro fuel
  induction fuel with
  | zero => intro c errs t log errs' _ _ _ h; simp [recRunA] at h
  | succ f ih =>
    intro c errs t log errs' hc hinv hg h
    simp only [recRunA] at h
    cases hf : feedA G A (nextTok G w c.laidx) FUEL c.v with
    | shifted s' v' =>
      rw [hf] at h
      simp only at h
      obtain ⟨hlt, _⟩ := shifted_in_range hsh (feedA_shifted_feed hf)
      exact ih ⟨pushLex s' (nextTok G w c.laidx) c.laidx (lexSpan c.laidx) v', c.laidx + 1⟩ errs t log errs' hlt
        (pushLex_inv G _ _ _ _ _ (idSpan_real hc) (feedA_inv G A _ _ hinv (by rw [hf]; rfl)))
        (feedA_good_shifted P hcols hg hf _ _ _) h
    | accept v' =>
      rw [hf] at h
      simp only [Prod.mk.injEq] at h
      have hst := accept_astack P hcols hg hf h.1
      have hi := (feedA_inv G A _ _ hinv (by rw [hf]; rfl) : InvA G (idSpan lexSpan w.length) (v'.toA 0)).log
      simp only [VCfg.toA, hst] at hi
      rw [← h.2.1]
      simpa [specCallsList] using hi
    | crash => rw [hf] at h; simp at h
    | fuelOut => rw [hf] at h; simp at h
    | error v' =>
      rw [hf] at h
      simp only at h
      cases hrec : recover ⟨v'.pstack, c.laidx⟩ with
      | nil => rw [hrec] at h; simp at h
      | cons s0 rest =>
        rw [hrec] at h
        simp only at h
        cases happ : applySeqA G A w lexSpan ⟨v', c.laidx⟩ s0 with
        | none => rw [happ] at h; simp at h
        | some c' =>
          rw [happ] at h
          simp only at h
          obtain ⟨_, hin⟩ := applySeq_pos G A w s0 _ _ (applySeqA_applySeq happ)
          exact ih c' _ t log errs' (hin hc)
            (applySeqA_inv G A w lexSpan s0 (c := ⟨v', c.laidx⟩) (feedA_inv G A _ _ hinv (by rw [hf]; rfl)) happ)
            (applySeqA_good P hcols w lexSpan s0 (c := ⟨v', c.laidx⟩) (feedA_good_error P hcols hg hf) happ) h

end GrmVerif.RecAct
