import GrmVerif.Lemmas.Costs
import GrmVerif.Model.Fix
/-!
Knuth's generalisation of Dijkstra's algorithm to grammars, on unbounded naturals (`dijkstra`): the
algorithm `rule_min_costs` implements. Proved here: it ends within `nrules + 1` rounds, its result is the
exact table of minimal costs, and the reference Bellman–Ford iteration `Ref.minCosts` reaches the very same
table within `nrules + 1` rounds — so `Ref.minCosts` never runs out of its fuel (`minCosts_total`).
-/
namespace GrmVerif.Spec
open GrmVerif Ref

/-! ### `minO`, `minOver`, `seqCost` -/

theorem minO_none_right (a : Option Nat) : minO a none = a := by cases a <;> rfl
theorem minO_none_left (a : Option Nat) : minO none a = a := by cases a <;> rfl

theorem minO_assoc (a b c : Option Nat) : minO (minO a b) c = minO a (minO b c) := by
  cases a <;> cases b <;> cases c <;> simp [minO, Nat.min_assoc]

theorem minOver_append (f : Nat → Option Nat) (l1 l2 : List Nat) :
    minOver f (l1 ++ l2) = minO (minOver f l1) (minOver f l2) := by
  induction l1 with
  | nil => simp [minOver, minO_none_left]
  | cons a l ih => simp [minOver, ih, minO_assoc]

theorem minOver_single (f : Nat → Option Nat) (a : Nat) : minOver f [a] = f a := by
  simp [minOver, minO_none_right]

theorem leO_refl (a : Option Nat) : leO a a := by cases a <;> simp [leO]

theorem minOver_none (f : Nat → Option Nat) (l : List Nat) : minOver f l = none ↔ ∀ p ∈ l, f p = none := by
  induction l with
  | nil => simp [minOver]
  | cons a l ih =>
    simp only [minOver, List.mem_cons, forall_eq_or_imp]
    rw [← ih]
    cases f a <;> cases minOver f l <;> simp [minO]

/-- the minimum is the value that is attained and below every other one -/
theorem minOver_eq_some (f : Nat → Option Nat) (l : List Nat) (v : Nat)
    (hat : ∃ p ∈ l, f p = some v) (hle : ∀ p ∈ l, leO (some v) (f p)) : minOver f l = some v := by
  obtain ⟨p, hp, hfp⟩ := hat
  have h1 := minOver_le f l p hp
  rw [hfp] at h1
  cases hm : minOver f l with
  | none => rw [hm] at h1; simp [leO] at h1
  | some m =>
    rw [hm] at h1
    simp only [leO] at h1
    obtain ⟨q, hq, hfq⟩ := minOver_attained f l m hm
    have h2 := hle q hq
    rw [hfq] at h2
    simp only [leO] at h2
    have : m = v := by omega
    rw [this]

/-- `c'` agrees with `c` wherever `c` is defined -/
def Ext (c c' : Nat → Option Nat) : Prop := ∀ r v, c r = some v → c' r = some v

theorem Ext.refl (c : Nat → Option Nat) : Ext c c := fun _ _ h => h
theorem Ext.trans {a b c : Nat → Option Nat} (h1 : Ext a b) (h2 : Ext b c) : Ext a c :=
  fun r v h => h2 r v (h1 r v h)

theorem seqCost_ext {tc : Nat → Nat} {c c' : Nat → Option Nat} (he : Ext c c') :
    ∀ (l : List Sym) (v : Nat), seqCost tc c l = some v → seqCost tc c' l = some v := by
  intro l
  induction l with
  | nil => intro v h; exact h
  | cons s rest ih =>
    intro v h
    simp only [seqCost] at h ⊢
    cases h1 : symCost tc c s with
    | none => simp [h1, addO] at h
    | some a =>
      cases h2 : seqCost tc c rest with
      | none => simp [h1, h2, addO] at h
      | some b =>
        have h1' : symCost tc c' s = some a := by
          cases s with
          | tok t => exact h1
          | rule q => exact he q a h1
        rw [h1, h2] at h
        rw [h1', ih b h2]; exact h

/-- every rule of a sequence with a cost has a cost, at most that of the sequence -/
theorem seqCost_mem {tc : Nat → Nat} {c : Nat → Option Nat} :
    ∀ (l : List Sym) (v : Nat), seqCost tc c l = some v → ∀ q, Sym.rule q ∈ l → ∃ x, c q = some x ∧ x ≤ v := by
  intro l
  induction l with
  | nil => intro v _ q hq; cases hq
  | cons s rest ih =>
    intro v h q hq
    simp only [seqCost] at h
    cases h1 : symCost tc c s with
    | none => simp [h1, addO] at h
    | some a =>
      cases h2 : seqCost tc c rest with
      | none => simp [h1, h2, addO] at h
      | some b =>
        simp only [h1, h2, addO, Option.some.injEq] at h
        rcases List.mem_cons.mp hq with e | hq
        · subst e
          exact ⟨a, h1, by omega⟩
        · obtain ⟨x, hx, hle⟩ := ih b h2 q hq
          exact ⟨x, hx, by omega⟩

/-- a sequence without a cost contains a rule without a cost -/
theorem seqCost_none {tc : Nat → Nat} {c : Nat → Option Nat} :
    ∀ (l : List Sym), seqCost tc c l = none → ∃ q, Sym.rule q ∈ l ∧ c q = none := by
  intro l
  induction l with
  | nil => intro h; simp [seqCost] at h
  | cons s rest ih =>
    intro h
    simp only [seqCost] at h
    cases h1 : symCost tc c s with
    | none =>
      cases s with
      | tok t => simp [symCost] at h1
      | rule q => exact ⟨q, by simp, h1⟩
    | some a =>
      cases h2 : seqCost tc c rest with
      | none =>
        obtain ⟨q, hq, hc⟩ := ih h2
        exact ⟨q, List.mem_cons_of_mem _ hq, hc⟩
      | some b => simp [h1, h2, addO] at h

/-! ### the algorithm -/

/-- `ruleCost` of the rules that have no cost yet (`none` for the others) -/
def openCost (G : Grammar) (tc : Nat → Nat) (c : List (Option Nat)) (i : Nat) : Option Nat :=
  if (look c i).isNone then ruleCost G tc (look c) i else none

/-- the least cost of a complete production of a rule that has no cost yet -/
def dijkLow (G : Grammar) (tc : Nat → Nat) (c : List (Option Nat)) : Option Nat :=
  minOver (openCost G tc c) (List.range G.nrules)

/-- the rules whose cheapest complete production costs `low` get that cost -/
def dijkStep (G : Grammar) (tc : Nat → Nat) (c : List (Option Nat)) (low : Nat) : List (Option Nat) :=
  (List.range G.nrules).map (fun i =>
    match look c i with
    | some v => some v
    | none => if ruleCost G tc (look c) i = some low then some low else none)

def dijkFrom (G : Grammar) (tc : Nat → Nat) : Nat → List (Option Nat) → Option (List (Option Nat))
  | 0, _ => none
  | fuel + 1, c =>
    match dijkLow G tc c with
    | none => some c
    | some low => dijkFrom G tc fuel (dijkStep G tc c low)

def dijkstra (G : Grammar) (tc : Nat → Nat) : Option (List (Option Nat)) :=
  dijkFrom G tc (G.nrules + 1) (List.replicate G.nrules none)

theorem look_ge {c : List (Option Nat)} {r : Nat} (h : c.length ≤ r) : look c r = none := by
  simp [look, List.getElem?_eq_none h]

theorem look_some_lt {c : List (Option Nat)} {r v : Nat} (h : look c r = some v) : r < c.length := by
  by_cases hr : r < c.length
  · exact hr
  · rw [look_ge (by omega)] at h; cases h

theorem look_dijkStep (G : Grammar) (tc : Nat → Nat) (c : List (Option Nat)) (low r : Nat) :
    look (dijkStep G tc c low) r =
      if r < G.nrules then
        (match look c r with
        | some v => some v
        | none => if ruleCost G tc (look c) r = some low then some low else none)
      else none := by
  simp only [look, dijkStep]
  by_cases h : r < G.nrules
  · simp [h]
  · simp [h]

theorem dijkStep_length (G : Grammar) (tc : Nat → Nat) (c : List (Option Nat)) (low : Nat) :
    (dijkStep G tc c low).length = G.nrules := by simp [dijkStep]

/-- invariant of the rounds; `L` is the cost fixed in the previous round -/
structure DInv (G : Grammar) (tc : Nat → Nat) (c : List (Option Nat)) (L : Nat) : Prop where
  len : c.length = G.nrules
  real : Realised G tc (look c)
  below : ∀ r v, look c r = some v → v ≤ L
  above : ∀ i, look c i = none → ∀ v, ruleCost G tc (look c) i = some v → L ≤ v
  fixed : ∀ r v, look c r = some v → ruleCost G tc (look c) r = some v

theorem dinv_init (G : Grammar) (tc : Nat → Nat) : DInv G tc (List.replicate G.nrules none) 0 := by
  have hl : ∀ r, look (List.replicate G.nrules none) r = none := by
    intro r
    simp only [look]
    by_cases hr : r < G.nrules
    · simp [List.getElem?_replicate, hr]
    · simp [List.getElem?_replicate, hr]
  refine ⟨by simp, realised_init G tc G.nrules, ?_, ?_, ?_⟩
  · intro r v h; rw [hl] at h; cases h
  · intro i _ v _; exact Nat.zero_le _
  · intro r v h; rw [hl] at h; cases h

/-- what `dijkLow = some low` means -/
theorem dijkLow_some {G : Grammar} {tc : Nat → Nat} {c : List (Option Nat)} {low : Nat}
    (h : dijkLow G tc c = some low) :
    (∃ i, i < G.nrules ∧ look c i = none ∧ ruleCost G tc (look c) i = some low) ∧
    ∀ i, i < G.nrules → look c i = none → leO (some low) (ruleCost G tc (look c) i) := by
  constructor
  · obtain ⟨i, hi, hv⟩ := minOver_attained _ _ low h
    simp only [openCost] at hv
    split at hv
    · next hn => exact ⟨i, by simpa using hi, by simpa using hn, hv⟩
    · cases hv
  · intro i hi hn
    have := minOver_le (openCost G tc c) (List.range G.nrules) i (by simpa using hi)
    unfold dijkLow at h
    rw [h] at this
    simpa [openCost, hn] using this

theorem dijkLow_none {G : Grammar} {tc : Nat → Nat} {c : List (Option Nat)}
    (h : dijkLow G tc c = none) : ∀ i, i < G.nrules → look c i = none → ruleCost G tc (look c) i = none := by
  intro i hi hn
  have := (minOver_none _ _).mp h i (by simpa using hi)
  simpa [openCost, hn] using this

theorem ext_dijkStep {G : Grammar} {tc : Nat → Nat} {c : List (Option Nat)} (low : Nat)
    (hlen : c.length = G.nrules) : Ext (look c) (look (dijkStep G tc c low)) := by
  intro r v h
  have hr : r < G.nrules := by rw [← hlen]; exact look_some_lt h
  rw [look_dijkStep]; simp [hr, h]

/-- an entry that is new after the round -/
theorem dijkStep_new {G : Grammar} {tc : Nat → Nat} {c : List (Option Nat)} {low r x : Nat}
    (h0 : look c r = none) (h1 : look (dijkStep G tc c low) r = some x) :
    x = low ∧ ruleCost G tc (look c) r = some low := by
  rw [look_dijkStep] at h1
  split at h1
  · rw [h0] at h1
    simp only at h1
    split at h1
    · next h => exact ⟨by simpa using h1.symm, h⟩
    · cases h1
  · cases h1

theorem ruleCost_attained {G : Grammar} {tc : Nat → Nat} {c : Nat → Option Nat} {r v : Nat}
    (h : ruleCost G tc c r = some v) : ∃ p, p ∈ G.prodsOf r ∧ seqCost tc c (G.rhs p) = some v :=
  minOver_attained _ _ v h

theorem ruleCost_le {G : Grammar} {tc : Nat → Nat} {c : Nat → Option Nat} {r p : Nat}
    (hp : p ∈ G.prodsOf r) : leO (ruleCost G tc c r) (seqCost tc c (G.rhs p)) :=
  minOver_le _ _ p hp

/-- a production with a cost after the round either had that cost before, or contains a rule fixed in
this round -/
theorem seqCost_after {G : Grammar} {tc : Nat → Nat} {c : List (Option Nat)} {low : Nat}
    (hlen : c.length = G.nrules) (l : List Sym) (u : Nat)
    (h : seqCost tc (look (dijkStep G tc c low)) l = some u) :
    seqCost tc (look c) l = some u ∨ low ≤ u := by
  cases h0 : seqCost tc (look c) l with
  | some u' =>
    left
    have := seqCost_ext (ext_dijkStep (G := G) (tc := tc) low hlen) l u' h0
    rw [h] at this
    exact this.symm
  | none =>
    right
    obtain ⟨q, hq, hc⟩ := seqCost_none l h0
    obtain ⟨x, hx, hle⟩ := seqCost_mem l u h q hq
    obtain ⟨e, _⟩ := dijkStep_new hc hx
    omega

/-- the value a rule has after the round is the cost of one of its productions before the round -/
theorem dijkStep_val {G : Grammar} {tc : Nat → Nat} {c : List (Option Nat)} {L low : Nat}
    (hI : DInv G tc c L) (hL : L ≤ low) (r v : Nat) (h : look (dijkStep G tc c low) r = some v) :
    ruleCost G tc (look c) r = some v ∧ v ≤ low := by
  have hext := ext_dijkStep (G := G) (tc := tc) low hI.len
  cases h0 : look c r with
  | some v' =>
    have := hext r v' h0
    rw [h] at this
    cases this
    exact ⟨hI.fixed r v h0, by have := hI.below r v h0; omega⟩
  | none =>
    obtain ⟨e, hc⟩ := dijkStep_new h0 h
    subst e
    exact ⟨hc, Nat.le_refl _⟩

theorem dinv_step {G : Grammar} (hwf : G.wf = true) {tc : Nat → Nat} {c : List (Option Nat)} {L low : Nat}
    (hI : DInv G tc c L) (hlow : dijkLow G tc c = some low) :
    DInv G tc (dijkStep G tc c low) low ∧ L ≤ low := by
  obtain ⟨⟨i0, hi0, hn0, hc0⟩, hmin⟩ := dijkLow_some hlow
  have hL : L ≤ low := hI.above i0 hn0 low hc0
  have hext := ext_dijkStep (G := G) (tc := tc) low hI.len
  have hval := dijkStep_val hI hL
  refine ⟨⟨dijkStep_length G tc c low, ?_, ?_, ?_, ?_⟩, hL⟩
  · -- realised
    intro r v h
    obtain ⟨hc, _⟩ := hval r v h
    obtain ⟨p, hp, hv⟩ := ruleCost_attained hc
    obtain ⟨hp1, hp2⟩ := mem_prodsOf.mp hp
    obtain ⟨w, hd, hcw⟩ := seqCost_realised hI.real _ v hv
    rw [← hp2]
    exact ⟨w, .rule p w hp1 hd, hcw⟩
  · intro r v h; exact (hval r v h).2
  · -- above
    intro i hn v hv
    have hi0' : look c i = none := by
      cases h0 : look c i with
      | none => rfl
      | some x => have := hext i x h0; rw [hn] at this; cases this
    obtain ⟨p, hp, hsv⟩ := ruleCost_attained hv
    rcases seqCost_after hI.len _ v hsv with h | h
    · have hle := ruleCost_le (G := G) (tc := tc) (c := look c) hp
      rw [h] at hle
      by_cases hi : i < G.nrules
      · have hm := hmin i hi hi0'
        cases hrc : ruleCost G tc (look c) i with
        | none => rw [hrc] at hle; simp [leO] at hle
        | some u =>
          rw [hrc] at hle hm
          simp only [leO] at hle hm
          omega
      · obtain ⟨hp1, hp2⟩ := mem_prodsOf.mp hp
        have := wf_lhs hwf hp1
        omega
    · exact h
  · -- fixed
    intro r v h
    obtain ⟨hc, hvl⟩ := hval r v h
    obtain ⟨p, hp, hv⟩ := ruleCost_attained hc
    apply minOver_eq_some
    · exact ⟨p, hp, seqCost_ext hext _ v hv⟩
    · intro p' hp'
      cases hs : seqCost tc (look (dijkStep G tc c low)) (G.rhs p') with
      | none => simp [leO]
      | some u =>
        simp only [leO]
        rcases seqCost_after hI.len _ u hs with h' | h'
        · have hle := ruleCost_le (G := G) (tc := tc) (c := look c) hp'
          rw [h', hc] at hle
          exact hle
        · omega

/-! ### termination and exactness -/

/-- rules without a cost -/
def openCount (G : Grammar) (c : List (Option Nat)) : Nat :=
  ((List.range G.nrules).filter (fun i => (look c i).isNone)).length

theorem openCount_le (G : Grammar) (c : List (Option Nat)) : openCount G c ≤ G.nrules := by
  have := List.length_filter_le (fun i => (look c i).isNone) (List.range G.nrules)
  simpa [openCount] using this

theorem openCount_step {G : Grammar} {tc : Nat → Nat} {c : List (Option Nat)} {L low : Nat}
    (hI : DInv G tc c L) (hlow : dijkLow G tc c = some low) :
    openCount G (dijkStep G tc c low) < openCount G c := by
  obtain ⟨⟨i0, hi0, hn0, hc0⟩, _⟩ := dijkLow_some hlow
  have hext := ext_dijkStep (G := G) (tc := tc) low hI.len
  unfold openCount
  apply Fix.filter_length_lt
  · intro y hy
    cases h0 : look c y with
    | none => rfl
    | some x => rw [hext y x h0] at hy; cases hy
  · refine ⟨i0, by simpa using hi0, by simp [hn0], ?_⟩
    rw [look_dijkStep]; simp [hi0, hn0, hc0]

/-- a table of minimal costs: a fixed point of `ruleCost` every finite entry of which is the cost of a
derivable string -/
structure MinTable (G : Grammar) (tc : Nat → Nat) (m : List (Option Nat)) : Prop where
  len : m.length = G.nrules
  fix : ∀ r, r < G.nrules → look m r = ruleCost G tc (look m) r
  real : Realised G tc (look m)

theorem MinTable.lower {G : Grammar} {tc : Nat → Nat} {m : List (Option Nat)} (hm : MinTable G tc m)
    (hwf : G.wf = true) {r : Nat} (hr : r < G.nrules) {w : List Nat} (hw : Derives G (.rule r) w) :
    ∃ v, look m r = some v ∧ v ≤ cost tc w := by
  have hok : G.symOk (.rule r) = true := by simpa [Grammar.symOk] using hr
  obtain ⟨v, hv, hle⟩ := derives_lower hm.fix hwf hw hok
  exact ⟨v, by simpa [symCost] using hv, hle⟩

theorem dijkFrom_spec {G : Grammar} (hwf : G.wf = true) {tc : Nat → Nat} :
    ∀ (fuel : Nat) (c : List (Option Nat)) (L : Nat), DInv G tc c L → openCount G c < fuel →
      ∃ m, dijkFrom G tc fuel c = some m ∧ MinTable G tc m ∧ Ext (look c) (look m) := by
  intro fuel
  induction fuel with
  | zero => intro c L _ h; omega
  | succ n ih =>
    intro c L hI hlt
    simp only [dijkFrom]
    cases hlow : dijkLow G tc c with
    | none =>
      refine ⟨c, rfl, ⟨hI.len, ?_, hI.real⟩, Ext.refl _⟩
      intro r hr
      cases h0 : look c r with
      | none => exact (dijkLow_none hlow r hr h0).symm
      | some v => exact (hI.fixed r v h0).symm
    | some low =>
      obtain ⟨hI', _⟩ := dinv_step hwf hI hlow
      have hlt' := openCount_step hI hlow
      obtain ⟨m, hm, hmt, hext⟩ := ih _ low hI' (by omega)
      exact ⟨m, hm, hmt, (ext_dijkStep low hI.len).trans hext⟩

/-- the answer does not depend on the fuel -/
theorem dijkFrom_unique {G : Grammar} {tc : Nat → Nat} :
    ∀ (f1 f2 : Nat) (c : List (Option Nat)) (a1 a2 : List (Option Nat)),
      dijkFrom G tc f1 c = some a1 → dijkFrom G tc f2 c = some a2 → a1 = a2 := by
  intro f1
  induction f1 with
  | zero => intro f2 c a1 a2 h1 _; simp [dijkFrom] at h1
  | succ k ihk =>
    intro f2 c a1 a2 h1 h2
    cases f2 with
    | zero => simp [dijkFrom] at h2
    | succ f2 =>
      simp only [dijkFrom] at h1 h2
      cases hl : dijkLow G tc c with
      | none => rw [hl] at h1 h2; simp only [Option.some.injEq] at h1 h2; rw [← h1, ← h2]
      | some l => rw [hl] at h1 h2; exact ihk _ _ _ _ h1 h2

/-- the answer extends the table the rounds started from -/
theorem dijkFrom_ext {G : Grammar} {tc : Nat → Nat} :
    ∀ (fuel : Nat) (c m : List (Option Nat)), c.length = G.nrules → dijkFrom G tc fuel c = some m →
      Ext (look c) (look m) := by
  intro fuel
  induction fuel with
  | zero => intro c m _ h; simp [dijkFrom] at h
  | succ n ih =>
    intro c m hlen h
    simp only [dijkFrom] at h
    cases hl : dijkLow G tc c with
    | none => rw [hl] at h; simp only [Option.some.injEq] at h; rw [← h]; exact Ext.refl _
    | some low =>
      rw [hl] at h
      exact (ext_dijkStep low hlen).trans (ih _ m (dijkStep_length G tc c low) h)

/-- a table without open entries is final -/
theorem dijkLow_full {G : Grammar} {tc : Nat → Nat} {c : List (Option Nat)}
    (h : ∀ i, i < G.nrules → look c i ≠ none) : dijkLow G tc c = none := by
  apply (minOver_none _ _).mpr
  intro i hi
  have := h i (by simpa using hi)
  simp only [openCost]
  cases hl : look c i with
  | none => exact absurd hl this
  | some v => rfl

/-! ### the reference Bellman–Ford iteration reaches the same table -/

/-- `k` rounds of the reference iteration -/
def bfIter (G : Grammar) (tc : Nat → Nat) : Nat → List (Option Nat) → List (Option Nat)
  | 0, b => b
  | k + 1, b => bfIter G tc k (stepCosts G tc b)

theorem stepCosts_length (G : Grammar) (tc : Nat → Nat) (b : List (Option Nat)) :
    (stepCosts G tc b).length = G.nrules := by simp [stepCosts]

theorem bfIter_length (G : Grammar) (tc : Nat → Nat) :
    ∀ (k : Nat) (b : List (Option Nat)), b.length = G.nrules → (bfIter G tc k b).length = G.nrules := by
  intro k
  induction k with
  | zero => intro b h; exact h
  | succ k ih => intro b _; exact ih _ (stepCosts_length G tc b)

theorem look_ext {c c' : List (Option Nat)} (hl : c.length = c'.length) (h : ∀ r, look c r = look c' r) :
    c = c' := by
  apply List.ext_getElem hl
  intro i h1 h2
  have := h i
  simpa [look, List.getElem?_eq_getElem h1, List.getElem?_eq_getElem h2] using this

theorem bf_follows {G : Grammar} (hwf : G.wf = true) {tc : Nat → Nat} {m : List (Option Nat)}
    (hmt : MinTable G tc m) :
    ∀ (fuel : Nat) (c : List (Option Nat)) (L : Nat) (b : List (Option Nat)), DInv G tc c L →
      Ext (look c) (look b) → Realised G tc (look b) → dijkFrom G tc fuel c = some m →
      ∃ j, j ≤ openCount G c ∧ Ext (look m) (look (bfIter G tc j b)) ∧ Realised G tc (look (bfIter G tc j b)) := by
  intro fuel
  induction fuel with
  | zero => intro c L b _ _ _ h; simp [dijkFrom] at h
  | succ n ih =>
    intro c L b hI hext hreal h
    simp only [dijkFrom] at h
    cases hlow : dijkLow G tc c with
    | none =>
      rw [hlow] at h
      simp only [Option.some.injEq] at h
      subst h
      exact ⟨0, Nat.zero_le _, hext, hreal⟩
    | some low =>
      rw [hlow] at h
      simp only at h
      obtain ⟨hI', hL⟩ := dinv_step hwf hI hlow
      have hlt' := openCount_step hI hlow
      have hreal' : Realised G tc (look (stepCosts G tc b)) := step_realised hreal
      -- the table after the round is part of the final table
      have hcm : Ext (look (dijkStep G tc c low)) (look m) := by
        have hlt2 : openCount G (dijkStep G tc c low) < openCount G (dijkStep G tc c low) + 1 := by omega
        obtain ⟨m', hm', _, hext'⟩ := dijkFrom_spec hwf (openCount G (dijkStep G tc c low) + 1) _ low hI' hlt2
        -- the result does not depend on the fuel once it is an answer
        have : ∀ (f1 f2 : Nat) (c : List (Option Nat)) (a1 a2 : List (Option Nat)),
            dijkFrom G tc f1 c = some a1 → dijkFrom G tc f2 c = some a2 → a1 = a2 := by
          intro f1
          induction f1 with
          | zero => intro f2 c a1 a2 h1 _; simp [dijkFrom] at h1
          | succ k ihk =>
            intro f2 c a1 a2 h1 h2
            cases f2 with
            | zero => simp [dijkFrom] at h2
            | succ f2 =>
              simp only [dijkFrom] at h1 h2
              cases hl : dijkLow G tc c with
              | none => rw [hl] at h1 h2; simp only [Option.some.injEq] at h1 h2; rw [← h1, ← h2]
              | some l => rw [hl] at h1 h2; exact ihk _ _ _ _ h1 h2
        have e := this _ _ _ _ _ hm' h
        rw [← e]; exact hext'
      have hext1 : Ext (look (dijkStep G tc c low)) (look (stepCosts G tc b)) := by
        intro r v hv
        obtain ⟨hc, _⟩ := dijkStep_val hI hL r v hv
        have hr : r < G.nrules := by
          have := look_some_lt hv
          rwa [dijkStep_length] at this
        obtain ⟨p, hp, hsv⟩ := ruleCost_attained hc
        have hsb := seqCost_ext hext _ v hsv
        have hle := ruleCost_le (G := G) (tc := tc) (c := look b) hp
        rw [hsb] at hle
        rw [look_stepCosts]
        simp only [hr, if_true]
        cases hrc : ruleCost G tc (look b) r with
        | none => rw [hrc] at hle; simp [leO] at hle
        | some u =>
          rw [hrc] at hle
          simp only [leO] at hle
          have hlu : look (stepCosts G tc b) r = some u := by rw [look_stepCosts]; simp [hr, hrc]
          obtain ⟨w, hw, hcw⟩ := hreal' r u hlu
          obtain ⟨v', hv', hle'⟩ := hmt.lower hwf hr hw
          have := hcm r v hv
          rw [this] at hv'
          cases hv'
          have : u = v := by omega
          rw [this]
      obtain ⟨j, hj, he, hr⟩ := ih _ low _ hI' hext1 hreal' h
      exact ⟨j + 1, by omega, he, hr⟩

/-- the iteration, once at the table `m`, stays there and so answers `m` -/
theorem minCostsFrom_reaches {G : Grammar} {tc : Nat → Nat} {m : List (Option Nat)}
    (hfix : stepCosts G tc m = m) :
    ∀ (j fuel : Nat) (b : List (Option Nat)), bfIter G tc j b = m → j < fuel → minCostsFrom G tc fuel b = some m := by
  intro j
  induction j with
  | zero =>
    intro fuel b hb hlt
    simp only [bfIter] at hb
    subst hb
    cases fuel with
    | zero => omega
    | succ f => simp [minCostsFrom, hfix]
  | succ j ih =>
    intro fuel b hb hlt
    cases fuel with
    | zero => omega
    | succ f =>
      simp only [minCostsFrom]
      split
      · next he =>
        -- `b` is already a fixed point: all later iterates equal `b`
        have : ∀ k, bfIter G tc k b = b := by
          intro k
          induction k with
          | zero => rfl
          | succ k ihk => simp only [bfIter, he]; exact ihk
        rw [this] at hb
        rw [hb]
      · exact ih f _ hb (by omega)

theorem MinTable.step_eq {G : Grammar} {tc : Nat → Nat} {m : List (Option Nat)} (hm : MinTable G tc m) :
    stepCosts G tc m = m := by
  apply look_ext (by rw [stepCosts_length, hm.len])
  intro r
  rw [look_stepCosts]
  by_cases hr : r < G.nrules
  · simp only [hr, if_true]; exact (hm.fix r hr).symm
  · simp only [hr, if_false]; exact (look_ge (by rw [hm.len]; omega)).symm

/-- **the reference cost iteration converges**: for every well-formed grammar and every token-cost
function `Ref.minCosts` (which runs `nrules + 2` rounds at most) returns a table, the one Knuth's algorithm
computes -/
theorem minCosts_total (G : Grammar) (hwf : G.wf = true) (tc : Nat → Nat) :
    ∃ m, dijkstra G tc = some m ∧ minCosts G tc = some m ∧ MinTable G tc m := by
  have h0 := dinv_init G tc
  obtain ⟨m, hm, hmt, _⟩ := dijkFrom_spec hwf (G.nrules + 1) _ 0 h0
    (by have := openCount_le G (List.replicate G.nrules none); omega)
  refine ⟨m, hm, ?_, hmt⟩
  obtain ⟨j, hj, hext, hreal⟩ := bf_follows hwf hmt (G.nrules + 1) _ 0 (List.replicate G.nrules none) h0
    (Ext.refl _) (realised_init G tc G.nrules) hm
  have hjn : j ≤ G.nrules := Nat.le_trans hj (openCount_le G _)
  have hlen : (bfIter G tc j (List.replicate G.nrules none)).length = G.nrules :=
    bfIter_length G tc j _ (by simp)
  have heq : bfIter G tc j (List.replicate G.nrules none) = m := by
    apply look_ext (by rw [hlen, hmt.len])
    intro r
    cases hmr : look m r with
    | some v => exact hext r v hmr
    | none =>
      cases hbr : look (bfIter G tc j (List.replicate G.nrules none)) r with
      | none => rfl
      | some u =>
        have hr : r < G.nrules := by rw [← hlen]; exact look_some_lt hbr
        obtain ⟨w, hw, _⟩ := hreal r u hbr
        obtain ⟨v, hv, _⟩ := hmt.lower hwf hr hw
        rw [hmr] at hv; cases hv
  exact minCostsFrom_reaches hmt.step_eq j (G.nrules + 2) _ heq (by omega)

end GrmVerif.Spec
