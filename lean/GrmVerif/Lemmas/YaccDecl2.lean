import GrmVerif.Lemmas.YaccDecl1
/-!
C10, text → AST stage, declarations, part 2: the loops of `%left`/`%right`/`%nonassoc`, `%avoid_insert`,
`%implicit_tokens` on a rendered token list.
-/
namespace GrmVerif.YaccRender
open GrmVerif.YaccParse
open GrmVerif.Header (Res Span byteLen dropBytes slice sliceRange lookahead byteLen_append)

theorem isSome_false_none {α : Type} {o : Option α} (h : ¬ o.isSome = true) : o = none := by
  cases o with
  | none => rfl
  | some x => simp at h

/-! ### `%left` / `%right` / `%nonassoc` -/

theorem precStep_spec {level : Nat} {kind : Assoc} {i : Nat} {t : RTok} {st s : St}
    (h : precStep level kind i t st = some s) :
    M.Ret (precEntry t.name (t.span i) level kind) st () s ∧ s.nl = st.nl := by
  unfold precStep at h
  split at h
  · cases h
  · next hc =>
    simp only [Option.some.injEq] at h
    subst h
    refine ⟨?_, rfl⟩
    unfold precEntry
    refine M.Ret.bind (getSt_ret st) ?_
    rw [isSome_false_none hc]
    exact modifyAst_ret _ st

theorem precLoop_at {src : List Char} {level : Nat} {kind : Assoc} {nl0 : Nat} :
    ∀ (ts : List RTok) (t : RTok) (f i : Nat) (st : St) (k : List Char) (r : Nat × St),
    At src i (renderToks t ts ++ k) → (t :: ts).all wfTok = true → DeclNext k → nl0 = st.nl →
    runPrecToks level kind i t ts st = some r →
    precLoop src nl0 level kind (ts.length + 2 + f) i st = .ok r := by
  intro ts
  induction ts with
  | nil =>
    intro t f i st k r h hw hk hnl hr
    simp only [List.all_cons, List.all_nil, Bool.and_true] at hw
    have h0 : At src i (t.text ++ '\n' :: k) := by simpa [renderToks] using h
    have hj : At src (i + byteLen t.text) ('\n' :: k) := h0.adv
    have hj1 : At src (i + byteLen t.text + 1) k := hj.adv1 (by decide)
    simp only [runPrecToks, Option.map_eq_some_iff] at hr
    obtain ⟨s, hs, rfl⟩ := hr
    obtain ⟨he, hsnl⟩ := precStep_spec hs
    rw [show ([] : List RTok).length + 2 + f = (f + 1) + 1 by simp; omega, precLoop]
    change M.Ret _ st _ _
    refine M.Ret.bind (getSt_ret st) ?_
    dsimp only
    rw [if_pos ⟨h0.lt_of_starts (wfTok_starts hw _), hnl⟩]
    refine M.Ret.bind (liftR_ret (parseToken_sep h0 hw (.inr rfl))) ?_
    dsimp only
    refine M.Ret.bind he ?_
    refine M.Ret.bind (ws_nl hj hk.starts.stops _) ?_
    unfold M.Ret
    rw [precLoop]
    change M.Ret _ _ _ _
    refine M.Ret.bind (getSt_ret _) ?_
    dsimp only
    rw [if_neg (by simp only [St.incNl]; omega)]
    exact M.Ret.pure
  | cons u us ih =>
    intro t f i st k r h hw hk hnl hr
    simp only [List.all_cons, Bool.and_eq_true] at hw
    have h0 : At src i (t.text ++ ' ' :: (renderToks u us ++ k)) := by simpa [renderToks] using h
    have hj : At src (i + byteLen t.text) (' ' :: (renderToks u us ++ k)) := h0.adv
    have hj1 : At src (i + byteLen t.text + 1) (renderToks u us ++ k) := hj.adv1 (by decide)
    simp only [runPrecToks, Option.bind_eq_some_iff] at hr
    obtain ⟨s, hs, hr⟩ := hr
    obtain ⟨he, hsnl⟩ := precStep_spec hs
    rw [show (u :: us).length + 2 + f = (us.length + 2 + f) + 1 by simp only [List.length_cons]; omega, precLoop]
    change M.Ret _ st _ _
    refine M.Ret.bind (getSt_ret st) ?_
    dsimp only
    rw [if_pos ⟨h0.lt_of_starts (wfTok_starts hw.1 _), hnl⟩]
    refine M.Ret.bind (liftR_ret (parseToken_sep h0 hw.1 (.inl rfl))) ?_
    dsimp only
    refine M.Ret.bind he ?_
    refine M.Ret.bind (ws_space hj (renderToks_starts hw.2.1 us k).stops _) ?_
    exact ih u f _ _ k r hj1 (by simp [hw.2.1, hw.2.2]) hk (by omega) hr

/-! ### `%avoid_insert` -/

theorem avoidStep_spec {i : Nat} {t : RTok} {st s : St} (h : avoidStep i t st = some s) :
    M.Ret (avoidEntry t.name (t.span i)) (insTok i t st) () s ∧ s.nl = st.nl := by
  unfold avoidStep at h
  split at h
  · cases h
  · next hc =>
    simp only [Option.some.injEq] at h
    subst h
    refine ⟨?_, rfl⟩
    unfold avoidEntry
    refine M.Ret.bind (getSt_ret _) ?_
    rw [isSome_false_none hc]
    exact modifyAst_ret _ _

theorem avoidLoop_at {src : List Char} {j0 nl0 : Nat} (hj0 : j0 < byteLen src) :
    ∀ (ts : List RTok) (t : RTok) (f i : Nat) (st : St) (k : List Char) (r : Nat × St),
    At src i (renderToks t ts ++ k) → (t :: ts).all wfTok = true → DeclNext k → st.nl = nl0 →
    runAvoid i t ts st = some r →
    avoidLoop src j0 nl0 (ts.length + 2 + f) i st = .ok r := by
  intro ts
  induction ts with
  | nil =>
    intro t f i st k r h hw hk hnl hr
    simp only [List.all_cons, List.all_nil, Bool.and_true] at hw
    have h0 : At src i (t.text ++ '\n' :: k) := by simpa [renderToks] using h
    have hj : At src (i + byteLen t.text) ('\n' :: k) := h0.adv
    simp only [runAvoid, Option.map_eq_some_iff] at hr
    obtain ⟨s, hs, rfl⟩ := hr
    obtain ⟨he, hsnl⟩ := avoidStep_spec hs
    rw [show ([] : List RTok).length + 2 + f = (f + 1) + 1 by simp; omega, avoidLoop]
    change M.Ret _ st _ _
    refine M.Ret.bind (getSt_ret st) ?_
    dsimp only
    rw [if_pos ⟨hj0, hnl⟩]
    refine M.Ret.bind (liftR_ret (parseToken_sep h0 hw (.inr rfl))) ?_
    dsimp only
    refine M.Ret.bind (modifyAst_ret _ st) ?_
    refine M.Ret.bind he ?_
    refine M.Ret.bind (ws_nl hj hk.starts.stops _) ?_
    unfold M.Ret
    rw [avoidLoop]
    change M.Ret _ _ _ _
    refine M.Ret.bind (getSt_ret _) ?_
    dsimp only
    rw [if_neg (by simp only [St.incNl]; omega)]
    exact M.Ret.pure
  | cons u us ih =>
    intro t f i st k r h hw hk hnl hr
    simp only [List.all_cons, Bool.and_eq_true] at hw
    have h0 : At src i (t.text ++ ' ' :: (renderToks u us ++ k)) := by simpa [renderToks] using h
    have hj : At src (i + byteLen t.text) (' ' :: (renderToks u us ++ k)) := h0.adv
    have hj1 : At src (i + byteLen t.text + 1) (renderToks u us ++ k) := hj.adv1 (by decide)
    simp only [runAvoid, Option.bind_eq_some_iff] at hr
    obtain ⟨s, hs, hr⟩ := hr
    obtain ⟨he, hsnl⟩ := avoidStep_spec hs
    rw [show (u :: us).length + 2 + f = (us.length + 2 + f) + 1 by simp only [List.length_cons]; omega, avoidLoop]
    change M.Ret _ st _ _
    refine M.Ret.bind (getSt_ret st) ?_
    dsimp only
    rw [if_pos ⟨hj0, hnl⟩]
    refine M.Ret.bind (liftR_ret (parseToken_sep h0 hw.1 (.inl rfl))) ?_
    dsimp only
    refine M.Ret.bind (modifyAst_ret _ st) ?_
    refine M.Ret.bind he ?_
    refine M.Ret.bind (ws_space hj (renderToks_starts hw.2.1 us k).stops _) ?_
    exact ih u f _ _ k r hj1 (by simp [hw.2.1, hw.2.2]) hk (by omega) hr

/-! ### `%implicit_tokens` -/

theorem implicitStep_spec {i : Nat} {t : RTok} {st s : St} (h : implicitStep i t st = some s) :
    M.Ret (implicitEntry t.name (t.span i)) (insTok i t st) () s ∧ s.nl = st.nl := by
  unfold implicitStep at h
  split at h
  · cases h
  · next hc =>
    simp only [Option.some.injEq] at h
    subst h
    refine ⟨?_, rfl⟩
    unfold implicitEntry
    refine M.Ret.bind (getSt_ret _) ?_
    rw [isSome_false_none hc]
    exact modifyAst_ret _ _

theorem implicitLoop_at {src : List Char} {j0 nl0 : Nat} (hj0 : j0 < byteLen src) :
    ∀ (ts : List RTok) (t : RTok) (f i : Nat) (st : St) (k : List Char) (r : Nat × St),
    At src i (renderToks t ts ++ k) → (t :: ts).all wfTok = true → DeclNext k → st.nl = nl0 →
    runImplicit i t ts st = some r →
    implicitLoop src j0 nl0 (ts.length + 2 + f) i st = .ok r := by
  intro ts
  induction ts with
  | nil =>
    intro t f i st k r h hw hk hnl hr
    simp only [List.all_cons, List.all_nil, Bool.and_true] at hw
    have h0 : At src i (t.text ++ '\n' :: k) := by simpa [renderToks] using h
    have hj : At src (i + byteLen t.text) ('\n' :: k) := h0.adv
    simp only [runImplicit, Option.map_eq_some_iff] at hr
    obtain ⟨s, hs, rfl⟩ := hr
    obtain ⟨he, hsnl⟩ := implicitStep_spec hs
    rw [show ([] : List RTok).length + 2 + f = (f + 1) + 1 by simp; omega, implicitLoop]
    change M.Ret _ st _ _
    refine M.Ret.bind (getSt_ret st) ?_
    dsimp only
    rw [if_pos ⟨hj0, hnl⟩]
    refine M.Ret.bind (liftR_ret (parseToken_sep h0 hw (.inr rfl))) ?_
    dsimp only
    refine M.Ret.bind (modifyAst_ret _ st) ?_
    refine M.Ret.bind he ?_
    refine M.Ret.bind (ws_nl hj hk.starts.stops _) ?_
    unfold M.Ret
    rw [implicitLoop]
    change M.Ret _ _ _ _
    refine M.Ret.bind (getSt_ret _) ?_
    dsimp only
    rw [if_neg (by simp only [St.incNl]; omega)]
    exact M.Ret.pure
  | cons u us ih =>
    intro t f i st k r h hw hk hnl hr
    simp only [List.all_cons, Bool.and_eq_true] at hw
    have h0 : At src i (t.text ++ ' ' :: (renderToks u us ++ k)) := by simpa [renderToks] using h
    have hj : At src (i + byteLen t.text) (' ' :: (renderToks u us ++ k)) := h0.adv
    have hj1 : At src (i + byteLen t.text + 1) (renderToks u us ++ k) := hj.adv1 (by decide)
    simp only [runImplicit, Option.bind_eq_some_iff] at hr
    obtain ⟨s, hs, hr⟩ := hr
    obtain ⟨he, hsnl⟩ := implicitStep_spec hs
    rw [show (u :: us).length + 2 + f = (us.length + 2 + f) + 1 by simp only [List.length_cons]; omega, implicitLoop]
    change M.Ret _ st _ _
    refine M.Ret.bind (getSt_ret st) ?_
    dsimp only
    rw [if_pos ⟨hj0, hnl⟩]
    refine M.Ret.bind (liftR_ret (parseToken_sep h0 hw.1 (.inl rfl))) ?_
    dsimp only
    refine M.Ret.bind (modifyAst_ret _ st) ?_
    refine M.Ret.bind he ?_
    refine M.Ret.bind (ws_space hj (renderToks_starts hw.2.1 us k).stops _) ?_
    exact ih u f _ _ k r hj1 (by simp [hw.2.1, hw.2.2]) hk (by omega) hr

end GrmVerif.YaccRender
