import GrmVerif.Model.Cpct
import GrmVerif.Lemmas.SearchImpl7
/-!
What one call of the modelled recoverer `Cpct.cpctRecover` (= `SearchImpl.recoverImpl` seen through the
interface of `Rec.recRun`) returns, at a configuration at which `Parser::lr` calls `recover`
(`Cpct.errCfg`), on a table satisfying `TableOK` (costs ≥ 1, end-of-input never shifted,
`state_actions` exact, `PARSE_AT_LEAST ≥ 1`):

* every reported sequence is a `Rec.Search` sequence of the common minimum cost with its trailing Shifts
  stripped (`reported_is_search`: `search_sound` + `rank_cnds` is a filter + `simplify_repairs` keeps the
  set of stripped sequences);
* a stripped `Search` sequence still repairs: it applies (a prefix of a sequence that applies), and the
  stripped Shifts are then performed by `continueFrom`, which reaches the success configuration of the
  full sequence — `N` shifts done, or acceptance (`search_stripped_valid`);
* the configuration returned is `applySeq` of the first reported sequence (`apply_repairs` agrees with
  `applySeq` where the latter is defined: `RankImpl.applyRepairs_of_applySeq`);
* inserted tokens are tokens of the grammar other than end-of-input.
-/
namespace GrmVerif.Cpct
open GrmVerif LR Rec RankImpl SearchImpl

/-! ### sequences: prefixes and trailing Shifts -/

theorem applySeq_append (G : Grammar) (A : Automaton) (w : List Nat) :
    ∀ (a b : List Repair) (c : Pos),
      applySeq G A w c (a ++ b) = (applySeq G A w c a).bind (fun c1 => applySeq G A w c1 b) := by
  intro a
  induction a with
  | nil => intro b c; rfl
  | cons r rs ih =>
    intro b c
    simp only [List.cons_append, applySeq]
    cases applyRepair G A w c r with
    | none => rfl
    | some c1 => exact ih b c1

/-- number of Shifts at the end of a sequence -/
def trailing (seq : List Repair) : Nat := (seq.reverse.takeWhile (· == Repair.shift)).length

theorem takeWhile_shift_eq (l : List Repair) :
    l.takeWhile (· == Repair.shift) = List.replicate (l.takeWhile (· == Repair.shift)).length .shift := by
  induction l with
  | nil => rfl
  | cons a as ih =>
    cases a with
    | shift =>
      simp only [List.takeWhile_cons, beq_self_eq_true, ↓reduceIte, List.length_cons, List.replicate_succ]
      rw [← ih]
    | insert t => simp
    | delete => simp

/-- a sequence is its stripped form followed by its trailing Shifts -/
theorem stripShifts_append (seq : List Repair) :
    seq = stripShifts seq ++ List.replicate (trailing seq) .shift := by
  have h := List.takeWhile_append_dropWhile (p := (· == Repair.shift)) (l := seq.reverse)
  have h2 : seq = (seq.reverse.dropWhile (· == Repair.shift)).reverse ++
      (seq.reverse.takeWhile (· == Repair.shift)).reverse := by
    rw [← List.reverse_append, h, List.reverse_reverse]
  have h3 : (seq.reverse.takeWhile (· == Repair.shift)).reverse = List.replicate (trailing seq) .shift := by
    rw [takeWhile_shift_eq seq.reverse, List.reverse_replicate]
    simp [trailing]
  rw [h3] at h2
  exact h2

theorem mem_stripShifts {seq : List Repair} {r : Repair} (h : r ∈ stripShifts seq) : r ∈ seq := by
  rw [stripShifts_append seq]
  exact List.mem_append_left _ h

/-! ### the success node of a `Search` sequence -/

/-- along a `Search` derivation the node's `trail` is the number of Shifts its history ends in, and
inserted tokens are tokens of the grammar other than end-of-input; so the complete sequence applies,
and it ends in `N` Shifts or in a configuration that accepts -/
theorem search_final {G : Grammar} {A : Automaton} {w : List Nat} {cost : Nat → Nat} {N : Nat} :
    ∀ (n : Node) (k : Nat) (seq : List Repair), Search G A w cost N n k seq →
      n.trail = (n.rev.takeWhile (· == Repair.shift)).length →
      (∀ t, Repair.insert t ∈ n.rev → t < G.ntoks ∧ t ≠ G.eof) →
      ∃ suffix cf, seq = n.rev.reverse ++ suffix ∧ applySeq G A w n.c suffix = some cf ∧
        (∀ t, Repair.insert t ∈ seq → t < G.ntoks ∧ t ≠ G.eof) ∧
        (N ≤ trailing seq ∨ ∃ s, feed G A (nextTok G w cf.pos) FUEL cf.stack = .accept s) := by
  intro n k seq hs
  induction hs with
  | done n hsucc =>
    intro htr hins
    refine ⟨[], n.c, by simp, rfl, ?_, ?_⟩
    · intro t ht; exact hins t (by simpa using ht)
    · simp only [isSuccess, Bool.or_eq_true, decide_eq_true_eq] at hsucc
      rcases hsucc with h | h
      · left
        simp only [trailing, List.reverse_reverse, ← htr]
        exact h
      · right
        cases hf : feed G A (nextTok G w n.c.pos) FUEL n.c.stack with
        | accept s => exact ⟨s, rfl⟩
        | shifted s => rw [hf] at h; cases h
        | error s => rw [hf] at h; cases h
        | crash => rw [hf] at h; cases h
        | fuelOut => rw [hf] at h; cases h
  | shift n c' k seq _ ha _ ih =>
    intro htr hins
    obtain ⟨suf, cf, h1, h2, h3, h4⟩ := ih (by simp [htr]) (by
      intro t ht
      simp only [List.mem_cons] at ht
      rcases ht with ht | ht
      · cases ht
      · exact hins t ht)
    refine ⟨.shift :: suf, cf, by simpa using h1, by simp only [applySeq, ha]; exact h2, h3, h4⟩
  | insert n t c' k seq _ _ hlt hne _ ha _ ih =>
    intro htr hins
    obtain ⟨suf, cf, h1, h2, h3, h4⟩ := ih (by simp) (by
      intro t' ht
      simp only [List.mem_cons] at ht
      rcases ht with ht | ht
      · injection ht with ht; subst ht; exact ⟨hlt, hne⟩
      · exact hins t' ht)
    refine ⟨.insert t :: suf, cf, by simpa using h1, by simp only [applySeq, ha]; exact h2, h3, h4⟩
  | delete n t k seq _ hw _ _ ih =>
    intro htr hins
    obtain ⟨suf, cf, h1, h2, h3, h4⟩ := ih (by simp) (by
      intro t' ht
      simp only [List.mem_cons] at ht
      rcases ht with ht | ht
      · cases ht
      · exact hins t' ht)
    have hlt : n.c.pos < w.length := (List.getElem?_eq_some_iff.mp hw).1
    refine ⟨.delete :: suf, cf, by simpa using h1, ?_, h3, h4⟩
    simp only [applySeq, applyRepair, hlt, ↓reduceIte]
    exact h2

/-! ### `continueFrom` performs the stripped Shifts -/

theorem applyRepair_shift_inv {G : Grammar} {A : Automaton} {w : List Nat} {c c' : Pos}
    (h : applyRepair G A w c .shift = some c') :
    c.pos < w.length ∧ ∃ s, feed G A (nextTok G w c.pos) FUEL c.stack = .shifted s ∧ c' = ⟨s, c.pos + 1⟩ := by
  simp only [applyRepair] at h
  cases hw : w[c.pos]? with
  | none => rw [hw] at h; cases h
  | some t =>
    rw [hw] at h
    simp only at h
    have hlt : c.pos < w.length := (List.getElem?_eq_some_iff.mp hw).1
    have hnt : nextTok G w c.pos = t := by simp [nextTok, hw]
    rw [hnt]
    cases hf : feed G A t FUEL c.stack with
    | shifted s => rw [hf] at h; injection h with h; exact ⟨hlt, s, rfl, h.symm⟩
    | accept s => rw [hf] at h; cases h
    | error s => rw [hf] at h; cases h
    | crash => rw [hf] at h; cases h
    | fuelOut => rw [hf] at h; cases h

theorem continueFrom_shifts {G : Grammar} {A : Automaton} {w : List Nat} :
    ∀ (k : Nat) (c1 cf : Pos), applySeq G A w c1 (List.replicate k .shift) = some cf →
      (k ≠ 0 → c1.pos + k ≤ w.length) ∧
      ∀ fuel n, continueFrom G A w (fuel + k) c1 n = continueFrom G A w fuel cf (n + k) := by
  intro k
  induction k with
  | zero =>
    intro c1 cf h
    simp only [List.replicate_zero, applySeq, Option.some.injEq] at h
    subst h
    exact ⟨fun h => absurd rfl h, fun fuel n => rfl⟩
  | succ k ih =>
    intro c1 cf h
    simp only [List.replicate_succ, applySeq] at h
    cases ha : applyRepair G A w c1 .shift with
    | none => rw [ha] at h; cases h
    | some c2 =>
      rw [ha] at h
      simp only at h
      obtain ⟨hlt, s, hf, rfl⟩ := applyRepair_shift_inv ha
      obtain ⟨hb, hc⟩ := ih _ cf h
      refine ⟨fun _ => ?_, ?_⟩
      · by_cases hk : k = 0
        · subst hk; omega
        · have := hb hk; simp only at this; omega
      · intro fuel n
        have e : fuel + (k + 1) = (fuel + k) + 1 := by omega
        rw [e]
        simp only [continueFrom, hf]
        rw [hc fuel (n + 1)]
        have e2 : n + 1 + k = n + (k + 1) := by omega
        rw [e2]

theorem continueFrom_count_mono {G : Grammar} {A : Automaton} {w : List Nat} :
    ∀ (fuel : Nat) (c : Pos) (n : Nat), n ≤ (continueFrom G A w fuel c n).1 := by
  intro fuel
  induction fuel with
  | zero => intro c n; exact Nat.le_refl _
  | succ f ih =>
    intro c n
    simp only [continueFrom]
    cases hf : feed G A (nextTok G w c.pos) FUEL c.stack with
    | shifted s => exact Nat.le_trans (Nat.le_succ _) (ih ⟨s, c.pos + 1⟩ (n + 1))
    | accept s => exact Nat.le_refl _
    | error s => exact Nat.le_refl _
    | crash => exact Nat.le_refl _
    | fuelOut => exact Nat.le_refl _

/-- **Stripping trailing Shifts keeps `validSeq`.** If the stripped part applies, the trailing Shifts
apply after it, and the full sequence ends in `N` Shifts or in a configuration that accepts, then the
stripped part satisfies `validSeq`: `continueFrom` performs the stripped Shifts itself. -/
theorem validSeq_stripped {G : Grammar} {A : Automaton} {w : List Nat} {N : Nat} {c c1 cf : Pos}
    {p : List Repair} {k : Nat} (h1 : applySeq G A w c p = some c1)
    (h2 : applySeq G A w c1 (List.replicate k .shift) = some cf)
    (h3 : N ≤ k ∨ ∃ s, feed G A (nextTok G w cf.pos) FUEL cf.stack = .accept s) :
    validSeq G A w N c p = true := by
  obtain ⟨hb, hc⟩ := continueFrom_shifts k c1 cf h2
  have hk : k ≤ w.length := by
    by_cases hk : k = 0
    · omega
    · have := hb hk; omega
  have e : w.length + 2 = (w.length + 1 - k) + 1 + k := by omega
  simp only [validSeq, h1]
  rw [e, hc, Nat.zero_add]
  rcases h3 with h3 | ⟨s, h3⟩
  · have := continueFrom_count_mono (G := G) (A := A) (w := w) (w.length + 1 - k + 1) cf k
    cases hcf : continueFrom G A w (w.length + 1 - k + 1) cf k with
    | mk n rest =>
      obtain ⟨acc, q⟩ := rest
      rw [hcf] at this
      simp only [Bool.or_eq_true, decide_eq_true_eq]
      right
      simp only at this
      omega
  · simp only [continueFrom, h3, Bool.true_or]

/-- **a `Search` sequence with its trailing Shifts stripped repairs**, applies to a configuration the
full sequence's application passes through, and inserts only tokens of the grammar other than
end-of-input -/
theorem search_stripped_valid {G : Grammar} {A : Automaton} {w : List Nat} {cost : Nat → Nat} {N : Nat}
    {c : Pos} {k : Nat} {seq : List Repair} (hs : Search G A w cost N ⟨c, [], 0⟩ k seq) :
    validSeq G A w N c (stripShifts seq) = true ∧
    (∃ c1, applySeq G A w c (stripShifts seq) = some c1) ∧
    (∀ t, Repair.insert t ∈ stripShifts seq → t < G.ntoks ∧ t ≠ G.eof) := by
  obtain ⟨suf, cf, h1, h2, h3, h4⟩ := search_final _ k seq hs rfl (by intro t ht; cases ht)
  simp only [List.reverse_nil, List.nil_append] at h1
  subst h1
  have hsplit := stripShifts_append seq
  rw [hsplit, applySeq_append] at h2
  cases ha : applySeq G A w c (stripShifts seq) with
  | none => rw [ha] at h2; cases h2
  | some c1 =>
    rw [ha] at h2
    simp only [Option.bind_some] at h2
    exact ⟨validSeq_stripped ha h2 h4, ⟨c1, rfl⟩, fun t ht => h3 t (mem_stripShifts ht)⟩

/-! ### the hypotheses of the search theorems at the configurations the driver calls `recover` at -/

/-- the hypotheses about table, costs and `PARSE_AT_LEAST` under which the modelled recoverer is
analysed: every token costs at least 1 (asserted by `parse_actions`), no state shifts end-of-input,
`state_actions` lists exactly the non-Error tokens (`C16.state_actions_spec`), `PARSE_AT_LEAST ≥ 1` -/
structure TableOK (E : Env) : Prop where
  cost_pos : ∀ t, 1 ≤ E.cost t
  eof : EofNeverShifted E.G E.A
  sa : StateActionsOK E.G E.A
  npos : 1 ≤ E.N

/-- the decidable form: `tableOkB` (and the two facts about costs and `N`) give `TableOK` -/
theorem tableOK_of_check {E : Env} (hcost : ∀ t, 1 ≤ E.cost t) (hN : 1 ≤ E.N)
    (h : tableOkB E.G E.A = true) : TableOK E := by
  simp only [tableOkB, Bool.and_eq_true] at h
  exact ⟨hcost, eofNeverShifted_of_check h.1, stateActionsOK_of_check h.2, hN⟩

theorem feed_error_of_top {G : Grammar} {A : Automaton} {la st : Nat} {rest : List Nat}
    (h : A.action st la = .error) (f : Nat) : feed G A la (f + 1) (st :: rest) = .error (st :: rest) := by
  simp only [feed, h]

/-- at a configuration where `Parser::lr` calls `recover` the standing hypotheses `Hyps` of the search
theorems hold: the position is inside the input and the configuration is not itself a success (no
trailing Shifts yet, and the top state refuses the next token) -/
theorem hyps_of_errCfg {E : Env} (T : TableOK E) {c : Pos} (h : errCfg E.G E.A E.w c = true) : Hyps E c := by
  simp only [errCfg, Bool.and_eq_true, decide_eq_true_eq] at h
  obtain ⟨hpos, htop⟩ := h
  refine ⟨T.cost_pos, T.eof, hpos, T.sa, ?_⟩
  cases hst : c.stack with
  | nil => rw [hst] at htop; cases htop
  | cons st rest =>
    rw [hst] at htop
    simp only [beq_iff_eq] at htop
    have hN := T.npos
    have hf : feed E.G E.A (nextTok E.G E.w c.pos) FUEL (st :: rest) = .error (st :: rest) :=
      feed_error_of_top htop 1999
    simp only [isSuccess, root, hst, hf, Bool.or_false]
    exact decide_eq_false (by omega)

/-- the configuration the driver hands to the recoverer after `feed` refused the lookahead -/
theorem errCfg_of_feed_error {G : Grammar} {A : Automaton} {w : List Nat} {pos : Nat} :
    ∀ {f : Nat} {stack s : List Nat}, feed G A (nextTok G w pos) f stack = .error s → pos ≤ w.length →
      errCfg G A w ⟨s, pos⟩ = true := by
  intro f
  induction f with
  | zero => intro stack s h; simp [feed] at h
  | succ n ih =>
    intro stack s h hpos
    cases stack with
    | nil => simp [feed] at h
    | cons st rest =>
      simp only [feed] at h
      cases ha : A.action st (nextTok G w pos) with
      | shift s' => rw [ha] at h; cases h
      | accept => rw [ha] at h; cases h
      | error =>
        rw [ha] at h
        injection h with h
        subst h
        simp [errCfg, hpos, ha]
      | reduce p =>
        rw [ha] at h
        simp only at h
        split at h
        · cases h
        · split at h
          · cases h
          · split at h
            · cases h
            · exact ih h hpos

/-! ### unpacking one call -/

theorem cpct_some_unpack {E : Env} {hs : List Seq → List Seq} {avoid : Nat → Bool} {lexStart : Nat → Nat}
    {win fuel : Nat} {c c' : Pos} {rs : List (List Repair)}
    (h : cpctRecover E hs avoid lexStart win fuel c = some (c', rs)) :
    ∃ out, recoverImpl E hs avoid lexStart win fuel c = .ok (c', out) ∧ out ≠ [] ∧ rs = eraseAll out := by
  unfold cpctRecover at h
  cases hr : recoverImpl E hs avoid lexStart win fuel c with
  | panic => rw [hr] at h; cases h
  | fuelOut => rw [hr] at h; cases h
  | ok x =>
    obtain ⟨c1, out⟩ := x
    rw [hr] at h
    simp only at h
    by_cases he : out.isEmpty = true
    · rw [if_pos he] at h; cases h
    · rw [if_neg he] at h
      simp only [Option.some.injEq, Prod.mk.injEq] at h
      obtain ⟨rfl, rfl⟩ := h
      refine ⟨out, rfl, ?_, rfl⟩
      intro e; subst e; simp at he

theorem recoverImpl_unpack {E : Env} {hs : List Seq → List Seq} {avoid : Nat → Bool} {lexStart : Nat → Nat}
    {win fuel : Nat} {c c' : Pos} {out : List Seq}
    (h : recoverImpl E hs avoid lexStart win fuel c = .ok (c', out)) (hne : out ≠ []) :
    ∃ res kept s0 rest, dijkstra E fuel c = .ok res ∧ res ≠ [] ∧
      rankCnds E.G E.A E.w win c (collectRepairs c.pos res) = some kept ∧
      simplify hs avoid lexStart kept = s0 :: rest ∧ out = s0 :: rest ∧
      applyRepairs E.G E.A E.w c s0 = some c' := by
  unfold recoverImpl at h
  cases hd : dijkstra E fuel c with
  | panic => rw [hd] at h; cases h
  | fuelOut => rw [hd] at h; cases h
  | ok res =>
    rw [hd] at h
    simp only at h
    cases res with
    | nil =>
      simp only [recoverTail, Out.ok.injEq, Prod.mk.injEq] at h
      exact absurd h.2.symm hne
    | cons cnd cnds =>
      simp only [recoverTail] at h
      cases hrkO : rankCndsO E.G E.A E.w win c (collectRepairs c.pos (cnd :: cnds)) with
      | panic => rw [hrkO] at h; cases h
      | fuelOut => rw [hrkO] at h; cases h
      | ok kept =>
        have hrk := rankCnds_of_O hrkO
        rw [hrkO] at h
        simp only at h
        by_cases hke : kept.isEmpty = true
        · rw [if_pos hke] at h
          simp only [Out.ok.injEq, Prod.mk.injEq] at h
          exact absurd h.2.symm hne
        · rw [if_neg hke] at h
          cases hsim : simplify hs avoid lexStart kept with
          | nil => rw [hsim] at h; cases h
          | cons s0 rest =>
            rw [hsim] at h
            simp only at h
            cases hapO : applyRepairsO E.G E.A E.w c s0 with
            | panic => rw [hapO] at h; cases h
            | fuelOut => rw [hapO] at h; cases h
            | ok cfin =>
              have hap := applyRepairs_of_O hapO
              rw [hapO] at h
              simp only [Out.ok.injEq, Prod.mk.injEq] at h
              obtain ⟨rfl, rfl⟩ := h
              exact ⟨cnd :: cnds, kept, s0, rest, rfl, by simp, hrk, hsim, rfl, hap⟩

/-- `rank_cnds` is a filter: whatever it keeps comes from one of the groups it was given -/
theorem rankCnds_mem {G : Grammar} {A : Automaton} {w : List Nat} {win : Nat} {start : Pos}
    {cnds : List (List Seq)} {kept : List Seq} (h : rankCnds G A w win start cnds = some kept)
    {s : Seq} (hs : s ∈ kept) : ∃ g ∈ cnds, s ∈ g := by
  unfold rankCnds at h
  cases hsc : scoreCnds G A w win start cnds with
  | none => rw [hsc] at h; cases h
  | some sc =>
    rw [hsc] at h
    simp only [Option.some.injEq] at h
    obtain ⟨hmap, _⟩ := scoreCnds_some hsc
    subst h
    simp only [List.mem_flatMap, List.mem_filter] at hs
    obtain ⟨p, ⟨hp, _⟩, hsp⟩ := hs
    rw [hmap] at hp
    obtain ⟨g, hg, rfl⟩ := List.mem_map.mp hp
    exact ⟨g, hg, hsp⟩

/-- **every reported sequence is a minimum-cost `Search` sequence with its trailing Shifts stripped.**
`rank_cnds` only filters the groups `collect_repairs` made of the returned nodes, `simplify_repairs`
keeps the set of stripped sequences: whatever is reported comes from the expansion of a returned node,
which `search_sound` (`Found.sound`) places in `Rec.Search` at the common cost. No window hypothesis. -/
theorem reported_is_search {E : Env} {hs : List Seq → List Seq} (hhs : HashSetLike hs) {avoid : Nat → Bool}
    {lexStart : Nat → Nat} {win fuel : Nat} {c c' : Pos} (H : Hyps E c) {out : List Seq}
    (h : recoverImpl E hs avoid lexStart win fuel c = .ok (c', out)) (hne : out ≠ []) :
    ∃ k, k ≤ U16MAX ∧ ∀ s ∈ out, ∃ seq, Search E.G E.A E.w E.cost E.N ⟨c, [], 0⟩ k seq ∧
      s = stripTrailing (attach c.pos seq) ∧ s.map PRepair.erase = stripShifts seq := by
  obtain ⟨res, kept, s0, rest, hd, hres, hrk, hsim, hout, _⟩ := recoverImpl_unpack h hne
  obtain ⟨k, hf⟩ := found_of_dijkstra H hd hres
  refine ⟨k, hf.bound, ?_⟩
  intro s hs'
  rw [hout, ← hsim] at hs'
  obtain ⟨s1, hs1, rfl⟩ := (mem_simplify hhs avoid lexStart kept s).mp hs'
  obtain ⟨g, hg, hsg⟩ := rankCnds_mem hrk hs1
  rw [collectRepairs_eq] at hg
  obtain ⟨m, hm, rfl⟩ := List.mem_map.mp hg
  obtain ⟨seq, hseq, rfl⟩ := List.mem_map.mp hsg
  exact ⟨seq, hf.sound m hm seq hseq, rfl, by rw [map_erase_stripTrailing, erase_map_attach]⟩

/-- `rank_cnds` keeps something whenever every group it is given is non-empty and there is one -/
theorem rankCnds_nonempty {G : Grammar} {A : Automaton} {w : List Nat} {win : Nat} {start : Pos}
    {cnds : List (List Seq)} {kept : List Seq} (h : rankCnds G A w win start cnds = some kept)
    (hne : cnds ≠ []) (hall : ∀ g ∈ cnds, g ≠ []) : kept ≠ [] := by
  unfold rankCnds at h
  cases hsc : scoreCnds G A w win start cnds with
  | none => rw [hsc] at h; cases h
  | some sc =>
    rw [hsc] at h
    simp only [Option.some.injEq] at h
    obtain ⟨hmap, _⟩ := scoreCnds_some hsc
    have hscne : sc ≠ [] := by
      rw [hmap]; intro e; exact hne (List.map_eq_nil_iff.mp e)
    obtain ⟨p, hp, hpf⟩ := (furthest_spec sc).2 hscne
    have hp2 : p.2 ≠ [] := by
      rw [hmap] at hp
      obtain ⟨g, hg, rfl⟩ := List.mem_map.mp hp
      exact hall g hg
    obtain ⟨x, hx⟩ := List.exists_mem_of_ne_nil _ hp2
    have : x ∈ kept := by
      rw [← h]
      simp only [List.mem_flatMap, List.mem_filter, beq_iff_eq]
      exact ⟨p, ⟨hp, hpf⟩, hx⟩
    intro e; rw [e] at this; cases this

/-- **a properly ended call that reports nothing found no node**: `recoverImpl … = .ok (_, [])` only when
`dijkstra` returned no node — `rank_cnds` always keeps a group (the furthest distance is attained) and
`simplify_repairs` of a non-empty list is non-empty. No window hypothesis. -/
theorem noRepair_dijkstra_nil {E : Env} {hs : List Seq → List Seq} (hhs : HashSetLike hs) {avoid : Nat → Bool}
    {lexStart : Nat → Nat} {win fuel : Nat} {c c' : Pos} (H : Hyps E c)
    (h : recoverImpl E hs avoid lexStart win fuel c = .ok (c', [])) : dijkstra E fuel c = .ok [] := by
  unfold recoverImpl at h
  cases hd : dijkstra E fuel c with
  | panic => rw [hd] at h; cases h
  | fuelOut => rw [hd] at h; cases h
  | ok res =>
    rw [hd] at h
    simp only at h
    cases res with
    | nil => rfl
    | cons cnd cnds =>
      exfalso
      obtain ⟨k, hf⟩ := found_of_dijkstra H hd (by simp)
      simp only [recoverTail] at h
      cases hrkO : rankCndsO E.G E.A E.w win c (collectRepairs c.pos (cnd :: cnds)) with
      | panic => rw [hrkO] at h; cases h
      | fuelOut => rw [hrkO] at h; cases h
      | ok kept =>
        have hrk := rankCnds_of_O hrkO
        rw [hrkO] at h
        simp only at h
        have hkne : kept ≠ [] := by
          refine rankCnds_nonempty hrk (by simp [collectRepairs]) ?_
          intro g hg
          rw [collectRepairs_eq] at hg
          obtain ⟨m, hm, rfl⟩ := List.mem_map.mp hg
          intro e
          exact hf.nonempty m hm (List.map_eq_nil_iff.mp e)
        have hke : kept.isEmpty = false := by
          cases kept with
          | nil => exact absurd rfl hkne
          | cons a as => rfl
        rw [hke] at h
        simp only [Bool.false_eq_true, ↓reduceIte] at h
        cases hsim : simplify hs avoid lexStart kept with
        | nil =>
          obtain ⟨x, hx⟩ := List.exists_mem_of_ne_nil _ hkne
          have : stripTrailing x ∈ simplify hs avoid lexStart kept :=
            (mem_simplify hhs avoid lexStart kept _).mpr ⟨x, hx, rfl⟩
          rw [hsim] at this; cases this
        | cons s0 rest =>
          rw [hsim] at h
          simp only at h
          cases hapO : applyRepairsO E.G E.A E.w c s0 with
          | panic => rw [hapO] at h; cases h
          | fuelOut => rw [hapO] at h; cases h
          | ok cfin =>
            rw [hapO] at h
            simp only [Out.ok.injEq, Prod.mk.injEq] at h
            exact absurd h.2 (by simp)

/-- **What one call of the modelled recoverer returns** at a configuration at which `Parser::lr`
calls `recover`, on a table satisfying `TableOK`, for any `HashSet` order, window and search budget:
if it reports anything, then (1) the list is `s0 :: rest` and the configuration parsing continues from
is `applySeq` of `s0` — plain LR semantics — from the error configuration; (2) there is one cost `k`
such that EVERY reported sequence is a `Rec.Search` sequence of cost `k` with its trailing Shifts
stripped, satisfies `validSeq … PARSE_AT_LEAST`, and inserts only tokens of the grammar other than
end-of-input. -/
theorem cpct_report {E : Env} (T : TableOK E) {hs : List Seq → List Seq} (hhs : HashSetLike hs)
    {avoid : Nat → Bool} {lexStart : Nat → Nat} {win fuel : Nat} {c c' : Pos} {rs : List (List Repair)}
    (hc : errCfg E.G E.A E.w c = true)
    (h : cpctRecover E hs avoid lexStart win fuel c = some (c', rs)) :
    (∃ s0 rest, rs = s0 :: rest ∧ applySeq E.G E.A E.w c s0 = some c') ∧
    ∃ k, k ≤ U16MAX ∧ ∀ r ∈ rs, validSeq E.G E.A E.w E.N c r = true ∧
      (∀ t, Repair.insert t ∈ r → t < E.G.ntoks ∧ t ≠ E.G.eof) ∧
      ∃ seq, Search E.G E.A E.w E.cost E.N ⟨c, [], 0⟩ k seq ∧ r = stripShifts seq := by
  have H := hyps_of_errCfg T hc
  obtain ⟨out, hri, hne, rfl⟩ := cpct_some_unpack h
  obtain ⟨k, hk, hall⟩ := reported_is_search hhs H hri hne
  refine ⟨?_, k, hk, ?_⟩
  · obtain ⟨res, kept, s0, rest, _, _, _, _, hout, hap⟩ := recoverImpl_unpack hri hne
    subst hout
    refine ⟨s0.map PRepair.erase, eraseAll rest, rfl, ?_⟩
    obtain ⟨seq, hsr, _, he⟩ := hall s0 (by simp)
    obtain ⟨_, ⟨c1, hc1⟩, _⟩ := search_stripped_valid hsr
    have := (applyRepairs_of_applySeq (G := E.G) (A := E.A) (w := E.w) s0 c c1 H.pos (by rw [he]; exact hc1)).1
    rw [hap] at this
    injection this with this
    rw [he, hc1, this]
  · intro r hr
    simp only [eraseAll, List.mem_map] at hr
    obtain ⟨s, hs', rfl⟩ := hr
    obtain ⟨seq, hsr, _, he⟩ := hall s hs'
    obtain ⟨hv, _, hins⟩ := search_stripped_valid hsr
    rw [he]
    exact ⟨hv, hins, seq, hsr, rfl⟩

end GrmVerif.Cpct
