import GrmVerif.Model.Width
/-!
Helper lemmas for C20 (`Props/C20.lean`): truncation is the identity below `2^w`; the guards of
`new_from_ast_with_validity_info` say exactly "everything stored fits"; bit-level facts about the
action encoding.
-/
namespace GrmVerif.Width

theorem two_pow_pos' (w : Nat) : 0 < 2 ^ w := Nat.two_pow_pos w

theorem trunc_of_le {w n : Nat} (h : n ≤ maxVal w) : trunc w n = n := by
  have := two_pow_pos' w
  unfold trunc; unfold maxVal at h
  exact Nat.mod_eq_of_lt (by omega)

theorem trunc_of_lt {w n : Nat} (h : n < 2 ^ w) : trunc w n = n := Nat.mod_eq_of_lt h

theorem trunc_lt (w n : Nat) : trunc w n < 2 ^ w := Nat.mod_lt _ (two_pow_pos' w)

theorem le_maxVal_iff {w n : Nat} : n ≤ maxVal w ↔ n < 2 ^ w := by
  have := two_pow_pos' w
  unfold maxVal; omega

theorem maxVal_mono {w₁ w₂ : Nat} (h : w₁ ≤ w₂) : maxVal w₁ ≤ maxVal w₂ := by
  have := Nat.pow_le_pow_right (n := 2) (by decide) h
  unfold maxVal; omega

theorem addedRules_pos (s : Src) : 1 ≤ s.addedRules := by
  unfold Src.addedRules; split <;> omega

theorem addedProds_pos (s : Src) : 1 ≤ s.addedProds := by
  unfold Src.addedProds; split <;> omega

/-- the production lengths the constructor adds itself are at most 2, and 2 only with the implicit
rule (when three rules are added) -/
theorem mem_prodLens {s : Src} {l : Nat} (h : l ∈ s.prodLens) :
    (∃ p ∈ s.prods, l = s.storedLen p) ∨ l = 1 ∨ (s.hasImplicit = true ∧ l ≤ 2) := by
  unfold Src.prodLens at h
  simp only [List.mem_append, List.mem_map, List.mem_cons, List.not_mem_nil, or_false] at h
  rcases h with (⟨p, hp, rfl⟩ | h) | h
  · exact .inl ⟨p, hp, rfl⟩
  · exact .inr (.inl h)
  · by_cases hi : s.hasImplicit = true
    · simp only [hi, if_true, List.mem_append, List.mem_replicate, List.mem_cons, List.not_mem_nil,
        or_false] at h
      rcases h with (⟨_, h⟩ | h) | h <;> exact .inr (.inr ⟨hi, by omega⟩)
    · simp [hi] at h

theorem storedLen_mem_prodLens {s : Src} {p : Nat × Nat} (h : p ∈ s.prods) :
    s.storedLen p ∈ s.prodLens := by
  unfold Src.prodLens
  simp only [List.mem_append, List.mem_map]
  exact .inl (.inl ⟨p, h, rfl⟩)

theorem guardsPass_iff (w : Nat) (s : Src) :
    guardsPass w s = true ↔
      s.rulesTrue ≤ maxVal w ∧ s.tokensTrue ≤ maxVal w ∧ s.prodsTrue ≤ maxVal w ∧
      ∀ p ∈ s.prods, s.storedLen p ≤ maxVal w := by
  unfold guardsPass Src.rulesTrue Src.tokensTrue Src.prodsTrue
  simp only [Bool.and_eq_true, Bool.not_eq_true', decide_eq_false_iff_not, Nat.not_lt,
    List.all_eq_true, and_assoc]

/-- **The repaired guards are exact**: they pass iff every stored size fits. -/
theorem guardsPass_iff_fits (w : Nat) (s : Src) : guardsPass w s = true ↔ s.Fits w := by
  rw [guardsPass_iff]
  unfold Src.Fits
  constructor
  · rintro ⟨hr, ht, hp, hs⟩
    refine ⟨hr, ht, hp, ?_⟩
    intro l hl
    have h1 := addedRules_pos s
    rcases mem_prodLens hl with ⟨p, hp', rfl⟩ | rfl | ⟨hi, h2⟩
    · exact hs p hp'
    · unfold Src.rulesTrue at hr; omega
    · have : s.addedRules = 3 := by unfold Src.addedRules; simp [hi]
      unfold Src.rulesTrue at hr; omega
  · rintro ⟨hr, ht, hp, hs⟩
    exact ⟨hr, ht, hp, fun p hp' => hs _ (storedLen_mem_prodLens hp')⟩

theorem map_trunc_id {w : Nat} {l : List Nat} (h : ∀ x ∈ l, x ≤ maxVal w) :
    l.map (trunc w) = l := by
  induction l with
  | nil => rfl
  | cons a t ih =>
    simp only [List.map_cons]
    rw [trunc_of_le (h a (by simp)), ih (fun x hx => h x (by simp [hx]))]

theorem build_eq_some_iff (w : Nat) (s : Src) (r : Sizes) :
    build w s = some r ↔ s.Fits w ∧ r = trueSizes s := by
  unfold build buildWith
  by_cases hg : guardsPass w s = true
  · have hf := (guardsPass_iff_fits w s).mp hg
    obtain ⟨hr, ht, hp, hs⟩ := hf
    have h1 : s.tokens ≤ maxVal w := by unfold Src.tokensTrue at ht; omega
    have h2 : s.prods.length ≤ maxVal w := by unfold Src.prodsTrue at hp; omega
    simp only [hg, if_true, Option.some.injEq, trunc_of_le hr, trunc_of_le ht, trunc_of_le hp,
      trunc_of_le h1, trunc_of_le h2, map_trunc_id hs]
    constructor
    · intro h; exact ⟨⟨hr, ht, hp, hs⟩, h.symm⟩
    · intro h; exact h.2.symm
  · have hf : ¬ s.Fits w := fun h => hg ((guardsPass_iff_fits w s).mpr h)
    simp [hg, hf]

theorem pagerOk_iff (w pre : Nat) : pagerOk w pre = true ↔ pre ≤ 1 ∨ pre ≤ maxVal w := by
  unfold pagerOk pagerPushOk
  simp only [List.all_eq_true, List.mem_range, Bool.or_eq_true, beq_iff_eq, Bool.not_eq_true',
    decide_eq_false_iff_not, Nat.not_le]
  constructor
  · intro h
    by_cases h1 : pre ≤ 1
    · exact .inl h1
    · have := h (pre - 1) (by omega)
      omega
  · intro h len hl
    omega

/-! ### bit-level facts for `encode`/`decode` -/

theorem tag_or_shl (tag v : Nat) (ht : tag < 4) : tag ||| (v <<< 2) = v * 4 + tag := by
  rw [Nat.or_comm, ← Nat.shiftLeft_add_eq_or_of_lt (by omega : tag < 2 ^ 2), Nat.shiftLeft_eq]

theorem and3 (x : Nat) : x &&& 3 = x % 4 := Nat.and_two_pow_sub_one_eq_mod x 2

theorem shr2 (x : Nat) : x >>> 2 = x / 4 := by
  rw [Nat.shiftRight_eq_div_pow]

end GrmVerif.Width
