import GrmVerif.Lemmas.MaxCostsScan
import GrmVerif.Lemmas.Costs2
import GrmVerif.Lemmas.Total
/-! The model of `rule_max_costs`, part 2: recursive rules, the rank that bounds the number of sweeps, the
certificate `maxCert` under which no sum overflows, and the invariant of the sweeps. -/
namespace GrmVerif.Impl
open GrmVerif Spec Ref

/-! ### reachability -/

/-- rule `r` is recursive: it reaches itself through one or more productions -/
def Cyc (G : Grammar) (r : Nat) : Prop := Reach G r r

/-- rule `r` is, or reaches, a recursive rule -/
def Inf (G : Grammar) (r : Nat) : Prop := Cyc G r ∨ ∃ q, Reach G r q ∧ Cyc G q

/-- decision procedure for `Reach` (the verified reference reachability) -/
def reachB (G : Grammar) (r q : Nat) : Bool :=
  match reach G r with
  | some R => R.contains q
  | none => false

/-- decision procedure for `Cyc` -/
def isCyc (G : Grammar) (r : Nat) : Bool := reachB G r r

theorem reachB_iff (G : Grammar) (hwf : G.wf = true) (r q : Nat) : reachB G r q = true ↔ Reach G r q := by
  obtain ⟨R, hR⟩ := Total.reach_total G r
  have := reach_exact G hwf r R hR q
  simp only [reachB, hR, List.contains_eq_mem, decide_eq_true_eq]
  exact this

theorem isCyc_iff (G : Grammar) (hwf : G.wf = true) (r : Nat) : isCyc G r = true ↔ Cyc G r :=
  reachB_iff G hwf r r

theorem reach_trans {G : Grammar} {a b c : Nat} (h1 : Reach G a b) (h2 : Reach G b c) : Reach G a c := by
  induction h2 with
  | edge p B hp hm => exact .step a p B h1 hp hm
  | step A' p B _ hp hm ih => exact .step a p B (ih h1) hp hm

theorem reach_lt {G : Grammar} (hwf : G.wf = true) {a b : Nat} (h : Reach G a b) : b < G.nrules := by
  cases h with
  | edge p B hp hm => simpa [Grammar.symOk] using wf_sym hwf hp hm
  | step A' p B _ hp hm => simpa [Grammar.symOk] using wf_sym hwf hp hm

theorem reach_of_succ {G : Grammar} {i q : Nat} (h : Succ G i q) : Reach G i q := by
  obtain ⟨p, hp, hl, hm⟩ := h
  rw [← hl]; exact .edge p q hp hm

theorem inf_of_succ {G : Grammar} {i q : Nat} (h : Succ G i q) (hq : Inf G q) : Inf G i := by
  have hr := reach_of_succ h
  rcases hq with hq | ⟨q', hq', hc⟩
  · exact Or.inr ⟨q, hr, hq⟩
  · exact Or.inr ⟨q', reach_trans hr hq', hc⟩

/-- the number of rules a rule reaches: it bounds the sweep in which the rule is completed -/
def rho (G : Grammar) (r : Nat) : Nat := ((List.range G.nrules).filter (reachB G r)).length

theorem rho_lt (G : Grammar) (hwf : G.wf = true) {i q : Nat} (hs : Succ G i q) (hq : ¬ Cyc G q) :
    rho G q < rho G i := by
  have hr := reach_of_succ hs
  unfold rho
  apply Fix.filter_length_lt
  · intro y hy
    exact (reachB_iff G hwf i y).mpr (reach_trans hr ((reachB_iff G hwf q y).mp hy))
  · refine ⟨q, by simpa using reach_lt hwf hr, (reachB_iff G hwf i q).mpr hr, ?_⟩
    cases h : reachB G q q with
    | false => rfl
    | true => exact absurd ((reachB_iff G hwf q q).mp h) hq

theorem rho_lt_n (G : Grammar) (hwf : G.wf = true) {r : Nat} (hr : r < G.nrules) (hc : ¬ Cyc G r) :
    rho G r < G.nrules := by
  have : ((List.range G.nrules).filter (reachB G r)).length <
      ((List.range G.nrules).filter (fun _ => true)).length := by
    apply Fix.filter_length_lt
    · intro _ _; rfl
    · refine ⟨r, by simpa using hr, rfl, ?_⟩
      cases h : reachB G r r with
      | false => rfl
      | true => exact absurd ((reachB_iff G hwf r r).mp h) hc
  have e : ((List.range G.nrules).filter (fun _ => true)).length = G.nrules := by
    have : ∀ l : List Nat, l.filter (fun _ => true) = l := by
      intro l; induction l with
      | nil => rfl
      | cons a l ih => simp [List.filter_cons, ih]
    rw [this, List.length_range]
  rw [e] at this
  exact this

/-! ### vectors -/

theorem cget_set (costs : List Nat) (i v r : Nat) (hi : i < costs.length) :
    cget (costs.set i v) r = if r = i then v else cget costs r := by
  unfold cget
  rw [List.getD_eq_getElem?_getD, List.getD_eq_getElem?_getD, List.getElem?_set]
  by_cases h : i = r
  · subst h; simp [hi]
  · have : ¬ r = i := fun e => h e.symm
    simp [h, this]

theorem curSum_mono_mem {tc c c' : Nat → Nat} :
    ∀ l : List Sym, (∀ q, Sym.rule q ∈ l → c q ≤ c' q) → curSum tc c l ≤ curSum tc c' l := by
  intro l
  induction l with
  | nil => intro _; exact Nat.le_refl _
  | cons s rest ih =>
    intro h
    have ih' := ih (fun q hq => h q (List.mem_cons_of_mem _ hq))
    cases s with
    | tok t => simp only [curSum]; omega
    | rule q => have := h q (by simp); simp only [curSum]; omega

/-! ### the table of completed finite costs -/

/-- `costs[q]` if `done[q]` and the cost is finite -/
def finF (costs : List Nat) (done : List Bool) : Nat → Option Nat :=
  fun q => if vget done q && !(cget costs q == U16MAX) then some (cget costs q) else none

theorem finF_some {costs : List Nat} {done : List Bool} {q v : Nat} (h : finF costs done q = some v) :
    vget done q = true ∧ cget costs q ≠ U16MAX ∧ cget costs q = v := by
  unfold finF at h
  split at h
  · next hc =>
    simp only [Bool.and_eq_true, Bool.not_eq_true', beq_eq_false_iff_ne] at hc
    exact ⟨hc.1, hc.2, by simpa using h⟩
  · cases h

theorem finF_of {costs : List Nat} {done : List Bool} {q : Nat} (hd : vget done q = true)
    (hm : cget costs q ≠ U16MAX) : finF costs done q = some (cget costs q) := by
  simp [finF, hd, hm]

/-- a complete production without infinite rules has its current sum as cost in the finite table -/
theorem seqCost_complete (tc : Nat → Nat) (costs : List Nat) (done : List Bool) :
    ∀ l : List Sym, allDoneSyms done l = true → hasStop (isMaxB costs) l = false →
      seqCost tc (finF costs done) l = some (curSum tc (costF costs) l) := by
  intro l
  induction l with
  | nil => intro _ _; rfl
  | cons s rest ih =>
    intro hd hs
    cases s with
    | tok t =>
      simp only [allDoneSyms] at hd
      simp only [hasStop] at hs
      simp [seqCost, symCost, curSum, ih hd hs, addO]
    | rule q =>
      simp only [allDoneSyms, Bool.and_eq_true] at hd
      simp only [hasStop, Bool.or_eq_false_iff] at hs
      have hm : cget costs q ≠ U16MAX := by simpa [isMaxB] using hs.1
      simp [seqCost, symCost, curSum, ih hd.2 hs.2, addO, finF_of hd.1 hm, costF]

/-! ### the certificate -/

/-- **no sum overflows**: `U` bounds the interim and final costs of the rules that are not recursive — for
every production of such a rule, the costs of the symbols before the first recursive rule (tokens with
their cost, rules with `U`) add up to less than `u16::MAX`, and if the production contains no recursive
rule the sum is at most `U` of its rule -/
def maxCert (G : Grammar) (tc : Nat → Nat) (U : Nat → Nat) : Bool :=
  (List.range G.nprods).all (fun p =>
    isCyc G (G.lhs p) ||
    (decide (prefSum tc U (isCyc G) (G.rhs p) < U16MAX) &&
      (hasStop (isCyc G) (G.rhs p) || decide (curSum tc U (G.rhs p) ≤ U (G.lhs p)))))

theorem maxCert_prod {G : Grammar} {tc U : Nat → Nat} (h : maxCert G tc U = true) {p : Nat}
    (hp : p < G.nprods) (hl : isCyc G (G.lhs p) = false) :
    prefSum tc U (isCyc G) (G.rhs p) < U16MAX ∧
    (hasStop (isCyc G) (G.rhs p) = false → curSum tc U (G.rhs p) ≤ U (G.lhs p)) := by
  simp only [maxCert, List.all_eq_true, List.mem_range] at h
  have := h p hp
  simp only [hl, Bool.false_or, Bool.and_eq_true, decide_eq_true_eq, Bool.or_eq_true] at this
  refine ⟨this.1, ?_⟩
  intro hs
  rcases this.2 with h2 | h2
  · rw [hs] at h2; cases h2
  · exact h2

/-! ### the invariant -/

structure XInv (G : Grammar) (tc : List Nat) (U : Nat → Nat) (s : MX) : Prop where
  clen : s.costs.length = G.nrules
  dlen : s.done.length = G.nrules
  le : ∀ r, cget s.costs r ≤ U16MAX
  mx : ∀ r, cget s.costs r = U16MAX → vget s.done r = true ∧ Inf G r
  cyc : ∀ r, r < G.nrules → Cyc G r → cget s.costs r = U16MAX
  fin : ∀ r, vget s.done r = true → cget s.costs r ≠ U16MAX →
    (∀ p ∈ G.prodsOf r, ∃ v, seqCost (tcF tc) (finF s.costs s.done) (G.rhs p) = some v ∧ v ≤ cget s.costs r) ∧
    (∃ p ∈ G.prodsOf r, seqCost (tcF tc) (finF s.costs s.done) (G.rhs p) = some (cget s.costs r))
  real : Realised G (tcF tc) (finF s.costs s.done)
  ub : ∀ r, cget s.costs r ≠ U16MAX → cget s.costs r ≤ U r
  mono : ∀ r, r < G.nrules → vget s.done r = false →
    ∃ p ∈ G.prodsOf r, cget s.costs r ≤ curSum (tcF tc) (costF s.costs) (G.rhs p)

/-- a rule that is not done is not recursive -/
theorem XInv.notCyc {G : Grammar} {tc : List Nat} {U : Nat → Nat} {s : MX} (hI : XInv G tc U s) {i : Nat}
    (hi : i < G.nrules) (hd : vget s.done i = false) : ¬ Cyc G i := by
  intro hc
  have := (hI.mx i (hI.cyc i hi hc)).1
  rw [hd] at this; cases this

/-- a recursive rule has cost `u16::MAX` -/
theorem XInv.stop_of_cyc {G : Grammar} (hwf : G.wf = true) {tc : List Nat} {U : Nat → Nat} {s : MX}
    (hI : XInv G tc U s) (q : Nat) (h : isCyc G q = true) : isMaxB s.costs q = true := by
  have hc := (isCyc_iff G hwf q).mp h
  have := hI.cyc q (reach_lt hwf hc) hc
  simp [isMaxB, this]

/-- under the certificate every production of a rule that is not done can be scanned -/
theorem XInv.fits {G : Grammar} (hwf : G.wf = true) {tc : List Nat} {U : Nat → Nat} {s : MX}
    (hI : XInv G tc U s) (hcert : maxCert G (tcF tc) U = true) {i : Nat} (hi : i < G.nrules)
    (hd : vget s.done i = false) : ∀ p ∈ G.prodsOf i, ProdFits G tc s.costs p := by
  intro p hp
  obtain ⟨hp1, hp2⟩ := mem_prodsOf.mp hp
  have hnc : isCyc G (G.lhs p) = false := by
    cases h : isCyc G (G.lhs p) with
    | false => rfl
    | true => rw [hp2] at h; exact absurd ((isCyc_iff G hwf i).mp h) (hI.notCyc hi hd)
  refine ⟨hp1, Nat.lt_of_le_of_lt ?_ (maxCert_prod hcert hp1 hnc).1⟩
  apply prefSum_mono
  · exact hI.stop_of_cyc hwf
  · intro q hq
    apply hI.ub q
    simpa [isMaxB] using hq

/-- the current sum of a production without infinite rules is at most `U` of its rule -/
theorem XInv.sum_le_U {G : Grammar} (hwf : G.wf = true) {tc : List Nat} {U : Nat → Nat} {s : MX}
    (hI : XInv G tc U s) (hcert : maxCert G (tcF tc) U = true) {i : Nat} (hi : i < G.nrules)
    (hd : vget s.done i = false) {p : Nat} (hp : p ∈ G.prodsOf i)
    (hns : hasStop (isMaxB s.costs) (G.rhs p) = false) :
    curSum (tcF tc) (costF s.costs) (G.rhs p) ≤ U i := by
  obtain ⟨hp1, hp2⟩ := mem_prodsOf.mp hp
  have hnc : isCyc G (G.lhs p) = false := by
    cases h : isCyc G (G.lhs p) with
    | false => rfl
    | true => rw [hp2] at h; exact absurd ((isCyc_iff G hwf i).mp h) (hI.notCyc hi hd)
  have hns' : hasStop (isCyc G) (G.rhs p) = false := by
    cases h : hasStop (isCyc G) (G.rhs p) with
    | false => rfl
    | true =>
      obtain ⟨q, hq, hc⟩ := (hasStop_iff _ _).mp h
      have : hasStop (isMaxB s.costs) (G.rhs p) = true :=
        (hasStop_iff _ _).mpr ⟨q, hq, hI.stop_of_cyc hwf q hc⟩
      rw [hns] at this; cases this
  have h1 := (maxCert_prod hcert hp1 hnc).2 hns'
  rw [hp2] at h1
  refine Nat.le_trans (curSum_mono_mem _ ?_) h1
  intro q hq
  apply hI.ub q
  intro hm
  have : hasStop (isMaxB s.costs) (G.rhs p) = true :=
    (hasStop_iff _ _).mpr ⟨q, hq, by simp [isMaxB, hm]⟩
  rw [hns] at this; cases this

end GrmVerif.Impl
