import GrmVerif.Lemmas.YaccRoundtrip6
/-!
C10, text → AST stage, part 7: the image read declaratively — rule names and token names in order of
first appearance; every recorded name span delimits the name's text.
-/
namespace GrmVerif.YaccRender
open GrmVerif.YaccParse
open GrmVerif.Header (Res Span byteLen byteLen_append sliceRange)

/-- `IndexSet::insert` / `IndexMap` entry on a list of names: append unless present -/
def addName (acc : List Name) (n : Name) : List Name := if acc.contains n then acc else acc ++ [n]

theorem any_eq_contains (l : List (Name × Span)) (n : Name) :
    l.any (fun t => t.1 == n) = (l.map (·.1)).contains n := by
  induction l with
  | nil => rfl
  | cons x xs ih =>
    simp only [List.any_cons, List.map_cons, List.contains_cons, ih]
    rw [BEq.comm (a := x.1)]

theorem insertToken_names (a : Ast) (n : Name) (sp : Span) :
    (a.insertToken n sp).tokens.map (·.1) = addName (a.tokens.map (·.1)) n := by
  unfold Ast.insertToken addName Ast.hasToken
  rw [any_eq_contains]
  split <;> simp

theorem addRule_names (a : Ast) (n : Name) (sp : Span) :
    (a.addRule n sp).rules.map (·.1) = addName (a.rules.map (·.1)) n := by
  unfold Ast.addRule addName Ast.hasRule
  rw [any_eq_contains]
  split <;> simp

/-! ### rule names -/

theorem runProds_rules (rn : Name) : ∀ (more : List RProd) (pr : RProd) (i : Nat) (st : St),
    (runProds rn i pr more st).2.ast.rules = st.ast.rules := by
  intro more
  induction more with
  | nil => intro pr i st; simp only [runProds, pushProd_rules, runProd_rules]
  | cons q qs ih => intro pr i st; rw [runProds, ih, pushProd_rules, runProd_rules]

theorem setStart_rules (n : Name) (sp : Span) (a : Ast) : (setStart n sp a).rules = a.rules := by
  unfold setStart; split <;> rfl

theorem runRule_ruleNames (g : Bool) (i : Nat) (r : RRule) (st : St) :
    (runRule g i r st).2.ast.rules.map (·.1) = addName (st.ast.rules.map (·.1)) r.name := by
  simp only [runRule, headSt, St.incNl, runProds_rules, St.mapAst, addRule_names, setStart_rules]

theorem runRules_ruleNames (g : Bool) : ∀ (rs : List RRule) (i : Nat) (st : St),
    (runRules g i rs st).2.ast.rules.map (·.1) = (rs.map (·.name)).foldl addName (st.ast.rules.map (·.1)) := by
  intro rs
  induction rs with
  | nil => intro i st; rfl
  | cons r rs ih => intro i st; rw [runRules, ih, runRule_ruleNames]; rfl

/-! ### token names -/

/-- the token names a symbol / a production / a rule inserts, in order: quoted symbols and `%prec` operands -/
def RTok.inserted : RTok → List Name
  | .quoted _ t => [t]
  | .bare _ => []

def prodToks (p : RProd) : List Name := p.syms.flatMap RTok.inserted ++ (p.prec.map RTok.name).toList

def rulesToks : List RRule → List Name
  | [] => []
  | r :: rs => r.prods.flatMap prodToks ++ rulesToks rs

def tokNames (st : St) : List Name := st.ast.tokens.map (·.1)

theorem stepSym_toks (i : Nat) (s : RTok) (p : PState) (st : St) :
    tokNames (stepSym i s p st).2 = s.inserted.foldl addName (tokNames st) := by
  cases s with
  | quoted q t => simp [stepSym, tokNames, St.mapAst, insertToken_names, RTok.inserted]
  | bare n => rfl

theorem runSyms_toks : ∀ (ss : List RTok) (i : Nat) (p : PState) (st : St),
    tokNames (runSyms i ss p st).2.2 = (ss.flatMap RTok.inserted).foldl addName (tokNames st) := by
  intro ss
  induction ss with
  | nil => intro i p st; rfl
  | cons s ss ih => intro i p st; rw [runSyms, ih, stepSym_toks]; simp [List.foldl_append]

theorem runPrec_toks (i : Nat) (o : Option RTok) (p : PState) (st : St) :
    tokNames (runPrec i o p st).2.2 = (o.map RTok.name).toList.foldl addName (tokNames st) := by
  cases o with
  | none => rfl
  | some t => simp [runPrec, tokNames, St.mapAst, insertToken_names]

theorem runAction_toks (i : Nat) (o : Option (List Char)) (p : PState) (st : St) :
    tokNames (runAction i o p st).2.2 = tokNames st := by
  cases o <;> rfl

theorem runProd_toks (i : Nat) (pr : RProd) (st : St) :
    tokNames (runProd i pr st).2.2 = (prodToks pr).foldl addName (tokNames st) := by
  simp only [runProd, runAction_toks, runPrec_toks, runSyms_toks, prodToks, List.foldl_append]

theorem runProds_toks (rn : Name) : ∀ (more : List RProd) (pr : RProd) (i : Nat) (st : St),
    tokNames (runProds rn i pr more st).2 = ((pr :: more).flatMap prodToks).foldl addName (tokNames st) := by
  intro more
  induction more with
  | nil =>
    intro pr i st
    show tokNames (runProd i pr st).2.2 = _
    rw [runProd_toks]; simp
  | cons q qs ih =>
    intro pr i st
    rw [runProds, ih]
    show (List.flatMap prodToks (q :: qs)).foldl addName (tokNames (runProd i pr st).2.2) = _
    rw [runProd_toks]; simp [List.foldl_append]

theorem runRule_toks (g : Bool) (i : Nat) (r : RRule) (st : St) :
    tokNames (runRule g i r st).2 = (r.prods.flatMap prodToks).foldl addName (tokNames st) := by
  have e : tokNames (headSt g i r st) = tokNames st := by
    simp only [tokNames, headSt, St.incNl, St.mapAst, setStart, Ast.addRule]
    split <;> split <;> rfl
  show tokNames (runProds r.name _ r.first r.more _).2 = _
  rw [runProds_toks, e]; rfl

theorem runRules_toks (g : Bool) : ∀ (rs : List RRule) (i : Nat) (st : St),
    tokNames (runRules g i rs st).2 = (rulesToks rs).foldl addName (tokNames st) := by
  intro rs
  induction rs with
  | nil => intro i st; rfl
  | cons r rs ih => intro i st; rw [runRules, ih, runRule_toks, rulesToks, List.foldl_append]

theorem mem_addName {acc : List Name} {n m : Name} (h : m ∈ addName acc n) : m ∈ acc ∨ m = n := by
  unfold addName at h
  split at h
  · exact .inl h
  · rcases List.mem_append.1 h with h | h
    · exact .inl h
    · exact .inr (by simpa using h)

theorem mem_foldl_addName {l acc : List Name} {m : Name} (h : m ∈ l.foldl addName acc) : m ∈ acc ∨ m ∈ l := by
  induction l generalizing acc with
  | nil => exact .inl h
  | cons x xs ih =>
    rcases ih h with h | h
    · rcases mem_addName h with h | h
      · exact .inl h
      · exact .inr (by simp [h])
    · exact .inr (List.mem_cons_of_mem _ h)

theorem mem_descProds {dirs : List Name} {rs : List RRule} {v : PView} (h : v ∈ descProds dirs rs) :
    ∃ r ∈ rs, ∃ p ∈ r.prods, v = descProd dirs r.name p := by
  induction rs with
  | nil => simp [descProds] at h
  | cons r rs ih =>
    simp only [descProds, List.mem_append, List.mem_map] at h
    rcases h with ⟨p, hp, rfl⟩ | h
    · exact ⟨r, by simp, p, hp, rfl⟩
    · obtain ⟨r', hr', p, hp, e⟩ := ih h
      exact ⟨r', List.mem_cons_of_mem _ hr', p, hp, e⟩

end GrmVerif.YaccRender
