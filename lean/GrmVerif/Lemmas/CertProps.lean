import GrmVerif.Model.Cert
import GrmVerif.Lemmas.Analyses
/-! What an accepted certificate means, as propositions. -/
namespace GrmVerif.Cert
open GrmVerif Spec

/-- the item list contains `[p, d, _]` -/
def HasItem (items : List Item) (p d : Nat) : Prop := ∃ i ∈ items, i.p = p ∧ i.dot = d

theorem hasItem_iff (items : List Item) (p d : Nat) : hasItem items p d = true ↔ HasItem items p d := by
  simp [hasItem, HasItem]

theorem allStates_iff (A : Automaton) (f : Nat → Bool) : allStates A f = true ↔ ∀ s, s < A.nstates → f s = true := by
  simp [allStates]

theorem edge_mem {A : Automaton} {s t : Nat} {X : Sym} (h : A.edge s X = some t) : (X, t) ∈ A.edges s := by
  simp only [Automaton.edge, Option.map_eq_some_iff] at h
  obtain ⟨e, he, ht⟩ := h
  have h1 := List.mem_of_find?_eq_some he
  have h2 := List.find?_some he
  have : e.1 = X := by simpa using h2
  obtain ⟨a, b⟩ := e
  simp only at this ht; subst this; subst ht; exact h1

/-- the conditions, unpacked -/
structure Props (G : Grammar) (A : Automaton) : Prop where
  wf : G.wf = true
  startShape : ∃ S, G.rhs G.startProd = [.rule S]
  noStartRhs : ∀ p, p < G.nprods → Sym.rule G.startRule ∉ G.rhs p
  noEofRhs : ∀ p, p < G.nprods → Sym.tok G.eof ∉ G.rhs p
  itemOk : ∀ s, s < A.nstates → ∀ i ∈ A.closed s ++ A.core s, i.p < G.nprods ∧ i.dot ≤ (G.rhs i.p).length
  startLt : A.start < A.nstates
  startCore : ∀ i ∈ A.core A.start, i.p = G.startProd ∧ i.dot = 0
  startHas : HasItem (A.core A.start) G.startProd 0
  kernelOfDot : ∀ s, s < A.nstates → ∀ i ∈ A.closed s, i.dot > 0 → HasItem (A.core s) i.p i.dot
  coreSub : ∀ s, s < A.nstates → ∀ i ∈ A.core s, HasItem (A.closed s) i.p i.dot
  edgeTarget : ∀ s, s < A.nstates → ∀ e ∈ A.edges s, e.2 < A.nstates ∧ A.core e.2 ≠ [] ∧
    ∀ i ∈ A.core e.2, i.dot > 0 ∧ symAt G i.p (i.dot - 1) = some e.1 ∧ HasItem (A.closed s) i.p (i.dot - 1)
  edgeExists : ∀ s, s < A.nstates → ∀ i ∈ A.closed s, ∀ X, symAt G i.p i.dot = some X →
    ∃ t, A.edge s X = some t ∧ HasItem (A.core t) i.p (i.dot + 1)
  actReduce : ∀ s t p, s < A.nstates → t < G.ntoks → A.action s t = .reduce p →
    p ≠ G.startProd ∧ p < G.nprods ∧ HasItem (A.closed s) p (G.rhs p).length
  actShift : ∀ s t s', s < A.nstates → t < G.ntoks → A.action s t = .shift s' → A.edge s (.tok t) = some s'
  actAccept : ∀ s t, s < A.nstates → t < G.ntoks → A.action s t = .accept → t = G.eof ∧ HasItem (A.closed s) G.startProd 1
  gotoEdge : ∀ s r, s < A.nstates → r < G.nrules → A.goto s r = A.edge s (.rule r)
  justified : ∀ s, s < A.nstates → ∀ i ∈ A.closed s, i.dot = 0 →
    HasItem (A.core s) i.p 0 ∨ ∃ j ∈ A.closed s, symAt G j.p j.dot = some (.rule (G.lhs i.p))

theorem check_props (G : Grammar) (A : Automaton) (h : check G A = true) : Props G A := by
  simp only [check, Bool.and_eq_true] at h
  obtain ⟨⟨⟨⟨⟨⟨⟨⟨hwf, hit⟩, h1⟩, h2⟩, h3p⟩, h3⟩, h4⟩, h5⟩, h6⟩ := h
  simp only [wfG, Bool.and_eq_true, List.all_eq_true, Bool.not_eq_true', List.contains_eq_mem,
    decide_eq_false_iff_not] at hwf
  obtain ⟨⟨hw1, hw2⟩, hw3⟩ := hwf
  rw [itemsOk, allStates_iff] at hit
  simp only [k1, Bool.and_eq_true, decide_eq_true_eq, beq_iff_eq] at h1
  rw [k2, allStates_iff] at h2
  rw [k3', allStates_iff] at h3p
  rw [k3, allStates_iff] at h3
  rw [k4, allStates_iff] at h4
  rw [k5, allStates_iff] at h5
  rw [k6, allStates_iff] at h6
  have hprodmem : ∀ p, p < G.nprods → (G.lhs p, G.rhs p) ∈ G.prods := fun p hp =>
    List.mem_of_getElem? (prods_getElem hp)
  refine
    { wf := hw1
      startShape := ?_
      noStartRhs := fun p hp => (hw3 _ (hprodmem p hp)).1
      noEofRhs := fun p hp => (hw3 _ (hprodmem p hp)).2
      itemOk := ?_
      startLt := h1.1
      startCore := ?_
      startHas := ?_
      kernelOfDot := ?_
      coreSub := ?_
      edgeTarget := ?_
      edgeExists := ?_
      actReduce := ?_
      actShift := ?_
      actAccept := ?_
      gotoEdge := ?_
      justified := ?_ }
  · -- startShape
    cases hr : G.rhs G.startProd with
    | nil => simp [hr] at hw2
    | cons a as =>
      cases a with
      | tok t => simp [hr] at hw2
      | rule S =>
        cases as with
        | nil => exact ⟨S, rfl⟩
        | cons b bs => simp [hr] at hw2
  · intro s hs i hi
    have := hit s hs
    simp only [List.all_eq_true, Bool.and_eq_true, decide_eq_true_eq] at this
    exact this i hi
  · -- startCore
    intro i hi
    have hm := h1.2
    have : (i.p, i.dot) ∈ (A.core A.start).map (fun i => (i.p, i.dot)) := List.mem_map.mpr ⟨i, hi, rfl⟩
    rw [hm] at this
    simp only [List.mem_singleton, Prod.mk.injEq] at this
    exact this
  · -- startHas
    have hm := h1.2
    cases hc : A.core A.start with
    | nil => simp [hc] at hm
    | cons i is =>
      rw [hc] at hm
      simp only [List.map_cons, List.cons.injEq, Prod.mk.injEq, List.map_eq_nil_iff] at hm
      exact ⟨i, by simp, hm.1.1, hm.1.2⟩
  · intro s hs i hi hd
    have := (h2 s hs)
    simp only [Bool.and_eq_true, List.all_eq_true, Bool.or_eq_true, beq_iff_eq] at this
    rcases this.1 i hi with h0 | h0
    · omega
    · exact (hasItem_iff _ _ _).mp h0
  · intro s hs i hi
    have := (h2 s hs)
    simp only [Bool.and_eq_true, List.all_eq_true] at this
    exact (hasItem_iff _ _ _).mp (this.2 i hi)
  · intro s hs e he
    have := h3p s hs
    simp only [List.all_eq_true, Bool.and_eq_true, decide_eq_true_eq, Bool.not_eq_true', beq_iff_eq] at this
    obtain ⟨⟨h1', h2'⟩, h3'⟩ := this e he
    refine ⟨h1', ?_, ?_⟩
    · intro hnil; rw [hnil] at h2'; simp at h2'
    · intro i hi
      obtain ⟨⟨a, b⟩, c⟩ := h3' i hi
      exact ⟨a, b, (hasItem_iff _ _ _).mp c⟩
  · intro s hs i hi X hX
    have := h3 s hs
    simp only [List.all_eq_true] at this
    have h' := this i hi
    rw [hX] at h'
    simp only at h'
    cases he : A.edge s X with
    | none => rw [he] at h'; cases h'
    | some t => rw [he] at h'; exact ⟨t, rfl, (hasItem_iff _ _ _).mp h'⟩
  · intro s t p hs ht ha
    have := h4 s hs
    simp only [List.all_eq_true, List.mem_range] at this
    have h' := this t ht
    rw [ha] at h'
    simp only [Bool.and_eq_true, decide_eq_true_eq] at h'
    exact ⟨h'.1.1, h'.1.2, (hasItem_iff _ _ _).mp h'.2⟩
  · intro s t s' hs ht ha
    have := h4 s hs
    simp only [List.all_eq_true, List.mem_range] at this
    have h' := this t ht
    rw [ha] at h'
    simpa using h'
  · intro s t hs ht ha
    have := h4 s hs
    simp only [List.all_eq_true, List.mem_range] at this
    have h' := this t ht
    rw [ha] at h'
    simp only [Bool.and_eq_true, decide_eq_true_eq] at h'
    exact ⟨h'.1, (hasItem_iff _ _ _).mp h'.2⟩
  · intro s r hs hr
    have := h5 s hs
    simp only [List.all_eq_true, List.mem_range, beq_iff_eq] at this
    exact this r hr
  · intro s hs i hi hd
    have := h6 s hs
    simp only [List.all_eq_true, Bool.or_eq_true, bne_iff_ne, ne_eq, List.any_eq_true, beq_iff_eq] at this
    rcases this i hi with (h0 | h0) | h0
    · exact absurd hd h0
    · exact Or.inl ((hasItem_iff _ _ _).mp h0)
    · exact Or.inr h0

end GrmVerif.Cert
