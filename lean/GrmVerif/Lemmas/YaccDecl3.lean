import GrmVerif.Lemmas.YaccDecl2
/-!
C10, text → AST stage, declarations, part 3: one lemma per declaration kind for the body of the loop of
`parse_declarations` (`declStep`).
-/
namespace GrmVerif.YaccRender
open GrmVerif.YaccParse
open GrmVerif.Header (Res Span byteLen dropBytes slice sliceRange lookahead byteLen_append)

/-- skip one failing `lookahead_is` of an `if let … else if let …` chain -/
macro "la_skip " h:ident s:str : tactic =>
  `(tactic| (refine M.Ret.bind (la_no $h $s _ (by simp [List.isPrefixOf])) ?_; dsimp only))

theorem laWhen_no {src : List Char} {i : Nat} {rest : List Char} (cond : Bool) (h : At src i rest)
    (s : String) (st : St) (hn : cond = true → s.toList.isPrefixOf rest = false) :
    M.Ret (laWhen cond src s i) st none st := by
  unfold laWhen
  cases cond with
  | false => exact M.Ret.pure
  | true => exact la_no h s st (hn rfl)

macro "law_skip " h:ident s:str : tactic =>
  `(tactic| (refine M.Ret.bind (laWhen_no _ $h $s _ (fun _ => by simp [List.isPrefixOf])) ?_; dsimp only))

theorem wfName_starts {n : List Char} (hn : wfName n = true) (k : List Char) : Starts (n ++ k) := by
  cases n with
  | nil => simp [wfName] at hn
  | cons c cs => exact starts_cons _ (nameStart_facts (wfName_head hn)).2.2.2.2.2.2

theorem declStep_start {src : List Char} {kind : Kind} {fuel i level : Nat} {n k : List Char} (st : St)
    (h : At src i (renderDecl (.start n) ++ k)) (hw : wfName n = true) (hk : DeclNext k)
    (hs : st.ast.start = none) :
    M.Ret (declStep src kind fuel i level) st
      (.cont (i + 7 + byteLen n + 1) level)
      (St.incNl 1 (St.mapAst (fun a => { a with start := some (n, (i + 7, i + 7 + byteLen n)) }) st)) := by
  have h0 : At src i ('%' :: 's' :: 't' :: 'a' :: 'r' :: 't' :: ' ' :: (n ++ '\n' :: k)) := by
    simpa [renderDecl, kwOf, bodyOf] using h
  have h6 : At src (i + 6) (' ' :: (n ++ '\n' :: k)) := by
    have := At.adv (a := ['%', 's', 't', 'a', 'r', 't']) (by simpa using h0)
    rwa [show byteLen ['%', 's', 't', 'a', 'r', 't'] = 6 by decide] at this
  have h7 : At src (i + 6 + 1) (n ++ '\n' :: k) := h6.adv1 (by decide)
  have h8 : At src (i + 6 + 1 + byteLen n) ('\n' :: k) := h7.adv
  have hds : M.Ret (declStart src (i + 6)) st (i + 6 + 1 + byteLen n + 1)
      (St.incNl 1 (St.mapAst (fun a => { a with start := some (n, (i + 6 + 1, i + 6 + 1 + byteLen n)) }) st)) := by
    unfold declStart
    refine M.Ret.bind (ws_false_space h6 (wfName_starts hw _).stops st) ?_
    refine M.Ret.bind (liftR_ret (parseName_at h7 hw (nameEnd_nl k))) ?_
    dsimp only
    refine M.Ret.bind (liftR_ret (mkSpan_le _ _)) ?_
    refine M.Ret.bind (M.Ret.bind (getSt_ret st) (by
      rw [hs]; exact modifyAst_ret _ st) : M.Ret (recordStart _ _) st () _) ?_
    exact ws_nl h8 hk.starts.stops _
  unfold declStep
  la_skip h0 "%%"
  la_skip h0 "%token"
  law_skip h0 "%actiontype"
  refine M.Ret.bind (la_yes' (j := i + 6) "%start" (by simpa using h0) st
    (by rw [show byteLen "%start".toList = 6 by decide])) ?_
  dsimp only
  refine M.Ret.bind hds ?_
  rw [show i + 6 + 1 = i + 7 by omega]
  exact M.Ret.pure

theorem laWhen_yes {src : List Char} {i j : Nat} {rest : List Char} (cond : Bool) (hc : cond = true) (s : String)
    (h : At src i (s.toList ++ rest)) (st : St) (hj : i + byteLen s.toList = j) :
    M.Ret (laWhen cond src s i) st (some j) st := by
  unfold laWhen
  rw [hc]
  exact la_yes' s h st hj

/-! ### `%token` -/

theorem declStep_token {src : List Char} {kind : Kind} {fuel i level : Nat} {t : RTok} {ts : List RTok}
    {k : List Char} (st : St) (h : At src i (renderDecl (.token t ts) ++ k))
    (hw : (t :: ts).all wfTok = true) (hk : DeclNext k) (hf : ts.length + 2 ≤ fuel) :
    M.Ret (declStep src kind fuel i level) st
      (.cont (runTokens (i + 7) t ts st).1 level) (runTokens (i + 7) t ts st).2 := by
  have h0 : At src i ('%' :: 't' :: 'o' :: 'k' :: 'e' :: 'n' :: ' ' :: (renderToks t ts ++ k)) := by
    simpa [renderDecl, kwOf, bodyOf, precKw] using h
  have hk0 : At src (i + 6) (' ' :: (renderToks t ts ++ k)) := by
    have := At.adv (a := ['%', 't', 'o', 'k', 'e', 'n']) (by simpa using h0)
    rwa [show byteLen ['%', 't', 'o', 'k', 'e', 'n'] = 6 by decide] at this
  have hk1 : At src (i + 6 + 1) (renderToks t ts ++ k) := hk0.adv1 (by decide)
  obtain ⟨f, hfe⟩ : ∃ f, ts.length + 2 + f = fuel := ⟨fuel - (ts.length + 2), by omega⟩
  have hloop := tokenLoop_at (src := src) ts t f (i + 6 + 1) st k hk1 hw hk
  rw [hfe] at hloop
  unfold declStep
  la_skip h0 "%%"
  refine M.Ret.bind (la_yes' (j := i + 6) "%token" (by simpa using h0) st
    (by rw [show byteLen "%token".toList = 6 by decide])) ?_
  dsimp only
  refine M.Ret.bind (M.Ret.bind (ws_false_space hk0 (renderToks_starts (by simp only [List.all_cons, Bool.and_eq_true] at hw; exact hw.1) ts k).stops st)
    (show M.Ret (tokenLoop src fuel (i + 6 + 1)) st _ _ from hloop) : M.Ret (declToken src fuel (i + 6)) st _ _) ?_
  exact M.Ret.pure

/-! ### `%expect`, `%expect-rr` -/

theorem declStep_expect {src : List Char} {kind : Kind} {fuel i level : Nat} {ds k : List Char} {v : Nat} (st : St)
    (h : At src i (renderDecl (.expect ds) ++ k)) (hv : Header.parseU64 ds = some v) (hk : DeclNext k)
    (hf : ds.length < fuel) (hs : st.ast.expect = none) :
    M.Ret (declStep src kind fuel i level) st
      (.cont (i + 8 + byteLen ds + 1) level)
      (St.incNl 1 (St.mapAst (fun a => { a with expect := some (v, (i + 8, i + 8 + byteLen ds)) }) st)) := by
  have h0 : At src i ('%' :: 'e' :: 'x' :: 'p' :: 'e' :: 'c' :: 't' :: ' ' :: (ds ++ '\n' :: k)) := by
    simpa [renderDecl, kwOf, bodyOf, precKw] using h
  have hk0 : At src (i + 7) (' ' :: (ds ++ '\n' :: k)) := by
    have := At.adv (a := ['%', 'e', 'x', 'p', 'e', 'c', 't']) (by simpa using h0)
    rwa [show byteLen ['%', 'e', 'x', 'p', 'e', 'c', 't'] = 7 by decide] at this
  have hk1 : At src (i + 7 + 1) (ds ++ '\n' :: k) := hk0.adv1 (by decide)
  have h8 : At src (i + 7 + 1 + byteLen ds) ('\n' :: k) := hk1.adv
  have hst : Starts (ds ++ '\n' :: k) := by
    cases ds with
    | nil => simp [Header.parseU64] at hv
    | cons d ds' =>
      have hd : Header.isDigit d = true := by
        unfold Header.parseU64 at hv
        split at hv
        · next hc => have := hc.2.1; simp only [List.all_cons, Bool.and_eq_true] at this; exact this.1
        · cases hv
      refine starts_cons _ ⟨?_, ?_, ?_⟩
      · cases hb : YaccLex.isBlank d with
        | false => rfl
        | true =>
          simp only [YaccLex.isBlank, Bool.or_eq_true, beq_iff_eq] at hb
          rcases hb with rfl | rfl <;> exact absurd hd (by decide)
      · cases hb : YaccLex.isEol d with
        | false => rfl
        | true =>
          simp only [YaccLex.isEol, Bool.or_eq_true, beq_iff_eq] at hb
          rcases hb with rfl | rfl <;> exact absurd hd (by decide)
      · intro e; subst e; exact absurd hd (by decide)
  have hde : M.Ret (declExpect src fuel (i + 7)) st (i + 7 + 1 + byteLen ds + 1)
      (St.incNl 1 (St.mapAst (fun a => { a with expect := some (v, (i + 7 + 1, i + 7 + 1 + byteLen ds)) }) st)) := by
    unfold declExpect
    refine M.Ret.bind (ws_false_space hk0 hst.stops st) ?_
    refine M.Ret.bind (liftR_ret (parseInt_at hk1 hv hf)) ?_
    dsimp only
    refine M.Ret.bind (liftR_ret (mkSpan_le _ _)) ?_
    refine M.Ret.bind (M.Ret.bind (getSt_ret st) (by
      rw [hs]; exact modifyAst_ret _ st) : M.Ret (recordExpect _ _) st () _) ?_
    exact ws_nl h8 hk.starts.stops _
  unfold declStep
  la_skip h0 "%%"
  la_skip h0 "%token"
  law_skip h0 "%actiontype"
  la_skip h0 "%start"
  la_skip h0 "%epp"
  la_skip h0 "%expect-rr"
  unfold declStep2
  la_skip h0 "%expect-unused"
  refine M.Ret.bind (la_yes' (j := i + 7) "%expect" (by simpa using h0) st
    (by rw [show byteLen "%expect".toList = 7 by decide])) ?_
  dsimp only
  refine M.Ret.bind hde ?_
  rw [show i + 7 + 1 = i + 8 by omega]
  exact M.Ret.pure

theorem declStep_expectRR {src : List Char} {kind : Kind} {fuel i level : Nat} {ds k : List Char} {v : Nat} (st : St)
    (h : At src i (renderDecl (.expectRR ds) ++ k)) (hv : Header.parseU64 ds = some v) (hk : DeclNext k)
    (hf : ds.length < fuel) (hs : st.ast.expectrr = none) :
    M.Ret (declStep src kind fuel i level) st
      (.cont (i + 11 + byteLen ds + 1) level)
      (St.incNl 1 (St.mapAst (fun a => { a with expectrr := some (v, (i + 11, i + 11 + byteLen ds)) }) st)) := by
  have h0 : At src i ('%' :: 'e' :: 'x' :: 'p' :: 'e' :: 'c' :: 't' :: '-' :: 'r' :: 'r' :: ' ' :: (ds ++ '\n' :: k)) := by
    simpa [renderDecl, kwOf, bodyOf, precKw] using h
  have hk0 : At src (i + 10) (' ' :: (ds ++ '\n' :: k)) := by
    have := At.adv (a := ['%', 'e', 'x', 'p', 'e', 'c', 't', '-', 'r', 'r']) (by simpa using h0)
    rwa [show byteLen ['%', 'e', 'x', 'p', 'e', 'c', 't', '-', 'r', 'r'] = 10 by decide] at this
  have hk1 : At src (i + 10 + 1) (ds ++ '\n' :: k) := hk0.adv1 (by decide)
  have h8 : At src (i + 10 + 1 + byteLen ds) ('\n' :: k) := hk1.adv
  have hst : Starts (ds ++ '\n' :: k) := by
    cases ds with
    | nil => simp [Header.parseU64] at hv
    | cons d ds' =>
      have hd : Header.isDigit d = true := by
        unfold Header.parseU64 at hv
        split at hv
        · next hc => have := hc.2.1; simp only [List.all_cons, Bool.and_eq_true] at this; exact this.1
        · cases hv
      refine starts_cons _ ⟨?_, ?_, ?_⟩
      · cases hb : YaccLex.isBlank d with
        | false => rfl
        | true =>
          simp only [YaccLex.isBlank, Bool.or_eq_true, beq_iff_eq] at hb
          rcases hb with rfl | rfl <;> exact absurd hd (by decide)
      · cases hb : YaccLex.isEol d with
        | false => rfl
        | true =>
          simp only [YaccLex.isEol, Bool.or_eq_true, beq_iff_eq] at hb
          rcases hb with rfl | rfl <;> exact absurd hd (by decide)
      · intro e; subst e; exact absurd hd (by decide)
  have hde : M.Ret (declExpectRR src fuel (i + 10)) st (i + 10 + 1 + byteLen ds + 1)
      (St.incNl 1 (St.mapAst (fun a => { a with expectrr := some (v, (i + 10 + 1, i + 10 + 1 + byteLen ds)) }) st)) := by
    unfold declExpectRR
    refine M.Ret.bind (ws_false_space hk0 hst.stops st) ?_
    refine M.Ret.bind (liftR_ret (parseInt_at hk1 hv hf)) ?_
    dsimp only
    refine M.Ret.bind (liftR_ret (mkSpan_le _ _)) ?_
    refine M.Ret.bind (M.Ret.bind (getSt_ret st) (by
      rw [hs]; exact modifyAst_ret _ st) : M.Ret (recordExpectRR _ _) st () _) ?_
    exact ws_nl h8 hk.starts.stops _
  unfold declStep
  la_skip h0 "%%"
  la_skip h0 "%token"
  law_skip h0 "%actiontype"
  la_skip h0 "%start"
  la_skip h0 "%epp"
  refine M.Ret.bind (la_yes' (j := i + 10) "%expect-rr" (by simpa using h0) st
    (by rw [show byteLen "%expect-rr".toList = 10 by decide])) ?_
  dsimp only
  refine M.Ret.bind hde ?_
  rw [show i + 10 + 1 = i + 11 by omega]
  exact M.Ret.pure

end GrmVerif.YaccRender
