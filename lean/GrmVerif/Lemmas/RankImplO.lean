import GrmVerif.Lemmas.RankImpl2
/-!
The refinements `applyRepairsO`/`lrUptoO`/`rankCndsO` of `Model/RankImpl.lean` (a PANIC of the real code
kept apart from the model's fuel) are the functions `applyRepairs`/`lrUpto`/`rankCnds` once the
difference is forgotten: every theorem about the latter's `some` answers is a theorem about the
former's `.ok` answers.
-/
namespace GrmVerif.RankImpl
open GrmVerif LR Rec SearchImpl

theorem Out.toOption_eq_some {α : Type} {x : Out α} {a : α} : x.toOption = some a ↔ x = .ok a := by
  cases x <;> simp [Out.toOption]

theorem Out.toOption_ok {α : Type} (a : α) : (Out.ok a).toOption = some a := rfl

theorem applyOneO_toOption (G : Grammar) (A : Automaton) (w : List Nat) (c : Pos) (r : PRepair) :
    (applyOneO G A w c r).toOption = applyOne G A w c r := by
  cases r with
  | insert t =>
    simp only [applyOneO, applyOne]
    split
    · rfl
    · cases feed G A t FUEL c.stack <;> rfl
  | delete l => rfl
  | shift l =>
    simp only [applyOneO, applyOne]
    split
    · rfl
    · cases feed G A (nextTok G w c.pos) FUEL c.stack <;> rfl

theorem applyRepairsO_toOption (G : Grammar) (A : Automaton) (w : List Nat) :
    ∀ (seq : Seq) (c : Pos), (applyRepairsO G A w c seq).toOption = applyRepairs G A w c seq := by
  intro seq
  induction seq with
  | nil => intro c; rfl
  | cons r rs ih =>
    intro c
    simp only [applyRepairsO, applyRepairs]
    rw [← applyOneO_toOption]
    cases applyOneO G A w c r with
    | ok c' => simp only [Out.toOption]; exact ih c'
    | panic => rfl
    | fuelOut => rfl

theorem lrUptoO_toOption (G : Grammar) (A : Automaton) (w : List Nat) (endIdx : Nat) :
    ∀ (fuel : Nat) (c : Pos), (lrUptoO G A w endIdx fuel c).toOption = lrUpto G A w endIdx fuel c := by
  intro fuel
  induction fuel with
  | zero => intro c; rfl
  | succ f ih =>
    intro c
    simp only [lrUptoO, lrUpto]
    split
    · rfl
    · cases feed G A (nextTok G w c.pos) FUEL c.stack with
      | shifted s => exact ih _
      | accept s => rfl
      | error s => rfl
      | crash => rfl
      | fuelOut => rfl

theorem reachO_toOption (G : Grammar) (A : Automaton) (w : List Nat) (win : Nat) (start : Pos) (seq : Seq) :
    (reachO G A w win start seq).toOption = reach G A w win start seq := by
  simp only [reachO, reach]
  rw [← applyRepairsO_toOption]
  cases applyRepairsO G A w start seq with
  | ok c =>
    simp only [Out.toOption]
    rw [← lrUptoO_toOption]
    cases lrUptoO G A w (start.pos + win) (w.length + 2) c <;> rfl
  | panic => rfl
  | fuelOut => rfl

theorem groupReachO_toOption (G : Grammar) (A : Automaton) (w : List Nat) (win : Nat) (start : Pos)
    (g : List Seq) : (groupReachO G A w win start g).toOption = groupReach G A w win start g := by
  cases g with
  | nil => rfl
  | cons s rest => exact reachO_toOption G A w win start s

theorem scoreCndsO_toOption (G : Grammar) (A : Automaton) (w : List Nat) (win : Nat) (start : Pos) :
    ∀ cnds : List (List Seq),
      (scoreCndsO G A w win start cnds).toOption = scoreCnds G A w win start cnds := by
  intro cnds
  induction cnds with
  | nil => rfl
  | cons g gs ih =>
    simp only [scoreCndsO, scoreCnds]
    rw [← groupReachO_toOption, ← ih]
    cases groupReachO G A w win start g with
    | ok d =>
      simp only [Out.toOption]
      cases scoreCndsO G A w win start gs <;> rfl
    | panic => rfl
    | fuelOut => rfl

theorem rankCndsO_toOption (G : Grammar) (A : Automaton) (w : List Nat) (win : Nat) (start : Pos)
    (cnds : List (List Seq)) :
    (rankCndsO G A w win start cnds).toOption = rankCnds G A w win start cnds := by
  simp only [rankCndsO, rankCnds]
  rw [← scoreCndsO_toOption]
  cases scoreCndsO G A w win start cnds <;> rfl

/-- an `.ok` answer of the refined `rank_cnds` is a `some` answer of the plain one -/
theorem rankCnds_of_O {G : Grammar} {A : Automaton} {w : List Nat} {win : Nat} {start : Pos}
    {cnds : List (List Seq)} {kept : List Seq} (h : rankCndsO G A w win start cnds = .ok kept) :
    rankCnds G A w win start cnds = some kept := by
  rw [← rankCndsO_toOption, h]; rfl

theorem applyRepairs_of_O {G : Grammar} {A : Automaton} {w : List Nat} {c c' : Pos} {seq : Seq}
    (h : applyRepairsO G A w c seq = .ok c') : applyRepairs G A w c seq = some c' := by
  rw [← applyRepairsO_toOption, h]; rfl

theorem applyRepairsO_of_some {G : Grammar} {A : Automaton} {w : List Nat} {c c' : Pos} {seq : Seq}
    (h : applyRepairs G A w c seq = some c') : applyRepairsO G A w c seq = .ok c' := by
  rw [← applyRepairsO_toOption] at h
  exact Out.toOption_eq_some.mp h

end GrmVerif.RankImpl
