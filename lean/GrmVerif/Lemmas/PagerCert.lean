import GrmVerif.Lemmas.PagerInvB
import GrmVerif.Lemmas.CertProps
/-!
The automaton view of the modelled pager's output, and the inversion of closure items, to connect
`C02.pager_output_certified` with the graph-level conditions of `Cert.check` (`Cert.Props`).
-/
namespace GrmVerif.PagerImpl
open GrmVerif CloseImpl Closure

/-- the state graph of the modelled `pager_stategraph` as a dumped automaton (no table) -/
def toAutomaton (out : Output) : Automaton :=
  { start := 0,
    states := (out.states.zip out.edges).map (fun x =>
      { core := x.1.1, closed := x.1.2, edges := x.2, actions := [], gotos := [], stateActions := [],
        stateShifts := [], coreReduces := [], reduceOnly := false }),
    rr := [], sr := [] }

theorem toAutomaton_view (out : Output) (hlen : out.edges.length = out.states.length) :
    (toAutomaton out).nstates = out.states.length ∧
    ∀ s, s < out.states.length → ∃ core cl es, out.states[s]? = some (core, cl) ∧ out.edges[s]? = some es ∧
      (toAutomaton out).core s = core ∧ (toAutomaton out).closed s = cl ∧ (toAutomaton out).edges s = es := by
  refine ⟨by simp [toAutomaton, Automaton.nstates, hlen], ?_⟩
  intro s hs
  have hs2 : s < out.edges.length := by omega
  have hz : (out.states.zip out.edges)[s]? = some (out.states[s], out.edges[s]) := by
    rw [List.getElem?_eq_getElem (by simp; omega)]; simp
  refine ⟨out.states[s].1, out.states[s].2, out.edges[s], by rw [List.getElem?_eq_getElem hs],
    List.getElem?_eq_getElem hs2, ?_, ?_, ?_⟩ <;>
  simp [toAutomaton, Automaton.core, Automaton.closed, Automaton.edges, List.getElem?_map, hz]

/-- a closure item is a kernel item, or has its dot at 0 and is justified by an item with the dot before
its rule -/
theorem closureP_item_inv {G : Grammar} {core : List Item} {p d : Nat} (h : ClosureP G core (.item p d)) :
    HasItem core p d ∨
    (d = 0 ∧ ∃ p' d', ClosureP G core (.item p' d') ∧ symAfter G p' d' = some (.rule (G.lhs p))) := by
  cases h with
  | kitem i hi => exact Or.inl ⟨i, hi, rfl, rfl⟩
  | citem p' d' q h1 h2 h3 => exact Or.inr ⟨rfl, p', d', h1, h2⟩

end GrmVerif.PagerImpl
