import GrmVerif.Model.RankImpl
/-! Helper lemmas about the post-processing model (`Model/RankImpl.lean`): trailing shifts,
deduplication, the comparison closure of `simplify_repairs` is a total preorder (a linear order when
lexemes are identified by their span start). -/
namespace GrmVerif.RankImpl
open GrmVerif LR Rec Std

/-! ### trailing shifts -/

theorem stripTrailing_no_trailing (rs : Seq) (k : Nat) :
    (stripTrailing rs).getLast? ≠ some (.shift k) := by
  unfold stripTrailing
  rw [List.getLast?_reverse]
  cases h : rs.reverse.dropWhile isShift with
  | nil => simp
  | cons a as =>
    have := List.head_dropWhile_not isShift (l := rs.reverse) (by rw [h]; simp)
    simp only [h, List.head_cons] at this
    simp only [List.head?_cons, ne_eq, Option.some.injEq]
    intro e; subst e; simp [isShift] at this

theorem stripTrailing_of_no_trailing {rs : Seq} (h : ∀ k, rs.getLast? ≠ some (.shift k)) :
    stripTrailing rs = rs := by
  unfold stripTrailing
  have hh : rs.reverse.head? = rs.getLast? := List.head?_reverse
  cases hr : rs.reverse with
  | nil =>
    have : rs = [] := by simpa using hr
    simp [this]
  | cons a as =>
    rw [hr] at hh
    simp only [List.head?_cons] at hh
    have hna : isShift a = false := by
      cases a with
      | shift k => exact absurd hh.symm (h k)
      | insert t => rfl
      | delete l => rfl
    rw [List.dropWhile_cons, hna]
    simp only [Bool.false_eq_true, ↓reduceIte]
    rw [← hr, List.reverse_reverse]

theorem stripTrailing_idem (rs : Seq) : stripTrailing (stripTrailing rs) = stripTrailing rs :=
  stripTrailing_of_no_trailing (stripTrailing_no_trailing rs)

/-! ### deduplication -/

theorem mem_dedup {α : Type} [DecidableEq α] (l : List α) (x : α) : x ∈ dedup l ↔ x ∈ l := by
  induction l with
  | nil => simp [dedup]
  | cons a as ih =>
    simp only [dedup]
    split
    · next hm =>
      rw [ih]
      constructor
      · intro h; exact List.mem_cons_of_mem _ h
      · intro h
        rcases List.mem_cons.mp h with rfl | h
        · exact ih.mp hm
        · exact h
    · simp [ih]

theorem nodup_dedup {α : Type} [DecidableEq α] (l : List α) : (dedup l).Nodup := by
  induction l with
  | nil => simp [dedup]
  | cons a as ih =>
    simp only [dedup]
    split
    · exact ih
    · next hm => exact List.nodup_cons.mpr ⟨hm, ih⟩

theorem dedup_of_nodup {α : Type} [DecidableEq α] {l : List α} (h : l.Nodup) : dedup l = l := by
  induction l with
  | nil => rfl
  | cons a as ih =>
    obtain ⟨hna, has⟩ := List.nodup_cons.mp h
    simp only [dedup, ih has, hna, ↓reduceIte]

theorem hashSetLike_dedup : HashSetLike dedup :=
  fun l => ⟨nodup_dedup l, mem_dedup l⟩

/-- any two drains of the same set are permutations of each other -/
theorem hashSetLike_perm {hs₁ hs₂ : List Seq → List Seq} (h₁ : HashSetLike hs₁) (h₂ : HashSetLike hs₂)
    {l₁ l₂ : List Seq} (hset : ∀ x, x ∈ l₁ ↔ x ∈ l₂) : (hs₁ l₁).Perm (hs₂ l₂) := by
  rw [List.perm_ext_iff_of_nodup (h₁ l₁).1 (h₂ l₂).1]
  intro x
  rw [(h₁ l₁).2, (h₂ l₂).2, hset]

/-! ### the comparison closure -/

instance : TransCmp keyCmp :=
  inferInstanceAs <| TransCmp (compareLex (compareOn Prod.fst) (compareOn Prod.snd))

instance : LawfulEqCmp keyCmp where
  eq_of_compare {a b} h := by
    simp only [keyCmp, Ordering.then_eq_eq, Nat.compare_eq_eq] at h
    exact Prod.ext h.1 h.2

theorem lexCmp_eq (a b : List (Nat × Nat)) : lexCmp a b = List.compareLex keyCmp a b := by
  induction a generalizing b with
  | nil => cases b <;> simp [lexCmp, List.compareLex_nil_nil, List.compareLex_nil_cons]
  | cons x xs ih =>
    cases b with
    | nil => simp [lexCmp, List.compareLex_cons_nil]
    | cons y ys => simp [lexCmp, List.compareLex_cons_cons, ih]

/-- 0 = no `%avoid_insert` token inserted, 1 = some -/
def grp (avoid : Nat → Bool) (x : Seq) : Nat := if containsAvoidInsert avoid x then 1 else 0

/-- the closure as a lexicographic combination of three keys -/
def cmpSeq' (avoid : Nat → Bool) (start : Nat → Nat) : Seq → Seq → Ordering :=
  compareLex (compareOn (grp avoid))
    (compareLex (compareOn List.length)
      (fun x y => List.compareLex keyCmp (x.map (contentKey start)) (y.map (contentKey start))))

theorem cmpSeq_eq (avoid : Nat → Bool) (start : Nat → Nat) (x y : Seq) :
    cmpSeq avoid start x y = cmpSeq' avoid start x y := by
  simp only [cmpSeq, cmpSeq', compareLex, compareOn, grp, lexCmp_eq]
  have h01 : compare (0 : Nat) 1 = .lt := rfl
  have h10 : compare (1 : Nat) 0 = .gt := rfl
  cases containsAvoidInsert avoid x <;> cases containsAvoidInsert avoid y <;> simp [h01, h10]

instance pullbackTrans {α β : Type} (f : α → β) (cmp : β → β → Ordering) [TransCmp cmp] :
    TransCmp (fun x y => cmp (f x) (f y)) where
  eq_swap := OrientedCmp.eq_swap (cmp := cmp)
  isLE_trans := TransCmp.isLE_trans (cmp := cmp)

instance (avoid : Nat → Bool) (start : Nat → Nat) : TransCmp (cmpSeq' avoid start) := by
  unfold cmpSeq'
  have : TransCmp (fun x y : Seq => List.compareLex keyCmp (x.map (contentKey start)) (y.map (contentKey start))) :=
    pullbackTrans (fun x : Seq => x.map (contentKey start)) (List.compareLex keyCmp)
  infer_instance

instance (avoid : Nat → Bool) (start : Nat → Nat) : TransCmp (cmpSeq avoid start) := by
  have : cmpSeq avoid start = cmpSeq' avoid start := by
    funext x y; exact cmpSeq_eq avoid start x y
  rw [this]; infer_instance

theorem contentKey_inj {start : Nat → Nat} (hinj : ∀ i j, start i = start j → i = j) :
    ∀ a b : PRepair, contentKey start a = contentKey start b → a = b := by
  intro a b h
  cases a <;> cases b <;> simp only [contentKey, Prod.mk.injEq] at h <;>
    first
      | (obtain ⟨h1, _⟩ := h; exact absurd h1 (by decide))
      | (obtain ⟨_, h2⟩ := h; first | rw [h2] | rw [hinj _ _ h2])

theorem map_contentKey_inj {start : Nat → Nat} (hinj : ∀ i j, start i = start j → i = j) :
    ∀ x y : Seq, x.map (contentKey start) = y.map (contentKey start) → x = y := by
  intro x
  induction x with
  | nil => intro y h; cases y with
    | nil => rfl
    | cons b bs => simp at h
  | cons a as ih =>
    intro y h
    cases y with
    | nil => simp at h
    | cons b bs =>
      simp only [List.map_cons, List.cons.injEq] at h
      rw [contentKey_inj hinj a b h.1, ih bs h.2]

/-- when distinct lexemes start at distinct offsets, only equal sequences compare `Equal` -/
theorem cmpSeq_eq_eq {avoid : Nat → Bool} {start : Nat → Nat} (hinj : ∀ i j, start i = start j → i = j)
    {x y : Seq} (h : cmpSeq avoid start x y = .eq) : x = y := by
  rw [cmpSeq_eq] at h
  simp only [cmpSeq', compareLex_eq_eq] at h
  exact map_contentKey_inj hinj x y (LawfulEqCmp.eq_of_compare h.2.2)

theorem seqLe_trans (avoid : Nat → Bool) (start : Nat → Nat) (a b c : Seq) :
    seqLe avoid start a b = true → seqLe avoid start b c = true → seqLe avoid start a c = true := by
  unfold seqLe
  exact TransCmp.isLE_trans

theorem seqLe_total (avoid : Nat → Bool) (start : Nat → Nat) (a b : Seq) :
    (seqLe avoid start a b || seqLe avoid start b a) = true := by
  unfold seqLe
  rw [OrientedCmp.eq_swap (cmp := cmpSeq avoid start) (a := b) (b := a)]
  cases cmpSeq avoid start a b <;> simp

theorem seqLe_antisymm {avoid : Nat → Bool} {start : Nat → Nat} (hinj : ∀ i j, start i = start j → i = j)
    {a b : Seq} (h₁ : seqLe avoid start a b = true) (h₂ : seqLe avoid start b a = true) : a = b :=
  cmpSeq_eq_eq hinj (OrientedCmp.isLE_antisymm h₁ h₂)

/-- what `seqLe` says in the words of the property -/
theorem seqLe_iff (avoid : Nat → Bool) (start : Nat → Nat) (x y : Seq) :
    seqLe avoid start x y = true ↔
      grp avoid x < grp avoid y ∨ (grp avoid x = grp avoid y ∧
        (x.length < y.length ∨ (x.length = y.length ∧
          (List.compareLex keyCmp (x.map (contentKey start)) (y.map (contentKey start))).isLE = true))) := by
  unfold seqLe
  rw [cmpSeq_eq]
  simp only [cmpSeq', compareLex, compareOn, Ordering.isLE_then_iff_and, Nat.isLE_compare,
    Nat.compare_eq_lt]
  constructor
  · rintro ⟨h1, h2 | ⟨h3, h4 | h5⟩⟩
    · exact Or.inl h2
    · rcases Nat.lt_or_eq_of_le h1 with h | h
      · exact Or.inl h
      · exact Or.inr ⟨h, Or.inl h4⟩
    · rcases Nat.lt_or_eq_of_le h1 with h | h
      · exact Or.inl h
      · rcases Nat.lt_or_eq_of_le h3 with h' | h'
        · exact Or.inr ⟨h, Or.inl h'⟩
        · exact Or.inr ⟨h, Or.inr ⟨h', h5⟩⟩
  · rintro (h | ⟨h, h' | ⟨h', h''⟩⟩)
    · exact ⟨Nat.le_of_lt h, Or.inl h⟩
    · exact ⟨Nat.le_of_eq h, Or.inr ⟨Nat.le_of_lt h', Or.inl h'⟩⟩
    · exact ⟨Nat.le_of_eq h, Or.inr ⟨Nat.le_of_eq h', Or.inr h''⟩⟩

/-- the ranking the property documents follows from `seqLe` -/
theorem seqLe_documented {avoid : Nat → Bool} {start : Nat → Nat} {x y : Seq}
    (h : seqLe avoid start x y = true) :
    (containsAvoidInsert avoid x = true → containsAvoidInsert avoid y = true) ∧
    (containsAvoidInsert avoid x = containsAvoidInsert avoid y → x.length ≤ y.length) := by
  rw [seqLe_iff] at h
  unfold grp at h
  cases hx : containsAvoidInsert avoid x <;> cases hy : containsAvoidInsert avoid y <;>
    simp [hx, hy] at h ⊢ <;> omega

/-! ### the sort -/

theorem insertSeq_perm (le : Seq → Seq → Bool) (a : Seq) : ∀ l, (insertSeq le a l).Perm (a :: l) := by
  intro l
  induction l with
  | nil => exact List.Perm.refl _
  | cons b bs ih =>
    simp only [insertSeq]
    split
    · exact List.Perm.refl _
    · exact ((List.Perm.cons b ih)).trans (List.Perm.swap a b bs)

theorem sortSeqs_perm (avoid : Nat → Bool) (start : Nat → Nat) : ∀ l, (sortSeqs avoid start l).Perm l := by
  intro l
  induction l with
  | nil => exact List.Perm.refl _
  | cons a as ih =>
    simp only [sortSeqs, List.foldr_cons]
    exact (insertSeq_perm _ a _).trans (List.Perm.cons a ih)

theorem mem_sortSeqs {avoid : Nat → Bool} {start : Nat → Nat} {l : List Seq} {x : Seq} :
    x ∈ sortSeqs avoid start l ↔ x ∈ l := (sortSeqs_perm avoid start l).mem_iff

theorem insertSeq_pairwise (avoid : Nat → Bool) (start : Nat → Nat) (a : Seq) :
    ∀ l : List Seq, l.Pairwise (fun x y => seqLe avoid start x y = true) →
      (insertSeq (seqLe avoid start) a l).Pairwise (fun x y => seqLe avoid start x y = true) := by
  intro l
  induction l with
  | nil => intro _; simp [insertSeq]
  | cons b bs ih =>
    intro h
    obtain ⟨hb, hbs⟩ := List.pairwise_cons.mp h
    simp only [insertSeq]
    by_cases hab : seqLe avoid start a b = true
    · rw [if_pos hab]
      refine List.pairwise_cons.mpr ⟨?_, h⟩
      intro x hx
      rcases List.mem_cons.mp hx with rfl | hx
      · exact hab
      · exact seqLe_trans avoid start a b x hab (hb x hx)
    · rw [if_neg hab]
      have hba : seqLe avoid start b a = true := by
        have := seqLe_total avoid start a b
        simp only [Bool.or_eq_true] at this
        rcases this with h' | h'
        · exact absurd h' hab
        · exact h'
      refine List.pairwise_cons.mpr ⟨?_, ih hbs⟩
      intro x hx
      rcases List.mem_cons.mp ((insertSeq_perm _ a bs).mem_iff.mp hx) with rfl | hx
      · exact hba
      · exact hb x hx

theorem sortSeqs_pairwise (avoid : Nat → Bool) (start : Nat → Nat) :
    ∀ l : List Seq, (sortSeqs avoid start l).Pairwise (fun x y => seqLe avoid start x y = true) := by
  intro l
  induction l with
  | nil => simp [sortSeqs]
  | cons a as ih =>
    simp only [sortSeqs, List.foldr_cons]
    exact insertSeq_pairwise avoid start a _ ih

/-- a sorted list is left alone -/
theorem sortSeqs_of_pairwise {avoid : Nat → Bool} {start : Nat → Nat} :
    ∀ {l : List Seq}, l.Pairwise (fun x y => seqLe avoid start x y = true) → sortSeqs avoid start l = l := by
  intro l
  induction l with
  | nil => intro _; rfl
  | cons a as ih =>
    intro h
    obtain ⟨ha, has⟩ := List.pairwise_cons.mp h
    have e : sortSeqs avoid start (a :: as) = insertSeq (seqLe avoid start) a (sortSeqs avoid start as) := rfl
    rw [e, ih has]
    cases as with
    | nil => rfl
    | cons b bs => simp only [insertSeq, ha b List.mem_cons_self, ↓reduceIte]

/-! ### `simplify_repairs` -/

theorem mem_simplify {hs : List Seq → List Seq} (h : HashSetLike hs) (avoid : Nat → Bool)
    (start : Nat → Nat) (l : List Seq) (r : Seq) :
    r ∈ simplify hs avoid start l ↔ ∃ s ∈ l, stripTrailing s = r := by
  unfold simplify
  rw [mem_sortSeqs, (h _).2, List.mem_map]

theorem simplify_sorted (hs : List Seq → List Seq) (avoid : Nat → Bool) (start : Nat → Nat)
    (l : List Seq) :
    (simplify hs avoid start l).Pairwise (fun x y => seqLe avoid start x y = true) :=
  sortSeqs_pairwise avoid start _

theorem simplify_perm (hs : List Seq → List Seq) (avoid : Nat → Bool) (start : Nat → Nat)
    (l : List Seq) : (simplify hs avoid start l).Perm (hs (l.map stripTrailing)) :=
  sortSeqs_perm avoid start _

/-- `sort_unstable_by` is modelled by one particular algorithm; this is why that is enough: any
sorted arrangement of the same sequences is the model's -/
theorem sorted_perm_unique {avoid : Nat → Bool} {start : Nat → Nat}
    (hinj : ∀ i j, start i = start j → i = j) {l₁ l₂ : List Seq}
    (h₁ : l₁.Pairwise (fun x y => seqLe avoid start x y = true))
    (h₂ : l₂.Pairwise (fun x y => seqLe avoid start x y = true)) (hp : l₁.Perm l₂) : l₁ = l₂ :=
  List.Perm.eq_of_pairwise (fun _ _ _ _ hab hba => seqLe_antisymm hinj hab hba) h₁ h₂ hp

theorem map_stripTrailing_of_no_trailing {l : List Seq}
    (h : ∀ r ∈ l, ∀ k, r.getLast? ≠ some (.shift k)) : l.map stripTrailing = l := by
  induction l with
  | nil => rfl
  | cons a as ih =>
    rw [List.map_cons, stripTrailing_of_no_trailing (h a List.mem_cons_self),
      ih (fun r hr => h r (List.mem_cons_of_mem _ hr))]

/-- the output depends on the SET of stripped input sequences only, provided no two distinct ones
compare `Equal` -/
theorem simplify_eq_of_antisymm {hs₁ hs₂ : List Seq → List Seq} (h₁ : HashSetLike hs₁)
    (h₂ : HashSetLike hs₂) {avoid : Nat → Bool} {start : Nat → Nat} {l₁ l₂ : List Seq}
    (hset : ∀ x, x ∈ l₁.map stripTrailing ↔ x ∈ l₂.map stripTrailing)
    (hanti : ∀ a b, a ∈ l₁.map stripTrailing → b ∈ l₁.map stripTrailing →
      cmpSeq avoid start a b = .eq → a = b) :
    simplify hs₁ avoid start l₁ = simplify hs₂ avoid start l₂ := by
  refine List.Perm.eq_of_pairwise ?_ (simplify_sorted hs₁ avoid start l₁)
    (simplify_sorted hs₂ avoid start l₂) ?_
  · intro a b ha hb hab hba
    have ha' : a ∈ l₁.map stripTrailing :=
      (h₁ _).2 a |>.mp ((simplify_perm hs₁ avoid start l₁).mem_iff.mp ha)
    have hb' : b ∈ l₁.map stripTrailing :=
      (hset b).mpr ((h₂ _).2 b |>.mp ((simplify_perm hs₂ avoid start l₂).mem_iff.mp hb))
    exact hanti a b ha' hb' (OrientedCmp.isLE_antisymm (cmp := cmpSeq avoid start) hab hba)
  · exact (simplify_perm hs₁ avoid start l₁).trans
      ((hashSetLike_perm h₁ h₂ hset).trans (simplify_perm hs₂ avoid start l₂).symm)

/-! ### sequences whose lexemes are the input's, in order -/

theorem wellLexed_prefix : ∀ (a b : Seq) (la : Nat), WellLexed la (a ++ b) = true → WellLexed la a = true := by
  intro a
  induction a with
  | nil => intro b la _; rfl
  | cons r rs ih =>
    intro b la h
    cases r with
    | insert t => simp only [List.cons_append, WellLexed] at h ⊢; exact ih b la h
    | delete l =>
      simp only [List.cons_append, WellLexed, Bool.and_eq_true] at h ⊢
      exact ⟨h.1, ih b _ h.2⟩
    | shift l =>
      simp only [List.cons_append, WellLexed, Bool.and_eq_true] at h ⊢
      exact ⟨h.1, ih b _ h.2⟩

theorem stripTrailing_prefix (rs : Seq) : stripTrailing rs <+: rs := by
  unfold stripTrailing
  have := List.dropWhile_suffix isShift (l := rs.reverse)
  rw [← List.reverse_prefix, List.reverse_reverse] at this
  exact this

theorem wellLexed_stripTrailing {la : Nat} {rs : Seq} (h : WellLexed la rs = true) :
    WellLexed la (stripTrailing rs) = true := by
  obtain ⟨t, ht⟩ := stripTrailing_prefix rs
  rw [← ht] at h
  exact wellLexed_prefix _ t la h

theorem wellLexed_keys_inj (start : Nat → Nat) :
    ∀ (x y : Seq) (la : Nat), WellLexed la x = true → WellLexed la y = true →
      x.map (contentKey start) = y.map (contentKey start) → x = y := by
  intro x
  induction x with
  | nil => intro y la _ _ h; cases y with
    | nil => rfl
    | cons b bs => simp at h
  | cons a as ih =>
    intro y la hx hy h
    cases y with
    | nil => simp at h
    | cons b bs =>
      simp only [List.map_cons, List.cons.injEq] at h
      obtain ⟨hk, ht⟩ := h
      cases a <;> cases b <;> simp only [contentKey, Prod.mk.injEq] at hk <;>
        simp only [WellLexed, Bool.and_eq_true, beq_iff_eq] at hx hy
      · rw [hk.2, ih bs la hx hy ht]
      · exact absurd hk.1 (by decide)
      · exact absurd hk.1 (by decide)
      · exact absurd hk.1 (by decide)
      · rw [hx.1, hy.1, ih bs (la + 1) hx.2 hy.2 ht]
      · exact absurd hk.1 (by decide)
      · exact absurd hk.1 (by decide)
      · exact absurd hk.1 (by decide)
      · rw [hx.1, hy.1, ih bs (la + 1) hx.2 hy.2 ht]

theorem cmpSeq_eq_eq_of_wellLexed {avoid : Nat → Bool} {start : Nat → Nat} {la : Nat} {x y : Seq}
    (hx : WellLexed la x = true) (hy : WellLexed la y = true)
    (h : cmpSeq avoid start x y = .eq) : x = y := by
  rw [cmpSeq_eq] at h
  simp only [cmpSeq', compareLex_eq_eq] at h
  exact wellLexed_keys_inj start x y la hx hy (LawfulEqCmp.eq_of_compare h.2.2)

/-! ### `rank_cnds` -/

/-- the distance of a group, 0 where the real code would have panicked -/
def reachD (G : Grammar) (A : Automaton) (w : List Nat) (win : Nat) (start : Pos) (g : List Seq) : Nat :=
  (groupReach G A w win start g).getD 0

theorem scoreCnds_some {G : Grammar} {A : Automaton} {w : List Nat} {win : Nat} {start : Pos} :
    ∀ {cnds : List (List Seq)} {sc : List (Nat × List Seq)},
      scoreCnds G A w win start cnds = some sc →
      sc = cnds.map (fun g => (reachD G A w win start g, g)) ∧
      ∀ g ∈ cnds, ∃ d, groupReach G A w win start g = some d := by
  intro cnds
  induction cnds with
  | nil => intro sc h; simp only [scoreCnds, Option.some.injEq] at h; subst h; simp
  | cons g gs ih =>
    intro sc h
    simp only [scoreCnds] at h
    cases hg : groupReach G A w win start g with
    | none => rw [hg] at h; cases h
    | some d =>
      rw [hg] at h
      simp only at h
      cases hr : scoreCnds G A w win start gs with
      | none => rw [hr] at h; cases h
      | some r =>
        rw [hr] at h
        simp only [Option.some.injEq] at h
        subst h
        obtain ⟨h1, h2⟩ := ih hr
        refine ⟨?_, ?_⟩
        · rw [h1]; simp only [List.map_cons, reachD, hg, Option.getD_some]
        · intro g' hg'
          rcases List.mem_cons.mp hg' with rfl | hg'
          · exact ⟨d, hg⟩
          · exact h2 g' hg'

theorem scoreCnds_none {G : Grammar} {A : Automaton} {w : List Nat} {win : Nat} {start : Pos} :
    ∀ {cnds : List (List Seq)}, scoreCnds G A w win start cnds = none →
      ∃ g ∈ cnds, groupReach G A w win start g = none := by
  intro cnds
  induction cnds with
  | nil => intro h; simp [scoreCnds] at h
  | cons g gs ih =>
    intro h
    simp only [scoreCnds] at h
    cases hg : groupReach G A w win start g with
    | none => exact ⟨g, List.mem_cons_self, hg⟩
    | some d =>
      rw [hg] at h
      simp only at h
      cases hr : scoreCnds G A w win start gs with
      | none =>
        obtain ⟨g', hm, hn⟩ := ih hr
        exact ⟨g', List.mem_cons_of_mem _ hm, hn⟩
      | some r => rw [hr] at h; cases h

/-- the running maximum of `rank_cnds` -/
def runMax (init : Nat) (l : List (Nat × List Seq)) : Nat :=
  l.foldl (fun f p => if p.1 ≥ f then p.1 else f) init

theorem furthest_eq (l : List (Nat × List Seq)) : furthest l = runMax 0 l := rfl

theorem runMax_ge_init : ∀ (l : List (Nat × List Seq)) (init : Nat), init ≤ runMax init l := by
  intro l
  induction l with
  | nil => intro init; exact Nat.le_refl _
  | cons p ps ih =>
    intro init
    simp only [runMax, List.foldl_cons]
    have := ih (if p.1 ≥ init then p.1 else init)
    simp only [runMax] at this
    by_cases hq : p.1 ≥ init
    · rw [if_pos hq] at this ⊢; omega
    · rw [if_neg hq] at this ⊢; omega

theorem runMax_ge_mem : ∀ (l : List (Nat × List Seq)) (init : Nat), ∀ p ∈ l, p.1 ≤ runMax init l := by
  intro l
  induction l with
  | nil => intro init p hp; cases hp
  | cons q qs ih =>
    intro init p hp
    simp only [runMax, List.foldl_cons]
    rcases List.mem_cons.mp hp with rfl | hp
    · have := runMax_ge_init qs (if p.1 ≥ init then p.1 else init)
      simp only [runMax] at this
      by_cases hq : p.1 ≥ init
      · rw [if_pos hq] at this ⊢; omega
      · rw [if_neg hq] at this ⊢; omega
    · exact ih _ p hp

theorem runMax_attained : ∀ (l : List (Nat × List Seq)) (init : Nat),
    runMax init l = init ∨ ∃ p ∈ l, p.1 = runMax init l := by
  intro l
  induction l with
  | nil => intro init; exact Or.inl rfl
  | cons q qs ih =>
    intro init
    simp only [runMax, List.foldl_cons]
    rcases ih (if q.1 ≥ init then q.1 else init) with h | ⟨p, hp, h⟩
    · simp only [runMax] at h
      by_cases hq : q.1 ≥ init
      · rw [if_pos hq] at h ⊢
        exact Or.inr ⟨q, List.mem_cons_self, h.symm⟩
      · rw [if_neg hq] at h ⊢
        exact Or.inl h
    · exact Or.inr ⟨p, List.mem_cons_of_mem _ hp, h⟩

/-- the furthest distance is attained, and bounds all -/
theorem furthest_spec (l : List (Nat × List Seq)) :
    (∀ p ∈ l, p.1 ≤ furthest l) ∧ (l ≠ [] → ∃ p ∈ l, p.1 = furthest l) := by
  refine ⟨runMax_ge_mem l 0, ?_⟩
  intro hne
  rcases runMax_attained l 0 with h | h
  · cases l with
    | nil => exact absurd rfl hne
    | cons q qs =>
      refine ⟨q, List.mem_cons_self, ?_⟩
      have := runMax_ge_mem (q :: qs) 0 q List.mem_cons_self
      rw [furthest_eq]
      omega
  · exact h

end GrmVerif.RankImpl
