import GrmVerif.Model.LexTables
import GrmVerif.Lemmas.LexUnescape
/-! The extracted tables never classify `\\b` as an escape to keep (side condition `Cfg.BOk`). -/
namespace GrmVerif.LexTables
open GrmVerif.LexUnescape

/-- no alternative of the table can start with `c` -/
def firstClassExcludes (c : Char) (tbl : List (List (List (Nat × Nat)))) : Bool :=
  tbl.all (fun seq => match seq with
    | [] => false
    | cls :: _ => !inClass cls c)

theorem no_match_of_firstClassExcludes (c : Char) (tbl : List (List (List (Nat × Nat))))
    (h : firstClassExcludes c tbl = true) (s : List Char) :
    tbl.any (fun seq => matchSeq seq (c :: s)) = false := by
  induction tbl with
  | nil => rfl
  | cons seq tbl ih =>
    simp only [firstClassExcludes, List.all_cons, Bool.and_eq_true] at h
    simp only [List.any_cons, Bool.or_eq_false_iff]
    refine ⟨?_, ih (by simpa [firstClassExcludes] using h.2)⟩
    cases seq with
    | nil => simp at h
    | cons cls more =>
      have h1 : inClass cls c = false := by simpa using h.1
      simp [matchSeq, h1]

end GrmVerif.LexTables
