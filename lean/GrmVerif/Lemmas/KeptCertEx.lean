import GrmVerif.Lemmas.KeptCert
import GrmVerif.Lemmas.KeptRun
/-!
A certified conflict-free MERGED table that detects an error late, for the non-vacuity examples of
C05 (`Props/C05.lean`): the LALR(1)/Pager automaton of

    S: 'x' A 'c' | 'y' A 'd' | 'x' B 'f' | 'y' B 'g';   A: 'a';   B: 'a' 'e';

The states after `x a` and after `y a` have the same kernel and are merged into state 6 =
`{[A → a ·, {c, d}], [B → a · e, {f, g}]}`. On the input `x a d` the table reduces `A → a` under `d`
(valid after `y a` only) and the goto state `S → x A · c` then refuses `d`: the stack `[6, 2, 0]` is
left as `[4, 2, 0]`. The unreduced stack shifts `e`, the reduced one refuses it, so `KeptInvisible`
is FALSE of this table (`ex2_not_keptInvisible`), while it passes every certificate
(`ex2_cert`) and therefore satisfies `KeptShiftInvisible`.
-/
namespace GrmVerif.C05
open GrmVerif Rec LR Cert

/-- tokens x 0, y 1, a 2, c 3, d 4, e 5, f 6, g 7, end-of-input 8; rules ^ 0, S 1, A 2, B 3;
productions 0 `S → x A c`, 1 `S → y A d`, 2 `S → x B f`, 3 `S → y B g`, 4 `A → a`, 5 `B → a e`, 6 `^ → S` -/
def exG2 : Grammar :=
  ⟨9, 4, 8, 6,
   [(1, [.tok 0, .rule 2, .tok 3]), (1, [.tok 1, .rule 2, .tok 4]), (1, [.tok 0, .rule 3, .tok 6]),
    (1, [.tok 1, .rule 3, .tok 7]), (2, [.tok 2]), (3, [.tok 2, .tok 5]), (0, [.rule 1])], [], []⟩

def exSt2 (core closed : List Item) (edges : List (Sym × Nat)) (actions : List Act) (gotos : List (Option Nat)) :
    StateD := ⟨core, closed, edges, actions, gotos, [], [], [], false⟩

private def E : Act := .error

def exA2 : Automaton :=
  ⟨0,
   [-- 0: ^ → . S
    exSt2 [⟨6, 0, [8]⟩] [⟨6, 0, [8]⟩, ⟨0, 0, [8]⟩, ⟨1, 0, [8]⟩, ⟨2, 0, [8]⟩, ⟨3, 0, [8]⟩]
      [(.rule 1, 1), (.tok 0, 2), (.tok 1, 3)]
      [.shift 2, .shift 3, E, E, E, E, E, E, E] [none, some 1, none, none],
    -- 1: ^ → S .
    exSt2 [⟨6, 1, [8]⟩] [⟨6, 1, [8]⟩] [] [E, E, E, E, E, E, E, E, .accept] [none, none, none, none],
    -- 2: S → x . A c, S → x . B f
    exSt2 [⟨0, 1, [8]⟩, ⟨2, 1, [8]⟩] [⟨0, 1, [8]⟩, ⟨2, 1, [8]⟩, ⟨4, 0, [3]⟩, ⟨5, 0, [6]⟩]
      [(.rule 2, 4), (.rule 3, 5), (.tok 2, 6)]
      [E, E, .shift 6, E, E, E, E, E, E] [none, none, some 4, some 5],
    -- 3: S → y . A d, S → y . B g
    exSt2 [⟨1, 1, [8]⟩, ⟨3, 1, [8]⟩] [⟨1, 1, [8]⟩, ⟨3, 1, [8]⟩, ⟨4, 0, [4]⟩, ⟨5, 0, [7]⟩]
      [(.rule 2, 7), (.rule 3, 8), (.tok 2, 6)]
      [E, E, .shift 6, E, E, E, E, E, E] [none, none, some 7, some 8],
    -- 4: S → x A . c
    exSt2 [⟨0, 2, [8]⟩] [⟨0, 2, [8]⟩] [(.tok 3, 9)] [E, E, E, .shift 9, E, E, E, E, E] [none, none, none, none],
    -- 5: S → x B . f
    exSt2 [⟨2, 2, [8]⟩] [⟨2, 2, [8]⟩] [(.tok 6, 10)] [E, E, E, E, E, E, .shift 10, E, E] [none, none, none, none],
    -- 6 (merged): A → a . {c, d};  B → a . e {f, g}
    exSt2 [⟨4, 1, [3, 4]⟩, ⟨5, 1, [6, 7]⟩] [⟨4, 1, [3, 4]⟩, ⟨5, 1, [6, 7]⟩] [(.tok 5, 11)]
      [E, E, E, .reduce 4, .reduce 4, .shift 11, E, E, E] [none, none, none, none],
    -- 7: S → y A . d
    exSt2 [⟨1, 2, [8]⟩] [⟨1, 2, [8]⟩] [(.tok 4, 12)] [E, E, E, E, .shift 12, E, E, E, E] [none, none, none, none],
    -- 8: S → y B . g
    exSt2 [⟨3, 2, [8]⟩] [⟨3, 2, [8]⟩] [(.tok 7, 13)] [E, E, E, E, E, E, E, .shift 13, E] [none, none, none, none],
    -- 9: S → x A c .
    exSt2 [⟨0, 3, [8]⟩] [⟨0, 3, [8]⟩] [] [E, E, E, E, E, E, E, E, .reduce 0] [none, none, none, none],
    -- 10: S → x B f .
    exSt2 [⟨2, 3, [8]⟩] [⟨2, 3, [8]⟩] [] [E, E, E, E, E, E, E, E, .reduce 2] [none, none, none, none],
    -- 11: B → a e . {f, g}
    exSt2 [⟨5, 2, [6, 7]⟩] [⟨5, 2, [6, 7]⟩] [] [E, E, E, E, E, E, .reduce 5, .reduce 5, E] [none, none, none, none],
    -- 12: S → y A d .
    exSt2 [⟨1, 3, [8]⟩] [⟨1, 3, [8]⟩] [] [E, E, E, E, E, E, E, E, .reduce 1] [none, none, none, none],
    -- 13: S → y B g .
    exSt2 [⟨3, 3, [8]⟩] [⟨3, 3, [8]⟩] [] [E, E, E, E, E, E, E, E, .reduce 3] [none, none, none, none]],
   [], []⟩

/-- the table passes every certificate of the whole-run theorems -/
theorem ex2_cert : wholeRunCert exG2 exA2 = true := by decide

/-- on the input `x a d`: `d` is refused after `A → a` has been reduced under it; the recoverer
reports `[insert c, delete]` (and a costlier alternative) and continues after it -/
def exRecover2 : Pos → Option (Pos × List (List Repair)) := fun c =>
  if c.stack = [4, 2, 0] ∧ c.pos = 2 then
    some (⟨[9, 4, 2, 0], 3⟩, [[.insert 3, .delete], [.delete, .insert 3]])
  else none

theorem ex2_first : FirstApplies exG2 exA2 [0, 2, 4] exRecover2 := by
  intro c c' s0 rest h
  obtain ⟨st, p⟩ := c
  simp only [exRecover2] at h
  split at h
  · rename_i hc
    obtain ⟨h1, h2⟩ := hc
    subst h1 h2
    simp only [Option.some.injEq, Prod.mk.injEq, List.cons.injEq] at h
    obtain ⟨rfl, rfl, _⟩ := h
    rfl
  · cases h

theorem ex2_valid : FirstValid exG2 exA2 [0, 2, 4] 1 exRecover2 := by
  intro c c' s0 rest h
  obtain ⟨st, p⟩ := c
  simp only [exRecover2] at h
  split at h
  · rename_i hc
    obtain ⟨h1, h2⟩ := hc
    subst h1 h2
    simp only [Option.some.injEq, Prod.mk.injEq, List.cons.injEq] at h
    obtain ⟨_, rfl, _⟩ := h
    rfl
  · cases h

/-- `KeptInvisible` is false of this certified table: after the refused `d` the reduced stack
`[4, 2, 0]` refuses `e`, the unreduced stack `[6, 2, 0]` shifts it -/
theorem ex2_not_keptInvisible : ¬ KeptInvisible exG2 exA2 := by
  intro hk
  have hkept : Kept exG2 exA2 [4, 2, 0] [6, 2, 0] := .offer [6, 2, 0] [6, 2, 0] 4 [4, 2, 0] (.refl _) rfl
  obtain ⟨y, hy⟩ := (hk _ _ hkept 5).2.2 [4, 2, 0] rfl
  have : feed exG2 exA2 5 FUEL [6, 2, 0] = .shifted [11, 6, 2, 0] := rfl
  rw [this] at hy
  cases hy

end GrmVerif.C05
