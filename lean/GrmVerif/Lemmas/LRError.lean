import GrmVerif.Lemmas.LRComplete2
/-! Facts about where the LR driver reports its error. -/
namespace GrmVerif.Cert
open GrmVerif Spec LR Ref

/-- a continuing step never moves the input position backwards; a step that reports an error reports
it at its own position -/
theorem step_laidx {G : Grammar} {A : Automaton} {w : List Nat} (c : Cfg) :
    (∀ c', step G A w c = .cont c' → c.laidx ≤ c'.laidx) ∧
    (∀ i st, step G A w c = .done (.error i st) → i = c.laidx) := by
  obtain ⟨ps, as, la⟩ := c
  cases ps with
  | nil => constructor <;> intros <;> simp_all [step]
  | cons st rest =>
    cases hact : A.action st (nextTok G w la) with
    | error =>
      constructor
      · intro c' h; simp [step, hact] at h
      · intro i st' h; simp only [step, hact] at h; injection h with h; injection h with h1 _; exact h1.symm
    | accept =>
      constructor
      · intro c' h; simp only [step, hact] at h; split at h <;> cases h
      · intro i st' h; simp only [step, hact] at h; split at h <;> cases h
    | shift s' =>
      constructor
      · intro c' h; simp only [step, hact] at h; injection h with h; subst h; exact Nat.le_succ _
      · intro i st' h; simp [step, hact] at h
    | reduce p =>
      constructor
      · intro c' h
        simp only [step, hact] at h
        by_cases hle : (st :: rest).length ≤ (G.rhs p).length
        · rw [if_pos hle] at h; cases h
        · rw [if_neg hle] at h
          cases hd : List.drop (G.rhs p).length (st :: rest) with
          | nil => rw [hd] at h; cases h
          | cons prior tl =>
            rw [hd] at h
            simp only at h
            cases hg : A.goto prior (G.lhs p) with
            | none => rw [hg] at h; cases h
            | some s' => rw [hg] at h; injection h with h; subst h; exact Nat.le_refl _
      · intro i st' h
        simp only [step, hact] at h
        by_cases hle : (st :: rest).length ≤ (G.rhs p).length
        · rw [if_pos hle] at h; cases h
        · rw [if_neg hle] at h
          cases hd : List.drop (G.rhs p).length (st :: rest) with
          | nil => rw [hd] at h; cases h
          | cons prior tl =>
            rw [hd] at h
            simp only at h
            cases hg : A.goto prior (G.lhs p) with
            | none => rw [hg] at h; cases h
            | some s' => rw [hg] at h; cases h

theorem step_laidx_mono {G : Grammar} {A : Automaton} {w : List Nat} {c c' : Cfg}
    (h : step G A w c = .cont c') : c.laidx ≤ c'.laidx := (step_laidx c).1 c' h

/-- an error is reported at the position of the configuration that raised it, which no earlier
configuration had passed -/
theorem run_error_ge {G : Grammar} {A : Automaton} {w : List Nat} :
    ∀ (fuel : Nat) (c : Cfg) (i st : Nat), run G A w fuel c = .error i st → c.laidx ≤ i := by
  intro fuel
  induction fuel with
  | zero => intro c i st h; simp [run] at h
  | succ k ih =>
    intro c i st h
    simp only [run] at h
    cases hs : step G A w c with
    | cont c' =>
      rw [hs] at h
      exact Nat.le_trans (step_laidx_mono hs) (ih c' i st h)
    | done o =>
      rw [hs] at h
      simp only at h
      subst h
      have := (step_laidx c).2 i st hs
      omega

/-- the step only looks at the lookahead token of its own position -/
theorem step_congr {G : Grammar} {A : Automaton} {w w' : List Nat} {c : Cfg}
    (h : nextTok G w c.laidx = nextTok G w' c.laidx) : step G A w c = step G A w' c := by
  unfold step
  rw [h]

/-- two inputs that agree on the lookahead tokens up to position `i` make the driver report the
same error at `i` -/
theorem run_error_congr {G : Grammar} {A : Automaton} {w w' : List Nat} (i : Nat)
    (hagree : ∀ k, k ≤ i → nextTok G w k = nextTok G w' k) :
    ∀ (fuel : Nat) (c : Cfg) (st : Nat), run G A w fuel c = .error i st → run G A w' fuel c = .error i st := by
  intro fuel
  induction fuel with
  | zero => intro c st h; simp [run] at h
  | succ k ih =>
    intro c st h
    have hle := run_error_ge (k + 1) c i st h
    simp only [run] at h ⊢
    rw [← step_congr (hagree c.laidx hle)]
    cases hs : step G A w c with
    | cont c' => rw [hs] at h; simpa using ih c' st h
    | done o => rw [hs] at h; simpa using h

/-- more fuel does not change a finished run -/
theorem run_fuel_mono {G : Grammar} {A : Automaton} {w : List Nat} :
    ∀ (fuel : Nat) (c : Cfg) (o : Outcome), run G A w fuel c = o → o ≠ .fuelOut →
      ∀ extra, run G A w (fuel + extra) c = o := by
  intro fuel
  induction fuel with
  | zero => intro c o h hne; simp [run] at h; exact absurd h.symm hne
  | succ k ih =>
    intro c o h hne extra
    have : k + 1 + extra = (k + extra) + 1 := by omega
    rw [this]
    simp only [run] at h ⊢
    cases hs : step G A w c with
    | cont c' => rw [hs] at h; simpa using ih c' o h hne extra
    | done o' => rw [hs] at h; simpa using h

end GrmVerif.Cert
