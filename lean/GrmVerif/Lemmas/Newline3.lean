import GrmVerif.Lemmas.Newline2
/-! Helper lemmas for `span_line_bytes` (C19). -/
namespace GrmVerif.Newline

/-- start of the line containing offset `b`: the greatest recorded line start `≤ b`. -/
def lineStartOf (L : List Nat) (b : Nat) : Nat := (L.filter (· ≤ b)).getLast?.getD 0

/-- end of the line containing offset `e`: one before the least line start `> e`, or the text
length when there is none. -/
def lineEndOf (L : List Nat) (len e : Nat) : Nat :=
  match (L.filter (fun y => e < y)).head? with
  | some x => x - 1
  | none => len

theorem countP_le_eq_lt_succ (l : List Nat) (a : Nat) :
    l.countP (· ≤ a) = l.countP (· < a + 1) := by
  apply List.countP_congr; intro x _; simp; omega

theorem filter_le_eq_lt_succ (l : List Nat) (a : Nat) :
    l.filter (· ≤ a) = l.filter (· < a + 1) := by
  apply List.filter_congr; intro x _; simp; omega

theorem sorted_take_countP_le (l : List Nat) (a : Nat) (hs : l.Pairwise (· < ·)) :
    l.take (l.countP (· ≤ a)) = l.filter (· ≤ a) := by
  rw [countP_le_eq_lt_succ, filter_le_eq_lt_succ, sorted_take_countP _ _ hs]

theorem sorted_drop_countP_le (l : List Nat) (a : Nat) (hs : l.Pairwise (· < ·)) :
    l.drop (l.countP (· ≤ a)) = l.filter (fun y => a < y) := by
  rw [countP_le_eq_lt_succ, sorted_drop_countP _ _ hs]
  apply List.filter_congr; intro x _; simp; omega

/-- in a strictly increasing list a member sits at index `#smaller elements` -/
theorem sorted_getElem_countP (l : List Nat) (x : Nat) (hs : l.Pairwise (· < ·)) (hx : x ∈ l) :
    l[l.countP (· < x)]? = some x := by
  induction l with
  | nil => cases hx
  | cons a l ih =>
    have hgt := (List.pairwise_cons.mp hs).1
    by_cases h : a < x
    · have hx' : x ∈ l := by
        simp only [List.mem_cons] at hx; rcases hx with rfl | hx; omega; exact hx
      simp [List.countP_cons, h, ih (List.pairwise_cons.mp hs).2 hx']
    · have : x = a := by
        simp only [List.mem_cons] at hx; rcases hx with rfl | hx; rfl
        have := hgt x hx; omega
      subst this
      obtain ⟨h1, _⟩ := sorted_countP_zero hs h
      simp [List.countP_cons, h1]

theorem countP_lt_add_one_of_mem (l : List Nat) (x : Nat) (hs : l.Pairwise (· < ·)) (hx : x ∈ l) :
    l.countP (· ≤ x) = l.countP (· < x) + 1 := by
  induction l with
  | nil => cases hx
  | cons a l ih =>
    have hgt := (List.pairwise_cons.mp hs).1
    by_cases h : a < x
    · have hx' : x ∈ l := by
        simp only [List.mem_cons] at hx; rcases hx with rfl | hx; omega; exact hx
      have := ih (List.pairwise_cons.mp hs).2 hx'
      simp [List.countP_cons, h, this, Nat.le_of_lt h]
    · have : x = a := by
        simp only [List.mem_cons] at hx; rcases hx with rfl | hx; rfl
        have := hgt x hx; omega
      subst this
      obtain ⟨h1, _⟩ := sorted_countP_zero hs h
      have h2 : l.countP (· ≤ x) = 0 := by
        rw [List.countP_eq_zero]; intro y hy; have := hgt y hy; simp; omega
      simp [List.countP_cons, h1, h2]

theorem countP_le_eq_lt_of_not_mem (l : List Nat) (x : Nat) (hx : x ∉ l) :
    l.countP (· ≤ x) = l.countP (· < x) := by
  apply List.countP_congr
  intro y hy
  have : y ≠ x := fun h => hx (h ▸ hy)
  simp; omega

/-- counting below `x` splits at any `a < x` (no sortedness needed) -/
theorem countP_split (l : List Nat) (a x : Nat) (h : a < x) :
    l.countP (· ≤ a) + l.countP (fun y => decide (y < x) && decide (a < y)) = l.countP (· < x) := by
  induction l with
  | nil => simp
  | cons b l ih =>
    simp only [List.countP_cons]
    rw [← ih]
    by_cases h1 : b ≤ a <;> by_cases h2 : b < x <;> simp [h1, h2] <;> (try split) <;> omega

theorem countP_split_le (l : List Nat) (a x : Nat) (h : a ≤ x) :
    l.countP (· ≤ a) + l.countP (fun y => decide (y ≤ x) && decide (a < y)) = l.countP (· ≤ x) := by
  induction l with
  | nil => simp
  | cons b l ih =>
    simp only [List.countP_cons]
    rw [← ih]
    by_cases h1 : b ≤ a <;> by_cases h2 : b ≤ x <;> simp [h1, h2] <;> (try split) <;> omega

theorem getLast?_take_eq_getElem? (l : List Nat) (j : Nat) (hj : 0 < j) (hjl : j ≤ l.length) :
    l[j - 1]? = (l.take j).getLast? := by
  rw [List.getLast?_eq_getElem?]
  simp only [List.length_take, Nat.min_eq_left hjl]
  rw [List.getElem?_take]
  simp [show j - 1 < j by omega]

theorem head?_drop (l : List Nat) (k : Nat) : (l.drop k).head? = l[k]? := by
  simp [List.head?_drop]

end GrmVerif.Newline
