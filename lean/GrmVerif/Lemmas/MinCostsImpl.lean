import GrmVerif.Model.CostsImpl
import GrmVerif.Lemmas.CostsDijkstra
import GrmVerif.Lemmas.HasPathImpl
/-! The model of `rule_min_costs` (`Impl.ruleMinCosts`) runs Knuth's algorithm (`Spec.dijkstra`) round for
round as long as no sum leaves the `u16` range; `sumsFit` is a decidable condition on the grammar, the
token costs and the table of minimal costs under which none does. -/
namespace GrmVerif.Impl
open GrmVerif Spec Ref

/-- `token_costs` as a function -/
def tcF (tc : List Nat) : Nat → Nat := fun t => tc.getD t 0

/-- what `rule_min_costs` adds up when it scans a production: the costs of the symbols up to the first
rule without a cost -/
def prefCost (tc : Nat → Nat) (c : Nat → Option Nat) : List Sym → Nat
  | [] => 0
  | .tok t :: rest => tc t + prefCost tc c rest
  | .rule q :: rest =>
    match c q with
    | none => 0
    | some v => v + prefCost tc c rest

/-- **no sum overflows**: in every production the costs of the symbols before the first rule that derives
no sentence (all symbols if there is none), rules counted with their minimal cost `m`, add up to at most
`u16::MAX` -/
def sumsFit (G : Grammar) (tc : Nat → Nat) (m : List (Option Nat)) : Bool :=
  (List.range G.nprods).all (fun p => prefCost tc (look m) (G.rhs p) ≤ U16MAX)

/-- the vector `rule_min_costs` returns for the table `m`: `u16::MAX` for rules that derive nothing -/
def concr (m : List (Option Nat)) : List Nat := m.map (fun o => o.getD U16MAX)

theorem prefCost_ext {tc : Nat → Nat} {c m : Nat → Option Nat} (he : Ext c m) :
    ∀ l : List Sym, prefCost tc c l ≤ prefCost tc m l := by
  intro l
  induction l with
  | nil => exact Nat.le_refl _
  | cons s rest ih =>
    cases s with
    | tok t => simp only [prefCost]; omega
    | rule q =>
      simp only [prefCost]
      cases hc : c q with
      | none => simp
      | some v => rw [he q v hc]; simp only; omega

theorem prefCost_of_seqCost {tc : Nat → Nat} {c : Nat → Option Nat} :
    ∀ (l : List Sym) (v : Nat), seqCost tc c l = some v → prefCost tc c l = v := by
  intro l
  induction l with
  | nil => intro v h; simpa [seqCost, prefCost] using h
  | cons s rest ih =>
    intro v h
    simp only [seqCost] at h
    cases h1 : symCost tc c s with
    | none => simp [h1, addO] at h
    | some a =>
      cases h2 : seqCost tc c rest with
      | none => simp [h1, h2, addO] at h
      | some b =>
        simp only [h1, h2, addO, Option.some.injEq] at h
        cases s with
        | tok t =>
          simp only [symCost, Option.some.injEq] at h1
          simp only [prefCost, ih b h2]; omega
        | rule q =>
          simp only [symCost] at h1
          simp only [prefCost, h1, ih b h2]; omega

/-! ### the state of the loop as a table -/

/-- `costs[r]` if `done[r]` -/
def absF (costs : List Nat) (done : List Bool) : Nat → Option Nat :=
  fun r => if vget done r then some (costs.getD r 0) else none

def absL (G : Grammar) (costs : List Nat) (done : List Bool) : List (Option Nat) :=
  (List.range G.nrules).map (absF costs done)

theorem look_absL (G : Grammar) (costs : List Nat) (done : List Bool) (hd : done.length = G.nrules) :
    look (absL G costs done) = absF costs done := by
  funext r
  simp only [look, absL]
  by_cases hr : r < G.nrules
  · simp [hr]
  · have : vget done r = false := by
      cases h : vget done r with
      | false => rfl
      | true => have := vget_lt h; omega
    simp [hr, absF, this]

theorem absL_length (G : Grammar) (costs : List Nat) (done : List Bool) :
    (absL G costs done).length = G.nrules := by simp [absL]

/-! ### one production -/

theorem checkedAdd_some {a b : Nat} (h : a + b ≤ U16MAX) : checkedAdd a b = some (a + b) := by
  simp [checkedAdd, h]

theorem tc_get {tc : List Nat} {t : Nat} (ht : t < tc.length) : tc[t]? = some (tcF tc t) := by
  simp [tcF, List.getD_eq_getElem?_getD, List.getElem?_eq_getElem ht]

theorem mcSyms_spec (G : Grammar) (tc costs : List Nat) (done : List Bool) (htc : tc.length = G.ntoks) :
    ∀ (l : List Sym) (acc : Nat), (∀ s ∈ l, G.symOk s = true) →
      acc + prefCost (tcF tc) (absF costs done) l ≤ U16MAX →
      mcSyms G tc costs done l acc =
        some (acc + prefCost (tcF tc) (absF costs done) l, (seqCost (tcF tc) (absF costs done) l).isSome) := by
  intro l
  induction l with
  | nil => intro acc _ _; simp [mcSyms, prefCost, seqCost]
  | cons s rest ih =>
    intro acc hok hfit
    have hok' : ∀ s ∈ rest, G.symOk s = true := fun x hx => hok x (List.mem_cons_of_mem _ hx)
    cases s with
    | tok t =>
      have ht : t < tc.length := by
        have := hok (.tok t) (by simp)
        simpa [Grammar.symOk, htc] using this
      simp only [prefCost] at hfit ⊢
      simp only [mcSyms, tc_get ht]
      rw [checkedAdd_some (by omega)]
      simp only []
      rw [ih (acc + tcF tc t) hok' (by omega)]
      simp only [seqCost, symCost]
      cases seqCost (tcF tc) (absF costs done) rest <;> simp [addO, Nat.add_assoc]
    | rule q =>
      have hq : q < G.nrules := by
        have := hok (.rule q) (by simp)
        simpa [Grammar.symOk] using this
      simp only [mcSyms, hq, if_true]
      cases hd : vget done q with
      | false =>
        have : absF costs done q = none := by simp [absF, hd]
        simp [prefCost, seqCost, symCost, this, addO]
      | true =>
        have hq' : absF costs done q = some (costs.getD q 0) := by simp [absF, hd]
        simp only [prefCost, hq'] at hfit ⊢
        simp only [if_true]
        rw [checkedAdd_some (by omega)]
        simp only []
        rw [ih (acc + costs.getD q 0) hok' (by omega)]
        simp only [seqCost, symCost, hq']
        cases seqCost (tcF tc) (absF costs done) rest <;> simp [addO, Nat.add_assoc]

theorem mcProd_spec (G : Grammar) (hwf : G.wf = true) (tc costs : List Nat) (done : List Bool)
    (htc : tc.length = G.ntoks) (ls : Option Nat) (p : Nat) (hp : p < G.nprods)
    (hfit : prefCost (tcF tc) (absF costs done) (G.rhs p) ≤ U16MAX) :
    mcProd G tc costs done ls p = some (minO ls (seqCost (tcF tc) (absF costs done) (G.rhs p))) := by
  unfold mcProd
  rw [mcSyms_spec G tc costs done htc (G.rhs p) 0 (fun s hs => wf_sym hwf hp hs) (by omega)]
  simp only [Nat.zero_add]
  cases hs : seqCost (tcF tc) (absF costs done) (G.rhs p) with
  | none => simp [minO_none_right]
  | some v =>
    rw [prefCost_of_seqCost _ v hs]
    cases ls with
    | none => simp [ltO, minO]
    | some b =>
      simp only [Option.isSome_some, Bool.true_and, ltO, decide_eq_true_eq, minO]
      split
      · congr 2; omega
      · congr 2; omega

theorem iterM_append {σ α : Type} (f : σ → α → Option σ) (l1 l2 : List α) (s : σ) :
    iterM f (l1 ++ l2) s = (iterM f l1 s).bind (iterM f l2) := by
  induction l1 generalizing s with
  | nil => simp [iterM]
  | cons a l ih =>
    simp only [List.cons_append, iterM]
    cases f s a with
    | none => simp
    | some s' => simp [ih]

theorem mcProds_spec (G : Grammar) (hwf : G.wf = true) (tc costs : List Nat) (done : List Bool)
    (htc : tc.length = G.ntoks) :
    ∀ (ps : List Nat) (ls : Option Nat), (∀ p ∈ ps, p < G.nprods ∧
        prefCost (tcF tc) (absF costs done) (G.rhs p) ≤ U16MAX) →
      iterM (mcProd G tc costs done) ps ls =
        some (minO ls (minOver (fun p => seqCost (tcF tc) (absF costs done) (G.rhs p)) ps)) := by
  intro ps
  induction ps with
  | nil => intro ls _; simp [iterM, minOver, minO_none_right]
  | cons p ps ih =>
    intro ls h
    obtain ⟨hp, hfit⟩ := h p (by simp)
    simp only [iterM, mcProd_spec G hwf tc costs done htc ls p hp hfit]
    rw [ih _ (fun q hq => h q (List.mem_cons_of_mem _ hq))]
    simp [minOver, minO_assoc]

/-! ### the first inner loop: `ls_cmplts` and `lowest` -/

/-- `ruleCost` of the rules that are not done -/
def openF (G : Grammar) (tc : List Nat) (costs : List Nat) (done : List Bool) (i : Nat) : Option Nat :=
  if vget done i then none else ruleCost G (tcF tc) (absF costs done) i

theorem newLowest_eq (ls lowest : Option Nat) : newLowest ls lowest = minO lowest ls := by
  cases ls with
  | none => simp [newLowest, minO_none_right]
  | some v =>
    cases lowest with
    | none => simp [newLowest, ltO, minO]
    | some l =>
      simp only [newLowest, ltO, decide_eq_true_eq, minO]
      split
      · congr 1; omega
      · congr 1; omega

/-- the productions of the rules that are not done can be summed without overflow -/
def ScanOk (G : Grammar) (tc costs : List Nat) (done : List Bool) : Prop :=
  ∀ p, p < G.nprods → vget done (G.lhs p) = false → prefCost (tcF tc) (absF costs done) (G.rhs p) ≤ U16MAX

theorem mcRule_spec (G : Grammar) (hwf : G.wf = true) (tc costs : List Nat) (done : List Bool)
    (htc : tc.length = G.ntoks) (hscan : ScanOk G tc costs done) (s : List (Option Nat) × Option Nat) (i : Nat) :
    mcRule G tc costs done s i =
      some (if vget done i then s.1 else s.1.set i (openF G tc costs done i), minO s.2 (openF G tc costs done i)) := by
  unfold mcRule openF
  cases hd : vget done i with
  | true => simp [minO_none_right]
  | false =>
    simp only [Bool.false_eq_true, if_false]
    rw [mcProds_spec G hwf tc costs done htc (G.prodsOf i) none (by
      intro p hp
      obtain ⟨hp1, hp2⟩ := mem_prodsOf.mp hp
      exact ⟨hp1, hscan p hp1 (by rw [hp2]; exact hd)⟩)]
    simp only [minO_none_left, newLowest_eq]
    rfl

theorem mcRules_spec (G : Grammar) (hwf : G.wf = true) (tc costs : List Nat) (done : List Bool)
    (htc : tc.length = G.ntoks) (hscan : ScanOk G tc costs done) (lss0 : List (Option Nat))
    (hl0 : lss0.length = G.nrules) :
    ∀ k, k ≤ G.nrules →
      ∃ lss, iterM (mcRule G tc costs done) (List.range k) (lss0, none) =
          some (lss, minOver (openF G tc costs done) (List.range k)) ∧
        lss.length = G.nrules ∧
        ∀ i, lss.getD i none = if i < k ∧ vget done i = false then openF G tc costs done i else lss0.getD i none := by
  intro k
  induction k with
  | zero =>
    intro _
    exact ⟨lss0, by simp [iterM, minOver], hl0, by intro i; simp⟩
  | succ k ih =>
    intro hk
    obtain ⟨lss, h1, h2, h3⟩ := ih (by omega)
    rw [List.range_succ, iterM_append, h1]
    simp only [Option.bind_some, iterM, mcRule_spec G hwf tc costs done htc hscan]
    refine ⟨_, by rw [minOver_append, minOver_single], ?_, ?_⟩
    · split
      · exact h2
      · simp [h2]
    · intro i
      cases hd : vget done k with
      | true =>
        simp only [if_true]
        rw [h3 i]
        by_cases hik : i = k
        · subst hik; simp [hd]
        · have e : (i < k + 1) ↔ (i < k) := by omega
          simp only [e]
      | false =>
        simp only [Bool.false_eq_true, if_false]
        by_cases hik : i = k
        · subst hik
          have hlt : i < lss.length := by omega
          rw [List.getD_eq_getElem?_getD, List.getElem?_set]
          simp [hlt, hd]
        · have e : (i < k + 1) ↔ (i < k) := by omega
          have hki : ¬ k = i := fun h => hik h.symm
          rw [List.getD_eq_getElem?_getD, List.getElem?_set]
          simp only [hki, if_false]
          rw [← List.getD_eq_getElem?_getD, h3 i]
          simp only [e]

/-! ### the second inner loop -/

/-- `if !done[i] && P(i) { costs[i] = val; done[i] = true; }` -/
def setIf (P : Nat → Bool) (val : Nat) (s : List Nat × List Bool) (i : Nat) : List Nat × List Bool :=
  if !vget s.2 i && P i then (s.1.set i val, vset s.2 i) else s

theorem mcSetLow_eq (lss : List (Option Nat)) (low : Nat) :
    mcSetLow lss low = setIf (fun i => lss.getD i none == some low) low := by
  funext s i; rfl

theorem mcSetMax_eq : mcSetMax = setIf (fun _ => true) U16MAX := by
  funext s i; simp [mcSetMax, setIf]

theorem setIf_spec (P : Nat → Bool) (val n : Nat) (cs : List Nat) (dn : List Bool)
    (hc : cs.length = n) (hd : dn.length = n) :
    ∀ k, k ≤ n →
      ((List.range k).foldl (setIf P val) (cs, dn)).1.length = n ∧
      ((List.range k).foldl (setIf P val) (cs, dn)).2.length = n ∧
      ∀ i, vget ((List.range k).foldl (setIf P val) (cs, dn)).2 i =
            (vget dn i || (decide (i < k) && P i && decide (i < n))) ∧
          ((List.range k).foldl (setIf P val) (cs, dn)).1.getD i 0 =
            if i < k ∧ vget dn i = false ∧ P i = true then val else cs.getD i 0 := by
  intro k
  induction k with
  | zero => intro _; simp [hc, hd]
  | succ k ih =>
    intro hk
    obtain ⟨h1, h2, h3⟩ := ih (by omega)
    rw [List.range_succ, List.foldl_append]
    generalize (List.range k).foldl (setIf P val) (cs, dn) = s at h1 h2 h3
    simp only [List.foldl_cons, List.foldl_nil]
    have hk3 := h3 k
    simp only [Nat.lt_irrefl, decide_false, Bool.false_and, Bool.or_false] at hk3
    unfold setIf
    rw [hk3.1]
    cases hdk : vget dn k with
    | true =>
      simp only [Bool.not_true, Bool.false_and, Bool.false_eq_true, if_false]
      refine ⟨h1, h2, ?_⟩
      intro i
      obtain ⟨a, b⟩ := h3 i
      by_cases hik : i = k
      · subst hik
        refine ⟨?_, ?_⟩
        · rw [a]; simp [hdk]
        · rw [b]; simp [hdk]
      · have e : (i < k + 1) ↔ (i < k) := by omega
        refine ⟨?_, ?_⟩
        · rw [a]; simp only [e]
        · rw [b]; simp only [e]
    | false =>
      cases hP : P k with
      | false =>
        simp only [Bool.not_false, Bool.and_false, Bool.false_eq_true, if_false]
        refine ⟨h1, h2, ?_⟩
        intro i
        obtain ⟨a, b⟩ := h3 i
        by_cases hik : i = k
        · subst hik
          refine ⟨?_, ?_⟩
          · rw [a]; simp [hP]
          · rw [b]; simp [hP]
        · have e : (i < k + 1) ↔ (i < k) := by omega
          refine ⟨?_, ?_⟩
          · rw [a]; simp only [e]
          · rw [b]; simp only [e]
      | true =>
        simp only [Bool.not_false, Bool.and_self, if_true]
        refine ⟨by simp [h1], by simp [vset, h2], ?_⟩
        intro i
        obtain ⟨a, b⟩ := h3 i
        have hk2 : k < s.2.length := by omega
        have hk1 : k < s.1.length := by omega
        by_cases hik : i = k
        · subst hik
          constructor
          · rw [vget_vset _ _ _ hk2]; simp [hdk, hP]; omega
          · rw [List.getD_eq_getElem?_getD, List.getElem?_set]
            simp [hk1, hdk, hP]
        · have e : (i < k + 1) ↔ (i < k) := by omega
          have hki : ¬ k = i := fun h => hik h.symm
          constructor
          · rw [vget_vset _ _ _ hk2, a]; simp [hik, e]
          · rw [List.getD_eq_getElem?_getD, List.getElem?_set]
            simp only [hki, if_false]
            rw [← List.getD_eq_getElem?_getD, b]
            simp only [e]

theorem all_id_iff (dn : List Bool) : dn.all id = true ↔ ∀ i, i < dn.length → vget dn i = true := by
  simp only [List.all_eq_true, id]
  constructor
  · intro h i hi
    unfold vget
    rw [List.getD_eq_getElem?_getD, List.getElem?_eq_getElem hi]
    exact h _ (List.getElem_mem hi)
  · intro h x hx
    obtain ⟨i, hi, e⟩ := List.getElem_of_mem hx
    have := h i hi
    unfold vget at this
    rw [List.getD_eq_getElem?_getD, List.getElem?_eq_getElem hi] at this
    simpa [e] using this

/-! ### one round -/

theorem dijkLow_absL (G : Grammar) (tc costs : List Nat) (done : List Bool) (hd : done.length = G.nrules) :
    dijkLow G (tcF tc) (absL G costs done) = minOver (openF G tc costs done) (List.range G.nrules) := by
  unfold dijkLow
  congr 1
  funext i
  simp only [openCost, openF, look_absL G costs done hd, absF]
  cases vget done i <;> simp

theorem scanOk_of_fit (G : Grammar) (tc costs : List Nat) (done : List Bool) (m : List (Option Nat))
    (hfit : sumsFit G (tcF tc) m = true) (hext : Ext (absF costs done) (look m)) : ScanOk G tc costs done := by
  intro p hp _
  simp only [sumsFit, List.all_eq_true, List.mem_range, decide_eq_true_eq] at hfit
  exact Nat.le_trans (prefCost_ext hext _) (hfit p hp)

theorem mcRound_some (G : Grammar) (hwf : G.wf = true) (tc costs : List Nat) (done : List Bool)
    (htc : tc.length = G.ntoks) (hc : costs.length = G.nrules) (hd : done.length = G.nrules)
    (hscan : ScanOk G tc costs done) (low : Nat)
    (hlow : dijkLow G (tcF tc) (absL G costs done) = some low) :
    ∃ cs dn, mcRound G tc (costs, done) = some (cs, dn) ∧ cs.length = G.nrules ∧ dn.length = G.nrules ∧
      absL G cs dn = dijkStep G (tcF tc) (absL G costs done) low := by
  obtain ⟨lss, h1, h2, h3⟩ := mcRules_spec G hwf tc costs done htc hscan (List.replicate G.nrules none)
    (by simp) G.nrules (Nat.le_refl _)
  rw [← dijkLow_absL G tc costs done hd, hlow] at h1
  obtain ⟨l1, l2, l3⟩ := setIf_spec (fun i => lss.getD i none == some low) low G.nrules costs done hc hd
    G.nrules (Nat.le_refl _)
  generalize hfo : (List.range G.nrules).foldl (setIf (fun i => lss.getD i none == some low) low) (costs, done) = fo
    at l1 l2 l3
  refine ⟨fo.1, fo.2, by simp only [mcRound, h1, mcSetLow_eq, hfo], l1, l2, ?_⟩
  apply look_ext (by rw [absL_length, dijkStep_length])
  intro r
  rw [look_absL G _ _ l2, look_dijkStep, look_absL G costs done hd]
  obtain ⟨a, b⟩ := l3 r
  have hlr := h3 r
  have hL : absF fo.1 fo.2 r = if vget fo.2 r then some (fo.1.getD r 0) else none := rfl
  have hR : absF costs done r = if vget done r then some (costs.getD r 0) else none := rfl
  rw [hL, a, b, hR]
  by_cases hr : r < G.nrules
  · cases hdr : vget done r with
    | true => simp [hr]
    | false =>
      have hlr' : lss.getD r none = ruleCost G (tcF tc) (absF costs done) r := by
        rw [hlr]; simp [hr, hdr, openF]
      rw [hlr']
      by_cases hrc : ruleCost G (tcF tc) (absF costs done) r = some low
      · simp [hr, hrc]
      · simp [hr, hrc]
  · have hdr : vget done r = false := by
      cases h : vget done r with
      | false => rfl
      | true => have := vget_lt h; omega
    simp [hdr, hr]

theorem mcRound_none (G : Grammar) (hwf : G.wf = true) (tc costs : List Nat) (done : List Bool)
    (htc : tc.length = G.ntoks) (hc : costs.length = G.nrules) (hd : done.length = G.nrules)
    (hscan : ScanOk G tc costs done)
    (hlow : dijkLow G (tcF tc) (absL G costs done) = none) :
    ∃ dn, mcRound G tc (costs, done) = some (concr (absL G costs done), dn) ∧ dn.all id = true := by
  obtain ⟨lss, h1, h2, h3⟩ := mcRules_spec G hwf tc costs done htc hscan (List.replicate G.nrules none)
    (by simp) G.nrules (Nat.le_refl _)
  rw [← dijkLow_absL G tc costs done hd, hlow] at h1
  obtain ⟨l1, l2, l3⟩ := setIf_spec (fun _ => true) U16MAX G.nrules costs done hc hd
    G.nrules (Nat.le_refl _)
  generalize hfo : (List.range G.nrules).foldl (setIf (fun _ => true) U16MAX) (costs, done) = fo at l1 l2 l3
  refine ⟨fo.2, ?_, ?_⟩
  · simp only [mcRound, h1, mcSetMax_eq, hfo]
    congr 1
    apply Prod.ext
    · apply List.ext_getElem (by simp [l1, concr, absL])
      intro i hi1 hi2
      have hi : i < G.nrules := by omega
      have := (l3 i).2
      rw [List.getD_eq_getElem?_getD, List.getElem?_eq_getElem hi1] at this
      simp only [Option.getD_some] at this
      show fo.1[i] = _
      rw [this]
      simp only [concr, absL, List.getElem_map, List.getElem_range, absF]
      cases hdi : vget done i with
      | true => simp
      | false => simp [hi]
    · rfl
  · rw [all_id_iff]
    intro i hi
    rw [l2] at hi
    rw [(l3 i).1]
    simp [hi]

/-! ### the outer loop -/

theorem concr_absL_done (G : Grammar) (cs : List Nat) (dn : List Bool) (hc : cs.length = G.nrules)
    (hd : dn.length = G.nrules) (hall : dn.all id = true) : concr (absL G cs dn) = cs := by
  rw [all_id_iff] at hall
  apply List.ext_getElem (by simp [concr, absL, hc])
  intro i h1 h2
  have hi : i < G.nrules := by omega
  simp only [concr, absL, List.getElem_map, List.getElem_range, absF, hall i (by omega), if_true,
    Option.getD_some]
  rw [List.getD_eq_getElem?_getD, List.getElem?_eq_getElem h2]; rfl

theorem mcLoop_sim (G : Grammar) (hwf : G.wf = true) (tc : List Nat) (htc : tc.length = G.ntoks)
    (m : List (Option Nat)) (hfit : sumsFit G (tcF tc) m = true) :
    ∀ (fuel : Nat) (costs : List Nat) (done : List Bool), costs.length = G.nrules → done.length = G.nrules →
      dijkFrom G (tcF tc) fuel (absL G costs done) = some m →
      mcLoop G tc fuel (costs, done) = .done (concr m) := by
  intro fuel
  induction fuel with
  | zero => intro costs done _ _ h; simp [dijkFrom] at h
  | succ n ih =>
    intro costs done hc hd h
    have hext : Ext (absF costs done) (look m) := by
      have := dijkFrom_ext (n + 1) _ m (absL_length G costs done) h
      rwa [look_absL G costs done hd] at this
    have hscan := scanOk_of_fit G tc costs done m hfit hext
    simp only [dijkFrom] at h
    simp only [mcLoop]
    cases hlow : dijkLow G (tcF tc) (absL G costs done) with
    | none =>
      rw [hlow] at h
      simp only [Option.some.injEq] at h
      obtain ⟨dn, hr, hall⟩ := mcRound_none G hwf tc costs done htc hc hd hscan hlow
      rw [hr]
      simp only [hall, if_true, h]
    | some low =>
      rw [hlow] at h
      simp only at h
      obtain ⟨cs, dn, hr, hcs, hdn, habs⟩ := mcRound_some G hwf tc costs done htc hc hd hscan low hlow
      rw [hr]
      simp only []
      rw [← habs] at h
      by_cases hall : dn.all id = true
      · simp only [hall, if_true]
        cases n with
        | zero => simp [dijkFrom] at h
        | succ f =>
          have hfull : dijkLow G (tcF tc) (absL G cs dn) = none := by
            apply dijkLow_full
            intro i hi
            rw [look_absL G cs dn hdn]
            rw [all_id_iff] at hall
            simp [absF, hall i (by omega)]
          simp only [dijkFrom, hfull, Option.some.injEq] at h
          rw [← h, concr_absL_done G cs dn hcs hdn hall]
      · simp only [hall, if_false]
        exact ih cs dn hcs hdn h

theorem absL_init (G : Grammar) :
    absL G (List.replicate G.nrules 0) (List.replicate G.nrules false) = List.replicate G.nrules none := by
  apply List.ext_getElem (by simp [absL])
  intro i h1 h2
  simp [absL, absF, vget_replicate_false]

/-- **`rule_min_costs` is exact and terminates** (model level) -/
theorem ruleMinCosts_exact (G : Grammar) (hwf : G.wf = true) (tc : List Nat) (htc : tc.length = G.ntoks) :
    ∃ m, minCosts G (tcF tc) = some m ∧ MinTable G (tcF tc) m ∧
      (sumsFit G (tcF tc) m = true →
        ∀ fuel, G.nrules + 1 ≤ fuel → ruleMinCosts G tc fuel = .done (concr m)) := by
  obtain ⟨m, hd, hm, hmt⟩ := minCosts_total G hwf (tcF tc)
  refine ⟨m, hm, hmt, ?_⟩
  intro hfit fuel hfuel
  unfold ruleMinCosts
  apply mcLoop_sim G hwf tc htc m hfit fuel _ _ (by simp) (by simp)
  rw [absL_init]
  obtain ⟨m', hm', _, _⟩ := dijkFrom_spec hwf (tc := tcF tc) fuel _ 0 (dinv_init G (tcF tc))
    (by have := openCount_le G (List.replicate G.nrules none); omega)
  rw [hm']
  congr 1
  exact dijkFrom_unique _ _ _ _ _ hm' hd

end GrmVerif.Impl
