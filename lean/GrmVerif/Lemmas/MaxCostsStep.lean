import GrmVerif.Lemmas.MaxCostsInv
/-! The model of `rule_max_costs`, part 3: one iteration of `for i in 0..done.len()` keeps the invariant,
its `debug_assert!`s hold, and it completes the rule when every rule the rule refers to is done. -/
namespace GrmVerif.Impl
open GrmVerif Spec Ref

/-- `done` after the iteration for rule `i`: set if `dn` -/
def newDone (done : List Bool) (i : Nat) (dn : Bool) : List Bool := if dn then vset done i else done

theorem vget_newDone (done : List Bool) (i : Nat) (dn : Bool) (hi : i < done.length) (r : Nat) :
    vget (newDone done i dn) r = ((dn && decide (r = i)) || vget done r) := by
  unfold newDone
  cases dn with
  | false => simp
  | true => simp [vget_vset _ _ _ hi]

theorem newDone_length (done : List Bool) (i : Nat) (dn : Bool) : (newDone done i dn).length = done.length := by
  unfold newDone; cases dn <;> simp [vset]

/-- the state after rule `i` (not done before) got the cost `v ≥ costs[i]` keeps the invariant -/
theorem xinv_update {G : Grammar} {tc : List Nat} {U : Nat → Nat} {s : MX} (hI : XInv G tc U s) {i : Nat}
    (hi : i < G.nrules) (hd : vget s.done i = false) (v : Nat) (dn b : Bool)
    (hv : cget s.costs i ≤ v) (hvle : v ≤ U16MAX)
    (hmx : v = U16MAX → dn = true ∧ Inf G i)
    (hfin : dn = true → v ≠ U16MAX →
      (∀ p ∈ G.prodsOf i, ∃ x, seqCost (tcF tc) (finF s.costs s.done) (G.rhs p) = some x ∧ x ≤ v) ∧
      (∃ p ∈ G.prodsOf i, seqCost (tcF tc) (finF s.costs s.done) (G.rhs p) = some v))
    (hub : v ≠ U16MAX → v ≤ U i)
    (hmono : dn = false → ∃ p ∈ G.prodsOf i, v ≤ curSum (tcF tc) (costF s.costs) (G.rhs p)) :
    XInv G tc U { costs := s.costs.set i v, done := newDone s.done i dn, allDone := b } := by
  have hic : i < s.costs.length := by rw [hI.clen]; exact hi
  have hid : i < s.done.length := by rw [hI.dlen]; exact hi
  have c1 : ∀ r, cget (s.costs.set i v) r = if r = i then v else cget s.costs r :=
    fun r => cget_set s.costs i v r hic
  have c2 : ∀ r, vget (newDone s.done i dn) r = ((dn && decide (r = i)) || vget s.done r) :=
    vget_newDone s.done i dn hid
  have hnc : ¬ Cyc G i := hI.notCyc hi hd
  -- entries of the finite table other than `i` are unchanged
  have c4 : ∀ r, r ≠ i → finF (s.costs.set i v) (newDone s.done i dn) r = finF s.costs s.done r := by
    intro r hr
    simp [finF, c1, c2, hr]
  have c0 : finF s.costs s.done i = none := by simp [finF, hd]
  have c3 : Ext (finF s.costs s.done) (finF (s.costs.set i v) (newDone s.done i dn)) := by
    intro r x hx
    by_cases hr : r = i
    · subst hr; rw [c0] at hx; cases hx
    · rw [c4 r hr]; exact hx
  have c5 : ∀ q, costF s.costs q ≤ costF (s.costs.set i v) q := by
    intro q
    simp only [costF, c1]
    split
    · next h => subst h; exact hv
    · exact Nat.le_refl _
  refine ⟨by simp [hI.clen], by simp [newDone_length, hI.dlen], ?_, ?_, ?_, ?_, ?_, ?_, ?_⟩
  · intro r
    simp only [c1]
    split
    · exact hvle
    · exact hI.le r
  · intro r hr
    simp only [c1] at hr
    simp only [c2]
    by_cases hri : r = i
    · subst hri
      simp only [if_true] at hr
      obtain ⟨h1, h2⟩ := hmx hr
      simp [h1, h2]
    · simp only [hri, if_false] at hr
      obtain ⟨h1, h2⟩ := hI.mx r hr
      simp [h1, h2]
  · intro r hr hc
    simp only [c1]
    by_cases hri : r = i
    · subst hri; exact absurd hc hnc
    · simp only [hri, if_false]; exact hI.cyc r hr hc
  · intro r hdr hmr
    simp only [c1] at hmr ⊢
    simp only [c2] at hdr
    by_cases hri : r = i
    · subst hri
      simp only [if_true] at hmr ⊢
      have hdn : dn = true := by
        cases dn with
        | true => rfl
        | false => simp [hd] at hdr
      obtain ⟨f1, p, hp, f2⟩ := hfin hdn hmr
      refine ⟨?_, p, hp, seqCost_ext c3 _ _ f2⟩
      intro p' hp'
      obtain ⟨x, hx, hle⟩ := f1 p' hp'
      exact ⟨x, seqCost_ext c3 _ _ hx, hle⟩
    · simp only [hri, if_false, decide_false, Bool.and_false, Bool.false_or] at hmr hdr ⊢
      obtain ⟨f1, p, hp, f2⟩ := hI.fin r hdr hmr
      refine ⟨?_, p, hp, seqCost_ext c3 _ _ f2⟩
      intro p' hp'
      obtain ⟨x, hx, hle⟩ := f1 p' hp'
      exact ⟨x, seqCost_ext c3 _ _ hx, hle⟩
  · intro r x hx
    by_cases hri : r = i
    · subst hri
      obtain ⟨h1, h2, h3⟩ := finF_some hx
      simp only [c1, if_true] at h2 h3
      simp only [c2] at h1
      have hdn : dn = true := by
        cases dn with
        | true => rfl
        | false => simp [hd] at h1
      subst h3
      obtain ⟨_, p, hp, f2⟩ := hfin hdn h2
      obtain ⟨hp1, hp2⟩ := mem_prodsOf.mp hp
      obtain ⟨w, hw, hcw⟩ := seqCost_realised hI.real _ _ f2
      rw [← hp2]
      exact ⟨w, .rule p w hp1 hw, hcw⟩
    · rw [c4 r hri] at hx
      exact hI.real r x hx
  · intro r hr
    simp only [c1] at hr ⊢
    by_cases hri : r = i
    · subst hri; simp only [if_true] at hr ⊢; exact hub hr
    · simp only [hri, if_false] at hr ⊢; exact hI.ub r hr
  · intro r hr hdr
    simp only [c2] at hdr
    simp only [c1]
    by_cases hri : r = i
    · subst hri
      simp only [if_true]
      have hdn : dn = false := by
        cases dn with
        | false => rfl
        | true => simp at hdr
      obtain ⟨p, hp, hle⟩ := hmono hdn
      exact ⟨p, hp, Nat.le_trans hle (curSum_mono c5 _)⟩
    · simp only [hri, if_false, decide_false, Bool.and_false, Bool.false_or] at hdr ⊢
      obtain ⟨p, hp, hle⟩ := hI.mono r hr hdr
      exact ⟨p, hp, Nat.le_trans hle (curSum_mono c5 _)⟩

/-- what one iteration of the sweep guarantees besides the invariant -/
structure XStep (G : Grammar) (s s' : MX) (i : Nat) : Prop where
  dmono : ∀ r, vget s.done r = true → vget s'.done r = true
  flagT : s'.allDone = true → s.allDone = true ∧ vget s.done i = true
  flagF : s'.allDone = false → s.allDone = false ∨ vget s.done i = false
  closes : (∀ q, Succ G i q → vget s.done q = true) → vget s'.done i = true

theorem mxFin_false {hc : Option Nat} {x : Nat} (h : ∀ v, hc = some v → v ≠ U16MAX) :
    mxFin hc (some x) = false := by
  cases hc with
  | none => rfl
  | some v => have := h v rfl; simp [mxFin, this]

theorem dbgAssert_true {α : Type} (dbg : Bool) (k : Option α) : dbgAssert dbg true k = k := by
  simp [dbgAssert]

theorem mxRule_spec (G : Grammar) (hwf : G.wf = true) (hprods : ∀ r, r < G.nrules → G.prodsOf r ≠ [])
    (tc : List Nat) (htc : tc.length = G.ntoks) (U : Nat → Nat) (hcert : maxCert G (tcF tc) U = true)
    (dbg : Bool) (s : MX) (hI : XInv G tc U s) (i : Nat) (hi : i < G.nrules) :
    ∃ s', mxRule G tc dbg s i = some s' ∧ XInv G tc U s' ∧ XStep G s s' i := by
  unfold mxRule
  cases hd : vget s.done i with
  | true =>
    simp only [if_true]
    exact ⟨s, rfl, hI, fun _ h => h, fun h => ⟨h, hd⟩, fun h => Or.inl h, fun _ => hd⟩
  | false =>
    simp only [Bool.false_eq_true, if_false]
    have hfits := hI.fits hwf hcert hi hd
    have hic : i < s.costs.length := by rw [hI.clen]; exact hi
    have hid : i < s.done.length := by rw [hI.dlen]; exact hi
    have hnc : ¬ Cyc G i := hI.notCyc hi hd
    -- a rule of a production of `i` is a successor of `i`
    have hsucc : ∀ p ∈ G.prodsOf i, ∀ q, Sym.rule q ∈ G.rhs p → Succ G i q := by
      intro p hp q hq
      obtain ⟨hp1, hp2⟩ := mem_prodsOf.mp hp
      exact ⟨p, hp1, hp2, hq⟩
    by_cases hM : ∃ p ∈ G.prodsOf i, hasStop (isMaxB s.costs) (G.rhs p) = true
    · -- a rule of infinite cost is referenced
      obtain ⟨hn, hr⟩ := mxProds_hit G hwf tc s.costs s.done htc (G.prodsOf i) none none hfits hM
      rw [hr]
      obtain ⟨p, hp, hs⟩ := hM
      obtain ⟨q, hq, hqm⟩ := (hasStop_iff _ _).mp hs
      have hqm' : cget s.costs q = U16MAX := by simpa [isMaxB] using hqm
      have hinf : Inf G i := inf_of_succ (hsucc p hp q hq) (hI.mx q hqm').2
      have hnew := xinv_update hI hi hd U16MAX true false (hI.le i) (Nat.le_refl _)
        (fun _ => ⟨rfl, hinf⟩) (fun _ h => absurd rfl h) (fun h => absurd rfl h) (fun h => by cases h)
      have hge : decide (U16MAX ≥ cget s.costs i) = true := by simpa using hI.le i
      refine ⟨_, by simp [mxUpdate, mxFin, hge, dbgAssert_true, newDone], hnew, ?_⟩
      refine ⟨?_, ?_, ?_, ?_⟩
      · intro r h; simp [newDone, vget_vset _ _ _ hid, h]
      · intro h; cases h
      · intro _; exact Or.inr hd
      · intro _; simp [newDone, vget_vset _ _ _ hid]
    · -- no production refers to a rule of infinite cost: all of them are summed
      have hns : ∀ p ∈ G.prodsOf i, hasStop (isMaxB s.costs) (G.rhs p) = false := by
        intro p hp
        cases h : hasStop (isMaxB s.costs) (G.rhs p) with
        | false => rfl
        | true => exact absurd ⟨p, hp, h⟩ hM
      obtain ⟨hc, hn, hr, res⟩ := mxProds_spec G hwf tc s.costs s.done htc (G.prodsOf i) none none
        (fun p hp => ⟨hfits p hp, hns p hp⟩)
      rw [hr]
      -- every production sum is below `u16::MAX` and at most `U i`
      have hsum : ∀ p ∈ G.prodsOf i, curSum (tcF tc) (costF s.costs) (G.rhs p) < U16MAX ∧
          curSum (tcF tc) (costF s.costs) (G.rhs p) ≤ U i := by
        intro p hp
        have := (hfits p hp).2
        rw [prefSum_eq_curSum _ (hns p hp)] at this
        exact ⟨this, hI.sum_le_U hwf hcert hi hd hp (hns p hp)⟩
      -- `i` does not occur in its own productions
      have hself : ∀ p ∈ G.prodsOf i, ∀ q, Sym.rule q ∈ G.rhs p → q ≠ i := by
        intro p hp q hq e
        subst e
        exact hnc (reach_of_succ (hsucc p hp q hq))
      obtain ⟨p1, hp1, hle1⟩ := hI.mono i hi hd
      by_cases hall : ∀ p ∈ G.prodsOf i, allDoneSyms s.done (G.rhs p) = true
      · -- every production is complete
        have hnone : hn = none := by
          cases hh : hn with
          | none => rfl
          | some x =>
            rcases res.fromN x hh with e | ⟨p, hp, hd', _⟩
            · cases e
            · rw [hall p hp] at hd'; cases hd'
        obtain ⟨p0, hp0⟩ := List.exists_mem_of_ne_nil _ (hprods i hi)
        obtain ⟨h, hh, _⟩ := res.coverC p0 hp0 (hall p0 hp0)
        have hfrom : ∃ p ∈ G.prodsOf i, curSum (tcF tc) (costF s.costs) (G.rhs p) = h := by
          rcases res.fromC h hh with e | ⟨p, hp, _, he⟩
          · cases e
          · exact ⟨p, hp, he⟩
        obtain ⟨ps, hps, hpe⟩ := hfrom
        have hlt : h < U16MAX := by rw [← hpe]; exact (hsum ps hps).1
        have hge : cget s.costs i ≤ h := by
          obtain ⟨h', hh', hle'⟩ := res.coverC p1 hp1 (hall p1 hp1)
          rw [hh] at hh'; cases hh'; omega
        have hnew := xinv_update hI hi hd h true false hge (by omega)
          (fun e => by omega)
          (fun _ _ => by
            refine ⟨?_, ps, hps, ?_⟩
            · intro p hp
              obtain ⟨h', hh', hle'⟩ := res.coverC p hp (hall p hp)
              rw [hh] at hh'; cases hh'
              exact ⟨_, seqCost_complete _ _ _ _ (hall p hp) (hns p hp), hle'⟩
            · rw [← hpe]; exact seqCost_complete _ _ _ _ (hall ps hps) (hns ps hps))
          (fun _ => by rw [← hpe]; exact (hsum ps hps).2)
          (fun e => by cases e)
        have hne : ¬ h = U16MAX := by omega
        have hged : decide (h ≥ cget s.costs i) = true := by simpa using hge
        refine ⟨_, by simp [mxUpdate, mxFin, hh, hnone, hged, dbgAssert_true, newDone], hnew, ?_⟩
        refine ⟨?_, ?_, ?_, ?_⟩
        · intro r h'; simp [newDone, vget_vset _ _ _ hid, h']
        · intro h'; cases h'
        · intro _; exact Or.inr hd
        · intro _; simp [newDone, vget_vset _ _ _ hid]
      · -- some production is incomplete: the rule gets an interim cost
        have hex : ∃ p ∈ G.prodsOf i, allDoneSyms s.done (G.rhs p) = false := by
          apply Classical.byContradiction
          intro hne
          apply hall
          intro p hp
          cases h : allDoneSyms s.done (G.rhs p) with
          | true => rfl
          | false => exact absurd ⟨p, hp, h⟩ hne
        obtain ⟨pn, hpn, hdn⟩ := hex
        obtain ⟨x, hx, hlex⟩ := res.coverN pn hpn hdn
        -- the value written and where it comes from
        generalize hhigh : interimCost hc x = high
        have hfrom : ∃ p ∈ G.prodsOf i, curSum (tcF tc) (costF s.costs) (G.rhs p) = high := by
          have hxfrom : ∃ p ∈ G.prodsOf i, curSum (tcF tc) (costF s.costs) (G.rhs p) = x := by
            rcases res.fromN x hx with e | ⟨p, hp, _, he⟩
            · cases e
            · exact ⟨p, hp, he⟩
          cases hh : hc with
          | none => rw [hh] at hhigh; simp only [interimCost] at hhigh; rw [← hhigh]; exact hxfrom
          | some h =>
            have hhfrom : ∃ p ∈ G.prodsOf i, curSum (tcF tc) (costF s.costs) (G.rhs p) = h := by
              rcases res.fromC h hh with e | ⟨p, hp, _, he⟩
              · cases e
              · exact ⟨p, hp, he⟩
            rw [hh] at hhigh; simp only [interimCost] at hhigh
            by_cases hmx : h ≤ x
            · have : high = x := by omega
              rw [this]; exact hxfrom
            · have : high = h := by omega
              rw [this]; exact hhfrom
        obtain ⟨ps, hps, hpe⟩ := hfrom
        have hlt : high < U16MAX := by rw [← hpe]; exact (hsum ps hps).1
        have hcov : ∀ p ∈ G.prodsOf i, curSum (tcF tc) (costF s.costs) (G.rhs p) ≤ high := by
          intro p hp
          cases hdp : allDoneSyms s.done (G.rhs p) with
          | true =>
            obtain ⟨h', hh', hle'⟩ := res.coverC p hp hdp
            rw [hh'] at hhigh; simp only [interimCost] at hhigh; omega
          | false =>
            obtain ⟨x', hx', hle'⟩ := res.coverN p hp hdp
            rw [hx] at hx'; cases hx'
            cases hh : hc with
            | none => rw [hh] at hhigh; simp only [interimCost] at hhigh; omega
            | some h => rw [hh] at hhigh; simp only [interimCost] at hhigh; omega
        have hge : cget s.costs i ≤ high := Nat.le_trans hle1 (hcov p1 hp1)
        have hnew := xinv_update hI hi hd high false false hge (by omega)
          (fun e => by omega) (fun e => by cases e)
          (fun _ => by rw [← hpe]; exact (hsum ps hps).2)
          (fun _ => ⟨ps, hps, by rw [hpe]; exact Nat.le_refl _⟩)
        have hfin : mxFin hc (some x) = false := by
          apply mxFin_false
          intro h hh
          have : h < U16MAX := by
            rcases res.fromC h hh with e | ⟨p, hp, _, he⟩
            · cases e
            · rw [← he]; exact (hsum p hp).1
          omega
        have hged : decide (high ≥ cget s.costs i) = true := by simpa using hge
        refine ⟨_, ?_, hnew, ?_⟩
        · simp only [mxUpdate, hx, hfin, Bool.false_eq_true, if_false, hhigh]
          rw [hged, dbgAssert_true]
          rfl
        · refine ⟨?_, ?_, ?_, ?_⟩
          · intro r h'; simpa [newDone] using h'
          · intro h'; cases h'
          · intro _; exact Or.inr hd
          · intro hcl
            exfalso
            have := (allDoneSyms_iff s.done (G.rhs pn)).mpr (fun q hq => hcl q (hsucc pn hpn q hq))
            rw [hdn] at this; cases this

end GrmVerif.Impl
