import GrmVerif.Model.Lex
/-!
Specification side of C09 (declarative definitions + an executable reference lexer on a PLAIN stack).

* the start-state stack of the specification is a plain `List St` (head = current state);
* `Active cur r`: rule `r` may match in state `cur` (inclusive states also activate unqualified rules);
* `LongestEarliest`: the chosen (rule, length) = active rule with maximal non-empty match, least index
  among the maxima; `Stuck`: no active rule has a non-empty match;
* `Tiles`: the declarative run relation: which event lists are correct for a definition, a matcher
  and an input length;
* `specRun`: reference lexer (right-to-left choice function, plain stack) used for the `S` line.
-/
namespace GrmVerif.Lex

/-! ### plain stack -/

/-- specification of the three stack operations on a plain stack (head = top) -/
def plainOp (init : St) (ps : List St) (s : St) : Op → List St
  | .replace => [s]
  | .push => s :: ps
  | .pop => if ps.tail.isEmpty then [init] else ps.tail

/-- the plain stack a run-length encoded stack stands for -/
def decode : Stack → List St
  | [] => []
  | (c, t) :: rest => List.replicate c t ++ decode rest

/-! ### choice -/

/-- rule `r` is active in start state `cur` -/
def Active (cur : St) (r : Rule) : Prop :=
  (r.states = [] ∧ cur.excl = false) ∨ (r.states ≠ [] ∧ cur.id ∈ r.states)

instance (cur : St) (r : Rule) : Decidable (Active cur r) := by unfold Active; infer_instance

/-- `(ridx, len)` is the longest non-empty match among the active rules at offset `i`, and `ridx` is
the least index among the rules achieving that length -/
structure LongestEarliest (cfg : Cfg) (ml : Nat → Nat → Option Nat) (cur : St) (i ridx len : Nat) : Prop where
  pos : 0 < len
  rule : ∃ r, cfg.rules[ridx]? = some r ∧ Active cur r
  hit : ml ridx i = some len
  longest : ∀ j r l, cfg.rules[j]? = some r → Active cur r → ml j i = some l → l ≤ len
  earliest : ∀ j r, cfg.rules[j]? = some r → Active cur r → ml j i = some len → ridx ≤ j

/-- no active rule has a non-empty match at offset `i` -/
def Stuck (cfg : Cfg) (ml : Nat → Nat → Option Nat) (cur : St) (i : Nat) : Prop :=
  ∀ j r l, cfg.rules[j]? = some r → Active cur r → ml j i = some l → l = 0

/-! ### the run relation -/

/-- the event a matching rule produces: unnamed rules emit nothing (ghost `skip`), named rules a
lexeme with the id assigned to the name -/
def Emits (r : Rule) (ridx i len : Nat) (ev : Ev) : Prop :=
  (r.name = none ∧ ev = .skip ridx i len) ∨
  (∃ t, r.name.isSome = true ∧ r.tokId = some t ∧ ev = .tok ridx t i len)

/-- the effect of a rule on the plain stack -/
def Moves (cfg : Cfg) (init : St) (ps : List St) (r : Rule) (ps' : List St) : Prop :=
  (r.target = none ∧ ps' = ps) ∨
  (∃ tid op s, r.target = some (tid, op) ∧ getState cfg.states tid = some s ∧ ps' = plainOp init ps s op)

/-- `Tiles cfg ml n init i ps evs`: starting at offset `i` with plain stack `ps`, `evs` is the correct
event list for an input of `n` bytes. -/
inductive Tiles (cfg : Cfg) (ml : Nat → Nat → Option Nat) (n : Nat) (init : St) :
    Nat → List St → List Ev → Prop
  /-- the input is exhausted -/
  | done {i ps} : n ≤ i → Tiles cfg ml n init i ps []
  /-- no active rule has a non-empty match: one lexing error here (carrying the state), stop -/
  | stuck {i cur ps} : i < n → Stuck cfg ml cur i →
      Tiles cfg ml n init i (cur :: ps) [.err i (some cur.id)]
  /-- the winning rule is named but no token id is assigned to the name: error here, stop -/
  | unset {i cur ps ridx len r} : i < n → LongestEarliest cfg ml cur i ridx len →
      cfg.rules[ridx]? = some r → r.name.isSome = true → r.tokId = none →
      Tiles cfg ml n init i (cur :: ps) [.err i none]
  /-- the winning rule refers to a start state that does not exist (only constructible through
  `from_rules`): its lexeme, then an error at the lexeme's start, stop -/
  | badTarget {i cur ps ridx len r ev tid op} : i < n → LongestEarliest cfg ml cur i ridx len →
      cfg.rules[ridx]? = some r → Emits r ridx i len ev →
      r.target = some (tid, op) → getState cfg.states tid = none →
      Tiles cfg ml n init i (cur :: ps) [ev, .err i none]
  /-- the winning rule fires: its event, its stack operation, continue right after the match -/
  | step {i cur ps ridx len r ev ps' evs} : i < n → LongestEarliest cfg ml cur i ridx len →
      cfg.rules[ridx]? = some r → Emits r ridx i len ev → Moves cfg init (cur :: ps) r ps' →
      Tiles cfg ml n init (i + len) ps' evs →
      Tiles cfg ml n init i (cur :: ps) (ev :: evs)

/-! ### executable reference lexer (plain stack, right-to-left choice) -/

/-- candidate length of rule `r` (index `k`) in state `cur`: its non-empty match, if active -/
def candLen (cur : St) (mli : Nat → Option Nat) (r : Rule) (k : Nat) : Option Nat :=
  if Active cur r then
    match mli k with
    | some l => if 0 < l then some l else none
    | none => none
  else none

/-- best (index, length) among `rs` (whose first element has index `k`): a later rule only wins with a
strictly longer match -/
def bestFrom (cur : St) (mli : Nat → Option Nat) : List Rule → Nat → Option (Nat × Nat)
  | [], _ => none
  | r :: rs, k =>
    match candLen cur mli r k, bestFrom cur mli rs (k + 1) with
    | some l, some (j, l') => if l < l' then some (j, l') else some (k, l)
    | some l, none => some (k, l)
    | none, rest => rest

/-- the rule's operation on the plain stack; `none` = the target state does not exist -/
def specMove (cfg : Cfg) (init : St) (ps : List St) (r : Rule) : Option (List St) :=
  match r.target with
  | none => some ps
  | some (tid, op) =>
    match getState cfg.states tid with
    | none => none
    | some s => some (plainOp init ps s op)

/-- one step of the reference lexer: the events and, unless the run stops, the next offset and stack -/
def specStep (cfg : Cfg) (ml : Nat → Nat → Option Nat) (init : St) (i : Nat) (ps : List St) :
    List Ev × Option (Nat × List St) :=
  match ps with
  | [] => ([.err i none], none)
  | cur :: _ =>
    match bestFrom cur (fun r => ml r i) cfg.rules 0 with
    | none => ([.err i (some cur.id)], none)
    | some (ridx, len) =>
      match cfg.rules[ridx]? with
      | none => ([.panic], none)
      | some r =>
        match emitFor r ridx i len with
        | none => ([.err i none], none)
        | some ev =>
          match specMove cfg init ps r with
          | none => ([ev, .err i none], none)
          | some ps' => ([ev], some (i + len, ps'))

/-- the reference lexer; fuel `n` suffices -/
def specLoop (cfg : Cfg) (ml : Nat → Nat → Option Nat) (n : Nat) (init : St) :
    Nat → Nat → List St → List Ev × List St
  | 0, _, ps => ([], ps)
  | fuel + 1, i, ps =>
    if i < n then
      match specStep cfg ml init i ps with
      | (evs, none) => (evs, ps)
      | (evs, some (i', ps')) =>
        let (rest, fin) := specLoop cfg ml n init fuel i' ps'
        (evs ++ rest, fin)
    else ([], ps)

def specRun (cfg : Cfg) (ml : Nat → Nat → Option Nat) (n : Nat) : List Ev × List St :=
  match getState cfg.states 0 with
  | none => ([.err 0 none], [])
  | some init => specLoop cfg ml n init n 0 [init]

/-! ### id synchronisation -/

/-- names of the named rules -/
def ruleNames (rules : List Rule) : List Nat := rules.filterMap (·.name)

/-- specification of the two reported sets -/
def MissingFromParser (rules : List Rule) (map : List (Nat × Nat)) (nm : Nat) : Prop :=
  nm ∈ ruleNames rules ∧ nm ∉ map.map (·.1)

def MissingFromLexer (rules : List Rule) (map : List (Nat × Nat)) (nm : Nat) : Prop :=
  nm ∈ map.map (·.1) ∧ nm ∉ ruleNames rules

/-- executable version for the `S` line -/
def specMissingFromParser (rules : List Rule) (map : List (Nat × Nat)) : List (Nat × (Nat × Nat)) :=
  rules.filterMap (fun r => match r.name with
    | some nm => if (map.map (·.1)).contains nm then none else some (nm, r.span)
    | none => none)

def specMissingFromLexer (rules : List Rule) (map : List (Nat × Nat)) : List Nat :=
  (map.map (·.1)).filter (fun k => !(ruleNames rules).contains k)

/-- ids after synchronisation: a named rule gets the id of its name, or none -/
def specIds (rules : List Rule) (map : List (Nat × Nat)) : List (Option Nat) :=
  rules.map (fun r => match r.name with
    | some nm => map.lookup nm
    | none => r.tokId)

end GrmVerif.Lex
