import GrmVerif.Model.Recover
/-! The reference enumeration of repairs is exactly the declarative search relation. -/
namespace GrmVerif.Rec
open GrmVerif LR

/-- `Search n k seq`: `seq` is the complete repair sequence of a success node reachable from `n`
through non-success nodes at a further cost of exactly `k` (one lexeme shifted per forward move, no
insert directly after a delete, end-of-input never inserted, zero-cost edits not considered) -/
inductive Search (G : Grammar) (A : Automaton) (w : List Nat) (cost : Nat → Nat) (N : Nat) :
    Node → Nat → List Repair → Prop
  | done (n : Node) : isSuccess G A w N n = true → Search G A w cost N n 0 n.rev.reverse
  | shift (n : Node) (c' : Pos) (k : Nat) (seq : List Repair) :
      isSuccess G A w N n = false → applyRepair G A w n.c .shift = some c' →
      Search G A w cost N ⟨c', .shift :: n.rev, n.trail + 1⟩ k seq → Search G A w cost N n k seq
  | insert (n : Node) (t : Nat) (c' : Pos) (k : Nat) (seq : List Repair) :
      isSuccess G A w N n = false → n.rev.head? ≠ some .delete → t < G.ntoks → t ≠ G.eof → cost t ≠ 0 →
      applyRepair G A w n.c (.insert t) = some c' →
      Search G A w cost N ⟨c', .insert t :: n.rev, 0⟩ k seq → Search G A w cost N n (k + cost t) seq
  | delete (n : Node) (t : Nat) (k : Nat) (seq : List Repair) :
      isSuccess G A w N n = false → w[n.c.pos]? = some t → cost t ≠ 0 →
      Search G A w cost N ⟨⟨n.c.stack, n.c.pos + 1⟩, .delete :: n.rev, 0⟩ k seq →
      Search G A w cost N n (k + cost t) seq

theorem applyRepair_shift_pos {G : Grammar} {A : Automaton} {w : List Nat} {c c' : Pos}
    (h : applyRepair G A w c .shift = some c') : c'.pos = c.pos + 1 ∧ c.pos < w.length := by
  simp only [applyRepair] at h
  cases hw : w[c.pos]? with
  | none => rw [hw] at h; cases h
  | some t =>
    rw [hw] at h
    simp only at h
    have hlt : c.pos < w.length := (List.getElem?_eq_some_iff.mp hw).1
    cases hf : feed G A t FUEL c.stack with
    | shifted s => rw [hf] at h; injection h with h; subst h; exact ⟨rfl, hlt⟩
    | accept s => rw [hf] at h; cases h
    | error s => rw [hf] at h; cases h
    | crash => rw [hf] at h; cases h
    | fuelOut => rw [hf] at h; cases h

theorem enumerate_sound (G : Grammar) (A : Automaton) (w : List Nat) (cost : Nat → Nat) (N : Nat) :
    ∀ (fuel c : Nat) (n : Node) (seq : List Repair), seq ∈ enumerate G A w cost N fuel c n →
      Search G A w cost N n c seq := by
  intro fuel
  induction fuel with
  | zero => intro c n seq h; simp [enumerate] at h
  | succ f ih =>
    intro c n seq h
    simp only [enumerate] at h
    by_cases hs : isSuccess G A w N n = true
    · rw [if_pos hs] at h
      by_cases hc : c = 0
      · subst hc; simp at h; subst h; exact .done n hs
      · simp [hc] at h
    · rw [if_neg hs] at h
      have hs' : isSuccess G A w N n = false := by simpa using hs
      simp only [List.mem_append] at h
      rcases h with (h | h) | h
      · -- shift
        cases ha : applyRepair G A w n.c .shift with
        | none => rw [ha] at h; cases h
        | some c' => rw [ha] at h; exact .shift n c' c seq hs' ha (ih _ _ _ h)
      · -- insert
        by_cases hd : (n.rev.head? == some Repair.delete) = true
        · rw [if_pos hd] at h; cases h
        · rw [if_neg hd] at h
          simp only [List.mem_flatMap, List.mem_range] at h
          obtain ⟨t, ht, h⟩ := h
          by_cases hx : (t == G.eof || cost t == 0 || decide (cost t > c)) = true
          · rw [if_pos hx] at h; cases h
          · rw [if_neg hx] at h
            simp only [Bool.or_eq_true, beq_iff_eq, decide_eq_true_eq, not_or] at hx
            cases ha : applyRepair G A w n.c (.insert t) with
            | none => rw [ha] at h; cases h
            | some c' =>
              rw [ha] at h
              have := ih _ _ _ h
              have hk : c = (c - cost t) + cost t := by omega
              rw [hk]
              exact .insert n t c' _ seq hs' (by simpa using hd) ht hx.1.1 hx.1.2 ha this
      · -- delete
        cases hw : w[n.c.pos]? with
        | none => rw [hw] at h; cases h
        | some t =>
          rw [hw] at h
          simp only at h
          by_cases hx : (cost t == 0 || decide (cost t > c)) = true
          · rw [if_pos hx] at h; cases h
          · rw [if_neg hx] at h
            simp only [Bool.or_eq_true, beq_iff_eq, decide_eq_true_eq, not_or] at hx
            have := ih _ _ _ h
            have hk : c = (c - cost t) + cost t := by omega
            rw [hk]
            exact .delete n t _ seq hs' hw hx.1 this

theorem enumerate_complete (G : Grammar) (A : Automaton) (w : List Nat) (cost : Nat → Nat) (N : Nat) :
    ∀ (n : Node) (c : Nat) (seq : List Repair), Search G A w cost N n c seq →
      ∀ fuel, c + (w.length - n.c.pos) + 1 ≤ fuel → seq ∈ enumerate G A w cost N fuel c n := by
  intro n c seq hs
  induction hs with
  | done n hsucc =>
    intro fuel hf
    obtain ⟨f, rfl⟩ : ∃ f, fuel = f + 1 := ⟨fuel - 1, by omega⟩
    simp [enumerate, hsucc]
  | shift n c' k seq hns ha _ ih =>
    intro fuel hf
    obtain ⟨f, rfl⟩ : ∃ f, fuel = f + 1 := ⟨fuel - 1, by omega⟩
    obtain ⟨hp, hlt⟩ := applyRepair_shift_pos ha
    have := ih f (by simp only [hp]; omega)
    simp only [enumerate, hns, Bool.false_eq_true, ↓reduceIte, ha, List.mem_append]
    exact Or.inl (Or.inl this)
  | insert n t c' k seq hns hnd ht hne hc0 ha _ ih =>
    intro fuel hf
    obtain ⟨f, rfl⟩ : ∃ f, fuel = f + 1 := ⟨fuel - 1, by omega⟩
    have hpos : c'.pos = n.c.pos := by
      simp only [applyRepair] at ha
      cases hfd : feed G A t FUEL n.c.stack with
      | shifted s => rw [hfd] at ha; injection ha with ha; subst ha; rfl
      | accept s => rw [hfd] at ha; cases ha
      | error s => rw [hfd] at ha; cases ha
      | crash => rw [hfd] at ha; cases ha
      | fuelOut => rw [hfd] at ha; cases ha
    have hcpos : 0 < cost t := Nat.pos_of_ne_zero hc0
    have := ih f (by simp only [hpos]; omega)
    simp only [enumerate, hns, Bool.false_eq_true, ↓reduceIte, List.mem_append]
    refine Or.inl (Or.inr ?_)
    have hd : ¬ (n.rev.head? == some Repair.delete) = true := by simpa using hnd
    rw [if_neg hd]
    simp only [List.mem_flatMap, List.mem_range]
    refine ⟨t, ht, ?_⟩
    have hx : ¬ (t == G.eof || cost t == 0 || decide (cost t > k + cost t)) = true := by
      simp only [Bool.or_eq_true, beq_iff_eq, decide_eq_true_eq, not_or]
      exact ⟨⟨hne, hc0⟩, by omega⟩
    rw [if_neg hx, ha]
    simpa using this
  | delete n t k seq hns hw hc0 _ ih =>
    intro fuel hf
    obtain ⟨f, rfl⟩ : ∃ f, fuel = f + 1 := ⟨fuel - 1, by omega⟩
    have hlt : n.c.pos < w.length := (List.getElem?_eq_some_iff.mp hw).1
    have hcpos : 0 < cost t := Nat.pos_of_ne_zero hc0
    have := ih f (by simp only; omega)
    simp only [enumerate, hns, Bool.false_eq_true, ↓reduceIte, List.mem_append, hw]
    refine Or.inr ?_
    have hx : ¬ (cost t == 0 || decide (cost t > k + cost t)) = true := by
      simp only [Bool.or_eq_true, beq_iff_eq, decide_eq_true_eq, not_or]
      exact ⟨hc0, by omega⟩
    rw [if_neg hx]
    simpa using this

/-- what a found sequence is: the node's history followed by a suffix that applies from the node,
costs exactly the search cost, never inserts end-of-input, and ends in a success node -/
theorem search_applies (G : Grammar) (A : Automaton) (w : List Nat) (cost : Nat → Nat) (N : Nat) :
    ∀ (n : Node) (k : Nat) (seq : List Repair), Search G A w cost N n k seq →
      ∃ suffix cf, seq = n.rev.reverse ++ suffix ∧ applySeq G A w n.c suffix = some cf ∧
        seqCost w cost n.c.pos suffix = k ∧ Repair.insert G.eof ∉ suffix ∧
        ∃ m : Node, m.c = cf ∧ m.rev.reverse = seq ∧ isSuccess G A w N m = true := by
  intro n k seq hs
  induction hs with
  | done n hsucc => exact ⟨[], n.c, by simp, rfl, rfl, by simp, n, rfl, rfl, hsucc⟩
  | shift n c' k seq _ ha _ ih =>
    obtain ⟨suf, cf, h1, h2, h3, h4, h5⟩ := ih
    obtain ⟨hp, _⟩ := applyRepair_shift_pos ha
    refine ⟨.shift :: suf, cf, by simpa using h1, by simp [applySeq, ha, h2], ?_, by simpa using h4, h5⟩
    simp only at h3
    simp [seqCost, ← hp, h3]
  | insert n t c' k seq _ _ _ hne _ ha _ ih =>
    obtain ⟨suf, cf, h1, h2, h3, h4, h5⟩ := ih
    have hpos : c'.pos = n.c.pos := by
      simp only [applyRepair] at ha
      cases hfd : feed G A t FUEL n.c.stack with
      | shifted s => rw [hfd] at ha; injection ha with ha; subst ha; rfl
      | accept s => rw [hfd] at ha; cases ha
      | error s => rw [hfd] at ha; cases ha
      | crash => rw [hfd] at ha; cases ha
      | fuelOut => rw [hfd] at ha; cases ha
    refine ⟨.insert t :: suf, cf, by simpa using h1, by simp [applySeq, ha, h2], ?_, ?_, h5⟩
    · simp only at h3; simp [seqCost, ← hpos, h3, Nat.add_comm]
    · simp only [List.mem_cons, not_or]; exact ⟨by intro e; injection e with e; exact hne e.symm, h4⟩
  | delete n t k seq _ hw _ _ ih =>
    obtain ⟨suf, cf, h1, h2, h3, h4, h5⟩ := ih
    have hlt : n.c.pos < w.length := (List.getElem?_eq_some_iff.mp hw).1
    refine ⟨.delete :: suf, cf, by simpa using h1, by simp [applySeq, applyRepair, hlt, h2], ?_, by simpa using h4, h5⟩
    simp only at h3
    simp [seqCost, hw, h3, Nat.add_comm]

theorem mem_dedup (l : List (List Repair)) (x : List Repair) : x ∈ dedup l ↔ x ∈ l := by
  induction l with
  | nil => simp [dedup]
  | cons a as ih =>
    simp only [dedup]
    split
    · next hm =>
      rw [ih]
      constructor
      · intro h; exact List.mem_cons_of_mem _ h
      · intro h
        rcases List.mem_cons.mp h with rfl | h
        · exact ih.mp hm
        · exact h
    · simp [ih]

theorem nodup_dedup (l : List (List Repair)) : (dedup l).Nodup := by
  induction l with
  | nil => simp [dedup]
  | cons a as ih =>
    simp only [dedup]
    split
    · exact ih
    · next hm => exact List.nodup_cons.mpr ⟨hm, ih⟩

end GrmVerif.Rec
