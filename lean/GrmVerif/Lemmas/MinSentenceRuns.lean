import GrmVerif.Lemmas.MinSentenceImpl
/-! The `while` loop of `min_sentence` as a big-step relation: `Runs l k out` = the frames needed for the
symbols `l` take `k` iterations and append `out` to the sentence. A run of the loop that ends decomposes
into such pieces (`runs_of_done`), and such pieces compose into a run (`runs_compose`). -/
namespace GrmVerif.Impl
open GrmVerif Spec Ref

theorem msScan_toks : ∀ (pre : List Nat) (sidx : Nat) (s : List Nat),
    msScan (pre.map Sym.tok) sidx s = (s ++ pre, none) := by
  intro pre
  induction pre with
  | nil => intro sidx s; simp [msScan]
  | cons t pre ih => intro sidx s; simp [msScan, ih]

theorem msScan_rule : ∀ (pre : List Nat) (q : Nat) (rest : List Sym) (sidx : Nat) (s : List Nat),
    msScan (pre.map Sym.tok ++ Sym.rule q :: rest) sidx s = (s ++ pre, some (q, sidx + pre.length + 1)) := by
  intro pre
  induction pre with
  | nil => intro q rest sidx s; simp [msScan]
  | cons t pre ih =>
    intro q rest sidx s
    simp only [List.map_cons, List.cons_append, msScan, ih, List.length_cons, List.append_assoc,
      List.nil_append]
    congr 3; omega

/-- a list of symbols is all tokens, or tokens up to a first rule -/
theorem split_first_rule : ∀ l : List Sym,
    (∃ pre : List Nat, l = pre.map Sym.tok) ∨
    (∃ (pre : List Nat) (q : Nat) (rest : List Sym), l = pre.map Sym.tok ++ Sym.rule q :: rest) := by
  intro l
  induction l with
  | nil => exact Or.inl ⟨[], rfl⟩
  | cons s rest ih =>
    cases s with
    | rule q => exact Or.inr ⟨[], q, rest, rfl⟩
    | tok t =>
      rcases ih with ⟨pre, e⟩ | ⟨pre, q, r, e⟩
      · exact Or.inl ⟨t :: pre, by simp [e]⟩
      · exact Or.inr ⟨t :: pre, q, r, by simp [e]⟩

theorem drop_after_rule {l : List Sym} {i : Nat} {pre : List Nat} {q : Nat} {rest : List Sym}
    (e : l.drop i = pre.map Sym.tok ++ Sym.rule q :: rest) : l.drop (i + pre.length + 1) = rest := by
  have : l.drop (i + (pre.length + 1)) = (l.drop i).drop (pre.length + 1) := by rw [List.drop_drop]
  rw [Nat.add_assoc, this, e]
  have : (pre.map Sym.tok ++ Sym.rule q :: rest) = (pre.map Sym.tok ++ [Sym.rule q]) ++ rest := by simp
  rw [this, List.drop_left' (by simp)]

/-- the frames needed for the symbols `l` take `k` iterations of the loop and append `out` -/
inductive Runs (G : Grammar) (tc : List Nat) (mc : Option (List Nat)) : List Sym → Nat → List Nat → Prop
  | toks (pre : List Nat) : Runs G tc mc (pre.map Sym.tok) 1 pre
  | rule (pre : List Nat) (q : Nat) (rest : List Sym) (cp k1 : Nat) (o1 : List Nat) (k2 : Nat) (o2 : List Nat) :
      cheapestProd G tc mc q = some cp → Runs G tc mc (G.rhs cp) k1 o1 → Runs G tc mc rest k2 o2 →
      Runs G tc mc (pre.map Sym.tok ++ Sym.rule q :: rest) (1 + k1 + k2) (pre ++ o1 ++ o2)

theorem runs_compose {G : Grammar} {tc : List Nat} {mc : Option (List Nat)} {l : List Sym} {k : Nat}
    {out : List Nat} (h : Runs G tc mc l k out) :
    ∀ (p i : Nat), (G.rhs p).drop i = l → ∀ (fuel : Nat) (s : List Nat) (st : List (Nat × Nat)),
      msLoop G tc mc (k + fuel) s ((p, i) :: st) = msLoop G tc mc fuel (s ++ out) st := by
  induction h with
  | toks pre =>
    intro p i e fuel s st
    rw [Nat.add_comm 1 fuel]
    simp only [msLoop, e, msScan_toks]
  | rule pre q rest cp k1 o1 k2 o2 hcp _ _ ih1 ih2 =>
    intro p i e fuel s st
    have : 1 + k1 + k2 + fuel = (k1 + (k2 + fuel)) + 1 := by omega
    rw [this]
    simp only [msLoop, e, msScan_rule, hcp]
    rw [ih1 cp 0 (by simp) (k2 + fuel) (s ++ pre) _]
    rw [ih2 p (i + pre.length + 1) (drop_after_rule e) fuel _ st]
    simp [List.append_assoc]

theorem runs_of_done (G : Grammar) (tc : List Nat) (mc : Option (List Nat)) :
    ∀ (fuel : Nat) (s : List Nat) (p i : Nat) (st : List (Nat × Nat)) (w : List Nat),
      msLoop G tc mc fuel s ((p, i) :: st) = .done w →
      ∃ k out, Runs G tc mc ((G.rhs p).drop i) k out ∧ k ≤ fuel ∧
        msLoop G tc mc (fuel - k) (s ++ out) st = .done w := by
  intro fuel
  induction fuel using Nat.strongRecOn with
  | _ fuel ih =>
    intro s p i st w h
    cases fuel with
    | zero => simp [msLoop] at h
    | succ f =>
      simp only [msLoop] at h
      rcases split_first_rule ((G.rhs p).drop i) with ⟨pre, e⟩ | ⟨pre, q, rest, e⟩
      · rw [e, msScan_toks] at h
        simp only [] at h
        refine ⟨1, pre, by rw [e]; exact .toks pre, by omega, ?_⟩
        simpa using h
      · rw [e, msScan_rule] at h
        simp only [] at h
        cases hcp : cheapestProd G tc mc q with
        | none => rw [hcp] at h; cases h
        | some cp =>
          rw [hcp] at h
          simp only [] at h
          obtain ⟨k1, o1, hr1, hk1, h1⟩ := ih f (by omega) _ cp 0 _ w h
          obtain ⟨k2, o2, hr2, hk2, h2⟩ := ih (f - k1) (by omega) _ p (i + pre.length + 1) st w h1
          rw [drop_after_rule e] at hr2
          simp only [List.drop_zero] at hr1
          refine ⟨1 + k1 + k2, pre ++ o1 ++ o2, by rw [e]; exact .rule pre q rest cp k1 o1 k2 o2 hcp hr1 hr2,
            by omega, ?_⟩
          have : f + 1 - (1 + k1 + k2) = f - k1 - k2 := by omega
          rw [this]
          simpa [List.append_assoc] using h2

/-- a run through `l` contains a strictly shorter run through the cheapest production of every rule of
`l` -/
theorem runs_sub {G : Grammar} {tc : List Nat} {mc : Option (List Nat)} {l : List Sym} {k : Nat}
    {out : List Nat} (h : Runs G tc mc l k out) :
    ∀ q', Sym.rule q' ∈ l → ∃ cp k' out', cheapestProd G tc mc q' = some cp ∧
      Runs G tc mc (G.rhs cp) k' out' ∧ k' < k := by
  induction h with
  | toks pre =>
    intro q' hq'
    simp at hq'
  | rule pre q rest cp k1 o1 k2 o2 hcp hr1 _ _ ih2 =>
    intro q' hq'
    simp only [List.mem_append, List.mem_map, List.mem_cons] at hq'
    rcases hq' with ⟨_, _, h⟩ | h | h
    · cases h
    · cases h
      exact ⟨cp, k1, o1, hcp, hr1, by omega⟩
    · obtain ⟨cp', k', out', h1, h2, h3⟩ := ih2 q' h
      exact ⟨cp', k', out', h1, h2, by omega⟩

end GrmVerif.Impl
