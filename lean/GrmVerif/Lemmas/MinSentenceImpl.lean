import GrmVerif.Lemmas.MaxCostsScan
/-! The model of `SentenceGenerator::min_sentence` (`Impl.minSentenceWith`): `cheapest_prod` returns a
production whose cost is the minimal cost of its rule, and whenever the `while` loop ends the sentence it
has built is derived by the rule and has the rule's minimal cost. -/
namespace GrmVerif.Impl
open GrmVerif Spec Ref

/-! ### the vector behind `min_sentence_cost` -/

theorem cget_concr (m : List (Option Nat)) (q : Nat) (hq : q < m.length) :
    cget (concr m) q = (look m q).getD U16MAX := by
  unfold cget concr look
  rw [List.getD_eq_getElem?_getD, List.getElem?_map, List.getElem?_eq_getElem hq]
  simp

theorem concr_get (m : List (Option Nat)) (q : Nat) (hq : q < m.length) :
    (concr m)[q]? = some (cget (concr m) q) := by
  have : q < (concr m).length := by simpa [concr] using hq
  unfold cget
  rw [List.getD_eq_getElem?_getD, List.getElem?_eq_getElem this]; rfl

/-- a sequence all of whose rules have a cost: its cost is the sum over the vector -/
theorem seqCost_of_all (G : Grammar) (tc : Nat → Nat) (m : List (Option Nat)) (hlen : m.length = G.nrules) :
    ∀ l : List Sym, (∀ s ∈ l, G.symOk s = true) → (∀ q, Sym.rule q ∈ l → ∃ x, look m q = some x) →
      seqCost tc (look m) l = some (curSum tc (cget (concr m)) l) := by
  intro l
  induction l with
  | nil => intro _ _; rfl
  | cons s rest ih =>
    intro hok hall
    have ih' := ih (fun x hx => hok x (List.mem_cons_of_mem _ hx)) (fun q hq => hall q (List.mem_cons_of_mem _ hq))
    cases s with
    | tok t => simp [seqCost, symCost, curSum, ih', addO]
    | rule q =>
      have hq : q < m.length := by
        have := hok (.rule q) (by simp)
        rw [hlen]; simpa [Grammar.symOk] using this
      obtain ⟨x, hx⟩ := hall q (by simp)
      simp [seqCost, symCost, curSum, ih', addO, cget_concr m q hq, hx]

/-- if the sum over the vector is below `u16::MAX`, every rule of the sequence has a cost -/
theorem all_of_curSum_lt (G : Grammar) (tc : Nat → Nat) (m : List (Option Nat)) (hlen : m.length = G.nrules) :
    ∀ l : List Sym, (∀ s ∈ l, G.symOk s = true) → curSum tc (cget (concr m)) l < U16MAX →
      ∀ q, Sym.rule q ∈ l → ∃ x, look m q = some x := by
  intro l
  induction l with
  | nil => intro _ _ q hq; cases hq
  | cons s rest ih =>
    intro hok hlt q hq
    have hok' : ∀ s ∈ rest, G.symOk s = true := fun x hx => hok x (List.mem_cons_of_mem _ hx)
    cases s with
    | tok t =>
      simp only [curSum] at hlt
      rcases List.mem_cons.mp hq with e | hq
      · cases e
      · exact ih hok' (by omega) q hq
    | rule q0 =>
      simp only [curSum] at hlt
      rcases List.mem_cons.mp hq with e | hq
      · cases e
        have hq' : q < m.length := by
          have := hok (.rule q) (by simp)
          rw [hlen]; simpa [Grammar.symOk] using this
        rw [cget_concr m q hq'] at hlt
        cases hl : look m q with
        | some x => exact ⟨x, rfl⟩
        | none => rw [hl] at hlt; simp at hlt; omega
      · exact ih hok' (by omega) q hq

/-! ### `cheapest_prod` -/

theorem satAdd_eq (a b : Nat) : satAdd a b = min (a + b) U16MAX := by
  unfold satAdd
  split
  · omega
  · omega

theorem cpSyms_spec (G : Grammar) (tc : List Nat) (m : List (Option Nat)) (htc : tc.length = G.ntoks)
    (hlen : m.length = G.nrules) :
    ∀ (l : List Sym) (acc : Nat), (∀ s ∈ l, G.symOk s = true) → acc ≤ U16MAX →
      cpSyms tc (some (concr m)) l acc = some (min (acc + curSum (tcF tc) (cget (concr m)) l) U16MAX) := by
  intro l
  induction l with
  | nil => intro acc _ h; simp only [cpSyms, curSum]; congr 1; omega
  | cons s rest ih =>
    intro acc hok hacc
    have hok' : ∀ s ∈ rest, G.symOk s = true := fun x hx => hok x (List.mem_cons_of_mem _ hx)
    cases s with
    | tok t =>
      have ht : t < tc.length := by
        have := hok (.tok t) (by simp)
        simpa [Grammar.symOk, htc] using this
      simp only [cpSyms, tc_get ht, curSum]
      rw [ih _ hok' (by rw [satAdd_eq]; omega), satAdd_eq]
      congr 1; omega
    | rule q =>
      have hq : q < m.length := by
        have := hok (.rule q) (by simp)
        rw [hlen]; simpa [Grammar.symOk] using this
      simp only [cpSyms, concr_get m q hq, curSum]
      rw [ih _ hok' (by rw [satAdd_eq]; omega), satAdd_eq]
      congr 1; omega

/-- the saturated cost `cheapest_prod` computes for production `p` -/
def satCost (G : Grammar) (tc : List Nat) (m : List (Option Nat)) (p : Nat) : Nat :=
  min (curSum (tcF tc) (cget (concr m)) (G.rhs p)) U16MAX

theorem cpProds_spec (G : Grammar) (hwf : G.wf = true) (tc : List Nat) (m : List (Option Nat))
    (htc : tc.length = G.ntoks) (hlen : m.length = G.nrules) :
    ∀ (ps : List Nat) (lo li : Option Nat), (∀ p ∈ ps, p < G.nprods) →
      ∃ lo' li', iterM (cpProd G tc (some (concr m))) ps (lo, li) = some (lo', li') ∧
        (∀ v, lo = some v → ∃ v', lo' = some v' ∧ v' ≤ v) ∧
        (∀ p ∈ ps, ∃ v', lo' = some v' ∧ v' ≤ satCost G tc m p) ∧
        ((lo' = lo ∧ li' = li) ∨ ∃ p ∈ ps, li' = some p ∧ lo' = some (satCost G tc m p)) := by
  intro ps
  induction ps with
  | nil =>
    intro lo li _
    exact ⟨lo, li, rfl, fun v h => ⟨v, h, Nat.le_refl _⟩, (by intro p hp; cases hp), Or.inl ⟨rfl, rfl⟩⟩
  | cons p ps ih =>
    intro lo li hall
    have hp := hall p (by simp)
    have hrest : ∀ q ∈ ps, q < G.nprods := fun q hq => hall q (List.mem_cons_of_mem _ hq)
    have hsc := cpSyms_spec G tc m htc hlen (G.rhs p) 0 (fun s hs => wf_sym hwf hp hs) (Nat.zero_le _)
    simp only [Nat.zero_add] at hsc
    have hsc' : cpSyms tc (some (concr m)) (G.rhs p) 0 = some (satCost G tc m p) := hsc
    simp only [iterM, cpProd, hsc']
    cases hlt : ltO (satCost G tc m p) lo with
    | true =>
      simp only [if_true]
      obtain ⟨lo', li', hr, h1, h2, h3⟩ := ih (some (satCost G tc m p)) (some p) hrest
      obtain ⟨v0, hv0, hle0⟩ := h1 _ rfl
      refine ⟨lo', li', hr, ?_, ?_, ?_⟩
      · intro v hv
        subst hv
        simp only [ltO, decide_eq_true_eq] at hlt
        exact ⟨v0, hv0, by omega⟩
      · intro q hq
        rcases List.mem_cons.mp hq with rfl | hq
        · exact ⟨v0, hv0, hle0⟩
        · exact h2 q hq
      · right
        rcases h3 with ⟨e1, e2⟩ | ⟨q, hq, e1, e2⟩
        · exact ⟨p, by simp, e2, e1⟩
        · exact ⟨q, List.mem_cons_of_mem _ hq, e1, e2⟩
    | false =>
      simp only [Bool.false_eq_true, if_false]
      obtain ⟨lo', li', hr, h1, h2, h3⟩ := ih lo li hrest
      have hlo : ∃ b, lo = some b ∧ b ≤ satCost G tc m p := by
        cases lo with
        | none => simp [ltO] at hlt
        | some b => exact ⟨b, rfl, by simpa [ltO] using hlt⟩
      obtain ⟨b, hb, hble⟩ := hlo
      refine ⟨lo', li', hr, h1, ?_, ?_⟩
      · intro q hq
        rcases List.mem_cons.mp hq with rfl | hq
        · obtain ⟨v', hv', hle'⟩ := h1 b hb
          exact ⟨v', hv', by omega⟩
        · exact h2 q hq
      · rcases h3 with h3 | ⟨q, hq, e1, e2⟩
        · exact Or.inl h3
        · exact Or.inr ⟨q, List.mem_cons_of_mem _ hq, e1, e2⟩

/-- **`cheapest_prod` returns a cheapest production**: for a rule whose minimal cost `x` is below
`u16::MAX` it returns a production of the rule whose cost, with every rule at its minimal cost, is `x` -/
theorem cheapestProd_tight (G : Grammar) (hwf : G.wf = true) (tc : List Nat) (m : List (Option Nat))
    (htc : tc.length = G.ntoks) (hmt : MinTable G (tcF tc) m) {q x : Nat} (hq : q < G.nrules)
    (hx : look m q = some x) (hlt : x < U16MAX) :
    ∃ cp, cheapestProd G tc (some (concr m)) q = some cp ∧ cp ∈ G.prodsOf q ∧
      seqCost (tcF tc) (look m) (G.rhs cp) = some x := by
  have hps : ∀ p ∈ G.prodsOf q, p < G.nprods := fun p hp => (mem_prodsOf.mp hp).1
  obtain ⟨lo', li', hr, _, h2, h3⟩ := cpProds_spec G hwf tc m htc hmt.len (G.prodsOf q) none none hps
  -- a production of cost `x` exists
  have hfix := hmt.fix q hq
  rw [hx] at hfix
  obtain ⟨pt, hpt, hptc⟩ := ruleCost_attained hfix.symm
  have hpt1 := (mem_prodsOf.mp hpt).1
  have hsat_pt : satCost G tc m pt = x := by
    have hall : ∀ q', Sym.rule q' ∈ G.rhs pt → ∃ y, look m q' = some y := by
      intro q' hq'
      obtain ⟨y, hy, _⟩ := seqCost_mem _ x hptc q' hq'
      exact ⟨y, hy⟩
    have := seqCost_of_all G (tcF tc) m hmt.len (G.rhs pt) (fun s hs => wf_sym hwf hpt1 hs) hall
    rw [hptc] at this
    simp only [Option.some.injEq] at this
    unfold satCost
    rw [← this]; omega
  obtain ⟨v', hv', hle'⟩ := h2 pt hpt
  rcases h3 with ⟨e1, _⟩ | ⟨cp, hcp, e1, e2⟩
  · rw [e1] at hv'; cases hv'
  · refine ⟨cp, by simp [cheapestProd, hr, e1], hcp, ?_⟩
    have hcp1 := (mem_prodsOf.mp hcp).1
    rw [e2] at hv'
    simp only [Option.some.injEq] at hv'
    have hsat : satCost G tc m cp ≤ x := by omega
    have hcur : curSum (tcF tc) (cget (concr m)) (G.rhs cp) ≤ x := by
      unfold satCost at hsat; omega
    have hok : ∀ s ∈ G.rhs cp, G.symOk s = true := fun s hs => wf_sym hwf hcp1 hs
    have hall := all_of_curSum_lt G (tcF tc) m hmt.len (G.rhs cp) hok (by omega)
    have hsc := seqCost_of_all G (tcF tc) m hmt.len (G.rhs cp) hok hall
    have hge := ruleCost_le (G := G) (tc := tcF tc) (c := look m) hcp
    rw [← hmt.fix q hq, hx, hsc] at hge
    simp only [leO] at hge
    rw [hsc]
    congr 1; omega

/-! ### the `while` loop -/

theorem derivesSeq_toks (G : Grammar) : ∀ pre : List Nat, DerivesSeq G (pre.map Sym.tok) pre := by
  intro pre
  induction pre with
  | nil => exact .nil
  | cons t pre ih => exact .cons (.tok t) _ [t] pre (.tok t) ih

theorem derivesSeq_append {G : Grammar} {l1 l2 : List Sym} {w1 w2 : List Nat} (h1 : DerivesSeq G l1 w1)
    (h2 : DerivesSeq G l2 w2) : DerivesSeq G (l1 ++ l2) (w1 ++ w2) := by
  induction l1 generalizing w1 with
  | nil => cases h1; simpa using h2
  | cons s rest ih =>
    cases h1 with
    | cons _ _ wa wb ha hb =>
      rw [List.cons_append, List.append_assoc]
      exact .cons s _ wa _ ha (ih hb)

/-- what the scan of the rest of a production finds -/
theorem msScan_spec : ∀ (l : List Sym) (sidx : Nat) (s : List Nat),
    (∃ pre, l = pre.map Sym.tok ∧ msScan l sidx s = (s ++ pre, none)) ∨
    (∃ pre q rest, l = pre.map Sym.tok ++ Sym.rule q :: rest ∧
      msScan l sidx s = (s ++ pre, some (q, sidx + pre.length + 1))) := by
  intro l
  induction l with
  | nil => intro sidx s; exact Or.inl ⟨[], rfl, by simp [msScan]⟩
  | cons sym rest ih =>
    intro sidx s
    cases sym with
    | tok t =>
      rcases ih (sidx + 1) (s ++ [t]) with ⟨pre, e, h⟩ | ⟨pre, q, r, e, h⟩
      · exact Or.inl ⟨t :: pre, by simp [e], by simp [msScan, h]⟩
      · refine Or.inr ⟨t :: pre, q, r, by simp [e], ?_⟩
        simp only [msScan, h, List.length_cons, List.append_assoc, List.cons_append, List.nil_append]
        congr 3; omega
    | rule q => exact Or.inr ⟨[], q, rest, rfl, by simp [msScan]⟩

theorem seqCost_append (tc : Nat → Nat) (c : Nat → Option Nat) (l1 l2 : List Sym) :
    seqCost tc c (l1 ++ l2) = addO (seqCost tc c l1) (seqCost tc c l2) := by
  induction l1 with
  | nil => simp only [List.nil_append, seqCost]; cases seqCost tc c l2 <;> simp [addO]
  | cons s rest ih =>
    simp only [List.cons_append, seqCost, ih]
    cases symCost tc c s <;> cases seqCost tc c rest <;> cases seqCost tc c l2 <;> simp [addO, Nat.add_assoc]

theorem seqCost_toks (tc : Nat → Nat) (c : Nat → Option Nat) (pre : List Nat) :
    seqCost tc c (pre.map Sym.tok) = some (cost tc pre) := by
  induction pre with
  | nil => rfl
  | cons t pre ih => simp [seqCost, symCost, ih, addO, cost]

/-- the sentences the frames of the stack still have to produce, with their cost -/
inductive StackDer (G : Grammar) (tc : Nat → Nat) (c : Nat → Option Nat) : List (Nat × Nat) → List Nat → Nat → Prop
  | nil : StackDer G tc c [] [] 0
  | cons (p i : Nat) (st : List (Nat × Nat)) (w1 w2 : List Nat) (c1 c2 : Nat) :
      DerivesSeq G ((G.rhs p).drop i) w1 → seqCost tc c ((G.rhs p).drop i) = some c1 → cost tc w1 = c1 →
      StackDer G tc c st w2 c2 → StackDer G tc c ((p, i) :: st) (w1 ++ w2) (c1 + c2)

/-- a frame whose remaining symbols have a cost below `u16::MAX` -/
def FrameOK (G : Grammar) (tc : Nat → Nat) (m : List (Option Nat)) (f : Nat × Nat) : Prop :=
  f.1 < G.nprods ∧ ∃ c, seqCost tc (look m) ((G.rhs f.1).drop f.2) = some c ∧ c < U16MAX

/-- the outcome is not a panic, and if it is an answer the answer satisfies `P` -/
def Outcome.Sat {α : Type} (P : α → Prop) : Outcome α → Prop
  | .done a => P a
  | .panic => False
  | .fuelOut => True

theorem msLoop_sound (G : Grammar) (hwf : G.wf = true) (tc : List Nat) (m : List (Option Nat))
    (htc : tc.length = G.ntoks) (hmt : MinTable G (tcF tc) m) :
    ∀ (fuel : Nat) (s : List Nat) (st : List (Nat × Nat)), (∀ f ∈ st, FrameOK G (tcF tc) m f) →
      Outcome.Sat (fun w => ∃ ws c, w = s ++ ws ∧ StackDer G (tcF tc) (look m) st ws c)
        (msLoop G tc (some (concr m)) fuel s st) := by
  intro fuel
  induction fuel with
  | zero => intro s st _; simp [msLoop, Outcome.Sat]
  | succ n ih =>
    intro s st hst
    cases st with
    | nil => exact ⟨[], 0, by simp, .nil⟩
    | cons f st =>
      obtain ⟨p, i⟩ := f
      have hrest : ∀ f ∈ st, FrameOK G (tcF tc) m f := fun f hf => hst f (List.mem_cons_of_mem _ hf)
      obtain ⟨hp, c0, hc0, hlt0⟩ := hst (p, i) (by simp)
      simp only at hp hc0
      simp only [msLoop]
      rcases msScan_spec ((G.rhs p).drop i) i s with ⟨pre, e, h⟩ | ⟨pre, q, rest, e, h⟩
      · -- only tokens remain
        rw [h]
        simp only []
        have := ih (s ++ pre) st hrest
        cases hres : msLoop G tc (some (concr m)) n (s ++ pre) st with
        | panic => rw [hres] at this; exact this
        | fuelOut => trivial
        | done w =>
          rw [hres] at this
          obtain ⟨ws, c, hw, hsd⟩ := this
          refine ⟨pre ++ ws, cost (tcF tc) pre + c, by rw [hw, List.append_assoc], ?_⟩
          refine .cons p i st pre ws _ c ?_ ?_ rfl hsd
          · rw [e]; exact derivesSeq_toks G pre
          · rw [e]; exact seqCost_toks _ _ pre
      · -- a rule is met: its cheapest production is pushed
        rw [h]
        simp only []
        have hsplit := hc0
        rw [e, seqCost_append, seqCost_toks] at hsplit
        simp only [seqCost, symCost] at hsplit
        -- costs of the parts
        cases hq : look m q with
        | none => rw [hq] at hsplit; simp [addO] at hsplit
        | some x =>
          cases hr : seqCost (tcF tc) (look m) rest with
          | none => rw [hq, hr] at hsplit; simp [addO] at hsplit
          | some cr =>
            rw [hq, hr] at hsplit
            simp only [addO, Option.some.injEq] at hsplit
            have hqn : q < G.nrules := by
              have hmem : Sym.rule q ∈ G.rhs p := by
                have : Sym.rule q ∈ (G.rhs p).drop i := by rw [e]; simp
                exact List.mem_of_mem_drop this
              simpa [Grammar.symOk] using wf_sym hwf hp hmem
            obtain ⟨cp, hcp, hcpm, hcpc⟩ := cheapestProd_tight G hwf tc m htc hmt hqn hq (by omega)
            rw [hcp]
            simp only []
            have hdrop : (G.rhs p).drop (i + pre.length + 1) = rest := by
              have : (G.rhs p).drop (i + (pre.length + 1)) = ((G.rhs p).drop i).drop (pre.length + 1) := by
                rw [List.drop_drop]
              rw [Nat.add_assoc, this, e]
              have : (pre.map Sym.tok ++ Sym.rule q :: rest) = (pre.map Sym.tok ++ [Sym.rule q]) ++ rest := by simp
              rw [this, List.drop_left' (by simp)]
            have hframes : ∀ f ∈ (cp, 0) :: (p, i + pre.length + 1) :: st, FrameOK G (tcF tc) m f := by
              intro f hf
              rcases List.mem_cons.mp hf with rfl | hf
              · exact ⟨(mem_prodsOf.mp hcpm).1, x, by simpa using hcpc, by omega⟩
              · rcases List.mem_cons.mp hf with rfl | hf
                · exact ⟨hp, cr, by simp only; rw [hdrop]; exact hr, by omega⟩
                · exact hrest f hf
            have := ih (s ++ pre) _ hframes
            cases hres : msLoop G tc (some (concr m)) n (s ++ pre) ((cp, 0) :: (p, i + pre.length + 1) :: st) with
            | panic => rw [hres] at this; exact this
            | fuelOut => trivial
            | done w =>
              rw [hres] at this
              obtain ⟨ws, c, hw, hsd⟩ := this
              cases hsd with
              | cons _ _ _ wq ws2 cq c2 hdq hcq hcostq hsd2 =>
                cases hsd2 with
                | cons _ _ _ wr ws3 cr' c3 hdr hcr hcostr hsd3 =>
                  simp only [List.drop_zero] at hdq hcq
                  rw [hdrop] at hdr hcr
                  rw [hcpc] at hcq
                  rw [hr] at hcr
                  simp only [Option.some.injEq] at hcq hcr
                  refine ⟨(pre ++ wq ++ wr) ++ ws3, c0 + c3, by rw [hw]; simp [List.append_assoc], ?_⟩
                  refine .cons p i st _ ws3 c0 c3 ?_ hc0 ?_ hsd3
                  · rw [e]
                    rw [List.append_assoc]
                    apply derivesSeq_append (derivesSeq_toks G pre)
                    have hder : Derives G (.rule q) wq := by
                      have := (mem_prodsOf.mp hcpm)
                      rw [← this.2]
                      exact .rule cp wq this.1 hdq
                    exact .cons _ _ wq wr hder hdr
                  · rw [cost_append, cost_append, hcostq, hcostr]; omega

/-- **what `min_sentence` returns**: if the model of the loop ends, the sentence is derived by the rule
and costs the rule's minimal cost; the model never panics -/
theorem minSentenceWith_sound (G : Grammar) (hwf : G.wf = true) (tc : List Nat) (m : List (Option Nat))
    (htc : tc.length = G.ntoks) (hmt : MinTable G (tcF tc) m) {r x : Nat} (hr : r < G.nrules)
    (hx : look m r = some x) (hlt : x < U16MAX) (fuel : Nat) :
    Outcome.Sat (fun w => Derives G (.rule r) w ∧ cost (tcF tc) w = x)
      (minSentenceWith G tc (some (concr m)) r fuel) := by
  obtain ⟨cp, hcp, hcpm, hcpc⟩ := cheapestProd_tight G hwf tc m htc hmt hr hx hlt
  unfold minSentenceWith
  rw [hcp]
  simp only []
  have := msLoop_sound G hwf tc m htc hmt fuel [] [(cp, 0)] (by
    intro f hf
    simp only [List.mem_singleton] at hf
    subst hf
    exact ⟨(mem_prodsOf.mp hcpm).1, x, by simpa using hcpc, hlt⟩)
  cases hres : msLoop G tc (some (concr m)) fuel [] [(cp, 0)] with
  | panic => rw [hres] at this; exact this
  | fuelOut => trivial
  | done w =>
    rw [hres] at this
    obtain ⟨ws, c, hw, hsd⟩ := this
    cases hsd with
    | cons _ _ _ w1 w2 c1 c2 hd hc hcost hsd2 =>
      cases hsd2
      simp only [List.drop_zero] at hd hc
      rw [hcpc] at hc
      simp only [Option.some.injEq] at hc
      simp only [List.nil_append, List.append_nil] at hw
      subst hw
      have hpm := mem_prodsOf.mp hcpm
      refine ⟨?_, by rw [hcost, hc]⟩
      rw [← hpm.2]
      exact .rule cp _ hpm.1 hd

end GrmVerif.Impl
