import GrmVerif.Lemmas.Newline4
/-! Line/column of a boundary and the line bounds of a span, on a text given as
`a ++ cur ++ post` (C19; used by `Props/C19.lean` and by the pretty-printer lemmas). -/
namespace GrmVerif.Newline

/-- proof of `C19.line_col_spec` -/
theorem byteToLineCol_decomp (a cur post : List Char)
    (ha : a = [] ∨ a.getLast? = some '\n') (hcur : '\n' ∉ cur) :
    byteToLineCol (ofText (a ++ cur ++ post)) (a ++ cur ++ post) (byteLen (a ++ cur))
      = some (some (1 + a.count '\n', colOf cur post)) := by
  have hlen := feedLen_ofText (a ++ cur ++ post)
  have hb : byteLen (a ++ cur) ≤ byteLen (a ++ cur ++ post) := by
    rw [byteLen_append (a ++ cur) post]; omega
  have hline := byteToLineNum_ofText (a ++ cur ++ post) (byteLen (a ++ cur)) hb
  -- the line count: newlines before the offset are the newlines of `a`
  have hcnt : nlBefore 0 (a ++ cur ++ post) (byteLen (a ++ cur)) = a.count '\n' := by
    rw [← countP_nlsFrom, List.append_assoc, nlsFrom_append, nlsFrom_append, List.countP_append,
      List.countP_append, nlsFrom_no_nl _ cur hcur]
    have h1 : (nlsFrom 0 a).countP (· ≤ byteLen (a ++ cur)) = (nlsFrom 0 a).length := by
      rw [List.countP_eq_length]; intro y hy
      have := nlsFrom_le 0 a y hy
      rw [byteLen_append]; simp; omega
    have h2 : (nlsFrom (0 + byteLen a + byteLen cur) post).countP (· ≤ byteLen (a ++ cur)) = 0 := by
      rw [List.countP_eq_zero]; intro y hy
      have := nlsFrom_gt _ post y hy
      rw [byteLen_append]; simp; omega
    rw [h1, h2]
    simp [nlsFrom_length]
  have hlast : lastNl (ofText (a ++ cur ++ post)) ≥ byteLen a := by
    have hm : byteLen a ∈ (ofText (a ++ cur ++ post)).newlines := by
      have := last_nls_of_ends_nl a ha
      simp only [ofText, List.append_assoc, nlsFrom_append]
      have hmem : ∀ (l : List Nat), l.getLast?.getD 0 = byteLen a → l ≠ [] → byteLen a ∈ l := by
        intro l hl hne
        cases h : l.getLast? with
        | none => exact absurd (List.getLast?_eq_none_iff.mp h) hne
        | some v =>
          rw [h] at hl; simp at hl; subst hl
          exact List.mem_of_getLast? h
      have := hmem (0 :: nlsFrom 0 a) this (by simp)
      simp only [List.mem_cons, List.mem_append] at this ⊢
      rcases this with h | h
      · left; exact h
      · right; left; exact h
    exact sorted_le_last _ (ofText_sorted _) _ hm
  unfold byteToLineCol
  rw [hlen, hline, hcnt]
  simp only [show ¬ byteLen (a ++ cur) > byteLen (a ++ cur ++ post) by omega, decide_false,
    bne_self_eq_false, Bool.or_self, Bool.false_eq_true, ↓reduceIte]
  cases post with
  | nil =>
    -- offset = end of text: the last line start is `byteLen a`
    simp only [List.append_nil, ↓reduceIte]
    have hl : lastNl (ofText (a ++ cur)) = byteLen a := by
      simp only [lastNl, ofText, nlsFrom_append, nlsFrom_no_nl _ cur hcur, List.append_nil]
      exact last_nls_of_ends_nl a ha
    have hn : (ofText (a ++ cur)).newlines.length = 1 + a.count '\n' := by
      have := hcnt
      simp only [List.append_nil] at this
      rw [← this, ← countP_nlsFrom]
      simp only [ofText, List.length_cons, nlsFrom_append, nlsFrom_no_nl _ cur hcur, List.append_nil]
      rw [(List.countP_eq_length).mpr]
      · omega
      · intro y hy; have := nlsFrom_le 0 a y hy; rw [byteLen_append]; simp; omega
    rw [hl, dropBytes_append, hn]
    simp [colOf]
  | cons p ps =>
    have hp := Char.utf8Size_pos p
    have hne : ¬ byteLen (a ++ cur) = byteLen (a ++ cur ++ p :: ps) := by
      rw [byteLen_append (a ++ cur) (p :: ps)]; simp only [byteLen]; omega
    simp only [hne, ↓reduceIte]
    -- the start of line `1 + count` is `byteLen a`
    have hstart : lineNumToByte (ofText (a ++ cur ++ p :: ps)) (1 + a.count '\n') = some (byteLen a) := by
      have h3 : (nlsFrom 0 a).length = a.count '\n' := nlsFrom_length 0 a
      have hl := last_nls_of_ends_nl a ha
      unfold lineNumToByte
      simp only [ofText, List.append_assoc, nlsFrom_append, nlsFrom_no_nl _ cur hcur, List.nil_append,
        List.length_cons, List.length_append, h3]
      have : ¬ (1 + a.count '\n' > a.count '\n' + (nlsFrom (0 + byteLen a + byteLen cur) (p :: ps)).length + 1
          || (1 + a.count '\n' == 0)) = true := by
        simp; omega
      simp only [this, Bool.false_eq_true, ↓reduceIte, Nat.add_sub_cancel_left]
      rw [← List.cons_append, List.getElem?_append_left (by simp [h3])]
      rw [List.getLast?_eq_getElem?] at hl
      simp only [List.length_cons, Nat.add_sub_cancel, h3] at hl
      cases hg : (0 :: nlsFrom 0 a)[a.count '\n']? with
      | none => simp [h3] at hg
      | some v => rw [hg] at hl; simp at hl; rw [hl]
    rw [hstart]
    simp only
    rw [List.append_assoc, dropBytes_append]
    simp only [byteLen_append, Nat.add_sub_cancel_left]
    have := colLoop_prefix cur p ps 0 0 none hcur (Or.inl rfl)
    simp only [Nat.zero_add] at this
    rw [this]
    simp only [colOf, List.head?_cons, Option.some.injEq]
    cases cur with
    | nil => simp
    | cons c cs =>
      simp only [List.cons_ne_nil, ↓reduceIte]
      by_cases h1 : (c :: cs).getLast? = some '\r'
      · simp only [h1, ↓reduceIte]
        by_cases h2 : p = '\n' <;> simp [h2]
      · simp [h1]

theorem filter_le_nlsFrom_all (P : Nat) (a : List Char) (b : Nat) (h : P + byteLen a ≤ b) :
    (nlsFrom P a).filter (· ≤ b) = nlsFrom P a := by
  rw [List.filter_eq_self]; intro y hy
  have := nlsFrom_le P a y hy
  simp only [decide_eq_true_eq]; omega

theorem filter_le_nlsFrom_none (P : Nat) (a : List Char) (b : Nat) (h : b ≤ P) :
    (nlsFrom P a).filter (· ≤ b) = [] := by
  rw [List.filter_eq_nil_iff]; intro y hy
  have := nlsFrom_gt P a y hy
  simp only [decide_eq_true_eq]; omega

theorem filter_gt_nlsFrom_all (P : Nat) (a : List Char) (b : Nat) (h : b ≤ P) :
    (nlsFrom P a).filter (fun y => b < y) = nlsFrom P a := by
  rw [List.filter_eq_self]; intro y hy
  have := nlsFrom_gt P a y hy
  simp only [decide_eq_true_eq]; omega

theorem filter_gt_nlsFrom_none (P : Nat) (a : List Char) (b : Nat) (h : P + byteLen a ≤ b) :
    (nlsFrom P a).filter (fun y => b < y) = [] := by
  rw [List.filter_eq_nil_iff]; intro y hy
  have := nlsFrom_le P a y hy
  simp only [decide_eq_true_eq]; omega

/-- the line containing a boundary `a ++ cur | post` starts at `byteLen a` -/
theorem lineStartOf_decomp (a cur post : List Char)
    (ha : a = [] ∨ a.getLast? = some '\n') (hcur : '\n' ∉ cur) :
    lineStartOf (ofText (a ++ (cur ++ post))).newlines (byteLen a + byteLen cur) = byteLen a := by
  unfold lineStartOf
  simp only [ofText, nlsFrom_append, nlsFrom_no_nl _ cur hcur, List.nil_append, List.filter_cons,
    Nat.zero_le, decide_true, ↓reduceIte, List.filter_append]
  rw [filter_le_nlsFrom_all 0 a _ (by omega), filter_le_nlsFrom_none _ post _ (by omega)]
  simpa using last_nls_of_ends_nl a ha

/-- the line containing the boundary `x | suf ++ z` ends after `suf` -/
theorem lineEndOf_decomp (x suf z : List Char) (hsuf : '\n' ∉ suf)
    (hz : z = [] ∨ z.head? = some '\n') :
    lineEndOf (ofText (x ++ (suf ++ z))).newlines (byteLen (x ++ (suf ++ z))) (byteLen x)
      = byteLen x + byteLen suf := by
  unfold lineEndOf
  simp only [ofText, nlsFrom_append, nlsFrom_no_nl _ suf hsuf, List.nil_append, List.filter_cons,
    List.filter_append]
  rw [filter_gt_nlsFrom_none 0 x _ (by omega), filter_gt_nlsFrom_all _ z _ (by omega)]
  simp only [Nat.not_lt_zero, decide_false, Bool.false_eq_true, ↓reduceIte, List.nil_append]
  rcases hz with rfl | hz
  · simp [nlsFrom, byteLen_append]
  · cases z with
    | nil => simp at hz
    | cons c z' =>
      simp only [List.head?_cons, Option.some.injEq] at hz
      subst hz
      simp [nlsFrom]

end GrmVerif.Newline
