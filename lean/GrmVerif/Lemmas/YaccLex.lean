import GrmVerif.Model.YaccLex
/-!
Specification of what `parse_ws` skips ("layout"), written as a grammar of layout items — blanks,
line terminators, `//` comments, `/* */` comments whose body is ANY text without `*/` — and not as a
scanning loop, and the theorems relating `parseWs` to it:

* `ws_spec_ok`        what was skipped is a sequence of layout items, and it is maximal;
* `ws_spec_complete`  every sequence of layout items followed by something that does not start one is
                      skipped entirely (this is the direction that fails for the unrepaired loop: a
                      block comment whose body contains `"\n/"`);
* `ws_block_comment`  the single-comment instance of the above;
* `ws_spec_unterminated`, `ws_spec_eol`  the two errors.
-/
namespace GrmVerif.YaccLex

/-! ### specification -/

/-- no `\n`/`\r` in `s` -/
def NoEol (s : List Char) : Prop := ∀ c ∈ s, isEol c = false

/-- `s` does not contain the two-character sequence `*/` -/
def NoClose (s : List Char) : Prop := ∀ a b, s ≠ a ++ '*' :: '/' :: b

/-- number of `\n`/`\r` in `s` -/
def countEol : List Char → Nat
  | [] => 0
  | c :: cs => (if isEol c then 1 else 0) + countEol cs

/-- one layout item. With `inc = false` there is no line terminator except the one ending a `//`
comment. -/
inductive Item (inc : Bool) : List Char → Prop
  | blank {c : Char} : isBlank c = true → Item inc [c]
  | eol {c : Char} : isEol c = true → inc = true → Item inc [c]
  /-- `// body eol` -/
  | line {body : List Char} {e : Char} : NoEol body → isEol e = true → Item inc ('/' :: '/' :: (body ++ [e]))
  /-- `/* body */`, `body` without `*/` -/
  | block {body : List Char} : NoClose body → (inc = false → NoEol body) →
      Item inc ('/' :: '*' :: (body ++ ['*', '/']))

/-- `Layout inc rest pre`: `pre` is a concatenation of layout items, in a text in which `rest` follows
it. The last item may be a `//` comment without line terminator only if nothing follows. -/
inductive Layout (inc : Bool) (rest : List Char) : List Char → Prop
  | nil : Layout inc rest []
  | cons {it p : List Char} : Item inc it → Layout inc rest p → Layout inc rest (it ++ p)
  | openLine {body : List Char} : rest = [] → NoEol body → Layout inc rest ('/' :: '/' :: body)

/-- `rest` does not begin with a layout item (nor with the beginning `/*` of one) -/
inductive StopsLayout : List Char → Prop
  | nil : StopsLayout []
  | other {c : Char} {cs : List Char} : isBlank c = false → isEol c = false → c ≠ '/' → StopsLayout (c :: cs)
  | slashEnd : StopsLayout ['/']
  | slashOther {d : Char} {ds : List Char} : d ≠ '/' → d ≠ '*' → StopsLayout ('/' :: d :: ds)

/-! ### small facts -/

theorem byteLen_append (a b : List Char) : byteLen (a ++ b) = byteLen a + byteLen b := by
  induction a with
  | nil => simp [byteLen]
  | cons c cs ih => simp only [List.cons_append, byteLen, ih]; omega

theorem countEol_append (a b : List Char) : countEol (a ++ b) = countEol a + countEol b := by
  induction a with
  | nil => simp [countEol]
  | cons c cs ih => simp only [List.cons_append, countEol, ih]; omega

theorem countEol_noEol {s : List Char} (h : NoEol s) : countEol s = 0 := by
  induction s with
  | nil => rfl
  | cons c cs ih =>
    have hc : isEol c = false := h c (by simp)
    have : NoEol cs := fun d hd => h d (by simp [hd])
    simp [countEol, hc, ih this]

theorem NoEol.tail {c : Char} {cs : List Char} (h : NoEol (c :: cs)) : NoEol cs :=
  fun d hd => h d (by simp [hd])

theorem NoEol.cons {c : Char} {cs : List Char} (hc : isEol c = false) (h : NoEol cs) : NoEol (c :: cs) := by
  intro d hd
  simp only [List.mem_cons] at hd
  cases hd with
  | inl e => subst e; exact hc
  | inr m => exact h d m

theorem NoClose.tail {c : Char} {cs : List Char} (h : NoClose (c :: cs)) : NoClose cs := by
  intro a b e
  exact h (c :: a) b (by simp [e])

theorem NoClose.cons {c : Char} {cs : List Char} (hc : c = '*' → afterSlash cs = none)
    (h : NoClose cs) : NoClose (c :: cs) := by
  intro a b e
  cases a with
  | nil =>
    simp only [List.nil_append, List.cons.injEq] at e
    have := hc e.1
    rw [e.2] at this
    simp [afterSlash] at this
  | cons x a =>
    simp only [List.cons_append, List.cons.injEq] at e
    exact h a b e.2

theorem NoClose.afterSlash {cs : List Char} (h : NoClose ('*' :: cs)) : afterSlash cs = none := by
  cases hh : YaccLex.afterSlash cs with
  | none => rfl
  | some r =>
    have := afterSlash_some hh
    exact absurd (by simp [this]) (h [] r)

theorem utf8_star : Char.utf8Size '*' = 1 := by decide
theorem utf8_slash : Char.utf8Size '/' = 1 := by decide

theorem shiftRes_ok {k m : Nat} {r : WsRes} {n nl : Nat} {rest : List Char}
    (h : shiftRes k m r = .ok (n, nl, rest)) :
    ∃ n' nl', r = .ok (n', nl', rest) ∧ n = k + n' ∧ nl = m + nl' := by
  match r, h with
  | .ok (a, b, r'), h =>
    simp only [shiftRes, Except.ok.injEq, Prod.mk.injEq] at h
    exact ⟨a, b, by simp [h.2.2], h.1.symm, h.2.1.symm⟩
  | .error (e, p), h => simp [shiftRes] at h

theorem shiftRes_error {k m : Nat} {r : WsRes} {e : Err} {p : Nat}
    (h : shiftRes k m r = .error (e, p)) : ∃ p', r = .error (e, p') ∧ p = k + p' := by
  match r, h with
  | .ok (a, b, r'), h => simp [shiftRes] at h
  | .error (e', p'), h =>
    simp only [shiftRes, Except.error.injEq, Prod.mk.injEq] at h
    exact ⟨p', by simp [h.1], h.2.symm⟩

/-! ### unfolding `parseWs` -/

theorem parseWs_nil (inc : Bool) : parseWs inc [] = .ok (0, 0, []) := by
  rw [parseWs.eq_def]

theorem parseWs_blank (inc : Bool) {c : Char} (cs : List Char) (h : isBlank c = true) :
    parseWs inc (c :: cs) = shiftRes c.utf8Size 0 (parseWs inc cs) := by
  rw [parseWs.eq_def]; simp [h]

theorem parseWs_eol (inc : Bool) {c : Char} (cs : List Char) (h : isEol c = true) :
    parseWs inc (c :: cs)
      = if inc then shiftRes c.utf8Size 1 (parseWs inc cs) else .error (.reachedEOL, 0) := by
  have hb : isBlank c = false := by
    simp only [isEol, isBlank, Bool.or_eq_true, beq_iff_eq] at h ⊢
    rcases h with h | h <;> subst h <;> decide
  rw [parseWs.eq_def]; simp [h, hb]

theorem parseWs_line (inc : Bool) (ds : List Char) :
    parseWs inc ('/' :: '/' :: ds)
      = shiftRes (2 + (lineScan ds).1) (lineScan ds).2.1 (parseWs inc (lineScan ds).2.2) := by
  rw [parseWs.eq_def]; simp [isBlank, isEol]

theorem parseWs_block_closed (inc : Bool) {ds : List Char} {n nl : Nat} {rest : List Char}
    (h : blockScan inc ds = .closed n nl rest) :
    parseWs inc ('/' :: '*' :: ds) = shiftRes (2 + n) nl (parseWs inc rest) := by
  rw [parseWs.eq_def]; simp [isBlank, isEol]
  split
  · simp_all
  · simp_all
  · simp_all

theorem parseWs_stop (inc : Bool) {s : List Char} (h : StopsLayout s) : parseWs inc s = .ok (0, 0, s) := by
  cases h with
  | nil => exact parseWs_nil inc
  | other hb he hs => rw [parseWs.eq_def]; simp [hb, he, hs]
  | slashEnd => rw [parseWs.eq_def]; simp [isBlank, isEol]
  | slashOther h1 h2 => rw [parseWs.eq_def]; simp [isBlank, isEol, h1, h2]


/-! ### the two comment scanners -/

theorem lineScan_closed {body : List Char} (h : NoEol body) {e : Char} (he : isEol e = true)
    (q : List Char) : lineScan (body ++ e :: q) = (byteLen body + e.utf8Size, 1, q) := by
  induction body with
  | nil => simp [lineScan, he, byteLen]
  | cons c cs ih =>
    have hc : isEol c = false := h c (by simp)
    simp only [List.cons_append, lineScan, hc, ih h.tail, byteLen]
    simp; omega

theorem lineScan_open {body : List Char} (h : NoEol body) : lineScan body = (byteLen body, 0, []) := by
  induction body with
  | nil => simp [lineScan, byteLen]
  | cons c cs ih =>
    have hc : isEol c = false := h c (by simp)
    simp [lineScan, hc, ih h.tail, byteLen]

theorem lineScan_cases (ds : List Char) :
    (∃ body e q, ds = body ++ e :: q ∧ NoEol body ∧ isEol e = true) ∨ NoEol ds := by
  induction ds with
  | nil => right; intro c hc; simp at hc
  | cons c cs ih =>
    cases hc : isEol c with
    | true => left; exact ⟨[], c, cs, rfl, (fun d hd => by simp at hd), hc⟩
    | false =>
      rcases ih with ⟨body, e, q, h1, h2, h3⟩ | h
      · left; exact ⟨c :: body, e, q, by simp [h1], NoEol.cons hc h2, h3⟩
      · right; exact NoEol.cons hc h

theorem afterSlash_append_none {a b : List Char} (h : afterSlash (a ++ b) = none) :
    afterSlash a = none := by
  cases a with
  | nil => rfl
  | cons d ds => simpa [afterSlash] using h

theorem afterSlash_none_append {a : List Char} (h : afterSlash a = none) (t : List Char) :
    afterSlash (a ++ '*' :: t) = none := by
  cases a with
  | nil => simp [afterSlash]
  | cons d ds => simpa [afterSlash] using h

theorem isEol_ne_star {c : Char} (h : isEol c = true) : c ≠ '*' := by
  intro e; subst e; revert h; decide

theorem blockScan_complete (inc : Bool) {body : List Char} (h : NoClose body)
    (he : inc = false → NoEol body) (rest : List Char) :
    blockScan inc (body ++ '*' :: '/' :: rest) = .closed (byteLen body + 2) (countEol body) rest := by
  induction body with
  | nil => simp [blockScan, isEol, afterSlash, byteLen, countEol]
  | cons c cs ih =>
    have ih' := ih h.tail (fun hi => (he hi).tail)
    simp only [List.cons_append, blockScan, byteLen, countEol]
    cases hc : isEol c with
    | true =>
      cases inc with
      | false => have := he rfl c (by simp); simp [hc] at this
      | true => simp [ih', BlockRes.shift]; omega
    | false =>
      by_cases hs : c = '*'
      · subst hs
        have := afterSlash_none_append h.afterSlash ('/' :: rest)
        simp [this, ih', BlockRes.shift]; omega
      · simp [hs, ih', BlockRes.shift]; omega

theorem blockScan_closed {inc : Bool} {ds : List Char} {n nl : Nat} {rest : List Char}
    (h : blockScan inc ds = .closed n nl rest) :
    ∃ body, ds = body ++ '*' :: '/' :: rest ∧ NoClose body ∧ (inc = false → NoEol body)
      ∧ n = byteLen body + 2 ∧ nl = countEol body := by
  induction ds generalizing n nl with
  | nil => simp [blockScan] at h
  | cons c cs ih =>
    simp only [blockScan] at h
    cases hc : isEol c with
    | true =>
      simp only [hc, if_true] at h
      cases inc with
      | false => simp at h
      | true =>
        simp only [if_true] at h
        obtain ⟨n', nl', h', hn, hnl⟩ := BlockRes.shift_closed h
        obtain ⟨body, e1, e2, _, e4, e5⟩ := ih h'
        refine ⟨c :: body, by simp [e1], NoClose.cons (fun e => absurd e (isEol_ne_star hc)) e2,
          (fun hi => by simp at hi), ?_, ?_⟩
        · simp only [byteLen]; omega
        · simp only [countEol, hc]; simp; omega
    | false =>
      rw [if_neg (by simp [hc])] at h
      by_cases hs : c = '*'
      · rw [if_pos hs] at h
        split at h
        · rename_i r hr
          simp only [BlockRes.closed.injEq] at h
          have := afterSlash_some hr
          refine ⟨[], by simp [this, hs, h.2.2], (fun a b e => by simp at e),
            (fun _ d hd => by simp at hd), by simp [byteLen, h.1], by simp [countEol, h.2.1]⟩
        · rename_i hr
          obtain ⟨n', nl', h', hn, hnl⟩ := BlockRes.shift_closed h
          obtain ⟨body, e1, e2, e3, e4, e5⟩ := ih h'
          rw [e1] at hr
          refine ⟨c :: body, by simp [e1], NoClose.cons (fun _ => afterSlash_append_none hr) e2,
            (fun hi => NoEol.cons hc (e3 hi)), ?_, ?_⟩
          · have := utf8_star; simp only [byteLen, hs] at hn ⊢; omega
          · simp only [countEol, hc]; simp; omega
      · rw [if_neg hs] at h
        obtain ⟨n', nl', h', hn, hnl⟩ := BlockRes.shift_closed h
        obtain ⟨body, e1, e2, e3, e4, e5⟩ := ih h'
        refine ⟨c :: body, by simp [e1], NoClose.cons (fun e => absurd e hs) e2,
          (fun hi => NoEol.cons hc (e3 hi)), ?_, ?_⟩
        · simp only [byteLen]; omega
        · simp only [countEol, hc]; simp; omega

/-! ### soundness: what `parseWs` skips is layout, and all of it -/

theorem byteLen_line (body : List Char) (e : Char) :
    byteLen ('/' :: '/' :: (body ++ [e])) = 2 + (byteLen body + e.utf8Size) := by
  simp only [byteLen, byteLen_append, utf8_slash]; omega

theorem byteLen_block (body : List Char) :
    byteLen ('/' :: '*' :: (body ++ ['*', '/'])) = 2 + (byteLen body + 2) := by
  simp only [byteLen, byteLen_append, utf8_slash, utf8_star]; omega

theorem countEol_line {body : List Char} (h : NoEol body) {e : Char} (he : isEol e = true) :
    countEol ('/' :: '/' :: (body ++ [e])) = 1 := by
  have : isEol '/' = false := by decide
  simp [countEol, countEol_append, countEol_noEol h, he, this]

theorem countEol_block (body : List Char) :
    countEol ('/' :: '*' :: (body ++ ['*', '/'])) = countEol body := by
  have h1 : isEol '/' = false := by decide
  have h2 : isEol '*' = false := by decide
  simp [countEol, countEol_append, h1, h2]

private theorem ok_stop {inc : Bool} {s : List Char} {n nl : Nat} {rest : List Char}
    (hs : StopsLayout s) (h : (Except.ok (0, 0, s) : WsRes) = .ok (n, nl, rest)) :
    ∃ pre, s = pre ++ rest ∧ Layout inc rest pre ∧ n = byteLen pre ∧ nl = countEol pre
      ∧ StopsLayout rest := by
  simp only [Except.ok.injEq, Prod.mk.injEq] at h
  obtain ⟨rfl, rfl, rfl⟩ := h
  exact ⟨[], rfl, .nil, rfl, rfl, hs⟩

private theorem ok_cons {inc : Bool} {it s : List Char} {k m n nl : Nat} {rest : List Char}
    (hit : Item inc it) (hk : k = byteLen it) (hm : m = countEol it)
    (ih : ∀ n nl rest, parseWs inc s = .ok (n, nl, rest) →
      ∃ pre, s = pre ++ rest ∧ Layout inc rest pre ∧ n = byteLen pre ∧ nl = countEol pre
        ∧ StopsLayout rest)
    (h : shiftRes k m (parseWs inc s) = .ok (n, nl, rest)) :
    ∃ pre, it ++ s = pre ++ rest ∧ Layout inc rest pre ∧ n = byteLen pre ∧ nl = countEol pre
      ∧ StopsLayout rest := by
  obtain ⟨n', nl', h', hn, hnl⟩ := shiftRes_ok h
  obtain ⟨pre, e1, e2, e3, e4, e5⟩ := ih _ _ _ h'
  refine ⟨it ++ pre, by rw [e1, List.append_assoc], .cons hit e2, ?_, ?_, e5⟩
  · rw [byteLen_append]; omega
  · rw [countEol_append]; omega

/-- `ws_spec_ok` for either value of `inc_newlines` -/
theorem ws_spec_ok_inc (inc : Bool) (s : List Char) : ∀ n nl rest, parseWs inc s = .ok (n, nl, rest) →
    ∃ pre, s = pre ++ rest ∧ Layout inc rest pre ∧ n = byteLen pre ∧ nl = countEol pre
      ∧ StopsLayout rest := by
  fun_induction parseWs inc s
  case case1 => intro n nl rest h; exact ok_stop .nil h
  case case2 c cs hb ih =>
    intro n nl rest h
    exact ok_cons (it := [c]) (.blank hb) (by simp [byteLen]) (by
      have : isEol c = false := by
        simp only [isEol, isBlank, Bool.or_eq_true, beq_iff_eq] at hb ⊢
        rcases hb with hb | hb <;> subst hb <;> decide
      simp [countEol, this]) ih h
  case case3 c cs _ he hi ih =>
    intro n nl rest h
    exact ok_cons (it := [c]) (.eol he hi) (by simp [byteLen]) (by simp [countEol, he]) ih h
  case case4 => intro n nl rest h; simp at h
  case case5 => intro n nl rest h; exact ok_stop .slashEnd h
  case case6 cs _ _ ih =>
    intro n nl rest h
    rcases lineScan_cases cs with ⟨body, e, q, h1, h2, h3⟩ | hno
    · have hl := lineScan_closed h2 h3 q
      rw [← h1] at hl
      rw [hl] at h ih
      have := ok_cons (it := '/' :: '/' :: (body ++ [e])) (.line h2 h3) (byteLen_line body e).symm
        (countEol_line h2 h3).symm ih h
      simpa [h1] using this
    · have hl := lineScan_open hno
      rw [hl, parseWs_nil] at h
      simp only [shiftRes, Except.ok.injEq, Prod.mk.injEq] at h
      obtain ⟨rfl, rfl, rfl⟩ := h
      refine ⟨'/' :: '/' :: cs, by simp, .openLine rfl hno, ?_, ?_, .nil⟩
      · simp only [byteLen, utf8_slash]; omega
      · have : isEol '/' = false := by decide
        simp [countEol, countEol_noEol hno, this]
  case case7 => intro n nl rest h; simp at h
  case case8 => intro n nl rest h; simp at h
  case case9 cs n0 nl0 rest0 hb _ _ _ ih =>
    intro n nl rest h
    obtain ⟨body, e1, e2, e3, e4, e5⟩ := blockScan_closed hb
    have := ok_cons (it := '/' :: '*' :: (body ++ ['*', '/'])) (.block e2 e3)
      (by rw [byteLen_block, e4]) (by rw [countEol_block, e5]) ih h
    simpa [e1] using this
  case case10 c cs h1 h2 _ _ => intro n nl rest h; exact ok_stop (.slashOther h1 h2) h
  case case11 c cs h1 h2 h3 =>
    intro n nl rest h
    exact ok_stop (.other (by simpa using h1) (by simpa using h2) h3) h

/-- **ws_spec (1)**: what `parse_ws(i, true)` skips is a sequence of layout items, the new offset is
`i` plus its length in bytes, `num_newlines` grows by the number of line terminators in it, and
what follows does not begin with another layout item. -/
theorem ws_spec_ok {s : List Char} {n nl : Nat} {rest : List Char}
    (h : parseWs true s = .ok (n, nl, rest)) :
    ∃ pre, s = pre ++ rest ∧ Layout true rest pre ∧ n = byteLen pre ∧ nl = countEol pre
      ∧ StopsLayout rest :=
  ws_spec_ok_inc true s n nl rest h


/-! ### completeness: every sequence of layout items is skipped entirely -/

theorem shiftRes_shiftRes (k m k' m' : Nat) (r : WsRes) :
    shiftRes k m (shiftRes k' m' r) = shiftRes (k + k') (m + m') r := by
  match r with
  | .ok (a, b, r') => simp [shiftRes, Nat.add_assoc]
  | .error (e, p) => simp [shiftRes, Nat.add_assoc]

theorem shiftRes_zero (r : WsRes) : shiftRes 0 0 r = r := by
  match r with
  | .ok (a, b, r') => simp [shiftRes]
  | .error (e, p) => simp [shiftRes]

/-- skipping composes: layout in front of `rest` is skipped, and scanning goes on at `rest` -/
theorem parseWs_layout (inc : Bool) {pre rest : List Char} (hl : Layout inc rest pre) :
    parseWs inc (pre ++ rest) = shiftRes (byteLen pre) (countEol pre) (parseWs inc rest) := by
  induction hl with
  | nil => simp [byteLen, countEol, shiftRes_zero]
  | @cons it p hit hp ih =>
    rw [List.append_assoc, byteLen_append, countEol_append, ← shiftRes_shiftRes, ← ih]
    cases hit with
    | @blank c hb =>
      have : isEol c = false := by
        simp only [isEol, isBlank, Bool.or_eq_true, beq_iff_eq] at hb ⊢
        rcases hb with hb | hb <;> subst hb <;> decide
      simp [parseWs_blank inc _ hb, byteLen, countEol, this]
    | @eol c he hi =>
      subst hi
      rw [List.cons_append, List.nil_append, parseWs_eol true _ he]
      simp [byteLen, countEol, he]
    | @line body e h1 h2 =>
      have : ('/' :: '/' :: (body ++ [e])) ++ (p ++ rest) = '/' :: '/' :: (body ++ e :: (p ++ rest)) := by
        simp
      rw [this, parseWs_line, lineScan_closed h1 h2, byteLen_line, countEol_line h1 h2]
    | @block body h1 h2 =>
      have : ('/' :: '*' :: (body ++ ['*', '/'])) ++ (p ++ rest)
          = '/' :: '*' :: (body ++ '*' :: '/' :: (p ++ rest)) := by simp
      rw [this, parseWs_block_closed inc (blockScan_complete inc h1 h2 (p ++ rest)),
        byteLen_block, countEol_block]
  | @openLine body hr hno =>
    subst hr
    have : isEol '/' = false := by decide
    rw [List.append_nil, parseWs_line, lineScan_open hno, parseWs_nil]
    simp only [shiftRes, byteLen, countEol, countEol_noEol hno, utf8_slash, this]
    simp; omega

/-- `ws_spec_complete` for either value of `inc_newlines` -/
theorem ws_spec_complete_inc (inc : Bool) {pre rest : List Char} (hl : Layout inc rest pre)
    (hs : StopsLayout rest) : parseWs inc (pre ++ rest) = .ok (byteLen pre, countEol pre, rest) := by
  rw [parseWs_layout inc hl, parseWs_stop inc hs]; simp [shiftRes]

/-- **ws_spec (2)**: a sequence of layout items followed by text that does not begin with one is
skipped entirely, whatever the comments contain (block comments are closed by the first `*/`
after their `/*`: their body is any text without `*/`). -/
theorem ws_spec_complete {pre rest : List Char} (hl : Layout true rest pre) (hs : StopsLayout rest) :
    parseWs true (pre ++ rest) = .ok (byteLen pre, countEol pre, rest) :=
  ws_spec_complete_inc true hl hs

/-- one block comment is skipped whatever its body contains (e.g. `"\n/"`), and scanning goes on
behind it -/
theorem ws_block_comment {body : List Char} (h : NoClose body) (rest : List Char) :
    parseWs true ('/' :: '*' :: (body ++ '*' :: '/' :: rest))
      = shiftRes (byteLen body + 4) (countEol body) (parseWs true rest) := by
  rw [parseWs_block_closed true (blockScan_complete true h (fun hi => by simp at hi) rest)]
  congr 1; omega


/-! ### the errors -/

/-- where and why `parseWs inc` fails: `ErrAt inc e tail` — `tail` is the text at the error offset -/
inductive ErrAt (inc : Bool) : Err → List Char → Prop
  /-- a `/*` with no `*/` anywhere behind it -/
  | unterminated {t : List Char} : NoClose t → (inc = false → NoEol t) →
      ErrAt inc .incompleteComment ('/' :: '*' :: t)
  /-- a line terminator outside comments while `inc_newlines == false` -/
  | eol {c : Char} {cs : List Char} : inc = false → isEol c = true → ErrAt inc .reachedEOL (c :: cs)
  /-- a line terminator inside a block comment (before its `*/`, if it has one) while
  `inc_newlines == false`: reported at the comment's `/` -/
  | eolInBlock {a : List Char} {c : Char} {b : List Char} : inc = false → NoClose a → NoEol a →
      isEol c = true → ErrAt inc .reachedEOL ('/' :: '*' :: (a ++ c :: b))

theorem BlockRes.shift_unterminated {k m : Nat} {r : BlockRes} (h : r.shift k m = .unterminated) :
    r = .unterminated := by
  cases r <;> simp [BlockRes.shift] at h ⊢

theorem BlockRes.shift_eol {k m : Nat} {r : BlockRes} (h : r.shift k m = .eol) : r = .eol := by
  cases r <;> simp [BlockRes.shift] at h ⊢

theorem blockScan_unterminated {inc : Bool} {ds : List Char} (h : blockScan inc ds = .unterminated) :
    NoClose ds ∧ (inc = false → NoEol ds) := by
  induction ds with
  | nil => exact ⟨fun a b e => by simp at e, fun _ c hc => by simp at hc⟩
  | cons c cs ih =>
    simp only [blockScan] at h
    cases hc : isEol c with
    | true =>
      rw [if_pos hc] at h
      cases inc with
      | false => simp at h
      | true =>
        rw [if_pos rfl] at h
        have := ih (BlockRes.shift_unterminated h)
        exact ⟨NoClose.cons (fun e => absurd e (isEol_ne_star hc)) this.1, fun hi => by simp at hi⟩
    | false =>
      rw [if_neg (by simp [hc])] at h
      by_cases hs : c = '*'
      · rw [if_pos hs] at h
        split at h
        · simp at h
        · rename_i hr
          have := ih (BlockRes.shift_unterminated h)
          exact ⟨NoClose.cons (fun _ => hr) this.1, fun hi => NoEol.cons hc (this.2 hi)⟩
      · rw [if_neg hs] at h
        have := ih (BlockRes.shift_unterminated h)
        exact ⟨NoClose.cons (fun e => absurd e hs) this.1, fun hi => NoEol.cons hc (this.2 hi)⟩

theorem blockScan_eol {inc : Bool} {ds : List Char} (h : blockScan inc ds = .eol) :
    inc = false ∧ ∃ a c b, ds = a ++ c :: b ∧ NoClose a ∧ NoEol a ∧ isEol c = true := by
  induction ds with
  | nil => simp [blockScan] at h
  | cons c cs ih =>
    simp only [blockScan] at h
    cases hc : isEol c with
    | true =>
      rw [if_pos hc] at h
      cases inc with
      | false =>
        exact ⟨rfl, [], c, cs, rfl, fun a b e => by simp at e, fun _ hd => by simp at hd, hc⟩
      | true =>
        rw [if_pos rfl] at h
        have := (ih (BlockRes.shift_eol h)).1
        simp at this
    | false =>
      rw [if_neg (by simp [hc])] at h
      by_cases hs : c = '*'
      · rw [if_pos hs] at h
        split at h
        · simp at h
        · rename_i hr
          obtain ⟨hi, a, e, b, e1, e2, e3, e4⟩ := ih (BlockRes.shift_eol h)
          rw [e1] at hr
          exact ⟨hi, c :: a, e, b, by simp [e1],
            NoClose.cons (fun _ => afterSlash_append_none hr) e2, NoEol.cons hc e3, e4⟩
      · rw [if_neg hs] at h
        obtain ⟨hi, a, e, b, e1, e2, e3, e4⟩ := ih (BlockRes.shift_eol h)
        exact ⟨hi, c :: a, e, b, by simp [e1], NoClose.cons (fun e => absurd e hs) e2,
          NoEol.cons hc e3, e4⟩

private theorem err_cons {inc : Bool} {it s : List Char} {k m : Nat} {e : Err} {p : Nat}
    (hit : Item inc it) (hk : k = byteLen it)
    (ih : ∀ e p, parseWs inc s = .error (e, p) →
      ∃ pre tail, s = pre ++ tail ∧ Layout inc tail pre ∧ p = byteLen pre ∧ ErrAt inc e tail)
    (h : shiftRes k m (parseWs inc s) = .error (e, p)) :
    ∃ pre tail, it ++ s = pre ++ tail ∧ Layout inc tail pre ∧ p = byteLen pre ∧ ErrAt inc e tail := by
  obtain ⟨p', h', hp⟩ := shiftRes_error h
  obtain ⟨pre, tail, e1, e2, e3, e4⟩ := ih _ _ h'
  refine ⟨it ++ pre, tail, by rw [e1, List.append_assoc], .cons hit e2, ?_, e4⟩
  rw [byteLen_append]; omega

/-- every error of `parse_ws`: it is reported at the offset that follows a sequence of layout items,
and what stands there is an unterminated `/*` comment, or (only with `inc_newlines == false`) a line
terminator or a `/*` comment with a line terminator in it. -/
theorem ws_spec_error_inc (inc : Bool) (s : List Char) : ∀ e p, parseWs inc s = .error (e, p) →
    ∃ pre tail, s = pre ++ tail ∧ Layout inc tail pre ∧ p = byteLen pre ∧ ErrAt inc e tail := by
  fun_induction parseWs inc s
  case case1 => intro e p h; simp at h
  case case2 c cs hb ih =>
    intro e p h
    exact err_cons (it := [c]) (.blank hb) (by simp [byteLen]) ih h
  case case3 c cs _ he hi ih =>
    intro e p h
    exact err_cons (it := [c]) (.eol he hi) (by simp [byteLen]) ih h
  case case4 c cs _ he hi =>
    intro e p h
    simp only [Except.error.injEq, Prod.mk.injEq] at h
    obtain ⟨rfl, rfl⟩ := h
    exact ⟨[], c :: cs, rfl, .nil, rfl, .eol (by simpa using hi) he⟩
  case case5 => intro e p h; simp at h
  case case6 cs _ _ ih =>
    intro e p h
    rcases lineScan_cases cs with ⟨body, c, q, h1, h2, h3⟩ | hno
    · have hl := lineScan_closed h2 h3 q
      rw [← h1] at hl
      rw [hl] at h ih
      have := err_cons (it := '/' :: '/' :: (body ++ [c])) (.line h2 h3) (byteLen_line body c).symm ih h
      simpa [h1] using this
    · have hl := lineScan_open hno
      rw [hl, parseWs_nil] at h
      simp [shiftRes] at h
  case case7 cs hb _ _ _ =>
    intro e p h
    simp only [Except.error.injEq, Prod.mk.injEq] at h
    obtain ⟨rfl, rfl⟩ := h
    have := blockScan_unterminated hb
    exact ⟨[], _, rfl, .nil, rfl, .unterminated this.1 this.2⟩
  case case8 cs hb _ _ _ =>
    intro e p h
    simp only [Except.error.injEq, Prod.mk.injEq] at h
    obtain ⟨rfl, rfl⟩ := h
    obtain ⟨hi, a, c, b, e1, e2, e3, e4⟩ := blockScan_eol hb
    subst e1
    exact ⟨[], _, rfl, .nil, rfl, .eolInBlock hi e2 e3 e4⟩
  case case9 cs n0 nl0 rest0 hb _ _ _ ih =>
    intro e p h
    obtain ⟨body, e1, e2, e3, e4, e5⟩ := blockScan_closed hb
    have := err_cons (it := '/' :: '*' :: (body ++ ['*', '/'])) (.block e2 e3)
      (by rw [byteLen_block, e4]) ih h
    simpa [e1] using this
  case case10 => intro e p h; simp at h
  case case11 => intro e p h; simp at h

/-- **ws_spec (3)**: `IncompleteComment` is reported exactly at the `/` of a `/*` that follows a
sequence of layout items and has no `*/` behind it. -/
theorem ws_spec_unterminated {s : List Char} {p : Nat}
    (h : parseWs true s = .error (Err.incompleteComment, p)) :
    ∃ pre tail, s = pre ++ '/' :: '*' :: tail ∧ Layout true ('/' :: '*' :: tail) pre
      ∧ p = byteLen pre ∧ NoClose tail := by
  obtain ⟨pre, tail, e1, e2, e3, e4⟩ := ws_spec_error_inc true s _ _ h
  cases e4 with
  | unterminated h1 _ => exact ⟨pre, _, e1, e2, e3, h1⟩

/-- with `inc_newlines == true` there is no other error -/
theorem ws_spec_no_eol_error {s : List Char} {p : Nat} : parseWs true s ≠ .error (Err.reachedEOL, p) := by
  intro h
  obtain ⟨pre, tail, e1, e2, e3, e4⟩ := ws_spec_error_inc true s _ _ h
  cases e4 with
  | eol hi _ => simp at hi
  | eolInBlock hi _ _ _ => simp at hi

theorem blockScan_unterminated_complete (inc : Bool) {t : List Char} (h : NoClose t)
    (he : inc = false → NoEol t) : blockScan inc t = .unterminated := by
  induction t with
  | nil => rfl
  | cons c cs ih =>
    have ih' := ih h.tail (fun hi => (he hi).tail)
    simp only [blockScan]
    cases hc : isEol c with
    | true =>
      cases inc with
      | false => have := he rfl c (by simp); simp [hc] at this
      | true => simp [ih', BlockRes.shift]
    | false =>
      by_cases hs : c = '*'
      · subst hs; simp [h.afterSlash, ih', BlockRes.shift]
      · simp [hs, ih', BlockRes.shift]

theorem parseWs_block_unterminated (inc : Bool) {ds : List Char}
    (h : blockScan inc ds = .unterminated) :
    parseWs inc ('/' :: '*' :: ds) = .error (.incompleteComment, 0) := by
  rw [parseWs.eq_def]; simp [isBlank, isEol]
  split
  · simp_all
  · simp_all
  · simp_all

/-- conversely an unterminated comment behind layout is reported, at its start -/
theorem ws_unterminated_complete {pre tail : List Char} (hl : Layout true ('/' :: '*' :: tail) pre)
    (h : NoClose tail) :
    parseWs true (pre ++ '/' :: '*' :: tail) = .error (Err.incompleteComment, byteLen pre) := by
  rw [parseWs_layout true hl, parseWs_block_unterminated true
    (blockScan_unterminated_complete true h (fun hi => by simp at hi))]
  simp [shiftRes]


/-! ### `parse_to_eol` -/

/-- `parse_to_eol` splits the text in front of the first line terminator (or at the end) -/
theorem parseToEol_spec (s : List Char) :
    s = (parseToEol s).2.1 ++ (parseToEol s).2.2 ∧ NoEol (parseToEol s).2.1
      ∧ (parseToEol s).1 = byteLen (parseToEol s).2.1
      ∧ ((parseToEol s).2.2 = [] ∨ ∃ c cs, (parseToEol s).2.2 = c :: cs ∧ isEol c = true) := by
  induction s with
  | nil => exact ⟨rfl, fun c hc => by simp [parseToEol] at hc, rfl, .inl rfl⟩
  | cons c cs ih =>
    cases hc : isEol c with
    | true =>
      simp only [parseToEol, hc, if_true]
      exact ⟨rfl, fun d hd => by simp at hd, rfl, .inr ⟨c, cs, rfl, hc⟩⟩
    | false =>
      obtain ⟨h1, h2, h3, h4⟩ := ih
      simp only [parseToEol, hc]
      refine ⟨by simpa using h1, NoEol.cons hc h2, by simp [byteLen, h3], by simpa using h4⟩

/-! ### tests (unit tests on short literals) -/

section Tests
local macro "ws_test" : tactic =>
  `(tactic| (simp [parseWs, blockScan, lineScan, afterSlash, isBlank, isEol, shiftRes, BlockRes.shift]
             <;> decide))

/-- test: `"/*\n/b*/a"` — the comment is skipped entirely although its body contains `"\n/"`
(the unrepaired loop stopped after `"\n/"` and returned `b*/a` as the rest) -/
example : parseWs true ['/', '*', '\n', '/', 'b', '*', '/', 'a'] = .ok (7, 1, ['a']) := by ws_test
/-- test: `"/"` — a lone slash is not layout -/
example : parseWs true ['/'] = .ok (0, 0, ['/']) := by ws_test
/-- test: `"/x"` -/
example : parseWs true ['/', 'x'] = .ok (0, 0, ['/', 'x']) := by ws_test
/-- test: `"//a"` — a line comment may end with the text -/
example : parseWs true ['/', '/', 'a'] = .ok (3, 0, []) := by ws_test
/-- test: `"/*"` -/
example : parseWs true ['/', '*'] = .error (.incompleteComment, 0) := by ws_test
/-- test: `"/**/"` -/
example : parseWs true ['/', '*', '*', '/'] = .ok (4, 0, []) := by ws_test
/-- test: `"/***/"` -/
example : parseWs true ['/', '*', '*', '*', '/'] = .ok (5, 0, []) := by ws_test
/-- test: `"/*/"` — the `*` cannot serve as both the opening and the closing star -/
example : parseWs true ['/', '*', '/'] = .error (.incompleteComment, 0) := by ws_test
/-- test: `" \n//a\rb"` -/
example : parseWs true [' ', '\n', '/', '/', 'a', '\r', 'b'] = .ok (6, 2, ['b']) := by ws_test
/-- test: `" \n"` with `inc_newlines == false` -/
example : parseWs false [' ', '\n'] = .error (.reachedEOL, 1) := by ws_test
/-- test: `"//a\n x"` with `inc_newlines == false`: the line terminator of a `//` comment is consumed
and counted all the same, and skipping goes on in the next line -/
example : parseWs false ['/', '/', 'a', '\n', ' ', 'x'] = .ok (5, 1, ['x']) := by ws_test
/-- test: `"\r\n"` — a CRLF line end is counted as two lines -/
example : parseWs true ['\r', '\n'] = .ok (2, 2, []) := by ws_test
/-- test: `"//a\r\n"` with `inc_newlines == false`: the comment takes the `\r` only, the `\n` is an error
(with a bare `\n` line end the same text is accepted, see above) -/
example : parseWs false ['/', '/', 'a', '\r', '\n'] = .error (.reachedEOL, 4) := by ws_test
/-- test: `" /*\n*/"` with `inc_newlines == false`: reported at the `/`, not at the `\n` -/
example : parseWs false [' ', '/', '*', '\n', '*', '/'] = .error (.reachedEOL, 1) := by ws_test
/-- test: `"é /*é*/"` — offsets are in bytes -/
example : parseWs true [' ', '/', '*', 'é', '*', '/', 'é'] = .ok (7, 0, ['é']) := by
  ws_test

/-- test: `'a\"b'` — an escaped quote of the other kind loses its backslash too -/
example : parseString ['\'', 'a', '\\', '"', 'b', '\'', 'x'] = .ok (6, ['a', '"', 'b'], ['x']) := by rfl
/-- test: `"\\"` — a backslash cannot be escaped -/
example : parseString ['"', '\\', '\\', '"'] = .error (.invalidString, 1) := by rfl
/-- test: `"a` -/
example : parseString ['"', 'a'] = .error (.invalidString, 2) := by rfl
/-- test: `12a` -/
example : parseInt ['1', '2', 'a'] = .ok (2, 12, ['a']) := by rfl
/-- test: `a` -/
example : parseInt ['a'] = .error (.illegalInteger, 0) := by rfl
/-- test: `{a{}}b` -/
example : parseAction ['{', 'a', '{', '}', '}', 'b'] = .ok (5, 0, ['a', '{', '}'], ['b']) := by rfl
/-- test: `{'}'}` — a brace in a character literal of the action code is counted -/
example : parseAction ['{', '\'', '}', '\'', '}'] = .ok (3, 0, ['\''], ['\'', '}']) := by rfl
/-- test: `{{}` -/
example : parseAction ['{', '{', '}'] = .error (.incompleteAction, 0) := by rfl
/-- test: `ab\nc` -/
example : parseToEol ['a', 'b', '\n', 'c'] = (2, ['a', 'b'], ['\n', 'c']) := by rfl
/-- test: `a::b:c` -/
example : parseToSingleColon ['a', ':', ':', 'b', ':', 'c'] = .ok (4, 0, ['a', ':', ':', 'b'], [':', 'c']) := by
  rfl
/-- test: `a\nb` — the line terminator is skipped; the error is at the end of the text -/
example : parseToSingleColon ['a', '\n', 'b'] = .error (.reachedEOL, 3) := by rfl
/-- test: `lookahead_is("%%", ..)` -/
example : lookaheadIs ['%', '%'] ['%', '%', 'x'] = some (2, ['x']) := by rfl
end Tests

end GrmVerif.YaccLex
