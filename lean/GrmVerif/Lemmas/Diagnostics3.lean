import GrmVerif.Lemmas.Diagnostics2
/-! `prefixed_underline_span_with_text` = the prescribed rows, for every split text (C19). -/
namespace GrmVerif.Diag
open GrmVerif.Newline

theorem count_nl_zero (l : List Char) (h : '\n' ∉ l) : l.count '\n' = 0 :=
  List.count_eq_zero.mpr h

theorem map_text_isEmpty (rs : List Row) : (rs.map (·.text)).isEmpty = rs.isEmpty := by
  cases rs <;> simp

/-- the loop, started at any covered line -/
theorem rowsLoop_spec (sw : List Char → Nat) (pfx msg : List Char) (uc : Char)
    (hp : byteLen pfx ≤ 3) (s : List Char) :
    ∀ (cs : List (List Char)) (first : Bool) (a pre c0 suf z out : List Char),
      s = a ++ (pre ++ (joinNl c0 cs ++ (suf ++ z))) →
      (a = [] ∨ a.getLast? = some '\n') → '\n' ∉ pre → '\n' ∉ c0 → (∀ c ∈ cs, '\n' ∉ c) →
      rowsLoop sw s (ofText s) pfx msg uc (byteLen a + byteLen pre + byteLen (joinNl c0 cs))
          ((specRows first (1 + a.count '\n') pre c0 cs suf).map (·.text))
          (byteLen a + byteLen pre) out
        = some (out ++ renderRows sw pfx msg uc (specRows first (1 + a.count '\n') pre c0 cs suf)) := by
  intro cs
  induction cs with
  | nil =>
    intro first a pre c0 suf z out hs ha hpre hc0 _
    simp only [joinNl] at hs ⊢
    simp only [specRows]
    split
    · simp [rowsLoop, renderRows]
    · subst hs
      simp only [List.map_cons, List.map_nil, rowsLoop, List.isEmpty_nil]
      have hu : min (byteLen a + byteLen pre + byteLen c0)
          (byteLen a + byteLen pre + (byteLen (pre ++ (c0 ++ suf)) - byteLen pre))
            = byteLen a + byteLen pre + byteLen c0 := by
        simp only [byteLen_append]; omega
      rw [rowStep_eval sw a pre c0 (suf ++ z) (pre ++ (c0 ++ suf)) pfx msg uc true _ ha hpre
        (by omega) hu, if_neg (by omega), rowNext_last]
      simp [renderRows]
  | cons c1 cs ih =>
    intro first a pre c0 suf z out hs ha hpre hc0 hcs
    simp only [specRows, List.map_cons, rowsLoop]
    have hstopEq : byteLen (joinNl c0 (c1 :: cs)) = byteLen c0 + 1 + byteLen (joinNl c1 cs) := by
      simp only [joinNl, byteLen_append, byteLen_cons_nl]; omega
    -- the first iteration
    have hu : min (byteLen a + byteLen pre + byteLen (joinNl c0 (c1 :: cs)))
        (byteLen a + byteLen pre + (byteLen (dropCR (pre ++ c0)) - byteLen pre))
          = byteLen a + byteLen pre + byteLen (dropCR c0) := by
      rw [byteLen_dropCR_sub, hstopEq]
      have := byteLen_dropCR_le c0
      omega
    obtain ⟨W, hW⟩ : ∃ W, c0 ++ '\n' :: (joinNl c1 cs ++ (suf ++ z)) = dropCR c0 ++ W := by
      rcases dropCR_cases c0 with ⟨h, _⟩ | ⟨l', hl, h⟩
      · exact ⟨_, by rw [h]⟩
      · exact ⟨'\r' :: '\n' :: (joinNl c1 cs ++ (suf ++ z)), by rw [h, hl]; simp⟩
    have hs1 : s = a ++ (pre ++ (dropCR c0 ++ W)) := by
      rw [hs, ← hW]; simp [joinNl]
    have hstep := rowStep_eval sw a pre (dropCR c0) W (dropCR (pre ++ c0)) pfx msg uc
      ((specRows false (1 + a.count '\n' + 1) [] c1 cs suf).map (·.text)).isEmpty
      (byteLen a + byteLen pre + byteLen (joinNl c0 (c1 :: cs))) ha hpre (by omega) hu
    rw [← hs1, if_neg (by omega)] at hstep
    rw [hstep, map_text_isEmpty]
    cases hrows : specRows false (1 + a.count '\n' + 1) [] c1 cs suf with
    | nil =>
      simp only [List.isEmpty_nil, rowNext_last, List.map_nil, rowsLoop, renderRows]
    | cons r' rs =>
      simp only [List.isEmpty_cons]
      -- step over the terminator
      have hs2 : s = a ++ ((pre ++ c0) ++ '\n' :: (joinNl c1 cs ++ (suf ++ z))) := by
        rw [hs]; simp [joinNl]
      have hnext := rowNext_more a (pre ++ c0) (joinNl c1 cs ++ (suf ++ z)) msg
        (rowText sw pfx uc (1 + a.count '\n') (dropCR (pre ++ c0)) pre (dropCR c0))
        (byteLen a + byteLen pre)
        (byteLen a + byteLen pre + byteLen (joinNl c0 (c1 :: cs)))
        (by rw [hstopEq, byteLen_append]; omega)
      rw [← hs2] at hnext
      rw [hnext]
      simp only
      -- the remaining iterations
      have hs3 : s = (a ++ (pre ++ c0) ++ ['\n']) ++ ([] ++ (joinNl c1 cs ++ (suf ++ z))) := by
        rw [hs2]; simp
      have hcnt : 1 + (a ++ (pre ++ c0) ++ ['\n']).count '\n' = 1 + a.count '\n' + 1 := by
        simp only [List.count_append, count_nl_zero pre hpre, count_nl_zero c0 hc0]
        simp; omega
      have hb : byteLen (a ++ (pre ++ c0) ++ ['\n']) + byteLen ([] : List Char)
          = byteLen a + byteLen (pre ++ c0) + 1 := by
        have h0 : byteLen ([] : List Char) = 0 := rfl
        simp only [byteLen_append, byteLen_singleton_nl, h0, Nat.add_zero, Nat.add_assoc]
      have := ih false (a ++ (pre ++ c0) ++ ['\n']) [] c1 suf z
        (out ++ (rowText sw pfx uc (1 + a.count '\n') (dropCR (pre ++ c0)) pre (dropCR c0) ++ ['\n']))
        hs3 (Or.inr (by simp)) (by simp) (hcs c1 (by simp)) (fun c hc => hcs c (by simp [hc]))
      rw [hcnt, hb, hrows] at this
      have hstop2 : byteLen a + byteLen (pre ++ c0) + 1 + byteLen (joinNl c1 cs)
          = byteLen a + byteLen pre + byteLen (joinNl c0 (c1 :: cs)) := by
        rw [hstopEq, byteLen_append]; omega
      rw [hstop2] at this
      rw [this]
      simp [renderRows]

/-- with a prefix of more than 3 bytes the first iteration hits the `assert!` -/
theorem rowsLoop_long_prefix (sw : List Char → Nat) (pfx msg : List Char) (uc : Char)
    (hp : 3 < byteLen pfx) (s : List Char)
    (cs : List (List Char)) (a pre c0 suf z out : List Char)
    (hs : s = a ++ (pre ++ (joinNl c0 cs ++ (suf ++ z))))
    (ha : a = [] ∨ a.getLast? = some '\n') (hpre : '\n' ∉ pre) :
    rowsLoop sw s (ofText s) pfx msg uc (byteLen a + byteLen pre + byteLen (joinNl c0 cs))
        ((specRows true (1 + a.count '\n') pre c0 cs suf).map (·.text))
        (byteLen a + byteLen pre) out = none := by
  cases cs with
  | nil =>
    simp only [joinNl] at hs ⊢
    subst hs
    simp only [specRows, Bool.not_true, Bool.false_and, Bool.false_eq_true, ↓reduceIte,
      List.map_cons, List.map_nil, rowsLoop, List.isEmpty_nil]
    have hu : min (byteLen a + byteLen pre + byteLen c0)
        (byteLen a + byteLen pre + (byteLen (pre ++ (c0 ++ suf)) - byteLen pre))
          = byteLen a + byteLen pre + byteLen c0 := by
      simp only [byteLen_append]; omega
    rw [rowStep_eval sw a pre c0 (suf ++ z) (pre ++ (c0 ++ suf)) pfx msg uc true _ ha hpre
      (by omega) hu, if_pos hp]
  | cons c1 cs =>
    simp only [specRows, List.map_cons, rowsLoop]
    have hstopEq : byteLen (joinNl c0 (c1 :: cs)) = byteLen c0 + 1 + byteLen (joinNl c1 cs) := by
      simp only [joinNl, byteLen_append, byteLen_cons_nl]; omega
    have hu : min (byteLen a + byteLen pre + byteLen (joinNl c0 (c1 :: cs)))
        (byteLen a + byteLen pre + (byteLen (dropCR (pre ++ c0)) - byteLen pre))
          = byteLen a + byteLen pre + byteLen (dropCR c0) := by
      rw [byteLen_dropCR_sub, hstopEq]
      have := byteLen_dropCR_le c0
      omega
    obtain ⟨W, hW⟩ : ∃ W, c0 ++ '\n' :: (joinNl c1 cs ++ (suf ++ z)) = dropCR c0 ++ W := by
      rcases dropCR_cases c0 with ⟨h, _⟩ | ⟨l', hl, h⟩
      · exact ⟨_, by rw [h]⟩
      · exact ⟨'\r' :: '\n' :: (joinNl c1 cs ++ (suf ++ z)), by rw [h, hl]; simp⟩
    have hs1 : s = a ++ (pre ++ (dropCR c0 ++ W)) := by
      rw [hs, ← hW]; simp [joinNl]
    have hstep := rowStep_eval sw a pre (dropCR c0) W (dropCR (pre ++ c0)) pfx msg uc
      ((specRows false (1 + a.count '\n' + 1) [] c1 cs suf).map (·.text)).isEmpty
      (byteLen a + byteLen pre + byteLen (joinNl c0 (c1 :: cs))) ha hpre (by omega) hu
    rw [← hs1, if_pos hp] at hstep
    rw [hstep]

/-- `span_line_bytes` of a split text: the touched lines -/
theorem spanLineBytes_split (d : Split) (hd : d.WF) :
    spanLineBytes (ofText d.text) d.start d.stop
      = some (byteLen d.a, byteLen d.a + byteLen d.body) := by
  have hle : d.start ≤ d.stop := by simp [Split.stop]
  have h := spanLineBytes_spec (ofText d.text) d.start d.stop (ofText_sorted _)
    (by simp [ofText]) hle
  rw [h]
  have h1 : lineStartOf (ofText d.text).newlines d.start = byteLen d.a := by
    have := lineStartOf_decomp d.a d.pre (d.cov ++ d.suf ++ d.z) hd.ha hd.hpre
    simpa [Split.text, Split.body, Split.start] using this
  have hfl : lastNl (ofText d.text) + (ofText d.text).trailing = byteLen d.text := feedLen_ofText _
  have h2 : lineEndOf (ofText d.text).newlines (byteLen d.text) d.stop
      = byteLen d.a + byteLen d.body := by
    have := lineEndOf_decomp (d.a ++ (d.pre ++ d.cov)) d.suf d.z hd.hsuf hd.hz
    have e : d.a ++ (d.pre ++ d.cov) ++ (d.suf ++ d.z) = d.text := by
      simp [Split.text, Split.body]
    rw [e] at this
    have e2 : byteLen (d.a ++ (d.pre ++ d.cov)) = d.stop := by
      simp only [Split.stop, Split.start, byteLen_append]; omega
    rw [e2] at this
    rw [this, Split.body]
    simp only [byteLen_append, Split.stop, Split.start]; omega
  rw [h1, hfl, h2]

/-- **the formatter prints the prescribed rows**, for every string-width function -/
theorem prefixedUnderline_spec (sw : List Char → Nat) (d : Split) (hd : d.WF)
    (pfx msg : List Char) (uc : Char) (hp : byteLen pfx ≤ 3) :
    prefixedUnderline sw d.text pfx d.start d.stop msg uc
      = some (renderRows sw pfx msg uc d.rows) := by
  unfold prefixedUnderline
  have hle : ¬ d.stop < d.start := by simp [Split.stop]
  simp only [hle, ↓reduceIte, nlc_eq_ofText, spanLineBytes_split d hd]
  have hsl : sliceBytes d.text (byteLen d.a) (byteLen d.a + byteLen d.body) = some d.body := by
    exact sliceBytes_mid d.a d.body d.z _ rfl
  simp only [hsl]
  have hlines := linesOf_spec d.firstLine d.pre d.c0 d.cs d.suf hd.hpre hd.hc0 hd.hcs hd.hsuf
  have hbody : d.body = d.pre ++ (joinNl d.c0 d.cs ++ d.suf) := rfl
  rw [hbody, hlines]
  have := rowsLoop_spec sw pfx msg uc hp d.text d.cs true d.a d.pre d.c0 d.suf d.z []
    (by simp [Split.text, Split.body, Split.cov]) hd.ha hd.hpre hd.hc0 hd.hcs
  simpa [Split.rows, Split.firstLine, Split.start, Split.stop, Split.cov] using this

/-- the `assert!(prefix.len() <= 3)` fires for every span (there is always a first row) -/
theorem prefixedUnderline_long_prefix (sw : List Char → Nat) (d : Split) (hd : d.WF)
    (pfx msg : List Char) (uc : Char) (hp : 3 < byteLen pfx) :
    prefixedUnderline sw d.text pfx d.start d.stop msg uc = none := by
  unfold prefixedUnderline
  have hle : ¬ d.stop < d.start := by simp [Split.stop]
  simp only [hle, ↓reduceIte, nlc_eq_ofText, spanLineBytes_split d hd]
  have hsl : sliceBytes d.text (byteLen d.a) (byteLen d.a + byteLen d.body) = some d.body := by
    exact sliceBytes_mid d.a d.body d.z _ rfl
  simp only [hsl]
  have hlines := linesOf_spec d.firstLine d.pre d.c0 d.cs d.suf hd.hpre hd.hc0 hd.hcs hd.hsuf
  have hbody : d.body = d.pre ++ (joinNl d.c0 d.cs ++ d.suf) := rfl
  rw [hbody, hlines]
  have := rowsLoop_long_prefix sw pfx msg uc hp d.text d.cs d.a d.pre d.c0 d.suf d.z []
    (by simp [Split.text, Split.body, Split.cov]) hd.ha hd.hpre
  simpa [Split.firstLine, Split.start, Split.stop, Split.cov] using this

end GrmVerif.Diag
