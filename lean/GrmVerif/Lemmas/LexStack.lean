import GrmVerif.Lemmas.Lex
/-! Helper lemmas for C09: the run-length encoded start-state stack refines the plain stack. -/
namespace GrmVerif.Lex

/-- invariant of the encoded stack: counts are positive and every stored state is the one
`get_start_state_by_id` returns for its id (they are references into `start_states`) -/
def StackOK (ss : List St) (stk : Stack) : Prop :=
  ∀ e ∈ stk, 1 ≤ e.1 ∧ getState ss e.2.id = some e.2

theorem getState_id {ss : List St} {tid : Nat} {s : St} (h : getState ss tid = some s) :
    getState ss s.id = some s := by
  unfold getState at h ⊢
  have := List.find?_some h
  simp at this
  rw [this]; exact h

theorem decode_eq_nil {ss : List St} {stk : Stack} (h : StackOK ss stk) : decode stk = [] ↔ stk = [] := by
  cases stk with
  | nil => simp [decode]
  | cons e rest =>
    obtain ⟨c, t⟩ := e
    have := (h (c, t) (by simp)).1
    simp only [decode, List.append_eq_nil_iff, List.replicate_eq_nil_iff, reduceCtorEq, iff_false]
    intro ⟨h1, _⟩
    simp at this; omega

theorem StackOK.tail {ss : List St} {e : Nat × St} {rest : Stack} (h : StackOK ss (e :: rest)) : StackOK ss rest :=
  fun x hx => h x (List.mem_cons_of_mem _ hx)

theorem decode_cons_ok {ss : List St} {c : Nat} {t : St} {rest : Stack} (h : StackOK ss ((c, t) :: rest)) :
    decode ((c, t) :: rest) = t :: (List.replicate (c - 1) t ++ decode rest) := by
  have := (h (c, t) (by simp)).1
  simp at this
  obtain ⟨c', rfl⟩ : ∃ c', c = c' + 1 := ⟨c - 1, by omega⟩
  simp [decode, List.replicate_succ]

/-- one operation: same effect on the decoded stack, invariant kept, stack stays non-empty -/
theorem applyOp_refines (ss : List St) (init : St) (stk : Stack) (s : St) (op : Op)
    (hok : StackOK ss stk) (hne : stk ≠ [])
    (hs : getState ss s.id = some s) (hi : getState ss init.id = some init) :
    ∃ stk', applyOp init stk s op = some stk' ∧ decode stk' = plainOp init (decode stk) s op ∧
      StackOK ss stk' ∧ stk' ≠ [] := by
  cases stk with
  | nil => exact absurd rfl hne
  | cons e rest =>
    obtain ⟨c, t⟩ := e
    have hc := (hok (c, t) (by simp)).1
    have ht := (hok (c, t) (by simp)).2
    simp at hc ht
    cases op with
    | replace =>
      refine ⟨[(1, s)], rfl, by simp [decode, plainOp], ?_, by simp⟩
      intro e he; simp at he; subst he; exact ⟨Nat.le_refl _, hs⟩
    | push =>
      by_cases hid : t.id = s.id
      · have hts : t = s := by rw [hid, hs] at ht; injection ht with ht; exact ht.symm
        refine ⟨(c + 1, t) :: rest, by simp [applyOp, rlePush, hid], ?_, ?_, by simp⟩
        · simp [decode, plainOp, List.replicate_succ, hts]
        · intro e he
          simp at he
          rcases he with rfl | he
          · exact ⟨by simp, ht⟩
          · exact hok e (List.mem_cons_of_mem _ he)
      · refine ⟨(1, s) :: (c, t) :: rest, by simp [applyOp, rlePush, hid], ?_, ?_, by simp⟩
        · simp [decode, plainOp]
        · intro e he
          simp only [List.mem_cons] at he
          rcases he with rfl | he
          · exact ⟨Nat.le_refl _, hs⟩
          · exact hok e (by simpa using he)
    | pop =>
      by_cases hgt : c > 1
      · refine ⟨(c - 1, t) :: rest, by simp [applyOp, rlePop, hgt], ?_, ?_, by simp⟩
        · obtain ⟨c', rfl⟩ : ∃ c', c = c' + 2 := ⟨c - 2, by omega⟩
          simp [decode, plainOp, List.replicate_succ]
        · intro e he
          simp only [List.mem_cons] at he
          rcases he with rfl | he
          · exact ⟨by simp; omega, ht⟩
          · exact hok e (List.mem_cons_of_mem _ he)
      · have hc1 : c = 1 := by omega
        subst hc1
        cases rest with
        | nil =>
          refine ⟨[(1, init)], by simp [applyOp, rlePop], by simp [decode, plainOp], ?_, by simp⟩
          intro e he; simp at he; subst he; exact ⟨Nat.le_refl _, hi⟩
        | cons e2 rest2 =>
          have hok2 : StackOK ss (e2 :: rest2) := hok.tail
          have hne2 : decode (e2 :: rest2) ≠ [] := fun h => by
            have := (decode_eq_nil hok2).mp h; cases this
          refine ⟨e2 :: rest2, by simp [applyOp, rlePop], ?_, hok2, by simp⟩
          simp only [decode, plainOp, List.replicate_one, List.singleton_append, List.tail_cons]
          have : (decode (e2 :: rest2)).isEmpty = false := by
            cases h : decode (e2 :: rest2) with
            | nil => exact absurd h hne2
            | cons _ _ => rfl
          simp only [decode] at this
          simp [this]

/-! ### operation sequences -/

/-- a sequence of (target state, operation) pairs on the encoded stack -/
def rleRun (init : St) : Stack → List (St × Op) → Option Stack
  | stk, [] => some stk
  | stk, (s, op) :: ops =>
    match applyOp init stk s op with
    | none => none
    | some stk' => rleRun init stk' ops

/-- the same sequence on the plain stack -/
def plainRun (init : St) : List St → List (St × Op) → List St
  | ps, [] => ps
  | ps, (s, op) :: ops => plainRun init (plainOp init ps s op) ops

theorem rleRun_refines (ss : List St) (init : St) (hi : getState ss init.id = some init) :
    ∀ (ops : List (St × Op)) (stk : Stack), StackOK ss stk → stk ≠ [] →
      (∀ p ∈ ops, getState ss p.1.id = some p.1) →
      ∃ stk', rleRun init stk ops = some stk' ∧ decode stk' = plainRun init (decode stk) ops ∧
        StackOK ss stk' ∧ stk' ≠ [] := by
  intro ops
  induction ops with
  | nil => intro stk hok hne _; exact ⟨stk, rfl, rfl, hok, hne⟩
  | cons p ops ih =>
    intro stk hok hne hops
    obtain ⟨s, op⟩ := p
    obtain ⟨stk1, h1, h2, h3, h4⟩ := applyOp_refines ss init stk s op hok hne (hops (s, op) (by simp)) hi
    obtain ⟨stk2, g1, g2, g3, g4⟩ := ih stk1 h3 h4 (fun p hp => hops p (List.mem_cons_of_mem _ hp))
    exact ⟨stk2, by simp [rleRun, h1, g1], by simp [plainRun, g2, h2], g3, g4⟩

theorem stackOK_init {ss : List St} {init : St} (hi : getState ss init.id = some init) : StackOK ss [(1, init)] := by
  intro e he; simp at he; subst he; exact ⟨Nat.le_refl _, hi⟩

end GrmVerif.Lex
