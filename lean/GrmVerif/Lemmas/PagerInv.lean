import GrmVerif.Lemmas.PagerWeak
import GrmVerif.Lemmas.PagerGc
import GrmVerif.Lemmas.CloseImpl2
import GrmVerif.Lemmas.Closure
/-!
The soundness invariant of the main loop of `pager_stategraph` (`PagerImpl.mainLoop`), for every
order parameter: cores only grow; a closed state whose core grows is re-opened, so every state that is
not open is the closure of its core; state 0 is never a merge target; edge targets are in range.
-/
namespace GrmVerif.PagerImpl
open GrmVerif CloseImpl Closure

/-- item set in range, with distinct keys (the content of a hash map) -/
def ItemsOk (G : Grammar) (c : List Item) : Prop := CoreOk G c ∧ KeysNodup c

/-- `cl` denotes exactly the LR(1) closure of `core` -/
def ClosedOf (G : Grammar) (core cl : List Item) : Prop :=
  KeysNodup cl ∧ (∀ p d, HasItem cl p d ↔ ClosureP G core (.item p d)) ∧
    (∀ p d t, HasLa cl p d t ↔ ClosureP G core (.la p d t))

theorem coreOk_of_facts {G : Grammar} {c : List Item}
    (h1 : ∀ p d, HasItem c p d → p < G.nprods ∧ d ≤ (G.rhs p).length)
    (h2 : ∀ p d t, HasLa c p d t → t < G.ntoks) : CoreOk G c := by
  intro i hi
  obtain ⟨a, b⟩ := h1 i.p i.dot ⟨i, hi, rfl, rfl⟩
  exact ⟨a, b, fun t ht => h2 i.p i.dot t ⟨i, hi, rfl, rfl, ht⟩⟩

theorem coreOk_item {G : Grammar} {c : List Item} (h : CoreOk G c) {p d : Nat} (hi : HasItem c p d) :
    p < G.nprods ∧ d ≤ (G.rhs p).length := by
  obtain ⟨i, hi, rfl, rfl⟩ := hi
  exact ⟨(h i hi).1, (h i hi).2.1⟩

theorem coreOk_la {G : Grammar} {c : List Item} (h : CoreOk G c) {p d t : Nat} (hl : HasLa c p d t) : t < G.ntoks := by
  obtain ⟨i, hi, _, _, ht⟩ := hl
  exact (h i hi).2.2 t ht

/-- every fact of a closure is in range -/
theorem closureP_ok {G : Grammar} (hwf : G.wf = true) {core : List Item} (hc : CoreOk G core) {x : CFact}
    (h : ClosureP G core x) :
    (∀ p d, x = .item p d → p < G.nprods ∧ d ≤ (G.rhs p).length) ∧
    (∀ p d t, x = .la p d t → p < G.nprods ∧ t < G.ntoks) := by
  induction h with
  | kitem i hi =>
    refine ⟨fun p d e => ?_, fun p d t e => (by cases e)⟩
    cases e; exact ⟨(hc i hi).1, (hc i hi).2.1⟩
  | kla i t hi ht =>
    refine ⟨fun p d e => (by cases e), fun p d t' e => ?_⟩
    cases e; exact ⟨(hc i hi).1, (hc i hi).2.2 _ ht⟩
  | citem p d q _ _ hq _ =>
    refine ⟨fun p' d' e => ?_, fun p' d' t e => (by cases e)⟩
    cases e; exact ⟨hq, Nat.zero_le _⟩
  | cfirst p d q t _ _ hq hf ih =>
    refine ⟨fun p' d' e => (by cases e), fun p' d' t' e => ?_⟩
    cases e
    exact ⟨hq, firstSeqP_tok_lt hwf (ih.1 p d rfl).1 hf⟩
  | cinherit p d q t _ _ hq _ _ _ ih2 =>
    refine ⟨fun p' d' e => (by cases e), fun p' d' t' e => ?_⟩
    cases e
    exact ⟨hq, (ih2.2 p d t rfl).2⟩

theorem closedOf_coreOk {G : Grammar} (hwf : G.wf = true) {core cl : List Item} (hc : CoreOk G core)
    (h : ClosedOf G core cl) : ItemsOk G cl := by
  refine ⟨coreOk_of_facts ?_ ?_, h.1⟩
  · intro p d hi
    exact (closureP_ok hwf hc ((h.2.1 p d).mp hi)).1 p d rfl
  · intro p d t hl
    exact ((closureP_ok hwf hc ((h.2.2 p d t).mp hl)).2 p d t rfl).2

/-- the result of `goto` on an item set in range is an item set in range -/
theorem goto_itemsOk {G : Grammar} {sym : Sym} {cl n : List Item} (hcl : CoreOk G cl) (h : goto G sym cl = some n) :
    ItemsOk G n ∧
    (∀ p d, HasItem n p d ↔ ∃ d0, d = d0 + 1 ∧ HasItem cl p d0 ∧ (G.rhs p)[d0]? = some sym) ∧
    (∀ p d t, HasLa n p d t ↔ ∃ d0, d = d0 + 1 ∧ HasLa cl p d0 t ∧ (G.rhs p)[d0]? = some sym) := by
  obtain ⟨R, e, h1, h2, h3⟩ := gotoLoop_spec G sym cl (fun i hi => ⟨(hcl i hi).1, (hcl i hi).2.1⟩) []
  have hR : R = n := by
    have : goto G sym cl = some R := e
    rw [h] at this; cases this; rfl
  subst hR
  have hnd : KeysNodup R := by
    obtain ⟨R', e', _, _, h4⟩ := gotoLoop_spec G sym cl (fun i hi => ⟨(hcl i hi).1, (hcl i hi).2.1⟩) []
    rw [e] at e'; cases e'
    exact h4 (by simp [KeysNodup, keysOf])
  have a1 : ∀ p d, HasItem R p d ↔ ∃ d0, d = d0 + 1 ∧ HasItem cl p d0 ∧ (G.rhs p)[d0]? = some sym := by
    intro p d; rw [h1]; simp [HasItem]
  have a2 : ∀ p d t, HasLa R p d t ↔ ∃ d0, d = d0 + 1 ∧ HasLa cl p d0 t ∧ (G.rhs p)[d0]? = some sym := by
    intro p d t; rw [h2]; simp [HasLa]
  refine ⟨⟨coreOk_of_facts ?_ ?_, hnd⟩, a1, a2⟩
  · intro p d hi
    obtain ⟨d0, rfl, hc0, hs⟩ := (a1 p d).mp hi
    have := coreOk_item hcl hc0
    have hlt : d0 < (G.rhs p).length := by
      by_cases hlt : d0 < (G.rhs p).length
      · exact hlt
      · rw [List.getElem?_eq_none (by omega)] at hs; cases hs
    exact ⟨this.1, hlt⟩
  · intro p d t hl
    obtain ⟨d0, rfl, hc0, _⟩ := (a2 p d t).mp hl
    exact coreOk_la hcl hc0

/-- `weakly_compatible` answered `true`: the two hash maps have the same keys -/
theorem weaklyCompatible_true_sameCores {self other : List Item} (hs : KeysNodup self) (ho : KeysNodup other)
    (h : weaklyCompatible self other (keysOf self) = some true) : SameCores self other := by
  unfold weaklyCompatible at h
  by_cases hlen : self.length = other.length
  case neg =>
    have : (self.length != other.length) = true := by simp [hlen]
    rw [if_pos this] at h; cases h
  have hl1 : (self.length != other.length) = false := by simp [hlen]
  rw [hl1] at h
  simp only [Bool.false_eq_true, if_false] at h
  by_cases hall : (keysOf self).all (hasKey other) = true
  case neg =>
    have : (!(keysOf self).all (hasKey other)) = true := by simp [hall]
    rw [if_pos this] at h; cases h
  apply (sameCores_iff hs ho).mp
  refine ⟨hlen, fun p d hi => ?_⟩
  have := (List.all_eq_true.mp hall) (p, d) (mem_keysOf.mpr hi)
  exact hasKey_iff.mp this

/-- a merge that reports "unchanged" returns the item set it was given -/
theorem weaklyMerge_unchanged (self other : List Item) (R : List Item)
    (h : weaklyMerge self other = some (R, false)) : R = self := by
  induction self generalizing R with
  | nil => simp [weaklyMerge] at h; exact h
  | cons i rest ih =>
    simp only [weaklyMerge] at h
    cases ho : lookup other i.p i.dot with
    | none => rw [ho] at h; cases h
    | some o =>
      rw [ho] at h
      simp only [Option.bind_some] at h
      cases hr : weaklyMerge rest other with
      | none => rw [hr] at h; cases h
      | some r =>
        rw [hr] at h
        simp only [Option.map_some, Option.some.injEq, Prod.mk.injEq, Bool.or_eq_false_iff] at h
        obtain ⟨h1, h2, h3⟩ := h
        have hr' : weaklyMerge rest other = some (r.1, false) := by rw [hr, ← h3]
        have := ih r.1 hr'
        rw [← h1, this, (vobOr_unchanged h2).1]

/-- the merged item set is in range and keeps the keys -/
theorem weaklyMerge_itemsOk {G : Grammar} {ck n R : List Item} {ch : Bool} (hck : ItemsOk G ck) (hn : ItemsOk G n)
    (hsame : SameCores ck n) (h : weaklyMerge ck n = some (R, ch)) :
    ItemsOk G R ∧ keysOf R = keysOf ck ∧ (∀ p d t, HasLa ck p d t → HasLa R p d t) ∧
      (∀ p d t, HasLa n p d t → HasLa R p d t) := by
  obtain ⟨R', ch', e, hk, hla, _⟩ := weaklyMerge_spec ck n hck.2 hn.2 (fun p d => (hsame p d).mp)
  rw [h] at e
  simp only [Option.some.injEq, Prod.mk.injEq] at e
  obtain ⟨rfl, rfl⟩ := e
  have hitem : ∀ p d, HasItem R p d ↔ HasItem ck p d := by
    intro p d
    rw [← @mem_keysOf R (p, d), hk, mem_keysOf]
  refine ⟨⟨coreOk_of_facts ?_ ?_, ?_⟩, hk, fun p d t hl => (hla p d t).mpr (Or.inl hl), ?_⟩
  · intro p d hi; exact coreOk_item hck.1 ((hitem p d).mp hi)
  · intro p d t hl
    rcases (hla p d t).mp hl with h1 | ⟨_, h2⟩
    · exact coreOk_la hck.1 h1
    · exact coreOk_la hn.1 h2
  · unfold KeysNodup; rw [hk]; exact hck.2
  · intro p d t hl
    exact (hla p d t).mpr (Or.inr ⟨(hsame p d).mpr (hasLa_hasItem hl), hl⟩)

/-! ### small facts about the helper functions -/

theorem findExact_mem {core : List (List Item)} {n : List Item} {l : List Nat} {c : Nat}
    (h : findExact core n l = some (some c)) : c ∈ l ∧ ∃ cs, core[c]? = some cs ∧ itemsetEq cs n = true := by
  induction l with
  | nil => simp [findExact] at h
  | cons x rest ih =>
    simp only [findExact] at h
    cases hx : core[x]? with
    | none => rw [hx] at h; cases h
    | some cs =>
      rw [hx] at h
      simp only at h
      by_cases he : itemsetEq cs n = true
      · rw [if_pos he] at h
        cases h
        exact ⟨List.mem_cons_self .., cs, hx, he⟩
      · rw [if_neg he] at h
        obtain ⟨h1, h2⟩ := ih h
        exact ⟨List.mem_cons_of_mem _ h1, h2⟩

theorem findWeak_mem {core : List (List Item)} {n : List Item} {l : List Nat} {k : Nat}
    (h : findWeak core n l = some (some k)) :
    k ∈ l ∧ ∃ ck, core[k]? = some ck ∧ weaklyCompatible ck n (keysOf ck) = some true := by
  induction l with
  | nil => simp [findWeak] at h
  | cons x rest ih =>
    simp only [findWeak] at h
    cases hx : core[x]? with
    | none => rw [hx] at h; cases h
    | some cs =>
      rw [hx] at h
      simp only at h
      cases hw : weaklyCompatible cs n (keysOf cs) with
      | none => rw [hw] at h; cases h
      | some b =>
        rw [hw] at h
        cases b with
        | true => simp only at h; cases h; exact ⟨List.mem_cons_self .., cs, hx, hw⟩
        | false =>
          simp only at h
          obtain ⟨h1, h2⟩ := ih h
          exact ⟨List.mem_cons_of_mem _ h1, h2⟩

theorem mem_edgeInsert {es : List (Sym × Nat)} {sym : Sym} {t : Nat} {e : Sym × Nat}
    (h : e ∈ edgeInsert es sym t) : e ∈ es ∨ e = (sym, t) := by
  unfold edgeInsert at h
  split at h
  · obtain ⟨e0, he0, rfl⟩ := List.mem_map.mp h
    by_cases hc : (e0.1 == sym) = true
    · right; simp [hc]
    · left; simp [hc]; exact he0
  · rcases List.mem_append.mp h with h | h
    · exact Or.inl h
    · exact Or.inr (List.mem_singleton.mp h)

theorem addEdge_spec {edges edges' : List (List (Sym × Nat))} {s : Nat} {sym : Sym} {t : Nat}
    (h : addEdge edges s sym t = some edges') :
    edges'.length = edges.length ∧
    ∀ (s' : Nat) (es' : List (Sym × Nat)), edges'[s']? = some es' →
      ∃ es, edges[s']? = some es ∧ ∀ e ∈ es', e ∈ es ∨ e = (sym, t) := by
  unfold addEdge at h
  cases hs : edges[s]? with
  | none => rw [hs] at h; cases h
  | some es0 =>
    rw [hs] at h
    simp only [Option.map_some, Option.some.injEq] at h
    subst h
    refine ⟨by simp, ?_⟩
    intro s' es' hget
    rw [List.getElem?_set] at hget
    by_cases hss : s = s'
    · subst hss
      rw [if_pos rfl] at hget
      split at hget
      · cases hget
        exact ⟨es0, hs, fun e he => mem_edgeInsert he⟩
      · cases hget
    · rw [if_neg hss] at hget
      exact ⟨es', hget, fun e he => Or.inl he⟩

theorem cndOf_mem {st : St} {sym : Sym} {l : List Nat} (h : cndOf st sym = some l) : l ∈ st.cndRule ∨ l ∈ st.cndTok := by
  cases sym with
  | rule r => exact Or.inl (List.mem_of_getElem? h)
  | tok t => exact Or.inr (List.mem_of_getElem? h)

/-! ### what one `processNew` does, by cases -/

theorem processNew_cases {maxStates stateI : Nat} {st st' : St} {sn : Sym × List Item}
    (h : processNew maxStates stateI st sn = some st') :
    ∃ cnds, cndOf st sn.1 = some cnds ∧
    ((∃ c edges', c ∈ cnds ∧ (∃ cs, st.core[c]? = some cs ∧ itemsetEq cs sn.2 = true) ∧
        addEdge st.edges stateI sn.1 c = some edges' ∧
        st'.core = st.core ∧ st'.closed = st.closed ∧ st'.edges = edges' ∧ st'.cndRule = st.cndRule ∧
        st'.cndTok = st.cndTok) ∨
     (∃ k edges' ck R ch clk, k ∈ cnds ∧ st.core[k]? = some ck ∧
        weaklyCompatible ck sn.2 (keysOf ck) = some true ∧
        addEdge st.edges stateI sn.1 k = some edges' ∧ weaklyMerge ck sn.2 = some (R, ch) ∧
        st.closed[k]? = some clk ∧
        st'.core = st.core.set k R ∧ st'.edges = edges' ∧ st'.cndRule = st.cndRule ∧ st'.cndTok = st.cndTok ∧
        st'.closed = (if (ch && clk.isSome) = true then st.closed.set k none else st.closed)) ∨
     (∃ edges' cnd, cndPush st st.core.length sn.1 = some cnd ∧
        addEdge st.edges stateI sn.1 st.core.length = some edges' ∧
        st'.core = st.core ++ [sn.2] ∧ st'.closed = st.closed ++ [none] ∧ st'.edges = edges' ++ [[]] ∧
        st'.cndRule = cnd.1 ∧ st'.cndTok = cnd.2)) := by
  unfold processNew at h
  cases hc : cndOf st sn.1 with
  | none => rw [hc] at h; cases h
  | some cnds =>
    rw [hc] at h
    simp only [Option.bind_some] at h
    refine ⟨cnds, rfl, ?_⟩
    cases he : findExact st.core sn.2 cnds with
    | none => rw [he] at h; cases h
    | some e =>
      rw [he] at h
      simp only [Option.bind_some] at h
      cases e with
      | some c =>
        simp only at h
        cases ha : addEdge st.edges stateI sn.1 c with
        | none => rw [ha] at h; cases h
        | some edges' =>
          rw [ha] at h
          simp only [Option.map_some, Option.some.injEq] at h
          subst h
          left
          exact ⟨c, edges', (findExact_mem he).1, (findExact_mem he).2, ha, rfl, rfl, rfl, rfl, rfl⟩
      | none =>
        simp only at h
        cases hw : findWeak st.core sn.2 cnds with
        | none => rw [hw] at h; cases h
        | some m =>
          rw [hw] at h
          simp only [Option.bind_some] at h
          cases m with
          | some k =>
            simp only at h
            obtain ⟨hk, ck, hck, hwc⟩ := findWeak_mem hw
            unfold mergeInto at h
            cases ha : addEdge st.edges stateI sn.1 k with
            | none => rw [ha] at h; cases h
            | some edges' =>
              rw [ha, hck] at h
              simp only [Option.bind_some] at h
              cases hm : weaklyMerge ck sn.2 with
              | none => rw [hm] at h; cases h
              | some m =>
                rw [hm] at h
                simp only [Option.bind_some] at h
                cases hcl : st.closed[k]? with
                | none => rw [hcl] at h; cases h
                | some clk =>
                  rw [hcl] at h
                  simp only [Option.map_some, Option.some.injEq] at h
                  right; left
                  refine ⟨k, edges', ck, m.1, m.2, clk, hk, hck, hwc, ha, hm, hcl, ?_⟩
                  subst h
                  by_cases hb : (m.2 && clk.isSome) = true
                  · rw [if_pos hb]; simp only [if_pos hb]; refine ⟨?_, ?_, ?_, ?_, ?_⟩ <;> first | trivial | rfl
                  · rw [if_neg hb]; simp only [if_neg hb]; refine ⟨?_, ?_, ?_, ?_, ?_⟩ <;> first | trivial | rfl
          | none =>
            simp only at h
            unfold newState at h
            split at h
            · cases h
            · cases hp : cndPush st st.core.length sn.1 with
              | none => rw [hp] at h; cases h
              | some cnd =>
                rw [hp] at h
                simp only [Option.bind_some] at h
                cases ha : addEdge st.edges stateI sn.1 st.core.length with
                | none => rw [ha] at h; cases h
                | some edges' =>
                  rw [ha] at h
                  simp only [Option.map_some, Option.some.injEq] at h
                  subst h
                  right; right
                  exact ⟨edges', cnd, rfl, rfl, rfl, rfl, rfl, rfl, rfl⟩

theorem cndPush_mem {st : St} {x : Nat} {sym : Sym} {cnd : List (List Nat) × List (List Nat)}
    (h : cndPush st x sym = some cnd) :
    (∀ l ∈ cnd.1, ∀ k ∈ l, k = x ∨ ∃ l' ∈ st.cndRule, k ∈ l') ∧ (∀ l ∈ cnd.2, ∀ k ∈ l, k = x ∨ ∃ l' ∈ st.cndTok, k ∈ l') := by
  cases sym with
  | rule r =>
    simp only [cndPush] at h
    cases hr : st.cndRule[r]? with
    | none => rw [hr] at h; cases h
    | some l0 =>
      rw [hr] at h
      simp only [Option.map_some, Option.some.injEq] at h
      subst h
      refine ⟨?_, fun l hl k hk => Or.inr ⟨l, hl, hk⟩⟩
      intro l hl k hk
      rcases List.mem_or_eq_of_mem_set hl with h1 | h1
      · exact Or.inr ⟨l, h1, hk⟩
      · subst h1
        rcases List.mem_append.mp hk with h2 | h2
        · exact Or.inr ⟨l0, List.mem_of_getElem? hr, h2⟩
        · exact Or.inl (List.mem_singleton.mp h2)
  | tok t =>
    simp only [cndPush] at h
    cases hr : st.cndTok[t]? with
    | none => rw [hr] at h; cases h
    | some l0 =>
      rw [hr] at h
      simp only [Option.map_some, Option.some.injEq] at h
      subst h
      refine ⟨fun l hl k hk => Or.inr ⟨l, hl, hk⟩, ?_⟩
      intro l hl k hk
      rcases List.mem_or_eq_of_mem_set hl with h1 | h1
      · exact Or.inr ⟨l, h1, hk⟩
      · subst h1
        rcases List.mem_append.mp hk with h2 | h2
        · exact Or.inr ⟨l0, List.mem_of_getElem? hr, h2⟩
        · exact Or.inl (List.mem_singleton.mp h2)

/-! ### the invariant, part A: cores, closures, ranges -/

structure InvA (G : Grammar) (st : St) : Prop where
  len1 : st.closed.length = st.core.length
  len2 : st.edges.length = st.core.length
  coreOk : ∀ (s : Nat) (c : List Item), st.core[s]? = some c → ItemsOk G c
  start : st.core[0]? = some [⟨G.startProd, 0, [G.eof]⟩]
  cndR : ∀ l ∈ st.cndRule, ∀ k ∈ l, 0 < k ∧ k < st.core.length
  cndT : ∀ l ∈ st.cndTok, ∀ k ∈ l, 0 < k ∧ k < st.core.length
  closedOk : ∀ (s : Nat) (cl c : List Item), st.closed[s]? = some (some cl) → st.core[s]? = some c → ClosedOf G c cl
  edgeRange : ∀ (s : Nat) (es : List (Sym × Nat)), st.edges[s]? = some es → ∀ e ∈ es, e.2 < st.core.length

theorem InvA.cnd {G : Grammar} {st : St} (inv : InvA G st) {sym : Sym} {cnds : List Nat} (h : cndOf st sym = some cnds) :
    ∀ k ∈ cnds, 0 < k ∧ k < st.core.length := by
  rcases cndOf_mem h with h | h
  · exact inv.cndR _ h
  · exact inv.cndT _ h

theorem processNew_invA {G : Grammar} {maxStates stateI : Nat} {st st' : St} {sn : Sym × List Item}
    (inv : InvA G st) (hn : ItemsOk G sn.2) (h : processNew maxStates stateI st sn = some st') : InvA G st' := by
  obtain ⟨cnds, hc, hcase⟩ := processNew_cases h
  have hcnd := inv.cnd hc
  rcases hcase with ⟨c, edges', hcm, _, ha, e1, e2, e3, e4, e5⟩ |
    ⟨k, edges', ck, R, ch, clk, hk, hck, hwc, ha, hm, hclk, e1, e3, e4, e5, e2⟩ |
    ⟨edges', cnd, hp, ha, e1, e2, e3, e4, e5⟩
  · -- exact match: only an edge is added
    obtain ⟨hl, hsp⟩ := addEdge_spec ha
    refine ⟨by rw [e1, e2]; exact inv.len1, by rw [e1, e3, hl]; exact inv.len2, by rw [e1]; exact inv.coreOk,
      by rw [e1]; exact inv.start, by rw [e1, e4]; exact inv.cndR, by rw [e1, e5]; exact inv.cndT,
      by rw [e1, e2]; exact inv.closedOk, ?_⟩
    rw [e1, e3]
    intro s es hes e he
    obtain ⟨es0, hes0, hsub⟩ := hsp s es hes
    rcases hsub e he with h1 | h1
    · exact inv.edgeRange s es0 hes0 e h1
    · rw [h1]; exact (hcnd c hcm).2
  · -- weakly compatible match: merge into `k`
    obtain ⟨hl, hsp⟩ := addEdge_spec ha
    have hkr := hcnd k hk
    have hckOk := inv.coreOk k ck hck
    have hsame := weaklyCompatible_true_sameCores hckOk.2 hn.2 hwc
    obtain ⟨hR, hkeys, hgrow1, hgrow2⟩ := weaklyMerge_itemsOk hckOk hn hsame hm
    have hlen : (st.core.set k R).length = st.core.length := List.length_set
    refine ⟨?_, by rw [e1, e3, hl, hlen]; exact inv.len2, ?_, ?_, by rw [e1, e4, hlen]; exact inv.cndR,
      by rw [e1, e5, hlen]; exact inv.cndT, ?_, ?_⟩
    · rw [e1, e2, hlen]; split
      · rw [List.length_set]; exact inv.len1
      · exact inv.len1
    · rw [e1]
      intro s c hs
      by_cases hks : k = s
      · subst hks
        rw [List.getElem?_set_self hkr.2] at hs
        cases hs; exact hR
      · rw [List.getElem?_set_ne hks] at hs
        exact inv.coreOk s c hs
    · rw [e1, List.getElem?_set_ne (by omega)]; exact inv.start
    · rw [e1, e2]
      intro s cl c hcl hs
      by_cases hks : k = s
      · subst hks
        rw [List.getElem?_set_self hkr.2] at hs
        cases hs
        by_cases hb : (ch && clk.isSome) = true
        · rw [if_pos hb, List.getElem?_set_self (by rw [inv.len1]; exact hkr.2)] at hcl
          cases hcl
        · rw [if_neg hb] at hcl
          rw [hclk] at hcl
          cases hcl
          have hch : ch = false := by
            cases ch with
            | false => rfl
            | true => exact absurd (by simp) hb
          subst hch
          have := weaklyMerge_unchanged ck sn.2 R hm
          subst this
          exact inv.closedOk k cl R hclk hck
      · rw [List.getElem?_set_ne hks] at hs
        have hcl' : st.closed[s]? = some (some cl) := by
          split at hcl
          · rwa [List.getElem?_set_ne hks] at hcl
          · exact hcl
        exact inv.closedOk s cl c hcl' hs
    · rw [e1, e3, hlen]
      intro s es hes e he
      obtain ⟨es0, hes0, hsub⟩ := hsp s es hes
      rcases hsub e he with h1 | h1
      · exact inv.edgeRange s es0 hes0 e h1
      · rw [h1]; exact hkr.2
  · -- a new state
    obtain ⟨hl, hsp⟩ := addEdge_spec ha
    obtain ⟨hp1, hp2⟩ := cndPush_mem hp
    have hpos : 0 < st.core.length := by
      have := inv.start
      by_cases h0 : 0 < st.core.length
      · exact h0
      · rw [List.getElem?_eq_none (by omega)] at this; cases this
    refine ⟨by rw [e1, e2]; simp [inv.len1], by rw [e1, e3]; simp [hl, inv.len2], ?_, ?_, ?_, ?_, ?_, ?_⟩
    · rw [e1]
      intro s c hs
      by_cases hlt : s < st.core.length
      · rw [List.getElem?_append_left hlt] at hs; exact inv.coreOk s c hs
      · rw [List.getElem?_append_right (by omega)] at hs
        have : s - st.core.length = 0 := by
          by_cases h0 : s - st.core.length = 0
          · exact h0
          · rw [List.getElem?_singleton, if_neg h0] at hs; cases hs
        rw [this] at hs
        simp at hs; subst hs; exact hn
    · rw [e1, List.getElem?_append_left hpos]; exact inv.start
    · rw [e1, e4]
      intro l hl' k hk
      simp only [List.length_append, List.length_singleton]
      rcases hp1 l hl' k hk with h1 | ⟨l', hl'', hk'⟩
      · omega
      · have := inv.cndR l' hl'' k hk'; omega
    · rw [e1, e5]
      intro l hl' k hk
      simp only [List.length_append, List.length_singleton]
      rcases hp2 l hl' k hk with h1 | ⟨l', hl'', hk'⟩
      · omega
      · have := inv.cndT l' hl'' k hk'; omega
    · rw [e1, e2]
      intro s cl c hcl hs
      by_cases hlt : s < st.core.length
      · rw [List.getElem?_append_left hlt] at hs
        rw [List.getElem?_append_left (by rw [inv.len1]; exact hlt)] at hcl
        exact inv.closedOk s cl c hcl hs
      · rw [List.getElem?_append_right (by rw [inv.len1]; omega)] at hcl
        by_cases h0 : s - st.closed.length = 0
        · rw [h0] at hcl; simp at hcl
        · rw [List.getElem?_singleton, if_neg h0] at hcl; cases hcl
    · rw [e1, e3]
      intro s es hes e he
      simp only [List.length_append, List.length_singleton]
      by_cases hlt : s < edges'.length
      · rw [List.getElem?_append_left hlt] at hes
        obtain ⟨es0, hes0, hsub⟩ := hsp s es hes
        rcases hsub e he with h1 | h1
        · have := inv.edgeRange s es0 hes0 e h1; omega
        · rw [h1]; simp
      · rw [List.getElem?_append_right (by omega)] at hes
        by_cases h0 : s - edges'.length = 0
        · rw [h0] at hes; simp at hes; subst hes; cases he
        · rw [List.getElem?_singleton, if_neg h0] at hes; cases hes

theorem processAll_invA {G : Grammar} {maxStates stateI : Nat} (news : List (Sym × List Item)) :
    ∀ {st st' : St}, InvA G st → (∀ sn ∈ news, ItemsOk G sn.2) →
      processAll maxStates stateI st news = some st' → InvA G st' := by
  induction news with
  | nil => intro st st' inv _ h; simp only [processAll, Option.some.injEq] at h; subst h; exact inv
  | cons sn rest ih =>
    intro st st' inv hn h
    simp only [processAll] at h
    cases hp : processNew maxStates stateI st sn with
    | none => rw [hp] at h; cases h
    | some st1 =>
      rw [hp] at h
      simp only [Option.bind_some] at h
      exact ih (processNew_invA inv (hn sn (List.mem_cons_self ..)) hp)
        (fun x hx => hn x (List.mem_cons_of_mem _ hx)) h

/-! ### one iteration, the main loop -/

/-- `C16.close_impl_exact`, from the lemma files (the property file cannot be imported here) -/
theorem C16aux {G : Grammar} (hwf : G.wf = true) {N : Nat → Bool} {F : Nat × Nat → Bool}
    (hN : ∀ r, N r = true ↔ Spec.NullableR G r) (hF : ∀ r t, F (r, t) = true ↔ Spec.FirstP G r t)
    (core : List Item) (hcore : ItemsOk G core)
    (order : List (Nat × Nat)) (horder : ∀ p d, (p, d) ∈ order ↔ HasItem core p d) :
    ∃ R, close G N F core order (closeFuel G order) = .done R ∧ KeysNodup R ∧
      (∀ p d, HasItem R p d ↔ ClosureP G core (.item p d)) ∧
      (∀ p d t, HasLa R p d t ↔ ClosureP G core (.la p d t)) := by
  have hnd := hcore.2
  have hcore := hcore.1
  have hinv : Inv G N F core order [] core := by
    refine ⟨⟨hnd, ?_, ?_⟩, ?_, ?_, ?_, ?_, ?_⟩
    · rintro p d ⟨i, hi, rfl, rfl⟩; exact .kitem i hi
    · rintro p d t ⟨i, hi, rfl, rfl, ht⟩; exact .kla i t hi ht
    · intro i hi; exact ⟨i, hi, rfl, rfl⟩
    · intro i hi t ht; exact ⟨i, hi, rfl, rfl, ht⟩
    · intro k hk; exact (horder k.1 k.2).mp hk
    · intro q hq; cases hq
    · intro p d h; exact Or.inl ((horder p d).mpr h)
  have hm := missingOf_le_universe G core
  obtain ⟨R, hR, hfin⟩ := loop_spec hwf hN hF hcore (closeFuel G order) order [] core hinv
    (by simp only [closeFuel]; simp only [List.length_nil]; omega)
  obtain ⟨h1, h2⟩ := inv_final_exact hwf hN hF hcore hfin
  exact ⟨R, hR, hfin.sound.nodup, h1, h2⟩


theorem Res.bind_ok {α β : Type} {x : Res α} {f : α → Res β} {r : β} (h : x.bind f = .ok r) :
    ∃ a, x = .ok a ∧ f a = .ok r := by
  cases x with
  | ok a => exact ⟨a, rfl, h⟩
  | panic => cases h
  | fuelOut => cases h
  | badOrder => cases h

theorem ofOption_ok {α : Type} {o : Option α} {a : α} (h : ofOption o = .ok a) : o = some a := by
  cases o with
  | none => cases h
  | some b => simp only [ofOption, Res.ok.injEq] at h; rw [h]

theorem closeRes_ok {r : CloseImpl.Res} {cl : List Item} (h : closeRes r = .ok cl) : r = .done cl := by
  cases r with
  | done is => simp only [closeRes, Res.ok.injEq] at h; rw [h]
  | panic => cases h
  | fuelOut => cases h

theorem keysOk_iff {is : List Item} {keys : List (Nat × Nat)} (h : keysOk is keys = true) :
    ∀ p d, (p, d) ∈ keys ↔ HasItem is p d := by
  simp only [keysOk, Bool.and_eq_true, List.all_eq_true] at h
  intro p d
  constructor
  · intro hm; exact hasKey_iff.mp (h.1 (p, d) hm)
  · rintro ⟨i, hi, rfl, rfl⟩
    have := h.2 i hi
    simpa using this

theorem symLoop_goto (G : Grammar) (cl : List Item) (keys : List (Nat × Nat)) :
    ∀ (sR sT : List Nat) (news : List (Sym × List Item)), symLoop G cl keys sR sT = some news →
      ∀ sn ∈ news, goto G sn.1 cl = some sn.2 := by
  induction keys with
  | nil => intro sR sT news h; simp only [symLoop, Option.some.injEq] at h; subst h; intro sn hsn; cases hsn
  | cons k rest ih =>
    intro sR sT news h
    simp only [symLoop] at h
    split at h
    · split at h
      · exact ih _ _ _ h
      · split at h
        · cases h
        · rename_i sym hsym
          split at h
          · cases h
          · exact ih _ _ _ h
          · cases hg : goto G sym cl with
            | none => rw [hg] at h; cases h
            | some n =>
              rw [hg] at h
              simp only [Option.bind_some] at h
              cases hr : symLoop G cl rest (seenSetR sR sym) (seenSetT sT sym) with
              | none => rw [hr] at h; cases h
              | some r =>
                rw [hr] at h
                simp only [Option.map_some, Option.some.injEq] at h
                subst h
                intro sn hsn
                rcases List.mem_cons.mp hsn with rfl | hsn
                · exact hg
                · exact ih _ _ _ hr sn hsn
    · cases h

theorem iter_invA {G : Grammar} (hwf : G.wf = true) {N : Nat → Bool} {F : Nat × Nat → Bool}
    (hN : ∀ r, N r = true ↔ Spec.NullableR G r) (hF : ∀ r t, F (r, t) = true ↔ Spec.FirstP G r t)
    {maxStates : Nat} {o : Order} {st : St} {r : St × Nat × List Sym}
    (inv : InvA G st) (h : iter G N F maxStates o st = .ok r) : InvA G r.1 := by
  unfold iter at h
  obtain ⟨stateI, h1, h⟩ := Res.bind_ok h
  obtain ⟨core, h2, h⟩ := Res.bind_ok h
  have hcore := ofOption_ok h2
  split at h
  · cases h
  rename_i hk1
  obtain ⟨cl, h3, h⟩ := Res.bind_ok h
  split at h
  · cases h
  rename_i hk2
  obtain ⟨news, h4, h⟩ := Res.bind_ok h
  obtain ⟨st2, h5, h⟩ := Res.bind_ok h
  simp only [Res.ok.injEq] at h
  subst h
  have hcOk := inv.coreOk stateI core hcore
  have hk1' : keysOk core o.coreKeys = true := by simpa using hk1
  obtain ⟨R, hR, hRnd, hRi, hRl⟩ := C16aux hwf hN hF core hcOk o.coreKeys (keysOk_iff hk1')
  have hcl : cl = R := by
    have := closeRes_ok h3
    rw [hR] at this; cases this; rfl
  subst hcl
  have hclosed : ClosedOf G core cl := ⟨hRnd, hRi, hRl⟩
  have hclOk := closedOf_coreOk hwf hcOk.1 hclosed
  have hlt : stateI < st.core.length := by
    by_cases hlt : stateI < st.core.length
    · exact hlt
    · rw [List.getElem?_eq_none (by omega)] at hcore; cases hcore
  have inv1 : InvA G { st with closed := st.closed.set stateI (some cl), todoOff := stateI + 1, todo := st.todo - 1 } := by
    refine ⟨by simp [inv.len1], inv.len2, inv.coreOk, inv.start, inv.cndR, inv.cndT, ?_, inv.edgeRange⟩
    intro s cl' c hcl' hs
    simp only at hcl' hs
    by_cases hss : stateI = s
    · subst hss
      rw [List.getElem?_set_self (by rw [inv.len1]; exact hlt)] at hcl'
      cases hcl'
      rw [hcore] at hs; cases hs
      exact hclosed
    · rw [List.getElem?_set_ne hss] at hcl'
      exact inv.closedOk s cl' c hcl' hs
  have hnews := symLoop_goto G cl o.closedKeys [] [] news (ofOption_ok h4)
  exact processAll_invA news inv1 (fun sn hsn => (goto_itemsOk hclOk.1 (hnews sn hsn)).1) (ofOption_ok h5)

theorem mainLoop_invA {G : Grammar} (hwf : G.wf = true) {N : Nat → Bool} {F : Nat × Nat → Bool}
    (hN : ∀ r, N r = true ↔ Spec.NullableR G r) (hF : ∀ r t, F (r, t) = true ↔ Spec.FirstP G r t)
    {maxStates : Nat} (orders : List Order) :
    ∀ {st : St} {r : St × List (Nat × List Sym)}, InvA G st → mainLoop G N F maxStates orders st = .ok r → InvA G r.1 := by
  induction orders with
  | nil =>
    intro st r inv h
    simp only [mainLoop] at h
    split at h
    · simp only [Res.ok.injEq] at h; subst h; exact inv
    · cases h
  | cons o rest ih =>
    intro st r inv h
    simp only [mainLoop] at h
    split at h
    · simp only [Res.ok.injEq] at h; subst h; exact inv
    · obtain ⟨r1, h1, h⟩ := Res.bind_ok h
      obtain ⟨r2, h2, h⟩ := Res.bind_ok h
      simp only [Res.ok.injEq] at h
      subst h
      have := ih (iter_invA hwf hN hF inv h1) h2
      exact this

theorem initSt_invA {G : Grammar} (hwf : G.wf = true) : InvA G (initSt G) := by
  have hw : G.startProd < G.nprods ∧ G.eof < G.ntoks := by
    simp only [Grammar.wf, Bool.and_eq_true, decide_eq_true_eq] at hwf
    exact ⟨hwf.1.2, hwf.2⟩
  refine ⟨rfl, rfl, ?_, rfl, ?_, ?_, ?_, ?_⟩
  · intro s c hs
    cases s with
    | zero =>
      simp only [initSt, List.getElem?_cons_zero, Option.some.injEq] at hs
      subst hs
      refine ⟨?_, by simp [KeysNodup, keysOf]⟩
      intro i hi
      rw [List.mem_singleton] at hi
      subst hi
      exact ⟨hw.1, Nat.zero_le _, fun t ht => by rw [List.mem_singleton] at ht; subst ht; exact hw.2⟩
    | succ s => simp [initSt] at hs
  · intro l hl k hk
    simp only [initSt] at hl
    rw [List.eq_of_mem_replicate hl] at hk; cases hk
  · intro l hl k hk
    simp only [initSt] at hl
    rw [List.eq_of_mem_replicate hl] at hk; cases hk
  · intro s cl c hcl
    cases s with
    | zero => simp [initSt] at hcl
    | succ s => simp [initSt] at hcl
  · intro s es hes e he
    cases s with
    | zero => simp only [initSt, List.getElem?_cons_zero, Option.some.injEq] at hes; subst hes; cases he
    | succ s => simp [initSt] at hes

theorem zipStates_spec : ∀ (core : List (List Item)) (closed : List (Option (List Item))) (zs : List (List Item × List Item)),
    closed.length = core.length → zipStates core closed = some zs →
    zs.length = core.length ∧
    ∀ (s : Nat) (z : List Item × List Item), zs[s]? = some z → core[s]? = some z.1 ∧ closed[s]? = some (some z.2) := by
  intro core
  induction core with
  | nil => intro closed zs _ h; simp only [zipStates, Option.some.injEq] at h; subst h; simp
  | cons c cs ih =>
    intro closed zs hlen h
    cases closed with
    | nil => simp at hlen
    | cons x xs =>
      cases x with
      | none => simp [zipStates] at h
      | some cl =>
        simp only [zipStates] at h
        cases hr : zipStates cs xs with
        | none => rw [hr] at h; cases h
        | some r =>
          rw [hr] at h
          simp only [Option.map_some, Option.some.injEq] at h
          subst h
          obtain ⟨h1, h2⟩ := ih xs r (by simpa using hlen) hr
          refine ⟨by simp [h1], ?_⟩
          intro s z hz
          cases s with
          | zero => simp only [List.getElem?_cons_zero, Option.some.injEq] at hz; subst hz; simp
          | succ s => simp only [List.getElem?_cons_succ] at hz ⊢; exact h2 s z hz

/-- a normal end of `pager`: the main loop ended in a state satisfying the invariant, every state was
closed, `gc` ended normally and the number of states fits -/
theorem pager_ok_invA {G : Grammar} (hwf : G.wf = true) {N : Nat → Bool} {F : Nat × Nat → Bool}
    (hN : ∀ r, N r = true ↔ Spec.NullableR G r) (hF : ∀ r t, F (r, t) = true ↔ Spec.FirstP G r t)
    {maxStates : Nat} {orders : List Order} {out : Output} (h : pager G N F maxStates orders = .ok out) :
    InvA G out.pre ∧ ∃ zs, zipStates out.pre.core out.pre.closed = some zs ∧
      gc zs 0 out.pre.edges = .ok (out.states, out.edges) ∧ out.states.length < maxStates ∧
      mainLoop G N F maxStates orders (initSt G) = .ok (out.pre, out.log) := by
  unfold pager at h
  obtain ⟨r, h1, h⟩ := Res.bind_ok h
  obtain ⟨zs, h2, h⟩ := Res.bind_ok h
  obtain ⟨g, h3, h⟩ := Res.bind_ok h
  split at h
  · cases h
  split at h
  · cases h
  rename_i hlt
  simp only [Res.ok.injEq] at h
  subst h
  have hlt' : g.1.length < maxStates := by simpa using hlt
  exact ⟨mainLoop_invA hwf hN hF orders (initSt_invA hwf) h1, zs, ofOption_ok h2, h3, hlt', h1⟩

end GrmVerif.PagerImpl
