import GrmVerif.Lemmas.MaxCostsStep
/-! The model of `rule_max_costs`, part 4: the sweeps, the outer loop (at most `nrules + 1` sweeps), the
marking of the recursive rules, and what the returned vector means. -/
namespace GrmVerif.Impl
open GrmVerif Spec Ref

theorem iterM_all {σ α : Type} (f : σ → α → Option σ) (Q : α → σ → Prop) :
    ∀ (l : List α) (I : σ → Prop) (s : σ), I s →
      (∀ s a, a ∈ l → I s → ∃ s', f s a = some s' ∧ I s' ∧ Q a s' ∧ ∀ b, Q b s → Q b s') →
      ∃ s', iterM f l s = some s' ∧ I s' ∧ ∀ a ∈ l, Q a s' := by
  intro l
  induction l with
  | nil => intro I s hI _; exact ⟨s, rfl, hI, by simp⟩
  | cons a l ih =>
    intro I s hI hf
    obtain ⟨s1, h1, hI1, hQ1, hst1⟩ := hf s a (by simp) hI
    obtain ⟨s2, h2, ⟨hI2, hQa⟩, hall⟩ := ih (fun s => I s ∧ Q a s) s1 ⟨hI1, hQ1⟩ (by
      intro s2 b hb hI2
      obtain ⟨s3, h3, hI3, hQ3, hst3⟩ := hf s2 b (by simp [hb]) hI2.1
      exact ⟨s3, h3, ⟨hI3, hst3 a hI2.2⟩, hQ3, hst3⟩)
    refine ⟨s2, by simp [iterM, h1, h2], hI2, ?_⟩
    intro b hb
    rcases List.mem_cons.mp hb with rfl | hb
    · exact hQa
    · exact hall b hb

theorem XInv.flag {G : Grammar} {tc : List Nat} {U : Nat → Nat} {s : MX} (hI : XInv G tc U s) (b : Bool) :
    XInv G tc U { s with allDone := b } :=
  ⟨hI.clen, hI.dlen, hI.le, hI.mx, hI.cyc, hI.fin, hI.real, hI.ub, hI.mono⟩

/-- after `j` sweeps the rules of rank below `j` are done -/
def Ranked (G : Grammar) (j : Nat) (s : MX) : Prop :=
  ∀ r, r < G.nrules → rho G r < j → vget s.done r = true

theorem mxSweep_spec (G : Grammar) (hwf : G.wf = true) (hprods : ∀ r, r < G.nrules → G.prodsOf r ≠ [])
    (tc : List Nat) (htc : tc.length = G.ntoks) (U : Nat → Nat) (hcert : maxCert G (tcF tc) U = true)
    (dbg : Bool) (j : Nat) (s : MX) (hI : XInv G tc U s) (hR : Ranked G j s) :
    ∃ s', mxSweep G tc dbg s = some s' ∧ XInv G tc U s' ∧
      (s'.allDone = true → ∀ i, i < G.nrules → vget s'.done i = true) ∧
      (s'.allDone = false → ∃ i, i < G.nrules ∧ vget s.done i = false) ∧
      Ranked G (j + 1) s' := by
  unfold mxSweep
  obtain ⟨s', h1, ⟨hI', hdm, hflag, hR'⟩, hall⟩ := iterM_all (mxRule G tc dbg)
    (fun i s' => (s'.allDone = true → vget s'.done i = true) ∧ (rho G i ≤ j → vget s'.done i = true))
    (List.range G.nrules)
    (fun s' => XInv G tc U s' ∧ (∀ r, vget s.done r = true → vget s'.done r = true) ∧
      (s'.allDone = false → ∃ i, i < G.nrules ∧ vget s.done i = false) ∧ Ranked G j s')
    { s with allDone := true }
    ⟨hI.flag true, fun _ h => h, (fun h => by cases h), hR⟩ (by
      intro s1 i hi ⟨hI1, hdm1, hflag1, hR1⟩
      have hi' : i < G.nrules := by simpa using hi
      obtain ⟨s2, h2, hI2, st⟩ := mxRule_spec G hwf hprods tc htc U hcert dbg s1 hI1 i hi'
      refine ⟨s2, h2, ⟨hI2, fun r h => st.dmono r (hdm1 r h), ?_, fun r hr hj => st.dmono r (hR1 r hr hj)⟩,
        ⟨?_, ?_⟩, ?_⟩
      · intro hf
        rcases st.flagF hf with h | h
        · exact hflag1 h
        · refine ⟨i, hi', ?_⟩
          cases hs : vget s.done i with
          | false => rfl
          | true => rw [hdm1 i hs] at h; cases h
      · intro ht; exact st.dmono i (st.flagT ht).2
      · intro hrho
        apply st.closes
        intro q hq
        have hqn : q < G.nrules := reach_lt hwf (reach_of_succ hq)
        by_cases hc : Cyc G q
        · exact (hI1.mx q (hI1.cyc q hqn hc)).1
        · exact hR1 q hqn (by have := rho_lt G hwf hq hc; omega)
      · intro b ⟨hb1, hb2⟩
        exact ⟨fun ht => st.dmono b (hb1 (st.flagT ht).1), fun hr => st.dmono b (hb2 hr)⟩)
  refine ⟨s', h1, hI', ?_, hflag, ?_⟩
  · intro ht i hi
    exact (hall i (by simpa using hi)).1 ht
  · intro r hr hj
    exact (hall r (by simpa using hr)).2 (by omega)

/-- the outer loop ends, with every rule done -/
theorem mxLoop_spec (G : Grammar) (hwf : G.wf = true) (hprods : ∀ r, r < G.nrules → G.prodsOf r ≠ [])
    (tc : List Nat) (htc : tc.length = G.ntoks) (U : Nat → Nat) (hcert : maxCert G (tcF tc) U = true)
    (dbg : Bool) :
    ∀ (fuel j : Nat) (s : MX), XInv G tc U s → Ranked G j s → j ≤ G.nrules → G.nrules < fuel + j →
      ∃ s', mxLoop G tc dbg fuel s = .done s'.costs ∧ XInv G tc U s' ∧
        ∀ i, i < G.nrules → vget s'.done i = true := by
  intro fuel
  induction fuel with
  | zero => intro j s _ _ hjn hlt; omega
  | succ n ih =>
    intro j s hI hR hjn hlt
    obtain ⟨s', h1, hI', hT, hF, hR'⟩ := mxSweep_spec G hwf hprods tc htc U hcert dbg j s hI hR
    simp only [mxLoop, h1]
    cases hf : s'.allDone with
    | true =>
      have hall := hT hf
      have : s'.done.all id = true := by
        rw [all_id_iff]; intro i hi; rw [hI'.dlen] at hi; exact hall i hi
      simp only [if_true, this, Bool.not_true, Bool.and_false, Bool.false_eq_true, if_false]
      exact ⟨s', rfl, hI', hall⟩
    | false =>
      simp only [Bool.false_eq_true, if_false]
      obtain ⟨i, hi, hnd⟩ := hF hf
      have hj : j < G.nrules := by
        apply Classical.byContradiction
        intro hge
        have hnc : ¬ Cyc G i := hI.notCyc hi hnd
        have := hR i hi (by have := rho_lt_n G hwf hi hnc; omega)
        rw [hnd] at this; cases this
      exact ih (j + 1) s' hI' hR' (by omega) (by omega)

end GrmVerif.Impl
