import GrmVerif.Lemmas.PagerInv
/-!
The soundness invariant of the main loop of `pager_stategraph`, part B: the edges. An edge is inserted
with its goto set included in the target's core at that moment, and cores only grow; the edges of a
state are completely regenerated when it is processed again.
-/
namespace GrmVerif.PagerImpl
open GrmVerif CloseImpl Closure

/-- `b` has the keys of `a` and every context of `a` is included in the same context of `b` -/
def Grow (a b : List Item) : Prop := keysOf b = keysOf a ∧ ∀ p d t, HasLa a p d t → HasLa b p d t

theorem Grow.refl (a : List Item) : Grow a a := ⟨rfl, fun _ _ _ h => h⟩

theorem Grow.trans {a b c : List Item} (h1 : Grow a b) (h2 : Grow b c) : Grow a c :=
  ⟨h2.1.trans h1.1, fun p d t h => h2.2 p d t (h1.2 p d t h)⟩

theorem Grow.hasItem {a b : List Item} (h : Grow a b) (p d : Nat) : HasItem b p d ↔ HasItem a p d := by
  rw [← @mem_keysOf b (p, d), h.1, mem_keysOf]

/-- the goto set of `cl` over `X` is non-empty, has the core items of `tgt`, and its contexts are included
in those of `tgt` -/
def GotoInto (G : Grammar) (cl : List Item) (X : Sym) (tgt : List Item) : Prop :=
  ∃ n, goto G X cl = some n ∧ n ≠ [] ∧ SameCores n tgt ∧ ∀ p d t, HasLa n p d t → HasLa tgt p d t

theorem GotoInto.mono {G : Grammar} {cl : List Item} {X : Sym} {a b : List Item} (h : GotoInto G cl X a)
    (hg : Grow a b) : GotoInto G cl X b := by
  obtain ⟨n, h1, h2, h3, h4⟩ := h
  exact ⟨n, h1, h2, fun p d => (h3 p d).trans (hg.hasItem p d).symm, fun p d t hl => hg.2 p d t (h4 p d t hl)⟩

/-- `X` follows the dot of some item of the closure of `c` -/
def SymIn (G : Grammar) (c : List Item) (X : Sym) : Prop :=
  ∃ p d, ClosureP G c (.item p d) ∧ (G.rhs p)[d]? = some X

theorem closureP_item_mono {G : Grammar} {a b : List Item} (hg : Grow a b) {x : CFact} (h : ClosureP G a x) :
    ∀ p d, x = .item p d → ClosureP G b (.item p d) := by
  induction h with
  | kitem i hi =>
    intro p d e; cases e
    obtain ⟨j, hj, e1, e2⟩ := (hg.hasItem i.p i.dot).mpr ⟨i, hi, rfl, rfl⟩
    rw [← e1, ← e2]; exact .kitem j hj
  | kla i t hi ht => intro p d e; cases e
  | citem p d q _ hs hq ih =>
    intro p' d' e; cases e
    exact .citem p d q (ih p d rfl) hs hq
  | cfirst p d q t _ _ _ _ _ => intro p' d' e; cases e
  | cinherit p d q t _ _ _ _ _ _ _ => intro p' d' e; cases e

theorem SymIn.mono {G : Grammar} {a b : List Item} {X : Sym} (h : SymIn G a X) (hg : Grow a b) : SymIn G b X := by
  obtain ⟨p, d, h1, h2⟩ := h
  exact ⟨p, d, closureP_item_mono hg h1 p d rfl, h2⟩

/-- the target of edge `e` out of a state whose closed item set is `cl` -/
def EdgeOkAt (G : Grammar) (core : List (List Item)) (cl : List Item) (e : Sym × Nat) : Prop :=
  ∃ tgt, core[e.2]? = some tgt ∧ GotoInto G cl e.1 tgt

/-! ### `edgeInsert`, `addEdge` -/

theorem edgeInsert_key {es : List (Sym × Nat)} {sym : Sym} {t : Nat} {e : Sym × Nat}
    (h : e ∈ edgeInsert es sym t) (hk : e.1 = sym) : e = (sym, t) := by
  unfold edgeInsert at h
  split at h
  · obtain ⟨e0, _, rfl⟩ := List.mem_map.mp h
    by_cases hc : (e0.1 == sym) = true
    · simp [hc]
    · simp only [hc, Bool.false_eq_true, if_false] at hk
      exact absurd (by simpa using hk) hc
  · rename_i hany
    rcases List.mem_append.mp h with h | h
    · exfalso; apply hany
      rw [List.any_eq_true]; exact ⟨e, h, by simpa using hk⟩
    · exact List.mem_singleton.mp h

theorem edgeInsert_self (es : List (Sym × Nat)) (sym : Sym) (t : Nat) : (sym, t) ∈ edgeInsert es sym t := by
  unfold edgeInsert
  split
  · rename_i hany
    obtain ⟨e, he, hk⟩ := List.any_eq_true.mp hany
    exact List.mem_map.mpr ⟨e, he, by simp [hk]⟩
  · simp

theorem edgeInsert_keeps {es : List (Sym × Nat)} (sym : Sym) (t : Nat) {e : Sym × Nat} (h : e ∈ es) :
    ∃ e' ∈ edgeInsert es sym t, e'.1 = e.1 := by
  unfold edgeInsert
  split
  · by_cases hc : (e.1 == sym) = true
    · exact ⟨(sym, t), List.mem_map.mpr ⟨e, h, by simp [hc]⟩, by simpa using (beq_iff_eq.mp hc).symm⟩
    · exact ⟨e, List.mem_map.mpr ⟨e, h, by simp [hc]⟩, rfl⟩
  · exact ⟨e, List.mem_append_left _ h, rfl⟩

theorem addEdge_spec2 {edges edges' : List (List (Sym × Nat))} {s : Nat} {sym : Sym} {t : Nat}
    (h : addEdge edges s sym t = some edges') :
    (∀ s', s' ≠ s → edges'[s']? = edges[s']?) ∧
    ∃ es0, edges[s]? = some es0 ∧ edges'[s]? = some (edgeInsert es0 sym t) := by
  unfold addEdge at h
  cases hs : edges[s]? with
  | none => rw [hs] at h; cases h
  | some es0 =>
    rw [hs] at h
    simp only [Option.map_some, Option.some.injEq] at h
    subst h
    have hlt : s < edges.length := by
      by_cases hlt : s < edges.length
      · exact hlt
      · rw [List.getElem?_eq_none (by omega)] at hs; cases hs
    exact ⟨fun s' hne => List.getElem?_set_ne (Ne.symm hne), es0, rfl, List.getElem?_set_self hlt⟩

/-! ### `==` on item sets -/

theorem lookup_some_hasItem {is : List Item} {p d : Nat} {l : Ctx} (h : lookup is p d = some l) : HasItem is p d := by
  simp only [lookup, Option.map_eq_some_iff] at h
  obtain ⟨j, hj, _⟩ := h
  have h1 := List.mem_of_find?_eq_some hj
  have h2 := List.find?_some hj
  obtain ⟨e1, e2⟩ := isKey_iff.mp h2
  exact ⟨j, h1, e1, e2⟩

theorem itemsetEq_spec {a b : List Item} (ha : KeysNodup a) (hb : KeysNodup b) (h : itemsetEq a b = true) :
    SameCores a b ∧ ∀ p d t, HasLa a p d t ↔ HasLa b p d t := by
  simp only [itemsetEq, Bool.and_eq_true, beq_iff_eq, List.all_eq_true] at h
  obtain ⟨hlen, hall⟩ := h
  have hent : ∀ i ∈ a, HasItem b i.p i.dot ∧ ∀ t, t ∈ i.la ↔ HasLa b i.p i.dot t := by
    intro i hi
    have := hall i hi
    cases hl : lookup b i.p i.dot with
    | none => rw [hl] at this; simp [entryEq] at this
    | some l =>
      rw [hl] at this
      simp only [entryEq, ctxEq, subCtx, Bool.and_eq_true, List.all_eq_true, List.contains_iff_mem] at this
      have hib := lookup_some_hasItem hl
      obtain ⟨l', hl', hm⟩ := lookup_spec hb hib
      rw [hl] at hl'; cases hl'
      exact ⟨hib, fun t => ⟨fun ht => (hm t).mp (this.1 t ht), fun ht => this.2 t ((hm t).mpr ht)⟩⟩
  have hsame : SameCores a b := (sameCores_iff ha hb).mp ⟨hlen, fun p d ⟨i, hi, e1, e2⟩ => by
    rw [← e1, ← e2]; exact (hent i hi).1⟩
  refine ⟨hsame, ?_⟩
  intro p d t
  constructor
  · rintro ⟨i, hi, rfl, rfl, ht⟩
    exact ((hent i hi).2 t).mp ht
  · intro hl
    obtain ⟨i, hi, e1, e2⟩ := (hsame p d).mpr (hasLa_hasItem hl)
    subst e1 e2
    exact ⟨i, hi, rfl, rfl, ((hent i hi).2 t).mpr hl⟩

/-! ### the symbols pushed onto `new_states` -/

def seenHas (sR sT : List Nat) : Sym → Bool
  | .rule r => sR.contains r
  | .tok t => sT.contains t

theorem seenGet_some {G : Grammar} {sR sT : List Nat} {X : Sym} {b : Bool} (h : seenGet G sR sT X = some b) :
    b = seenHas sR sT X := by
  cases X with
  | rule r => simp only [seenGet] at h; split at h <;> simp_all [seenHas]
  | tok t => simp only [seenGet] at h; split at h <;> simp_all [seenHas]

theorem seenHas_set {sR sT : List Nat} {sym X : Sym} (h : seenHas (seenSetR sR sym) (seenSetT sT sym) X = true) :
    X = sym ∨ seenHas sR sT X = true := by
  cases sym <;> cases X <;> simp_all [seenHas, seenSetR, seenSetT] <;> (rcases h with h | h <;> simp_all)

/-- every symbol after the dot of a key is pushed (or was seen before); every pushed symbol follows the
dot of a key -/
theorem symLoop_syms (G : Grammar) (cl : List Item) (keys : List (Nat × Nat)) :
    ∀ (sR sT : List Nat) (news : List (Sym × List Item)), symLoop G cl keys sR sT = some news →
      (∀ k ∈ keys, ∀ X, (G.rhs k.1)[k.2]? = some X → seenHas sR sT X = true ∨ ∃ sn ∈ news, sn.1 = X) ∧
      (∀ sn ∈ news, ∃ k ∈ keys, (G.rhs k.1)[k.2]? = some sn.1) := by
  induction keys with
  | nil =>
    intro sR sT news h
    simp only [symLoop, Option.some.injEq] at h; subst h
    exact ⟨fun k hk => (List.not_mem_nil hk).elim, fun sn hsn => (List.not_mem_nil hsn).elim⟩
  | cons k rest ih =>
    intro sR sT news h
    simp only [symLoop] at h
    split at h
    · split at h
      · rename_i hlen
        obtain ⟨a, b⟩ := ih _ _ _ h
        refine ⟨?_, fun sn hsn => ?_⟩
        · intro k' hk' X hX
          rcases List.mem_cons.mp hk' with rfl | hk'
          · rw [hlen] at hX; simp at hX
          · exact a k' hk' X hX
        · obtain ⟨k', hk', hh⟩ := b sn hsn
          exact ⟨k', List.mem_cons_of_mem _ hk', hh⟩
      · split at h
        · cases h
        · rename_i sym hsym
          split at h
          · cases h
          · rename_i hseen
            have hs := seenGet_some hseen
            obtain ⟨a, b⟩ := ih _ _ _ h
            refine ⟨?_, fun sn hsn => ?_⟩
            · intro k' hk' X hX
              rcases List.mem_cons.mp hk' with rfl | hk'
              · rw [hsym] at hX; cases hX; exact Or.inl hs.symm
              · exact a k' hk' X hX
            · obtain ⟨k', hk', hh⟩ := b sn hsn
              exact ⟨k', List.mem_cons_of_mem _ hk', hh⟩
          · cases hg : goto G sym cl with
            | none => rw [hg] at h; cases h
            | some n =>
              rw [hg] at h
              simp only [Option.bind_some] at h
              cases hr : symLoop G cl rest (seenSetR sR sym) (seenSetT sT sym) with
              | none => rw [hr] at h; cases h
              | some r =>
                rw [hr] at h
                simp only [Option.map_some, Option.some.injEq] at h
                subst h
                obtain ⟨a, b⟩ := ih _ _ _ hr
                refine ⟨?_, fun sn hsn => ?_⟩
                · intro k' hk' X hX
                  rcases List.mem_cons.mp hk' with rfl | hk'
                  · rw [hsym] at hX; cases hX
                    exact Or.inr ⟨(sym, n), List.mem_cons_self .., rfl⟩
                  · rcases a k' hk' X hX with h1 | ⟨sn, hsn, e⟩
                    · rcases seenHas_set h1 with rfl | h2
                      · exact Or.inr ⟨(X, n), List.mem_cons_self .., rfl⟩
                      · exact Or.inl h2
                    · exact Or.inr ⟨sn, List.mem_cons_of_mem _ hsn, e⟩
                · rcases List.mem_cons.mp hsn with rfl | hsn
                  · exact ⟨k, List.mem_cons_self .., hsym⟩
                  · obtain ⟨k', hk', hh⟩ := b sn hsn
                    exact ⟨k', List.mem_cons_of_mem _ hk', hh⟩
    · cases h

/-! ### the invariant, part B -/

/-- edges of the closed states (except the one being processed, `skip`) and symbols of all edges -/
structure InvB (G : Grammar) (st : St) (skip : Option Nat) : Prop where
  edgeOk : ∀ (s : Nat) (cl : List Item) (es : List (Sym × Nat)), some s ≠ skip →
    st.closed[s]? = some (some cl) → st.edges[s]? = some es →
      (∀ e ∈ es, EdgeOkAt G st.core cl e) ∧
      (∀ p d X, HasItem cl p d → (G.rhs p)[d]? = some X → ∃ e ∈ es, e.1 = X)
  staleOk : ∀ (s : Nat) (c : List Item) (es : List (Sym × Nat)), st.core[s]? = some c → st.edges[s]? = some es →
    ∀ e ∈ es, SymIn G c e.1

/-- the state being processed: its core has only grown since it was closed to `cl`; the edges for the
symbols handled so far (`done`) are in place and sound -/
structure InvP (G : Grammar) (st : St) (stateI : Nat) (core0 cl : List Item) (done : List Sym) : Prop where
  grow : ∃ c, st.core[stateI]? = some c ∧ Grow core0 c
  curCl : ∀ cl', st.closed[stateI]? = some (some cl') → cl' = cl
  cur : ∀ es, st.closed[stateI]? = some (some cl) → st.edges[stateI]? = some es →
    (∀ e ∈ es, e.1 ∈ done → EdgeOkAt G st.core cl e) ∧ (∀ X ∈ done, ∃ e ∈ es, e.1 = X)

theorem EdgeOkAt.mono {G : Grammar} {core core' : List (List Item)} {cl : List Item} {e : Sym × Nat}
    (h : EdgeOkAt G core cl e)
    (hcg : ∀ (s : Nat) (x : List Item), core[s]? = some x → ∃ x', core'[s]? = some x' ∧ Grow x x') :
    EdgeOkAt G core' cl e := by
  obtain ⟨tgt, h1, h2⟩ := h
  obtain ⟨x', h3, h4⟩ := hcg _ _ h1
  exact ⟨x', h3, h2.mono h4⟩

theorem getElem?_some_lt {α : Type} {l : List α} {i : Nat} {a : α} (h : l[i]? = some a) : i < l.length := by
  by_cases hlt : i < l.length
  · exact hlt
  · rw [List.getElem?_eq_none (by omega)] at h; cases h

theorem getElem?_of_lt {α : Type} {l : List α} {i : Nat} (h : i < l.length) : ∃ a, l[i]? = some a :=
  ⟨l[i], List.getElem?_eq_getElem h⟩

/-- one step of the inner loop, abstractly: cores grow pointwise, closed states stay as they were or are
re-opened, only the edge map of `stateI` changes (by one insertion whose target is sound), new states
have no edges -/
theorem step_invB {G : Grammar} {st st' : St} {stateI : Nat} {core0 cl : List Item} {done : List Sym}
    {sym : Sym} {t : Nat} {es0 : List (Sym × Nat)}
    (inv : InvA G st) (invB : InvB G st (some stateI)) (invP : InvP G st stateI core0 cl done)
    (hcg : ∀ (s : Nat) (x : List Item), st.core[s]? = some x → ∃ x', st'.core[s]? = some x' ∧ Grow x x')
    (hcl : ∀ (s : Nat) (cl' : List Item), st'.closed[s]? = some (some cl') → st.closed[s]? = some (some cl'))
    (hedges : ∀ (s : Nat), s ≠ stateI → ∀ es : List (Sym × Nat), st'.edges[s]? = some es →
      st.edges[s]? = some es ∨ (es = [] ∧ st.core[s]? = none))
    (he0 : st.edges[stateI]? = some es0) (he1 : st'.edges[stateI]? = some (edgeInsert es0 sym t))
    (hnew : st'.closed[stateI]? = some (some cl) → EdgeOkAt G st'.core cl (sym, t))
    (hsym : SymIn G core0 sym) :
    InvB G st' (some stateI) ∧ InvP G st' stateI core0 cl (sym :: done) := by
  have hcore_of_edges : ∀ (s : Nat) (es : List (Sym × Nat)), st.edges[s]? = some es → ∃ c, st.core[s]? = some c := by
    intro s es hes
    exact getElem?_of_lt (by rw [← inv.len2]; exact getElem?_some_lt hes)
  constructor
  · constructor
    · intro s cl' es hne hc he
      have hne' : s ≠ stateI := fun e => hne (by rw [e])
      have hc0 := hcl s cl' hc
      rcases hedges s hne' es he with h1 | ⟨_, h2⟩
      · obtain ⟨a, b⟩ := invB.edgeOk s cl' es hne hc0 h1
        exact ⟨fun e he' => (a e he').mono hcg, b⟩
      · have := getElem?_some_lt hc0
        rw [inv.len1] at this
        rw [List.getElem?_eq_none_iff] at h2; omega
    · intro s c' es hc' he e hee
      by_cases hs : s = stateI
      · subst hs
        rw [he1] at he; cases he
        obtain ⟨c, hc, hg⟩ := invP.grow
        obtain ⟨x', hx', hg'⟩ := hcg _ _ hc
        rw [hc'] at hx'; cases hx'
        rcases mem_edgeInsert hee with h1 | h1
        · exact (invB.staleOk s c es0 hc he0 e h1).mono hg'
        · rw [h1]; exact hsym.mono (hg.trans hg')
      · rcases hedges s hs es he with h1 | ⟨h2, _⟩
        · obtain ⟨c, hc⟩ := hcore_of_edges s es h1
          obtain ⟨x', hx', hg'⟩ := hcg _ _ hc
          rw [hc'] at hx'; cases hx'
          exact (invB.staleOk s c es hc h1 e hee).mono hg'
        · subst h2; cases hee
  · constructor
    · obtain ⟨c, hc, hg⟩ := invP.grow
      obtain ⟨x', hx', hg'⟩ := hcg _ _ hc
      exact ⟨x', hx', hg.trans hg'⟩
    · intro cl' hc
      exact invP.curCl cl' (hcl _ _ hc)
    · intro es hc he
      rw [he1] at he; cases he
      obtain ⟨a0, b0⟩ := invP.cur es0 (hcl _ _ hc) he0
      constructor
      · intro e hee hd
        by_cases hk : e.1 = sym
        · rw [edgeInsert_key hee hk]; exact hnew hc
        · rcases mem_edgeInsert hee with h1 | h1
          · rcases List.mem_cons.mp hd with h2 | h2
            · exact absurd h2 hk
            · exact (a0 e h1 h2).mono hcg
          · rw [h1] at hk; exact absurd rfl hk
      · intro X hX
        rcases List.mem_cons.mp hX with rfl | hX
        · exact ⟨_, edgeInsert_self es0 X t, rfl⟩
        · obtain ⟨e, he, hk⟩ := b0 X hX
          obtain ⟨e', he', hk'⟩ := edgeInsert_keeps sym t he
          exact ⟨e', he', hk'.trans hk⟩

theorem processNew_invB {G : Grammar} {maxStates stateI : Nat} {st st' : St} {sn : Sym × List Item}
    {core0 cl : List Item} {done : List Sym}
    (inv : InvA G st) (invB : InvB G st (some stateI)) (invP : InvP G st stateI core0 cl done)
    (hg : goto G sn.1 cl = some sn.2) (hne : sn.2 ≠ []) (hn : ItemsOk G sn.2) (hsym : SymIn G core0 sn.1)
    (h : processNew maxStates stateI st sn = some st') :
    InvB G st' (some stateI) ∧ InvP G st' stateI core0 cl (sn.1 :: done) := by
  obtain ⟨cnds, hc, hcase⟩ := processNew_cases h
  have hcnd := inv.cnd hc
  rcases hcase with ⟨c, edges', hcm, ⟨cs, hcs, heq⟩, ha, e1, e2, e3, e4, e5⟩ |
    ⟨k, edges', ck, R, ch, clk, hk, hck, hwc, ha, hm, hclk, e1, e3, e4, e5, e2⟩ |
    ⟨edges', cnd, hp, ha, e1, e2, e3, e4, e5⟩
  · -- exact match
    obtain ⟨hother, es0, he0, he1⟩ := addEdge_spec2 ha
    refine step_invB inv invB invP (es0 := es0) (t := c) ?_ ?_ ?_ he0 (by rw [e3]; exact he1) ?_ hsym
    · intro s x hx; exact ⟨x, by rw [e1]; exact hx, Grow.refl x⟩
    · intro s cl' hcl'; rw [e2] at hcl'; exact hcl'
    · intro s hs es hes; rw [e3, hother s hs] at hes; exact Or.inl hes
    · intro _
      obtain ⟨hsame, hla⟩ := itemsetEq_spec (inv.coreOk c cs hcs).2 hn.2 heq
      refine ⟨cs, by rw [e1]; exact hcs, sn.2, hg, hne, fun p d => (hsame p d).symm, fun p d t hl => (hla p d t).mpr hl⟩
  · -- weakly compatible match
    obtain ⟨hother, es0, he0, he1⟩ := addEdge_spec2 ha
    have hkr := hcnd k hk
    have hckOk := inv.coreOk k ck hck
    have hsame := weaklyCompatible_true_sameCores hckOk.2 hn.2 hwc
    obtain ⟨hR, hkeys, hgrow1, hgrow2⟩ := weaklyMerge_itemsOk hckOk hn hsame hm
    have hgr : Grow ck R := ⟨hkeys, hgrow1⟩
    refine step_invB inv invB invP (es0 := es0) (t := k) ?_ ?_ ?_ he0 (by rw [e3]; exact he1) ?_ hsym
    · intro s x hx
      rw [e1]
      by_cases hks : k = s
      · subst hks
        rw [hck] at hx; cases hx
        exact ⟨R, List.getElem?_set_self hkr.2, hgr⟩
      · exact ⟨x, by rw [List.getElem?_set_ne hks]; exact hx, Grow.refl x⟩
    · intro s cl' hcl'
      rw [e2] at hcl'
      split at hcl'
      · by_cases hks : k = s
        · subst hks
          rw [List.getElem?_set_self (by rw [inv.len1]; exact hkr.2)] at hcl'; cases hcl'
        · rwa [List.getElem?_set_ne hks] at hcl'
      · exact hcl'
    · intro s hs es hes; rw [e3, hother s hs] at hes; exact Or.inl hes
    · intro _
      refine ⟨R, by rw [e1]; exact List.getElem?_set_self hkr.2, sn.2, hg, hne, ?_, hgrow2⟩
      intro p d
      rw [hgr.hasItem p d]
      exact (hsame p d).symm
  · -- a new state
    obtain ⟨hother, es0, he0, he1⟩ := addEdge_spec2 ha
    obtain ⟨hl, _⟩ := addEdge_spec ha
    have hsI : stateI < edges'.length := by rw [hl]; exact getElem?_some_lt he0
    refine step_invB inv invB invP (es0 := es0) (t := st.core.length) ?_ ?_ ?_ he0
      (by rw [e3, List.getElem?_append_left hsI]; exact he1) ?_ hsym
    · intro s x hx
      exact ⟨x, by rw [e1, List.getElem?_append_left (getElem?_some_lt hx)]; exact hx, Grow.refl x⟩
    · intro s cl' hcl'
      rw [e2] at hcl'
      by_cases hlt : s < st.closed.length
      · rwa [List.getElem?_append_left hlt] at hcl'
      · rw [List.getElem?_append_right (by omega)] at hcl'
        by_cases h0 : s - st.closed.length = 0
        · rw [h0] at hcl'; simp at hcl'
        · rw [List.getElem?_singleton, if_neg h0] at hcl'; cases hcl'
    · intro s hs es hes
      rw [e3] at hes
      by_cases hlt : s < edges'.length
      · rw [List.getElem?_append_left hlt, hother s hs] at hes; exact Or.inl hes
      · rw [List.getElem?_append_right (by omega)] at hes
        by_cases h0 : s - edges'.length = 0
        · rw [h0] at hes; simp at hes
          exact Or.inr ⟨hes, List.getElem?_eq_none (by rw [← inv.len2, ← hl]; omega)⟩
        · rw [List.getElem?_singleton, if_neg h0] at hes; cases hes
    · intro _
      refine ⟨sn.2, by rw [e1, List.getElem?_append_right (Nat.le_refl _)]; simp, sn.2, hg, hne,
        fun p d => Iff.rfl, fun p d t hl => hl⟩

theorem processAll_invB {G : Grammar} {maxStates stateI : Nat} {core0 cl : List Item} (news : List (Sym × List Item)) :
    ∀ {st st' : St} {done : List Sym}, InvA G st → InvB G st (some stateI) → InvP G st stateI core0 cl done →
      (∀ sn ∈ news, goto G sn.1 cl = some sn.2 ∧ sn.2 ≠ [] ∧ ItemsOk G sn.2 ∧ SymIn G core0 sn.1) →
      processAll maxStates stateI st news = some st' →
      ∃ done', (∀ X ∈ done, X ∈ done') ∧ (∀ sn ∈ news, sn.1 ∈ done') ∧
        InvB G st' (some stateI) ∧ InvP G st' stateI core0 cl done' := by
  induction news with
  | nil =>
    intro st st' done _ invB invP _ h
    simp only [processAll, Option.some.injEq] at h; subst h
    exact ⟨done, fun X hX => hX, fun sn hsn => (List.not_mem_nil hsn).elim, invB, invP⟩
  | cons sn rest ih =>
    intro st st' done inv invB invP hn h
    simp only [processAll] at h
    cases hp : processNew maxStates stateI st sn with
    | none => rw [hp] at h; cases h
    | some st1 =>
      rw [hp] at h
      simp only [Option.bind_some] at h
      obtain ⟨h1, h2, h3, h4⟩ := hn sn (List.mem_cons_self ..)
      obtain ⟨invB1, invP1⟩ := processNew_invB inv invB invP h1 h2 h3 h4 hp
      obtain ⟨done', d1, d2, invB', invP'⟩ := ih (processNew_invA inv h3 hp) invB1 invP1
        (fun x hx => hn x (List.mem_cons_of_mem _ hx)) h
      refine ⟨done', fun X hX => d1 X (List.mem_cons_of_mem _ hX), ?_, invB', invP'⟩
      intro x hx
      rcases List.mem_cons.mp hx with rfl | hx
      · exact d1 _ (List.mem_cons_self ..)
      · exact d2 x hx

theorem iter_unfold {G : Grammar} {N : Nat → Bool} {F : Nat × Nat → Bool} {maxStates : Nat} {o : Order} {st : St}
    {r : St × Nat × List Sym} (h : iter G N F maxStates o st = .ok r) :
    ∃ stateI core cl news, st.core[stateI]? = some core ∧ keysOk core o.coreKeys = true ∧
      close G N F core o.coreKeys (closeFuel G o.coreKeys) = .done cl ∧ keysOk cl o.closedKeys = true ∧
      symLoop G cl o.closedKeys [] [] = some news ∧
      processAll maxStates stateI
        { st with closed := st.closed.set stateI (some cl), todoOff := stateI + 1, todo := st.todo - 1 } news = some r.1 ∧
      r.2.1 = stateI ∧ r.2.2 = news.map (·.1) := by
  unfold iter at h
  obtain ⟨stateI, h1, h⟩ := Res.bind_ok h
  obtain ⟨core, h2, h⟩ := Res.bind_ok h
  split at h
  · cases h
  rename_i hk1
  obtain ⟨cl, h3, h⟩ := Res.bind_ok h
  split at h
  · cases h
  rename_i hk2
  obtain ⟨news, h4, h⟩ := Res.bind_ok h
  obtain ⟨st2, h5, h⟩ := Res.bind_ok h
  simp only [Res.ok.injEq] at h
  subst h
  exact ⟨stateI, core, cl, news, ofOption_ok h2, by simpa using hk1, closeRes_ok h3, by simpa using hk2,
    ofOption_ok h4, ofOption_ok h5, rfl, rfl⟩

theorem iter_invB {G : Grammar} (hwf : G.wf = true) {N : Nat → Bool} {F : Nat × Nat → Bool}
    (hN : ∀ r, N r = true ↔ Spec.NullableR G r) (hF : ∀ r t, F (r, t) = true ↔ Spec.FirstP G r t)
    {maxStates : Nat} {o : Order} {st : St} {r : St × Nat × List Sym}
    (inv : InvA G st) (invB : InvB G st none) (h : iter G N F maxStates o st = .ok r) : InvB G r.1 none := by
  have inv2 := iter_invA hwf hN hF inv h
  obtain ⟨stateI, core, cl, news, hcore, hk1, hclose, hk2, hsym, hproc, _, _⟩ := iter_unfold h
  have hcOk := inv.coreOk stateI core hcore
  obtain ⟨R, hR, hRnd, hRi, hRl⟩ := C16aux hwf hN hF core hcOk o.coreKeys (keysOk_iff hk1)
  rw [hclose] at hR; cases hR
  have hclosed : ClosedOf G core cl := ⟨hRnd, hRi, hRl⟩
  have hclOk := closedOf_coreOk hwf hcOk.1 hclosed
  have hlt : stateI < st.core.length := getElem?_some_lt hcore
  have inv1 : InvA G { st with closed := st.closed.set stateI (some cl), todoOff := stateI + 1, todo := st.todo - 1 } := by
    refine ⟨by simp [inv.len1], inv.len2, inv.coreOk, inv.start, inv.cndR, inv.cndT, ?_, inv.edgeRange⟩
    intro s cl' c hcl' hs
    simp only at hcl' hs
    by_cases hss : stateI = s
    · subst hss
      rw [List.getElem?_set_self (by rw [inv.len1]; exact hlt)] at hcl'
      cases hcl'
      rw [hcore] at hs; cases hs
      exact hclosed
    · rw [List.getElem?_set_ne hss] at hcl'
      exact inv.closedOk s cl' c hcl' hs
  have invB1 : InvB G { st with closed := st.closed.set stateI (some cl), todoOff := stateI + 1, todo := st.todo - 1 }
      (some stateI) := by
    refine ⟨?_, invB.staleOk⟩
    intro s cl' es hne hc he
    simp only at hc he
    have hne' : stateI ≠ s := fun e => hne (by rw [e])
    rw [List.getElem?_set_ne hne'] at hc
    exact invB.edgeOk s cl' es (by simp) hc he
  have invP1 : InvP G { st with closed := st.closed.set stateI (some cl), todoOff := stateI + 1, todo := st.todo - 1 }
      stateI core cl [] := by
    refine ⟨⟨core, hcore, Grow.refl core⟩, ?_, ?_⟩
    · intro cl' hc
      simp only at hc
      rw [List.getElem?_set_self (by rw [inv.len1]; exact hlt)] at hc
      cases hc; rfl
    · intro es _ _
      exact ⟨fun e _ hd => (List.not_mem_nil hd).elim, fun X hX => (List.not_mem_nil hX).elim⟩
  have hkeys := keysOk_iff hk2
  obtain ⟨hcomplete, hsound⟩ := symLoop_syms G cl o.closedKeys [] [] news hsym
  have hgoto := symLoop_goto G cl o.closedKeys [] [] news hsym
  have hnews : ∀ sn ∈ news, goto G sn.1 cl = some sn.2 ∧ sn.2 ≠ [] ∧ ItemsOk G sn.2 ∧ SymIn G core sn.1 := by
    intro sn hsn
    obtain ⟨k, hk, hX⟩ := hsound sn hsn
    have hitem : HasItem cl k.1 k.2 := (hkeys k.1 k.2).mp hk
    obtain ⟨hOk, a1, _⟩ := goto_itemsOk hclOk.1 (hgoto sn hsn)
    refine ⟨hgoto sn hsn, ?_, hOk, ⟨k.1, k.2, (hRi _ _).mp hitem, hX⟩⟩
    intro he
    have : HasItem sn.2 k.1 (k.2 + 1) := (a1 k.1 (k.2 + 1)).mpr ⟨k.2, rfl, hitem, hX⟩
    rw [he] at this
    obtain ⟨i, hi, _⟩ := this
    cases hi
  obtain ⟨done', _, hd2, invB2, invP2⟩ := processAll_invB news inv1 invB1 invP1 hnews hproc
  -- every symbol after a dot of `cl` was handled
  have hall : ∀ p d X, HasItem cl p d → (G.rhs p)[d]? = some X → X ∈ done' := by
    intro p d X hi hX
    rcases hcomplete (p, d) ((hkeys p d).mpr hi) X hX with h1 | ⟨sn, hsn, e⟩
    · cases X <;> simp [seenHas] at h1
    · rw [← e]; exact hd2 sn hsn
  refine ⟨?_, invB2.staleOk⟩
  intro s cl' es _ hc he
  by_cases hs : s = stateI
  · subst hs
    have := invP2.curCl cl' hc
    subst this
    obtain ⟨a, b⟩ := invP2.cur es hc he
    obtain ⟨c2, hc2, _⟩ := invP2.grow
    have hcl2 := inv2.closedOk s cl' c2 hc hc2
    refine ⟨?_, fun p d X hi hX => b X (hall p d X hi hX)⟩
    intro e hee
    obtain ⟨p, d, hcp, hX⟩ := invB2.staleOk s c2 es hc2 he e hee
    exact a e hee (hall p d e.1 ((hcl2.2.1 p d).mpr hcp) hX)
  · exact invB2.edgeOk s cl' es (fun e => hs (by cases e; rfl)) hc he

theorem mainLoop_invB {G : Grammar} (hwf : G.wf = true) {N : Nat → Bool} {F : Nat × Nat → Bool}
    (hN : ∀ r, N r = true ↔ Spec.NullableR G r) (hF : ∀ r t, F (r, t) = true ↔ Spec.FirstP G r t)
    {maxStates : Nat} (orders : List Order) :
    ∀ {st : St} {r : St × List (Nat × List Sym)}, InvA G st → InvB G st none →
      mainLoop G N F maxStates orders st = .ok r → InvB G r.1 none := by
  induction orders with
  | nil =>
    intro st r _ invB h
    simp only [mainLoop] at h
    split at h
    · simp only [Res.ok.injEq] at h; subst h; exact invB
    · cases h
  | cons o rest ih =>
    intro st r inv invB h
    simp only [mainLoop] at h
    split at h
    · simp only [Res.ok.injEq] at h; subst h; exact invB
    · obtain ⟨r1, h1, h⟩ := Res.bind_ok h
      obtain ⟨r2, h2, h⟩ := Res.bind_ok h
      simp only [Res.ok.injEq] at h
      subst h
      have := ih (iter_invA hwf hN hF inv h1) (iter_invB hwf hN hF inv invB h1) h2
      exact this

theorem initSt_invB (G : Grammar) : InvB G (initSt G) none := by
  constructor
  · intro s cl es _ hc _
    cases s with
    | zero => simp [initSt] at hc
    | succ s => simp [initSt] at hc
  · intro s c es _ he e hee
    cases s with
    | zero => simp only [initSt, List.getElem?_cons_zero, Option.some.injEq] at he; subst he; cases hee
    | succ s => simp [initSt] at he

theorem pager_ok_invB {G : Grammar} (hwf : G.wf = true) {N : Nat → Bool} {F : Nat × Nat → Bool}
    (hN : ∀ r, N r = true ↔ Spec.NullableR G r) (hF : ∀ r t, F (r, t) = true ↔ Spec.FirstP G r t)
    {maxStates : Nat} {orders : List Order} {out : Output} (h : pager G N F maxStates orders = .ok out) :
    InvB G out.pre none := by
  obtain ⟨_, _, _, _, _, hml⟩ := pager_ok_invA hwf hN hF h
  exact mainLoop_invB hwf hN hF orders (initSt_invA hwf) (initSt_invB G) hml

end GrmVerif.PagerImpl
