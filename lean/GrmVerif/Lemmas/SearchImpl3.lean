import GrmVerif.Lemmas.SearchImpl2
/-!
The node invariant of the modelled search and what the `neighbours` closure does to it.

`Reach s m`: the plain sequence `s` (one of those the chain of the search node `m` stands for) is a walk
of the search graph from the error configuration, of cost `m.cf`, to a specification node with `m`'s
position, `m`'s number of trailing shifts and `m`'s "ends in a Delete" flag, whose stack is `m.pstack`
— or, for the node the `shift` function creates when reductions lead to Accept, whose stack reduces
to `m.pstack` under the next token, where it accepts.
-/
namespace GrmVerif.SearchImpl
open GrmVerif LR Rec RankImpl

def root (start : Pos) : Node := ⟨start, [], 0⟩

/-- `state_actions(st)` lists exactly the tokens whose action in `st` is not Error
(`C16.state_actions_spec`) -/
def StateActionsOK (G : Grammar) (A : Automaton) : Prop :=
  ∀ st sa, stateActionsOf A st = some sa → ∀ t, t ∈ sa ↔ (t < G.ntoks ∧ A.action st t ≠ .error)

/-- the standing hypotheses of the correctness proof -/
structure Hyps (E : Env) (start : Pos) : Prop where
  cost_pos : ∀ t, 1 ≤ E.cost t
  eof : EofNeverShifted E.G E.A
  pos : start.pos ≤ E.w.length
  sa : StateActionsOK E.G E.A
  nsucc : isSuccess E.G E.A E.w E.N (root start) = false

def StackRel (E : Env) (n : Node) (m : PNode) : Prop :=
  n.c.stack = m.pstack ∨
  (feed E.G E.A (nextTok E.G E.w n.c.pos) FUEL n.c.stack = .accept m.pstack ∧ m.pstack ≠ n.c.stack)

def Reach (E : Env) (start : Pos) (s : List Repair) (m : PNode) : Prop :=
  ∃ n, IPath E.G E.A E.w E.cost E.N (root start) s n m.cf ∧ n.c.pos = m.laidx ∧
    n.trail = numShifts m.repairs ∧
    (n.rev.head? = some .delete ↔ isDelete (lastRepair m.repairs) = true) ∧
    StackRel E n m ∧ n.c.pos ≤ E.w.length

/-- the invariant of a search node -/
def NodeInv (E : Env) (start : Pos) (m : PNode) : Prop :=
  (∀ s ∈ seqs m.repairs, Reach E start s m) ∧ okT m.repairs = true

variable {E : Env} {start : Pos}

theorem nodeInv_start (hpos : start.pos ≤ E.w.length) : NodeInv E start (startNode start) := by
  refine ⟨?_, rfl⟩
  intro s hs
  simp only [startNode, seqs, List.mem_singleton] at hs
  subst hs
  exact ⟨root start, IPath.nil _, rfl, rfl, by simp [root, startNode, lastRepair, isDelete], Or.inl rfl, hpos⟩

/-! ### `success` -/

theorem success_of_stack_eq {m : PNode} {n : Node} {b : Bool} (h : success E m = .ok b)
    (h1 : n.c.stack = m.pstack) (h2 : n.c.pos = m.laidx) (h3 : n.trail = numShifts m.repairs) :
    implSucc E.G E.A E.w E.N n = b := by
  simp only [success, endsWithShifts_iff] at h
  simp only [implSucc, h1, h2, h3]
  by_cases hN : E.N ≤ numShifts m.repairs
  · simp only [hN, decide_true, ↓reduceIte] at h
    injection h with h
    subst h
    simp [hN]
  · simp only [hN, decide_false, Bool.false_eq_true, ↓reduceIte] at h
    cases hp : m.pstack with
    | nil => rw [hp] at h; cases h
    | cons st rest =>
      rw [hp] at h
      simp only at h
      injection h with h
      subst h
      simp [hN]

theorem success_of_late {m : PNode} {la : Nat} {f : Nat} {stack : List Nat} {b : Bool}
    (h : success E m = .ok b) (hf : feed E.G E.A la f stack = .accept m.pstack)
    (hla : la = nextTok E.G E.w m.laidx) : b = true := by
  obtain ⟨st, rest, e, ha⟩ := feed_accept_top hf
  simp only [success] at h
  split at h
  · injection h with h; exact h.symm
  · rw [e] at h
    simp only at h
    injection h with h
    subst h
    rw [← hla, ha]
    rfl

/-- a node that is not a success has all its sequences end with its own stack -/
theorem reach_stack_of_not_success {m : PNode} (hs : success E m = .ok false)
    {n : Node} (hpos : n.c.pos = m.laidx) (hr : StackRel E n m) : n.c.stack = m.pstack := by
  rcases hr with h | ⟨h, _⟩
  · exact h
  · have := success_of_late hs h (by rw [hpos])
    cases this

/-! ### `shift` -/

theorem feed_shifted_top_ne_error {G : Grammar} {A : Automaton} {la : Nat} {f : Nat} {st : Nat}
    {rest s : List Nat} (h : feed G A la f (st :: rest) = .shifted s) : A.action st la ≠ .error := by
  cases f with
  | zero => simp [feed] at h
  | succ f =>
    rw [feed_succ_unfold] at h
    intro he
    simp only [he] at h
    cases h

theorem pos_lt_of_shifted (heof : EofNeverShifted E.G E.A) {pos : Nat} {stack s : List Nat}
    (h : feed E.G E.A (nextTok E.G E.w pos) FUEL stack = .shifted s) : pos < E.w.length := by
  by_cases hlt : pos < E.w.length
  · exact hlt
  · exfalso
    have hn : nextTok E.G E.w pos = E.G.eof := by
      simp only [nextTok]
      rw [List.getElem?_eq_none (by omega)]
      rfl
    rw [hn] at h
    obtain ⟨st, s', ha⟩ := feed_shifted_action h
    exact heof st s' ha

theorem applyRepair_shift_of_feed {pos : Nat} {stack s : List Nat} (hlt : pos < E.w.length)
    (h : feed E.G E.A (nextTok E.G E.w pos) FUEL stack = .shifted s) :
    applyRepair E.G E.A E.w ⟨stack, pos⟩ .shift = some ⟨s, pos + 1⟩ := by
  have hw : E.w[pos]? = some E.w[pos] := List.getElem?_eq_getElem hlt
  have hn : nextTok E.G E.w pos = E.w[pos] := by simp [nextTok, hw]
  rw [hn] at h
  simp only [applyRepair, hw, h]

/-- the members of `shiftNbrs` -/
theorem shiftNbrs_ok {m : PNode} {l : List (Nat × PNode)} (h : shiftNbrs E m = .ok l) :
    (∀ s, feed E.G E.A (nextTok E.G E.w m.laidx) FUEL m.pstack = .shifted s →
      l = [(m.cf, ⟨s, m.laidx + 1, .rep m.repairs .shift, m.cf⟩)]) ∧
    (∀ s, feed E.G E.A (nextTok E.G E.w m.laidx) FUEL m.pstack = .accept s →
      l = if m.pstack != s then [(m.cf, ⟨s, m.laidx, m.repairs, m.cf⟩)] else []) ∧
    (∀ s, feed E.G E.A (nextTok E.G E.w m.laidx) FUEL m.pstack = .error s → l = []) := by
  unfold shiftNbrs at h
  cases hf : feed E.G E.A (nextTok E.G E.w m.laidx) FUEL m.pstack with
  | shifted s =>
    rw [hf] at h; injection h with h
    refine ⟨?_, ?_, ?_⟩
    · intro s' e; injection e with e; subst e; exact h.symm
    · intro s' e; cases e
    · intro s' e; cases e
  | accept s =>
    rw [hf] at h
    simp only at h
    refine ⟨?_, ?_, ?_⟩
    · intro s' e; cases e
    · intro s' e
      injection e with e; subst e
      by_cases hne : (m.pstack != s) = true
      · rw [if_pos hne] at h; injection h with h; rw [if_pos hne]; exact h.symm
      · rw [if_neg hne] at h; injection h with h; rw [if_neg hne]; exact h.symm
    · intro s' e; cases e
  | error s =>
    rw [hf] at h; injection h with h
    refine ⟨?_, ?_, ?_⟩
    · intro s' e; cases e
    · intro s' e; cases e
    · intro s' e; exact h.symm
  | crash => rw [hf] at h; cases h
  | fuelOut => rw [hf] at h; cases h

theorem isDelete_some (r : Repair) : isDelete (some r) = true ↔ some r = some Repair.delete := by
  cases r <;> simp [isDelete]

/-- the specification node behind a sequence of a node that is not a success: same stack, and not a
success for the implementation -/
theorem reach_unfold {m : PNode} {s : List Repair} (hs : success E m = .ok false)
    (hr : Reach E start s m) :
    ∃ n, IPath E.G E.A E.w E.cost E.N (root start) s n m.cf ∧ n.c = ⟨m.pstack, m.laidx⟩ ∧
      n.trail = numShifts m.repairs ∧
      (n.rev.head? = some .delete ↔ isDelete (lastRepair m.repairs) = true) ∧
      m.laidx ≤ E.w.length ∧ implSucc E.G E.A E.w E.N n = false := by
  obtain ⟨n, h1, h2, h3, h4, h5, h6⟩ := hr
  have hst := reach_stack_of_not_success hs h2 h5
  refine ⟨n, h1, ?_, h3, h4, by rw [← h2]; exact h6, success_of_stack_eq hs hst h2 h3⟩
  cases hc : n.c with
  | mk st ps => rw [hc] at hst h2; simp only at hst h2; rw [hst, h2]

theorem nodeInv_shift (H : Hyps E start) {m : PNode} (hm : NodeInv E start m)
    (hs : success E m = .ok false) {s' : List Nat}
    (hf : feed E.G E.A (nextTok E.G E.w m.laidx) FUEL m.pstack = .shifted s') :
    NodeInv E start ⟨s', m.laidx + 1, .rep m.repairs .shift, m.cf⟩ := by
  refine ⟨?_, by simpa [okT] using hm.2⟩
  intro s2 hs2
  obtain ⟨s, hsm, rfl⟩ := mem_seqs_rep.mp hs2
  obtain ⟨n, h1, h2, h3, h4, h5, h6⟩ := reach_unfold hs (hm.1 s hsm)
  have hlt := pos_lt_of_shifted H.eof hf
  have ha := applyRepair_shift_of_feed hlt hf
  have hst : Step E.G E.A E.w E.cost E.N n .shift ⟨⟨s', m.laidx + 1⟩, .shift :: n.rev, n.trail + 1⟩ 0 :=
    Step.shift _ h6 (by rw [h2]; exact ha)
  refine ⟨_, by simpa using h1.snoc hst, rfl, ?_, ?_, Or.inl rfl, by simp only; omega⟩
  · simp [numShifts, h3]
  · simp [lastRepair, isDelete]

theorem nodeInv_accept {m : PNode} (hm : NodeInv E start m)
    (hs : success E m = .ok false) {s' : List Nat}
    (hf : feed E.G E.A (nextTok E.G E.w m.laidx) FUEL m.pstack = .accept s') (hne : m.pstack ≠ s') :
    NodeInv E start ⟨s', m.laidx, m.repairs, m.cf⟩ := by
  refine ⟨?_, hm.2⟩
  intro s hsm
  obtain ⟨n, h1, h2, h3, h4, h5, _⟩ := reach_unfold hs (hm.1 s hsm)
  refine ⟨n, h1, by rw [h2], h3, h4, Or.inr ⟨?_, ?_⟩, by rw [h2]; exact h5⟩
  · rw [h2]; exact hf
  · rw [h2]; exact fun e => hne e.symm

theorem nodeInv_delete {m : PNode} (hm : NodeInv E start m)
    (hs : success E m = .ok false) (hne : m.laidx ≠ E.w.length) :
    NodeInv E start ⟨m.pstack, m.laidx + 1, .rep m.repairs .delete,
      m.cf + E.cost (nextTok E.G E.w m.laidx)⟩ := by
  refine ⟨?_, by simpa [okT] using hm.2⟩
  intro s2 hs2
  obtain ⟨s, hsm, rfl⟩ := mem_seqs_rep.mp hs2
  obtain ⟨n, h1, h2, h3, h4, h5, h6⟩ := reach_unfold hs (hm.1 s hsm)
  have hlt : m.laidx < E.w.length := by omega
  have hw : E.w[m.laidx]? = some E.w[m.laidx] := List.getElem?_eq_getElem hlt
  have hn : nextTok E.G E.w m.laidx = E.w[m.laidx] := by simp [nextTok, hw]
  have hst : Step E.G E.A E.w E.cost E.N n .delete ⟨⟨n.c.stack, n.c.pos + 1⟩, .delete :: n.rev, 0⟩
      (E.cost E.w[m.laidx]) := Step.delete _ h6 (by rw [h2]; exact hw)
  rw [h2] at hst
  refine ⟨_, by rw [hn]; exact h1.snoc hst, rfl, ?_, ?_, Or.inl rfl, by simp only; omega⟩
  · simp [numShifts]
  · simp [lastRepair, isDelete]

theorem nodeInv_insert (H : Hyps E start) {m : PNode} (hm : NodeInv E start m)
    (hs : success E m = .ok false) (hnd : isDelete (lastRepair m.repairs) = false)
    {st : Nat} {sa : List Nat} (hsa : stateActionsOf E.A st = some sa)
    {t : Nat} (ht : t ∈ sa) (hne : t ≠ E.G.eof) {s' : List Nat}
    (hf : feed E.G E.A t FUEL m.pstack = .shifted s') :
    NodeInv E start ⟨s', m.laidx, .rep m.repairs (.insert t), m.cf + E.cost t⟩ := by
  refine ⟨?_, by simpa [okT] using hm.2⟩
  intro s2 hs2
  obtain ⟨s, hsm, rfl⟩ := mem_seqs_rep.mp hs2
  obtain ⟨n, h1, h2, h3, h4, h5, h6⟩ := reach_unfold hs (hm.1 s hsm)
  have htl : t < E.G.ntoks := ((H.sa st sa hsa t).mp ht).1
  have hnd' : n.rev.head? ≠ some .delete := by
    intro e; rw [h4.mp e] at hnd; cases hnd
  have hst : Step E.G E.A E.w E.cost E.N n (.insert t) ⟨⟨s', m.laidx⟩, .insert t :: n.rev, 0⟩ (E.cost t) :=
    Step.insert t _ h6 hnd' htl hne (by rw [h2]; simp only [applyRepair, hf])
  refine ⟨_, h1.snoc hst, rfl, ?_, ?_, Or.inl rfl, by simpa using h5⟩
  · simp [numShifts]
  · simp [lastRepair, isDelete]

/-! ### the members of `neighbours` -/

/-- the Insert neighbour for token `t` -/
def insNode (E : Env) (m : PNode) (t : Nat) (s' : List Nat) : Nat × PNode :=
  (m.cf + E.cost t, ⟨s', m.laidx, .rep m.repairs (.insert t), m.cf + E.cost t⟩)

theorem insertNbrs_ok {m : PNode} : ∀ {ts : List Nat} {l : List (Nat × PNode)},
    insertNbrs E m ts = .ok l →
    ∀ x, x ∈ l ↔ ∃ t ∈ ts, t ≠ E.G.eof ∧ ∃ s', feed E.G E.A t FUEL m.pstack = .shifted s' ∧
      m.cf + E.cost t ≤ U16MAX ∧ x = insNode E m t s' := by
  intro ts
  induction ts with
  | nil => intro l h x; simp only [insertNbrs] at h; injection h with h; subst h; simp
  | cons t ts ih =>
    intro l h x
    simp only [insertNbrs] at h
    by_cases he : (t == E.G.eof) = true
    · rw [if_pos he] at h
      rw [ih h x]
      simp only [beq_iff_eq] at he
      constructor
      · rintro ⟨t', h1, h2⟩; exact ⟨t', List.mem_cons_of_mem _ h1, h2⟩
      · rintro ⟨t', h1, h2, h3⟩
        rcases List.mem_cons.mp h1 with rfl | h1
        · exact absurd he h2
        · exact ⟨t', h1, h2, h3⟩
    · rw [if_neg he] at h
      simp only [beq_iff_eq] at he
      split at h
      · cases h
      · cases hf : feed E.G E.A t FUEL m.pstack with
        | shifted s =>
          rw [hf] at h
          simp only at h
          by_cases hc : m.cf + E.cost t ≤ U16MAX
          · rw [if_pos hc] at h
            cases hr : insertNbrs E m ts with
            | ok l' =>
              rw [hr] at h
              simp only [Out.map] at h
              injection h with h
              subst h
              rw [List.mem_cons, ih hr x]
              constructor
              · rintro (rfl | ⟨t', h1, h2⟩)
                · exact ⟨t, List.mem_cons_self, he, s, hf, hc, rfl⟩
                · exact ⟨t', List.mem_cons_of_mem _ h1, h2⟩
              · rintro ⟨t', h1, h2, s', h3, h4, h5⟩
                rcases List.mem_cons.mp h1 with rfl | h1
                · rw [hf] at h3; injection h3 with h3; subst h3; exact Or.inl h5
                · exact Or.inr ⟨t', h1, h2, s', h3, h4, h5⟩
            | panic => rw [hr] at h; cases h
            | fuelOut => rw [hr] at h; cases h
          · rw [if_neg hc] at h
            rw [ih h x]
            constructor
            · rintro ⟨t', h1, h2⟩; exact ⟨t', List.mem_cons_of_mem _ h1, h2⟩
            · rintro ⟨t', h1, h2, s', h3, h4, h5⟩
              rcases List.mem_cons.mp h1 with rfl | h1
              · exact absurd h4 hc
              · exact ⟨t', h1, h2, s', h3, h4, h5⟩
        | accept s =>
          rw [hf] at h
          simp only at h
          rw [ih h x]
          constructor
          · rintro ⟨t', h1, h2⟩; exact ⟨t', List.mem_cons_of_mem _ h1, h2⟩
          · rintro ⟨t', h1, h2, s', h3, h4, h5⟩
            rcases List.mem_cons.mp h1 with rfl | h1
            · rw [hf] at h3; cases h3
            · exact ⟨t', h1, h2, s', h3, h4, h5⟩
        | error s =>
          rw [hf] at h
          simp only at h
          rw [ih h x]
          constructor
          · rintro ⟨t', h1, h2⟩; exact ⟨t', List.mem_cons_of_mem _ h1, h2⟩
          · rintro ⟨t', h1, h2, s', h3, h4, h5⟩
            rcases List.mem_cons.mp h1 with rfl | h1
            · rw [hf] at h3; cases h3
            · exact ⟨t', h1, h2, s', h3, h4, h5⟩
        | crash => rw [hf] at h; cases h
        | fuelOut => rw [hf] at h; cases h

/-- the Insert part of `neighbours` -/
def insPart (E : Env) (b : Bool) (m : PNode) : Out (List (Nat × PNode)) :=
  if isDelete (lastRepair m.repairs) then .ok []
  else if b then insertAll E m else .ok []

theorem neighbours_ok {b : Bool} {m : PNode} {nbrs : List (Nat × PNode)}
    (h : neighbours E b m = .ok nbrs) :
    ∃ ins sh, insPart E b m = .ok ins ∧ shiftNbrs E m = .ok sh ∧
      nbrs = ins ++ (if b then deleteNbrs E m else []) ++ sh := by
  unfold neighbours at h
  simp only at h
  cases hi : insPart E b m with
  | ok ins =>
    unfold insPart at hi
    rw [hi] at h
    simp only at h
    cases hsft : shiftNbrs E m with
    | ok sh =>
      rw [hsft] at h
      simp only at h
      injection h with h
      exact ⟨ins, sh, rfl, rfl, h.symm⟩
    | panic => rw [hsft] at h; cases h
    | fuelOut => rw [hsft] at h; cases h
  | panic => unfold insPart at hi; rw [hi] at h; cases h
  | fuelOut => unfold insPart at hi; rw [hi] at h; cases h

theorem insPart_ok {b : Bool} {m : PNode} {ins : List (Nat × PNode)} (h : insPart E b m = .ok ins) :
    ins = [] ∨ (isDelete (lastRepair m.repairs) = false ∧ b = true ∧
      ∃ st rest sa, m.pstack = st :: rest ∧ stateActionsOf E.A st = some sa ∧ insertNbrs E m sa = .ok ins) := by
  unfold insPart at h
  by_cases hd : isDelete (lastRepair m.repairs) = true
  · rw [if_pos hd] at h; injection h with h; exact Or.inl h.symm
  · rw [if_neg hd] at h
    by_cases hb : b = true
    · rw [if_pos hb] at h
      unfold insertAll at h
      cases hp : m.pstack with
      | nil => rw [hp] at h; cases h
      | cons st rest =>
        rw [hp] at h
        simp only at h
        cases hsa : stateActionsOf E.A st with
        | none => rw [hsa] at h; cases h
        | some sa =>
          rw [hsa] at h
          simp only at h
          exact Or.inr ⟨by simpa using hd, hb, st, rest, sa, rfl, hsa, h⟩
    · rw [if_neg hb] at h; injection h with h; exact Or.inl h.symm

/-- **Every neighbour satisfies the node invariant**, carries its own cost, and costs no less than the
node it comes from -/
theorem neighbours_sound (H : Hyps E start) {m : PNode} (hm : NodeInv E start m)
    (hs : success E m = .ok false) {b : Bool} {nbrs : List (Nat × PNode)}
    (h : neighbours E b m = .ok nbrs) :
    ∀ x ∈ nbrs, x.1 = x.2.cf ∧ m.cf ≤ x.2.cf ∧ NodeInv E start x.2 := by
  obtain ⟨ins, sh, hi, hsh, rfl⟩ := neighbours_ok h
  intro x hx
  simp only [List.mem_append] at hx
  rcases hx with (hx | hx) | hx
  · -- insert
    rcases insPart_ok hi with rfl | ⟨hnd, _, st, rest, sa, hp, hsa, hins⟩
    · cases hx
    · obtain ⟨t, ht, hne, s', hf, _, rfl⟩ := (insertNbrs_ok hins x).mp hx
      exact ⟨rfl, Nat.le_add_right _ _, nodeInv_insert H hm hs hnd hsa ht hne hf⟩
  · -- delete
    by_cases hb : b = true
    · rw [if_pos hb] at hx
      unfold deleteNbrs at hx
      by_cases hl : (m.laidx == E.w.length) = true
      · rw [if_pos hl] at hx; cases hx
      · rw [if_neg hl] at hx
        simp only at hx
        split at hx
        · simp only [List.mem_singleton] at hx
          subst hx
          exact ⟨rfl, Nat.le_add_right _ _, nodeInv_delete hm hs (by simpa using hl)⟩
        · cases hx
    · rw [if_neg hb] at hx; cases hx
  · -- shift
    obtain ⟨h1, h2, h3⟩ := shiftNbrs_ok hsh
    cases hf : feed E.G E.A (nextTok E.G E.w m.laidx) FUEL m.pstack with
    | shifted s' =>
      rw [h1 s' hf] at hx
      simp only [List.mem_singleton] at hx
      subst hx
      exact ⟨rfl, Nat.le_refl _, nodeInv_shift H hm hs hf⟩
    | accept s' =>
      rw [h2 s' hf] at hx
      by_cases hne : (m.pstack != s') = true
      · rw [if_pos hne] at hx
        simp only [List.mem_singleton] at hx
        subst hx
        exact ⟨rfl, Nat.le_refl _, nodeInv_accept hm hs hf (by simpa using hne)⟩
      · rw [if_neg hne] at hx; cases hx
    | error s' => rw [h3 s' hf] at hx; cases hx
    | crash => unfold shiftNbrs at hsh; rw [hf] at hsh; cases hsh
    | fuelOut => unfold shiftNbrs at hsh; rw [hf] at hsh; cases hsh

/-- **Every edge of the search graph out of a node is among its neighbours** (with `explore_all =
false`: every Shift edge), unless its cost is not representable -/
theorem neighbours_complete_step (H : Hyps E start) {m : PNode} (hm : NodeInv E start m)
    (hs : success E m = .ok false) {b : Bool} {nbrs : List (Nat × PNode)}
    (h : neighbours E b m = .ok nbrs) {p : List Repair} (hp : p ∈ seqs m.repairs) {n n' : Node}
    (hpath : IPath E.G E.A E.w E.cost E.N (root start) p n m.cf) {r : Repair} {c0 : Nat}
    (hst : Step E.G E.A E.w E.cost E.N n r n' c0) (hb : b = true ∨ r = .shift)
    (hc : m.cf + c0 ≤ U16MAX) :
    ∃ x ∈ nbrs, x.1 = m.cf + c0 ∧ (p ++ [r]) ∈ seqs x.2.repairs := by
  obtain ⟨ins, sh, hi, hsh, rfl⟩ := neighbours_ok h
  obtain ⟨n0, h1, h2, h3, h4, h5, h6⟩ := reach_unfold hs (hm.1 p hp)
  obtain ⟨rfl, _⟩ := IPath.det hpath h1
  cases hst with
  | shift c' _ ha =>
    have hf := shift_not_accept ha
    rw [h2] at hf
    simp only at hf
    have := (shiftNbrs_ok hsh).1 _ hf
    subst this
    refine ⟨(m.cf, ⟨c'.stack, m.laidx + 1, .rep m.repairs .shift, m.cf⟩), by simp, rfl, ?_⟩
    exact mem_seqs_rep.mpr ⟨p, hp, rfl⟩
  | insert t c' _ hnd ht hne ha =>
    have hb' : b = true := by rcases hb with hb | hb; exact hb; cases hb
    have hnd' : isDelete (lastRepair m.repairs) = false := by
      cases hd : isDelete (lastRepair m.repairs) with
      | false => rfl
      | true => exact absurd (h4.mpr hd) hnd
    rcases insPart_ok hi with rfl | ⟨_, _, st, rest, sa, hpst, hsa, hins⟩
    · -- impossible: the Insert part was computed
      exfalso
      unfold insPart at hi
      rw [hnd', hb'] at hi
      simp only [Bool.false_eq_true, ↓reduceIte] at hi
      unfold insertAll at hi
      cases hpst : m.pstack with
      | nil =>
        rw [h2] at ha
        simp only [applyRepair, hpst] at ha
        have : FUEL = 1999 + 1 := rfl
        rw [this, feed_succ_unfold] at ha
        simp at ha
      | cons st rest =>
        rw [hpst] at hi
        simp only at hi
        cases hsa : stateActionsOf E.A st with
        | none => rw [hsa] at hi; cases hi
        | some sa =>
          rw [hsa] at hi
          simp only at hi
          rw [h2] at ha
          simp only [applyRepair] at ha
          cases hf : feed E.G E.A t FUEL m.pstack with
          | shifted s' =>
            have hmem : t ∈ sa := by
              rw [hpst] at hf
              exact (H.sa st sa hsa t).mpr ⟨ht, feed_shifted_top_ne_error hf⟩
            have := (insertNbrs_ok hi (insNode E m t s')).mpr ⟨t, hmem, hne, s', hf, hc, rfl⟩
            cases this
          | accept s' => rw [hf] at ha; cases ha
          | error s' => rw [hf] at ha; cases ha
          | crash => rw [hf] at ha; cases ha
          | fuelOut => rw [hf] at ha; cases ha
    · rw [h2] at ha
      simp only [applyRepair] at ha
      cases hf : feed E.G E.A t FUEL m.pstack with
      | shifted s' =>
        have hmem : t ∈ sa := by
          rw [hpst] at hf
          exact (H.sa st sa hsa t).mpr ⟨ht, feed_shifted_top_ne_error hf⟩
        have := (insertNbrs_ok hins (insNode E m t s')).mpr ⟨t, hmem, hne, s', hf, hc, rfl⟩
        refine ⟨insNode E m t s', by simp [this], rfl, ?_⟩
        exact mem_seqs_rep.mpr ⟨p, hp, rfl⟩
      | accept s' => rw [hf] at ha; cases ha
      | error s' => rw [hf] at ha; cases ha
      | crash => rw [hf] at ha; cases ha
      | fuelOut => rw [hf] at ha; cases ha
  | delete t _ hw =>
    have hb' : b = true := by rcases hb with hb | hb; exact hb; cases hb
    rw [h2] at hw
    simp only at hw
    have hlt : m.laidx < E.w.length := (List.getElem?_eq_some_iff.mp hw).1
    have hn : nextTok E.G E.w m.laidx = t := by simp [nextTok, hw]
    have hdel : deleteNbrs E m = [(m.cf + E.cost t, ⟨m.pstack, m.laidx + 1, .rep m.repairs .delete, m.cf + E.cost t⟩)] := by
      unfold deleteNbrs
      have : (m.laidx == E.w.length) = false := by simp; omega
      rw [this, hn]
      simp [hc]
    refine ⟨(m.cf + E.cost t, ⟨m.pstack, m.laidx + 1, .rep m.repairs .delete, m.cf + E.cost t⟩), ?_, rfl, ?_⟩
    · rw [hb', if_pos rfl, hdel]; simp
    · exact mem_seqs_rep.mpr ⟨p, hp, rfl⟩

/-- a node the specification regards as a success but the implementation does not (acceptance after
reductions) has, among its neighbours, a node with the SAME repairs and cost -/
theorem neighbours_complete_late {m : PNode} (hm : NodeInv E start m)
    (hs : success E m = .ok false) {b : Bool} {nbrs : List (Nat × PNode)}
    (h : neighbours E b m = .ok nbrs) {p : List Repair} (hp : p ∈ seqs m.repairs) {n : Node}
    (hpath : IPath E.G E.A E.w E.cost E.N (root start) p n m.cf)
    (hsucc : isSuccess E.G E.A E.w E.N n = true) :
    ∃ x ∈ nbrs, x.1 = m.cf ∧ x.2.repairs = m.repairs := by
  obtain ⟨ins, sh, hi, hsh, rfl⟩ := neighbours_ok h
  obtain ⟨n0, h1, h2, h3, h4, h5, h6⟩ := reach_unfold hs (hm.1 p hp)
  obtain ⟨rfl, _⟩ := IPath.det hpath h1
  simp only [isSuccess, Bool.or_eq_true, decide_eq_true_eq] at hsucc
  simp only [implSucc, Bool.or_eq_false_iff, decide_eq_false_iff_not] at h6
  rcases hsucc with hsucc | hsucc
  · exact absurd hsucc h6.1
  · rw [h2] at hsucc h6
    simp only at hsucc h6
    cases hf : feed E.G E.A (nextTok E.G E.w m.laidx) FUEL m.pstack with
    | accept s' =>
      obtain ⟨st, rest, e, hacc⟩ := feed_accept_top hf
      have hne : m.pstack ≠ s' := by
        intro e'
        rw [e', e] at h6
        simp only [hacc, beq_self_eq_true] at h6
        exact absurd h6.2 (by simp)
      have := (shiftNbrs_ok hsh).2.1 _ hf
      rw [if_pos (by simpa using hne)] at this
      subst this
      exact ⟨(m.cf, ⟨s', m.laidx, m.repairs, m.cf⟩), by simp, rfl, rfl⟩
    | shifted s' => rw [hf] at hsucc; cases hsucc
    | error s' => rw [hf] at hsucc; cases hsucc
    | crash => rw [hf] at hsucc; cases hsucc
    | fuelOut => rw [hf] at hsucc; cases hsucc

end GrmVerif.SearchImpl
