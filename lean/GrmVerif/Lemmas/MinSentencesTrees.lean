import GrmVerif.Lemmas.MinSentencesImpl
/-! The vector `min_sentences` returns, entry by entry: it is the list of the yields of ALL derivation trees
of the rule that are built from cheapest productions only, each tree exactly once (`msw_trees`). So a
sentence occurs in the vector once per such tree: duplicates are exactly ambiguities among minimal
derivations. -/
namespace GrmVerif.Impl
open GrmVerif Spec Ref

/-- a derivation tree: a token, or a production with one subtree per symbol -/
inductive DTree where
  | leaf (t : Nat)
  | node (p : Nat) (kids : List DTree)

mutual
/-- the tokens at the leaves, left to right -/
def DTree.yield : DTree → List Nat
  | .leaf t => [t]
  | .node _ kids => DTree.yieldL kids
def DTree.yieldL : List DTree → List Nat
  | [] => []
  | k :: ks => k.yield ++ DTree.yieldL ks
end

mutual
/-- `t` is a derivation tree for the symbol `s` in which every node carries a cheapest production of its
rule (its cost, every rule at its minimal cost `c`, is the minimal cost of the rule) -/
inductive TightTree (G : Grammar) (tc : Nat → Nat) (c : Nat → Option Nat) : DTree → Sym → Prop
  | leaf (t : Nat) : TightTree G tc c (.leaf t) (.tok t)
  | node (p : Nat) (kids : List DTree) (x : Nat) : p < G.nprods → c (G.lhs p) = some x →
      seqCost tc c (G.rhs p) = some x → TightForest G tc c kids (G.rhs p) →
      TightTree G tc c (.node p kids) (.rule (G.lhs p))
inductive TightForest (G : Grammar) (tc : Nat → Nat) (c : Nat → Option Nat) : List DTree → List Sym → Prop
  | nil : TightForest G tc c [] []
  | cons (k : DTree) (ks : List DTree) (s : Sym) (rest : List Sym) :
      TightTree G tc c k s → TightForest G tc c ks rest → TightForest G tc c (k :: ks) (s :: rest)
end

mutual
/-- a tree of cheapest productions is a derivation through cheapest productions of its yield -/
theorem tightTree_derives {G : Grammar} {tc : Nat → Nat} {c : Nat → Option Nat} :
    ∀ {t : DTree} {s : Sym}, TightTree G tc c t s → TightDerives G tc c s t.yield
  | _, _, .leaf t => .tok t
  | _, _, .node p kids x hp hx hsc hf => by
    simp only [DTree.yield]
    exact .rule p _ x hp hx hsc (tightForest_derives hf)
theorem tightForest_derives {G : Grammar} {tc : Nat → Nat} {c : Nat → Option Nat} :
    ∀ {ks : List DTree} {l : List Sym}, TightForest G tc c ks l → TightDerivesSeq G tc c l (DTree.yieldL ks)
  | _, _, .nil => .nil
  | _, _, .cons k ks s rest h1 h2 => by
    simp only [DTree.yieldL]
    exact .cons s rest _ _ (tightTree_derives h1) (tightForest_derives h2)
end

mutual
/-- … and every derivation through cheapest productions is the yield of such a tree -/
theorem tightDerives_tree {G : Grammar} {tc : Nat → Nat} {c : Nat → Option Nat} :
    ∀ {s : Sym} {w : List Nat}, TightDerives G tc c s w → ∃ t, TightTree G tc c t s ∧ t.yield = w
  | _, _, .tok t => ⟨.leaf t, .leaf t, rfl⟩
  | _, _, .rule p w x hp hx hsc hseq => by
    obtain ⟨ks, hf, hy⟩ := tightDerivesSeq_forest hseq
    exact ⟨.node p ks, .node p ks x hp hx hsc hf, by simpa [DTree.yield] using hy⟩
theorem tightDerivesSeq_forest {G : Grammar} {tc : Nat → Nat} {c : Nat → Option Nat} :
    ∀ {l : List Sym} {w : List Nat}, TightDerivesSeq G tc c l w →
      ∃ ks, TightForest G tc c ks l ∧ DTree.yieldL ks = w
  | _, _, .nil => ⟨[], .nil, rfl⟩
  | _, _, .cons s rest w1 w2 h1 h2 => by
    obtain ⟨k, hk, hy1⟩ := tightDerives_tree h1
    obtain ⟨ks, hks, hy2⟩ := tightDerivesSeq_forest h2
    exact ⟨k :: ks, .cons k ks s rest hk hks, by simp [DTree.yieldL, hy1, hy2]⟩
end

/-! ### products of lists -/

/-- all lists with one element of each list, the first list varying slowest -/
def prodLists {α : Type} : List (List α) → List (List α)
  | [] => [[]]
  | l :: ls => l.flatMap (fun a => (prodLists ls).map (fun xs => a :: xs))

theorem nodup_flatMap {α β : Type} (f : α → List β) : ∀ l : List α, l.Nodup → (∀ a ∈ l, (f a).Nodup) →
    (∀ a ∈ l, ∀ b ∈ l, a ≠ b → ∀ y ∈ f a, y ∉ f b) → (l.flatMap f).Nodup := by
  intro l
  induction l with
  | nil => intro _ _ _; simp
  | cons a l ih =>
    intro hn hf hd
    rw [List.nodup_cons] at hn
    rw [List.flatMap_cons, List.nodup_append]
    refine ⟨hf a (by simp), ih hn.2 (fun b hb => hf b (List.mem_cons_of_mem _ hb))
      (fun b hb b' hb' => hd b (List.mem_cons_of_mem _ hb) b' (List.mem_cons_of_mem _ hb')), ?_⟩
    intro y hy y' hy' e
    subst e
    obtain ⟨b, hb, hyb⟩ := List.mem_flatMap.mp hy'
    have hab : a ≠ b := by intro e; subst e; exact hn.1 hb
    exact hd a (by simp) b (List.mem_cons_of_mem _ hb) hab y hy hyb

theorem flatMap_congr' {α β : Type} {f g : α → List β} : ∀ l : List α, (∀ a ∈ l, f a = g a) →
    l.flatMap f = l.flatMap g := by
  intro l
  induction l with
  | nil => intro _; rfl
  | cons a l ih =>
    intro h
    rw [List.flatMap_cons, List.flatMap_cons, h a (by simp), ih (fun b hb => h b (List.mem_cons_of_mem _ hb))]

theorem nodup_map_inj {α β : Type} (f : α → β) (hinj : ∀ a b, f a = f b → a = b) :
    ∀ l : List α, l.Nodup → (l.map f).Nodup := by
  intro l
  induction l with
  | nil => intro _; simp
  | cons a l ih =>
    intro hn
    rw [List.nodup_cons] at hn
    rw [List.map_cons, List.nodup_cons]
    refine ⟨?_, ih hn.2⟩
    intro hm
    obtain ⟨b, hb, e⟩ := List.mem_map.mp hm
    rw [hinj b a e] at hb
    exact hn.1 hb

theorem prodLists_nodup {α : Type} : ∀ ls : List (List α), (∀ l ∈ ls, l.Nodup) → (prodLists ls).Nodup
  | [], _ => by simp [prodLists]
  | l :: ls, h => by
    have ih := prodLists_nodup ls (fun x hx => h x (List.mem_cons_of_mem _ hx))
    simp only [prodLists]
    apply nodup_flatMap _ l (h l (by simp))
    · intro a _
      exact nodup_map_inj _ (fun x y e => (List.cons.inj e).2) _ ih
    · intro a _ b _ hab y hy hy'
      obtain ⟨xs, _, e⟩ := List.mem_map.mp hy
      obtain ⟨ys, _, e'⟩ := List.mem_map.mp hy'
      rw [← e] at e'
      exact hab (List.cons.inj e').1.symm

/-- `xs` takes its `i`-th element from the `i`-th list -/
inductive Picks {α : Type} : List α → List (List α) → Prop
  | nil : Picks [] []
  | cons (a : α) (xs : List α) (l : List α) (ls : List (List α)) : a ∈ l → Picks xs ls → Picks (a :: xs) (l :: ls)

theorem mem_prodLists {α : Type} : ∀ (ls : List (List α)) (xs : List α), xs ∈ prodLists ls ↔ Picks xs ls
  | [], xs => by
    simp only [prodLists, List.mem_singleton]
    constructor
    · intro e; subst e; exact .nil
    · intro h; cases h; rfl
  | l :: ls, xs => by
    simp only [prodLists, List.mem_flatMap, List.mem_map]
    constructor
    · rintro ⟨a, ha, ys, hys, e⟩
      subst e
      exact .cons a ys l ls ha ((mem_prodLists ls ys).mp hys)
    · intro h
      cases h with
      | cons a ys _ _ ha hp => exact ⟨a, ha, ys, (mem_prodLists ls ys).mpr hp, rfl⟩

/-- the combinations of the yields are the yields of the products -/
theorem combos_map_yield : ∀ ls : List (List DTree),
    combos (ls.map (fun l => l.map DTree.yield)) = (prodLists ls).map DTree.yieldL
  | [] => by simp [combos, prodLists, DTree.yieldL]
  | l :: ls => by
    simp only [List.map_cons, combos, prodLists, combos_map_yield ls, List.flatMap_map, List.map_flatMap,
      List.map_map]
    rfl

/-! ### the trees behind the vector -/

/-- the trees of a symbol, given those of the rules -/
def symTrees (T : Nat → List DTree) : Sym → List DTree
  | .tok t => [.leaf t]
  | .rule q => T q

/-- the derivation trees of `r` from cheapest productions, in the order of the vector `min_sentences`
returns, for a recursion of depth `fuel` -/
def treesD (G : Grammar) (tc : List Nat) (m : List (Option Nat)) : Nat → Nat → List DTree
  | 0, _ => []
  | fuel + 1, r =>
    match look m r with
    | none => []
    | some x =>
      (cheapSet G tc m r x).flatMap (fun p =>
        (prodLists ((G.rhs p).map (symTrees (treesD G tc m fuel)))).map (fun ks => DTree.node p ks))

theorem gatherP_congr {f f' : Nat → List (List Nat)} : ∀ (l : List Sym), (∀ q, Sym.rule q ∈ l → f q = f' q) →
    gatherP f l = gatherP f' l := by
  intro l
  induction l with
  | nil => intro _; rfl
  | cons s rest ih =>
    intro h
    have h' := ih (fun q hq => h q (List.mem_cons_of_mem _ hq))
    cases s with
    | tok t => simp [gatherP, h']
    | rule q => simp [gatherP, h', h q (by simp)]

theorem gatherP_trees (T : Nat → List DTree) : ∀ l : List Sym,
    gatherP (fun q => (T q).map DTree.yield) l = (l.map (symTrees T)).map (fun l => l.map DTree.yield) := by
  intro l
  induction l with
  | nil => rfl
  | cons s rest ih =>
    cases s with
    | tok t => simp [gatherP, ih, symTrees, DTree.yield]
    | rule q => simp [gatherP, ih, symTrees]

theorem prodsOf_nodup (G : Grammar) (r : Nat) : (G.prodsOf r).Nodup := by
  unfold Grammar.prodsOf
  exact List.Pairwise.filter _ List.nodup_range

/-- a forest for `l` picks, for every symbol, one of the trees of the symbol -/
theorem picks_iff_forest (G : Grammar) (tc : Nat → Nat) (c : Nat → Option Nat) (T : Nat → List DTree) :
    ∀ (l : List Sym), (∀ q, Sym.rule q ∈ l → ∀ t, t ∈ T q ↔ TightTree G tc c t (.rule q)) →
      ∀ ks, Picks ks (l.map (symTrees T)) ↔ TightForest G tc c ks l := by
  intro l
  induction l with
  | nil =>
    intro _ ks
    constructor
    · intro h; cases h; exact .nil
    · intro h; cases h; exact .nil
  | cons s rest ih =>
    intro h ks
    have ih' := ih (fun q hq => h q (List.mem_cons_of_mem _ hq))
    have hs : ∀ k, k ∈ symTrees T s ↔ TightTree G tc c k s := by
      intro k
      cases s with
      | tok t =>
        simp only [symTrees, List.mem_singleton]
        constructor
        · intro e; subst e; exact .leaf t
        · intro hk; cases hk; rfl
      | rule q => exact h q (by simp) k
    constructor
    · intro hp
      cases hp with
      | cons a xs _ _ ha hxs => exact .cons a xs s rest ((hs a).mp ha) ((ih' xs).mp hxs)
    · intro hf
      cases hf with
      | cons k ks' _ _ hk hks => exact .cons k ks' _ _ ((hs k).mpr hk) ((ih' ks').mpr hks)

/-- **the vector, entry by entry**: whenever the recursion ends, the vector is the list of the yields of the
trees `treesD`, which has no duplicates and contains exactly the derivation trees of the rule from cheapest
productions -/
theorem msw_trees (G : Grammar) (hwf : G.wf = true) (tc : List Nat) (m : List (Option Nat))
    (htc : tc.length = G.ntoks) (hmt : MinTable G (tcF tc) m) :
    ∀ (fuel : Nat) (r x : Nat), r < G.nrules → look m r = some x → x < U16MAX →
      ∀ L, minSentencesWith G tc (some (concr m)) fuel r = .done L →
        L = (treesD G tc m fuel r).map DTree.yield ∧ (treesD G tc m fuel r).Nodup ∧
        ∀ t, t ∈ treesD G tc m fuel r ↔ TightTree G (tcF tc) (look m) t (.rule r) := by
  intro fuel
  induction fuel with
  | zero => intro r x _ _ _ L h; simp [minSentencesWith] at h
  | succ n ih =>
    intro r x hr hx hlt L hres
    simp only [minSentencesWith, cheapestProds_spec G hwf tc m htc hmt hr hx hlt] at hres
    have hinv := iterO_mssProd_inv G _ _ _ _ hres
    have hdone := iterO_mssProd_done G (minSentencesWith G tc (some (concr m)) n) (cheapSet G tc m r x) []
      (fun p hp q hq => by
        obtain ⟨L', hL'⟩ := hinv p hp q hq
        obtain ⟨_, _, _, hall⟩ := cheap_rules G hwf tc m hp hlt
        obtain ⟨hq1, x', hx', hlt'⟩ := hall q hq
        have := minSentencesWith_sound G hwf tc m htc hmt n q x' hq1 hx' hlt'
        rw [hL'] at this
        exact ⟨L', hL', this.1⟩)
    rw [hres] at hdone
    simp only [Outcome.done.injEq, List.nil_append] at hdone
    -- what the recursive calls returned
    have hsub : ∀ p ∈ cheapSet G tc m r x, ∀ q, Sym.rule q ∈ G.rhs p →
        (minSentencesWith G tc (some (concr m)) n q).val [] = (treesD G tc m n q).map DTree.yield ∧
        (treesD G tc m n q).Nodup ∧
        ∀ t, t ∈ treesD G tc m n q ↔ TightTree G (tcF tc) (look m) t (.rule q) := by
      intro p hp q hq
      obtain ⟨L', hL'⟩ := hinv p hp q hq
      obtain ⟨_, _, _, hall⟩ := cheap_rules G hwf tc m hp hlt
      obtain ⟨hq1, x', hx', hlt'⟩ := hall q hq
      have := ih q x' hq1 hx' hlt' L' hL'
      simp only [hL', Outcome.val]
      exact this
    simp only [treesD, hx]
    refine ⟨?_, ?_, ?_⟩
    · -- the vector is the list of yields
      rw [hdone, List.map_flatMap]
      apply flatMap_congr'
      intro p hp
      unfold prodSents
      rw [gatherP_congr (G.rhs p) (fun q hq => (hsub p hp q hq).1), gatherP_trees, combos_map_yield,
        List.map_map]
      apply List.map_congr_left
      intro ks _
      simp [DTree.yield]
    · -- no tree twice
      apply nodup_flatMap
      · exact List.Pairwise.filter _ (prodsOf_nodup G r)
      · intro p hp
        apply nodup_map_inj
        · intro a b e
          cases e; rfl
        · apply prodLists_nodup
          intro l hl
          obtain ⟨s, hs, rfl⟩ := List.mem_map.mp hl
          cases s with
          | tok t => simp [symTrees]
          | rule q => exact (hsub p hp q hs).2.1
      · intro p _ p' _ hpp y hy hy'
        obtain ⟨ks, _, e⟩ := List.mem_map.mp hy
        obtain ⟨ks', _, e'⟩ := List.mem_map.mp hy'
        rw [← e] at e'
        cases e'
        exact hpp rfl
    · -- exactly the trees of cheapest productions
      intro t
      simp only [List.mem_flatMap, List.mem_map]
      constructor
      · rintro ⟨p, hp, ks, hks, rfl⟩
        obtain ⟨hp1, hp2, hpc, _⟩ := cheap_rules G hwf tc m hp hlt
        have hpk := (mem_prodLists _ ks).mp hks
        have hf := (picks_iff_forest G (tcF tc) (look m) (treesD G tc m n) (G.rhs p)
          (fun q hq => (hsub p hp q hq).2.2) ks).mp hpk
        rw [← hp2]
        exact .node p ks x hp1 (by rw [hp2]; exact hx) hpc hf
      · intro ht
        generalize hs : Sym.rule r = s at ht
        cases ht with
        | leaf t => cases hs
        | node p ks x' hp1 hx' hpc hf =>
          simp only [Sym.rule.injEq] at hs
          rw [← hs, hx] at hx'
          simp only [Option.some.injEq] at hx'
          subst hx'
          have hp : p ∈ cheapSet G tc m r x := mem_cheapSet.mpr ⟨mem_prodsOf.mpr ⟨hp1, hs.symm⟩, hpc⟩
          have hpk := (picks_iff_forest G (tcF tc) (look m) (treesD G tc m n) (G.rhs p)
            (fun q hq => (hsub p hp q hq).2.2) ks).mpr hf
          exact ⟨p, hp, ks, (mem_prodLists _ ks).mpr hpk, rfl⟩

/-- the image of a list without duplicates has no duplicates exactly when the function is injective on it -/
theorem nodup_map_iff_injOn {α β : Type} (f : α → β) : ∀ T : List α, T.Nodup →
    ((T.map f).Nodup ↔ ∀ a ∈ T, ∀ b ∈ T, f a = f b → a = b) := by
  intro T
  induction T with
  | nil => intro _; simp
  | cons a T ih =>
    intro hn
    rw [List.nodup_cons] at hn
    rw [List.map_cons, List.nodup_cons, ih hn.2]
    constructor
    · rintro ⟨hna, hinj⟩ x hx y hy e
      rcases List.mem_cons.mp hx with hxa | hxT <;> rcases List.mem_cons.mp hy with hya | hyT
      · rw [hxa, hya]
      · rw [hxa] at e; exact absurd (List.mem_map.mpr ⟨y, hyT, e.symm⟩) hna
      · rw [hya] at e; exact absurd (List.mem_map.mpr ⟨x, hxT, e⟩) hna
      · exact hinj x hxT y hyT e
    · intro hinj
      refine ⟨?_, fun x hx y hy e => hinj x (List.mem_cons_of_mem _ hx) y (List.mem_cons_of_mem _ hy) e⟩
      intro hm
      obtain ⟨b, hb, e⟩ := List.mem_map.mp hm
      have := hinj b (List.mem_cons_of_mem _ hb) a (by simp) e
      subst this
      exact hn.1 hb

end GrmVerif.Impl
