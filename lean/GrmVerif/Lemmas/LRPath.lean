import GrmVerif.Lemmas.CertProps
/-! The path lemma: items of the top state of a parse stack describe what is on the stack. -/
namespace GrmVerif.Cert
open GrmVerif Spec

/-- `states` (top first) is a path of the automaton from the start state whose edge labels,
top first, are `labels` -/
inductive Path (A : Automaton) : List Nat → List Sym → Prop
  | base : Path A [A.start] []
  | step (s t : Nat) (rest : List Nat) (labels : List Sym) (X : Sym) :
      Path A (s :: rest) labels → A.edge s X = some t → Path A (t :: s :: rest) (X :: labels)

theorem Path.length_eq {A : Automaton} {states : List Nat} {labels : List Sym} (h : Path A states labels) :
    states.length = labels.length + 1 := by
  induction h with
  | base => rfl
  | step s t rest labels X _ _ ih => simp [ih]

theorem Path.states_lt {G : Grammar} {A : Automaton} (P : Props G A) {states : List Nat} {labels : List Sym}
    (h : Path A states labels) : ∀ s ∈ states, s < A.nstates := by
  induction h with
  | base => intro s hs; simp at hs; subst hs; exact P.startLt
  | step s t rest labels X hp he ih =>
    intro x hx
    rcases List.mem_cons.mp hx with rfl | hx
    · exact (P.edgeTarget s (ih s (by simp)) _ (edge_mem he)).1
    · exact ih x hx

/-- **Path lemma.** If `[p, d]` is an item of the top state of a stack path then the stack holds at
least `d` symbols, the top `d` labels spell the first `d` symbols of `p`, and `[p, 0]` is an item of
the state `d` positions down. -/
theorem path_item {G : Grammar} {A : Automaton} (P : Props G A) :
    ∀ (d : Nat) (s : Nat) (rest : List Nat) (labels : List Sym) (p : Nat),
      Path A (s :: rest) labels → HasItem (A.closed s) p d →
      d ≤ labels.length ∧ (labels.take d).reverse = (G.rhs p).take d ∧
        ∃ s', (s :: rest)[d]? = some s' ∧ HasItem (A.closed s') p 0 := by
  intro d
  induction d with
  | zero =>
    intro s rest labels p _ hi
    exact ⟨Nat.zero_le _, by simp, s, by simp, hi⟩
  | succ d ih =>
    intro s rest labels p hpath hi
    have hs : s < A.nstates := hpath.states_lt P s (by simp)
    obtain ⟨i, him, hip, hid⟩ := hi
    -- an item with the dot past the start is a kernel item
    obtain ⟨k, hkm, hkp, hkd⟩ := P.kernelOfDot s hs i him (by omega)
    cases hpath with
    | base =>
      have := P.startCore k hkm
      omega
    | step s1 _ rest1 labels1 X hp1 he =>
      obtain ⟨_, _, hcore⟩ := P.edgeTarget s1 (hp1.states_lt P s1 (by simp)) _ (edge_mem he)
      obtain ⟨hk0, hksym, hkprev⟩ := hcore k hkm
      have hkd' : k.dot = d + 1 := by omega
      have hkp' : k.p = p := by omega
      rw [hkd', hkp'] at hksym hkprev
      simp only [Nat.add_sub_cancel] at hksym hkprev
      obtain ⟨h1, h2, s', h3, h4⟩ := ih s1 rest1 labels1 p hp1 hkprev
      refine ⟨by simp; omega, ?_, s', by simpa using h3, h4⟩
      simp only [List.take_succ_cons, List.reverse_cons, h2]
      unfold symAt at hksym
      rw [List.take_add_one, hksym]
      simp

end GrmVerif.Cert
