import GrmVerif.Lemmas.LexSpecDup
/-!
Where the error lies that stops a parse: duplicates are reported unless another error stops the
parse at or before the second occurrence (`specParse_dup_rules_at`, `specParse_dup_states_at`).
-/
namespace GrmVerif.LexSpecParse
open GrmVerif.LexUnescape GrmVerif.LexParse

/-! #### Where the error that stops the parse lies -/

/-- the error list is the errors `errs` collected so far plus one parse-stopping error at a
position satisfying `P` -/
def StoppedAt (P : Nat → Prop) (errs es : List Err) : Prop :=
  ∃ k p, es = errs ++ [mkErr k p] ∧ fatalKind k = true ∧ P p

theorem StoppedAt.aborted {P : Nat → Prop} {errs es : List Err} (h : StoppedAt P errs es) : Aborted es := by
  obtain ⟨k, p, rfl, hk, _⟩ := h
  exact aborted_snoc _ _ _ hk

theorem StoppedAt.mono {P Q : Nat → Prop} {errs es : List Err} (h : StoppedAt P errs es)
    (hpq : ∀ p, P p → Q p) : StoppedAt Q errs es := by
  obtain ⟨k, p, he, hk, hp⟩ := h
  exact ⟨k, p, he, hk, hpq p hp⟩

theorem StoppedAt.rec {P : Nat → Prop} {errs es : List Err} {k : EKind} {S : List (Nat × Nat)}
    (h : StoppedAt P errs es) (hr : Rec k S errs) : Rec k S es := by
  obtain ⟨k', p, rfl, _, _⟩ := h
  exact hr.append _

theorem pushParsed_err_at (env : Env) (i : Nat) (name : Option (List Char)) (span : Nat × Nat)
    (tgt : Option (Nat × Nat)) (st : PState) (r : Except ErrKind (List (List Char) × List Char))
    (es : List Err) (h : pushParsed env i name span tgt st r = .error es) :
    StoppedAt (· = i) st.errs es := by
  unfold pushParsed at h
  cases r with
  | error k =>
    simp only [Except.error.injEq] at h
    exact ⟨_, i, h.symm, by cases k <;> rfl, rfl⟩
  | ok v =>
    obtain ⟨names, re⟩ := v
    simp only at h
    cases hra : resolveAll st.states names with
    | none => simp only [hra, Except.error.injEq] at h; exact ⟨_, i, h.symm, rfl, rfl⟩
    | some ids =>
      simp only [hra] at h
      by_cases hc : env.compiles re = true
      · simp [hc] at h
      · simp only [hc, Bool.false_eq_true, if_false, Except.error.injEq] at h
        exact ⟨_, i, h.symm, rfl, rfl⟩

/-- an error of a rule line lies within the line -/
theorem ruleStepSpec_err_at (env : Env) (off : Nat) (raw : List Char) (st : PState) (es : List Err)
    (h : ruleStepSpec env off raw st = .error es) :
    StoppedAt (fun p => off ≤ p ∧ p ≤ off + byteLen raw) st.errs es := by
  unfold ruleStepSpec at h
  cases hl : lastSplit isSpaceSep (dropTrailing isPWS raw) with
  | none =>
    simp only [hl, Except.error.injEq] at h
    exact ⟨_, off, h.symm, rfl, Nat.le_refl _, Nat.le_add_right _ _⟩
  | some t =>
    obtain ⟨pre, s, post⟩ := t
    obtain ⟨hline, _⟩ := lastSplit_some isSpaceSep _ pre post s hl
    obtain ⟨trail, hraw, _⟩ := dropTrailing_prefix isPWS raw
    have hlen : byteLen pre + s.utf8Size ≤ byteLen raw := by
      rw [hraw, hline]; simp only [byteLen_append, byteLen_cons]; omega
    simp only [hl] at h
    cases hts : targetSpec post with
    | none =>
      simp only [hts, Except.error.injEq] at h
      exact ⟨_, _, h.symm, rfl, by omega, by omega⟩
    | some t2 =>
      obtain ⟨target, tlen, orig⟩ := t2
      simp only [hts] at h
      cases hrt : resolveTarget st.states target with
      | none =>
        simp only [hrt, Except.error.injEq] at h
        exact ⟨_, _, h.symm, rfl, by omega, by omega⟩
      | some tgt =>
        simp only [hrt] at h
        by_cases hskip : isSkipName orig = true
        · simp only [hskip, if_true] at h
          exact (pushParsed_err_at _ _ _ _ _ _ _ _ h).mono (fun p hp => by subst hp; omega)
        · simp only [hskip, Bool.false_eq_true, if_false] at h
          by_cases hq : quotedOk orig = true
          · simp only [hq, Bool.not_true, Bool.false_eq_true, if_false] at h
            cases hf : findRule st.rules ((orig.drop 1).dropLast) with
            | some r => simp only [hf] at h; cases h
            | none =>
              simp only [hf] at h
              exact (pushParsed_err_at _ _ _ _ _ _ _ _ h).mono (fun p hp => by subst hp; omega)
          · simp only [hq, Bool.not_false, if_true, Except.error.injEq] at h
            exact ⟨_, _, h.symm, rfl, by omega, by omega⟩

/-- each line ends before the next begins -/
def Sorted (ls : List Line) : Prop := List.Pairwise (fun a b : Line => a.1 + byteLen a.2 ≤ b.1) ls

theorem splitLinesAt_sorted : ∀ (s : List Char) (off : Nat),
    Sorted (splitLinesAt s off) ∧ ∀ b ∈ splitLinesAt s off, off ≤ b.1 := by
  intro s
  induction s with
  | nil => intro off; simp [splitLinesAt, Sorted]
  | cons c cs ih =>
    intro off
    obtain ⟨hs, hlb⟩ := ih (off + c.utf8Size)
    by_cases hc : isLineSep c = true
    · simp only [splitLinesAt, hc, if_true]
      refine ⟨List.pairwise_cons.mpr ⟨?_, hs⟩, ?_⟩
      · intro b hb; have := hlb b hb; simp only [byteLen]; omega
      · intro b hb
        rcases List.mem_cons.mp hb with rfl | hb
        · exact Nat.le_refl _
        · have := hlb b hb; omega
    · simp only [Bool.not_eq_true] at hc
      simp only [splitLinesAt, hc, Bool.false_eq_true, if_false]
      rw [splitLinesAt_eq cs] at hs hlb ⊢
      simp only
      obtain ⟨h1, h2⟩ := List.pairwise_cons.mp hs
      refine ⟨List.pairwise_cons.mpr ⟨?_, h2⟩, ?_⟩
      · intro b hb; have := h1 b hb; simp only [byteLen_cons] at this ⊢; omega
      · intro b hb
        rcases List.mem_cons.mp hb with rfl | hb
        · exact Nat.le_refl _
        · have := hlb b (List.mem_cons_of_mem _ hb); omega

/-- the rules section of sorted lines is sorted and lies after the lines it comes from -/
theorem rulesSectionOf_sorted (comments : Bool) : ∀ (ls sec : List Line), Sorted ls →
    rulesSectionOf comments ls = some sec → Sorted sec ∧ ∀ b ∈ sec, ∃ a ∈ ls, a.1 ≤ b.1 := by
  intro ls
  induction ls with
  | nil => intro sec _ h; simp [rulesSectionOf] at h
  | cons l0 ls ih =>
    intro sec hsorted h
    obtain ⟨off, l⟩ := l0
    obtain ⟨hbefore, hs'⟩ := List.pairwise_cons.mp hsorted
    have lift : (Sorted sec ∧ ∀ b ∈ sec, ∃ a ∈ ls, a.1 ≤ b.1) →
        (Sorted sec ∧ ∀ b ∈ sec, ∃ a ∈ (off, l) :: ls, a.1 ≤ b.1) := by
      intro ⟨h1, h2⟩
      exact ⟨h1, fun b hb => by obtain ⟨a, ha, hab⟩ := h2 b hb; exact ⟨a, List.mem_cons_of_mem _ ha, hab⟩⟩
    rw [rulesSectionOf] at h
    split at h
    · exact lift (ih sec hs' h)
    · split at h
      · exact lift (ih sec hs' h)
      · split at h
        · next hp =>
          simp only [Option.some.injEq] at h
          subst h
          have hshape : ∃ r, l.dropWhile isPWS = '%' :: '%' :: r := by
            cases hd : l.dropWhile isPWS with
            | nil => rw [hd] at hp; simp [List.isPrefixOf] at hp
            | cons x xs =>
              cases xs with
              | nil => rw [hd] at hp; simp [List.isPrefixOf] at hp
              | cons y ys =>
                rw [hd] at hp
                simp only [List.isPrefixOf, Bool.and_eq_true, beq_iff_eq, Bool.and_true] at hp
                exact ⟨ys, by rw [← hp.1, ← hp.2]⟩
          obtain ⟨r, hr⟩ := hshape
          have hl := congrArg byteLen (List.takeWhile_append_dropWhile (p := isPWS) (l := l))
          have hr2 := congrArg byteLen (List.takeWhile_append_dropWhile (p := isSpaceSep) (l := r))
          rw [byteLen_append] at hl hr2
          rw [hr] at hl ⊢
          simp only [byteLen_cons, percent_size] at hl
          simp only [List.drop_succ_cons, List.drop_zero]
          refine ⟨List.pairwise_cons.mpr ⟨?_, hs'⟩, ?_⟩
          · intro b hb; have := hbefore b hb; simp only at this ⊢; omega
          · intro b hb
            rcases List.mem_cons.mp hb with rfl | hb
            · exact ⟨(off, l), by simp, by simp only; omega⟩
            · exact ⟨b, List.mem_cons_of_mem _ hb, Nat.le_refl _⟩
        · exact lift (ih sec hs' h)

/-- the names of a declaration line start within the line -/
theorem declLineParts_bound (ws : Char → Bool) (raw : List Char) (excl : Bool)
    (names : List (List Char × Nat × Nat)) (h : declLineParts ws raw = some (excl, names)) :
    ∀ t ∈ names, t.2.1 ≤ byteLen raw := by
  unfold declLineParts at h
  simp only at h
  obtain ⟨trail, hraw, _⟩ := dropTrailing_prefix ws raw
  rw [← trimEnd_eq_dropTrailing] at hraw
  generalize trimEnd ws raw = line at *
  have hL := takeWhile_append_drop (fun c => !ws c) line
  generalize line.takeWhile (fun c => !ws c) = D at *
  generalize line.drop D.length = R at *
  have hR := List.takeWhile_append_dropWhile (p := ws) (l := R)
  generalize R.takeWhile ws = lead at *
  generalize R.dropWhile ws = params at *
  cases hk : declKind D with
  | none => simp [hk] at h
  | some ex =>
    simp only [hk] at h
    split at h
    · simp at h
    · simp only [Option.some.injEq, Prod.mk.injEq] at h
      obtain ⟨_, hn⟩ := h
      intro t ht
      rw [← hn] at ht
      simp only [List.mem_map, List.mem_filter] at ht
      obtain ⟨⟨w, a⟩, ⟨hm, _⟩, rfl⟩ := ht
      obtain ⟨u, v, hs, ha⟩ := splitWsAt_mem ws _ _ w a hm
      have hb : byteLen raw = byteLen D + byteLen lead + byteLen params + byteLen trail := by
        rw [hraw, ← hL, ← hR]; simp only [byteLen_append]; omega
      have hp : byteLen params = byteLen u + byteLen w + byteLen v := by
        rw [hs]; simp only [byteLen_append]
      simp only; omega

theorem declareStates_err_at (excl : Bool) (base : Nat) : ∀ (names : List (List Char × Nat × Nat))
    (st : PState) (es : List Err), declareStates excl base names st = .error es →
    ∃ errs t, t ∈ names ∧ es = errs ++ [mkErr .invalidStartStateName (base + t.2.1)] := by
  intro names
  induction names with
  | nil => intro st es h; simp [declareStates] at h
  | cons nm rest ih =>
    intro st es h
    obtain ⟨n, a, b⟩ := nm
    rw [declareStates] at h
    by_cases hv : validStateName n = true
    · simp only [hv, Bool.not_true, Bool.false_eq_true, if_false] at h
      have key : ∀ st', declareStates excl base rest st' = .error es →
          ∃ errs t, t ∈ (n, a, b) :: rest ∧ es = errs ++ [mkErr .invalidStartStateName (base + t.2.1)] := by
        intro st' h'
        obtain ⟨errs, t, ht, he⟩ := ih st' es h'
        exact ⟨errs, t, List.mem_cons_of_mem _ ht, he⟩
      cases hf : findState st.states n with
      | some s => simp only [hf] at h; exact key _ h
      | none => simp only [hf] at h; exact key _ h
    · simp only [hv, Bool.not_false, if_true, Except.error.injEq] at h
      exact ⟨st.errs, (n, a, b), by simp, h.symm⟩

/-- an error of a declaration line lies within the line -/
theorem declLineStep_err_at (o : Nat) (t : List Char) (st : PState) (es : List Err)
    (h : declLineStep o t st = .error es) :
    ∃ errs, StoppedAt (fun p => o ≤ p ∧ p ≤ o + byteLen t) errs es := by
  unfold declLineStep at h
  cases hparts : declLineParts isPWS t with
  | none =>
    simp only [hparts, Except.error.injEq] at h
    exact ⟨st.errs, _, o, h.symm, rfl, Nat.le_refl _, Nat.le_add_right _ _⟩
  | some pn =>
    obtain ⟨excl, names⟩ := pn
    simp only [hparts] at h
    cases hds : declareStates excl o names st with
    | error es' =>
      simp only [hds, Except.error.injEq] at h; subst h
      obtain ⟨errs, nm, hnm, he⟩ := declareStates_err_at excl o names st _ hds
      have := declLineParts_bound isPWS t excl names hparts nm hnm
      exact ⟨errs, _, _, he, rfl, by omega, by omega⟩
    | ok st2 => simp [hds] at h

/-- an error of the declarations section lies before the rules section -/
theorem declSpec_err_at (env : Env) (len : Nat) : ∀ (ls : List Line) (st : PState) (es : List Err)
    (sec : List Line), declSpec env len ls st = .error es → Sorted ls →
    rulesSectionOf env.comments ls = some sec →
    ∃ errs, StoppedAt (fun p => ∀ b ∈ sec, p ≤ b.1) errs es := by
  intro ls
  induction ls with
  | nil => intro st es sec _ _ h; simp [rulesSectionOf] at h
  | cons l0 ls ih =>
    intro st es sec h hsorted hsec
    obtain ⟨off, l⟩ := l0
    obtain ⟨hbefore, hs'⟩ := List.pairwise_cons.mp hsorted
    rw [declSpec] at h
    rw [rulesSectionOf] at hsec
    simp only at h hsec
    by_cases h1 : (l.dropWhile isPWS).isEmpty = true
    · simp only [h1, if_true] at h hsec; exact ih st es sec h hs' hsec
    · simp only [h1, Bool.false_eq_true, if_false] at h hsec
      by_cases hcm : (env.comments && ['/', '/'].isPrefixOf (l.dropWhile isPWS)) = true
      · simp only [hcm, if_true] at h hsec; exact ih st es sec h hs' hsec
      · simp only [hcm, Bool.false_eq_true, if_false] at h hsec
        by_cases hp : ['%', '%'].isPrefixOf (l.dropWhile isPWS) = true
        · simp [hp] at h
        · simp only [hp, Bool.false_eq_true, if_false] at h hsec
          cases hstep : declLineStep (off + byteLen (l.takeWhile isPWS)) (l.dropWhile isPWS) st with
          | error es' =>
            simp only [hstep, Except.error.injEq] at h; subst h
            obtain ⟨errs, hst⟩ := declLineStep_err_at _ _ _ _ hstep
            refine ⟨errs, hst.mono ?_⟩
            intro p hp b hb
            obtain ⟨_, hsub⟩ := rulesSectionOf_sorted env.comments ls sec hs' hsec
            obtain ⟨a, ha, hab⟩ := hsub b hb
            have := hbefore a ha
            have hl := congrArg byteLen (List.takeWhile_append_dropWhile (p := isPWS) (l := l))
            rw [byteLen_append] at hl
            simp only at this
            omega
          | ok v =>
            obtain ⟨e, st'⟩ := v
            simp only [hstep] at h
            exact ih st' es sec h hs' hsec

/-- a record made before the parse stops is in the final error list -/
theorem ruleSpec_err_rec (env : Env) (k : EKind) (S : List (Nat × Nat)) : ∀ (ls : List Line)
    (st : PState) (es : List Err), ruleSpec env ls st = .error es → Rec k S st.errs → Rec k S es := by
  intro ls
  induction ls with
  | nil => intro st es h; simp [ruleSpec] at h
  | cons ln ls ih =>
    intro st es h hr
    obtain ⟨off, l⟩ := ln
    rcases ruleSpec_cons env off l ls st with ⟨_, st1, hst1, heq⟩ | ⟨_, heq | heq⟩ | ⟨_, heq⟩
    · rw [heq] at h
      rcases hst1 with rfl | ⟨x, _, rfl⟩
      · exact ih _ es h hr
      · exact ih _ es h (hr.append x)
    · rw [heq] at h; cases h
    · rw [heq] at h; simp only [Except.error.injEq] at h; subst h; exact hr.append _
    · rw [heq] at h
      cases hstep : ruleStepSpec env off l st with
      | error es' =>
        simp only [hstep, Except.error.injEq] at h; subst h
        exact (ruleStepSpec_err_at env off l st _ hstep).rec hr
      | ok st' =>
        simp only [hstep] at h
        apply ih st' es h
        rcases ruleStepSpec_ok_shape env off l st st' hstep with ⟨o, d, rfl⟩ | ⟨x, rfl⟩
        · exact hr.addDup _ _ _
        · exact hr

theorem ruleSpec_second_err (env : Env) (n : List Char) (s1 : Nat × Nat) (ln2 : Line) (r2 : RuleLine)
    (h2 : ruleLineSpec env.cfg isPWS isSpaceSep ln2.2 = .ok r2) (hn2 : r2.name = some n) :
    ∀ (ls : List Line) (st : PState) (es : List Err), ln2 ∈ ruleLinesOf env.comments ls →
      NameSeen n s1 st → Sorted ls → ruleSpec env ls st = .error es →
      Rec .duplicateName [s1, (ln2.1 + r2.spanStart, ln2.1 + r2.spanEnd)] es ∨
        ∃ errs, StoppedAt (· ≤ ln2.1 + byteLen ln2.2) errs es := by
  intro ls
  induction ls with
  | nil => intro st es hm; simp [ruleLinesOf] at hm
  | cons ln ls ih =>
    intro st es hm hseen hsorted h
    obtain ⟨off, l⟩ := ln
    have hs' : Sorted ls := (List.pairwise_cons.mp hsorted).2
    have hbefore : ∀ b ∈ ls, off + byteLen l ≤ b.1 := (List.pairwise_cons.mp hsorted).1
    rcases ruleSpec_cons env off l ls st with ⟨hl, st1, hst1, heq⟩ | ⟨hl, _⟩ | ⟨hl, heq⟩
    · rw [hl] at hm; rw [heq] at h
      rcases hst1 with rfl | ⟨x, _, rfl⟩
      · exact ih _ es hm hseen hs' h
      · exact ih _ es hm (hseen.appendErr x) hs' h
    · rw [hl] at hm; simp at hm
    · rw [hl] at hm; rw [heq] at h
      cases hstep : ruleStepSpec env off l st with
      | error es' =>
        simp only [hstep, Except.error.injEq] at h; subst h
        right
        refine ⟨st.errs, (ruleStepSpec_err_at env off l st _ hstep).mono ?_⟩
        intro p hp
        rcases List.mem_cons.mp hm with rfl | hm'
        · exact hp.2
        · have := hbefore ln2 (ruleLinesOf_subset _ ls ln2 hm')
          omega
      | ok st' =>
        simp only [hstep] at h
        rcases List.mem_cons.mp hm with rfl | hm'
        · exact Or.inl (ruleSpec_err_rec env _ _ ls st' es h
            (rec_after env off l r2 n s1 st st' h2 hn2 hstep hseen))
        · apply ih st' es hm' _ hs' h
          rcases ruleStepSpec_ok_shape env off l st st' hstep with ⟨o, d, rfl⟩ | ⟨x, rfl⟩
          · exact hseen.addDup _ _ _
          · exact hseen.push x

theorem ruleSpec_dup_err (env : Env) (n : List Char) (ln1 ln2 : Line) (r1 r2 : RuleLine)
    (h1 : ruleLineSpec env.cfg isPWS isSpaceSep ln1.2 = .ok r1) (hn1 : r1.name = some n)
    (h2 : ruleLineSpec env.cfg isPWS isSpaceSep ln2.2 = .ok r2) (hn2 : r2.name = some n) :
    ∀ (ls : List Line) (st : PState) (es : List Err) (A B : List Line),
      ruleLinesOf env.comments ls = A ++ ln1 :: B → ln2 ∈ B → Sorted ls → ruleSpec env ls st = .error es →
      Rec .duplicateName [(ln1.1 + r1.spanStart, ln1.1 + r1.spanEnd),
          (ln2.1 + r2.spanStart, ln2.1 + r2.spanEnd)] es ∨
        ∃ errs, StoppedAt (· ≤ ln2.1 + byteLen ln2.2) errs es := by
  intro ls
  induction ls with
  | nil => intro st es A B hA; simp [ruleLinesOf] at hA
  | cons ln ls ih =>
    intro st es A B hA hB hsorted h
    obtain ⟨off, l⟩ := ln
    have hs' : Sorted ls := (List.pairwise_cons.mp hsorted).2
    have hbefore : ∀ b ∈ ls, off + byteLen l ≤ b.1 := (List.pairwise_cons.mp hsorted).1
    rcases ruleSpec_cons env off l ls st with ⟨hl, st1, _, heq⟩ | ⟨hl, _⟩ | ⟨hl, heq⟩
    · rw [hl] at hA; rw [heq] at h
      exact ih _ es A B hA hB hs' h
    · rw [hl] at hA; simp at hA
    · rw [hl] at hA; rw [heq] at h
      have hmem2 : ln2 ∈ ruleLinesOf env.comments ls := by
        cases A with
        | nil =>
          simp only [List.nil_append, List.cons.injEq] at hA
          rw [hA.2]; exact hB
        | cons a A' =>
          simp only [List.cons_append, List.cons.injEq] at hA
          rw [hA.2]; simp [hB]
      cases hstep : ruleStepSpec env off l st with
      | error es' =>
        simp only [hstep, Except.error.injEq] at h; subst h
        right
        refine ⟨st.errs, (ruleStepSpec_err_at env off l st _ hstep).mono ?_⟩
        intro p hp
        have := hbefore ln2 (ruleLinesOf_subset _ ls ln2 hmem2)
        omega
      | ok st' =>
        simp only [hstep] at h
        cases A with
        | nil =>
          simp only [List.nil_append, List.cons.injEq] at hA
          obtain ⟨rfl, hB'⟩ := hA
          have hseen := nameSeen_after env off l r1 n st st' h1 hn1 hstep
          exact ruleSpec_second_err env n _ ln2 r2 h2 hn2 ls st' es hmem2 hseen hs' h
        | cons a A' =>
          simp only [List.cons_append, List.cons.injEq] at hA
          exact ih st' es A' B hA.2 hB hs' h

/-- the occurrences of state names on the declaration lines of a text -/
def occsOf (comments : Bool) (ls : List Line) : List Occ := (declLinesOf comments ls).flatMap declaredOn

theorem declareStates_valid (excl : Bool) (base : Nat) : ∀ (names : List (List Char × Nat × Nat))
    (st : PState), firstInvalid names = none → ∃ st', declareStates excl base names st = .ok st' := by
  intro names
  induction names with
  | nil => intro st _; exact ⟨st, rfl⟩
  | cons nm rest ih =>
    intro st h
    obtain ⟨n, a, b⟩ := nm
    rw [firstInvalid] at h
    by_cases hv : validStateName n = true
    · simp only [hv, if_true] at h
      rw [declareStates]
      simp only [hv, Bool.not_true, Bool.false_eq_true, if_false]
      cases findState st.states n with
      | some s => exact ih _ h
      | none => exact ih _ h
    · simp [hv] at h

/-- a declaration line on which the parse stops declares nothing -/
theorem declaredOn_of_err (o : Nat) (t : List Char) (st : PState) (es : List Err)
    (h : declLineStep o t st = .error es) : declaredOn (o, t) = [] := by
  unfold declLineStep at h
  unfold declaredOn
  rw [parseDeclLine_parts]
  cases hparts : declLineParts isPWS t with
  | none => rfl
  | some pn =>
    obtain ⟨excl, names⟩ := pn
    simp only [hparts] at h ⊢
    cases hfi : firstInvalid names with
    | some a => rfl
    | none =>
      obtain ⟨st', hst'⟩ := declareStates_valid excl o names st hfi
      simp [hst'] at h

theorem declareStates_err_rec (excl : Bool) (base : Nat) (k : EKind) (S : List (Nat × Nat)) :
    ∀ (names : List (List Char × Nat × Nat)) (st : PState) (es : List Err),
    declareStates excl base names st = .error es → Rec k S st.errs → Rec k S es := by
  intro names
  induction names with
  | nil => intro st es h; simp [declareStates] at h
  | cons nm rest ih =>
    intro st es h hr
    obtain ⟨n, a, b⟩ := nm
    rw [declareStates] at h
    by_cases hv : validStateName n = true
    · simp only [hv, Bool.not_true, Bool.false_eq_true, if_false] at h
      cases hf : findState st.states n with
      | some s => simp only [hf] at h; exact ih _ es h (hr.addDup _ _ _)
      | none => simp only [hf] at h; exact ih _ es h hr
    · simp only [hv, Bool.not_false, if_true, Except.error.injEq] at h
      subst h; exact hr.append _

theorem declSpec_err_rec (env : Env) (len : Nat) (k : EKind) (S : List (Nat × Nat)) : ∀ (ls : List Line)
    (st : PState) (es : List Err), declSpec env len ls st = .error es → Rec k S st.errs → Rec k S es := by
  intro ls
  induction ls with
  | nil =>
    intro st es h hr
    simp only [declSpec, Except.error.injEq] at h; subst h; exact hr.append _
  | cons l0 ls ih =>
    intro st es h hr
    obtain ⟨off, l⟩ := l0
    rw [declSpec] at h
    simp only at h
    by_cases h1 : (l.dropWhile isPWS).isEmpty = true
    · simp only [h1, if_true] at h; exact ih st es h hr
    · simp only [h1, Bool.false_eq_true, if_false] at h
      by_cases hcm : (env.comments && ['/', '/'].isPrefixOf (l.dropWhile isPWS)) = true
      · simp only [hcm, if_true] at h; exact ih st es h hr
      · simp only [hcm, Bool.false_eq_true, if_false] at h
        by_cases hp : ['%', '%'].isPrefixOf (l.dropWhile isPWS) = true
        · simp [hp] at h
        · simp only [hp, Bool.false_eq_true, if_false] at h
          cases hstep : declLineStep (off + byteLen (l.takeWhile isPWS)) (l.dropWhile isPWS) st with
          | error es' =>
            simp only [hstep, Except.error.injEq] at h; subst h
            unfold declLineStep at hstep
            cases hparts : declLineParts isPWS (l.dropWhile isPWS) with
            | none =>
              simp only [hparts, Except.error.injEq] at hstep; subst hstep; exact hr.append _
            | some pn =>
              obtain ⟨excl, names⟩ := pn
              simp only [hparts] at hstep
              cases hds : declareStates excl (off + byteLen (l.takeWhile isPWS)) names st with
              | error es'' =>
                simp only [hds, Except.error.injEq] at hstep; subst hstep
                exact declareStates_err_rec _ _ _ _ _ _ _ hds hr
              | ok st2 => simp [hds] at hstep
          | ok v =>
            obtain ⟨e, st'⟩ := v
            simp only [hstep] at h
            apply ih st' es h
            rw [declLineStep_fold _ _ st st' e hstep]
            exact fold_keeps_rec _ _ hr

/-- `oc1` then `oc2` are still to come, or `oc1` has been seen and `oc2` is still to come -/
def Pending (oc1 oc2 : Occ) (st : PState) (occs : List Occ) : Prop :=
  (StateSeen oc2.1 oc1.2.1 st ∧ oc2 ∈ occs) ∨ (∃ A B, occs = A ++ oc1 :: B ∧ oc2 ∈ B)

theorem Pending.mem {oc1 oc2 : Occ} {st : PState} {occs : List Occ} (h : Pending oc1 oc2 st occs) :
    oc2 ∈ occs := by
  rcases h with ⟨_, h⟩ | ⟨A, B, rfl, h⟩
  · exact h
  · simp [h]

/-- declaring the names of one line: the duplicate is recorded, or it is still pending -/
theorem fold_line (oc1 oc2 : Occ) (hn : oc1.1 = oc2.1) : ∀ (D T : List Occ) (st : PState),
    Pending oc1 oc2 st (D ++ T) →
    Rec .duplicateStartState [oc1.2.1, oc2.2.1] (D.foldl declOne st).errs ∨
      Pending oc1 oc2 (D.foldl declOne st) T := by
  intro D
  induction D with
  | nil => intro T st h; exact Or.inr h
  | cons d D ih =>
    intro T st h
    simp only [List.foldl_cons]
    rcases h with ⟨hseen, hm⟩ | ⟨A, B, hA, hB⟩
    · simp only [List.cons_append, List.mem_cons] at hm
      rcases hm with rfl | hm
      · exact Or.inl (fold_keeps_rec D _ (stateRec_after st oc2 oc1.2.1 hseen))
      · exact ih T _ (Or.inl ⟨hseen.step d, hm⟩)
    · cases A with
      | nil =>
        simp only [List.nil_append, List.cons_append, List.cons.injEq] at hA
        obtain ⟨rfl, hB'⟩ := hA
        refine ih T _ (Or.inl ⟨?_, by rw [hB']; exact hB⟩)
        rw [← hn]; exact stateSeen_after st d
      | cons a A' =>
        simp only [List.cons_append, List.cons.injEq] at hA
        exact ih T _ (Or.inr ⟨A', B, hA.2, hB⟩)

theorem declLinesOf_ge (comments : Bool) : ∀ (ls : List Line), ∀ d ∈ declLinesOf comments ls,
    ∃ a ∈ ls, a.1 ≤ d.1 := by
  intro ls
  induction ls with
  | nil => intro d hd; simp [declLinesOf] at hd
  | cons l0 ls ih =>
    intro d hd
    obtain ⟨off, l⟩ := l0
    have lift : (∃ a ∈ ls, a.1 ≤ d.1) → ∃ a ∈ (off, l) :: ls, a.1 ≤ d.1 :=
      fun ⟨a, ha, h⟩ => ⟨a, List.mem_cons_of_mem _ ha, h⟩
    rw [declLinesOf] at hd
    split at hd
    · exact lift (ih d hd)
    · split at hd
      · exact lift (ih d hd)
      · split at hd
        · simp at hd
        · rcases List.mem_cons.mp hd with rfl | hd
          · exact ⟨(off, l), by simp, Nat.le_add_right _ _⟩
          · exact lift (ih d hd)

/-- an occurrence on a later line starts after the lines before it -/
theorem occsOf_ge (comments : Bool) (ls : List Line) (oc : Occ) (h : oc ∈ occsOf comments ls) :
    ∃ a ∈ ls, a.1 ≤ oc.2.1.1 := by
  unfold occsOf at h
  simp only [List.mem_flatMap] at h
  obtain ⟨d, hd, hoc⟩ := h
  obtain ⟨a, ha, had⟩ := declLinesOf_ge comments ls d hd
  refine ⟨a, ha, ?_⟩
  unfold declaredOn at hoc
  cases hpd : parseDeclLine isPWS d.2 with
  | error e => simp [hpd] at hoc
  | ok v =>
    obtain ⟨excl, names⟩ := v
    simp only [hpd, List.mem_map] at hoc
    obtain ⟨t, _, rfl⟩ := hoc
    simp only; omega

theorem declSpec_dup_err (env : Env) (len : Nat) (oc1 oc2 : Occ) (hn : oc1.1 = oc2.1) :
    ∀ (ls : List Line) (st : PState) (es : List Err), Pending oc1 oc2 st (occsOf env.comments ls) →
      Sorted ls → declSpec env len ls st = .error es →
      Rec .duplicateStartState [oc1.2.1, oc2.2.1] es ∨ ∃ errs, StoppedAt (· ≤ oc2.2.1.1) errs es := by
  intro ls
  induction ls with
  | nil => intro st es hp; have := hp.mem; simp [occsOf, declLinesOf] at this
  | cons l0 ls ih =>
    intro st es hpend hsorted h
    obtain ⟨off, l⟩ := l0
    obtain ⟨hbefore, hs'⟩ := List.pairwise_cons.mp hsorted
    rw [declSpec] at h
    unfold occsOf at hpend
    rw [declLinesOf] at hpend
    simp only at h hpend
    by_cases h1 : (l.dropWhile isPWS).isEmpty = true
    · simp only [h1, if_true] at h hpend; exact ih st es hpend hs' h
    · simp only [h1, Bool.false_eq_true, if_false] at h hpend
      by_cases hcm : (env.comments && ['/', '/'].isPrefixOf (l.dropWhile isPWS)) = true
      · simp only [hcm, if_true] at h hpend; exact ih st es hpend hs' h
      · simp only [hcm, Bool.false_eq_true, if_false] at h hpend
        by_cases hp : ['%', '%'].isPrefixOf (l.dropWhile isPWS) = true
        · simp [hp] at h
        · simp only [hp, Bool.false_eq_true, if_false, List.flatMap_cons] at h hpend
          cases hstep : declLineStep (off + byteLen (l.takeWhile isPWS)) (l.dropWhile isPWS) st with
          | error es' =>
            simp only [hstep, Except.error.injEq] at h; subst h
            right
            rw [declaredOn_of_err _ _ _ _ hstep, List.nil_append] at hpend
            obtain ⟨a, ha, hoc⟩ := occsOf_ge env.comments ls oc2 hpend.mem
            obtain ⟨errs, hst⟩ := declLineStep_err_at _ _ _ _ hstep
            refine ⟨errs, hst.mono ?_⟩
            intro p hp
            have := hbefore a ha
            have hl := congrArg byteLen (List.takeWhile_append_dropWhile (p := isPWS) (l := l))
            rw [byteLen_append] at hl
            simp only at this
            omega
          | ok v =>
            obtain ⟨e, st'⟩ := v
            simp only [hstep] at h
            have hfold := declLineStep_fold _ _ st st' e hstep
            rcases fold_line oc1 oc2 hn _ _ st hpend with hrec | hpend'
            · rw [← hfold] at hrec
              exact Or.inl (declSpec_err_rec env len _ _ ls st' es h hrec)
            · rw [← hfold] at hpend'
              exact ih st' es hpend' hs' h


/-! #### The whole specification -/

/-- **two rules of the same name**, with the position of the stopping error: the text is rejected,
and either one `DuplicateName` error lists the spans of both names, or the error list ends with a
parse-stopping error located at or before the end of the second line -/
theorem specParse_dup_rules_at (env : Env) (pre body : List Char) (sec A B : List Line) (ln1 ln2 : Line)
    (r1 r2 : RuleLine) (n : List Char)
    (hsec : rulesSectionOf env.comments (splitLinesAt body (byteLen pre)) = some sec)
    (hA : ruleLinesOf env.comments sec = A ++ ln1 :: B) (hB : ln2 ∈ B)
    (h1 : ruleLineSpec env.cfg isPWS isSpaceSep ln1.2 = .ok r1) (hn1 : r1.name = some n)
    (h2 : ruleLineSpec env.cfg isPWS isSpaceSep ln2.2 = .ok r2) (hn2 : r2.name = some n) :
    ∃ es, specParse env pre body = .error es ∧
      (HasDup .duplicateName (ln1.1 + r1.spanStart, ln1.1 + r1.spanEnd)
          (ln2.1 + r2.spanStart, ln2.1 + r2.spanEnd) es ∨
        ∃ errs, StoppedAt (· ≤ ln2.1 + byteLen ln2.2) errs es) := by
  have hsorted := (splitLinesAt_sorted body (byteLen pre)).1
  obtain ⟨hsecsorted, _⟩ := rulesSectionOf_sorted env.comments _ sec hsorted hsec
  have hmem2 : ln2 ∈ sec := ruleLinesOf_subset env.comments sec ln2 (by rw [hA]; simp [hB])
  unfold specParse specRules
  cases hd : declSpec env (byteLen pre + byteLen body) (splitLinesAt body (byteLen pre)) initState with
  | error es =>
    obtain ⟨errs, hst⟩ := declSpec_err_at env _ _ _ es sec hd hsorted hsec
    refine ⟨es, rfl, Or.inr ⟨errs, hst.mono ?_⟩⟩
    intro p hp; have := hp ln2 hmem2; omega
  | ok v =>
    obtain ⟨sec', st1⟩ := v
    obtain ⟨hsec', _⟩ := declSpec_fold env _ _ _ _ _ hd
    rw [hsec] at hsec'
    obtain rfl := Option.some.inj hsec'
    simp only [specEnd]
    cases hr : ruleSpec env sec st1 with
    | error es =>
      refine ⟨es, rfl, ?_⟩
      rcases ruleSpec_dup_err env n ln1 ln2 r1 r2 h1 hn1 h2 hn2 sec st1 es A B hA hB hsecsorted hr with h | h
      · exact Or.inl h.hasDup
      · exact Or.inr h
    | ok st2 =>
      obtain ⟨es, hes, hdup⟩ := finish_of_rec st2
        (ruleSpec_dup env n ln1 ln2 r1 r2 h1 hn1 h2 hn2 sec st1 st2 A B hA hB hr)
      exact ⟨es, hes, Or.inl hdup⟩

/-- **two start states of the same name**, with the position of the stopping error: the text is
rejected, and either one `DuplicateStartState` error lists the spans of both occurrences, or the
error list ends with a parse-stopping error located at or before the start of the second occurrence -/
theorem specParse_dup_states_at (env : Env) (pre body : List Char) (A B : List Occ) (oc1 oc2 : Occ)
    (hA : stateOccs env.comments (splitLinesAt body (byteLen pre)) = A ++ oc1 :: B) (hB : oc2 ∈ B)
    (hn : oc1.1 = oc2.1) :
    ∃ es, specParse env pre body = .error es ∧
      (HasDup .duplicateStartState oc1.2.1 oc2.2.1 es ∨
        ∃ errs, StoppedAt (· ≤ oc2.2.1.1) errs es) := by
  have hsorted := (splitLinesAt_sorted body (byteLen pre)).1
  -- what is pending at the start
  have hpend : Pending oc1 oc2 initState (occsOf env.comments (splitLinesAt body (byteLen pre))) := by
    unfold stateOccs at hA
    cases A with
    | nil =>
      simp only [List.nil_append, List.cons.injEq] at hA
      obtain ⟨rfl, hB'⟩ := hA
      left
      refine ⟨⟨⟨0, initialName, (0, 0), false⟩, ?_, Or.inl rfl⟩, by unfold occsOf; rw [hB']; exact hB⟩
      rw [← hn]; simp [findState, initState]
    | cons a A' =>
      simp only [List.cons_append, List.cons.injEq] at hA
      exact Or.inr ⟨A', B, hA.2, hB⟩
  unfold specParse specRules
  cases hd : declSpec env (byteLen pre + byteLen body) (splitLinesAt body (byteLen pre)) initState with
  | error es =>
    refine ⟨es, rfl, ?_⟩
    rcases declSpec_dup_err env _ oc1 oc2 hn _ initState es hpend hsorted hd with h | h
    · exact Or.inl h.hasDup
    · exact Or.inr h
  | ok v =>
    obtain ⟨sec, st1⟩ := v
    obtain ⟨_, hst1⟩ := declSpec_fold env _ _ _ _ _ hd
    have hrec : Rec .duplicateStartState [oc1.2.1, oc2.2.1] st1.errs := by
      rcases fold_line oc1 oc2 hn _ [] initState (by simpa [occsOf] using hpend) with h | h
      · rw [hst1]; exact h
      · have := h.mem; simp at this
    simp only [specEnd]
    cases hr : ruleSpec env sec st1 with
    | error es => exact ⟨es, rfl, Or.inl (ruleSpec_err_rec env _ _ sec st1 es hr hrec).hasDup⟩
    | ok st2 =>
      obtain ⟨es, hes, hdup⟩ := finish_of_rec st2 (ruleSpec_keeps_rec env _ _ sec st1 st2 hr hrec)
      exact ⟨es, hes, Or.inl hdup⟩

end GrmVerif.LexSpecParse
