import GrmVerif.Lemmas.KeptShift
/-!
The recovering run is the plain parse of the edited input (C05), under `KeptShiftInvisible` and
`FirstValid` instead of `KeptInvisible`: `recRun_plainK`.

Induction on the fuel of `recRun`, carrying beside the driver's stack `c.stack` the stack `b` of the
plain parse of the edited input: `Kept c.stack b`, `b` a path of the automaton, and either the two are
equal or the driver's configuration is one from which the plain parse shifts a lexeme or accepts
(`C07.Runs … 1 c`, which is what a valid first sequence leaves behind). A lexeme that is shifted or
accepted is answered the same by `b` (`KeptShiftInvisible`), after which both stacks are equal; a
lexeme that is refused can only be met with equal stacks, so the plain parse refuses it too.
-/
namespace GrmVerif.C05
open GrmVerif Rec LR Cert Term RankImpl

/-- a valid sequence (`N ≥ 1`) leaves a configuration from which the plain parse shifts or accepts -/
theorem validSeq_goes {G : Grammar} {A : Automaton} {w : List Nat} {N : Nat} (hN : 1 ≤ N) {c : Pos}
    {rs : List Repair} (h : validSeq G A w N c rs = true) :
    ∃ c', applySeq G A w c rs = some c' ∧ C07.Runs G A w 1 c' := by
  unfold validSeq at h
  cases ha : applySeq G A w c rs with
  | none => rw [ha] at h; cases h
  | some c' =>
    rw [ha] at h
    refine ⟨c', rfl, ?_⟩
    cases hf : feed G A (nextTok G w c'.pos) FUEL c'.stack with
    | shifted s => exact .shift c' 0 s hf (.zero _)
    | accept s => exact .acc c' 1 s hf
    | error s =>
      have : continueFrom G A w (w.length + 2) c' 0 = (0, false, c'.pos) := by
        show continueFrom G A w (w.length + 1 + 1) c' 0 = _
        rw [continueFrom]; simp only [hf]
      simp only [this] at h; simp at h; omega
    | crash =>
      have : continueFrom G A w (w.length + 2) c' 0 = (0, false, c'.pos) := by
        show continueFrom G A w (w.length + 1 + 1) c' 0 = _
        rw [continueFrom]; simp only [hf]
      simp only [this] at h; simp at h; omega
    | fuelOut =>
      have : continueFrom G A w (w.length + 2) c' 0 = (0, false, c'.pos) := by
        show continueFrom G A w (w.length + 1 + 1) c' 0 = _
        rw [continueFrom]; simp only [hf]
      simp only [this] at h; simp at h; omega

/-- a configuration from which the plain parse shifts or accepts does not refuse its lookahead -/
theorem runs_not_error {G : Grammar} {A : Automaton} {w : List Nat} {c : Pos} (h : C07.Runs G A w 1 c)
    {s : List Nat} (hf : feed G A (nextTok G w c.pos) FUEL c.stack = .error s) : False := by
  cases h with
  | acc _ _ s' ha => rw [ha] at hf; cases hf
  | shift _ _ s' hs _ => rw [hs] at hf; cases hf

/-- a stack that `feed` shifts to, from a path, is a path -/
theorem shifted_isPath {G : Grammar} {A : Automaton} (P : Props G A) (hcols : colsOk G A = true)
    {t f : Nat} {b x : List Nat} (hb : IsPath A b) (h : feed G A t f b = .shifted x) : IsPath A x := by
  have ht : t < G.ntoks := by
    obtain ⟨st, s', ha⟩ := feed_shifted_action h
    exact colsOk_action hcols (by rw [ha]; simp)
  exact ((C07.feed_path P t ht f b hb).2.1 x h).1

/-- a real lexeme before the first error (or the stop) is the first token of the edited input -/
theorem editedToks_shift (w : List Nat) (stop : Nat) :
    ∀ (errs : List Err) (pos : Nat), (match errs with | [] => pos < stop | e :: _ => pos < e.pos) →
      editedToks w stop pos errs = w.getD pos 0 :: editedToks w stop (pos + 1) errs
  | [], pos, h => by
    simp only [editedToks, editedItems]
    rw [reals_cons h]
    simp [itemTok]
  | e :: es, pos, h => by
    simp only [editedToks, editedItems]
    rw [reals_cons h]
    simp [itemTok]

/-- the tokens of a sequence that applies on the driver's stack are shifted by the plain parse's
stack too, and once a token has been shifted both stacks are equal -/
theorem feedToks_erase {G : Grammar} {A : Automaton} (P : Props G A) (hcols : colsOk G A = true)
    (hk : KeptShiftInvisible G A) :
    ∀ (toks : List Nat) (a b a' : List Nat), Kept G A a b → IsPath A b → feedToks G A a toks = some a' →
      ∃ b', FeedsTo G A b toks b' ∧ Kept G A a' b' ∧ IsPath A b' ∧ ((a = b ∨ toks ≠ []) → a' = b') := by
  intro toks
  induction toks with
  | nil =>
    intro a b a' hab hb h
    simp only [feedToks, Option.some.injEq] at h
    subst h
    exact ⟨b, rfl, hab, hb, fun h => by rcases h with h | h; exact h; exact absurd rfl h⟩
  | cons t ts ih =>
    intro a b a' hab hb h
    simp only [feedToks] at h
    cases hf : feed G A t FUEL a with
    | shifted s =>
      rw [hf] at h
      simp only at h
      obtain ⟨f, hfb⟩ := (hk a b hab hb t).1 s hf
      have hs : IsPath A s := shifted_isPath P hcols hb hfb
      obtain ⟨b', h1, h2, h3, h4⟩ := ih s s a' (.refl s) hs h
      exact ⟨b', ⟨s, ⟨f, hfb⟩, h1⟩, h2, h3, fun _ => h4 (Or.inl rfl)⟩
    | accept s => rw [hf] at h; cases h
    | error s => rw [hf] at h; cases h
    | crash => rw [hf] at h; cases h
    | fuelOut => rw [hf] at h; cases h

/-- **The recovering run is the plain parse of the edited input** (state stacks; `b` is the stack of
the plain parse). -/
theorem recRun_plainK (G : Grammar) (A : Automaton) (w : List Nat)
    (recover : Pos → Option (Pos × List (List Repair)))
    (P : Props G A) (hcols : colsOk G A = true)
    (hfirst : FirstApplies G A w recover) {N : Nat} (hN1 : 1 ≤ N) (hvalid : FirstValid G A w N recover)
    (hsh : EofNeverShifted G A) (hacc : AcceptOnlyAtEof G A) (hw : G.eof ∉ w)
    (hk : KeptShiftInvisible G A) :
    ∀ (fuel : Nat) (c : Pos) (errs : List Err) (v : Bool) (errs' : List Err) (b : List Nat),
      c.pos ≤ w.length → Kept G A c.stack b → IsPath A b → (c.stack = b ∨ C07.Runs G A w 1 c) →
      recRun G A w recover fuel c errs = (v, errs') →
      ∃ new, errs' = errs ++ new ∧ Ordered w.length c.pos new ∧
        (v = true → ∃ st, FeedsTo G A b (editedToks w w.length c.pos new) st ∧ AcceptsAt G A G.eof st) ∧
        (∀ pre e post, new = pre ++ e :: post →
          ∃ st, FeedsTo G A b (editedToks w e.pos c.pos pre) st ∧ RefusesAt G A (nextTok G w e.pos) st) := by
  intro fuel
  induction fuel with
  | zero =>
    intro c errs v errs' b hc _ _ _ h
    simp only [recRun, Prod.mk.injEq] at h
    refine ⟨[], by simp [h.2], hc, ?_, ?_⟩
    · intro hv; rw [← h.1] at hv; cases hv
    · intro pre e post hs; simp at hs
  | succ f ih =>
    intro c errs v errs' b hc hkept hb hmode h
    simp only [recRun] at h
    cases hf : feed G A (nextTok G w c.pos) FUEL c.stack with
    | shifted s =>
      rw [hf] at h
      simp only at h
      obtain ⟨hlt, htok⟩ := shifted_in_range hsh hf
      obtain ⟨fb, hfb⟩ := (hk c.stack b hkept hb _).1 s hf
      have hs : IsPath A s := shifted_isPath P hcols hb hfb
      obtain ⟨new, h1, h2, h3, h4⟩ := ih ⟨s, c.pos + 1⟩ errs v errs' s hlt (.refl s) hs (Or.inl rfl) h
      simp only at h2 h3 h4
      rw [htok] at hfb
      have hord : Ordered w.length c.pos new := by
        cases new with
        | nil => exact hc
        | cons e es => exact ⟨by have := h2.1; omega, h2.2⟩
      refine ⟨new, h1, hord, ?_, ?_⟩
      · intro hv
        obtain ⟨st, hr, hx⟩ := h3 hv
        refine ⟨st, ?_, hx⟩
        rw [editedToks_shift w w.length new c.pos (by
          cases new with
          | nil => exact hlt
          | cons e es => have := h2.1; simp only; omega)]
        exact ⟨s, ⟨fb, hfb⟩, hr⟩
      · intro pre e post hs'
        obtain ⟨s1, hr, hx⟩ := h4 pre e post hs'
        refine ⟨s1, ?_, hx⟩
        rw [editedToks_shift w e.pos pre c.pos (by
          subst hs'
          cases pre with
          | nil => have := h2.1; simp only; omega
          | cons p ps => have := h2.1; simp only; omega)]
        exact ⟨s, ⟨fb, hfb⟩, hr⟩
    | accept s =>
      rw [hf] at h
      simp only [Prod.mk.injEq] at h
      obtain ⟨hge, heof⟩ := accept_at_end hacc hw hf
      obtain ⟨fb, y, hfb⟩ := (hk c.stack b hkept hb _).2 s hf
      refine ⟨[], by simp [h.2], hc, ?_, ?_⟩
      · intro _
        refine ⟨b, ?_, ⟨fb, y, by rw [← heof]; exact hfb⟩⟩
        have : w.length - c.pos = 0 := by omega
        simp [editedToks, editedItems, reals, this, FeedsTo]
      · intro pre e post hs; simp at hs
    | crash =>
      rw [hf] at h
      simp only [Prod.mk.injEq] at h
      refine ⟨[], by simp [h.2], hc, ?_, ?_⟩
      · intro hv; rw [← h.1] at hv; cases hv
      · intro pre e post hs; simp at hs
    | fuelOut =>
      rw [hf] at h
      simp only [Prod.mk.injEq] at h
      refine ⟨[], by simp [h.2], hc, ?_, ?_⟩
      · intro hv; rw [← h.1] at hv; cases hv
      · intro pre e post hs; simp at hs
    | error s =>
      rw [hf] at h
      simp only at h
      -- a refused lexeme is met with equal stacks only
      have heq : c.stack = b := by
        rcases hmode with hm | hm
        · exact hm
        · exact absurd hf (fun hf => runs_not_error hm hf)
      -- the error itself: nothing before it, the lookahead is refused by the plain parse
      have hself : ∀ (rs : List (List Repair)),
          ∃ st, FeedsTo G A b (editedToks w (Err.mk c.pos rs).pos c.pos []) st ∧
            RefusesAt G A (nextTok G w (Err.mk c.pos rs).pos) st := by
        intro rs
        refine ⟨b, ?_, ⟨FUEL, s, by rw [← heq]; exact hf⟩⟩
        simp [editedToks, editedItems, reals_self, FeedsTo]
      have giveUp : (v, errs') = (false, errs ++ [⟨c.pos, []⟩]) →
          ∃ new, errs' = errs ++ new ∧ Ordered w.length c.pos new ∧
            (v = true → ∃ st, FeedsTo G A b (editedToks w w.length c.pos new) st ∧ AcceptsAt G A G.eof st) ∧
            (∀ pre e post, new = pre ++ e :: post →
              ∃ st, FeedsTo G A b (editedToks w e.pos c.pos pre) st ∧ RefusesAt G A (nextTok G w e.pos) st) := by
        intro h
        simp only [Prod.mk.injEq] at h
        refine ⟨[⟨c.pos, []⟩], h.2, ⟨Nat.le_refl _, by simpa [C05.firstSeq, editSeq, Ordered] using hc⟩, ?_, ?_⟩
        · intro hv; rw [h.1] at hv; cases hv
        · intro pre e post hs
          cases pre with
          | nil =>
            simp only [List.nil_append, List.cons.injEq] at hs
            rw [← hs.1]; exact hself []
          | cons p ps =>
            have := congrArg List.length hs
            simp at this
      cases hrec : recover ⟨s, c.pos⟩ with
      | none => rw [hrec] at h; exact giveUp h.symm
      | some r =>
        obtain ⟨c', rs⟩ := r
        rw [hrec] at h
        simp only at h
        cases rs with
        | nil => simp only [List.isEmpty_nil, if_true] at h; exact giveUp h.symm
        | cons s0 rest =>
          simp only [List.isEmpty_cons, Bool.false_eq_true, if_false] at h
          have happ := hfirst _ _ _ _ hrec
          obtain ⟨c'', happ', hruns⟩ := validSeq_goes hN1 (hvalid _ _ _ _ hrec)
          rw [happ] at happ'
          injection happ' with happ'
          subst happ'
          obtain ⟨hft, hpos⟩ := applySeq_feedToks G A w s0 _ _ happ
          obtain ⟨hle, hin⟩ := applySeq_pos G A w s0 _ _ happ
          simp only at hft hpos hle hin
          -- the plain parse shifts the tokens of the first sequence from the unreduced stack
          have hks : Kept G A s b := .offer c.stack b _ s hkept hf
          obtain ⟨b', hfb, hkb, hpb, _⟩ := feedToks_erase P hcols hk _ s b c'.stack hks hb hft
          obtain ⟨new, h1, h2, h3, h4⟩ := ih c' (errs ++ [⟨c.pos, s0 :: rest⟩]) v errs' b' (hin hc) hkb hpb
            (Or.inr hruns) h
          have hfs : C05.firstSeq ⟨c.pos, s0 :: rest⟩ = s0 := rfl
          have hhead : ∀ (stop : Nat) (es : List Err) (st : List Nat),
              FeedsTo G A b' (editedToks w stop c'.pos es) st →
              FeedsTo G A b (editedToks w stop c.pos (⟨c.pos, s0 :: rest⟩ :: es)) st := by
            intro stop es st hst
            simp only [editedToks, editedItems, hfs, reals_self, List.nil_append, List.map_append]
            rw [← hpos]
            exact feedsTo_append _ _ b b' st hfb hst
          refine ⟨⟨c.pos, s0 :: rest⟩ :: new, by rw [h1]; simp, ⟨Nat.le_refl _, by rw [hfs, ← hpos]; exact h2⟩, ?_, ?_⟩
          · intro hv
            obtain ⟨st, hr, hx⟩ := h3 hv
            exact ⟨st, hhead w.length new st hr, hx⟩
          · intro pre e post hs
            cases pre with
            | nil =>
              simp only [List.nil_append, List.cons.injEq] at hs
              rw [← hs.1]; exact hself _
            | cons p ps =>
              simp only [List.cons_append, List.cons.injEq] at hs
              obtain ⟨s1, hr, hx⟩ := h4 ps e post hs.2
              refine ⟨s1, ?_, hx⟩
              rw [← hs.1]; exact hhead e.pos ps s1 hr

/-- shifting the tokens `toks[i..]` one by one (any fuel) is a run of the full driver over the input
`toks` -/
theorem feedsTo_steps (G : Grammar) (A : Automaton) (toks : List Nat) :
    ∀ (ts : List Nat) (i : Nat) (stack st : List Nat) (astack : List Tree), i ≤ toks.length →
      toks.drop i = ts → FeedsTo G A stack ts st →
      ∃ astack', Steps G A toks ⟨stack, astack, i⟩ ⟨st, astack', toks.length⟩ := by
  intro ts
  induction ts with
  | nil =>
    intro i stack st astack hle hd h
    simp only [FeedsTo] at h
    subst h
    have hi : toks.length ≤ i := by simpa using hd
    have he : i = toks.length := by omega
    subst he; exact ⟨astack, .refl _⟩
  | cons t ts ih =>
    intro i stack st astack hle hd h
    obtain ⟨s, ⟨f, hf⟩, h⟩ := h
    have hi : i < toks.length := by
      by_cases hi : i < toks.length
      · exact hi
      · rw [List.drop_eq_nil_of_le (by omega)] at hd; cases hd
    have hti : nextTok G toks i = t := by
      have : toks[i]? = some t := by
        have := congrArg List.head? hd
        simpa [List.head?_drop] using this
      simp [nextTok, this]
    rw [← hti] at hf
    obtain ⟨a1, hs1⟩ := feed_shifted_steps G A toks f stack s astack i hf
    have hd' : toks.drop (i + 1) = ts := by
      have := congrArg List.tail hd
      simpa [List.tail_drop] using this
    obtain ⟨a2, hs2⟩ := ih (i + 1) s st (.leaf (nextTok G toks i) i :: a1) hi hd' h
    exact ⟨a2, hs1.trans hs2⟩

end GrmVerif.C05
