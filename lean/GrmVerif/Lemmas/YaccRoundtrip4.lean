import GrmVerif.Lemmas.YaccRoundtrip3
/-!
C10, text → AST stage, part 4: the production loop over a rendered production, over the productions of
a rule; `parse_rule`; the loop of `parse_rules`.
-/
namespace GrmVerif.YaccRender
open GrmVerif.YaccParse
open GrmVerif.Header (Res Span byteLen dropBytes takeBytes slice sliceRange lookahead
  dropBytes_some dropBytes_advance byteLen_append sliceRange_ok)

theorem At.lt_of_starts {src : List Char} {i : Nat} {k : List Char} (h : At src i k) (hk : Starts k) :
    i < byteLen src := by
  obtain ⟨c, t, rfl, _⟩ := hk
  exact h.lt

theorem ruleLoop_cont {src : List Char} {fuel : Nat} {rn : Name} {f i : Nat} {p : PState} {st : St}
    {i' : Nat} {p' : PState} {st' : St} (hlt : i < byteLen src)
    (h : M.Ret (ruleStep src fuel rn i p) st (.cont i' p') st') :
    ruleLoop src fuel rn (f + 1) i p st = ruleLoop src fuel rn f i' p' st' := by
  rw [ruleLoop, if_pos hlt, M.bind_def, h]

theorem ruleLoop_done {src : List Char} {fuel : Nat} {rn : Name} {f i : Nat} {p : PState} {st : St}
    {j : Nat} {st' : St} (hlt : i < byteLen src)
    (h : M.Ret (ruleStep src fuel rn i p) st (.done j) st') :
    ruleLoop src fuel rn (f + 1) i p st = .ok (j, st') := by
  rw [ruleLoop, if_pos hlt, M.bind_def, h]; rfl

/-! ### where each stage ends -/

theorem sz_sp : Char.utf8Size ' ' = 1 := by decide

theorem runEmpty_pos (i : Nat) (e : Bool) (p : PState) :
    (runEmpty i e p).1 = i + byteLen (renderEmpty e) := by
  cases e
  · simp [runEmpty, renderEmpty, byteLen]
  · simp only [runEmpty, renderEmpty, if_true]
    rw [show byteLen ['%', 'e', 'm', 'p', 't', 'y', ' '] = 7 by decide]

theorem runSyms_pos : ∀ (ss : List RTok) (i : Nat) (p : PState) (st : St),
    (runSyms i ss p st).1 = i + byteLen (renderSyms ss) := by
  intro ss
  induction ss with
  | nil => intro i p st; simp [runSyms, renderSyms, byteLen]
  | cons s ss ih =>
    intro i p st
    rw [runSyms, ih]
    simp only [renderSyms, byteLen_append, byteLen, sz_sp]; omega

theorem runPrec_pos (i : Nat) (o : Option RTok) (p : PState) (st : St) :
    (runPrec i o p st).1 = i + byteLen (renderPrec o) := by
  cases o with
  | none => simp [runPrec, renderPrec, byteLen]
  | some t =>
    have : byteLen (renderPrec (some t)) = byteLen ['%', 'p', 'r', 'e', 'c', ' '] + (byteLen t.text + 1) := by
      rw [show renderPrec (some t) = ['%', 'p', 'r', 'e', 'c', ' '] ++ (t.text ++ [' ']) from rfl,
        byteLen_append, byteLen_append]
      simp [byteLen, sz_sp]
    rw [this, show byteLen ['%', 'p', 'r', 'e', 'c', ' '] = 6 by decide]
    simp only [runPrec]; omega

theorem runAction_pos (i : Nat) (o : Option (List Char)) (p : PState) (st : St) :
    (runAction i o p st).1 = i + byteLen (renderAction o) := by
  cases o with
  | none => simp [runAction, renderAction, byteLen]
  | some a =>
    have : byteLen (renderAction (some a)) = 1 + (byteLen a + 2) := by
      rw [show renderAction (some a) = ['{'] ++ (a ++ ['}', ' ']) from rfl, byteLen_append, byteLen_append,
        show byteLen ['{'] = 1 by decide, show byteLen ['}', ' '] = 2 by decide]
    rw [this]; simp only [runAction]; omega

/-! ### the four stages of a production -/

theorem stage_syms {src : List Char} {fuel : Nat} {rn : Name} : ∀ (ss : List RTok) (f i : Nat) (p : PState)
    (st : St) (k : List Char), At src i (renderSyms ss ++ k) → ss.all wfTok = true → Starts k →
    ruleLoop src fuel rn (ss.length + f) i p st
      = ruleLoop src fuel rn f (runSyms i ss p st).1 (runSyms i ss p st).2.1 (runSyms i ss p st).2.2 := by
  intro ss
  induction ss with
  | nil => intro f i p st k _ _ _; simp [runSyms]
  | cons s ss ih =>
    intro f i p st k h hw hk
    simp only [List.all_cons, Bool.and_eq_true] at hw
    have h0 : At src i (s.text ++ ' ' :: (renderSyms ss ++ k)) := by simpa [renderSyms] using h
    have hk' : Starts (renderSyms ss ++ k) := starts_syms hw.2 hk
    have hnext : At src (i + byteLen s.text + 1) (renderSyms ss ++ k) := (h0.adv).adv1 (by decide)
    rw [show (s :: ss).length + f = (ss.length + f) + 1 by simp only [List.length_cons]; omega]
    rw [ruleLoop_cont (h0.lt_of_starts (wfTok_starts hw.1 _)) (ruleStep_sym p st h0 hw.1 hk')]
    rw [ih f _ _ _ k hnext hw.2 hk]
    rfl

def bfuel (b : Bool) : Nat := if b then 1 else 0

theorem stage_empty {src : List Char} {fuel : Nat} {rn : Name} (e : Bool) (f i : Nat) (p : PState)
    (st : St) (k : List Char) (h : At src i (renderEmpty e ++ k))
    (he : e = true → p.syms = [] ∧ FollowE k) :
    ruleLoop src fuel rn (bfuel e + f) i p st
      = ruleLoop src fuel rn f (runEmpty i e p).1 (runEmpty i e p).2 st := by
  cases e with
  | false => simp [bfuel, runEmpty]
  | true =>
    obtain ⟨hp, hk⟩ := he rfl
    rw [show bfuel true + f = f + 1 by simp [bfuel]; omega]
    exact ruleLoop_cont (h.lt_of_starts (starts_cons _ ⟨by decide, by decide, by decide⟩))
      (ruleStep_empty p st h hp hk)

theorem stage_prec {src : List Char} {fuel : Nat} {rn : Name} (o : Option RTok) (f i : Nat) (p : PState)
    (st : St) (k : List Char) (h : At src i (renderPrec o ++ k)) (hw : o.all wfTok = true)
    (hk : Starts k) :
    ruleLoop src fuel rn (bfuel o.isSome + f) i p st
      = ruleLoop src fuel rn f (runPrec i o p st).1 (runPrec i o p st).2.1 (runPrec i o p st).2.2 := by
  cases o with
  | none => simp [bfuel, runPrec]
  | some t =>
    rw [show bfuel (some t).isSome + f = f + 1 by simp [bfuel]; omega]
    exact ruleLoop_cont (h.lt_of_starts (starts_prec _ hk)) (ruleStep_prec p st h (by simpa using hw) hk)

theorem stage_action {src : List Char} {fuel : Nat} {rn : Name} (o : Option (List Char)) (f i : Nat)
    (p : PState) (st : St) (k : List Char) (h : At src i (renderAction o ++ k))
    (hw : o.all wfAction = true) (hf : ∀ a, o = some a → a.length + 2 ≤ fuel) (hk : BarSemi k) :
    ruleLoop src fuel rn (bfuel o.isSome + f) i p st
      = ruleLoop src fuel rn f (runAction i o p st).1 (runAction i o p st).2.1 (runAction i o p st).2.2 := by
  cases o with
  | none => simp [bfuel, runAction]
  | some a =>
    rw [show bfuel (some a).isSome + f = f + 1 by simp [bfuel]; omega]
    exact ruleLoop_cont (h.lt_of_starts (starts_action _ hk.starts))
      (ruleStep_action p st h (by simpa using hw) (hf a rfl) hk)

/-! ### one production -/

/-- iterations of the production loop spent on a production (its `|`/`;` not counted) -/
def prodFuel (pr : RProd) : Nat :=
  bfuel pr.empty + (pr.syms.length + (bfuel pr.prec.isSome + bfuel pr.action.isSome))

theorem followE_tail (c : Option RTok) (a : Option (List Char)) {k : List Char} (hk : BarSemi k) :
    FollowE (renderPrec c ++ (renderAction a ++ k)) := by
  cases c with
  | some t => exact .inr (.inr ⟨_, rfl⟩)
  | none =>
    cases a with
    | some t => exact .inr (.inl ⟨_, rfl⟩)
    | none => exact .inl hk

theorem ruleLoop_prod {src : List Char} {fuel : Nat} {rn : Name} (pr : RProd) (f i : Nat) (st : St)
    (k : List Char) (h : At src i (renderProd pr ++ k)) (hw : wfProd pr = true)
    (hf : ∀ a, pr.action = some a → a.length + 2 ≤ fuel) (hk : BarSemi k) :
    ruleLoop src fuel rn (prodFuel pr + f) i { prodStart := i } st
      = ruleLoop src fuel rn f (runProd i pr st).1 (runProd i pr st).2.1 (runProd i pr st).2.2 := by
  simp only [wfProd, Bool.and_eq_true, Bool.or_eq_true, Bool.not_eq_true', List.isEmpty_iff] at hw
  obtain ⟨⟨⟨hs, hc⟩, ha⟩, he⟩ := hw
  have h0 : At src i (renderEmpty pr.empty ++ (renderSyms pr.syms ++ (renderPrec pr.prec ++
      (renderAction pr.action ++ k)))) := by simpa [renderProd] using h
  have hk3 : Starts (renderAction pr.action ++ k) := starts_action _ hk.starts
  have hk2 : Starts (renderPrec pr.prec ++ (renderAction pr.action ++ k)) := starts_prec _ hk3
  have h1 := h0.adv
  rw [← runEmpty_pos i pr.empty { prodStart := i }] at h1
  have h2 := h1.adv
  rw [← runSyms_pos pr.syms _ (runEmpty i pr.empty { prodStart := i }).2 st] at h2
  have h3 := h2.adv
  rw [← runPrec_pos _ pr.prec (runSyms (runEmpty i pr.empty { prodStart := i }).1 pr.syms
    (runEmpty i pr.empty { prodStart := i }).2 st).2.1
    (runSyms (runEmpty i pr.empty { prodStart := i }).1 pr.syms
    (runEmpty i pr.empty { prodStart := i }).2 st).2.2] at h3
  rw [show prodFuel pr + f = bfuel pr.empty + (pr.syms.length + (bfuel pr.prec.isSome +
    (bfuel pr.action.isSome + f))) by simp only [prodFuel]; omega]
  rw [stage_empty pr.empty _ i _ st _ h0 (fun hE => ⟨rfl, by
    rcases he with he | he
    · rw [hE] at he; cases he
    · rw [he]; exact followE_tail _ _ hk⟩)]
  rw [stage_syms pr.syms _ _ _ st _ h1 hs hk2]
  rw [stage_prec pr.prec _ _ _ _ _ h2 hc hk3]
  rw [stage_action pr.action _ _ _ _ _ h3 ha hf hk]
  rfl

theorem runProd_pos (i : Nat) (pr : RProd) (st : St) :
    (runProd i pr st).1 = i + byteLen (renderProd pr) := by
  simp only [runProd, runAction_pos, runPrec_pos, runSyms_pos, runEmpty_pos, renderProd, byteLen_append]
  omega

/-! ### invariants of the image: the rule set is not touched inside a rule, spans are ordered -/

theorem insertToken_rules (a : Ast) (n : Name) (sp : Span) : (a.insertToken n sp).rules = a.rules := by
  unfold Ast.insertToken; split <;> rfl

theorem stepSym_rules (i : Nat) (s : RTok) (p : PState) (st : St) :
    (stepSym i s p st).2.ast.rules = st.ast.rules := by
  cases s <;> simp [stepSym, St.mapAst, insertToken_rules]

theorem runSyms_rules : ∀ (ss : List RTok) (i : Nat) (p : PState) (st : St),
    (runSyms i ss p st).2.2.ast.rules = st.ast.rules := by
  intro ss
  induction ss with
  | nil => intro i p st; rfl
  | cons s ss ih => intro i p st; rw [runSyms, ih, stepSym_rules]

theorem runPrec_rules (i : Nat) (o : Option RTok) (p : PState) (st : St) :
    (runPrec i o p st).2.2.ast.rules = st.ast.rules := by
  cases o <;> simp [runPrec, St.mapAst, insertToken_rules]

theorem runAction_rules (i : Nat) (o : Option (List Char)) (p : PState) (st : St) :
    (runAction i o p st).2.2.ast.rules = st.ast.rules := by
  cases o <;> simp [runAction, St.incNl]

theorem runProd_rules (i : Nat) (pr : RProd) (st : St) :
    (runProd i pr st).2.2.ast.rules = st.ast.rules := by
  simp only [runProd, runAction_rules, runPrec_rules, runSyms_rules]

theorem hasRule_of_rules {a b : Ast} (h : a.rules = b.rules) (n : Name) : a.hasRule n = b.hasRule n := by
  simp [Ast.hasRule, h]

/-- the production's start is not after the current position nor after its recorded end -/
def PInv (p : PState) (i : Nat) : Prop := p.prodStart ≤ i ∧ p.prodStart ≤ p.prodEnd.getD i

theorem stepSym_pinv {i : Nat} (s : RTok) {p : PState} (st : St) (h : PInv p i) :
    PInv (stepSym i s p st).1 (i + byteLen s.text + 1) := by
  obtain ⟨h1, _⟩ := h
  cases s <;> simp only [stepSym, PInv, Option.getD_some] <;> omega

theorem runSyms_pinv : ∀ (ss : List RTok) (i : Nat) (p : PState) (st : St), PInv p i →
    PInv (runSyms i ss p st).2.1 (runSyms i ss p st).1 := by
  intro ss
  induction ss with
  | nil => intro i p st h; exact h
  | cons s ss ih => intro i p st h; rw [runSyms]; exact ih _ _ _ (stepSym_pinv s st h)

theorem runEmpty_pinv {i : Nat} (e : Bool) {p : PState} (h : PInv p i) :
    PInv (runEmpty i e p).2 (runEmpty i e p).1 := by
  obtain ⟨h1, _⟩ := h
  cases e
  · simpa [runEmpty] using ⟨h1, ‹_›⟩
  · simp only [runEmpty, PInv, if_true, Option.getD_some]; omega

theorem runPrec_pinv {i : Nat} (o : Option RTok) {p : PState} (st : St) (h : PInv p i) :
    PInv (runPrec i o p st).2.1 (runPrec i o p st).1 := by
  obtain ⟨h1, _⟩ := h
  cases o
  · simpa [runPrec] using ⟨h1, ‹_›⟩
  · simp only [runPrec, PInv, Option.getD_some]; omega

theorem runAction_pinv {i : Nat} (o : Option (List Char)) {p : PState} (st : St) (h : PInv p i) :
    PInv (runAction i o p st).2.1 (runAction i o p st).1 := by
  obtain ⟨h1, _⟩ := h
  cases o
  · simpa [runAction] using ⟨h1, ‹_›⟩
  · simp only [runAction, PInv, Option.getD_some]; omega

theorem runProd_pinv (i : Nat) (pr : RProd) (st : St) :
    PInv (runProd i pr st).2.1 (runProd i pr st).1 := by
  have h0 : PInv { prodStart := i } i := ⟨Nat.le_refl _, Nat.le_refl _⟩
  simp only [runProd]
  exact runAction_pinv _ _ (runPrec_pinv _ _ (runSyms_pinv _ _ _ _ (runEmpty_pinv _ h0)))

/-! ### the productions of a rule -/

def prodsFuel : RProd → List RProd → Nat
  | pr, [] => prodFuel pr + 1
  | pr, q :: qs => prodFuel pr + 1 + prodsFuel q qs

theorem starts_prod {pr : RProd} (hw : wfProd pr = true) {k : List Char} (hk : Starts k) :
    Starts (renderProd pr ++ k) := by
  simp only [wfProd, Bool.and_eq_true] at hw
  obtain ⟨⟨⟨hs, _⟩, _⟩, _⟩ := hw
  cases hE : pr.empty with
  | true => simp only [renderProd, hE, renderEmpty]; exact starts_cons _ ⟨by decide, by decide, by decide⟩
  | false =>
    simp only [renderProd, hE, renderEmpty, List.nil_append, List.append_assoc]
    exact starts_syms hs (starts_prec _ (starts_action _ hk))

theorem starts_prods {pr : RProd} {more : List RProd} (hw : wfProd pr = true) (post : List Char) :
    Starts (renderProds pr more ++ post) := by
  cases more with
  | nil => simp only [renderProds, List.append_assoc]; exact starts_prod hw (starts_semi _)
  | cons q qs => simp only [renderProds, List.append_assoc]; exact starts_prod hw (starts_bar _)

theorem pushProd_rules (pr : Prod) (st : St) : (pushProd pr st).ast.rules = st.ast.rules := rfl

theorem runProds_pos (rn : Name) : ∀ (more : List RProd) (pr : RProd) (i : Nat) (st : St),
    (runProds rn i pr more st).1 + 1 = i + byteLen (renderProds pr more) := by
  intro more
  induction more with
  | nil =>
    intro pr i st
    simp only [runProds, runProd_pos, renderProds, byteLen_append]
    rw [show byteLen [';', '\n'] = 2 by decide]
    omega
  | cons q qs ih =>
    intro pr i st
    rw [runProds, ih, runProd_pos]
    rw [show renderProds pr (q :: qs) = renderProd pr ++ (['|', ' '] ++ renderProds q qs) from rfl,
      byteLen_append, byteLen_append, show byteLen ['|', ' '] = 2 by decide]
    omega

theorem ruleLoop_prods {src : List Char} {fuel : Nat} {rn : Name} : ∀ (more : List RProd) (pr : RProd)
    (f i : Nat) (st : St) (post : List Char), At src i (renderProds pr more ++ post) →
    (∀ q ∈ pr :: more, wfProd q = true ∧ ∀ a, q.action = some a → a.length + 2 ≤ fuel) →
    st.ast.hasRule rn = true →
    ruleLoop src fuel rn (prodsFuel pr more + f) i { prodStart := i } st = .ok (runProds rn i pr more st) := by
  intro more
  induction more with
  | nil =>
    intro pr f i st post h hw hr
    obtain ⟨hw1, hf1⟩ := hw pr (by simp)
    have h0 : At src i (renderProd pr ++ ';' :: '\n' :: post) := by simpa [renderProds] using h
    have h1 := h0.adv
    rw [← runProd_pos i pr st] at h1
    rw [show prodsFuel pr [] + f = prodFuel pr + (f + 1) by simp only [prodsFuel]; omega]
    rw [ruleLoop_prod pr _ i st _ h0 hw1 hf1 ⟨_, _, rfl, .inr rfl⟩]
    rw [ruleLoop_done h1.lt (ruleStep_semi _ _ h1 (runProd_pinv i pr st).2
      (by rw [hasRule_of_rules (runProd_rules i pr st)]; exact hr))]
    rfl
  | cons q qs ih =>
    intro pr f i st post h hw hr
    obtain ⟨hw1, hf1⟩ := hw pr (by simp)
    have hwq : wfProd q = true := (hw q (by simp)).1
    have h0 : At src i (renderProd pr ++ '|' :: ' ' :: (renderProds q qs ++ post)) := by
      simpa [renderProds] using h
    have h1 := h0.adv
    rw [← runProd_pos i pr st] at h1
    have h2 : At src ((runProd i pr st).1 + 2) (renderProds q qs ++ post) :=
      (h1.adv1 (by decide)).adv1 (by decide)
    rw [show prodsFuel pr (q :: qs) + f = prodFuel pr + ((prodsFuel q qs + f) + 1) by
      simp only [prodsFuel]; omega]
    rw [ruleLoop_prod pr _ i st _ h0 hw1 hf1 ⟨_, _, rfl, .inl rfl⟩]
    rw [ruleLoop_cont h1.lt (ruleStep_bar _ _ h1 (starts_prods hwq post) (runProd_pinv i pr st).2
      (by rw [hasRule_of_rules (runProd_rules i pr st)]; exact hr))]
    rw [ih q f _ _ post h2 (fun q' hq' => hw q' (List.mem_cons_of_mem _ hq'))
      (by rw [hasRule_of_rules (pushProd_rules _ _), hasRule_of_rules (runProd_rules i pr st)]; exact hr)]
    rfl

/-! ### the rule header of `YaccKind::Grmtools`: `name -> type :` -/

theorem colonLoop_type {src : List Char} : ∀ (n : Nat) (ty : List Char) (f j : Nat) (st : St) (k : List Char),
    ty.length ≤ n → At src j (ty ++ ':' :: ' ' :: k) → typeScan ty = true → ty.length < f →
    colonLoop src f j st = .ok (j + byteLen ty, St.incNl (YaccLex.countEol ty) st) := by
  intro n
  induction n with
  | zero =>
    intro ty f j st k hn h _ hf
    have : ty = [] := List.length_eq_zero_iff.1 (by omega)
    subst this
    obtain ⟨f, rfl⟩ : ∃ f', f = f' + 1 := ⟨f - 1, by simp at hf; omega⟩
    have h0 : At src j (':' :: ' ' :: k) := by simpa using h
    have h1 : At src (j + 1) (' ' :: k) := h0.adv1 (by decide)
    rw [colonLoop, if_pos h0.lt, M.bind_def, show liftR (nextChar src j) st = .ok (':', st) from liftR_ret h0.nextChar]
    dsimp only
    rw [if_pos rfl, if_neg (by have := h1.lt; omega)]
    rw [M.bind_def, show liftR (Header.slice src (j + 1)) st = .ok (' ' :: k, st) from liftR_ret h1.slice]
    simp [List.isPrefixOf, byteLen, YaccLex.countEol, incNl_zero]
    rfl
  | succ n ih =>
    intro ty f j st k hn h hs hf
    cases ty with
    | nil => exact ih [] f j st k (by simp) h hs hf
    | cons c cs =>
      obtain ⟨f, rfl⟩ : ∃ f', f = f' + 1 := ⟨f - 1, by simp only [List.length_cons] at hf; omega⟩
      simp only [List.length_cons] at hf hn
      have h0 : At src j (c :: (cs ++ ':' :: ' ' :: k)) := by simpa using h
      have hnext : At src (j + c.utf8Size) (cs ++ ':' :: ' ' :: k) := by
        have := At.adv (a := [c]) (rest := cs ++ ':' :: ' ' :: k) (by simpa using h)
        simpa [byteLen] using this
      rw [colonLoop, if_pos h0.lt, M.bind_def, show liftR (nextChar src j) st = .ok (c, st) from liftR_ret h0.nextChar]
      dsimp only
      have szc : Char.utf8Size ':' = 1 := by decide
      rw [typeScan.eq_def] at hs
      dsimp only at hs
      by_cases hc : c = ':'
      · subst hc
        simp only [if_true] at hs ⊢
        cases cs with
        | nil => simp at hs
        | cons d ds =>
          simp only at hs
          by_cases hd : d = ':'
          · subst hd
            simp only [if_true] at hs
            have h1 : At src (j + 1) (':' :: (ds ++ ':' :: ' ' :: k)) := by simpa [szc] using hnext
            have h2 : At src (j + 2) (ds ++ ':' :: ' ' :: k) := by
              have := h1.adv1 (by decide); rwa [show j + 1 + 1 = j + 2 by omega] at this
            rw [if_neg (by have := h1.lt; omega)]
            rw [M.bind_def, show liftR (Header.slice src (j + 1)) st = .ok (':' :: (ds ++ ':' :: ' ' :: k), st) from
              liftR_ret h1.slice]
            simp only [List.isPrefixOf, beq_self_eq_true, Bool.and_self, if_true]
            simp only [List.length_cons] at hf hn
            rw [ih ds f (j + 2) st k (by omega) h2 hs (by omega)]
            simp [byteLen, YaccLex.countEol, YaccLex.isEol, szc]
            omega
          · simp [hd] at hs
      · rw [if_neg hc] at hs ⊢
        by_cases heol : YaccLex.isEol c = true
        · rw [if_pos heol]
          show colonLoop src f (j + c.utf8Size) (St.incNl 1 st) = _
          rw [ih cs f _ _ k (by omega) hnext hs (by omega), incNl_incNl]
          simp [byteLen, YaccLex.countEol, heol]; omega
        · rw [if_neg heol]
          rw [ih cs f _ _ k (by omega) hnext hs (by omega)]
          simp [byteLen, YaccLex.countEol, heol]; omega

theorem wfType_starts {ty : List Char} (h : wfType ty = true) (k : List Char) :
    Starts (ty ++ k) ∧ typeScan ty = true := by
  cases ty with
  | nil => simp [wfType] at h
  | cons c cs =>
    simp only [wfType, Bool.and_eq_true, Bool.not_eq_true', bne_iff_ne, ne_eq] at h
    exact ⟨starts_cons _ ⟨h.1.1.1, h.1.1.2, h.1.2⟩, h.2⟩

/-! ### `parse_rule` and the loop of `parse_rules` -/

theorem hasRule_addRule (a : Ast) (n : Name) (sp : Span) : (a.addRule n sp).hasRule n = true := by
  unfold Ast.addRule
  split
  · assumption
  · simp [Ast.hasRule]

/-- `g` says whether the kind is `YaccKind::Grmtools` -/
def kindIs (g : Bool) (kind : Kind) : Prop := (kind = .grmtools) ↔ g = true

def ruleOK (g : Bool) (fuel : Nat) (r : RRule) : Prop :=
  wfName r.name = true ∧ prodsFuel r.first r.more ≤ fuel ∧
    (∀ q ∈ r.first :: r.more, wfProd q = true ∧ ∀ a, q.action = some a → a.length + 2 ≤ fuel) ∧
    (g = true → wfType r.ty = true ∧ r.ty.length < fuel)

theorem ruleHead_at {src : List Char} {kind : Kind} {fuel i : Nat} {g : Bool} (r : RRule) (st : St)
    (k : List Char) (h : At src i (renderHead g r ++ ':' :: ' ' :: k)) (hk : kindIs g kind)
    (hr : ruleOK g fuel r) (sp : Span) :
    M.Ret (ruleHead src kind fuel r.name sp i) st (i + byteLen (renderHead g r))
      (St.mapAst (fun a => a.addRule r.name sp) (St.incNl (headNl g r) st)) := by
  cases g with
  | false =>
    have hk' : kind ≠ .grmtools := fun e => by have := hk.1 e; cases this
    unfold ruleHead
    rw [if_neg hk']
    refine M.Ret.bind (modifyAst_ret _ _) ?_
    simp only [renderHead, byteLen, Bool.false_eq_true, if_false, Nat.add_zero]
    exact M.Ret.pure
  | true =>
    have hk' : kind = .grmtools := hk.2 rfl
    obtain ⟨hty, hfty⟩ := hr.2.2.2 rfl
    obtain ⟨hst, hscan⟩ := wfType_starts hty (':' :: ' ' :: k)
    have h0 : At src i (' ' :: '-' :: '>' :: ' ' :: (r.ty ++ ':' :: ' ' :: k)) := by
      simpa [renderHead] using h
    have h1 : At src (i + 1) ('-' :: '>' :: ' ' :: (r.ty ++ ':' :: ' ' :: k)) := h0.adv1 (by decide)
    have h3 : At src (i + 1 + 2) (' ' :: (r.ty ++ ':' :: ' ' :: k)) := by
      have := At.adv (a := ['-', '>']) (by simpa using h1)
      rwa [show byteLen ['-', '>'] = 2 by decide] at this
    have h4 : At src (i + 1 + 2 + 1) (r.ty ++ ':' :: ' ' :: k) := h3.adv1 (by decide)
    have hcl := colonLoop_type (src := src) r.ty.length r.ty fuel (i + 1 + 2 + 1) st k (Nat.le_refl _) h4 hscan hfty
    have hpc : M.Ret (parseToSingleColon src fuel (i + 1 + 2 + 1)) st (i + 1 + 2 + 1 + byteLen r.ty)
        (St.incNl (YaccLex.countEol r.ty) st) := by
      unfold parseToSingleColon
      refine M.Ret.bind hcl ?_
      refine M.Ret.bind (liftR_ret h4.range) ?_
      exact M.Ret.pure
    unfold ruleHead
    rw [if_pos hk']
    refine M.Ret.bind (ws_space h0 (starts_cons _ ⟨by decide, by decide, by decide⟩).stops st) ?_
    refine M.Ret.bind (la_yes' (j := i + 1 + 2) "->" (by simpa using h1) st
      (by rw [show byteLen "->".toList = 2 by decide])) ?_
    dsimp only
    refine M.Ret.bind (ws_space h3 hst.stops st) ?_
    refine M.Ret.bind hpc ?_
    refine M.Ret.bind (modifyAst_ret _ _) ?_
    have e : i + 1 + 2 + 1 + byteLen r.ty = i + byteLen (renderHead true r) := by
      rw [show renderHead true r = [' ', '-', '>', ' '] ++ r.ty from rfl, byteLen_append,
        show byteLen [' ', '-', '>', ' '] = 4 by decide]
      omega
    rw [e]
    exact M.Ret.pure

theorem headSt_eq (g : Bool) (i : Nat) (r : RRule) (st : St) :
    St.mapAst (fun a => a.addRule r.name (i, i + byteLen r.name)) (St.incNl (headNl g r)
      (St.mapAst (fun a => if a.start.isNone then { a with start := some (r.name, (i, i + byteLen r.name)) } else a) st))
      = headSt g i r st := rfl

theorem headSt_hasRule (g : Bool) (i : Nat) (r : RRule) (st : St) :
    (headSt g i r st).ast.hasRule r.name = true := hasRule_addRule _ _ _

theorem nameEnd_head (g : Bool) (r : RRule) (k : List Char) : NameEnd (renderHead g r ++ ':' :: ' ' :: k) := by
  cases g
  · exact nameEnd_colon _
  · exact nameEnd_space _

theorem parseRule_at {src : List Char} {kind : Kind} {fuel i : Nat} {g : Bool} (r : RRule) (st : St)
    (post : List Char) (h : At src i (renderRule g r ++ post)) (hk : kindIs g kind)
    (hr : ruleOK g fuel r) :
    M.Ret (parseRule src kind fuel i) st
      (runProds r.name (i + byteLen r.name + byteLen (renderHead g r) + 2) r.first r.more (headSt g i r st)).1
      (runProds r.name (i + byteLen r.name + byteLen (renderHead g r) + 2) r.first r.more (headSt g i r st)).2 := by
  have hr' := hr
  obtain ⟨hn, hfuel, hq, _⟩ := hr
  have h0 : At src i (r.name ++ (renderHead g r ++ ':' :: ' ' :: (renderProds r.first r.more ++ post))) := by
    simpa [renderRule] using h
  have hh : At src (i + byteLen r.name) (renderHead g r ++ ':' :: ' ' :: (renderProds r.first r.more ++ post)) :=
    h0.adv
  have h1 : At src (i + byteLen r.name + byteLen (renderHead g r))
      (':' :: ' ' :: (renderProds r.first r.more ++ post)) := hh.adv
  have h2 : At src (i + byteLen r.name + byteLen (renderHead g r) + 1)
      (' ' :: (renderProds r.first r.more ++ post)) := h1.adv1 (by decide)
  have h3 : At src (i + byteLen r.name + byteLen (renderHead g r) + 1 + 1)
      (renderProds r.first r.more ++ post) := h2.adv1 (by decide)
  have hst := starts_prods (more := r.more) (hq r.first (by simp)).1 post
  unfold parseRule
  refine M.Ret.bind (liftR_ret (parseName_at h0 hn (nameEnd_head g r _))) ?_
  dsimp only
  refine M.Ret.bind (liftR_ret (mkSpan_le _ _)) ?_
  refine M.Ret.bind (modifyAst_ret _ st) ?_
  refine M.Ret.bind (ruleHead_at r _ _ hh hk hr' _) ?_
  rw [headSt_eq]
  refine M.Ret.bind (ws_none h1 (starts_cons _ ⟨by decide, by decide, by decide⟩).stops _) ?_
  refine M.Ret.bind (la_yes' (j := i + byteLen r.name + byteLen (renderHead g r) + 1) ":" (by simpa using h1) _
    (by rw [show byteLen ":".toList = 1 by decide])) ?_
  dsimp only
  refine M.Ret.bind (ws_space h2 hst.stops _) ?_
  obtain ⟨f, hg⟩ : ∃ f, prodsFuel r.first r.more + f = fuel := ⟨fuel - prodsFuel r.first r.more, by omega⟩
  have hloop := ruleLoop_prods (src := src) (fuel := fuel) (rn := r.name) r.more r.first f _
    (headSt g i r st) post h3 hq (headSt_hasRule g i r st)
  rw [hg] at hloop
  unfold M.Ret
  rw [show i + byteLen r.name + byteLen (renderHead g r) + 2 = i + byteLen r.name + byteLen (renderHead g r) + 1 + 1 by omega]
  exact hloop

theorem renderProds_split : ∀ (more : List RProd) (pr : RProd), ∃ body, renderProds pr more = body ++ ['\n'] := by
  intro more
  induction more with
  | nil => intro pr; exact ⟨renderProd pr ++ [';'], by simp [renderProds]⟩
  | cons q qs ih =>
    intro pr
    obtain ⟨b, hb⟩ := ih q
    exact ⟨renderProd pr ++ '|' :: ' ' :: b, by simp [renderProds, hb]⟩

theorem runRule_pos (g : Bool) (i : Nat) (r : RRule) (st : St) :
    (runRule g i r st).1 = i + byteLen (renderRule g r) := by
  simp only [runRule, runProds_pos]
  rw [show renderRule g r = r.name ++ (renderHead g r ++ ([':', ' '] ++ renderProds r.first r.more)) from rfl,
    byteLen_append, byteLen_append, byteLen_append, show byteLen [':', ' '] = 2 by decide]
  omega

/-- what may follow the rules section: the end of the text, or `%%` -/
def RulesEnd (post : List Char) : Prop := post = [] ∨ ∃ t, post = '%' :: '%' :: t

theorem stops_rules {g : Bool} {fuel : Nat} {rs : List RRule} (hw : ∀ r ∈ rs, ruleOK g fuel r) {post : List Char}
    (hp : RulesEnd post) : Stops (renderRules g rs ++ post) := by
  cases rs with
  | nil =>
    rcases hp with rfl | ⟨t, rfl⟩
    · exact .nil
    · exact (starts_cons _ ⟨by decide, by decide, by decide⟩).stops
  | cons r rs =>
    have hn := (hw r (by simp)).1
    cases hN : r.name with
    | nil => rw [hN] at hn; simp [wfName] at hn
    | cons c cs =>
      rw [hN] at hn
      simp only [renderRules, renderRule, hN, List.cons_append, List.append_assoc]
      exact (starts_cons _ (nameStart_facts (wfName_head hn)).2.2.2.2.2.2).stops

theorem rulesLoop_rules {src : List Char} {kind : Kind} {fuel : Nat} {g : Bool} (hk : kindIs g kind) :
    ∀ (rs : List RRule) (f i : Nat) (st : St) (post : List Char), At src i (renderRules g rs ++ post) →
    (∀ r ∈ rs, ruleOK g fuel r) → RulesEnd post →
    rulesLoop src kind fuel (rs.length + f + 1) i st = .ok (runRules g i rs st) := by
  intro rs
  induction rs with
  | nil =>
    intro f i st post h _ hp
    rw [rulesLoop]
    rcases hp with rfl | ⟨t, rfl⟩
    · have := At.eq_len (by simpa [renderRules] using h)
      rw [if_neg (by omega)]; rfl
    · have h0 : At src i ('%' :: '%' :: t) := by simpa [renderRules] using h
      rw [if_pos h0.lt, M.bind_def, show la src "%%" i st = _ from la_yes "%%" (by simpa using h0) st]
      rfl
  | cons r rs ih =>
    intro f i st post h hw hp
    have hr := hw r (by simp)
    have h0 : At src i (renderRule g r ++ (renderRules g rs ++ post)) := by simpa [renderRules] using h
    obtain ⟨c, cs, hN⟩ : ∃ c cs, r.name = c :: cs := by
      cases hN : r.name with
      | nil => have := hr.1; rw [hN] at this; simp [wfName] at this
      | cons c cs => exact ⟨c, cs, rfl⟩
    have hc : isNameStart c = true := wfName_head (hN ▸ hr.1)
    have hhead : At src i (c :: (cs ++ (renderHead g r ++ ':' :: ' ' :: (renderProds r.first r.more ++
        (renderRules g rs ++ post))))) := by
      simpa [renderRule, hN] using h0
    have f5 : c ≠ '%' := (nameStart_facts hc).2.2.2.2.1
    have hq := runProds_pos r.name r.more r.first (i + byteLen r.name + byteLen (renderHead g r) + 2) (headSt g i r st)
    have hnl : At src (runProds r.name (i + byteLen r.name + byteLen (renderHead g r) + 2) r.first r.more
        (headSt g i r st)).1 ('\n' :: (renderRules g rs ++ post)) := by
      obtain ⟨body, hb⟩ := renderProds_split r.more r.first
      have h2 : At src i ((r.name ++ (renderHead g r ++ (':' :: ' ' :: body))) ++ '\n' :: (renderRules g rs ++ post)) := by
        simpa [renderRule, hb] using h0
      have h3 := h2.adv
      have e : i + byteLen (r.name ++ (renderHead g r ++ (':' :: ' ' :: body)))
          = (runProds r.name (i + byteLen r.name + byteLen (renderHead g r) + 2) r.first r.more (headSt g i r st)).1 := by
        rw [hb, byteLen_append, show byteLen ['\n'] = 1 by decide] at hq
        rw [show r.name ++ (renderHead g r ++ (':' :: ' ' :: body)) = r.name ++ (renderHead g r ++ ([':', ' '] ++ body)) from rfl,
          byteLen_append, byteLen_append, byteLen_append, show byteLen [':', ' '] = 2 by decide]
        omega
      rwa [e] at h3
    have hnext : At src (runRule g i r st).1 (renderRules g rs ++ post) := hnl.adv1 (by decide)
    rw [show (r :: rs).length + f + 1 = (rs.length + f + 1) + 1 by simp only [List.length_cons]; omega]
    rw [rulesLoop, if_pos hhead.lt]
    change M.Ret _ st (runRules g i (r :: rs) st).1 (runRules g i (r :: rs) st).2
    refine M.Ret.bind (la_no hhead "%%" st (by simp [List.isPrefixOf, Ne.symm f5])) ?_
    dsimp only
    refine M.Ret.bind (parseRule_at r st _ h0 hk hr) ?_
    refine M.Ret.bind (ws_nl hnl (stops_rules (fun r' hr' => hw r' (List.mem_cons_of_mem _ hr')) hp) _) ?_
    exact ih f _ _ post hnext (fun r' hr' => hw r' (List.mem_cons_of_mem _ hr')) hp

/-- `parse_rules` at the `%%` that opens the rules section, written `%%\n` -/
theorem parseRules_at {src : List Char} {kind : Kind} {fuel i : Nat} {g : Bool} (hk : kindIs g kind)
    (rs : List RRule) (st : St) (post : List Char)
    (h : At src i ('%' :: '%' :: '\n' :: (renderRules g rs ++ post)))
    (hw : ∀ r ∈ rs, ruleOK g fuel r) (hp : RulesEnd post) (hf : rs.length < fuel) :
    parseRules src kind fuel i st = .ok (runRules g (i + 3) rs (St.incNl 1 st)) := by
  have h2 : At src (i + 2) ('\n' :: (renderRules g rs ++ post)) := (h.adv1 (by decide)).adv1 (by decide)
  have h3 : At src (i + 2 + 1) (renderRules g rs ++ post) := h2.adv1 (by decide)
  obtain ⟨f, hg⟩ : ∃ f, rs.length + f + 1 = fuel := ⟨fuel - rs.length - 1, by omega⟩
  have hloop := rulesLoop_rules (src := src) (kind := kind) (fuel := fuel) hk rs f _ (St.incNl 1 st) post h3 hw hp
  rw [hg] at hloop
  unfold parseRules
  change M.Ret _ st (runRules g (i + 3) rs (St.incNl 1 st)).1 (runRules g (i + 3) rs (St.incNl 1 st)).2
  refine M.Ret.bind (la_yes' (j := i + 2) "%%" (by simpa using h) st
    (by rw [show byteLen "%%".toList = 2 by decide])) ?_
  dsimp only
  refine M.Ret.bind (ws_nl h2 (stops_rules hw hp) st) ?_
  exact hloop

end GrmVerif.YaccRender
