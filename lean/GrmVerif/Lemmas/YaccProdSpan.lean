import GrmVerif.Lemmas.YaccRoundtrip8
/-!
C10, text → AST stage: the span the image records for a production, and the text it delimits.
-/
namespace GrmVerif.YaccRender
open GrmVerif.YaccParse
open GrmVerif.Header (Res Span byteLen byteLen_append sliceRange)

/-- the items of a production that come before its action, each followed by its space -/
def prodItems (pr : RProd) : List Char := renderEmpty pr.empty ++ (renderSyms pr.syms ++ renderPrec pr.prec)

/-- the text a production's span delimits: with an action, everything from the first item to the `{`
(the space before the brace included); without, the items without the space after the last one -/
def prodSpanText (pr : RProd) : List Char :=
  match pr.action with
  | some _ => prodItems pr
  | none => (prodItems pr).dropLast

theorem runSyms_end : ∀ (ss : List RTok) (i : Nat) (p : PState) (st : St), ss ≠ [] →
    (runSyms i ss p st).2.1.prodEnd = some ((runSyms i ss p st).1 - 1) := by
  intro ss
  induction ss with
  | nil => intro i p st h; exact absurd rfl h
  | cons s ss ih =>
    intro i p st _
    rw [runSyms]
    cases ss with
    | nil => cases s <;> simp [runSyms, stepSym]
    | cons u us => exact ih _ _ _ (by simp)

theorem runSyms_start : ∀ (ss : List RTok) (i : Nat) (p : PState) (st : St),
    (runSyms i ss p st).2.1.prodStart = p.prodStart := by
  intro ss
  induction ss with
  | nil => intro i p st; rfl
  | cons s ss ih => intro i p st; rw [runSyms, ih]; cases s <;> rfl

theorem renderSyms_last : ∀ (ss : List RTok), ss ≠ [] → ∃ y, renderSyms ss = y ++ [' '] := by
  intro ss
  induction ss with
  | nil => intro h; exact absurd rfl h
  | cons s ss ih =>
    intro _
    cases ss with
    | nil => exact ⟨s.text, by simp [renderSyms]⟩
    | cons u us =>
      obtain ⟨y, hy⟩ := ih (by simp)
      exact ⟨s.text ++ ' ' :: y, by rw [renderSyms, hy]; simp⟩

/-- the items end with a space unless there is none -/
theorem prodItems_last (pr : RProd) : prodItems pr = [] ∨ ∃ y, prodItems pr = y ++ [' '] := by
  unfold prodItems
  cases hp : pr.prec with
  | some t => exact .inr ⟨renderEmpty pr.empty ++ (renderSyms pr.syms ++ ('%' :: 'p' :: 'r' :: 'e' :: 'c' :: ' ' :: t.text)),
      by simp [renderPrec]⟩
  | none =>
    by_cases hs : pr.syms = []
    · cases he : pr.empty with
      | false => exact .inl (by simp [hs, renderSyms, renderPrec, renderEmpty])
      | true => exact .inr ⟨['%', 'e', 'm', 'p', 't', 'y'], by simp [hs, renderSyms, renderPrec, renderEmpty]⟩
    · obtain ⟨y, hy⟩ := renderSyms_last pr.syms hs
      exact .inr ⟨renderEmpty pr.empty ++ y, by simp [hy, renderPrec]⟩

theorem byteLen_dropLast_space {x y : List Char} (h : x = y ++ [' ']) : byteLen x.dropLast + 1 = byteLen x := by
  subst h; simp [byteLen_append, byteLen, show Char.utf8Size ' ' = 1 by decide]

/-- **the production's span**: it starts at the production's first byte and ends behind
`prodSpanText` (for an empty production without `%empty`, `%prec` and action: the empty span at the
`|`/`;`) -/
theorem runProd_span (rn : Name) (i : Nat) (pr : RProd) (st : St) (hw : wfProd pr = true) :
    (mkProd rn (runProd i pr st).2.1 (runProd i pr st).1).span = (i, i + byteLen (prodSpanText pr)) := by
  simp only [wfProd, Bool.and_eq_true, Bool.or_eq_true, Bool.not_eq_true', List.isEmpty_iff] at hw
  obtain ⟨_, he⟩ := hw
  have hstart : (runProd i pr st).2.1.prodStart = i := by
    have h1 : ∀ i o p st, (runAction i o p st).2.1.prodStart = p.prodStart := by intro i o p st; cases o <;> rfl
    have h2 : ∀ i o p st, (runPrec i o p st).2.1.prodStart = p.prodStart := by intro i o p st; cases o <;> rfl
    simp only [runProd, h1, h2, runSyms_start]
    cases pr.empty <;> rfl
  simp only [mkProd, hstart, Prod.mk.injEq, true_and]
  have hpos : ∀ (p : PState) (st : St), (runPrec (runSyms (runEmpty i pr.empty { prodStart := i }).1 pr.syms p st).1 pr.prec
      (runSyms (runEmpty i pr.empty { prodStart := i }).1 pr.syms p st).2.1
      (runSyms (runEmpty i pr.empty { prodStart := i }).1 pr.syms p st).2.2).1 = i + byteLen (prodItems pr) := by
    intro p st
    simp only [runPrec_pos, runSyms_pos, runEmpty_pos, prodItems, byteLen_append]; omega
  cases ha : pr.action with
  | some a =>
    simp only [runProd, ha, runAction, prodSpanText, Option.getD_some]
    exact hpos _ _
  | none =>
    simp only [runProd, ha, runAction, prodSpanText]
    cases hp : pr.prec with
    | some t =>
      have : byteLen (prodItems pr).dropLast + 1 = byteLen (prodItems pr) := by
        rcases prodItems_last pr with h | ⟨y, hy⟩
        · simp [prodItems, hp, renderPrec] at h
        · exact byteLen_dropLast_space hy
      have h2 := hpos (runEmpty i pr.empty { prodStart := i }).2 st
      simp only [hp, runPrec] at h2 ⊢
      simp only [Option.getD_some]; omega
    | none =>
      simp only [runPrec]
      by_cases hs : pr.syms = []
      · cases hE : pr.empty with
        | false => simp [hs, runSyms, runEmpty, prodItems, hp, hE, renderSyms, renderPrec, renderEmpty, byteLen]
        | true =>
          simp only [hs, runSyms, runEmpty, prodItems, hp, hE, renderSyms, renderPrec, renderEmpty, if_true,
            Option.getD_some]
          exact congrArg (i + ·) (show 6 = byteLen (['%', 'e', 'm', 'p', 't', 'y', ' '] ++ ([] ++ [])).dropLast by decide)
      · rw [runSyms_end pr.syms _ _ _ hs]
        have h2 := hpos (runEmpty i pr.empty { prodStart := i }).2 st
        simp only [hp, runPrec] at h2
        have : byteLen (prodItems pr).dropLast + 1 = byteLen (prodItems pr) := by
          rcases prodItems_last pr with h | ⟨y, hy⟩
          · obtain ⟨z, hz⟩ := renderSyms_last pr.syms hs
            simp [prodItems, hz] at h
          · exact byteLen_dropLast_space hy
        simp only [Option.getD_some]; omega

/-- the rendered production begins with the text its span delimits -/
theorem prodSpanText_prefix (pr : RProd) : ∃ tail, renderProd pr = prodSpanText pr ++ tail := by
  have e : renderProd pr = prodItems pr ++ renderAction pr.action := by simp [renderProd, prodItems]
  unfold prodSpanText
  cases ha : pr.action with
  | some a => exact ⟨renderAction (some a), by rw [e, ha]⟩
  | none =>
    rcases prodItems_last pr with h | ⟨y, hy⟩
    · exact ⟨[], by rw [e, ha, h]; simp [renderAction]⟩
    · exact ⟨[' '], by rw [e, ha, hy]; simp [renderAction]⟩

end GrmVerif.YaccRender
