import GrmVerif.Lemmas.TableSpec
/-! Lemmas: the reduce/accept loop computes `specReduce`; the shift step computes `specSR`. -/
namespace GrmVerif.Table
open GrmVerif

/-! ### `minList` -/

theorem minList_mem : ∀ (l : List Nat), l ≠ [] → minList l ∈ l
  | [], h => absurd rfl h
  | [a], _ => by simp [minList]
  | a :: b :: rest, _ => by
    have ih := minList_mem (b :: rest) (by simp)
    simp only [minList]
    by_cases h : a ≤ minList (b :: rest)
    · rw [Nat.min_eq_left h]; simp
    · rw [Nat.min_eq_right (by omega)]; exact List.mem_cons_of_mem _ ih

theorem minList_le : ∀ (l : List Nat) (x : Nat), x ∈ l → minList l ≤ x
  | [], _, h => by cases h
  | [a], x, h => by simp at h; simp [minList, h]
  | a :: b :: rest, x, h => by
    simp only [minList]
    rcases List.mem_cons.mp h with rfl | h
    · exact Nat.min_le_left _ _
    · have := minList_le (b :: rest) x h
      exact Nat.le_trans (Nat.min_le_right _ _) this

/-- the minimum is determined by the set of elements -/
theorem minList_congr (l l' : List Nat) (h : ∀ x, x ∈ l ↔ x ∈ l') (hne : l ≠ []) : minList l = minList l' := by
  have hne' : l' ≠ [] := by
    intro h'; subst h'
    cases l with
    | nil => exact hne rfl
    | cons a as => have := (h a).mp (by simp); cases this
  have h1 := minList_le l' _ ((h _).mp (minList_mem l hne))
  have h2 := minList_le l _ ((h _).mpr (minList_mem l' hne'))
  omega

theorem minList_cons (a : Nat) (l : List Nat) (hne : l ≠ []) : minList (a :: l) = min a (minList l) := by
  cases l with
  | nil => exact absurd rfl hne
  | cons b rest => simp [minList]

/-! ### the reduce/accept loop -/

/-- the cell holds a reduction and no further candidate is the accepting item: the loop keeps the
least production, records one pair per candidate -/
theorem reducePhase_reduce (G : Grammar) (t : Nat) :
    ∀ (R : List Nat) (r : Nat) (rr0 : List (Nat × Nat)),
      ¬ (t = G.eof ∧ G.startProd ∈ R) → (r :: R).Nodup →
      ∃ rr, reducePhase G t R (.reduce r) rr0 = .ok (.reduce (minList (r :: R))) (rr0 ++ rr) ∧
        rr.length = R.length ∧ ∀ kd ∈ rr, kd.1 < kd.2 ∧ kd.1 ∈ r :: R ∧ kd.2 ∈ r :: R := by
  intro R
  induction R with
  | nil => intro r rr0 _ _; exact ⟨[], by simp [reducePhase, minList], rfl, by simp⟩
  | cons p ps ih =>
    intro r rr0 hsp hnd
    have hpr : p ≠ r := by
      intro h; subst h; simp at hnd
    have hnsp : ¬ (p = G.startProd ∧ t = G.eof) := by
      rintro ⟨h1, h2⟩; exact hsp ⟨h2, by simp [h1]⟩
    have hsp' : ¬ (t = G.eof ∧ G.startProd ∈ ps) := by
      rintro ⟨h1, h2⟩; exact hsp ⟨h1, List.mem_cons_of_mem _ h2⟩
    simp only [reducePhase, reduceStep, hnsp, ↓reduceIte]
    by_cases hlt : p < r
    · simp only [hlt, ↓reduceIte]
      have hnd' : (p :: ps).Nodup := (List.nodup_cons.mp hnd).2
      obtain ⟨rr, h1, h2, h3⟩ := ih p (rr0 ++ [(p, r)]) hsp' hnd'
      refine ⟨(p, r) :: rr, ?_, by simp [h2], ?_⟩
      · rw [h1]
        have : minList (r :: p :: ps) = minList (p :: ps) := by
          simp only [minList]
          have := minList_le (p :: ps) p (by simp)
          omega
        simp [this]
      · intro kd hkd
        rcases List.mem_cons.mp hkd with rfl | hkd
        · simp [hlt]
        · obtain ⟨a, b, c⟩ := h3 kd hkd
          exact ⟨a, List.mem_cons_of_mem _ b, List.mem_cons_of_mem _ c⟩
    · have hgt : p > r := by omega
      simp only [hlt, ↓reduceIte, hgt]
      have hnd' : (r :: ps).Nodup := by
        have := List.nodup_cons.mp hnd
        have h2 := List.nodup_cons.mp this.2
        exact List.nodup_cons.mpr ⟨fun h => this.1 (List.mem_cons_of_mem _ h), h2.2⟩
      obtain ⟨rr, h1, h2, h3⟩ := ih r (rr0 ++ [(r, p)]) hsp' hnd'
      refine ⟨(r, p) :: rr, ?_, by simp [h2], ?_⟩
      · rw [h1]
        have : minList (r :: p :: ps) = minList (r :: ps) := by
          cases ps with
          | nil => simp [minList]; omega
          | cons q qs =>
            simp only [minList]
            omega
        simp [this]
      · intro kd hkd
        rcases List.mem_cons.mp hkd with rfl | hkd
        · simp [hgt]
        · obtain ⟨a, b, c⟩ := h3 kd hkd
          refine ⟨a, ?_, ?_⟩
          · rcases List.mem_cons.mp b with h | h
            · simp [h]
            · simp [h]
          · rcases List.mem_cons.mp c with h | h
            · simp [h]
            · simp [h]

/-- the cell holds a reduction and the accepting item is still to come: hard conflict -/
theorem reducePhase_reduce_then_accept (G : Grammar) (t : Nat) :
    ∀ (R : List Nat) (r : Nat) (rr0 : List (Nat × Nat)),
      t = G.eof → G.startProd ∈ R → ∃ o, reducePhase G t R (.reduce r) rr0 = .acceptReduce o := by
  intro R
  induction R with
  | nil => intro r rr0 _ h; cases h
  | cons p ps ih =>
    intro r rr0 ht hm
    by_cases hp : p = G.startProd
    · exact ⟨some r, by simp [reducePhase, reduceStep, hp, ht]⟩
    · have hm' : G.startProd ∈ ps := by
        rcases List.mem_cons.mp hm with h | h
        · exact absurd h.symm hp
        · exact h
      simp only [reducePhase, reduceStep, hp, false_and, ↓reduceIte]
      by_cases hlt : p < r
      · simp only [hlt, ↓reduceIte]; exact ih _ _ ht hm'
      · simp only [hlt, ↓reduceIte]
        by_cases hgt : p > r
        · simp only [hgt, ↓reduceIte]; exact ih _ _ ht hm'
        · simp only [hgt, ↓reduceIte]; exact ih _ _ ht hm'

theorem reducePhase_accept (G : Grammar) (t : Nat) (p : Nat) (ps : List Nat) (rr0 : List (Nat × Nat)) :
    reducePhase G t (p :: ps) .accept rr0 = .acceptReduce none := by
  simp [reducePhase, reduceStep]

/-- **the reduce/accept loop computes `specReduce`**, whatever the order of the candidates -/
theorem reducePhase_spec (G : Grammar) (t : Nat) (R : List Nat) (hnd : R.Nodup) :
    match specReduce G t R with
    | none => ∃ o, reducePhase G t R .error [] = .acceptReduce o
    | some a => ∃ rr, reducePhase G t R .error [] = .ok a rr ∧ rr.length = R.length - 1 ∧
        ∀ kd ∈ rr, kd.1 < kd.2 ∧ kd.1 ∈ R ∧ kd.2 ∈ R := by
  cases R with
  | nil => simp [specReduce, reducePhase]
  | cons p ps =>
    have hnd' := List.nodup_cons.mp hnd
    by_cases hsp : t = G.eof ∧ G.startProd ∈ p :: ps
    · obtain ⟨ht, hm⟩ := hsp
      by_cases hp : p = G.startProd
      · -- the accepting item comes first
        cases ps with
        | nil => simp [specReduce, reducePhase, reduceStep, hp, ht]
        | cons q qs =>
          simp only [specReduce, List.cons_ne_nil, ↓reduceIte, ht, hm, and_self, List.length_cons]
          have : ¬ (qs.length + 1 + 1 = 1) := by omega
          simp only [this, ↓reduceIte]
          refine ⟨none, ?_⟩
          simp only [reducePhase, reduceStep, hp, ← ht, and_self, ↓reduceIte]
      · have hm' : G.startProd ∈ ps := by
          rcases List.mem_cons.mp hm with h | h
          · exact absurd h.symm hp
          · exact h
        have hlen : ¬ ((p :: ps).length = 1) := by
          cases ps with
          | nil => cases hm'
          | cons q qs => simp
        simp only [specReduce, List.cons_ne_nil, ↓reduceIte, ht, hm, and_self, hlen]
        simp only [reducePhase, reduceStep, hp, false_and, ↓reduceIte]
        rw [← ht]; exact reducePhase_reduce_then_accept G t ps p [] ht hm'
    · have hnsp : ¬ (p = G.startProd ∧ t = G.eof) := by
        rintro ⟨h1, h2⟩; exact hsp ⟨h2, by simp [h1]⟩
      have hsp' : ¬ (t = G.eof ∧ G.startProd ∈ ps) := by
        rintro ⟨h1, h2⟩; exact hsp ⟨h1, List.mem_cons_of_mem _ h2⟩
      simp only [specReduce, List.cons_ne_nil, ↓reduceIte, hsp]
      simp only [reducePhase, reduceStep, hnsp, ↓reduceIte]
      obtain ⟨rr, h1, h2, h3⟩ := reducePhase_reduce G t ps p [] hsp' hnd
      exact ⟨rr, by simpa using h1, by simp [h2], h3⟩

/-! ### the shift step -/

theorem resolveSR_spec (tp pp : Option Prec) (tgt r : Nat)
    (hc : ∀ a b, tp = some a → pp = some b → a.level = b.level → a.kind = b.kind ∧ a.kind ≤ 2) :
    resolveSR tp pp tgt r = some (specSR tp pp tgt r) := by
  cases tp with
  | none => simp [resolveSR, specSR]
  | some a =>
    cases pp with
    | none => simp [resolveSR, specSR]
    | some b =>
      simp only [resolveSR, specSR]
      by_cases hl : a.level = b.level
      · obtain ⟨hk, h2⟩ := hc a b rfl rfl hl
        have : a.kind = 0 ∨ a.kind = 1 ∨ a.kind = 2 := by omega
        rcases this with h0 | h0 | h0 <;> simp [hl, ← hk, h0]
      · simp only [hl, ↓reduceIte]
        by_cases hg : a.level > b.level
        · simp [hg]
        · have : a.level < b.level := by omega
          simp [hg, this]

end GrmVerif.Table
