import GrmVerif.Lemmas.YaccBuild3
/-!
C10, stage A: what the steps of the main loop of `buildGrammar` do to the state, the frame of the
user-rule phase, and the order of `rule_to_prods`.
-/
namespace GrmVerif.YaccBuild
open GrmVerif

theorem pushAt_eq {v v' : List (List Nat)} {i x : Nat} (h : pushAt v i x = some v') :
    ∃ l, v[i]? = some l ∧ v' = v.set i (l ++ [x]) := by
  unfold pushAt at h
  cases hv : v[i]? with
  | none => rw [hv] at h; cases h
  | some l => rw [hv] at h; simp only [Option.some.injEq] at h; exact ⟨l, rfl, h.symm⟩

theorem setAt_eq {α : Type} {v v' : List α} {i : Nat} {x : α} (h : setAt v i x = some v') :
    i < v.length ∧ v' = v.set i x := by
  unfold setAt at h
  split at h
  · simp only [Option.some.injEq] at h; exact ⟨by assumption, h.symm⟩
  · cases h

/-! ### one user rule -/

theorem userLoop_frame {c : Ctx} {ridx : Nat} : ∀ (ps : List Nat) (st st' : St),
    userLoop c ridx ps st = some st' →
    st'.slots.length = st.slots.length ∧ st'.actiontypes = st.actiontypes ∧
    st'.rulesProds.length = st.rulesProds.length ∧
    (∀ q, q ≠ ridx → st'.rulesProds[q]? = st.rulesProds[q]?) ∧
    (∀ l, st.rulesProds[ridx]? = some l → st'.rulesProds[ridx]? = some (l ++ ps)) ∧
    (∀ i : Nat, st'.slots[i]? = st.slots[i]? ∨
      ∃ p r, c.ast.prods[i]? = some p ∧ userRec c ridx p = some r ∧ st'.slots[i]? = some (some r)) := by
  intro ps
  induction ps with
  | nil =>
    intro st st' h
    simp only [userLoop, Option.some.injEq] at h
    subst h
    exact ⟨rfl, rfl, rfl, fun _ _ => rfl, fun l hl => by simpa using hl, fun _ => Or.inl rfl⟩
  | cons pidx rest ih =>
    intro st st' h
    simp only [userLoop] at h
    cases hp : c.ast.prods[pidx]? with
    | none => simp [hp] at h
    | some p =>
      simp only [hp] at h
      cases hu : userRec c ridx p with
      | none => simp [hu] at h
      | some r =>
        cases hpa : pushAt st.rulesProds ridx pidx with
        | none => simp [hu, hpa] at h
        | some rp =>
          simp only [hu, hpa] at h
          cases hs : setAt st.slots pidx (some r) with
          | none => simp [hs] at h
          | some sl =>
            simp only [hs] at h
            obtain ⟨i1, i2, i3, i4, i5, i6⟩ := ih _ _ h
            obtain ⟨l0, hl0, hrp⟩ := pushAt_eq hpa
            obtain ⟨hlt, hsl⟩ := setAt_eq hs
            simp only at i1 i2 i3 i4 i5 i6
            subst hrp hsl
            refine ⟨by rw [i1]; simp, i2, by rw [i3]; simp, ?_, ?_, ?_⟩
            · intro q hq
              rw [i4 q hq, List.getElem?_set, if_neg (Ne.symm hq)]
            · intro l hl
              rw [hl0] at hl
              simp only [Option.some.injEq] at hl
              subst hl
              have hr : ridx < st.rulesProds.length := (List.getElem?_eq_some_iff.mp hl0).1
              have := i5 (l0 ++ [pidx]) (by rw [List.getElem?_set]; simp [hr])
              rw [this]; simp
            · intro i
              rcases i6 i with h6 | h6
              · rw [List.getElem?_set] at h6
                by_cases hi : pidx = i
                · subst hi
                  simp only [if_true, hlt] at h6
                  exact Or.inr ⟨p, r, hp, hu, h6⟩
                · rw [if_neg hi] at h6
                  exact Or.inl h6
              · exact Or.inr h6

theorem stepUser_eq {c : Ctx} {st st' : St} {n : Str} {ridx : Nat} (h : stepUser c st n ridx = some st') :
    ∃ r, findRule c.ast.rules n = some r ∧ ridx < st.actiontypes.length ∧
      userLoop c ridx r.pidxs { st with actiontypes := st.actiontypes.set ridx r.actiont } = some st' := by
  unfold stepUser at h
  cases hf : findRule c.ast.rules n with
  | none => simp [hf] at h
  | some r =>
    simp only [hf] at h
    cases hs : setAt st.actiontypes ridx r.actiont with
    | none => simp [hs] at h
    | some at' =>
      simp only [hs] at h
      obtain ⟨hlt, rfl⟩ := setAt_eq hs
      exact ⟨r, rfl, hlt, h⟩

/-! ### the frame of the user-rule phase -/

/-- what a run over user rules (all of which have rule numbers `≥ lo`) leaves alone -/
structure UFrame (c : Ctx) (lo : Nat) (st st' : St) : Prop where
  slotsLen : st'.slots.length = st.slots.length
  rpLen : st'.rulesProds.length = st.rulesProds.length
  atLen : st'.actiontypes.length = st.actiontypes.length
  rpLow : ∀ q < lo, st'.rulesProds[q]? = st.rulesProds[q]?
  atLow : ∀ q < lo, st'.actiontypes[q]? = st.actiontypes[q]?
  slots : ∀ i : Nat, st'.slots[i]? = st.slots[i]? ∨
    ∃ p ridx r, lo ≤ ridx ∧ c.ast.prods[i]? = some p ∧ userRec c ridx p = some r ∧ st'.slots[i]? = some (some r)

theorem UFrame.refl (c : Ctx) (lo : Nat) (st : St) : UFrame c lo st st :=
  ⟨rfl, rfl, rfl, fun _ _ => rfl, fun _ _ => rfl, fun _ => Or.inl rfl⟩

theorem UFrame.trans {c : Ctx} {lo : Nat} {s1 s2 s3 : St} (h1 : UFrame c lo s1 s2) (h2 : UFrame c lo s2 s3) :
    UFrame c lo s1 s3 := by
  refine ⟨h2.slotsLen.trans h1.slotsLen, h2.rpLen.trans h1.rpLen, h2.atLen.trans h1.atLen,
    fun q hq => (h2.rpLow q hq).trans (h1.rpLow q hq), fun q hq => (h2.atLow q hq).trans (h1.atLow q hq), ?_⟩
  intro i
  rcases h2.slots i with h | h
  · rcases h1.slots i with h' | ⟨p, ridx, r, a1, a2, a3, a4⟩
    · exact Or.inl (h.trans h')
    · exact Or.inr ⟨p, ridx, r, a1, a2, a3, h.trans a4⟩
  · exact Or.inr h

theorem stepUser_uframe {c : Ctx} {lo : Nat} {st st' : St} {n : Str} {ridx : Nat} (hlo : lo ≤ ridx)
    (h : stepUser c st n ridx = some st') : UFrame c lo st st' := by
  obtain ⟨r, _, hlt, hu⟩ := stepUser_eq h
  obtain ⟨i1, i2, i3, i4, i5, i6⟩ := userLoop_frame _ _ _ hu
  simp only at i1 i2 i3 i4 i5 i6
  refine ⟨i1, i3, by rw [i2]; simp, fun q hq => i4 q (by omega), ?_, ?_⟩
  · intro q hq
    rw [i2, List.getElem?_set, if_neg (by omega)]
  · intro i
    rcases i6 i with h | ⟨p, r', a1, a2, a3⟩
    · exact Or.inl h
    · exact Or.inr ⟨p, ridx, r', hlo, a1, a2, a3⟩

theorem userPhase_frame {c : Ctx} {sp U : List Str} (ok : CtxOk c sp U) :
    ∀ (ns : List Str) (st st' : St), (∀ n ∈ ns, n ∈ U) → mainLoop c ns st = some st' →
      UFrame c sp.length st st' := by
  intro ns
  induction ns with
  | nil => intro st st' _ h; simp only [mainLoop, Option.some.injEq] at h; subst h; exact UFrame.refl _ _ _
  | cons n ns ih =>
    intro st st' hU h
    simp only [mainLoop] at h
    cases hs : stepRule c st n with
    | none => rw [hs] at h; cases h
    | some st1 =>
      rw [hs] at h
      obtain ⟨j, _, hj⟩ := stepRule_user ok (hU n (List.mem_cons_self)) st
      rw [hj] at hs
      exact (stepUser_uframe (by omega) hs).trans (ih _ _ (fun m hm => hU m (List.mem_cons_of_mem _ hm)) h)

end GrmVerif.YaccBuild

namespace GrmVerif.YaccBuild
open GrmVerif

/-! ### `rule_to_prods` and `actiontypes` of the user rules, in source order -/

theorem findRule_nodup : ∀ {rules : List ARule} {j : Nat} {r : ARule},
    (rules.map (·.name)).Nodup → rules[j]? = some r → findRule rules r.name = some r := by
  intro rules
  induction rules with
  | nil => intro j r _ h; simp at h
  | cons x xs ih =>
    intro j r hnd h
    simp only [List.map_cons, List.nodup_cons] at hnd
    unfold findRule
    rw [List.find?_cons]
    cases j with
    | zero =>
      simp only [List.getElem?_cons_zero, Option.some.injEq] at h
      subst h
      simp
    | succ j' =>
      simp only [List.getElem?_cons_succ] at h
      have hmem : r.name ∈ xs.map (·.name) := List.mem_map.mpr ⟨r, List.mem_of_getElem? h, rfl⟩
      have hne : (x.name == r.name) = false := by
        simp only [beq_eq_false_iff_ne, ne_eq]
        intro he; exact hnd.1 (he ▸ hmem)
      simp only [hne]
      exact ih hnd.2 h

theorem mainLoop_cons_some {c : Ctx} {n : Str} {ns : List Str} {st st' : St}
    (h : mainLoop c (n :: ns) st = some st') : ∃ st1, stepRule c st n = some st1 ∧ mainLoop c ns st1 = some st' := by
  simp only [mainLoop] at h
  cases hs : stepRule c st n with
  | none => rw [hs] at h; cases h
  | some st1 => rw [hs] at h; exact ⟨st1, rfl, h⟩

theorem userPhase_order {c : Ctx} : ∀ (rs : List ARule) (base : Nat) (st st' : St),
    (∀ (j : Nat) (r : ARule), rs[j]? = some r → ∀ s, stepRule c s r.name = stepUser c s r.name (base + j)) →
    (∀ (j : Nat) (r : ARule), rs[j]? = some r → findRule c.ast.rules r.name = some r) →
    mainLoop c (rs.map (·.name)) st = some st' →
    (∀ q < base, st'.rulesProds[q]? = st.rulesProds[q]? ∧ st'.actiontypes[q]? = st.actiontypes[q]?) ∧
    (∀ (j : Nat) (r : ARule), rs[j]? = some r →
      (∀ l, st.rulesProds[base + j]? = some l → st'.rulesProds[base + j]? = some (l ++ r.pidxs)) ∧
      st'.actiontypes[base + j]? = some r.actiont) := by
  intro rs
  induction rs with
  | nil =>
    intro base st st' _ _ h
    simp only [List.map_nil, mainLoop, Option.some.injEq] at h
    subst h
    exact ⟨fun _ _ => ⟨rfl, rfl⟩, fun j r hj => by simp at hj⟩
  | cons r0 rs ih =>
    intro base st st' hstep hfind h
    rw [List.map_cons] at h
    obtain ⟨st1, hs, hrest⟩ := mainLoop_cons_some h
    rw [hstep 0 r0 rfl st] at hs
    obtain ⟨r', hf, hlt, hu⟩ := stepUser_eq hs
    rw [hfind 0 r0 rfl] at hf
    simp only [Option.some.injEq] at hf
    subst hf
    obtain ⟨_, i2, _, i4, i5, _⟩ := userLoop_frame _ _ _ hu
    simp only [Nat.add_zero] at i2 i4 i5 hlt
    obtain ⟨f1, f2⟩ := ih (base + 1) st1 st'
      (fun j r hj s => by
        have := hstep (j + 1) r (by simpa using hj) s
        rwa [show base + (j + 1) = base + 1 + j by omega] at this)
      (fun j r hj => hfind (j + 1) r (by simpa using hj)) hrest
    refine ⟨?_, ?_⟩
    · intro q hq
      obtain ⟨g1, g2⟩ := f1 q (by omega)
      refine ⟨g1.trans (i4 q (by omega)), ?_⟩
      rw [g2, i2, List.getElem?_set, if_neg (by omega)]
    · intro j r hj
      cases j with
      | zero =>
        simp only [List.getElem?_cons_zero, Option.some.injEq] at hj
        subst hj
        obtain ⟨g1, g2⟩ := f1 base (by omega)
        refine ⟨?_, ?_⟩
        · intro l hl
          rw [Nat.add_zero] at hl ⊢
          rw [g1]; exact i5 l hl
        · rw [Nat.add_zero, g2, i2, List.getElem?_set]; simp [hlt]
      | succ j' =>
        simp only [List.getElem?_cons_succ] at hj
        obtain ⟨g1, g2⟩ := f2 j' r hj
        rw [show base + (j' + 1) = base + 1 + j' by omega]
        refine ⟨?_, g2⟩
        intro l hl
        apply g1
        rw [i4 _ (by omega)]; exact hl

end GrmVerif.YaccBuild
