import GrmVerif.Lemmas.RecActions5
import GrmVerif.Lemmas.KeptCertEx
/-!
Non-vacuity material for the recovery-on theorems of C08: the certified merged 14-state table of
`Lemmas/KeptCertEx.lean` (`S: x A c | y A d | x B f | y B g; A: a; B: a e`), input `x a d`. The table
reduces `A → a` under `d` (the action runs, the reduction is KEPT) and then refuses `d`; the recoverer
reports `[insert c, delete]` first: `c` is inserted INSIDE the production `S → x A c`, as a zero-length
lexeme at the start of the deleted `d`, so the span of `S` ends at that zero-length lexeme.
-/
namespace GrmVerif.RecAct
open GrmVerif LR Act Rec Cert C05

/-- lexeme `k` occupies the bytes `3k+1 .. 3k+3` (the layout of the harness: length 2, 1-byte gaps) -/
def exSpan (k : Nat) : Nat × Nat := (3 * k + 1, 3 * k + 3)

/-- the repair sequences reported at the refused `d` (after the kept reduction `A → a`) -/
def exRecoverA : Pos → List (List Repair) := fun c =>
  if c.stack = [4, 2, 0] ∧ c.pos = 2 then [[.insert 3, .delete], [.delete, .insert 3]] else []

theorem exA_valid : FirstValid exG2 exA2 [0, 2, 4] 1 (recoverOf exG2 exA2 [0, 2, 4] exRecoverA) := by
  intro c c' s0 rest h
  obtain ⟨st, p⟩ := c
  by_cases hc : st = [4, 2, 0] ∧ p = 2
  · obtain ⟨h1, h2⟩ := hc
    subst h1 h2
    have happ : applySeq exG2 exA2 [0, 2, 4] ⟨[4, 2, 0], 2⟩ [.insert 3, .delete] = some ⟨[9, 4, 2, 0], 3⟩ := rfl
    simp only [recoverOf, exRecoverA, and_self, ↓reduceIte, happ, Option.some.injEq, Prod.mk.injEq,
      List.cons.injEq] at h
    obtain ⟨_, rfl, _⟩ := h
    rfl
  · simp [recoverOf, exRecoverA, hc] at h

/-! ### equal state stacks do not determine the reductions made

Why the working hypothesis of the recovery-on theorems is the value-carrying `KeptShiftInvisibleA` and
not `C05.KeptShiftInvisible`: a table (not a certified one — it resolves a reduce/reduce choice by the
lookahead) for `S: A 't'; A: 'a' | C; C: 'a'` (tokens a 0, z 1, t 2, end-of-input 3; productions
0 `A → a`, 1 `C → a`, 2 `A → C`, 3 `S → A t`, 4 `^ → S`) whose state after `a` reduces `A → a` under `z`
and `C → a` under `t`. After `z` has been offered to the stack `[1, 0]` and refused (`A → a` kept: `[2, 0]`)
the reduced and the unreduced stack both shift `t` to the SAME state stack `[4, 2, 0]` — the conclusion of
`KeptShiftInvisible` — but the values differ: `A(a)` against `A(C(a))`, one action call against two. -/

def exG3 : Grammar :=
  ⟨4, 4, 3, 4, [(2, [.tok 0]), (3, [.tok 0]), (2, [.rule 3]), (1, [.rule 2, .tok 2]), (0, [.rule 1])], [], []⟩

def exA3 : Automaton :=
  ⟨0,
   [exSt2 [] [] [] [.shift 1, .error, .error, .error] [none, some 5, some 2, some 3],
    exSt2 [] [] [] [.error, .reduce 0, .reduce 1, .error] [none, none, none, none],
    exSt2 [] [] [] [.error, .error, .shift 4, .error] [none, none, none, none],
    exSt2 [] [] [] [.error, .error, .reduce 2, .error] [none, none, none, none],
    exSt2 [] [] [] [.error, .error, .error, .reduce 3] [none, none, none, none],
    exSt2 [] [] [] [.error, .error, .error, .accept] [none, none, none, none]],
   [], []⟩

/-- the configuration after `a` has been shifted -/
def exV3 : VCfg := ⟨[1, 0], [.leaf 0 0], [⟨1, 3, false⟩], []⟩

end GrmVerif.RecAct
