import GrmVerif.Lemmas.Diagnostics
/-! The loop of `prefixed_underline_span_with_text` prints the prescribed rows (C19). -/
namespace GrmVerif.Diag
open GrmVerif.Newline

theorem nlc_eq_ofText (s : List Char) : nlc s = ofText s := by
  have h := feed_ofText [] s
  have h0 : ofText [] = Cache.new := by simp [ofText, nlsFrom, trailingFrom, Cache.new]
  rw [h0] at h
  simpa [nlc] using h

theorem byteLen_dropLast_le (l : List Char) : byteLen l.dropLast ≤ byteLen l := by
  induction l with
  | nil => simp [byteLen]
  | cons c cs ih =>
    cases cs with
    | nil => simp [byteLen]
    | cons d ds => simp only [List.dropLast_cons_cons, byteLen] at ih ⊢; omega

theorem byteLen_dropCR_le (l : List Char) : byteLen (dropCR l) ≤ byteLen l := by
  unfold dropCR; split
  · exact byteLen_dropLast_le l
  · omega

theorem dropCR_append_ne_nil (pre c0 : List Char) (h : c0 ≠ []) :
    dropCR (pre ++ c0) = pre ++ dropCR c0 := by
  obtain ⟨l, x, rfl⟩ : ∃ l x, c0 = l ++ [x] :=
    ⟨c0.dropLast, c0.getLast h, (List.dropLast_concat_getLast h).symm⟩
  unfold dropCR
  rw [← List.append_assoc]
  simp only [List.getLast?_append, List.getLast?_singleton, Option.some_or, List.dropLast_concat]
  split <;> simp

/-- bytes of the line after the text before the span = bytes of the underlined part -/
theorem byteLen_dropCR_sub (pre c0 : List Char) :
    byteLen (dropCR (pre ++ c0)) - byteLen pre = byteLen (dropCR c0) := by
  by_cases h : c0 = []
  · subst h
    have := byteLen_dropCR_le pre
    simp only [List.append_nil, dropCR_nil, byteLen]; omega
  · rw [dropCR_append_ne_nil pre c0 h, byteLen_append]; omega

/-- the first component of `span_line_bytes` at a boundary `a ++ pre | rest` -/
theorem spanLineBytes_fst (a pre rest : List Char) (stop : Nat)
    (ha : a = [] ∨ a.getLast? = some '\n') (hpre : '\n' ∉ pre)
    (hle : byteLen a + byteLen pre ≤ stop) :
    ∃ e, spanLineBytes (ofText (a ++ (pre ++ rest))) (byteLen a + byteLen pre) stop
      = some (byteLen a, e) := by
  have := spanLineBytes_spec (ofText (a ++ (pre ++ rest))) (byteLen a + byteLen pre) stop
    (ofText_sorted _) (by simp [ofText]) hle
  rw [lineStartOf_decomp a pre rest ha hpre] at this
  exact ⟨_, this⟩

theorem byteToLineCol_decomp' (a cur post : List Char)
    (ha : a = [] ∨ a.getLast? = some '\n') (hcur : '\n' ∉ cur) :
    byteToLineCol (ofText (a ++ (cur ++ post))) (a ++ (cur ++ post)) (byteLen a + byteLen cur)
      = some (some (1 + a.count '\n', colOf cur post)) := by
  have := byteToLineCol_decomp a cur post ha hcur
  rwa [List.append_assoc, byteLen_append] at this

/-- one iteration, up to its tail -/
theorem rowStep_eval (sw : List Char → Nat) (a pre cov W line pfx msg : List Char) (uc : Char)
    (last : Bool) (stop : Nat)
    (ha : a = [] ∨ a.getLast? = some '\n') (hpre : '\n' ∉ pre)
    (hle : byteLen a + byteLen pre ≤ stop)
    (hu : min stop (byteLen a + byteLen pre + (byteLen line - byteLen pre))
            = byteLen a + byteLen pre + byteLen cov) :
    rowStep sw (a ++ (pre ++ (cov ++ W))) (ofText (a ++ (pre ++ (cov ++ W)))) pfx msg uc line last
        (byteLen a + byteLen pre) stop
      = if byteLen pfx > 3 then none else
        rowNext (a ++ (pre ++ (cov ++ W))) msg last
          (rowText sw pfx uc (1 + a.count '\n') line pre cov) (byteLen a) line
          (byteLen a + byteLen pre) stop := by
  obtain ⟨e, he⟩ := spanLineBytes_fst a pre (cov ++ W) stop ha hpre hle
  unfold rowStep
  rw [he]
  simp only
  have h1 : ¬ byteLen a + byteLen pre < byteLen a := by omega
  have h2 : byteLen a + byteLen pre - byteLen a = byteLen pre := by omega
  simp only [h1, ↓reduceIte, h2, hu]
  have h3 : ¬ byteLen a + byteLen pre + byteLen cov < byteLen a + byteLen pre := by omega
  simp only [h3, ↓reduceIte, byteToLineCol_decomp' a pre (cov ++ W) ha hpre]
  unfold rowEmit
  split
  · rfl
  simp only [sliceBytes_mid a pre (cov ++ W) _ rfl]
  have h5 : sliceBytes (a ++ (pre ++ (cov ++ W))) (byteLen a + byteLen pre)
      (byteLen a + byteLen pre + byteLen cov) = some cov := by
    have := sliceBytes_mid (a ++ pre) cov W (byteLen a + byteLen pre + byteLen cov)
      (by rw [byteLen_append])
    rwa [byteLen_append, List.append_assoc] at this
  simp only [h5]

theorem rowNext_last (src msg txt line : List Char) (lsb start stop : Nat) :
    rowNext src msg true txt lsb line start stop = some (txt ++ ' ' :: msg, start) := by
  simp [rowNext]

/-- the tail of an iteration that is followed by another line: step over `"\n"` or `"\r\n"` -/
theorem rowNext_more (a ln0 R msg txt : List Char) (start stop : Nat) (hstop : byteLen a + byteLen ln0 + 1 ≤ stop) :
    rowNext (a ++ (ln0 ++ '\n' :: R)) msg false txt (byteLen a) (dropCR ln0) start stop
      = some (txt ++ ['\n'], byteLen a + byteLen ln0 + 1) := by
  unfold rowNext
  simp only [Bool.false_eq_true, ↓reduceIte]
  rcases dropCR_cases ln0 with ⟨h, _⟩ | ⟨l', hl, h⟩
  · rw [h]
    have hd : dropBytes (byteLen a + byteLen ln0) (a ++ (ln0 ++ '\n' :: R)) = some ('\n' :: R) := by
      have := dropBytes_append (a ++ ln0) ('\n' :: R)
      rwa [byteLen_append, List.append_assoc] at this
    rw [hd]
    have hs : startsCRLF ('\n' :: R) = false := by
      cases R <;> simp [startsCRLF]
    simp only [hs, Bool.false_eq_true, ↓reduceIte]
    have : ¬ stop < byteLen a + byteLen ln0 + 1 := by omega
    simp [this]
  · rw [h]; subst hl
    have hd : dropBytes (byteLen a + byteLen l') (a ++ ((l' ++ ['\r']) ++ '\n' :: R))
        = some ('\r' :: '\n' :: R) := by
      have := dropBytes_append (a ++ l') ('\r' :: '\n' :: R)
      rw [byteLen_append] at this
      simpa using this
    rw [hd]
    have hs : startsCRLF ('\r' :: '\n' :: R) = true := by simp [startsCRLF]
    simp only [hs, ↓reduceIte]
    rw [byteLen_append, byteLen_singleton_cr] at hstop ⊢
    have : ¬ stop < byteLen a + byteLen l' + 2 := by omega
    simp only [this, ↓reduceIte]
    have : byteLen a + byteLen l' + 2 = byteLen a + (byteLen l' + 1) + 1 := by omega
    rw [this]

end GrmVerif.Diag
