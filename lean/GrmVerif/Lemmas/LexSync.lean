import GrmVerif.Lemmas.Lex
/-! Helper lemmas for C09: `set_rule_ids_spanned` against its specification. -/
namespace GrmVerif.Lex

theorem lookup_none_iff (map : List (Nat × Nat)) (nm : Nat) :
    map.lookup nm = none ↔ (map.map (·.1)).contains nm = false := by
  induction map with
  | nil => simp
  | cons p map ih =>
    obtain ⟨k, v⟩ := p
    simp only [List.lookup_cons, List.map_cons, List.contains_cons]
    by_cases h : nm = k
    · subst h; simp
    · have h' : (nm == k) = false := by simp [h]
      simp [h', ih]

/-- the loop keeps names and spans, and sets the ids as specified -/
theorem syncLoop_rules (map : List (Nat × Nat)) : ∀ (rs : List Rule) (i : Nat),
    (syncLoop map rs i).1.map (·.tokId) = specIds rs map ∧
    (syncLoop map rs i).1.map (·.name) = rs.map (·.name) ∧
    (syncLoop map rs i).2.2 = (ruleNames rs).length ∧
    (syncLoop map rs i).2.1.length = (specMissingFromParser rs map).length := by
  intro rs
  induction rs with
  | nil => intro i; simp [syncLoop, specIds, ruleNames, specMissingFromParser]
  | cons r rs ih =>
    intro i
    obtain ⟨h1, h2, h3, h4⟩ := ih (i + 1)
    unfold syncLoop
    cases hn : r.name with
    | none =>
      simp only [specIds, ruleNames, specMissingFromParser, List.map_cons, List.filterMap_cons, hn] at h1 h2 h3 h4 ⊢
      exact ⟨by rw [h1], by rw [h2], h3, h4⟩
    | some nm =>
      cases hl : map.lookup nm with
      | some t =>
        have hc : (map.map (·.1)).contains nm = true := by
          cases hc : (map.map (·.1)).contains nm with
          | true => rfl
          | false => rw [(lookup_none_iff map nm).mpr hc] at hl; cases hl
        simp only [specIds, ruleNames, specMissingFromParser, List.map_cons, List.filterMap_cons, hn, hl, hc,
          if_true, List.length_cons] at h1 h2 h3 h4 ⊢
        exact ⟨by rw [h1], by rw [h2], by rw [h3], h4⟩
      | none =>
        have hc := (lookup_none_iff map nm).mp hl
        simp only [specIds, ruleNames, specMissingFromParser, List.map_cons, List.filterMap_cons, hn, hl, hc,
          Bool.false_eq_true, if_false, List.length_cons] at h1 h2 h3 h4 ⊢
        exact ⟨by rw [h1], by rw [h2], by rw [h3], by rw [h4]⟩

/-- the recorded indices, read back through the updated rules, are the specified list in rule order -/
theorem syncLoop_namesAt (map : List (Nat × Nat)) : ∀ (rs : List Rule) (i : Nat) (pre : List Rule),
    pre.length = i →
    namesAt (pre ++ (syncLoop map rs i).1) (syncLoop map rs i).2.1 = specMissingFromParser rs map := by
  intro rs
  induction rs with
  | nil => intro i pre _; simp [syncLoop, namesAt, specMissingFromParser]
  | cons r rs ih =>
    intro i pre hp
    unfold syncLoop
    cases hn : r.name with
    | none =>
      have := ih (i + 1) (pre ++ [r]) (by simp [hp])
      simp only [specMissingFromParser, List.filterMap_cons, hn, List.append_assoc, List.singleton_append] at this ⊢
      exact this
    | some nm =>
      cases hl : map.lookup nm with
      | some t =>
        have hc : (map.map (·.1)).contains nm = true := by
          cases hc : (map.map (·.1)).contains nm with
          | true => rfl
          | false => rw [(lookup_none_iff map nm).mpr hc] at hl; cases hl
        have := ih (i + 1) (pre ++ [{ r with tokId := some t }]) (by simp [hp])
        simp only [specMissingFromParser, List.filterMap_cons, hn, hl, hc, if_true, List.append_assoc,
          List.singleton_append] at this ⊢
        exact this
      | none =>
        have hc := (lookup_none_iff map nm).mp hl
        have := ih (i + 1) (pre ++ [{ r with tokId := none }]) (by simp [hp])
        simp only [specMissingFromParser, List.filterMap_cons, hn, hl, hc, Bool.false_eq_true, if_false,
          List.append_assoc, List.singleton_append] at this ⊢
        simp only [namesAt, List.filterMap_cons] at this ⊢
        rw [List.getElem?_append_right (by omega)]
        simp only [hp, Nat.sub_self, List.getElem?_cons_zero, Option.map_some]
        rw [this]

theorem ruleNames_sync (map : List (Nat × Nat)) (rules : List Rule) :
    ruleNames (syncLoop map rules 0).1 = ruleNames rules := by
  have := (syncLoop_rules map rules 0).2.1
  unfold ruleNames
  rw [← List.filterMap_map_id_aux (syncLoop map rules 0).1, ← List.filterMap_map_id_aux rules, this]
where
  List.filterMap_map_id_aux (l : List Rule) : (l.map (·.name)).filterMap id = l.filterMap (·.name) := by
    induction l with
    | nil => rfl
    | cons a l ih => simp [List.filterMap_cons, ih]

/-! ### counting -/

theorem filter_length_eq_iff (l : List Nat) (p : Nat → Bool) :
    (l.filter p).length = l.length ↔ ∀ x ∈ l, p x = true := by
  induction l with
  | nil => simp
  | cons a l ih =>
    have hle := List.length_filter_le p l
    by_cases h : p a = true
    · simp only [List.filter_cons, h, if_true, List.length_cons, List.mem_cons, forall_eq_or_imp, true_and]
      rw [← ih]; omega
    · simp only [List.filter_cons, h, Bool.false_eq_true, if_false, List.length_cons, List.mem_cons,
        forall_eq_or_imp, false_and, iff_false]
      omega

/-- adding one new element `a` to the second list adds `[a ∈ K]` to the size of the intersection -/
theorem inter_step (A : List Nat) (a : Nat) (ha : A.contains a = false) : ∀ (K : List Nat), K.Nodup →
    (K.filter (fun k => k == a || A.contains k)).length =
      (if K.contains a then 1 else 0) + (K.filter (fun k => A.contains k)).length := by
  intro K
  induction K with
  | nil => simp
  | cons k K ih =>
    intro hnd
    have hk : ¬ k ∈ K := (List.nodup_cons.mp hnd).1
    have ih' := ih (List.nodup_cons.mp hnd).2
    by_cases hka : k = a
    · subst hka
      have hc : K.contains k = false := by simpa using hk
      rw [hc] at ih'
      simp only [List.filter_cons, BEq.rfl, Bool.true_or, if_true, List.length_cons, ha, Bool.false_eq_true,
        if_false, List.contains_cons]
      simp at ih' ⊢; omega
    · have hb : (k == a) = false := by simp [hka]
      have hb' : (a == k) = false := by simp [Ne.symm hka]
      simp only [List.filter_cons, hb, Bool.false_or, List.contains_cons, hb']
      by_cases hA : A.contains k = true
      · simp only [hA, if_true, List.length_cons]; simp at ih' ⊢; omega
      · simp only [hA, Bool.false_eq_true, if_false]; simp at ih' ⊢; omega

/-- the intersection of two duplicate-free lists has the same size counted from either side -/
theorem inter_card_symm : ∀ (A K : List Nat), A.Nodup → K.Nodup →
    (A.filter (fun a => K.contains a)).length = (K.filter (fun k => A.contains k)).length := by
  intro A
  induction A with
  | nil =>
    intro K _ _
    have : K.filter (fun k => ([] : List Nat).contains k) = [] := List.filter_eq_nil_iff.mpr (by simp)
    rw [this]; rfl
  | cons a A ih =>
    intro K hA hK
    have ha : A.contains a = false := by simpa using (List.nodup_cons.mp hA).1
    have h1 := ih K (List.nodup_cons.mp hA).2 hK
    have h2 := inter_step A a ha K hK
    have h3 : (K.filter (fun k => (a :: A).contains k)).length = (K.filter (fun k => k == a || A.contains k)).length := by
      simp only [List.contains_cons]
    rw [h3, h2, ← h1, List.filter_cons]
    cases hc : K.contains a <;> simp [Nat.add_comm]

/-- named rules whose name is a key of the map + named rules whose name is not = named rules -/
theorem names_split (rules : List Rule) (map : List (Nat × Nat)) :
    ((ruleNames rules).filter (fun a => (map.map (·.1)).contains a)).length +
      (specMissingFromParser rules map).length = (ruleNames rules).length := by
  induction rules with
  | nil => simp [ruleNames, specMissingFromParser]
  | cons r rules ih =>
    simp only [ruleNames, specMissingFromParser, List.filterMap_cons] at ih ⊢
    cases hn : r.name with
    | none => simpa using ih
    | some nm =>
      by_cases hc : (map.map (·.1)).contains nm = true
      · simp only [hc, if_true, List.filter_cons, List.length_cons]; omega
      · simp only [hc, Bool.false_eq_true, if_false, List.filter_cons, List.length_cons]; omega

end GrmVerif.Lex
