import GrmVerif.Model.Newline
/-! Specification-side definitions and helper lemmas for C19 (newline cache). -/
namespace GrmVerif.Newline

/-- Offsets just after every `'\n'` of `s`, where `s` starts at absolute byte offset `P`. -/
def nlsFrom (P : Nat) : List Char → List Nat
  | [] => []
  | ch :: rest => if ch = '\n' then (P + 1) :: nlsFrom (P + 1) rest else nlsFrom (P + ch.utf8Size) rest

/-- Bytes after the last newline, starting with `tr` bytes already pending. -/
def trailingFrom (tr : Nat) : List Char → Nat
  | [] => tr
  | ch :: rest => if ch = '\n' then trailingFrom 0 rest else trailingFrom (tr + ch.utf8Size) rest

/-- The cache a whole text denotes. -/
def ofText (s : List Char) : Cache := ⟨0 :: nlsFrom 0 s, trailingFrom 0 s⟩

theorem feedGo_spec (sp : Nat) (s : List Char) (off : Nat) (nls : List Nat) (tr : Nat) :
    feedGo sp s off nls tr = ⟨nls ++ nlsFrom (sp + off) s, trailingFrom tr s⟩ := by
  induction s generalizing off nls tr with
  | nil => simp [feedGo, nlsFrom, trailingFrom]
  | cons ch rest ih =>
    unfold feedGo nlsFrom trailingFrom
    split
    · rw [ih]; simp [Nat.add_assoc]
    · rw [ih]; simp [Nat.add_assoc]

theorem byteLen_append (a b : List Char) : byteLen (a ++ b) = byteLen a + byteLen b := by
  induction a with
  | nil => simp [byteLen]
  | cons c cs ih => simp [byteLen, ih, Nat.add_assoc]

theorem nlsFrom_append (P : Nat) (a b : List Char) :
    nlsFrom P (a ++ b) = nlsFrom P a ++ nlsFrom (P + byteLen a) b := by
  induction a generalizing P with
  | nil => simp [nlsFrom, byteLen]
  | cons c cs ih =>
    simp only [List.cons_append, nlsFrom, byteLen]
    split
    · next h => subst h; rw [ih]; simp [Nat.add_assoc]; rfl
    · rw [ih]; simp [Nat.add_assoc]

theorem trailingFrom_append (tr : Nat) (a b : List Char) :
    trailingFrom tr (a ++ b) = trailingFrom (trailingFrom tr a) b := by
  induction a generalizing tr with
  | nil => simp [trailingFrom]
  | cons c cs ih => simp only [List.cons_append, trailingFrom]; split <;> rw [ih]

/-- last newline offset + trailing bytes = bytes seen so far -/
theorem last_add_trailing (P tr : Nat) (s : List Char) (pre : List Nat) (h : (pre.getLast?.getD 0) + tr = P) :
    ((pre ++ nlsFrom P s).getLast?.getD 0) + trailingFrom tr s = P + byteLen s := by
  induction s generalizing P tr pre with
  | nil => simp [nlsFrom, trailingFrom, byteLen, h]
  | cons c cs ih =>
    simp only [nlsFrom, trailingFrom, byteLen]
    split
    · next hc =>
      subst hc
      have := ih (P + 1) 0 (pre ++ [P + 1]) (by simp)
      simp only [List.append_assoc, List.singleton_append] at this
      rw [this]; have : ('\n' : Char).utf8Size = 1 := by decide
      omega
    · have := ih (P + c.utf8Size) (tr + c.utf8Size) pre (by omega)
      rw [this]; omega

theorem feedLen_ofText (s : List Char) : feedLen (ofText s) = byteLen s := by
  have := last_add_trailing 0 0 s [0] (by simp)
  simpa [feedLen, lastNl, ofText] using this

theorem feed_ofText (a b : List Char) : feed (ofText a) b = ofText (a ++ b) := by
  have h := feedLen_ofText a
  unfold feedLen at h
  unfold feed
  rw [h, feedGo_spec]
  simp [ofText, nlsFrom_append, trailingFrom_append]

/-! ### sortedness of the newline list -/

theorem nlsFrom_gt (P : Nat) (s : List Char) : ∀ x ∈ nlsFrom P s, P < x := by
  induction s generalizing P with
  | nil => simp [nlsFrom]
  | cons c cs ih =>
    intro x hx
    simp only [nlsFrom] at hx
    split at hx
    · simp only [List.mem_cons] at hx
      rcases hx with h | h
      · omega
      · have := ih (P + 1) x h; omega
    · have := ih _ x hx; omega

theorem nlsFrom_sorted (P : Nat) (s : List Char) : (nlsFrom P s).Pairwise (· < ·) := by
  induction s generalizing P with
  | nil => simp [nlsFrom]
  | cons c cs ih =>
    simp only [nlsFrom]
    split
    · exact List.pairwise_cons.mpr ⟨fun x hx => nlsFrom_gt _ _ x hx, ih _⟩
    · exact ih _

theorem ofText_sorted (s : List Char) : (ofText s).newlines.Pairwise (· < ·) := by
  simp only [ofText]
  exact List.pairwise_cons.mpr ⟨fun x hx => nlsFrom_gt _ _ x hx, nlsFrom_sorted _ _⟩

/-- every entry is at most the text length -/
theorem nlsFrom_le (P : Nat) (s : List Char) : ∀ x ∈ nlsFrom P s, x ≤ P + byteLen s := by
  induction s generalizing P with
  | nil => simp [nlsFrom]
  | cons c cs ih =>
    intro x hx
    simp only [nlsFrom] at hx
    simp only [byteLen]
    split at hx
    · next hc =>
      subst hc
      have h1 : ('\n' : Char).utf8Size = 1 := by decide
      simp only [List.mem_cons] at hx
      rcases hx with h | h
      · omega
      · have := ih (P + 1) x h; omega
    · have := ih _ x hx; omega

/-- Characterisation of the entries: `x` is listed iff a `'\n'` ends at byte `x`. -/
theorem mem_nlsFrom (P : Nat) (s : List Char) (x : Nat) :
    x ∈ nlsFrom P s ↔ ∃ pre post, s = pre ++ '\n' :: post ∧ x = P + byteLen pre + 1 := by
  induction s generalizing P with
  | nil => simp [nlsFrom]
  | cons c cs ih =>
    simp only [nlsFrom]
    constructor
    · intro hx
      split at hx
      · next hc =>
        subst hc
        simp only [List.mem_cons] at hx
        rcases hx with h | h
        · exact ⟨[], cs, by simp, by simp [byteLen, h]⟩
        · obtain ⟨pre, post, h1, h2⟩ := (ih (P + 1)).mp h
          refine ⟨'\n' :: pre, post, by simp [h1], ?_⟩
          have h1 : ('\n' : Char).utf8Size = 1 := by decide
          simp only [byteLen, h1]; omega
      · obtain ⟨pre, post, h1, h2⟩ := (ih _).mp hx
        exact ⟨c :: pre, post, by simp [h1], by simp only [byteLen]; omega⟩
    · rintro ⟨pre, post, h1, h2⟩
      cases pre with
      | nil =>
        simp only [List.nil_append, List.cons.injEq] at h1
        obtain ⟨rfl, rfl⟩ := h1
        simp [byteLen] at h2
        simp [h2]
      | cons p ps =>
        simp only [List.cons_append, List.cons.injEq] at h1
        obtain ⟨rfl, rfl⟩ := h1
        split
        · next hc =>
          subst hc
          have h1 : ('\n' : Char).utf8Size = 1 := by decide
          simp only [List.mem_cons]
          right
          exact (ih (P + 1)).mpr ⟨ps, post, rfl, by simp only [byteLen, h1] at h2; omega⟩
        · exact (ih _).mpr ⟨ps, post, rfl, by simp only [byteLen] at h2; omega⟩

/-! ### generic facts about strictly increasing lists -/

theorem sorted_countP_zero {a x : Nat} {l : List Nat} (hs : (a :: l).Pairwise (· < ·)) (h : ¬ a < x) :
    l.countP (· < x) = 0 ∧ l.filter (· < x) = [] := by
  have := (List.pairwise_cons.mp hs).1
  constructor
  · rw [List.countP_eq_zero]; intro y hy; have := this y hy; simp; omega
  · rw [List.filter_eq_nil_iff]; intro y hy; have := this y hy; simp; omega

theorem sorted_take_countP (l : List Nat) (x : Nat) (hs : l.Pairwise (· < ·)) :
    l.take (l.countP (· < x)) = l.filter (· < x) := by
  induction l with
  | nil => simp
  | cons a l ih =>
    by_cases h : a < x
    · simp [List.countP_cons, List.filter_cons, h, ih (List.pairwise_cons.mp hs).2]
    · obtain ⟨h1, h2⟩ := sorted_countP_zero hs h
      simp [List.countP_cons, List.filter_cons, h, h1, h2]

theorem sorted_drop_countP (l : List Nat) (x : Nat) (hs : l.Pairwise (· < ·)) :
    l.drop (l.countP (· < x)) = l.filter (fun y => ¬ y < x) := by
  induction l with
  | nil => simp
  | cons a l ih =>
    by_cases h : a < x
    · simp [List.countP_cons, List.filter_cons, h, ih (List.pairwise_cons.mp hs).2]
    · obtain ⟨h1, _⟩ := sorted_countP_zero hs h
      have hall : ∀ y ∈ l, ¬ y < x := by
        intro y hy; have := (List.pairwise_cons.mp hs).1 y hy; omega
      simp only [List.countP_cons, h1, h, decide_false, Bool.false_eq_true, ↓reduceIte, Nat.add_zero,
        List.drop_zero, List.filter_cons, decide_not, Bool.not_false]
      congr 1
      symm; rw [List.filter_eq_self]; intro y hy; simpa using hall y hy

end GrmVerif.Newline
