import GrmVerif.Lemmas.LexTiles
/-! Helper lemmas for C09: the run relation `Tiles` determines the event list. -/
namespace GrmVerif.Lex

theorem Emits.unique {r : Rule} {ridx i len : Nat} {ev ev' : Ev}
    (h : Emits r ridx i len ev) (h' : Emits r ridx i len ev') : ev = ev' := by
  rcases h with ⟨hn, rfl⟩ | ⟨t, hn, ht, rfl⟩ <;> rcases h' with ⟨hn', rfl⟩ | ⟨t', hn', ht', rfl⟩
  · rfl
  · rw [hn] at hn'; cases hn'
  · rw [hn'] at hn; cases hn
  · rw [ht] at ht'; cases ht'; rfl

theorem Emits.not_unset {r : Rule} {ridx i len : Nat} {ev : Ev}
    (h : Emits r ridx i len ev) (hn : r.name.isSome = true) (ht : r.tokId = none) : False := by
  rcases h with ⟨hn', _⟩ | ⟨t, _, ht', _⟩
  · rw [hn'] at hn; cases hn
  · rw [ht] at ht'; cases ht'

theorem Moves.unique {cfg : Cfg} {init : St} {ps : List St} {r : Rule} {a b : List St}
    (h : Moves cfg init ps r a) (h' : Moves cfg init ps r b) : a = b := by
  rcases h with ⟨ht, rfl⟩ | ⟨tid, op, s, ht, hg, rfl⟩ <;>
    rcases h' with ⟨ht', rfl⟩ | ⟨tid', op', s', ht', hg', rfl⟩
  · rfl
  · rw [ht] at ht'; cases ht'
  · rw [ht'] at ht; cases ht
  · rw [ht] at ht'; cases ht'; rw [hg] at hg'; cases hg'; rfl

theorem Moves.not_bad {cfg : Cfg} {init : St} {ps : List St} {r : Rule} {a : List St} {tid : Nat} {op : Op}
    (h : Moves cfg init ps r a) (ht : r.target = some (tid, op)) (hg : getState cfg.states tid = none) : False := by
  rcases h with ⟨ht', _⟩ | ⟨tid', op', s, ht', hg', _⟩
  · rw [ht] at ht'; cases ht'
  · rw [ht] at ht'; cases ht'; rw [hg] at hg'; cases hg'

/-- same winner: same index, length and rule -/
theorem le_same {cfg : Cfg} {ml : Nat → Nat → Option Nat} {cur : St} {i a la b lb : Nat} {ra rb : Rule}
    (h1 : LongestEarliest cfg ml cur i a la) (h2 : LongestEarliest cfg ml cur i b lb)
    (hra : cfg.rules[a]? = some ra) (hrb : cfg.rules[b]? = some rb) : a = b ∧ la = lb ∧ ra = rb := by
  obtain ⟨rfl, rfl⟩ := h1.unique h2
  rw [hra] at hrb; cases hrb
  exact ⟨rfl, rfl, rfl⟩

theorem tiles_unique {cfg : Cfg} {ml : Nat → Nat → Option Nat} {n : Nat} {init : St}
    {i : Nat} {ps : List St} {evs : List Ev} (h : Tiles cfg ml n init i ps evs) :
    ∀ evs', Tiles cfg ml n init i ps evs' → evs = evs' := by
  induction h with
  | done hn =>
    intro evs' h'
    cases h' with
    | done _ => rfl
    | stuck hin _ => omega
    | unset hin _ _ _ _ => omega
    | badTarget hin _ _ _ _ _ => omega
    | step hin _ _ _ _ _ => omega
  | stuck hin hs =>
    intro evs' h'
    cases h' with
    | done _ => omega
    | stuck _ _ => rfl
    | unset _ hle _ _ _ => exact absurd hs hle.not_stuck
    | badTarget _ hle _ _ _ _ => exact absurd hs hle.not_stuck
    | step _ hle _ _ _ _ => exact absurd hs hle.not_stuck
  | unset hin hle hr hn ht =>
    intro evs' h'
    cases h' with
    | done _ => omega
    | stuck _ hs => exact absurd hs hle.not_stuck
    | unset _ _ _ _ _ => rfl
    | badTarget _ hle' hr' hem' _ _ =>
      obtain ⟨rfl, rfl, rfl⟩ := le_same hle hle' hr hr'
      exact (hem'.not_unset hn ht).elim
    | step _ hle' hr' hem' _ _ =>
      obtain ⟨rfl, rfl, rfl⟩ := le_same hle hle' hr hr'
      exact (hem'.not_unset hn ht).elim
  | badTarget hin hle hr hem htg hg =>
    intro evs' h'
    cases h' with
    | done _ => omega
    | stuck _ hs => exact absurd hs hle.not_stuck
    | unset _ hle' hr' hn' ht' =>
      obtain ⟨rfl, rfl, rfl⟩ := le_same hle hle' hr hr'
      exact (hem.not_unset hn' ht').elim
    | badTarget _ hle' hr' hem' _ _ =>
      obtain ⟨rfl, rfl, rfl⟩ := le_same hle hle' hr hr'
      rw [hem.unique hem']
    | step _ hle' hr' hem' hmv' _ =>
      obtain ⟨rfl, rfl, rfl⟩ := le_same hle hle' hr hr'
      exact (hmv'.not_bad htg hg).elim
  | step hin hle hr hem hmv _ ih =>
    intro evs' h'
    cases h' with
    | done _ => omega
    | stuck _ hs => exact absurd hs hle.not_stuck
    | unset _ hle' hr' hn' ht' =>
      obtain ⟨rfl, rfl, rfl⟩ := le_same hle hle' hr hr'
      exact (hem.not_unset hn' ht').elim
    | badTarget _ hle' hr' hem' htg' hg' =>
      obtain ⟨rfl, rfl, rfl⟩ := le_same hle hle' hr hr'
      exact (hmv.not_bad htg' hg').elim
    | step _ hle' hr' hem' hmv' hrest' =>
      obtain ⟨rfl, rfl, rfl⟩ := le_same hle hle' hr hr'
      have := hmv.unique hmv'
      subst this
      rw [hem.unique hem', ih _ hrest']

end GrmVerif.Lex
