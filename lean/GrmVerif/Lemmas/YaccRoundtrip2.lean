import GrmVerif.Lemmas.YaccRoundtrip1
/-!
C10, text → AST stage, part 2: `parse_action` reads back a rendered action; the text a rendered item is
followed by; one lemma per branch of the production loop of `parse_rule`.
-/
namespace GrmVerif.YaccRender
open GrmVerif.YaccParse
open GrmVerif.Header (Res Span byteLen dropBytes takeBytes slice sliceRange lookahead
  dropBytes_some dropBytes_advance byteLen_append sliceRange_ok)

theorem incNl_incNl (a b : Nat) (st : St) : St.incNl a (St.incNl b st) = St.incNl (b + a) st := by
  simp [St.incNl, Nat.add_assoc]

theorem incNl_zero (st : St) : St.incNl 0 st = st := rfl

theorem byteLen_eq' (s : List Char) : byteLen s = YaccLex.byteLen s := (byteLen_eq s).symm

/-! ### `parse_action` -/

theorem actionLoop_body {src : List Char} : ∀ (t : List Char) (f j c d : Nat) (st : St) (rest : List Char),
    At src j (t ++ rest) → braceScan c t = some d → 1 ≤ c → t.length < f →
    actionLoop src f j (c : Int) st
      = actionLoop src (f - t.length) (j + byteLen t) (d : Int) (St.incNl (YaccLex.countEol t) st) := by
  intro t
  induction t with
  | nil =>
    intro f j c d st rest _ hb _ _
    simp only [braceScan, Option.some.injEq] at hb
    subst hb
    simp [byteLen, YaccLex.countEol, incNl_zero]
  | cons ch t ih =>
    intro f j c d st rest h hb hc hf
    obtain ⟨f, rfl⟩ : ∃ f', f = f' + 1 := ⟨f - 1, by simp only [List.length_cons] at hf; omega⟩
    simp only [List.length_cons] at hf
    have h' : At src j (ch :: (t ++ rest)) := by simpa using h
    have hnext : At src (j + ch.utf8Size) (t ++ rest) := by
      have := At.adv (a := [ch]) (rest := t ++ rest) (by simpa using h)
      simpa [byteLen] using this
    have e1 : f + 1 - (t.length + 1) = f - t.length := by omega
    have e2 : j + byteLen (ch :: t) = j + ch.utf8Size + byteLen t := by simp [byteLen]; omega
    rw [actionLoop, if_pos h'.lt]
    rw [M.bind_def, show liftR (nextChar src j) st = .ok (ch, st) from liftR_ret h'.nextChar]
    simp only [List.length_cons, e1, e2]
    simp only [braceScan] at hb
    by_cases hopen : ch = '{'
    · subst hopen
      simp only [if_true] at hb ⊢
      have := ih f (j + Char.utf8Size '{') (c + 1) d st rest hnext hb (by omega) (by omega)
      rw [show ((c : Int) + 1) = ((c + 1 : Nat) : Int) by omega, this]
      simp [YaccLex.countEol, YaccLex.isEol]
    · rw [if_neg hopen] at hb ⊢
      by_cases hclose : ch = '}'
      · subst hclose
        simp only [if_true] at hb ⊢
        by_cases hc1 : c ≤ 1
        · simp [hc1] at hb
        · rw [if_neg hc1] at hb
          have := ih f (j + Char.utf8Size '}') (c - 1) d st rest hnext hb (by omega) (by omega)
          rw [if_neg (by omega), show ((c : Int) - 1) = ((c - 1 : Nat) : Int) by omega, this]
          simp [YaccLex.countEol, YaccLex.isEol]
      · rw [if_neg hclose] at hb ⊢
        by_cases heol : YaccLex.isEol ch = true
        · rw [if_pos heol]
          have := ih f (j + ch.utf8Size) c d (St.incNl 1 st) rest hnext hb hc (by omega)
          show actionLoop src f (j + ch.utf8Size) c (St.incNl 1 st) = _
          rw [this, incNl_incNl]
          simp [YaccLex.countEol, heol]
        · rw [if_neg heol]
          have := ih f (j + ch.utf8Size) c d st rest hnext hb hc (by omega)
          rw [this]
          simp [YaccLex.countEol, heol]

theorem parseAction_at {src : List Char} {fuel i : Nat} {a rest : List Char} (st : St)
    (h : At src i ('{' :: (a ++ '}' :: rest))) (ha : wfAction a = true) (hf : a.length + 2 ≤ fuel) :
    M.Ret (parseAction src fuel i) st (i + byteLen a + 2) (St.incNl (YaccLex.countEol a) st) := by
  have hs1 : Char.utf8Size '{' = 1 := by decide
  have h1 : At src (i + 1) (a ++ '}' :: rest) := h.adv1 hs1
  have h2 : At src (i + 1 + byteLen a) ('}' :: rest) := h1.adv
  simp only [wfAction, beq_iff_eq] at ha
  obtain ⟨f, rfl⟩ : ∃ f', fuel = f' + 1 := ⟨fuel - 1, by omega⟩
  have hloop : M.Ret (actionLoop src (f + 1) i 0) st (i + 1 + byteLen a, 0) (St.incNl (YaccLex.countEol a) st) := by
    unfold M.Ret
    rw [actionLoop, if_pos h.lt]
    rw [M.bind_def, show liftR (nextChar src i) st = .ok ('{', st) from liftR_ret h.nextChar]
    simp only [if_true, hs1]
    have := actionLoop_body a f (i + 1) 1 1 st _ h1 ha (by omega) (by omega)
    rw [show ((0 : Int) + 1) = ((1 : Nat) : Int) by rfl, this]
    obtain ⟨g, hg⟩ : ∃ g, f - a.length = g + 1 := ⟨f - a.length - 1, by omega⟩
    rw [hg, actionLoop, if_pos h2.lt]
    rw [M.bind_def, show liftR (nextChar src (i + 1 + byteLen a)) _ = .ok ('}', _) from liftR_ret h2.nextChar]
    simp
    rfl
  unfold parseAction
  refine M.Ret.bind (la_yes "{" (by simpa using h) st) ?_
  dsimp only
  refine M.Ret.bind hloop ?_
  dsimp only
  rw [if_neg (by decide)]
  refine M.Ret.bind (la_yes "}" (by simpa using h2) _) ?_
  dsimp only
  refine M.Ret.bind (liftR_ret (a := a) ?_) ?_
  · have := h1.range (ε := YErr)
    rwa [show i + 1 + byteLen a = i + 1 + byteLen a from rfl] at this
  · show M.Ret (Pure.pure _) _ _ _
    rw [show i + byteLen a + 2 = i + 1 + byteLen a + 1 by omega]
    exact M.Ret.pure

end GrmVerif.YaccRender
