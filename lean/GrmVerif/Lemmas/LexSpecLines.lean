import GrmVerif.Lemmas.LexSpecParse
/-!
Helper lemmas for the whole-specification parse: character classes, positions in the source
(`At src i rest`: `i` is the byte offset at which the suffix `rest` of `src` starts), what the
position primitives of the model return at such a position, and how `splitLinesAt` unfolds.
-/
namespace GrmVerif.LexSpecParse
open GrmVerif.LexUnescape GrmVerif.LexParse

/-! ### Character classes -/

theorem lineSep_pws (c : Char) (h : isLineSep c = true) : isPWS c = true := by
  simp only [isLineSep, isPWS, Bool.or_eq_true, beq_iff_eq, Bool.and_eq_true, decide_eq_true_eq] at *
  omega

theorem spaceSep_pws (c : Char) (h : isSpaceSep c = true) : isPWS c = true := by
  simp only [isSpaceSep, Bool.or_eq_true, beq_iff_eq] at h
  rcases h with rfl | rfl <;> decide

theorem spaceSep_not_lineSep (c : Char) (h : isSpaceSep c = true) : isLineSep c = false := by
  simp only [isSpaceSep, Bool.or_eq_true, beq_iff_eq] at h
  rcases h with rfl | rfl <;> decide

theorem not_pws_not_lineSep (c : Char) (h : isPWS c = false) : isLineSep c = false := by
  cases hc : isLineSep c with
  | false => rfl
  | true => rw [lineSep_pws c hc] at h; cases h

abbrev notSep : Char → Bool := fun c => !isLineSep c

/-! ### Positions -/

/-- the suffix `rest` of `src` starts at byte offset `i` -/
def At (src : List Char) (i : Nat) (rest : List Char) : Prop :=
  ∃ pre, src = pre ++ rest ∧ i = byteLen pre

theorem At.dropB {src : List Char} {i : Nat} {rest : List Char} (h : At src i rest) :
    dropB src i = some rest := by
  obtain ⟨pre, rfl, rfl⟩ := h
  exact dropB_append pre rest

theorem At.adv {src : List Char} {i : Nat} {a b : List Char} (h : At src i (a ++ b)) :
    At src (i + byteLen a) b := by
  obtain ⟨pre, rfl, rfl⟩ := h
  exact ⟨pre ++ a, by simp, by rw [byteLen_append]⟩

theorem At.len {src : List Char} {i : Nat} {rest : List Char} (h : At src i rest) :
    byteLen src = i + byteLen rest := by
  obtain ⟨pre, rfl, rfl⟩ := h
  rw [byteLen_append]

theorem At.slice {src : List Char} {i : Nat} {a b : List Char} (h : At src i (a ++ b)) :
    sliceB src i (i + byteLen a) = some a := by
  unfold sliceB
  have e : i + byteLen a - i = byteLen a := by omega
  simp only [Nat.le_add_right, if_true, h.dropB, Option.bind_some, e]
  exact takeB_append a b

theorem At.start (pre body : List Char) : At (pre ++ body) (byteLen pre) body := ⟨pre, rfl, rfl⟩

theorem At.tw {src : List Char} {i : Nat} {rest : List Char} (p : Char → Bool) (h : At src i rest) :
    At src (i + byteLen (rest.takeWhile p)) (rest.dropWhile p) := by
  apply At.adv
  rw [List.takeWhile_append_dropWhile]; exact h

theorem skipAt_eq {src : List Char} {i : Nat} {rest : List Char} (p : Char → Bool) (h : At src i rest) :
    skipAt p src i = some (i + byteLen (rest.takeWhile p)) := by
  simp only [skipAt, h.dropB, Option.map_some]

theorem lookaheadIs_eq {src : List Char} {i : Nat} {rest : List Char} (s : List Char) (h : At src i rest) :
    lookaheadIs s src i = some (if s.isPrefixOf rest then some (i + byteLen s) else none) := by
  simp only [lookaheadIs, h.dropB, Option.map_some]

theorem lineLenAt_eq {src : List Char} {i : Nat} {rest : List Char} (h : At src i rest) :
    lineLenAt src i = some (byteLen (rest.takeWhile notSep)) := by
  simp only [lineLenAt, h.dropB, Option.map_some]

theorem commentAt_eq (env : Env) {src : List Char} {i : Nat} {rest : List Char} (h : At src i rest) :
    commentAt env src i = some (env.comments && ['/', '/'].isPrefixOf rest) := by
  unfold commentAt
  cases env.comments with
  | false => simp
  | true =>
    simp only [if_true, lookaheadIs_eq _ h, Option.map_some, Bool.true_and]
    cases ['/', '/'].isPrefixOf rest <;> rfl

/-- the line that starts at a position -/
theorem lineSlice_eq {src : List Char} {i : Nat} {rest : List Char} (h : At src i rest) :
    sliceB src i (i + byteLen (rest.takeWhile notSep)) = some (rest.takeWhile notSep) := by
  apply At.slice (b := rest.dropWhile notSep)
  rw [List.takeWhile_append_dropWhile]; exact h

/-! ### Lines -/

/-- the lines after the separator at the head of `r` (none if the text is over) -/
def tailLines : List Char → Nat → List Line
  | [], _ => []
  | c :: cs, off => splitLinesAt cs (off + c.utf8Size)

theorem splitLinesAt_eq (rest : List Char) : ∀ off,
    splitLinesAt rest off
      = (off, rest.takeWhile notSep)
          :: tailLines (rest.dropWhile notSep) (off + byteLen (rest.takeWhile notSep)) := by
  induction rest with
  | nil => intro off; rfl
  | cons c cs ih =>
    intro off
    by_cases hc : isLineSep c = true
    · simp [splitLinesAt, hc, tailLines, byteLen]
    · simp only [Bool.not_eq_true] at hc
      have hn : notSep c = true := by simp [notSep, hc]
      simp only [splitLinesAt, hc, Bool.false_eq_true, if_false, ih (off + c.utf8Size),
        List.takeWhile_cons, List.dropWhile_cons, hn, if_true, byteLen, Nat.add_assoc]

/-- `rest.dropWhile notSep` is empty or starts with a line separator -/
def SepHead (r : List Char) : Prop := ∀ c cs, r = c :: cs → isLineSep c = true

theorem sepHead_dropWhile (rest : List Char) : SepHead (rest.dropWhile notSep) := by
  intro c cs h
  have := dropWhile_head notSep rest c cs h
  simpa using this

theorem allBlank_split (s : List Char) : ∀ off, allBlank (splitLinesAt s off) = s.all isPWS := by
  induction s with
  | nil => intro off; rfl
  | cons c cs ih =>
    intro off
    by_cases hc : isLineSep c = true
    · have := ih (off + c.utf8Size)
      simp only [allBlank] at this
      simp [splitLinesAt, hc, allBlank, this, lineSep_pws c hc]
    · simp only [Bool.not_eq_true] at hc
      have h1 := ih (off + c.utf8Size)
      rw [splitLinesAt_eq] at h1
      simp only [splitLinesAt, hc, Bool.false_eq_true, if_false]
      rw [splitLinesAt_eq cs]
      simp only [allBlank, List.all_cons] at h1 ⊢
      rw [Bool.and_assoc, h1]

theorem allBlank_tail (r : List Char) (hr : SepHead r) (off : Nat) :
    allBlank (tailLines r off) = r.all isPWS := by
  cases r with
  | nil => rfl
  | cons c cs =>
    have := lineSep_pws c (hr c cs rfl)
    simp [tailLines, allBlank_split, this]

end GrmVerif.LexSpecParse
