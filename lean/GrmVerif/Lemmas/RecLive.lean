import GrmVerif.Lemmas.RecSpec
import GrmVerif.Lemmas.TermAdj
/-!
Liveness of the recovering driver (C07). On a certified automaton (`Cert.Props`) that passes the
termination certificate `Term.termCheckAdj`:
* `feed` on a stack that is a path of the automaton never crashes and hands back a path
  (`feed_path`), and it ends (`Term.feed_total_adj`);
* hence every iteration of the recovering loop ends; an iteration shifts a real lexeme, accepts,
  gives up, or recovers, and an iteration after a recovery shifts or accepts (`Runs 1`): from a
  configuration with `d` lexemes left at most `2·d + 2` iterations are needed (`recRunO_returns`).
-/
namespace GrmVerif.C07
open GrmVerif Rec LR Cert Spec Term

/-- **`feed` on a path**: under the certificate, the reductions under a lookahead `la` started on a
stack that is a path of the automaton never crash, and the stack handed back (shifted, accepted or
refused) is again a path; a lookahead that is shifted is not the end-of-input token. -/
theorem feed_path {G : Grammar} {A : Automaton} (P : Props G A) (la : Nat) (hla : la < G.ntoks) :
    ∀ (fuel : Nat) (stack : List Nat), IsPath A stack →
      feed G A la fuel stack ≠ .crash ∧
      (∀ s, feed G A la fuel stack = .shifted s → IsPath A s ∧ la ≠ G.eof) ∧
      (∀ s, feed G A la fuel stack = .error s → IsPath A s) ∧
      (∀ s, feed G A la fuel stack = .accept s → IsPath A s) := by
  intro fuel
  induction fuel with
  | zero => intro stack _; simp [feed]
  | succ n ih =>
    intro stack hp
    cases stack with
    | nil => obtain ⟨labels, hpath⟩ := hp; cases hpath
    | cons st rest =>
      have hst : st < A.nstates := hp.states_lt P st (by simp)
      cases hact : A.action st la with
      | shift s' =>
        have hedge := P.actShift st la s' hst hla hact
        simp only [feed, hact]
        refine ⟨by simp, ?_, by simp, by simp⟩
        intro s hs
        injection hs with hs; subst hs
        refine ⟨hp.push hedge, ?_⟩
        intro h; rw [h] at hedge; exact no_eof_edge P hst hedge
      | accept =>
        simp only [feed, hact]
        refine ⟨by simp, by simp, by simp, ?_⟩
        intro s hs; injection hs with hs; subst hs; exact hp
      | error =>
        simp only [feed, hact]
        refine ⟨by simp, by simp, ?_, by simp⟩
        intro s hs; injection hs with hs; subst hs; exact hp
      | reduce p =>
        obtain ⟨labels, hpath⟩ := hp
        obtain ⟨hpne, hplt, hitem⟩ := P.actReduce st la p hst hla hact
        obtain ⟨h1, h2, s', h3, h4⟩ := path_item P (G.rhs p).length st rest labels p hpath hitem
        have hlen := hpath.length_eq
        have hnotle : ¬ ((st :: rest).length ≤ (G.rhs p).length) := by omega
        have hdrop : (st :: rest).drop (G.rhs p).length = s' :: (st :: rest).drop ((G.rhs p).length + 1) := by
          rw [List.drop_eq_getElem?_toList_append, h3]; rfl
        have hs'lt : s' < A.nstates := hpath.states_lt P s' (List.mem_of_getElem? h3)
        have hsub := hpath.drop (G.rhs p).length h1
        rw [hdrop] at hsub
        have hgoto : ∃ t, A.edge s' (.rule (G.lhs p)) = some t := by
          obtain ⟨i, him, hip, hid⟩ := h4
          rcases P.justified s' hs'lt i him hid with h | ⟨j, hjm, hj⟩
          · exfalso
            rw [hip] at h
            obtain ⟨_, _, hst'⟩ := kernel0_bottom P hsub h
            obtain ⟨k, hkm, hkp, _⟩ := h
            rw [hst'] at hkm
            have := (P.startCore k hkm).1
            omega
          · rw [hip] at hj
            obtain ⟨t, ht, _⟩ := P.edgeExists s' hs'lt j hjm _ hj
            exact ⟨t, ht⟩
        obtain ⟨t, ht⟩ := hgoto
        have hg : A.goto s' (G.lhs p) = some t := by
          rw [P.gotoEdge s' _ hs'lt (wf_lhs P.wf hplt)]; exact ht
        have hstep : feed G A la (n + 1) (st :: rest) =
            feed G A la n (t :: s' :: (st :: rest).drop ((G.rhs p).length + 1)) := by
          simp only [feed, hact, hnotle, ↓reduceIte, hdrop, hg]
        rw [hstep]
        exact ih _ ⟨_, Path.step s' t _ _ (.rule (G.lhs p)) hsub ht⟩

/-- the lookahead at a position where `feed` shifts is a real lexeme -/
theorem shifted_pos_lt {G : Grammar} {A : Automaton} (P : Props G A) {w : List Nat} (hw : InputOk G w)
    {fuel pos : Nat} {stack s : List Nat} (hp : IsPath A stack)
    (h : feed G A (nextTok G w pos) fuel stack = .shifted s) : pos < w.length := by
  have hne := ((feed_path P _ (nextTok_lt hw P.wf pos) fuel stack hp).2.1 s h).2
  have : ¬ w.length ≤ pos := fun hle => hne ((nextTok_eof hw pos).mpr hle)
  omega

/-- **The recovering loop ends, with an explicit bound.** From a configuration whose stack is a path,
with `d` real lexemes left, `2·d + 2` iterations are enough (`2·d + 1` right after a recovery, when
the plain parse is known to shift or accept next), once `feed` gets enough fuel: there is a threshold
`ff0` and an answer `r` such that every `ff ≥ ff0` gives `some r`. -/
theorem recRunO_returns {G : Grammar} {A : Automaton} (P : Props G A) {N : Nat}
    (ht : termCheckAdj G A N = true) {w : List Nat} (hw : InputOk G w) (K : Nat) (hK : 1 ≤ K)
    (recover : Pos → Option (Pos × List (List Repair))) (hok : RecovererOK G A w K recover)
    (hpath : ∀ c c' rs, IsPath A c.stack → recover c = some (c', rs) → rs ≠ [] → IsPath A c'.stack) :
    ∀ (n : Nat) (c : Pos) (errs : List Err), IsPath A c.stack →
      (2 * (w.length - c.pos) + 2 ≤ n ∨ (Runs G A w 1 c ∧ 2 * (w.length - c.pos) + 1 ≤ n)) →
      ∃ ff0 r, ∀ ff, ff0 ≤ ff → recRunO G A w recover ff n c errs = some r := by
  intro n
  induction n with
  | zero => intro c errs _ hm; omega
  | succ n ih =>
    intro c errs hp hm
    have hla : nextTok G w c.pos < G.ntoks := nextTok_lt hw P.wf c.pos
    obtain ⟨f1, hf1⟩ := feed_total_adj P ht _ hla c.stack hp
    obtain ⟨hnc, hsh, her, _⟩ := feed_path P _ hla f1 c.stack hp
    have key : ∀ ff, max f1 FUEL ≤ ff →
        feed G A (nextTok G w c.pos) ff c.stack = feed G A (nextTok G w c.pos) f1 c.stack :=
      fun ff hff => feed_ge rfl hf1 (by omega)
    cases hR : feed G A (nextTok G w c.pos) f1 c.stack with
    | fuelOut => exact absurd hR hf1
    | crash => exact absurd hR hnc
    | accept s =>
      refine ⟨max f1 FUEL, (true, errs), fun ff hff => ?_⟩
      simp only [recRunO, key ff hff, hR]
    | shifted s =>
      obtain ⟨hps, _⟩ := hsh s hR
      have hlt : c.pos < w.length := shifted_pos_lt P hw hp hR
      obtain ⟨ff1, r, h1⟩ := ih ⟨s, c.pos + 1⟩ errs hps (Or.inl (by
        rcases hm with hm | ⟨_, hm⟩ <;> simp only <;> omega))
      refine ⟨max (max f1 FUEL) ff1, r, fun ff hff => ?_⟩
      simp only [recRunO, key ff (by omega), hR]
      exact h1 ff (by omega)
    | error s =>
      -- a configuration from which the plain parse is known to shift or accept does not refuse
      have hfuel : feed G A (nextTok G w c.pos) (max f1 FUEL) c.stack = .error s := by
        rw [key _ (Nat.le_refl _), hR]
      have hm' : 2 * (w.length - c.pos) + 2 ≤ n + 1 := by
        rcases hm with hm | ⟨hr, _⟩
        · exact hm
        · exfalso
          cases hr with
          | acc _ _ s' ha => rw [feed_ge ha (by simp) (by omega)] at hfuel; cases hfuel
          | shift _ _ s' hs _ => rw [feed_ge hs (by simp) (by omega)] at hfuel; cases hfuel
      cases hrec : recover ⟨s, c.pos⟩ with
      | none =>
        refine ⟨max f1 FUEL, (false, errs ++ [⟨c.pos, []⟩]), fun ff hff => ?_⟩
        simp only [recRunO, key ff hff, hR, hrec]
      | some x =>
        obtain ⟨c', rs⟩ := x
        by_cases hemp : rs.isEmpty = true
        · refine ⟨max f1 FUEL, (false, errs ++ [⟨c.pos, []⟩]), fun ff hff => ?_⟩
          simp only [recRunO, key ff hff, hR, hrec, hemp, ↓reduceIte]
        · have hne : rs ≠ [] := by intro e; subst e; simp at hemp
          obtain ⟨hpos, hrun⟩ := hok ⟨s, c.pos⟩ c' rs hrec hne
          simp only at hpos
          have hp' : IsPath A c'.stack := hpath ⟨s, c.pos⟩ c' rs (her s hR) hrec hne
          obtain ⟨ff1, r, h1⟩ := ih c' (errs ++ [⟨c.pos, rs⟩]) hp'
            (Or.inr ⟨hrun.le 1 hK, by omega⟩)
          refine ⟨max (max f1 FUEL) ff1, r, fun ff hff => ?_⟩
          simp only [recRunO, key ff (by omega), hR, hrec, hemp]
          exact h1 ff (by omega)

/-! ### recoverers that continue from where a valid sequence leaves the parser -/

/-- every token a sequence inserts is a token of the grammar -/
def InsertsOk (G : Grammar) (rs : List Repair) : Prop := ∀ t, Repair.insert t ∈ rs → t < G.ntoks

/-- applying a repair sequence (whose inserted tokens are tokens of the grammar) to a stack that is a
path leaves a path -/
theorem applySeq_isPath {G : Grammar} {A : Automaton} (P : Props G A) {w : List Nat} (hw : InputOk G w) :
    ∀ (rs : List Repair) (c c' : Pos), InsertsOk G rs → IsPath A c.stack →
      applySeq G A w c rs = some c' → IsPath A c'.stack := by
  intro rs
  induction rs with
  | nil => intro c c' _ hp h; simp only [applySeq, Option.some.injEq] at h; subst h; exact hp
  | cons r rs ih =>
    intro c c' hins hp h
    simp only [applySeq] at h
    cases hr : applyRepair G A w c r with
    | none => rw [hr] at h; cases h
    | some c1 =>
      rw [hr] at h
      simp only at h
      refine ih c1 c' (fun t ht => hins t (List.mem_cons_of_mem _ ht)) ?_ h
      cases r with
      | insert t =>
        have htl : t < G.ntoks := hins t (by simp)
        simp only [applyRepair] at hr
        cases hf : feed G A t FUEL c.stack with
        | shifted s =>
          rw [hf] at hr; injection hr with hr; subst hr
          exact ((feed_path P t htl FUEL c.stack hp).2.1 s hf).1
        | accept s => rw [hf] at hr; cases hr
        | error s => rw [hf] at hr; cases hr
        | crash => rw [hf] at hr; cases hr
        | fuelOut => rw [hf] at hr; cases hr
      | delete =>
        simp only [applyRepair] at hr
        split at hr
        · injection hr with hr; subst hr; exact hp
        · cases hr
      | shift =>
        simp only [applyRepair] at hr
        cases hwp : w[c.pos]? with
        | none => rw [hwp] at hr; cases hr
        | some t =>
          rw [hwp] at hr
          simp only at hr
          have htl : t < G.ntoks := (hw t (List.mem_of_getElem? hwp)).1
          cases hf : feed G A t FUEL c.stack with
          | shifted s =>
            rw [hf] at hr; injection hr with hr; subst hr
            exact ((feed_path P t htl FUEL c.stack hp).2.1 s hf).1
          | accept s => rw [hf] at hr; cases hr
          | error s => rw [hf] at hr; cases hr
          | crash => rw [hf] at hr; cases hr
          | fuelOut => rw [hf] at hr; cases hr

/-- a recoverer that continues from where one of the sequences that repair (`validSeq`) leaves the
parser (`applySeq`); what the real recoverer does with the first sequence it reports, each of which
C05 validates with `validSeq` -/
def ContinuesFromValid (G : Grammar) (A : Automaton) (w : List Nat) (N : Nat)
    (recover : Pos → Option (Pos × List (List Repair))) : Prop :=
  ∀ c c' rs, recover c = some (c', rs) → rs ≠ [] →
    ∃ r, InsertsOk G r ∧ validSeq G A w N c r = true ∧ applySeq G A w c r = some c'

/-- `recoverBy` over candidates that insert only tokens of the grammar is such a recoverer -/
theorem recoverBy_continues (G : Grammar) (A : Automaton) (w : List Nat) (N : Nat)
    (cands : Pos → List (List Repair)) (hc : ∀ c, ∀ r ∈ cands c, InsertsOk G r) :
    ContinuesFromValid G A w N (recoverBy G A w N cands) := by
  intro c c' rs h _
  unfold recoverBy at h
  cases hfl : (cands c).filter (validSeq G A w N c) with
  | nil => rw [hfl] at h; cases h
  | cons r rest =>
    rw [hfl] at h
    simp only at h
    have hr : r ∈ (cands c).filter (validSeq G A w N c) := by rw [hfl]; simp
    obtain ⟨hr1, hr2⟩ := List.mem_filter.mp hr
    cases ha : applySeq G A w c r with
    | none => rw [ha] at h; cases h
    | some c1 =>
      rw [ha] at h
      simp only [Option.some.injEq, Prod.mk.injEq] at h
      exact ⟨r, hc c r hr1, hr2, by rw [← h.1]; exact ha⟩

/-- **errors lie within the input**: in a run that ended, started on a path stack at a position within
the input (or one from which the plain parse shifts or accepts), every reported error is at a position
`≤ |w|` — an error at `|w|` is one at end of input -/
theorem recRunO_err_pos {G : Grammar} {A : Automaton} (P : Props G A) {w : List Nat} (hw : InputOk G w)
    (K : Nat) (hK : 1 ≤ K)
    (recover : Pos → Option (Pos × List (List Repair))) (hok : RecovererOK G A w K recover)
    (hpath : ∀ c c' rs, IsPath A c.stack → recover c = some (c', rs) → rs ≠ [] → IsPath A c'.stack)
    (ff : Nat) (hff : FUEL ≤ ff) :
    ∀ (n : Nat) (c : Pos) (errs : List Err) (r : Bool × List Err), IsPath A c.stack →
      (c.pos ≤ w.length ∨ Runs G A w 1 c) → recRunO G A w recover ff n c errs = some r →
      ∃ new, r.2 = errs ++ new ∧ ∀ e ∈ new, e.pos ≤ w.length := by
  intro n
  induction n with
  | zero => intro c errs r _ _ h; simp [recRunO] at h
  | succ n ih =>
    intro c errs r hp hm h
    simp only [recRunO] at h
    have hla : nextTok G w c.pos < G.ntoks := nextTok_lt hw P.wf c.pos
    obtain ⟨_, _, her, _⟩ := feed_path P _ hla ff c.stack hp
    cases hf : feed G A (nextTok G w c.pos) ff c.stack with
    | crash => rw [hf] at h; cases h
    | fuelOut => rw [hf] at h; cases h
    | accept s =>
      rw [hf] at h
      simp only [Option.some.injEq] at h
      exact ⟨[], by rw [← h]; simp, by simp⟩
    | shifted s =>
      rw [hf] at h
      have hlt : c.pos < w.length := shifted_pos_lt P hw hp hf
      have hps := ((feed_path P _ hla ff c.stack hp).2.1 s hf).1
      exact ih ⟨s, c.pos + 1⟩ errs r hps (Or.inl (by simp only; omega)) h
    | error s =>
      rw [hf] at h
      simp only [] at h
      have hpos : c.pos ≤ w.length := by
        rcases hm with hm | hr
        · exact hm
        · exfalso
          cases hr with
          | acc _ _ s' ha => rw [feed_ge ha (by simp) hff] at hf; cases hf
          | shift _ _ s' hs _ => rw [feed_ge hs (by simp) hff] at hf; cases hf
      have giveUp : some (false, errs ++ [(⟨c.pos, []⟩ : Err)]) = some r →
          ∃ new, r.2 = errs ++ new ∧ ∀ e ∈ new, e.pos ≤ w.length := by
        intro h
        simp only [Option.some.injEq] at h
        refine ⟨[⟨c.pos, []⟩], by rw [← h], ?_⟩
        intro e he; simp only [List.mem_singleton] at he; subst he; exact hpos
      cases hrec : recover ⟨s, c.pos⟩ with
      | none => rw [hrec] at h; exact giveUp h
      | some x =>
        obtain ⟨c', rs⟩ := x
        rw [hrec] at h
        simp only [] at h
        by_cases hemp : rs.isEmpty = true
        · rw [if_pos hemp] at h; exact giveUp h
        · rw [if_neg hemp] at h
          have hne : rs ≠ [] := by intro e; subst e; simp at hemp
          obtain ⟨_, hrun⟩ := hok ⟨s, c.pos⟩ c' rs hrec hne
          have hp' : IsPath A c'.stack := hpath ⟨s, c.pos⟩ c' rs (her s hf) hrec hne
          obtain ⟨new, h1, h2⟩ := ih c' _ r hp' (Or.inr (hrun.le 1 hK)) h
          refine ⟨⟨c.pos, rs⟩ :: new, by simp [h1], ?_⟩
          intro e he
          rcases List.mem_cons.mp he with rfl | he
          · exact hpos
          · exact h2 e he

end GrmVerif.C07
