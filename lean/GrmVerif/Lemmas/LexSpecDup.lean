import GrmVerif.Lemmas.LexSpecProps
import GrmVerif.Model.LexTables
/-!
Names in a whole specification. Duplicate rule names and duplicate start-state names: how
`add_duplicate_occurrence` (`addDup`) evolves the error list, and that two occurrences of a name end up
in one error record unless the parse is stopped by another error first; no definition carries a name
twice; looking names up; unknown start states.
-/
namespace GrmVerif.LexSpecParse
open GrmVerif.LexUnescape GrmVerif.LexParse

/-! ### Duplicates -/

/-- `e` is the record of the duplicates of the occurrence at span `o` -/
def isDupOf (k : EKind) (o : Nat × Nat) (e : Err) : Bool := decide (e.kind = k ∧ e.spans.head? = some o)

/-- some error of kind `k` lists both spans -/
def HasDup (k : EKind) (s1 s2 : Nat × Nat) (es : List Err) : Prop :=
  ∃ e ∈ es, e.kind = k ∧ s1 ∈ e.spans ∧ s2 ∈ e.spans

theorem head?_append_of_some {α} (l m : List α) (x : α) (h : l.head? = some x) : (l ++ m).head? = some x := by
  cases l with
  | nil => simp at h
  | cons a l => simpa using h

theorem find_addDup_same (k : EKind) (o d : Nat × Nat) : ∀ es : List Err,
    (addDup es k o d).find? (isDupOf k o)
      = some ⟨k, match es.find? (isDupOf k o) with
                 | some e => e.spans ++ [d]
                 | none => [o, d]⟩ := by
  intro es
  induction es with
  | nil => simp [addDup, isDupOf]
  | cons e es ih =>
    rw [addDup]
    by_cases hm : e.kind = k ∧ e.spans.head? = some o
    · have h1 : isDupOf k o e = true := by simp [isDupOf, hm]
      have h2 : isDupOf k o ⟨e.kind, e.spans ++ [d]⟩ = true := by
        simp only [isDupOf, decide_eq_true_eq]
        exact ⟨hm.1, head?_append_of_some _ _ _ hm.2⟩
      rw [hm.1] at h2
      simp only [hm, and_self, if_true, List.find?_cons, h1, h2]
    · have h1 : isDupOf k o e = false := by simp [isDupOf, hm]
      simp only [hm, if_false, List.find?_cons, h1, ih]

theorem find_addDup_other (k k' : EKind) (o o' d : Nat × Nat) (hne : ¬ (k' = k ∧ o' = o)) :
    ∀ es : List Err, ∃ f : Err → Err, (∀ e, (f e).kind = e.kind ∧ ∀ s ∈ e.spans, s ∈ (f e).spans) ∧
      (addDup es k' o' d).find? (isDupOf k o) = (es.find? (isDupOf k o)).map f := by
  intro es
  refine ⟨id, fun e => ⟨rfl, fun s hs => hs⟩, ?_⟩
  simp only [Option.map_id, id]
  induction es with
  | nil =>
    have : isDupOf k o ⟨k', [o', d]⟩ = false := by
      simp only [isDupOf, List.head?_cons, Option.some.injEq, decide_eq_false_iff_not]; exact hne
    simp [addDup, this]
  | cons e es ih =>
    rw [addDup]
    by_cases hm : e.kind = k' ∧ e.spans.head? = some o'
    · have h1 : isDupOf k o e = false := by
        simp only [isDupOf, decide_eq_false_iff_not]
        intro h
        apply hne
        refine ⟨by rw [← hm.1, h.1], ?_⟩
        have := hm.2; rw [h.2] at this; exact (Option.some.inj this).symm
      have h2 : isDupOf k o ⟨e.kind, e.spans ++ [d]⟩ = false := by
        simp only [isDupOf, decide_eq_false_iff_not]
        intro h
        apply hne
        refine ⟨by rw [← hm.1, h.1], ?_⟩
        have := head?_append_of_some _ [d] _ hm.2; rw [h.2] at this; exact (Option.some.inj this).symm
      rw [hm.1] at h2
      simp only [hm, and_self, if_true, List.find?_cons, h1, h2]
    · simp only [hm, if_false, List.find?_cons, ih]

/-- a record that exists keeps existing, with at least the spans it had, whatever is added -/
theorem find_addDup_mono (k k' : EKind) (o o' d : Nat × Nat) (es : List Err) (e : Err)
    (h : es.find? (isDupOf k o) = some e) :
    ∃ e', (addDup es k' o' d).find? (isDupOf k o) = some e' ∧ ∀ s ∈ e.spans, s ∈ e'.spans := by
  by_cases hne : k' = k ∧ o' = o
  · obtain ⟨rfl, rfl⟩ := hne
    refine ⟨_, find_addDup_same k' o' d es, ?_⟩
    intro s hs; simp only [h]; simp [hs]
  · obtain ⟨f, hf, hfind⟩ := find_addDup_other k k' o o' d hne es
    refine ⟨f e, by rw [hfind, h]; rfl, (hf e).2⟩

theorem find_append_mono (p : Err → Bool) (es : List Err) (x e : Err) (h : es.find? p = some e) :
    (es ++ [x]).find? p = some e := by
  rw [List.find?_append, h]; rfl

theorem hasDup_of_find (k : EKind) (o s1 s2 : Nat × Nat) (es : List Err) (e : Err)
    (h : es.find? (isDupOf k o) = some e) (h1 : s1 ∈ e.spans) (h2 : s2 ∈ e.spans) : HasDup k s1 s2 es := by
  refine ⟨e, List.mem_of_find?_eq_some h, ?_, h1, h2⟩
  have := List.find?_some h
  simp only [isDupOf, decide_eq_true_eq] at this
  exact this.1

/-- a record of kind `k` lists all the spans of `S` -/
def Rec (k : EKind) (S : List (Nat × Nat)) (es : List Err) : Prop :=
  ∃ o e, es.find? (isDupOf k o) = some e ∧ ∀ s ∈ S, s ∈ e.spans

theorem Rec.addDup {k : EKind} {S : List (Nat × Nat)} {es : List Err} (h : Rec k S es)
    (k' : EKind) (o' d : Nat × Nat) : Rec k S (addDup es k' o' d) := by
  obtain ⟨o, e, hf, hs⟩ := h
  obtain ⟨e', hf', hs'⟩ := find_addDup_mono k k' o o' d es e hf
  exact ⟨o, e', hf', fun s hsS => hs' s (hs s hsS)⟩

theorem Rec.append {k : EKind} {S : List (Nat × Nat)} {es : List Err} (h : Rec k S es) (x : Err) :
    Rec k S (es ++ [x]) := by
  obtain ⟨o, e, hf, hs⟩ := h
  exact ⟨o, e, find_append_mono _ es x e hf, hs⟩

theorem Rec.hasDup {k : EKind} {s1 s2 : Nat × Nat} {es : List Err} (h : Rec k [s1, s2] es) :
    HasDup k s1 s2 es := by
  obtain ⟨o, e, hf, hs⟩ := h
  exact hasDup_of_find k o s1 s2 es e hf (hs s1 (by simp)) (hs s2 (by simp))

theorem pushParsed_ok (env : Env) (i : Nat) (name : Option (List Char)) (span : Nat × Nat)
    (tgt : Option (Nat × Nat)) (st st' : PState) (r : Except ErrKind (List (List Char) × List Char))
    (h : pushParsed env i name span tgt st r = .ok st') :
    ∃ x : Rule, st' = { st with rules := st.rules ++ [x] } ∧ x.name = name ∧ x.span = span := by
  unfold pushParsed at h
  cases r with
  | error k => simp at h
  | ok v =>
    obtain ⟨names, re⟩ := v
    simp only at h
    cases hra : resolveAll st.states names with
    | none => simp [hra] at h
    | some ids =>
      simp only [hra] at h
      by_cases hc : env.compiles re = true
      · simp only [hc, if_true, Except.ok.injEq] at h
        exact ⟨_, h.symm, rfl, rfl⟩
      · simp [hc] at h

/-- what a step that returns did: one more duplicate occurrence, or one more rule -/
theorem ruleStepSpec_ok_shape (env : Env) (off : Nat) (raw : List Char) (st st' : PState)
    (h : ruleStepSpec env off raw st = .ok st') :
    (∃ o d, st' = { st with errs := addDup st.errs .duplicateName o d }) ∨
    (∃ x : Rule, st' = { st with rules := st.rules ++ [x] }) := by
  unfold ruleStepSpec at h
  cases hl : lastSplit isSpaceSep (dropTrailing isPWS raw) with
  | none => simp [hl] at h
  | some t =>
    obtain ⟨pre, s, post⟩ := t
    simp only [hl] at h
    cases hts : targetSpec post with
    | none => simp [hts] at h
    | some t2 =>
      obtain ⟨target, tlen, orig⟩ := t2
      simp only [hts] at h
      cases hrt : resolveTarget st.states target with
      | none => simp [hrt] at h
      | some tgt =>
        simp only [hrt] at h
        by_cases hskip : isSkipName orig = true
        · simp only [hskip, if_true] at h
          obtain ⟨x, hx, _⟩ := pushParsed_ok _ _ _ _ _ _ _ _ h
          exact Or.inr ⟨x, hx⟩
        · simp only [hskip, Bool.false_eq_true, if_false] at h
          by_cases hq : quotedOk orig = true
          · simp only [hq, Bool.not_true, Bool.false_eq_true, if_false] at h
            cases hf : findRule st.rules ((orig.drop 1).dropLast) with
            | some r =>
              simp only [hf, Except.ok.injEq] at h
              exact Or.inl ⟨_, _, h.symm⟩
            | none =>
              simp only [hf] at h
              obtain ⟨x, hx, _⟩ := pushParsed_ok _ _ _ _ _ _ _ _ h
              exact Or.inr ⟨x, hx⟩
          · simp [hq] at h

/-- how `ruleSpec` and `ruleLinesOf` go through one line together -/
theorem ruleSpec_cons (env : Env) (off : Nat) (l : List Char) (ls : List Line) (st : PState) :
    (ruleLinesOf env.comments ((off, l) :: ls) = ruleLinesOf env.comments ls ∧
      ∃ st1, (st1 = st ∨ ∃ x, x.kind = .verbatimNotSupported ∧ st1 = { st with errs := st.errs ++ [x] }) ∧
        ruleSpec env ((off, l) :: ls) st = ruleSpec env ls st1) ∨
    (ruleLinesOf env.comments ((off, l) :: ls) = [] ∧
      (ruleSpec env ((off, l) :: ls) st = .ok st ∨
        ruleSpec env ((off, l) :: ls) st = .error (st.errs ++ [mkErr .routinesNotSupported off]))) ∨
    (ruleLinesOf env.comments ((off, l) :: ls) = (off, l) :: ruleLinesOf env.comments ls ∧
      ruleSpec env ((off, l) :: ls) st =
        match ruleStepSpec env off l st with
        | .error es => .error es
        | .ok st' => ruleSpec env ls st') := by
  cases l with
  | nil =>
    left
    rw [ruleSpec, ruleLinesOf]
    exact ⟨rfl, st, Or.inl rfl, rfl⟩
  | cons c l' =>
    rw [ruleSpec, ruleLinesOf]
    by_cases hcm : (env.comments && ['/', '/'].isPrefixOf (c :: l')) = true
    · left
      simp only [hcm, if_true]
      exact ⟨trivial, st, Or.inl rfl, rfl⟩
    · simp only [hcm, Bool.false_eq_true, if_false]
      by_cases hw : isPWS c = true
      · left
        simp only [hw, if_true]
        exact ⟨trivial, _, Or.inr ⟨_, rfl, rfl⟩, rfl⟩
      · simp only [hw, Bool.false_eq_true, if_false]
        by_cases hp : ['%', '%'].isPrefixOf (c :: l') = true
        · right; left
          simp only [hp, if_true]
          refine ⟨trivial, ?_⟩
          split
          · exact Or.inl rfl
          · exact Or.inr rfl
        · right; right
          simp only [hp, Bool.false_eq_true, if_false]
          exact ⟨trivial, rfl⟩

/-- records survive the rules section -/
theorem ruleSpec_keeps_rec (env : Env) (k : EKind) (S : List (Nat × Nat)) : ∀ (ls : List Line)
    (st st2 : PState), ruleSpec env ls st = .ok st2 → Rec k S st.errs → Rec k S st2.errs := by
  intro ls
  induction ls with
  | nil => intro st st2 h hr; simp only [ruleSpec, Except.ok.injEq] at h; subst h; exact hr
  | cons ln ls ih =>
    intro st st2 h hr
    obtain ⟨off, l⟩ := ln
    rcases ruleSpec_cons env off l ls st with ⟨_, st1, hst1, heq⟩ | ⟨_, heq | heq⟩ | ⟨_, heq⟩
    · rw [heq] at h
      rcases hst1 with rfl | ⟨x, _, rfl⟩
      · exact ih _ st2 h hr
      · exact ih _ st2 h (hr.append x)
    · rw [heq] at h; simp only [Except.ok.injEq] at h; subst h; exact hr
    · rw [heq] at h; simp at h
    · rw [heq] at h
      cases hstep : ruleStepSpec env off l st with
      | error es => simp [hstep] at h
      | ok st' =>
        simp only [hstep] at h
        apply ih st' st2 h
        rcases ruleStepSpec_ok_shape env off l st st' hstep with ⟨o, d, rfl⟩ | ⟨x, rfl⟩
        · exact hr.addDup _ _ _
        · exact hr

/-! #### Two rules of the same name -/

/-- the name `n` is taken, and the occurrence at `s1` is the rule that took it or is recorded as a
duplicate of it -/
def NameSeen (n : List Char) (s1 : Nat × Nat) (st : PState) : Prop :=
  ∃ r, findRule st.rules n = some r ∧
    (r.span = s1 ∨ ∃ e, st.errs.find? (isDupOf .duplicateName r.span) = some e ∧ s1 ∈ e.spans)

theorem NameSeen.addDup {n : List Char} {s1 : Nat × Nat} {st : PState} (h : NameSeen n s1 st)
    (k' : EKind) (o' d : Nat × Nat) : NameSeen n s1 { st with errs := addDup st.errs k' o' d } := by
  obtain ⟨r, hr, h⟩ := h
  refine ⟨r, hr, ?_⟩
  rcases h with h | ⟨e, he, hs⟩
  · exact Or.inl h
  · obtain ⟨e', he', hs'⟩ := find_addDup_mono .duplicateName k' r.span o' d st.errs e he
    exact Or.inr ⟨e', he', hs' s1 hs⟩

theorem NameSeen.appendErr {n : List Char} {s1 : Nat × Nat} {st : PState} (h : NameSeen n s1 st)
    (x : Err) : NameSeen n s1 { st with errs := st.errs ++ [x] } := by
  obtain ⟨r, hr, h⟩ := h
  refine ⟨r, hr, ?_⟩
  rcases h with h | ⟨e, he, hs⟩
  · exact Or.inl h
  · exact Or.inr ⟨e, find_append_mono _ _ x e he, hs⟩

theorem NameSeen.push {n : List Char} {s1 : Nat × Nat} {st : PState} (h : NameSeen n s1 st)
    (x : Rule) : NameSeen n s1 { st with rules := st.rules ++ [x] } := by
  obtain ⟨r, hr, h⟩ := h
  refine ⟨r, ?_, h⟩
  simp only [findRule] at hr ⊢
  rw [List.find?_append, hr]; rfl

/-- what a step does with a line that carries the name `n` -/
theorem step_named (env : Env) (off : Nat) (raw : List Char) (rl : RuleLine) (n : List Char)
    (st st' : PState) (hrl : ruleLineSpec env.cfg isPWS isSpaceSep raw = .ok rl) (hn : rl.name = some n)
    (h : ruleStepSpec env off raw st = .ok st') :
    (∃ r, findRule st.rules n = some r ∧
      st' = { st with errs := addDup st.errs .duplicateName r.span (off + rl.spanStart, off + rl.spanEnd) }) ∨
    (findRule st.rules n = none ∧ ∃ x : Rule, st' = { st with rules := st.rules ++ [x] } ∧
      x.name = some n ∧ x.span = (off + rl.spanStart, off + rl.spanEnd)) := by
  rw [ruleStepSpec_of_line env off raw rl st hrl] at h
  unfold stepOfLine at h
  cases hrt : resolveTarget st.states rl.target with
  | none => simp [hrt] at h
  | some tgt =>
    simp only [hrt, hn] at h
    cases hf : findRule st.rules n with
    | some r =>
      simp only [hf, Except.ok.injEq] at h
      exact Or.inl ⟨r, rfl, h.symm⟩
    | none =>
      simp only [hf] at h
      obtain ⟨x, hx, hxn, hxs⟩ := pushParsed_ok _ _ _ _ _ _ _ _ h
      exact Or.inr ⟨rfl, x, hx, hxn, hxs⟩

theorem nameSeen_after (env : Env) (off : Nat) (raw : List Char) (rl : RuleLine) (n : List Char)
    (st st' : PState) (hrl : ruleLineSpec env.cfg isPWS isSpaceSep raw = .ok rl) (hn : rl.name = some n)
    (h : ruleStepSpec env off raw st = .ok st') :
    NameSeen n (off + rl.spanStart, off + rl.spanEnd) st' := by
  rcases step_named env off raw rl n st st' hrl hn h with ⟨r, hr, rfl⟩ | ⟨hnone, x, rfl, hxn, hxs⟩
  · refine ⟨r, hr, Or.inr ⟨_, find_addDup_same _ _ _ _, ?_⟩⟩
    simp only
    split <;> simp
  · refine ⟨x, ?_, Or.inl hxs⟩
    simp only [findRule] at hnone ⊢
    rw [List.find?_append, hnone]
    simp [hxn]

theorem rec_after (env : Env) (off : Nat) (raw : List Char) (rl : RuleLine) (n : List Char)
    (s1 : Nat × Nat) (st st' : PState) (hrl : ruleLineSpec env.cfg isPWS isSpaceSep raw = .ok rl)
    (hn : rl.name = some n) (h : ruleStepSpec env off raw st = .ok st') (hseen : NameSeen n s1 st) :
    Rec .duplicateName [s1, (off + rl.spanStart, off + rl.spanEnd)] st'.errs := by
  obtain ⟨r, hr, hs⟩ := hseen
  rcases step_named env off raw rl n st st' hrl hn h with ⟨r', hr', rfl⟩ | ⟨hnone, _⟩
  · rw [hr] at hr'
    obtain rfl := Option.some.inj hr'
    refine ⟨r.span, _, find_addDup_same _ _ _ _, ?_⟩
    intro s hsm
    simp only [List.mem_cons, List.not_mem_nil, or_false] at hsm
    rcases hs with hs | ⟨e, he, hse⟩
    · cases hfe : st.errs.find? (isDupOf .duplicateName r.span) with
      | none =>
        rcases hsm with rfl | rfl <;> simp [hs]
      | some e =>
        have hh := List.find?_some hfe
        simp only [isDupOf, decide_eq_true_eq] at hh
        have hmem : r.span ∈ e.spans := List.mem_of_head? hh.2
        rcases hsm with rfl | rfl
        · rw [← hs]; simp [hmem]
        · simp
    · simp only [he]
      rcases hsm with rfl | rfl <;> simp [hse]
  · rw [hr] at hnone; cases hnone


/-- the name stays seen through the lines before the second occurrence, which then records both -/
theorem ruleSpec_second (env : Env) (n : List Char) (s1 : Nat × Nat) (ln2 : Line) (r2 : RuleLine)
    (h2 : ruleLineSpec env.cfg isPWS isSpaceSep ln2.2 = .ok r2) (hn2 : r2.name = some n) :
    ∀ (ls : List Line) (st st2 : PState), ln2 ∈ ruleLinesOf env.comments ls → NameSeen n s1 st →
      ruleSpec env ls st = .ok st2 →
      Rec .duplicateName [s1, (ln2.1 + r2.spanStart, ln2.1 + r2.spanEnd)] st2.errs := by
  intro ls
  induction ls with
  | nil => intro st st2 hm; simp [ruleLinesOf] at hm
  | cons ln ls ih =>
    intro st st2 hm hseen h
    obtain ⟨off, l⟩ := ln
    rcases ruleSpec_cons env off l ls st with ⟨hl, st1, hst1, heq⟩ | ⟨hl, _⟩ | ⟨hl, heq⟩
    · rw [hl] at hm; rw [heq] at h
      rcases hst1 with rfl | ⟨x, _, rfl⟩
      · exact ih _ st2 hm hseen h
      · exact ih _ st2 hm (hseen.appendErr x) h
    · rw [hl] at hm; simp at hm
    · rw [hl] at hm; rw [heq] at h
      cases hstep : ruleStepSpec env off l st with
      | error es => simp [hstep] at h
      | ok st' =>
        simp only [hstep] at h
        rcases List.mem_cons.mp hm with rfl | hm'
        · exact ruleSpec_keeps_rec env _ _ ls st' st2 h (rec_after env off l r2 n s1 st st' h2 hn2 hstep hseen)
        · apply ih st' st2 hm' _ h
          rcases ruleStepSpec_ok_shape env off l st st' hstep with ⟨o, d, rfl⟩ | ⟨x, rfl⟩
          · exact hseen.addDup _ _ _
          · exact hseen.push x

/-- **two rule lines with the same name**: if the rules section is read to its end, one
`DuplicateName` record lists the spans of both names -/
theorem ruleSpec_dup (env : Env) (n : List Char) (ln1 ln2 : Line) (r1 r2 : RuleLine)
    (h1 : ruleLineSpec env.cfg isPWS isSpaceSep ln1.2 = .ok r1) (hn1 : r1.name = some n)
    (h2 : ruleLineSpec env.cfg isPWS isSpaceSep ln2.2 = .ok r2) (hn2 : r2.name = some n) :
    ∀ (ls : List Line) (st st2 : PState) (A B : List Line),
      ruleLinesOf env.comments ls = A ++ ln1 :: B → ln2 ∈ B → ruleSpec env ls st = .ok st2 →
      Rec .duplicateName [(ln1.1 + r1.spanStart, ln1.1 + r1.spanEnd),
        (ln2.1 + r2.spanStart, ln2.1 + r2.spanEnd)] st2.errs := by
  intro ls
  induction ls with
  | nil => intro st st2 A B hA; simp [ruleLinesOf] at hA
  | cons ln ls ih =>
    intro st st2 A B hA hB h
    obtain ⟨off, l⟩ := ln
    rcases ruleSpec_cons env off l ls st with ⟨hl, st1, _, heq⟩ | ⟨hl, _⟩ | ⟨hl, heq⟩
    · rw [hl] at hA; rw [heq] at h
      exact ih _ st2 A B hA hB h
    · rw [hl] at hA; simp at hA
    · rw [hl] at hA; rw [heq] at h
      cases hstep : ruleStepSpec env off l st with
      | error es => simp [hstep] at h
      | ok st' =>
        simp only [hstep] at h
        cases A with
        | nil =>
          simp only [List.nil_append, List.cons.injEq] at hA
          obtain ⟨rfl, hB'⟩ := hA
          have hseen := nameSeen_after env off l r1 n st st' h1 hn1 hstep
          exact ruleSpec_second env n _ ln2 r2 h2 hn2 ls st' st2 (by rw [hB']; exact hB) hseen h
        | cons a A' =>
          simp only [List.cons_append, List.cons.injEq] at hA
          exact ih st' st2 A' B hA.2 hB h

/-! #### Errors that end the parse -/

/-- the kinds of error after which the parser stops (all but duplicates and verbatim lines) -/
def fatalKind : EKind → Bool
  | .duplicateName | .duplicateStartState | .verbatimNotSupported => false
  | _ => true

/-- the error list ends with the error that stopped the parser -/
def Aborted (es : List Err) : Prop := ∃ e, es.getLast? = some e ∧ fatalKind e.kind = true

theorem aborted_snoc (es : List Err) (k : EKind) (p : Nat) (hk : fatalKind k = true) :
    Aborted (es ++ [mkErr k p]) := ⟨mkErr k p, by simp, hk⟩

theorem pushParsed_err (env : Env) (i : Nat) (name : Option (List Char)) (span : Nat × Nat)
    (tgt : Option (Nat × Nat)) (st : PState) (r : Except ErrKind (List (List Char) × List Char))
    (es : List Err) (h : pushParsed env i name span tgt st r = .error es) : Aborted es := by
  unfold pushParsed at h
  cases r with
  | error k =>
    simp only [Except.error.injEq] at h
    subst h; apply aborted_snoc; cases k <;> rfl
  | ok v =>
    obtain ⟨names, re⟩ := v
    simp only at h
    cases hra : resolveAll st.states names with
    | none => simp only [hra, Except.error.injEq] at h; subst h; exact aborted_snoc _ _ _ rfl
    | some ids =>
      simp only [hra] at h
      by_cases hc : env.compiles re = true
      · simp [hc] at h
      · simp only [hc, Bool.false_eq_true, if_false, Except.error.injEq] at h
        subst h; exact aborted_snoc _ _ _ rfl

theorem ruleStepSpec_err (env : Env) (off : Nat) (raw : List Char) (st : PState) (es : List Err)
    (h : ruleStepSpec env off raw st = .error es) : Aborted es := by
  unfold ruleStepSpec at h
  cases hl : lastSplit isSpaceSep (dropTrailing isPWS raw) with
  | none => simp only [hl, Except.error.injEq] at h; subst h; exact aborted_snoc _ _ _ rfl
  | some t =>
    obtain ⟨pre, s, post⟩ := t
    simp only [hl] at h
    cases hts : targetSpec post with
    | none => simp only [hts, Except.error.injEq] at h; subst h; exact aborted_snoc _ _ _ rfl
    | some t2 =>
      obtain ⟨target, tlen, orig⟩ := t2
      simp only [hts] at h
      cases hrt : resolveTarget st.states target with
      | none => simp only [hrt, Except.error.injEq] at h; subst h; exact aborted_snoc _ _ _ rfl
      | some tgt =>
        simp only [hrt] at h
        by_cases hskip : isSkipName orig = true
        · simp only [hskip, if_true] at h
          exact pushParsed_err _ _ _ _ _ _ _ _ h
        · simp only [hskip, Bool.false_eq_true, if_false] at h
          by_cases hq : quotedOk orig = true
          · simp only [hq, Bool.not_true, Bool.false_eq_true, if_false] at h
            cases hf : findRule st.rules ((orig.drop 1).dropLast) with
            | some r => simp only [hf] at h; cases h
            | none =>
              simp only [hf] at h
              exact pushParsed_err _ _ _ _ _ _ _ _ h
          · simp only [hq, Bool.not_false, if_true, Except.error.injEq] at h
            subst h; exact aborted_snoc _ _ _ rfl

theorem ruleSpec_err (env : Env) : ∀ (ls : List Line) (st : PState) (es : List Err),
    ruleSpec env ls st = .error es → Aborted es := by
  intro ls
  induction ls with
  | nil => intro st es h; simp [ruleSpec] at h
  | cons ln ls ih =>
    intro st es h
    obtain ⟨off, l⟩ := ln
    rcases ruleSpec_cons env off l ls st with ⟨_, st1, _, heq⟩ | ⟨_, heq | heq⟩ | ⟨_, heq⟩
    · rw [heq] at h; exact ih _ es h
    · rw [heq] at h; simp at h
    · rw [heq] at h; simp only [Except.error.injEq] at h; subst h; exact aborted_snoc _ _ _ rfl
    · rw [heq] at h
      cases hstep : ruleStepSpec env off l st with
      | error es' => simp only [hstep, Except.error.injEq] at h; subst h; exact ruleStepSpec_err _ _ _ _ _ hstep
      | ok st' => simp only [hstep] at h; exact ih st' es h

theorem declareStates_err (excl : Bool) (base : Nat) : ∀ (names : List (List Char × Nat × Nat))
    (st : PState) (es : List Err), declareStates excl base names st = .error es → Aborted es := by
  intro names
  induction names with
  | nil => intro st es h; simp [declareStates] at h
  | cons nm rest ih =>
    intro st es h
    obtain ⟨n, a, b⟩ := nm
    rw [declareStates] at h
    by_cases hv : validStateName n = true
    · simp only [hv, Bool.not_true, Bool.false_eq_true, if_false] at h
      cases hf : findState st.states n with
      | some s => simp only [hf] at h; exact ih _ es h
      | none => simp only [hf] at h; exact ih _ es h
    · simp only [hv, Bool.not_false, if_true, Except.error.injEq] at h
      subst h; exact aborted_snoc _ _ _ rfl

theorem declLineStep_err (o : Nat) (t : List Char) (st : PState) (es : List Err)
    (h : declLineStep o t st = .error es) : Aborted es := by
  unfold declLineStep at h
  cases hparts : declLineParts isPWS t with
  | none => simp only [hparts, Except.error.injEq] at h; subst h; exact aborted_snoc _ _ _ rfl
  | some pn =>
    obtain ⟨excl, names⟩ := pn
    simp only [hparts] at h
    cases hds : declareStates excl o names st with
    | error es' =>
      simp only [hds, Except.error.injEq] at h; subst h
      exact declareStates_err _ _ _ _ _ hds
    | ok st2 => simp [hds] at h

theorem declSpec_err (env : Env) (len : Nat) : ∀ (ls : List Line) (st : PState) (es : List Err),
    declSpec env len ls st = .error es → Aborted es := by
  intro ls
  induction ls with
  | nil =>
    intro st es h
    simp only [declSpec, Except.error.injEq] at h; subst h; exact aborted_snoc _ _ _ rfl
  | cons ln ls ih =>
    intro st es h
    obtain ⟨off, l⟩ := ln
    rw [declSpec] at h
    simp only at h
    by_cases h1 : (l.dropWhile isPWS).isEmpty = true
    · simp only [h1, if_true] at h; exact ih st es h
    · simp only [h1, Bool.false_eq_true, if_false] at h
      by_cases hcm : (env.comments && ['/', '/'].isPrefixOf (l.dropWhile isPWS)) = true
      · simp only [hcm, if_true] at h; exact ih st es h
      · simp only [hcm, Bool.false_eq_true, if_false] at h
        by_cases hp : ['%', '%'].isPrefixOf (l.dropWhile isPWS) = true
        · simp [hp] at h
        · simp only [hp, Bool.false_eq_true, if_false] at h
          cases hstep : declLineStep (off + byteLen (l.takeWhile isPWS)) (l.dropWhile isPWS) st with
          | error es' =>
            simp only [hstep, Except.error.injEq] at h; subst h
            exact declLineStep_err _ _ _ _ hstep
          | ok v =>
            obtain ⟨e, st'⟩ := v
            simp only [hstep] at h
            exact ih st' es h

/-! #### Two declarations of the same start state -/

/-- an occurrence of a start-state name: name, span, exclusive? -/
abbrev Occ := List Char × (Nat × Nat) × Bool

/-- `validate_start_state` + push for one valid name -/
def declOne (st : PState) (oc : Occ) : PState :=
  match findState st.states oc.1 with
  | some s => { st with errs := addDup st.errs .duplicateStartState s.span oc.2.1 }
  | none => { st with states := st.states ++ [⟨st.states.length, oc.1, oc.2.1, oc.2.2⟩] }

theorem declareStates_fold (excl : Bool) (base : Nat) : ∀ (names : List (List Char × Nat × Nat))
    (st st' : PState), declareStates excl base names st = .ok st' →
    firstInvalid names = none ∧
      st' = (names.map (fun t => ((t.1, (base + t.2.1, base + t.2.2), excl) : Occ))).foldl declOne st := by
  intro names
  induction names with
  | nil => intro st st' h; simp only [declareStates, Except.ok.injEq] at h; subst h; exact ⟨rfl, rfl⟩
  | cons nm rest ih =>
    intro st st' h
    obtain ⟨n, a, b⟩ := nm
    rw [declareStates] at h
    by_cases hv : validStateName n = true
    · simp only [hv, Bool.not_true, Bool.false_eq_true, if_false] at h
      simp only [firstInvalid, hv, if_true, List.map_cons, List.foldl_cons, declOne]
      cases hf : findState st.states n with
      | some s => simp only [hf] at h ⊢; exact ih _ st' h
      | none => simp only [hf] at h ⊢; exact ih _ st' h
    · simp [hv] at h

theorem declLineStep_fold (o : Nat) (t : List Char) (st st' : PState) (e : Nat)
    (h : declLineStep o t st = .ok (e, st')) : st' = (declaredOn (o, t)).foldl declOne st := by
  unfold declLineStep at h
  cases hparts : declLineParts isPWS t with
  | none => simp [hparts] at h
  | some pn =>
    obtain ⟨excl, names⟩ := pn
    simp only [hparts] at h
    cases hds : declareStates excl o names st with
    | error es => simp [hds] at h
    | ok st2 =>
      simp only [hds, Except.ok.injEq, Prod.mk.injEq] at h
      obtain ⟨_, rfl⟩ := h
      obtain ⟨h3, h4⟩ := declareStates_fold excl o names st st2 hds
      have hpd : parseDeclLine isPWS t = .ok (excl, names) := by
        rw [parseDeclLine_parts, hparts]; simp only [h3]
      rw [h4]; simp only [declaredOn, hpd]

/-- a declarations section that is read to its end: there is a `%%` line, and the state is what
declaring every name of every declaration line, in order, gives -/
theorem declSpec_fold (env : Env) (len : Nat) : ∀ (ls : List Line) (st st1 : PState) (sec : List Line),
    declSpec env len ls st = .ok (sec, st1) →
    rulesSectionOf env.comments ls = some sec ∧
      st1 = ((declLinesOf env.comments ls).flatMap declaredOn).foldl declOne st := by
  intro ls
  induction ls with
  | nil => intro st st1 sec h; simp [declSpec] at h
  | cons ln ls ih =>
    intro st st1 sec h
    obtain ⟨off, l⟩ := ln
    rw [declSpec] at h
    rw [rulesSectionOf, declLinesOf]
    simp only at h ⊢
    by_cases h1 : (l.dropWhile isPWS).isEmpty = true
    · simp only [h1, if_true] at h ⊢; exact ih st st1 sec h
    · simp only [h1, Bool.false_eq_true, if_false] at h ⊢
      by_cases hcm : (env.comments && ['/', '/'].isPrefixOf (l.dropWhile isPWS)) = true
      · simp only [hcm, if_true] at h ⊢; exact ih st st1 sec h
      · simp only [hcm, Bool.false_eq_true, if_false] at h ⊢
        by_cases hp : ['%', '%'].isPrefixOf (l.dropWhile isPWS) = true
        · simp only [hp, if_true, Except.ok.injEq, Prod.mk.injEq] at h ⊢
          obtain ⟨h2, h3⟩ := h
          subst h3
          exact ⟨by rw [h2], by simp⟩
        · simp only [hp, Bool.false_eq_true, if_false] at h ⊢
          cases hstep : declLineStep (off + byteLen (l.takeWhile isPWS)) (l.dropWhile isPWS) st with
          | error es => simp [hstep] at h
          | ok v =>
            obtain ⟨e, st'⟩ := v
            simp only [hstep] at h
            obtain ⟨hsec, hst⟩ := ih st' st1 sec h
            refine ⟨hsec, ?_⟩
            rw [hst, declLineStep_fold _ _ st st' e hstep, List.flatMap_cons, List.foldl_append]

/-- the state name `n` is taken, and the occurrence at `s1` is the state that took it or is recorded
as a duplicate of it -/
def StateSeen (n : List Char) (s1 : Nat × Nat) (st : PState) : Prop :=
  ∃ s, findState st.states n = some s ∧
    (s.span = s1 ∨ ∃ e, st.errs.find? (isDupOf .duplicateStartState s.span) = some e ∧ s1 ∈ e.spans)

theorem declOne_cases (st : PState) (oc : Occ) :
    (∃ s, findState st.states oc.1 = some s ∧
      declOne st oc = { st with errs := addDup st.errs .duplicateStartState s.span oc.2.1 }) ∨
    (findState st.states oc.1 = none ∧
      declOne st oc = { st with states := st.states ++ [⟨st.states.length, oc.1, oc.2.1, oc.2.2⟩] }) := by
  unfold declOne
  cases hf : findState st.states oc.1 with
  | some s => exact Or.inl ⟨s, rfl, rfl⟩
  | none => exact Or.inr ⟨rfl, rfl⟩

theorem StateSeen.step {n : List Char} {s1 : Nat × Nat} {st : PState} (h : StateSeen n s1 st) (oc : Occ) :
    StateSeen n s1 (declOne st oc) := by
  obtain ⟨s, hs, h⟩ := h
  rcases declOne_cases st oc with ⟨s', _, heq⟩ | ⟨_, heq⟩
  · rw [heq]
    refine ⟨s, hs, ?_⟩
    rcases h with h | ⟨e, he, hse⟩
    · exact Or.inl h
    · obtain ⟨e', he', hs'⟩ := find_addDup_mono .duplicateStartState .duplicateStartState s.span s'.span oc.2.1 st.errs e he
      exact Or.inr ⟨e', he', hs' s1 hse⟩
  · rw [heq]
    refine ⟨s, ?_, h⟩
    simp only [findState] at hs ⊢
    rw [List.find?_append, hs]; rfl

theorem stateSeen_after (st : PState) (oc : Occ) : StateSeen oc.1 oc.2.1 (declOne st oc) := by
  rcases declOne_cases st oc with ⟨s, hs, heq⟩ | ⟨hnone, heq⟩
  · rw [heq]
    refine ⟨s, hs, Or.inr ⟨_, find_addDup_same _ _ _ _, ?_⟩⟩
    simp only
    split <;> simp
  · rw [heq]
    refine ⟨⟨st.states.length, oc.1, oc.2.1, oc.2.2⟩, ?_, Or.inl rfl⟩
    simp only [findState] at hnone ⊢
    rw [List.find?_append, hnone]
    simp

theorem stateRec_after (st : PState) (oc : Occ) (s1 : Nat × Nat) (hseen : StateSeen oc.1 s1 st) :
    Rec .duplicateStartState [s1, oc.2.1] (declOne st oc).errs := by
  obtain ⟨s, hs, h⟩ := hseen
  rcases declOne_cases st oc with ⟨s', hs', heq⟩ | ⟨hnone, _⟩
  · rw [hs] at hs'
    obtain rfl := Option.some.inj hs'
    rw [heq]
    refine ⟨s.span, _, find_addDup_same _ _ _ _, ?_⟩
    intro x hx
    simp only [List.mem_cons, List.not_mem_nil, or_false] at hx
    rcases h with h | ⟨e, he, hse⟩
    · cases hfe : st.errs.find? (isDupOf .duplicateStartState s.span) with
      | none => rcases hx with rfl | rfl <;> simp [h]
      | some e =>
        have hh := List.find?_some hfe
        simp only [isDupOf, decide_eq_true_eq] at hh
        have hmem : s.span ∈ e.spans := List.mem_of_head? hh.2
        rcases hx with rfl | rfl
        · rw [← h]; simp [hmem]
        · simp
    · simp only [he]
      rcases hx with rfl | rfl <;> simp [hse]
  · rw [hs] at hnone; cases hnone

theorem Rec.step {k : EKind} {S : List (Nat × Nat)} {st : PState} (h : Rec k S st.errs) (oc : Occ) :
    Rec k S (declOne st oc).errs := by
  rcases declOne_cases st oc with ⟨s', _, heq⟩ | ⟨_, heq⟩
  · rw [heq]; exact h.addDup _ _ _
  · rw [heq]; exact h

theorem fold_keeps_rec {k : EKind} {S : List (Nat × Nat)} : ∀ (l : List Occ) (st : PState),
    Rec k S st.errs → Rec k S (l.foldl declOne st).errs := by
  intro l
  induction l with
  | nil => intro st h; exact h
  | cons oc l ih => intro st h; exact ih _ (h.step oc)

theorem fold_second (oc2 : Occ) (s1 : Nat × Nat) : ∀ (l : List Occ) (st : PState), oc2 ∈ l →
    StateSeen oc2.1 s1 st → Rec .duplicateStartState [s1, oc2.2.1] (l.foldl declOne st).errs := by
  intro l
  induction l with
  | nil => intro st hm; simp at hm
  | cons oc l ih =>
    intro st hm hseen
    rcases List.mem_cons.mp hm with rfl | hm'
    · exact fold_keeps_rec l _ (stateRec_after st oc2 s1 hseen)
    · exact ih _ hm' (hseen.step oc)

/-- **two declarations of the same start state**: declaring the occurrences in order leaves one
`DuplicateStartState` record that lists the spans of both -/
theorem fold_dup (oc1 oc2 : Occ) (hn : oc1.1 = oc2.1) : ∀ (l A B : List Occ) (st : PState),
    l = A ++ oc1 :: B → oc2 ∈ B →
    Rec .duplicateStartState [oc1.2.1, oc2.2.1] (l.foldl declOne st).errs := by
  intro l A
  induction A generalizing l with
  | nil =>
    intro B st hl hB
    subst hl
    simp only [List.nil_append, List.foldl_cons]
    exact fold_second oc2 oc1.2.1 B _ hB (hn ▸ stateSeen_after st oc1)
  | cons a A ih =>
    intro B st hl hB
    subst hl
    simp only [List.cons_append, List.foldl_cons]
    exact ih _ B _ rfl hB


/-! #### The whole specification -/

theorem hasDup_ne_nil {k : EKind} {s1 s2 : Nat × Nat} {es : List Err} (h : HasDup k s1 s2 es) : es ≠ [] := by
  obtain ⟨e, he, _⟩ := h
  intro hn; rw [hn] at he; simp at he

theorem finish_of_rec {k : EKind} {s1 s2 : Nat × Nat} (st2 : PState) (h : Rec k [s1, s2] st2.errs) :
    ∃ es, finish st2 = .error es ∧ HasDup k s1 s2 es := by
  have hd := h.hasDup
  have hne := hasDup_ne_nil hd
  refine ⟨st2.errs, ?_, hd⟩
  unfold finish
  cases he : st2.errs with
  | nil => exact absurd he hne
  | cons e es => rfl

/-- the occurrences of start-state names in a text: the implicit `INITIAL`, then the names of the
declaration lines in order -/
def stateOccs (comments : Bool) (lines : List Line) : List Occ :=
  (initialName, (0, 0), false) :: (declLinesOf comments lines).flatMap declaredOn

/-! #### No definition carries a name twice -/

def RuleNamesDistinct (rules : List Rule) : Prop := (rules.filterMap (·.name)).Nodup
def StateNamesDistinct (sts : List StartState) : Prop := (sts.map (·.name)).Nodup

theorem findRule_none_iff (rules : List Rule) (n : List Char) :
    findRule rules n = none ↔ n ∉ rules.filterMap (·.name) := by
  simp only [findRule, List.find?_eq_none, List.mem_filterMap, not_exists, not_and]
  constructor
  · intro h r hr hn; exact h r hr (by simp [hn])
  · intro h r hr hn; exact h r hr (by simpa using hn)

theorem findState_none_iff (sts : List StartState) (n : List Char) :
    findState sts n = none ↔ n ∉ sts.map (·.name) := by
  simp only [findState, List.find?_eq_none, List.mem_map, not_exists, not_and]
  constructor
  · intro h s hs hn; exact h s hs (by simp [hn])
  · intro h s hs hn; exact h s hs (by simpa using hn)

theorem pushParsed_distinct (env : Env) (i : Nat) (name : Option (List Char)) (span : Nat × Nat)
    (tgt : Option (Nat × Nat)) (st st' : PState) (r : Except ErrKind (List (List Char) × List Char))
    (h : pushParsed env i name span tgt st r = .ok st')
    (hname : ∀ n, name = some n → findRule st.rules n = none) (hd : RuleNamesDistinct st.rules) :
    RuleNamesDistinct st'.rules ∧ st'.states = st.states := by
  obtain ⟨x, rfl, hxn, _⟩ := pushParsed_ok _ _ _ _ _ _ _ _ h
  refine ⟨?_, rfl⟩
  unfold RuleNamesDistinct at *
  simp only [List.filterMap_append, List.filterMap_cons, List.filterMap_nil]
  cases hx : x.name with
  | none => simpa using hd
  | some n =>
    simp only [List.nodup_append, hd, List.nodup_cons, List.not_mem_nil, not_false_eq_true, List.nodup_nil,
      and_self, List.mem_cons, or_false, true_and]
    intro a ha b hb
    subst hb
    have := (findRule_none_iff st.rules b).mp (hname b (by rw [← hxn, hx]))
    intro hab; subst hab; exact this ha

theorem ruleStepSpec_distinct (env : Env) (off : Nat) (raw : List Char) (st st' : PState)
    (h : ruleStepSpec env off raw st = .ok st') (hd : RuleNamesDistinct st.rules) :
    RuleNamesDistinct st'.rules ∧ st'.states = st.states := by
  unfold ruleStepSpec at h
  cases hl : lastSplit isSpaceSep (dropTrailing isPWS raw) with
  | none => simp [hl] at h
  | some t =>
    obtain ⟨pre, s, post⟩ := t
    simp only [hl] at h
    cases hts : targetSpec post with
    | none => simp [hts] at h
    | some t2 =>
      obtain ⟨target, tlen, orig⟩ := t2
      simp only [hts] at h
      cases hrt : resolveTarget st.states target with
      | none => simp [hrt] at h
      | some tgt =>
        simp only [hrt] at h
        by_cases hskip : isSkipName orig = true
        · simp only [hskip, if_true] at h
          exact pushParsed_distinct _ _ _ _ _ _ _ _ h (by intro n hn; cases hn) hd
        · simp only [hskip, Bool.false_eq_true, if_false] at h
          by_cases hq : quotedOk orig = true
          · simp only [hq, Bool.not_true, Bool.false_eq_true, if_false] at h
            cases hf : findRule st.rules ((orig.drop 1).dropLast) with
            | some r =>
              simp only [hf, Except.ok.injEq] at h
              subst h; exact ⟨hd, rfl⟩
            | none =>
              simp only [hf] at h
              exact pushParsed_distinct _ _ _ _ _ _ _ _ h
                (by intro n hn; rw [← Option.some.inj hn]; exact hf) hd
          · simp [hq] at h

theorem ruleSpec_distinct (env : Env) : ∀ (ls : List Line) (st st2 : PState),
    ruleSpec env ls st = .ok st2 → RuleNamesDistinct st.rules →
    RuleNamesDistinct st2.rules ∧ st2.states = st.states := by
  intro ls
  induction ls with
  | nil => intro st st2 h hd; simp only [ruleSpec, Except.ok.injEq] at h; subst h; exact ⟨hd, rfl⟩
  | cons ln ls ih =>
    intro st st2 h hd
    obtain ⟨off, l⟩ := ln
    rcases ruleSpec_cons env off l ls st with ⟨_, st1, hst1, heq⟩ | ⟨_, heq | heq⟩ | ⟨_, heq⟩
    · rw [heq] at h
      rcases hst1 with rfl | ⟨x, _, rfl⟩
      · exact ih _ st2 h hd
      · exact ih { st with errs := st.errs ++ [x] } st2 h hd
    · rw [heq] at h; simp only [Except.ok.injEq] at h; subst h; exact ⟨hd, rfl⟩
    · rw [heq] at h; simp at h
    · rw [heq] at h
      cases hstep : ruleStepSpec env off l st with
      | error es => simp [hstep] at h
      | ok st' =>
        simp only [hstep] at h
        obtain ⟨h1, h2⟩ := ruleStepSpec_distinct env off l st st' hstep hd
        obtain ⟨h3, h4⟩ := ih st' st2 h h1
        exact ⟨h3, by rw [h4, h2]⟩

theorem declOne_distinct (st : PState) (oc : Occ) (hd : StateNamesDistinct st.states) :
    StateNamesDistinct (declOne st oc).states ∧ (declOne st oc).rules = st.rules := by
  rcases declOne_cases st oc with ⟨s, _, heq⟩ | ⟨hnone, heq⟩
  · rw [heq]; exact ⟨hd, rfl⟩
  · rw [heq]
    refine ⟨?_, rfl⟩
    unfold StateNamesDistinct at *
    have := (findState_none_iff st.states oc.1).mp hnone
    simp only [List.map_append, List.map_cons, List.map_nil, List.nodup_append, hd, List.nodup_cons,
      List.not_mem_nil, not_false_eq_true, List.nodup_nil, and_self, List.mem_cons, or_false, true_and]
    intro a ha b hb hab
    subst hb; subst hab; exact this ha

theorem fold_distinct : ∀ (l : List Occ) (st : PState), StateNamesDistinct st.states →
    StateNamesDistinct (l.foldl declOne st).states ∧ (l.foldl declOne st).rules = st.rules := by
  intro l
  induction l with
  | nil => intro st h; exact ⟨h, rfl⟩
  | cons oc l ih =>
    intro st h
    obtain ⟨h1, h2⟩ := declOne_distinct st oc h
    obtain ⟨h3, h4⟩ := ih _ h1
    exact ⟨h3, by rw [List.foldl_cons, h4, h2]⟩

/-- **no definition carries a name twice**: whatever the text, the rules of an accepted
specification have pairwise distinct names, and so have its start states -/
theorem specParse_distinct (env : Env) (pre body : List Char) (sts : List StartState) (rules : List Rule)
    (h : specParse env pre body = .ok (sts, rules)) :
    RuleNamesDistinct rules ∧ StateNamesDistinct sts := by
  unfold specParse specRules at h
  cases hd : declSpec env (byteLen pre + byteLen body) (splitLinesAt body (byteLen pre)) initState with
  | error es => simp [hd] at h
  | ok v =>
    obtain ⟨sec, st1⟩ := v
    simp only [hd, specEnd] at h
    cases hr : ruleSpec env sec st1 with
    | error es => simp [hr] at h
    | ok st2 =>
      simp only [hr, finish] at h
      by_cases he : st2.errs.isEmpty = true
      · simp only [he, if_true, Except.ok.injEq, Prod.mk.injEq] at h
        obtain ⟨hs, hrl⟩ := h
        obtain ⟨_, hst1⟩ := declSpec_fold env _ _ _ _ _ hd
        have hi : StateNamesDistinct initState.states := by simp [StateNamesDistinct, initState]
        obtain ⟨h1, h2⟩ := fold_distinct _ initState hi
        rw [← hst1] at h1 h2
        have h0 : RuleNamesDistinct st1.rules := by rw [h2]; simp [RuleNamesDistinct, initState]
        obtain ⟨h3, h4⟩ := ruleSpec_distinct env sec st1 st2 hr h0
        exact ⟨by rw [← hrl]; exact h3, by rw [← hs, h4]; exact h1⟩
      · simp [he] at h

/-! #### Looking names up -/

theorem findState_some (sts : List StartState) (n : List Char) (s : StartState)
    (h : findState sts n = some s) : s ∈ sts ∧ s.name = n := by
  unfold findState at h
  exact ⟨List.mem_of_find?_eq_some h, by simpa using List.find?_some h⟩

theorem resolveAll_none_iff (sts : List StartState) (names : List (List Char)) :
    resolveAll sts names = none ↔ ∃ n ∈ names, findState sts n = none := by
  induction names with
  | nil => simp [resolveAll]
  | cons n ns ih =>
    rw [resolveAll]
    cases hf : findState sts n with
    | none => simp [hf]
    | some s =>
      simp only [Option.map_eq_none_iff, ih, List.mem_cons, exists_eq_or_imp, hf, reduceCtorEq, false_or]

/-- every name of a restriction that resolves is found, and the ids are those of the states found -/
theorem resolveAll_some (sts : List StartState) : ∀ (names : List (List Char)) (ids : List Nat),
    resolveAll sts names = some ids →
    names.map (fun n => (findState sts n).map (·.id)) = ids.map some := by
  intro names
  induction names with
  | nil => intro ids h; simp only [resolveAll, Option.some.injEq] at h; subst h; rfl
  | cons n ns ih =>
    intro ids h
    rw [resolveAll] at h
    cases hf : findState sts n with
    | none => simp [hf] at h
    | some s =>
      simp only [hf] at h
      cases hr : resolveAll sts ns with
      | none => simp [hr] at h
      | some ids' =>
        simp only [hr, Option.map_some, Option.some.injEq] at h
        subst h
        simp only [List.map_cons, hf, Option.map_some, ih ids' hr]

/-- the numbering of `numberFrom`: the state at position `j` has id `k + j` -/
theorem numberFrom_getElem? (k : Nat) (occs : List Occ) (j : Nat) (s : StartState)
    (h : (numberFrom k occs)[j]? = some s) :
    s.id = k + j ∧ occs[j]? = some (s.name, s.span, s.excl) := by
  unfold numberFrom at h
  simp only [List.getElem?_map, List.getElem?_zipIdx, Option.map_eq_some_iff] at h
  obtain ⟨p, ⟨a, ha, rfl⟩, rfl⟩ := h
  exact ⟨rfl, by simpa using ha⟩

/-! #### Unknown start states -/

/-- a rule line whose target state is not declared: `UnknownStartState` right after the last blank
of the line (where the `<` of the target is), whatever else is wrong with the line -/
theorem step_unknown_target (env : Env) (off : Nat) (raw : List Char) (rl : RuleLine) (st : PState)
    (op : Nat) (n : List Char) (hrl : ruleLineSpec env.cfg isPWS isSpaceSep raw = .ok rl)
    (ht : rl.target = some (op, n)) (hu : findState st.states n = none) :
    ruleStepSpec env off raw st
      = .error (st.errs ++ [mkErr .unknownStartState (off + nameOffOf raw)]) := by
  rw [ruleStepSpec_of_line env off raw rl st hrl]
  unfold stepOfLine
  simp [ht, resolveTarget, hu]

/-- a rule line restricted to a state that is not declared (target known, name not taken):
`UnknownStartState` at the start of the line -/
theorem step_unknown_restriction (env : Env) (off : Nat) (raw : List Char) (rl : RuleLine) (st : PState)
    (tgt : Option (Nat × Nat)) (hrl : ruleLineSpec env.cfg isPWS isSpaceSep raw = .ok rl)
    (htgt : resolveTarget st.states rl.target = some tgt)
    (hfresh : ∀ n, rl.name = some n → findRule st.rules n = none)
    (hu : ∃ n ∈ rl.states, findState st.states n = none) :
    ruleStepSpec env off raw st = .error (st.errs ++ [mkErr .unknownStartState off]) := by
  rw [ruleStepSpec_of_line env off raw rl st hrl]
  unfold stepOfLine
  have hra := (resolveAll_none_iff st.states rl.states).mpr hu
  simp only [htgt]
  cases hn : rl.name with
  | none => simp [pushParsed, hra]
  | some n => simp [hfresh n hn, pushParsed, hra]

theorem zipIdx_map_some {α β} (f : α × Nat → Option β) : ∀ (l : List α) (k0 : Nat) (new : List β),
    (l.zipIdx k0).map f = new.map some → ∀ a ∈ l, ∃ k b, f (a, k) = some b := by
  intro l
  induction l with
  | nil => intro k0 new _ a ha; simp at ha
  | cons x xs ih =>
    intro k0 new h a ha
    cases new with
    | nil => simp at h
    | cons b bs =>
      simp only [List.zipIdx_cons, List.map_cons, List.cons.injEq] at h
      rcases List.mem_cons.mp ha with rfl | ha'
      · exact ⟨k0, b, h.1⟩
      · exact ih (k0 + 1) bs h.2 a ha'

/-- in an accepted specification every state a rule line names is a start state of the definition -/
theorem specParse_ok_names (env : Env) (pre body : List Char) (sts : List StartState) (rules : List Rule)
    (h : specParse env pre body = .ok (sts, rules)) (sec : List Line)
    (hsec : rulesSectionOf env.comments (splitLinesAt body (byteLen pre)) = some sec) :
    ∀ ln ∈ ruleLinesOf env.comments sec, ∃ rl, ruleLineSpec env.cfg isPWS isSpaceSep ln.2 = .ok rl ∧
      (∀ n ∈ rl.states, ∃ s ∈ sts, s.name = n) ∧
      (∀ op n, rl.target = some (op, n) → ∃ s ∈ sts, s.name = n) := by
  obtain ⟨sec', hsec', _, _, hmap⟩ := specParse_ok env pre body sts rules h
  rw [hsec] at hsec'
  obtain rfl := Option.some.inj hsec'
  intro ln hln
  obtain ⟨k, r, hr⟩ := zipIdx_map_some _ _ 0 rules hmap ln hln
  simp only [ruleOfLine] at hr
  cases hrl : ruleLineSpec env.cfg isPWS isSpaceSep ln.2 with
  | error e => simp [hrl] at hr
  | ok rl =>
    simp only [hrl, resolveRule] at hr
    refine ⟨rl, rfl, ?_, ?_⟩
    · intro n hn
      cases hf : findState sts n with
      | some s => exact ⟨s, (findState_some sts n s hf).1, (findState_some sts n s hf).2⟩
      | none =>
        have := (resolveAll_none_iff sts rl.states).mpr ⟨n, hn, hf⟩
        simp [this] at hr
    · intro op n ht
      cases hf : findState sts n with
      | some s => exact ⟨s, (findState_some sts n s hf).1, (findState_some sts n s hf).2⟩
      | none => simp [ht, resolveTarget, hf] at hr

/-! #### Lines sit in the text at their offsets -/

/-- the line `ln` is the text of `src` from byte offset `ln.1` on -/
def Located (src : List Char) (ln : Line) : Prop := ∃ a b, src = a ++ ln.2 ++ b ∧ byteLen a = ln.1

theorem splitLinesAt_located (pre : List Char) : ∀ (s : List Char) (a : List Char),
    ∀ ln ∈ splitLinesAt s (byteLen (pre ++ a)), Located (pre ++ a ++ s) ln := by
  intro s
  induction s with
  | nil =>
    intro a ln hln
    simp only [splitLinesAt, List.mem_singleton] at hln
    subst hln
    exact ⟨pre ++ a, [], by simp, rfl⟩
  | cons c cs ih =>
    intro a ln hln
    have hoff : byteLen (pre ++ a) + c.utf8Size = byteLen (pre ++ (a ++ [c])) := by
      simp only [byteLen_append, byteLen, Nat.add_zero, Nat.add_assoc]
    have hsrc : pre ++ a ++ c :: cs = pre ++ (a ++ [c]) ++ cs := by simp
    by_cases hc : isLineSep c = true
    · simp only [splitLinesAt, hc, if_true, List.mem_cons] at hln
      rcases hln with rfl | hln
      · exact ⟨pre ++ a, c :: cs, by simp, rfl⟩
      · rw [hoff] at hln; rw [hsrc]; exact ih (a ++ [c]) ln hln
    · simp only [Bool.not_eq_true] at hc
      simp only [splitLinesAt, hc, Bool.false_eq_true, if_false] at hln
      rw [hoff, splitLinesAt_eq cs] at hln
      simp only [List.mem_cons] at hln
      rcases hln with rfl | hln
      · have h0 : (byteLen (pre ++ (a ++ [c])), cs.takeWhile notSep) ∈ splitLinesAt cs (byteLen (pre ++ (a ++ [c]))) := by
          rw [splitLinesAt_eq cs]; simp
        obtain ⟨x, y, hxy, hx⟩ := ih (a ++ [c]) _ h0
        simp only at hxy hx
        have hxe : byteLen x = byteLen (pre ++ (a ++ [c])) := hx
        refine ⟨pre ++ a, cs.dropWhile notSep, ?_, rfl⟩
        simp only [List.append_assoc, List.cons_append, List.append_cancel_left_eq, List.cons.injEq, true_and]
        exact (List.takeWhile_append_dropWhile (p := notSep) (l := cs)).symm
      · rw [hsrc]
        apply ih (a ++ [c]) ln
        rw [splitLinesAt_eq cs]; simp [hln]

theorem located_lines (pre body : List Char) :
    ∀ ln ∈ splitLinesAt body (byteLen pre), Located (pre ++ body) ln := by
  have := splitLinesAt_located pre body []
  simpa using this

theorem Located.suffix {src : List Char} {off : Nat} {x y : List Char} (h : Located src (off, x ++ y)) :
    Located src (off + byteLen x, y) := by
  obtain ⟨a, b, hab, ha⟩ := h
  exact ⟨a ++ x, b, by simp [hab], by simp only [byteLen_append]; exact congrArg (· + byteLen x) ha⟩

theorem declLinesOf_located (comments : Bool) (src : List Char) : ∀ (ls : List Line),
    (∀ ln ∈ ls, Located src ln) → ∀ ln ∈ declLinesOf comments ls, Located src ln := by
  intro ls
  induction ls with
  | nil => intro _ ln hln; simp [declLinesOf] at hln
  | cons l0 ls ih =>
    intro hall ln hln
    obtain ⟨off, l⟩ := l0
    have htail : ∀ ln ∈ ls, Located src ln := fun ln h => hall ln (by simp [h])
    rw [declLinesOf] at hln
    split at hln
    · exact ih htail ln hln
    · split at hln
      · exact ih htail ln hln
      · split at hln
        · simp at hln
        · rcases List.mem_cons.mp hln with rfl | hln
          · apply Located.suffix
            rw [List.takeWhile_append_dropWhile]
            exact hall _ (by simp)
          · exact ih htail ln hln

theorem rulesSectionOf_located (comments : Bool) (src : List Char) : ∀ (ls sec : List Line),
    (∀ ln ∈ ls, Located src ln) → rulesSectionOf comments ls = some sec → ∀ ln ∈ sec, Located src ln := by
  intro ls
  induction ls with
  | nil => intro sec _ h; simp [rulesSectionOf] at h
  | cons l0 ls ih =>
    intro sec hall h ln hln
    obtain ⟨off, l⟩ := l0
    have htail : ∀ ln ∈ ls, Located src ln := fun ln h => hall ln (by simp [h])
    rw [rulesSectionOf] at h
    split at h
    · exact ih sec htail h ln hln
    · split at h
      · exact ih sec htail h ln hln
      · split at h
        · next hp =>
          simp only [Option.some.injEq] at h
          subst h
          rcases List.mem_cons.mp hln with rfl | hln
          · have h0 : Located src (off, l) := hall _ (by simp)
            rw [← List.takeWhile_append_dropWhile (p := isPWS) (l := l)] at h0
            have h1 := h0.suffix
            -- the line starts with `%%`
            have hshape : ∃ r, l.dropWhile isPWS = '%' :: '%' :: r := by
              cases hd : l.dropWhile isPWS with
              | nil => rw [hd] at hp; simp [List.isPrefixOf] at hp
              | cons x xs =>
                cases xs with
                | nil => rw [hd] at hp; simp [List.isPrefixOf] at hp
                | cons y ys =>
                  rw [hd] at hp
                  simp only [List.isPrefixOf, Bool.and_eq_true, beq_iff_eq, Bool.and_true] at hp
                  exact ⟨ys, by rw [← hp.1, ← hp.2]⟩
            obtain ⟨r, hr⟩ := hshape
            rw [hr] at h1 ⊢
            have h2 : Located src (off + byteLen (l.takeWhile isPWS) + byteLen ['%', '%'], r) := by
              apply Located.suffix (x := ['%', '%']); simpa using h1
            rw [← List.takeWhile_append_dropWhile (p := isSpaceSep) (l := r)] at h2
            have h3 := h2.suffix
            simp only [List.drop_succ_cons, List.drop_zero]
            have e : off + byteLen (l.takeWhile isPWS) + byteLen ['%', '%']
                = off + byteLen (l.takeWhile isPWS) + 2 := by simp [byteLen, percent_size]
            rw [e] at h3; exact h3
          · exact htail ln hln
        · exact ih sec htail h ln hln

theorem ruleLinesOf_subset (comments : Bool) : ∀ (ls : List Line), ∀ ln ∈ ruleLinesOf comments ls, ln ∈ ls := by
  intro ls
  induction ls with
  | nil => intro ln h; simp [ruleLinesOf] at h
  | cons l0 ls ih =>
    intro ln hln
    obtain ⟨off, l⟩ := l0
    cases l with
    | nil => rw [ruleLinesOf] at hln; exact List.mem_cons_of_mem _ (ih ln hln)
    | cons c l' =>
      rw [ruleLinesOf] at hln
      split at hln
      · exact List.mem_cons_of_mem _ (ih ln hln)
      · split at hln
        · exact List.mem_cons_of_mem _ (ih ln hln)
        · split at hln
          · simp at hln
          · rcases List.mem_cons.mp hln with rfl | hln
            · simp
            · exact List.mem_cons_of_mem _ (ih ln hln)


/-! #### The parser's parameters; rule lines read by the line-level MODEL -/

/-- the environment of the real parser: the escape tables extracted from the sources, the two flags
the parse consults, the regex engine -/
def lexEnv (posix comments : Bool) (compiles : List Char → Bool) : Env :=
  ⟨GrmVerif.LexTables.realCfg posix, comments, compiles⟩

/-- the rule a rule line denotes, the line read by the line-level model `parseRuleLine` -/
def ruleOfLineM (env : Env) (sts : List StartState) (ln : Line) (k : Nat) : Option Rule :=
  match parseRuleLine env.cfg isPWS isSpaceSep ln.2 with
  | some (.ok rl) => resolveRule sts ln.1 k rl
  | _ => none

theorem spaceSep_size (c : Char) (h : isSpaceSep c = true) : c.utf8Size = 1 := by
  simp only [isSpaceSep, Bool.or_eq_true, beq_iff_eq] at h
  rcases h with rfl | rfl <;> decide

theorem ruleOfLineM_eq (env : Env) (hb : env.cfg.BOk) (sts : List StartState) (ln : Line) (k : Nat) :
    ruleOfLineM env sts ln k = ruleOfLine env sts ln k := by
  unfold ruleOfLineM ruleOfLine
  rw [parseRuleLine_eq env.cfg hb isPWS isSpaceSep spaceSep_size]
  cases ruleLineSpec env.cfg isPWS isSpaceSep ln.2 <;> rfl

end GrmVerif.LexSpecParse
